import Gnmi.Lemmas.ManagerShape
import Gnmi.Model.ManagerRun
/-!
# C13 — Target manager: strict per-target session discipline; silence after Remove

Statements about the LTS of `Model/ManagerLTS.lean`: for **every** environment script `env`
(per target: any sequence of credential / dial / open / send failures and streams delivering any
messages and ending in an error, EOF or silence), **every** interleaving of the goroutines
(`retryMonitor` of each instance, timeout goroutines, pending `Reconnect`s) and **every**
sequence and timing of API calls (`Add`, `Remove`, `Reconnect`, on any names).

Standing caveat: this is a proof about the protocol LTS; real timers, gRPC and `context` are
exercised by the `mg` correspondence (`go/vcorr/mg.go`), not proved.
-/
namespace Gnmi.C13
open Gnmi.Manager Gnmi.Session

variable {env : Name → Nat → Attempt}

/-! ## trace_in_discipline -/

/-- Every reachable per-target callback trace is a word of the discipline automaton, and the
automaton is in the state the registered goroutine's program counter says (E.3). -/
theorem trace_state {c : Cfg} (h : Reach env c) (n : Name) :
    Session.run .idle (c.trace n) = some (stateOf c n) := (inv_reach h).sess n

theorem trace_in_discipline {c : Cfg} (h : Reach env c) (n : Name) : Accepts (c.trace n) := by
  unfold Accepts; rw [trace_state h n]; rfl

/-- The full shape of a reachable trace.  `segs` has one entry per finished attempt; entry `k` is a
complete `AttemptTrace` of the script's `k`-th attempt for `n` (`Connect` iff at least one message
was processed, the `Update`/`Sync` callbacks of the processed messages in stream order, exactly
one `Reset` iff `Recv` was attempted, then `ConnectError`, `MonitorError`); what follows them is
the segment of the attempt in progress, a prefix of such an `AttemptTrace` of the next script
entry.  The number of attempts started is the script position `nextAtt n`. -/
theorem trace_shape {c : Cfg} (h : Reach env c) (n : Name) :
    ∃ segs : List (List Ev), ∃ cur : List Ev,
      c.trace n = segs.flatten ++ cur ∧
      (∀ k (hk : k < segs.length), AttemptTrace (env n k) segs[k]) ∧
      ((cur = [] ∧ segs.length = c.nextAtt n) ∨
       (segs.length + 1 = c.nextAtt n ∧ ∃ full, AttemptTrace (env n segs.length) full ∧ cur <+: full)) := by
  have hsh := shape_reach h
  obtain ⟨segs, hl, ha, ht⟩ := hsh.tr n
  refine ⟨segs, curSeg c n, ht, ha, ?_⟩
  unfold inAtt at hl
  unfold curSeg
  cases htg : c.targets n with
  | none => left; simp [htg] at hl; exact ⟨rfl, hl⟩
  | some i =>
    simp only [htg] at hl ⊢
    cases hin : (c.insts i).pc.inAttempt with
    | false =>
      left
      simp [hin] at hl
      refine ⟨?_, hl⟩
      unfold segOf
      cases hp : (c.insts i).pc <;> simp_all [Pc.inAttempt]
    | true =>
      right
      simp [hin] at hl
      refine ⟨hl, ?_⟩
      obtain ⟨full, hf, hpre⟩ := segOf_prefix (hsh.segok i)
      have hc := (hsh.cur n i htg hin).2
      have : c.nextAtt n - 1 = segs.length := by omega
      rw [this] at hc
      exact ⟨full, hc ▸ hf, hpre⟩

/-- Each finished attempt contributes at most one `Connect` and at most one `Reset`, the `Reset`
whenever there was a `Connect`; its `Update` positions increase (stream order); it returns the
automaton to `idle`. -/
theorem attempt_trace_facts {a : Attempt} {tr : List Ev} (h : AttemptTrace a tr) :
    tr.count .connect ≤ 1 ∧ tr.count .reset ≤ 1 ∧ tr.count .connect ≤ tr.count .reset ∧
    tr.count .connectError = 1 ∧ tr.count .monitorError = 1 ∧
    Session.run .idle tr = some .idle :=
  ⟨h.counts.1, h.counts.2.1, h.counts.2.2.1, h.counts.2.2.2.1, h.counts.2.2.2.2, h.run_idle⟩

/-- `Connect` is reported iff the stream delivered (and the manager processed) a first message. -/
theorem attempt_trace_connect {a : Attempt} {tr : List Ev} (h : AttemptTrace a tr) :
    .connect ∈ tr ↔ ∃ ms e j, a = .stream ms e ∧ 0 < j ∧ j ≤ ms.length ∧
      tr = .connect :: evsFrom 0 (ms.take j) ++ [.reset, .connectError, .monitorError] := by
  cases h with
  | early => simp
  | stream ms e j ha hj =>
    by_cases h0 : 0 < j
    · simp only [sessPart, h0, decide_true, if_true]
      constructor
      · intro _; exact ⟨ms, e, j, ha, h0, hj, rfl⟩
      · intro _; simp
    · simp only [sessPart, h0, decide_false]
      constructor
      · intro h; simp at h
      · rintro ⟨ms', e', j', ha', h0', _, htr⟩
        simp at htr

/-- Within a session the `Update` callbacks carry strictly increasing stream positions: updates
(and syncs, interleaved at their places) are delivered in stream order. -/
theorem updates_in_stream_order (ms : List Msg) (j : Nat) :
    (evsFrom 0 (ms.take j)).Pairwise (fun a b => ∀ p q, a = .update p → b = .update q → p < q) :=
  evsFrom_sorted 0 _

/-- The traces predicted by the model driver (`Driver/MG.lean`, sequential schedule of a scripted
scenario) are traces of reachable configurations of this LTS: every theorem here applies to them. -/
theorem exec_reachable (r : RCfg env) (name : Name) (t : TargetSpec) :
    Reach env (runTarget r name t).1.c := (runTarget r name t).1.reach

/-! ## silence_after_remove -/

/-- When `Remove n` returns, `n` is no longer managed. -/
theorem remove_unregisters {c c' : Cfg} {n : Name} (hs : Step env c (.removeRet n) c') :
    c'.targets n = none := by
  generalize hl : Label.removeRet n = l at hs
  cases hs with
  | mon i hm => rename_i ml _; cases ml <;> cases hl
  | removeEnd i _ _ => cases hl; simp
  | _ => cases hl

/-- While `n` is not managed, no step appends a callback to its trace … -/
theorem silent_step {c c' : Cfg} {l : Label} (h : Reach env c) (hs : Step env c l c') {n : Name}
    (hn : c.targets n = none) : c'.trace n = c.trace n ∧ ∀ e, l ≠ .cb n e := by
  refine ⟨step_trace_unmanaged (inv_reach h) hs hn, ?_⟩
  intro e hl
  subst hl
  generalize hl : Label.cb n e = l at hs
  cases hs with
  | mon i hm =>
    rename_i ml _
    cases ml with
    | cb e' =>
      have hg : (c.insts i).pc.gone = false := by
        cases hg0 : (c.insts i).pc.gone
        · rfl
        · exact absurd rfl ((hm.gone_mono hg0).2 e')
      have := (inv_reach h).reg i hg
      cases hl
      rw [hn] at this; cases this
    | tau | begin_ | spawnRecon => cases hl
  | _ => cases hl

/-- … and it stays unmanaged until an `Add n` succeeds.  Hence: once `Remove n` has returned
(`remove_unregisters`), in every continuation, under every schedule and whatever the surviving
goroutines (timeout goroutines, the deferred `Reconnect`, late `Reconnect`s holding the old
`*target`) do, the trace of `n` does not change before the next successful `Add n`. -/
theorem silence_after_remove {c c' : Cfg} {ls : List Label} (h : Reach env c) (hrun : Run env c ls c')
    {n : Name} (hn : c.targets n = none) (hadd : Label.add n true ∉ ls) :
    c'.trace n = c.trace n ∧ c'.targets n = none ∧ ∀ e, Label.cb n e ∉ ls := by
  induction hrun with
  | nil => exact ⟨rfl, hn, fun _ h => by cases h⟩
  | @cons c₁ c₂ c₃ l ls' hs _ ih =>
    have hl : l ≠ .add n true := fun e => hadd (by rw [e]; exact List.mem_cons_self)
    have h1 := silent_step h hs hn
    have h2 := step_targets_none hs hn hl
    have := ih (.step h hs) h2 (fun hm => hadd (List.mem_cons_of_mem _ hm))
    refine ⟨this.1.trans h1.1, this.2.1, ?_⟩
    intro e hm
    cases hm with
    | head => exact h1.2 e rfl
    | tail _ hm => exact this.2.2 e hm

/-! ## add_remove_guard -/

/-- `Add` of a managed name is refused and changes nothing; a successful `Add` registers. -/
theorem add_guard {c c' : Cfg} {n : Name} {ok : Bool} (hs : Step env c (.add n ok) c') :
    (c.targets n ≠ none → ok = false ∧ c' = c) ∧
    (ok = true → c.targets n = none ∧ c'.targets n = some c.nInst ∧ (c'.insts c.nInst).pc = .start ∧
       c'.trace = c.trace) := by
  generalize hl : Label.add n ok = l at hs
  cases hs with
  | mon i hm => rename_i ml _; cases ml <;> cases hl
  | add n' rt hl' ht => cases hl; exact ⟨fun h => absurd ht h, fun _ => ⟨ht, by simp, by simp, rfl⟩⟩
  | addDup n' i hl' ht => cases hl; exact ⟨fun _ => ⟨rfl, rfl⟩, fun h => by cases h⟩
  | addInvalid n' => cases hl; exact ⟨fun _ => ⟨rfl, rfl⟩, fun h => by cases h⟩
  | _ => cases hl

/-- `Remove` of an unknown name is refused and changes nothing. -/
theorem remove_guard {c c' : Cfg} {n : Name} {ok : Bool} (hs : Step env c (.removeCall n ok) c')
    (hn : c.targets n = none) : ok = false ∧ c' = c := by
  generalize hl : Label.removeCall n ok = l at hs
  cases hs with
  | mon i hm => rename_i ml _; cases ml <;> cases hl
  | removeBegin n' i hl' ht => cases hl; rw [hn] at ht; cases ht
  | removeUnknown n' hl' ht => cases hl; exact ⟨rfl, rfl⟩
  | _ => cases hl

/-- `Reconnect` of an unknown name is refused and changes nothing. -/
theorem reconnect_guard {c c' : Cfg} {n : Name} {ok : Bool} (hs : Step env c (.reconnect n ok) c')
    (hn : c.targets n = none) : ok = false ∧ c' = c := by
  generalize hl : Label.reconnect n ok = l at hs
  cases hs with
  | mon i hm => rename_i ml _; cases ml <;> cases hl
  | reconnectLookup n' i hl' ht => cases hl; rw [hn] at ht; cases ht
  | reconnectUnknown n' hl' ht => cases hl; exact ⟨rfl, rfl⟩
  | _ => cases hl

/-- Duplicate `Add` and unknown `Remove` / `Reconnect` are refused and change nothing. -/
theorem add_remove_guard {c c' : Cfg} {n : Name} {ok : Bool} :
    (Step env c (.add n ok) c' → c.targets n ≠ none → ok = false ∧ c' = c) ∧
    (Step env c (.removeCall n ok) c' → c.targets n = none → ok = false ∧ c' = c) ∧
    (Step env c (.reconnect n ok) c' → c.targets n = none → ok = false ∧ c' = c) :=
  ⟨fun h => (add_guard h).1, remove_guard, reconnect_guard⟩

/-- At most one goroutine per name is before `close(finished)`: the registered one. -/
theorem one_monitor_per_name {c : Cfg} (h : Reach env c) {i k : Nat}
    (hi : (c.insts i).pc.gone = false) (hk : (c.insts k).pc.gone = false)
    (hn : (c.insts i).name = (c.insts k).name) : i = k := by
  have h1 := (inv_reach h).reg i hi
  have h2 := (inv_reach h).reg k hk
  rw [hn, h2] at h1; cases h1; rfl

/-! ## remove_returns -/

/-- While `Remove` waits for `finished` (holding `m.mu`), the goroutine it waits for has an
enabled step; that step needs no lock (no `mon` step does), is not the start of a new attempt and
decreases the rank. -/
theorem remove_wait_enabled {c : Cfg} (h : Reach env c) {i : Nat} (hl : c.lock = some i)
    (hf : (c.insts i).finished = false) :
    ∃ ml I', MonStep (env (c.insts i).name (c.nextAtt (c.insts i).name)) (c.insts i) ml I' ∧
      ml ≠ .begin_ ∧ rank I' < rank (c.insts i) := by
  have hi := inv_reach h
  have hg : (c.insts i).pc.gone = false := by rw [← hi.fin i]; exact hf
  obtain ⟨ml, I', hm, hne⟩ := cancelled_enabled _ (hi.lck i hl).2 (pcCur_reach h i) hg
  exact ⟨ml, I', hm, hne, hm.rank_lt hne⟩

/-- No other thread can push the waited-for goroutine back: only its own steps change its rank,
and each of them, except the timer arm of the `select` (a new attempt, which fails at once since
its context is born cancelled), decreases it. -/
theorem remove_wait_stable {c c' : Cfg} {l : Label} (h : Reach env c) (hs : Step env c l c') {i : Nat}
    (hl : c.lock = some i) :
    rank (c'.insts i) = rank (c.insts i) ∨
    ∃ ml, MonStep (env (c.insts i).name (c.nextAtt (c.insts i).name)) (c.insts i) ml (c'.insts i) ∧
      (ml ≠ .begin_ → rank (c'.insts i) < rank (c.insts i)) := by
  rcases step_inst hs i with ⟨hp, hc, _⟩ | ⟨ml, hm⟩ | ⟨hk, _⟩
  · left; unfold rank; rw [hp, hc]
  · exact .inr ⟨ml, hm, hm.rank_lt⟩
  · have := ((inv_reach h).tgt _ i ((inv_reach h).lck i hl).1).2
    omega

theorem remove_returns_aux (r : Nat) : ∀ {c : Cfg}, Reach env c → ∀ {i : Nat}, c.lock = some i →
    rank (c.insts i) ≤ r →
    ∃ ls c', Run env c ls c' ∧ c'.lock = none ∧ c'.targets (c.insts i).name = none ∧
      Label.removeRet (c.insts i).name ∈ ls := by
  induction r with
  | zero =>
    intro c h i hl hr
    have hi := inv_reach h
    cases hf : (c.insts i).finished with
    | true =>
      exact ⟨[_], _, .cons (.removeEnd i hl hf) (.nil _), rfl, by simp, List.mem_cons_self⟩
    | false =>
      obtain ⟨ml, I', _, _, hlt⟩ := remove_wait_enabled h hl hf
      omega
  | succ r ih =>
    intro c h i hl hr
    cases hf : (c.insts i).finished with
    | true =>
      exact ⟨[_], _, .cons (.removeEnd i hl hf) (.nil _), rfl, by simp, List.mem_cons_self⟩
    | false =>
      obtain ⟨ml, I', hm, _, hlt⟩ := remove_wait_enabled h hl hf
      have hs : Step env c _ _ := .mon i hm
      have hl' : (c.applyMon i ml I').lock = some i := by simpa using hl
      have hI : (c.applyMon i ml I').insts i = I' := by simp
      obtain ⟨ls, c', hrun, h1, h2, h3⟩ := ih (.step h hs) hl' (by rw [hI]; omega)
      rw [hI, hm.name_eq] at h2 h3
      exact ⟨_ :: ls, c', .cons hs hrun, h1, h2, List.mem_cons_of_mem _ h3⟩

/-- `Remove` cannot deadlock: from every reachable configuration in which a `Remove` waits
(holding `m.mu`), a finite run — of steps of the waited-for goroutine alone, at most `rank` many,
none needing `m.mu` — lets it return, the target unregistered and the lock released. -/
theorem remove_returns {c : Cfg} (h : Reach env c) {i : Nat} (hl : c.lock = some i) :
    ∃ ls c', Run env c ls c' ∧ c'.lock = none ∧ c'.targets (c.insts i).name = none ∧
      Label.removeRet (c.insts i).name ∈ ls :=
  remove_returns_aux _ h hl (Nat.le_refl _)

/-! ## retry_forever -/

/-- A managed target on which no `Remove` is under way is not cancelled and its goroutine is in
the retry loop (it leaves the loop only through `ctx.Done()`, and only `Remove` cancels). -/
theorem monitor_alive {c : Cfg} (h : Reach env c) {n : Name} {i : Nat} (ht : c.targets n = some i)
    (hl : c.lock ≠ some i) : (c.insts i).cancelled = false ∧ (c.insts i).pc.exited = false := by
  have hi := inv_reach h
  have hc : (c.insts i).cancelled = false := by
    cases hc : (c.insts i).cancelled
    · rfl
    · exact absurd (hi.canc i hc (by rw [(hi.tgt n i ht).1]; exact ht)) hl
  refine ⟨hc, ?_⟩
  cases hx : (c.insts i).pc.exited
  · rfl
  · rw [hi.exitc i hx] at hc; cases hc

/-- While the target is managed and not being removed, its goroutine is alive and can move —
except when it waits in `Recv` on a silent stream with a live context (an attempt in progress);
if the target has a receive timeout, the timeout step is then enabled. -/
theorem retry_forever {c : Cfg} (h : Reach env c) {n : Name} {i : Nat} (ht : c.targets n = some i)
    (hl : c.lock ≠ some i) :
    (c.insts i).pc.exited = false ∧
    ((∃ l c', Step env c l c' ∧ ∃ ml I', c' = c.applyMon i ml I') ∨ (c.insts i).waiting) := by
  have ha := monitor_alive h ht hl
  refine ⟨ha.2, ?_⟩
  have hnd : (c.insts i).pc ≠ .done := by
    intro hd; rw [hd] at ha; simp [Pc.exited] at ha
  rcases mon_enabled (env (c.insts i).name (c.nextAtt (c.insts i).name)) (pcCur_reach h i) hnd with
    ⟨ml, I', hm⟩ | hw
  · exact .inl ⟨_, _, .mon i hm, ml, I', rfl⟩
  · exact .inr hw

/-- Whenever no attempt is in progress the timer step is pending, and it starts the next scripted
attempt on a live context (a fresh sub-context if the previous one was cancelled by `Reconnect`). -/
theorem timer_pending {c : Cfg} (h : Reach env c) {n : Name} {i : Nat} (ht : c.targets n = some i)
    (hl : c.lock ≠ some i) (hp : (c.insts i).pc = .timer) :
    ∃ c', Step env c .tau c' ∧ (c'.insts i).pc = .gmeta ∧ (c'.insts i).cur = env n (c.nextAtt n) ∧
      c'.nextAtt n = c.nextAtt n + 1 ∧ (c'.insts i).ctxDone = false ∧ c'.trace = c.trace := by
  have ha := monitor_alive h ht hl
  have hn := ((inv_reach h).tgt n i ht).1
  have hm : MonStep (env (c.insts i).name (c.nextAtt (c.insts i).name)) (c.insts i) .begin_ _ :=
    .timerFire hp
  refine ⟨_, .mon i hm, ?_⟩
  simp only [Cfg.applyMon, upd_same, hn, true_and, and_true]
  split
  · simp [Inst.ctxDone, Inst.freshSub, ha.1]
  · next hd => simpa [Inst.ctxDone] using hd

/-- A forced `Reconnect` is effective: once the call is past its lookup and runs (`reconApply`),
the context of the attempt in progress is cancelled — so a `Recv` in progress fails
(`MonStep.recvCancel`), the stream ends with its `Reset`, and the next attempt gets a fresh
sub-context (`timer_pending`). -/
theorem reconnect_effective {c : Cfg} (h : Reach env c) (i : Nat) (hp : (c.insts i).pc ≠ .start) :
    (c.insts i).applyRecon.ctxDone = true := by
  have := reconOK_reach h i hp
  unfold Inst.applyRecon Inst.ctxDone
  split
  · simp
  · next hr => simp_all

/-- A stream that stays silent beyond the receive timeout: the timeout step is enabled. -/
theorem timeout_pending {c : Cfg} {i j : Nat} {cn : Bool} (hp : (c.insts i).pc = .recv j cn)
    (hw : (c.insts i).tmoWaiting = true) : ∃ c', Step env c .tau c' ∧ (c.insts i).name ∈ c'.byName :=
  ⟨_, .tmoFire i j cn hp hw, List.mem_cons_self⟩

/-! ## Non-vacuity: concrete reachable configurations meeting the hypotheses above

Built with the executable semantics (`Model/ManagerRun.lean`), whose moves carry the `Reach`
proof; evaluated by the kernel (`decide`). -/

section examples

/-- two updates then an error; a stream ending before its first message; sync then silence with a
forced `Reconnect`; sync then silence with `Remove` (the design experiment, DESIGN §8 C13) -/
def exSpec : TargetSpec :=
  { rt := false, probes := [],
    script := [⟨.stream [.update, .update] .err, none⟩, ⟨.stream [] .eof, none⟩,
               ⟨.stream [.sync] .silence, some ⟨false, .msg 1, false⟩⟩,
               ⟨.stream [.sync, .errorResp, .update] .silence, some ⟨true, .msg 1, false⟩⟩] }

def exEnv : Name → Nat → Attempt := scenarioEnv ["t0"] [exSpec]

/-- a reachable configuration with a non-trivial trace, `Remove` returned (hypotheses of
`trace_in_discipline`, `trace_shape`, `silence_after_remove`) -/
example : ∃ c, Reach exEnv c ∧ c.targets "t0" = none ∧ c.nextAtt "t0" = 4 ∧
    c.trace "t0" = [.connect, .update 0, .update 1, .reset, .connectError, .monitorError,
      .reset, .connectError, .monitorError,
      .connect, .sync, .reset, .connectError, .monitorError,
      .connect, .sync, .reset, .connectError, .monitorError] :=
  ⟨_, (runTarget (RCfg.init exEnv) "t0" exSpec).1.reach, by decide, by decide, by decide⟩

/-- `Add`, two monitor steps, `Remove` called: a `Remove` waiting for `finished` with `m.mu` held
(hypotheses of `remove_wait_enabled`, `remove_returns`) -/
def exWaiting : Option (RCfg exEnv) := do
  let (_, r) ← (RCfg.init exEnv).move (.add "t0" false)
  let (_, r) ← r.move (.mon 0)
  let (_, r) ← r.move (.mon 0)
  let (_, r) ← r.move (.remove "t0")
  pure r

example : ∃ c, Reach exEnv c ∧ c.lock = some 0 ∧ (c.insts 0).finished = false ∧ (c.insts 0).pc = .gmeta :=
  ⟨_, (exWaiting.get (by decide)).reach, by decide, by decide, by decide⟩

/-- a managed target between two attempts (hypotheses of `retry_forever`, `timer_pending`) -/
def exIdle : Option (RCfg exEnv) := do
  let (_, r) ← (RCfg.init exEnv).move (.add "t0" false)
  let (_, r) ← r.move (.mon 0)
  pure r

example : ∃ c, Reach exEnv c ∧ c.targets "t0" = some 0 ∧ c.lock ≠ some 0 ∧ (c.insts 0).pc = .timer :=
  ⟨_, (exIdle.get (by decide)).reach, by decide, by decide, by decide⟩

/-- the guards are exercised by real steps: a duplicate `Add`, an unknown `Remove` -/
example : ∃ c c', Reach exEnv c ∧ c.targets "t0" ≠ none ∧ Step exEnv c (.add "t0" false) c' :=
  ⟨_, _, (exIdle.get (by decide)).reach, by decide, .addDup "t0" 0 (by decide) (by decide)⟩

example : ∃ c', Step exEnv Cfg.init (.removeCall "t0" false) c' := ⟨_, .removeUnknown "t0" rfl rfl⟩

/-- the discipline automaton rejects what the properties forbid -/
example : ¬ Accepts [.connect, .update 0, .connectError] := by decide
example : ¬ Accepts [.connect, .update 0, .connect] := by decide
example : ¬ Accepts [.update 0] := by decide

end examples

end Gnmi.C13
