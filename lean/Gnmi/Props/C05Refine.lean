import Gnmi.Lemmas.SubscribeRefinePoll
import Gnmi.Props.C04Refine
import Gnmi.Props.C05L
import Gnmi.Props.C05LRun
import Gnmi.Props.C05Poll
/-!
# C05/C04 — the sequential Subscribe model is simulated by the Subscribe LTS, every mode

`Props/C04Refine.lean` proves the simulation for STREAM subscriptions, cache calls, flow control and the
send timeout.  Here the simulation relation is extended to live ONCE / POLL subscribers
(`Refine.StRelX`, `Refine.PLiveRel`) and the operations to the whole operation type of the sequential
model (`C04Sync.XOp`: `Subscribe` of every mode — accepted, rejected, unknown mode —, cache calls, gate
shut / step / open, poll trigger, half-close, send timeout):

* `seq_step_simulated` — every operation, from related states, is one finite run of LTS steps (handler
  `hs…`, walker `visit… finish`, `poll`, `eof`, writer `W1; W2` per event, sender `next; build; sent`…,
  `drained`, `expire`) ending in related states: same cache, same queues (as handles), closed queues
  related, the same responses sent to every subscriber in the same order, ended RPCs with the same
  status;
* `seq_run_simulated`, `seq_reachable_in_lts` — histories; every SEQ state reached is related to a
  `Reach`able LTS configuration;
* the side conditions (`OpOK`), beyond those of `C04Refine.OpOK`: a `Subscribe` call carries a request
  (`Recv` returning EOF first is not an LTS step) whose paths complete; `StaleFree` on cache calls
  (see `Refine.StaleFree`; it concerns only unregistered subscribers that hold handles queued, i.e. ONCE
  / POLL under flow control).  A half-close needs no side condition: `eof_held_agrees` — a response held
  inside a gated `Send` when the client half-closes is dropped in both models, as on the real server
  (`corpus/C05/eof_with_response_held.ops`);
* transfers: `seq_once_concurrent` (`C05L.once_concurrent` on every SEQ-reachable state),
  `seq_poll_round` (`C05L.poll_rounds` for a poll trigger of the sequential model), with the comparison
  to the SEQ theorems (`once_agrees`, `poll_round_agrees`).
-/
namespace Gnmi
namespace C05Refine
open Cache Feed SubStream Refine C04Gate
set_option linter.unusedSimpArgs false
set_option linter.unusedVariables false

abbrev XOp := C04Sync.XOp
abbrev xstep := C04Sync.xstep
abbrev xrun := C04Sync.xrun

/-! ## the side conditions -/

/-- side conditions of one operation, at the state it is applied to.  `reqs` is the static family of
requests of the LTS: the `n`-th `Subscribe` call carries `reqs n`. -/
def OpOK (reqs : Nat → Sub.Req × Sub.Acl) (enc : String → String) (st : Sub.State) : XOp → Prop
  | .g (.sub _ acl req) => ∃ r, req = some r ∧ reqs st.subs.length = (r, acl) ∧
      (r.updatesOnly = false → ∀ sp ∈ r.subs, (Sub.completePath r sp).isSome = true)
  | .g (.ca op) =>
    Feed.Op.ok st.cache op ∧ NoStarOp op ∧ (∀ e ∈ (st.cache.step enc op).2.2, EvPlain e) ∧
      ∀ s ∈ st.subs, s.alive = true → s.regs = [] → StaleFree [] s.queue (st.cache.step enc op).2.2
  | _ => True

/-- the simulation relation, with what the cache lemmas of C03 need to keep it -/
structure Sim (reqs : Nat → Sub.Req × Sub.Acl) (st : Sub.State) (c : LCfg) : Prop where
  rel : StRelX reqs st c
  sinv : SInv st.cache
  ed : st.cache.cfg.eventDriven = false

theorem sim_init (reqs : Nat → Sub.Req × Sub.Acl) (cfg : Cfg) (he : cfg.eventDriven = false) (pre : List String) :
    Sim reqs { cache := { cfg := cfg }, pregated := pre } SubLTS.Cfg.init :=
  let h := C04Refine.sim_init reqs cfg he pre
  ⟨h.rel.toX, h.sinv, h.ed⟩

/-- a state of the STREAM fragment is a state of the extended relation -/
theorem Sim.ofStream {reqs : Nat → Sub.Req × Sub.Acl} {st : Sub.State} {c : LCfg} (h : C04Refine.Sim reqs st c) :
    Sim reqs st c := ⟨h.rel.toX, h.sinv, h.ed⟩

/-! ## one operation -/

theorem ca_sim (reqs : Nat → Sub.Req × Sub.Acl) (enc : String → String) {st : Sub.State} {c : LCfg}
    (h : Sim reqs st c) (op : Cache.Op) (hok : OpOK reqs enc st (.g (.ca op))) :
    ∃ ls c', SubLTS.fireAll (C06Glue.subSys reqs) c ls = some c' ∧ Sim reqs (gstep enc st (.ca op)) c' := by
  obtain ⟨hv, hns, hplain, hsf⟩ := hok
  have htg : ∀ n, Event.upd n ∈ (st.cache.step enc op).2.2 → (st.cache.get n.target).isSome = true :=
    step_events_known enc st.cache op h.sinv h.rel.ok hv
  obtain ⟨hok', hsim⟩ := step_cacheOK enc st.cache op h.sinv h.rel.ok hv hns
  obtain ⟨hgood, hnotd⟩ := step_goodTr enc st.cache op h.sinv h.rel.ok hv hns
  have hsinv := (step_sinv enc st.cache op h.sinv (Feed.Op.ok_valid hv)).1
  have hcfg : (st.cache.step enc op).1.cfg = st.cache.cfg := C14.step_cfg enc st.cache op
  have hcont : ∀ t k, lookup (treesOf (st.cache.step enc op).1 t) k =
      lookup (applySs (treesOf st.cache) (st.cache.step enc op).2.2 t) k :=
    fun t k => (sim_eq h.ed (hsim t k)).symm
  have wrap : ∀ c', StRelX reqs (gstep enc st (.ca op)) c' → Sim reqs (gstep enc st (.ca op)) c' := by
    intro c' hrel
    refine ⟨hrel, ?_, ?_⟩
    · show SInv (st.cache.step enc op).1
      exact hsinv
    · show (st.cache.step enc op).1.cfg.eventDriven = false
      rw [hcfg]; exact h.ed
  cases op with
  | add name =>
    obtain ⟨ls1, c1, hf1, hrel1⟩ := add_simX reqs h.rel name hv.2 hok'
    obtain ⟨ls2, c2, hf2, hrel2⟩ := feed_simX reqs hrel1 (st.cache.add name) [] trivial
      (fun _ _ _ _ => trivial) (fun _ _ => rfl) (fun _ => rfl) hok'
    exact ⟨ls1 ++ ls2, c2, fireAll_append hf1 hf2, wrap c2 hrel2⟩
  | remove name now =>
    have hname : name ≠ glob := hns
    obtain ⟨ls, c2, hf, hrel⟩ := feed_simX reqs h.rel (st.cache.remove name now).1 [Event.del name "" [glob] now]
      ⟨hname, (by decide : ("" : String) ≠ glob), trivial⟩ hsf hcont (by
        intro t
        show (State.get { st.cache with targets := st.cache.targets.filter (fun kv => kv.1 != name) } t).isSome = _
        simp only [List.foldl_cons, List.foldl_nil, evH, true_and, if_true]
        unfold State.get
        by_cases ht : t = name
        · subst ht
          rw [get_filter_same, SubLTS.setFn_same]; rfl
        · rw [get_filter_other _ _ _ ht, SubLTS.setFn_other _ _ ht]) hok'
    exact ⟨ls, c2, hf, wrap c2 hrel⟩
  | reset name now =>
    obtain ⟨he1, he2⟩ := evsOK_of_noTD _ _ (fun t => (st.cache.get t).isSome) hgood (hnotd trivial) hplain htg
    obtain ⟨ls, c2, hf, hrel⟩ := feed_simX reqs h.rel _ _ he1 hsf hcont
      (fun t => by rw [he2]; exact step_get_isSome enc st.cache h.rel.ok.names _ t (fun _ e => by cases e) trivial) hok'
    exact ⟨ls, c2, hf, wrap c2 hrel⟩
  | sync name now =>
    obtain ⟨he1, he2⟩ := evsOK_of_noTD _ _ (fun t => (st.cache.get t).isSome) hgood (hnotd trivial) hplain htg
    obtain ⟨ls, c2, hf, hrel⟩ := feed_simX reqs h.rel _ _ he1 hsf hcont
      (fun t => by rw [he2]; exact step_get_isSome enc st.cache h.rel.ok.names _ t (fun _ e => by cases e) trivial) hok'
    exact ⟨ls, c2, hf, wrap c2 hrel⟩
  | connect name now =>
    obtain ⟨he1, he2⟩ := evsOK_of_noTD _ _ (fun t => (st.cache.get t).isSome) hgood (hnotd trivial) hplain htg
    obtain ⟨ls, c2, hf, hrel⟩ := feed_simX reqs h.rel _ _ he1 hsf hcont
      (fun t => by rw [he2]; exact step_get_isSome enc st.cache h.rel.ok.names _ t (fun _ e => by cases e) trivial) hok'
    exact ⟨ls, c2, hf, wrap c2 hrel⟩
  | connectError name msg now =>
    obtain ⟨he1, he2⟩ := evsOK_of_noTD _ _ (fun t => (st.cache.get t).isSome) hgood (hnotd trivial) hplain htg
    obtain ⟨ls, c2, hf, hrel⟩ := feed_simX reqs h.rel _ _ he1 hsf hcont
      (fun t => by rw [he2]; exact step_get_isSome enc st.cache h.rel.ok.names _ t (fun _ e => by cases e) trivial) hok'
    exact ⟨ls, c2, hf, wrap c2 hrel⟩
  | update now' pn n =>
    obtain ⟨he1, he2⟩ := evsOK_of_noTD _ _ (fun t => (st.cache.get t).isSome) hgood (hnotd trivial) hplain htg
    obtain ⟨ls, c2, hf, hrel⟩ := feed_simX reqs h.rel _ _ he1 hsf hcont
      (fun t => by rw [he2]; exact step_get_isSome enc st.cache h.rel.ok.names _ t (fun _ e => by cases e) trivial) hok'
    exact ⟨ls, c2, hf, wrap c2 hrel⟩
  | updateMetadata now =>
    obtain ⟨he1, he2⟩ := evsOK_of_noTD _ _ (fun t => (st.cache.get t).isSome) hgood (hnotd trivial) hplain htg
    obtain ⟨ls, c2, hf, hrel⟩ := feed_simX reqs h.rel _ _ he1 hsf hcont
      (fun t => by rw [he2]; exact step_get_isSome enc st.cache h.rel.ok.names _ t (fun _ e => by cases e) trivial) hok'
    exact ⟨ls, c2, hf, wrap c2 hrel⟩

/-- **`seq_step_simulated`, every mode and every operation.**  Every operation of the sequential model
— `Subscribe` with a STREAM, ONCE, POLL or unknown-mode request (accepted or rejected), any cache API
call, gate shut / step / open, a poll trigger, a half-close, the expiry of the send timer — from a SEQ
state related to an LTS configuration, is a finite run of LTS steps ending in a related
configuration. -/
theorem seq_step_simulated (reqs : Nat → Sub.Req × Sub.Acl) (enc : String → String) {st : Sub.State} {c : LCfg}
    (h : Sim reqs st c) (op : XOp) (hok : OpOK reqs enc st op) :
    ∃ ls c', SubLTS.fireAll (C06Glue.subSys reqs) c ls = some c' ∧ Sim reqs (xstep enc st op) c' := by
  cases op with
  | g op =>
    cases op with
    | sub id acl req =>
      obtain ⟨r, rfl, hrq, hpaths⟩ := hok
      obtain ⟨ls, c', hf, hrel⟩ := subscribe_simX reqs h.rel id acl r hrq hpaths
      obtain ⟨sNew, hsub, _⟩ := subscribe_casesX st id acl r
      refine ⟨ls, c', hf, hrel, ?_, ?_⟩
      · show SInv (Sub.subscribe st id acl (some r)).cache
        rw [hsub]; exact h.sinv
      · show (Sub.subscribe st id acl (some r)).cache.cfg.eventDriven = false
        rw [hsub]; exact h.ed
    | ca o => exact ca_sim reqs enc h o hok
    | gateShut id =>
      obtain ⟨ls, c', hf, hrel⟩ := updateSub_simX reqs h.rel id (SubGate.gateF true)
        (fun rq s b _ _ hr => gateF_simX reqs hr true)
      exact ⟨ls, c', hf, hrel, h.sinv, h.ed⟩
    | gateOpen id =>
      obtain ⟨ls, c', hf, hrel⟩ := updateSub_simX reqs h.rel id (SubGate.gateF false)
        (fun rq s b _ _ hr => gateF_simX reqs hr false)
      exact ⟨ls, c', hf, hrel, h.sinv, h.ed⟩
    | gateStep id =>
      obtain ⟨ls, c', hf, hrel⟩ := updateSub_simX reqs h.rel id SubGate.stepF
        (fun rq s b _ _ hr => stepF_simX reqs hr)
      exact ⟨ls, c', hf, hrel, h.sinv, h.ed⟩
  | poll id =>
    obtain ⟨ls, c', hf, hrel⟩ := poll_simX reqs h.rel id
    exact ⟨ls, c', hf, hrel, h.sinv, h.ed⟩
  | eof id =>
    obtain ⟨ls, c', hf, hrel⟩ := eof_simX reqs h.rel id
    exact ⟨ls, c', hf, hrel, h.sinv, h.ed⟩
  | expire =>
    obtain ⟨ls, c', hf, hrel⟩ := expire_simX reqs h.rel
    exact ⟨ls, c', hf, hrel, h.sinv, h.ed⟩

/-! ## histories -/

/-- the side conditions along a history -/
def OkHist (reqs : Nat → Sub.Req × Sub.Acl) (enc : String → String) : Sub.State → List XOp → Prop
  | _, [] => True
  | st, op :: h => OpOK reqs enc st op ∧ OkHist reqs enc (xstep enc st op) h

theorem seq_run_simulated (reqs : Nat → Sub.Req × Sub.Acl) (enc : String → String) :
    ∀ (h : List XOp) (st : Sub.State) (c : LCfg), Sim reqs st c → OkHist reqs enc st h →
    ∃ ls c', SubLTS.fireAll (C06Glue.subSys reqs) c ls = some c' ∧ Sim reqs (xrun enc st h) c'
  | [], st, c, hs, _ => ⟨[], c, rfl, hs⟩
  | op :: h, st, c, hs, hok => by
    obtain ⟨ls1, c1, hf1, hs1⟩ := seq_step_simulated reqs enc hs op hok.1
    obtain ⟨ls2, c2, hf2, hs2⟩ := seq_run_simulated reqs enc h _ c1 hs1 hok.2
    exact ⟨ls1 ++ ls2, c2, fireAll_append hf1 hf2, hs2⟩

/-- **`seq_reachable_in_lts`, every mode.**  Every state the sequential model reaches by a history of its
operations (from an empty cache, event-driven emulation off, any pre-gated ids) is related by the
simulation relation to a *reachable* configuration of the LTS. -/
theorem seq_reachable_in_lts (reqs : Nat → Sub.Req × Sub.Acl) (enc : String → String) (cfg : Cfg)
    (he : cfg.eventDriven = false) (pre : List String) (h : List XOp)
    (hok : OkHist reqs enc { cache := { cfg := cfg }, pregated := pre } h) :
    ∃ c : LCfg, SubLTS.Reach (C06Glue.subSys reqs) c ∧
      Sim reqs (xrun enc { cache := { cfg := cfg }, pregated := pre } h) c := by
  obtain ⟨ls, c, hf, hs⟩ := seq_run_simulated reqs enc h _ _ (sim_init reqs cfg he pre) hok
  exact ⟨c, SubLTS.fireAll_reach ls SubLTS.Reach.init hf, hs⟩

/-! ## `C05L.once_concurrent` on every SEQ-reachable state -/

theorem absResp_sync {r : Sub.Resp} (h : absResp r = .sync) : r = .sync := by
  cases r <;> first | rfl | cases h

theorem sentRel_mem {out : List (Sub.Resp × Bool)} {sent : List LResp} (h : SentRel out sent) :
    ∀ r ∈ out, ∃ r' ∈ sent, eraseDup r' = absResp r.1 := by
  intro r hr
  have hmem : absResp r.1 ∈ sent.map eraseDup := by
    rw [h.1]; exact List.mem_map.2 ⟨r, hr, rfl⟩
  obtain ⟨r', hr', her⟩ := List.mem_map.1 hmem
  exact ⟨r', hr', her⟩

theorem sentRel_mem' {out : List (Sub.Resp × Bool)} {sent : List LResp} (h : SentRel out sent) :
    ∀ r' ∈ sent, ∃ r ∈ out, eraseDup r' = absResp r.1 := by
  intro r' hr'
  have hmem : eraseDup r' ∈ out.map (fun x => absResp x.1) := by
    rw [← h.1]; exact List.mem_map.2 ⟨r', hr', rfl⟩
  obtain ⟨r, hr, her⟩ := List.mem_map.1 hmem
  exact ⟨r, hr, her.symm⟩

theorem sentRel_last {out : List (Sub.Resp × Bool)} {sent : List LResp} (h : SentRel out sent)
    (hl : sent.getLast? = some .sync) : (out.map (·.1)).getLast? = some .sync := by
  have h1 : (sent.map eraseDup).getLast? = some .sync := by
    rw [List.getLast?_map, hl]; rfl
  rw [h.1, List.getLast?_map] at h1
  rw [List.getLast?_map]
  cases ho : out.getLast? with
  | none => rw [ho] at h1; cases h1
  | some x =>
    rw [ho] at h1
    simp only [Option.map_some, Option.some.injEq] at h1 ⊢
    exact absResp_sync h1

/-- the status of a SEQ subscriber and of its LTS client: OK together -/
theorem status_ok_iff {sh : LShared} {rq : Sub.Req × Sub.Acl} {s : Sub.Subscriber} {b : LSub}
    (h : SRelX sh rq s b) : s.status = some .ok → b.status = some .ok := by
  intro hst
  rcases h with (hl | hd) | hp
  · rw [hl.status] at hst; cases hst
  · obtain ⟨code, h1, h2⟩ := hd.status
    rw [h1] at hst
    cases hst
    exact h2
  · rw [hp.status] at hst; cases hst

theorem sent_of_relX {sh : LShared} {rq : Sub.Req × Sub.Acl} {s : Sub.Subscriber} {b : LSub}
    (h : SRelX sh rq s b) : SentRel s.out b.sent ∧ s.acl = rq.2 := by
  rcases h with (hl | hd) | hp
  · exact ⟨hl.sent, hl.acl⟩
  · exact ⟨hd.sent, hd.acl⟩
  · exact ⟨hp.sent, hp.acl⟩

theorem ltsOf_mode_once {rq : Sub.Req × Sub.Acl} (h : rq.1.mode = .once) : (ltsOf rq).mode = .once := by
  rw [ltsOf_mode', h]; rfl

theorem ltsOf_mode_poll {rq : Sub.Req × Sub.Acl} (h : rq.1.mode = .poll) : (ltsOf rq).mode = .poll := by
  rw [ltsOf_mode', h]; rfl

/-- `C05L.once_concurrent` read through the simulation relation, for the `i`-th subscriber (ONCE) of any
SEQ state related to a reachable LTS configuration `c` -/
theorem once_of_rel (reqs : Nat → Sub.Req × Sub.Acl) {st : Sub.State} {c : LCfg}
    (hreach : SubLTS.Reach (C06Glue.subSys reqs) c) (hrel : StRelX reqs st c)
    (i : Nat) (s : Sub.Subscriber) (hsi : st.subs[i]? = some s) (hm : (reqs i).1.mode = .once) :
    (∀ r ∈ s.out, r.1 = .sync ∨ ∃ n d, r.1 = .upd n d ∧
        C06Glue.walksOf (reqs i).1 (n.target, Sub.eventKey n) = true ∧ (reqs i).2.check n.target = true ∧
        ((n.target, Sub.eventKey n), n) ∈ (c.subs i).held) ∧
    (s.out.map (·.1)).count Sub.Resp.sync ≤ 1 ∧
    (s.status = some .ok →
      (s.out.map (·.1)).count Sub.Resp.sync = 1 ∧ (s.out.map (·.1)).getLast? = some .sync ∧
      ((reqs i).1.updatesOnly = false → ∀ k ∈ (c.subs i).since, C06Glue.walksOf (reqs i).1 k = true →
        (reqs i).2.check k.1 = true →
        ∃ n d, Sub.Resp.upd n d ∈ s.out.map (·.1) ∧ (n.target, Sub.eventKey n) = k)) := by
  have hsx := hrel.subs.rel i s hsi
  obtain ⟨hsent, hacl⟩ := sent_of_relX hsx
  have hmode : ((C06Glue.subSys reqs).req i).mode = .once := ltsOf_mode_once hm
  obtain ⟨h1, h2, h3⟩ := C05L.once_concurrent (C06Glue.subSys_swap reqs) (C06Glue.subSys_wf reqs) hreach i hmode
  refine ⟨?_, ?_, ?_⟩
  · intro r hr
    obtain ⟨r', hr', her⟩ := sentRel_mem hsent r hr
    rcases h1 r' hr' with e | ⟨k, v, d, e, hw, ha, hh⟩
    · subst e
      exact Or.inl (absResp_sync her.symm)
    · subst e
      right
      obtain ⟨rr, f⟩ := r
      cases rr with
      | upd n d' =>
        simp only [eraseDup, absResp, SubLTS.Resp.upd.injEq] at her
        obtain ⟨hk, hv, _⟩ := her
        subst hk hv
        exact ⟨_, d', rfl, hw, ha, hh⟩
      | del t o p ts d' => simp [eraseDup, absResp] at her
      | sync => simp [eraseDup, absResp] at her
  · rw [C04Refine.sentRel_syncs hsent]; exact h2
  · intro hst
    obtain ⟨a1, a2, a3⟩ := h3 (status_ok_iff hsx hst)
    refine ⟨by rw [C04Refine.sentRel_syncs hsent]; exact a1, sentRel_last hsent a2, ?_⟩
    intro huo k hk hw ha
    obtain ⟨v, d, hmem⟩ := a3 huo k hk hw ha
    obtain ⟨r, hr, her⟩ := sentRel_mem' hsent _ hmem
    obtain ⟨rr, f⟩ := r
    cases rr with
    | upd n d' =>
      simp only [eraseDup, absResp, SubLTS.Resp.upd.injEq] at her
      exact ⟨n, d', List.mem_map.2 ⟨_, hr, rfl⟩, her.1.symm⟩
    | del t o p ts d' => simp [eraseDup, absResp] at her
    | sync => simp [eraseDup, absResp] at her

/-- **`C05L.once_concurrent` transferred to the sequential model.**  At every point of every history of
the sequential model (side conditions `OkHist`), for every ONCE subscriber (`i`-th `Subscribe` call):

1. every response it was sent is a sync or an update of a key matched by a subscription path, of a
   target its ACL allows;
2. it was sent at most one sync;
3. if its RPC has ended OK, it was sent exactly one sync, last.

This is the part of `C05L.once_concurrent` the sequential model can express, and it agrees with the SEQ
theorem `C05.once_static_exact_reachable` (`once_agrees`).  What the LTS theorem says *more* — the value
of every update was held by its key at some moment of the call, and every matched allowed key present
throughout the walk was sent — is about concurrent writers and ghost state of the LTS: the simulation
gives it for the related reachable configuration `c` (its `held` and `since`), see `once_of_rel`. -/
theorem seq_once_concurrent (reqs : Nat → Sub.Req × Sub.Acl) (enc : String → String) (cfg : Cfg)
    (he : cfg.eventDriven = false) (pre : List String) (h : List XOp)
    (hok : OkHist reqs enc { cache := { cfg := cfg }, pregated := pre } h)
    (i : Nat) (s : Sub.Subscriber)
    (hsi : (xrun enc { cache := { cfg := cfg }, pregated := pre } h).subs[i]? = some s)
    (hm : (reqs i).1.mode = .once) :
    (∀ r ∈ s.out, r.1 = .sync ∨ ∃ n d, r.1 = .upd n d ∧
        C06Glue.walksOf (reqs i).1 (n.target, Sub.eventKey n) = true ∧ (reqs i).2.check n.target = true) ∧
    (s.out.map (·.1)).count Sub.Resp.sync ≤ 1 ∧
    (s.status = some .ok →
      (s.out.map (·.1)).count Sub.Resp.sync = 1 ∧ (s.out.map (·.1)).getLast? = some .sync) := by
  obtain ⟨c, hreach, hsim⟩ := seq_reachable_in_lts reqs enc cfg he pre h hok
  obtain ⟨h1, h2, h3⟩ := once_of_rel reqs hreach hsim.rel i s hsi hm
  refine ⟨?_, h2, fun hst => ⟨(h3 hst).1, (h3 hst).2.1⟩⟩
  intro r hr
  rcases h1 r hr with e | ⟨n, d, e, hw, ha, _⟩
  · exact Or.inl e
  · exact Or.inr ⟨n, d, e, hw, ha⟩

/-- **ONCE: the two theorems agree.**  Whenever the SEQ theorem `C05.once_static_exact` /
`once_static_exact_reachable` applies to a ONCE subscriber of a SEQ-reachable state — it ended OK and
was sent `body ++ [sync]` with `body` the snapshot — the responses the related LTS client was sent are,
up to duplicate counts, the same list, and `C05L.once_concurrent` holds of them: every element of
`body` is an update of a matched, allowed key (clause 1), `body` holds no sync (clauses 2, 3). -/
theorem once_agrees (reqs : Nat → Sub.Req × Sub.Acl) {st : Sub.State} {c : LCfg}
    (hreach : SubLTS.Reach (C06Glue.subSys reqs) c) (hrel : StRelX reqs st c)
    (i : Nat) (s : Sub.Subscriber) (hsi : st.subs[i]? = some s) (hm : (reqs i).1.mode = .once)
    (hst : s.status = some .ok) (body : List Sub.Resp) (hout : s.out.map (·.1) = body ++ [Sub.Resp.sync]) :
    (c.subs i).sent.map eraseDup = (body ++ [Sub.Resp.sync]).map absResp ∧
    (∀ x ∈ body, ∃ n d, x = .upd n d ∧ C06Glue.walksOf (reqs i).1 (n.target, Sub.eventKey n) = true ∧
      (reqs i).2.check n.target = true) ∧
    Sub.Resp.sync ∉ body := by
  obtain ⟨hsent, _⟩ := sent_of_relX (hrel.subs.rel i s hsi)
  obtain ⟨h1, _, h3⟩ := once_of_rel reqs hreach hrel i s hsi hm
  have hcnt := (h3 hst).1
  rw [hout] at hcnt
  have hns : Sub.Resp.sync ∉ body := by
    intro hm'
    have : 1 ≤ body.count Sub.Resp.sync := List.count_pos_iff.2 hm'
    simp only [List.count_append, List.count_cons_self, List.count_nil] at hcnt
    omega
  refine ⟨?_, ?_, hns⟩
  · rw [hsent.1, ← hout, List.map_map]; rfl
  · intro x hx
    have hx' : x ∈ s.out.map (·.1) := by rw [hout]; exact List.mem_append_left _ hx
    obtain ⟨r, hr, rfl⟩ := List.mem_map.1 hx'
    rcases h1 r hr with e | ⟨n, d, e, hw, ha, _⟩
    · exact absurd (e ▸ hx) hns
    · exact ⟨n, d, e, hw, ha⟩

/-! ## `C07L.never_sends_denied` on every SEQ-reachable state, every mode -/

/-- **`C07L.never_sends_denied` transferred, every mode** (C04Refine has it for STREAM-only histories): at
every point of every history of the sequential model, no response naming a target the caller's ACL denies
was ever sent to any subscriber — STREAM, ONCE or POLL. -/
theorem seq_never_sends_denied (reqs : Nat → Sub.Req × Sub.Acl) (enc : String → String) (cfg : Cfg)
    (he : cfg.eventDriven = false) (pre : List String) (h : List XOp)
    (hok : OkHist reqs enc { cache := { cfg := cfg }, pregated := pre } h) :
    ∀ s ∈ (xrun enc { cache := { cfg := cfg }, pregated := pre } h).subs,
      ∀ r ∈ s.out, Sub.denied s.acl r.1 = false := by
  obtain ⟨c, hreach, hsim⟩ := seq_reachable_in_lts reqs enc cfg he pre h hok
  intro s hs r hr
  obtain ⟨i, hi, hget⟩ := List.getElem_of_mem hs
  have hsi : (xrun enc { cache := { cfg := cfg }, pregated := pre } h).subs[i]? = some s := by
    rw [List.getElem?_eq_getElem hi, hget]
  have hsent := (C07L.never_sends_denied (C06Glue.subSys_swap reqs) (C06Glue.subSys_wf reqs) hreach i).1
  obtain ⟨hsr, hacl⟩ := sent_of_relX (hsim.rel.subs.rel i s hsi)
  obtain ⟨r', hr', her⟩ := sentRel_mem hsr r hr
  have hok' := hsent r' hr'
  obtain ⟨rr, f⟩ := r
  cases rr with
  | upd n d =>
    cases r' with
    | upd k v dd =>
      simp only [eraseDup, absResp, SubLTS.Resp.upd.injEq] at her
      have hk : k = (n.target, Sub.eventKey n) := her.1
      subst hk
      have : (reqs i).2.check n.target = true := hok'
      simp [Sub.denied, Sub.respTarget, hacl, this]
    | _ => simp [eraseDup, absResp] at her
  | del t o p ts d =>
    cases r' with
    | rdel g =>
      simp only [eraseDup, absResp, SubLTS.Resp.rdel.injEq] at her
      subst her
      have : (reqs i).2.check t = true := hok'
      simp [Sub.denied, Sub.respTarget, hacl, this]
    | _ => simp [eraseDup, absResp] at her
  | sync => rfl

/-! ## `C05L.poll_rounds` for a poll trigger of the sequential model -/

theorem countP_isPollOf_map (j n : Nat) (ls : List SL) :
    (ls.map (fun l => (SubLTS.Label.sub n l : GL))).countP (C05L.isPollOf j) =
      if n = j then npollL ls else 0 := by
  rw [List.countP_map]
  by_cases hn : n = j
  · subst hn
    rw [if_pos rfl]
    unfold npollL
    congr 1
    funext l
    cases l <;> simp [C05L.isPollOf, Function.comp]
  · rw [if_neg hn]
    apply List.countP_eq_zero.2
    intro l _
    cases l <;> simp [C05L.isPollOf, Function.comp, hn]

/-- `Refine.local_all`, counting the poll triggers of every client in the global run -/
theorem local_all_cnt (sys : LSys) (P : Nat → LSub → Prop) (m : Nat → Nat) : ∀ (n : Nat) (c : LCfg),
    (∀ i, i < n → ∃ ls b', runSub sys (sys.req i) c.sh (c.subs i) ls = some b' ∧ P i b' ∧ npollL ls = m i) →
    ∃ ls c', SubLTS.fireAll sys c ls = some c' ∧ c'.sh = c.sh ∧ (∀ i, i < n → P i (c'.subs i)) ∧
      (∀ i, n ≤ i → c'.subs i = c.subs i) ∧
      ∀ j, ls.countP (C05L.isPollOf j) = if j < n then m j else 0
  | 0, c, _ => ⟨[], c, rfl, rfl, fun i hi => absurd hi (Nat.not_lt_zero i), fun _ _ => rfl, fun j => by simp⟩
  | n + 1, c, h => by
    obtain ⟨ls, c1, h1, hsh, hP, hrest, hcnt⟩ := local_all_cnt sys P m n c (fun i hi => h i (Nat.lt_succ_of_lt hi))
    obtain ⟨ls2, b', h2, hb, hm2⟩ := h n (Nat.lt_succ_self n)
    have h2' : runSub sys (sys.req n) c1.sh (c1.subs n) ls2 = some b' := by
      rw [hsh, hrest n (Nat.le_refl n)]; exact h2
    refine ⟨ls ++ ls2.map (fun l => SubLTS.Label.sub n l), ⟨c1.sh, SubLTS.setFn c1.subs n b'⟩,
      fireAll_append h1 (fireAll_local sys n ls2 c1 b' h2'), hsh, ?_, ?_, ?_⟩
    · intro i hi
      by_cases hin : i = n
      · subst hin; simp only [SubLTS.setFn, if_true]; exact hb
      · simp only [SubLTS.setFn, hin, if_false]
        exact hP i (by omega)
    · intro i hi
      have : i ≠ n := by omega
      simp only [SubLTS.setFn, this, if_false]
      exact hrest i (by omega)
    · intro j
      rw [List.countP_append, hcnt j, countP_isPollOf_map]
      by_cases hjn : j = n
      · subst hjn
        simp [hm2]
      · have : ¬ n = j := fun e => hjn e.symm
        rw [if_neg this]
        by_cases hlt : j < n
        · rw [if_pos hlt, if_pos (by omega)]; rfl
        · rw [if_neg hlt, if_neg (by omega)]

/-- a poll trigger of the sequential model, with the number of `poll` steps of every client in the run:
one for each live POLL subscriber with that id, none for the others -/
theorem poll_sim_cnt (reqs : Nat → Sub.Req × Sub.Acl) {st : Sub.State} {c : LCfg} (h : StRelX reqs st c)
    (id : String) :
    ∃ ls c', SubLTS.fireAll (C06Glue.subSys reqs) c ls = some c' ∧ StRelX reqs (Sub.poll st id) c' ∧
      ∀ j s, st.subs[j]? = some s →
        ls.countP (C05L.isPollOf j) = if s.id = id ∧ s.alive = true ∧ s.req.mode = .poll then 1 else 0 := by
  let f : Sub.Subscriber → Sub.Subscriber := fun s => if s.id = id then SubPoll.pollSub st.cache s else s
  let m : Nat → Nat := fun j => match st.subs[j]? with
    | some s => if s.id = id ∧ s.alive = true ∧ s.req.mode = .poll then 1 else 0
    | none => 0
  obtain ⟨ls, c', hfire, hsh, hP, hrest, hcnt⟩ := local_all_cnt (C06Glue.subSys reqs)
    (fun i b' => ∀ s, st.subs[i]? = some s → SRelX c.sh (reqs i) (f s) b') m st.subs.length c (by
      intro i hi
      have hsi : st.subs[i]? = some st.subs[i] := List.getElem?_eq_getElem hi
      have hrel := h.subs.rel i _ hsi
      by_cases hid : (st.subs[i]).id = id
      · obtain ⟨ls, b', hr, hn, hrel'⟩ := poll_localX reqs h.ok h.vrel hrel
        refine ⟨ls, b', hr, ?_, ?_⟩
        · intro s hs'
          rw [hsi] at hs'
          cases hs'
          simp only [f, hid, if_true]
          exact hrel'
        · simp only [m, hsi, hid, true_and]
          exact hn
      · refine ⟨[], _, rfl, ?_, ?_⟩
        · intro s hs'
          rw [hsi] at hs'
          cases hs'
          simp only [f, hid, if_false]
          exact hrel
        · simp only [m, hsi, hid, false_and, if_false]
          rfl)
  refine ⟨ls, c', hfire, ?_, ?_⟩
  · rw [SubPoll.poll_eq]
    refine { vrel := by rw [hsh]; exact h.vrel, ok := h.ok, subs := ⟨?_, ?_⟩ }
    · intro i s hi
      have hi' : (st.subs.map f)[i]? = some s := hi
      rw [List.getElem?_map] at hi'
      cases hsi : st.subs[i]? with
      | none => rw [hsi] at hi'; cases hi'
      | some s0 =>
        rw [hsi] at hi'
        simp only [Option.map_some, Option.some.injEq] at hi'
        subst hi'
        have hlt : i < st.subs.length := by
          rcases Nat.lt_or_ge i st.subs.length with h' | h'
          · exact h'
          · rw [List.getElem?_eq_none h'] at hsi; cases hsi
        rw [hsh]
        exact hP i hlt s0 hsi
    · intro i hi
      have hi' : (st.subs.map f).length ≤ i := hi
      rw [List.length_map] at hi'
      rw [hrest i hi']
      exact h.subs.fresh i hi'
  · intro j s hj
    have hlt : j < st.subs.length := by
      rcases Nat.lt_or_ge j st.subs.length with h' | h'
      · exact h'
      · rw [List.getElem?_eq_none h'] at hj; cases hj
    rw [hcnt j, if_pos hlt]
    simp only [m, hj]

/-- everything was delivered to a live POLL subscriber and its sender waits: the LTS client is quiet -/
theorem pollQuiet_of_rel {sh : LShared} {rq : Sub.Req × Sub.Acl} {s : Sub.Subscriber} {b : LSub}
    (h : SRelX sh rq s b) (hm : rq.1.mode = .poll) (ha : s.alive = true) (hq : s.queue = [])
    (hb : s.blocked = none) : C05L.PollQuiet b := by
  rcases h with (hl | hd) | hp
  · rw [hl.mode] at hm; cases hm
  · rw [hd.alive] at ha; cases ha
  · have hbq : b.q = [] := by
      have := hp.q
      rw [hq] at this
      cases hbq : b.q with
      | nil => rfl
      | cons y ys => rw [hbq] at this; exact this.elim
    have hsnd := hp.snd
    rw [hb] at hsnd
    exact ⟨hp.bstatus, hp.walker, hbq, hsnd.1⟩

/-- **`C05L.poll_rounds` transferred to the sequential model.**  `st0`: any state the sequential model
reaches (side conditions `OkHist`); its `j`-th subscriber `s0` is a live POLL subscriber with id `id`
to which everything was delivered (nothing queued, nothing held).  After the trigger `poll st0 id`, if
everything is delivered again to the `j`-th subscriber `s2` (always the case when its client reads),
then what `s2` was sent is what `s0` was sent followed by **one round** in the sense of the LTS theorem
(`C05L.RoundOk`: exactly one sync, last; updates of matched, allowed keys only, each carrying a value
its key held during the call; an update for every matched allowed key present throughout the walk) —
up to duplicate counts, for the responses `new` sent to the related LTS client, in a reachable
configuration `c2` related to the SEQ state after the trigger. -/
theorem seq_poll_round (reqs : Nat → Sub.Req × Sub.Acl) (enc : String → String) (cfg : Cfg)
    (he : cfg.eventDriven = false) (pre : List String) (h : List XOp)
    (hok : OkHist reqs enc { cache := { cfg := cfg }, pregated := pre } h) (id : String)
    (j : Nat) (s0 s2 : Sub.Subscriber)
    (hs0 : (xrun enc { cache := { cfg := cfg }, pregated := pre } h).subs[j]? = some s0)
    (hid : s0.id = id) (hm : (reqs j).1.mode = .poll)
    (ha0 : s0.alive = true) (hq0 : s0.queue = []) (hb0 : s0.blocked = none)
    (hs2 : (Sub.poll (xrun enc { cache := { cfg := cfg }, pregated := pre } h) id).subs[j]? = some s2)
    (ha2 : s2.alive = true) (hq2 : s2.queue = []) (hb2 : s2.blocked = none) :
    ∃ (c2 : LCfg) (new : List LResp), SubLTS.Reach (C06Glue.subSys reqs) c2 ∧
      StRelX reqs (Sub.poll (xrun enc { cache := { cfg := cfg }, pregated := pre } h) id) c2 ∧
      s2.out.map (fun x => absResp x.1) = s0.out.map (fun x => absResp x.1) ++ new.map eraseDup ∧
      C05L.RoundOk (C06Glue.subSys reqs) ((C06Glue.subSys reqs).req j) (c2.subs j) new := by
  obtain ⟨c0, hreach, hsim⟩ := seq_reachable_in_lts reqs enc cfg he pre h hok
  obtain ⟨ls, c2, hfire, hrel2, hcnt⟩ := poll_sim_cnt reqs hsim.rel id
  have hrel0 := hsim.rel.subs.rel j s0 hs0
  have hreq0 : s0.req = (reqs j).1 := by
    rcases hrel0 with (hl | hd) | hp
    · exact hl.req
    · rw [hd.alive] at ha0; cases ha0
    · exact hp.req
  have hc : ls.countP (C05L.isPollOf j) = 1 := by
    rw [hcnt j s0 hs0, if_pos ⟨hid, ha0, by rw [hreq0]; exact hm⟩]
  have hQ0 := pollQuiet_of_rel hrel0 hm ha0 hq0 hb0
  have hrelj2 := hrel2.subs.rel j s2 hs2
  have hQ2 := pollQuiet_of_rel hrelj2 hm ha2 hq2 hb2
  have hmode : ((C06Glue.subSys reqs).req j).mode = .poll := ltsOf_mode_poll hm
  obtain ⟨new, hnew, hround⟩ := C05L.poll_rounds_counted (C06Glue.subSys_swap reqs) (C06Glue.subSys_wf reqs)
    hmode ls hreach hQ0 hfire hc hQ2
  refine ⟨c2, new, SubLTS.fireAll_reach ls hreach hfire, hrel2, ?_, hround⟩
  obtain ⟨hsent0, _⟩ := sent_of_relX hrel0
  obtain ⟨hsent2, _⟩ := sent_of_relX hrelj2
  rw [← hsent2.1, ← hsent0.1, hnew, List.map_append]

/-- **POLL: the two theorems agree.**  Under the hypotheses of the SEQ theorem `C05Poll.poll_trigger_exact`
(the subscriber is idle; `items` is what the walk collects from the current cache), the round of the LTS
theorem is, up to duplicate counts, the abstraction of `body ++ [sync]` with `body` the exact snapshot:
the same list satisfies `C05L.RoundOk` (transferred through the simulation) and
`SnapshotBody ∧ SnapshotOnce` (proved on the sequential model). -/
theorem poll_round_agrees (reqs : Nat → Sub.Req × Sub.Acl) (enc : String → String) (cfg : Cfg)
    (he : cfg.eventDriven = false) (pre : List String) (h : List XOp)
    (hok : OkHist reqs enc { cache := { cfg := cfg }, pregated := pre } h)
    (j : Nat) (s0 : Sub.Subscriber) (items : List (String × Path × Noti))
    (hs0 : (xrun enc { cache := { cfg := cfg }, pregated := pre } h).subs[j]? = some s0)
    (hm : (reqs j).1.mode = .poll) (ha0 : s0.alive = true) (hi : SubPoll.Idle s0)
    (hw : Sub.walkItems (xrun enc { cache := { cfg := cfg }, pregated := pre } h).cache s0.req = some items)
    (hfun : C05.Functional items) (hT : ∀ it ∈ items, it.2.2.target = it.1) :
    ∃ (body : List Sub.Resp) (c2 : LCfg) (new : List LResp),
      (SubPoll.SnapshotBody s0.acl items body ∧ SubPoll.SnapshotOnce s0.acl items body) ∧
      SubLTS.Reach (C06Glue.subSys reqs) c2 ∧
      new.map eraseDup = (body ++ [Sub.Resp.sync]).map absResp ∧
      C05L.RoundOk (C06Glue.subSys reqs) ((C06Glue.subSys reqs).req j) (c2.subs j) new := by
  have hreq0 : s0.req.mode = .poll := by
    obtain ⟨c0, _, hsim⟩ := seq_reachable_in_lts reqs enc cfg he pre h hok
    rcases hsim.rel.subs.rel j s0 hs0 with (hl | hd) | hp
    · rw [hl.mode] at hm; cases hm
    · rw [hd.alive] at ha0; cases ha0
    · rw [hp.req]; exact hm
  obtain ⟨body, s2, hsnap, hs2, he2, hout2, ha2, _, hi2⟩ :=
    C05Poll.poll_trigger_exact _ j s0 items hs0 ha0 hreq0 hi hw hfun hT
  obtain ⟨c2, new, hreach2, _, hmap, hround⟩ := seq_poll_round reqs enc cfg he pre h hok s0.id j s0 s2 hs0 rfl hm
    ha0 hi.queue hi.blocked hs2 ha2 hi2.queue hi2.blocked
  refine ⟨body, c2, new, hsnap, hreach2, ?_, hround⟩
  have h1 : s2.out.map (fun x => absResp x.1) = (s2.out.map (·.1)).map absResp := by
    rw [List.map_map]; rfl
  have h0 : s0.out.map (fun x => absResp x.1) = (s0.out.map (·.1)).map absResp := by
    rw [List.map_map]; rfl
  rw [h1, hout2, List.map_append, ← h0] at hmap
  exact (List.append_cancel_left hmap).symm

/-! ## a half-close while a response is held: the two models agree -/

def reqPoll : Sub.Req := { target := "t", mode := .poll, subs := [{ path := ["a"] }, { path := ["c"] }] }
def reqOnce : Sub.Req := { target := "t", mode := .once, subs := [{ path := ["a"] }, { path := ["c"] }] }
/-- a second leaf, `c` -/
def nC (ts : Int) : Noti :=
  { ts := ts, target := "t", praw := "p", upd := [{ path := ["c"], val := .scalar (.int 7), raw := "c" }] }

/-- target added, leaf `a = 1`; a POLL subscriber whose client does not read (pre-gated): its sender is
stopped inside the `Send` of the first response; the client half-closes; then the gate opens -/
def histEof : List XOp :=
  [.g (.ca (.add "t")), .g (.ca (.update 10 false (C04Refine.nA 1))), .g (.sub "p1" .absent (some reqPoll)),
   .eof "p1", .g (.gateOpen "p1")]

/-- an ended RPC of the LTS never sends anything more -/
theorem ended_sends_nothing (reqs : Nat → Sub.Req × Sub.Acl) {c c' : LCfg} {l : GL}
    (hr : SubLTS.Reach (C06Glue.subSys reqs) c) (i : Nat) (hst : (c.subs i).status ≠ none)
    (hs : SubLTS.Step (C06Glue.subSys reqs) c l c') : (c'.subs i).sent = (c.subs i).sent := by
  obtain ⟨hph, _⟩ := C05L.progInv_reach (C06Glue.subSys_swap reqs) hr i
  cases hs with
  | shared l1 sh' hf =>
    show ((c.subs i).onShared _ _ l1).sent = _
    rw [SubLTS.onShared_sent]
  | sub s1 l1 b' hf =>
    by_cases e : i = s1
    · subst e
      show (SubLTS.setFn c.subs i b' i).sent = _
      rw [SubLTS.setFn_same]
      have hfin : (c.subs i).pc = .fin := by
        apply Classical.byContradiction
        intro hne
        exact hst (hph.status_fin.2 hne)
      exact (SubLTS.substep_fin hph hfin (SubLTS.subFire_step hf)).1
    · show (SubLTS.setFn c.subs s1 b' i).sent = _
      rw [SubLTS.setFn_other _ _ e]

/-- **`eof` while a response is held: the two models agree** (formerly `eof_held_differs`: `Sub.eof` left
the held response in place and `Sub.setGate` released it after the RPC had ended; the real server delivers
nothing — `corpus/C05/eof_with_response_held.ops` — and `Sub.eof` now drops the held response, as
`Sub.expire` does).  After the half-close the subscriber has ended OK, holds nothing and was sent nothing;
opening the gate afterwards delivers nothing.  In the LTS an ended RPC never sends anything more
(`ended_sends_nothing`).  `histEof` satisfies the side conditions (`histEof_okHist`): `eof` has none. -/
theorem eof_held_agrees :
    (xrun id { pregated := ["p1"] } (histEof.take 3)).subs.map
      (fun s => (s.alive, s.blocked.isSome, s.out.length)) = [(true, true, 0)] ∧
    (xrun id { pregated := ["p1"] } (histEof.take 4)).subs.map
      (fun s => (s.alive, s.status, s.blocked.isSome, s.out.length)) = [(false, some .ok, false, 0)] ∧
    (xrun id { pregated := ["p1"] } histEof).subs.map (fun s => (s.alive, s.out.length)) = [(false, 0)] ∧
    ∀ (reqs : Nat → Sub.Req × Sub.Acl) (c c' : LCfg) (l : GL), SubLTS.Reach (C06Glue.subSys reqs) c → ∀ i,
      (c.subs i).status ≠ none → SubLTS.Step (C06Glue.subSys reqs) c l c' →
      (c'.subs i).sent = (c.subs i).sent :=
  ⟨by decide, by decide, by decide, fun reqs c c' l hr i hst hs => ended_sends_nothing reqs hr i hst hs⟩

/-! ## Non-vacuity: a history with a ONCE, a POLL and a STREAM subscriber, flow control, poll triggers,
a write racing a round held back by flow control, a half-close and the send timeout -/

def reqsP : Nat → Sub.Req × Sub.Acl
  | 0 => (reqOnce, .absent)
  | 1 => (reqPoll, .absent)
  | _ => (C04Refine.reqA, .absent)

theorem staleFree_all (subs : List Sub.Subscriber) (evs : List Event)
    (h : subs.all (fun s => staleFreeB [] s.queue evs) = true) :
    ∀ s ∈ subs, s.alive = true → s.regs = [] → StaleFree [] s.queue evs :=
  fun s hs _ _ => staleFree_of_B evs [] s.queue (List.all_eq_true.1 h s hs)

/-- `t` added, leaves `a` and `c`; ONCE `o1` with the client not reading (first response held, queue closed),
`gateStep` (one response through), `gateOpen` (the rest; the RPC ends OK); POLL `p1` (first round);
`a` rewritten; a trigger (second round); the client stops reading; a trigger (third round: `a` held, `c`
and the marker queued); `c` rewritten while its handle is queued for the unregistered subscriber; the
gate opens (the re-read value goes out); STREAM `s1`; `p1` half-closes; the send timeout (nobody is
stalled) -/
def histP : List XOp :=
  [.g (.ca (.add "t")), .g (.ca (.update 10 false (C04Refine.nA 1))), .g (.ca (.update 10 false (nC 1))),
   .g (.sub "o1" .absent (some reqOnce)), .g (.gateStep "o1"), .g (.gateOpen "o1"),
   .g (.sub "p1" .absent (some reqPoll)), .g (.ca (.update 11 false (C04Refine.nA 2))), .poll "p1",
   .g (.gateShut "p1"), .poll "p1", .g (.ca (.update 12 false (nC 3))), .g (.gateOpen "p1"),
   .g (.sub "s1" .absent (some C04Refine.reqA)), .eof "p1", .expire]

theorem histP_okHist : OkHist reqsP id { cache := { cfg := C04Refine.cfgX }, pregated := ["o1"] } histP := by
  have oneC : ∀ (c : Cache.State) (now ts : Int), Feed.Op.ok c (.update now false (nC ts)) := by
    intro c now ts u hu
    simp only [nC, List.mem_cons, List.not_mem_nil, or_false] at hu
    subst hu
    refine ⟨?_, Or.inr rfl, ?_⟩
    · show ¬ glob ∈ joinKey _ _
      simp [joinKey, nC, glob]
    · show (joinKey _ _).head? ≠ some ""
      simp [joinKey, nC]
  have one : ∀ (c : Cache.State) (now ts : Int), Feed.Op.ok c (.update now false (C04Refine.nA ts)) := by
    intro c now ts u hu
    simp only [C04Refine.nA, List.mem_cons, List.not_mem_nil, or_false] at hu
    subst hu
    refine ⟨?_, Or.inr rfl, ?_⟩
    · show ¬ glob ∈ joinKey _ _
      simp [joinKey, C04Refine.nA, glob]
    · show (joinKey _ _).head? ≠ some ""
      simp [joinKey, C04Refine.nA]
  refine ⟨⟨⟨by decide, rfl⟩, (by show _ ≠ _; decide), by decide, staleFree_all _ _ (by decide)⟩,
    ⟨one _ _ _, trivial, by decide, staleFree_all _ _ (by decide)⟩,
    ⟨oneC _ _ _, trivial, by decide, staleFree_all _ _ (by decide)⟩,
    ⟨reqOnce, rfl, rfl, fun _ => by decide⟩,
    trivial, trivial,
    ⟨reqPoll, rfl, rfl, fun _ => by decide⟩,
    ⟨one _ _ _, trivial, by decide, staleFree_all _ _ (by decide)⟩,
    trivial, trivial, trivial,
    ⟨oneC _ _ _, trivial, by decide, staleFree_all _ _ (by decide)⟩,
    trivial,
    ⟨C04Refine.reqA, rfl, rfl, fun _ => by decide⟩,
    trivial, trivial, trivial⟩

/-- `histEof` (the half-close while a response is held, then `gateOpen`) is a history of the simulated
operations: no side condition on `eof` -/
theorem histEof_okHist :
    OkHist (fun _ => (reqPoll, .absent)) id { cache := { cfg := C04Refine.cfgX }, pregated := ["p1"] } histEof := by
  refine ⟨⟨⟨by decide, rfl⟩, (by show _ ≠ _; decide), by decide, staleFree_all _ _ (by decide)⟩,
    ⟨?_, trivial, by decide, staleFree_all _ _ (by decide)⟩,
    ⟨reqPoll, rfl, rfl, fun _ => by decide⟩, trivial, trivial, trivial⟩
  intro u hu
  simp only [C04Refine.nA, List.mem_cons, List.not_mem_nil, or_false] at hu
  subst hu
  refine ⟨?_, Or.inr rfl, ?_⟩
  · show ¬ glob ∈ joinKey _ _
    simp [joinKey, C04Refine.nA, glob]
  · show (joinKey _ _).head? ≠ some ""
    simp [joinKey, C04Refine.nA]

example := seq_reachable_in_lts (fun _ => (reqPoll, .absent)) id C04Refine.cfgX rfl ["p1"] histEof histEof_okHist

/-- the run is not trivial (timestamps of the updates, `none` = sync): the ONCE subscriber ended OK after
`[a@1, c@1, sync]`; the POLL subscriber was sent three rounds — `a@1 c@1`, `a@2 c@1`, and, the third round
held back by flow control with the handle of `c` queued while `c` was rewritten, `a@2 c@3`: the value read
when the response is built — each closed by a sync, and ended OK; the STREAM subscriber is live with its
snapshot -/
theorem histP_run :
    (xrun id { cache := { cfg := C04Refine.cfgX }, pregated := ["o1"] } histP).subs.map
      (fun s => (s.alive, s.status, s.out.map (fun r => match r.1 with
        | .upd n _ => some n.ts
        | _ => none))) =
      [(false, some .ok, [some 1, some 1, none]),
       (false, some .ok, [some 1, some 1, none, some 2, some 1, none, some 2, some 3, none]),
       (true, none, [some 2, none])] := by
  decide

/-- mid-run: after the third trigger the POLL subscriber holds `a` inside `Send`, the handle of `c` and
the sync marker queued; the write of `c` that follows finds an unregistered subscriber holding that handle -/
theorem histP_mid :
    (xrun id { cache := { cfg := C04Refine.cfgX }, pregated := ["o1"] } (histP.take 11)).subs.map
      (fun s => (s.alive, s.gateShut, s.blocked.isSome, s.queue.length)) =
      [(false, false, false, 0), (true, true, true, 2)] := by
  decide

example := seq_reachable_in_lts reqsP id C04Refine.cfgX rfl ["o1"] histP histP_okHist
example := seq_once_concurrent reqsP id C04Refine.cfgX rfl ["o1"] histP histP_okHist 0

theorem okHist_append_left (reqs : Nat → Sub.Req × Sub.Acl) (enc : String → String) :
    ∀ (h1 h2 : List XOp) (st : Sub.State), OkHist reqs enc st (h1 ++ h2) → OkHist reqs enc st h1
  | [], _, _, _ => trivial
  | op :: h1, h2, st, hk => ⟨hk.1, okHist_append_left reqs enc h1 h2 _ hk.2⟩

theorem histP_okHist8 : OkHist reqsP id { cache := { cfg := C04Refine.cfgX }, pregated := ["o1"] } (histP.take 8) :=
  okHist_append_left reqsP id (histP.take 8) (histP.drop 8) _ (by rw [List.take_append_drop]; exact histP_okHist)

/-- the hypotheses of `seq_poll_round` / `poll_round_agrees` at the second trigger of `histP`: the POLL
subscriber (index 1) is live and idle before it, and idle again after it -/
example : ∃ (c2 : LCfg) (new : List LResp), SubLTS.Reach (C06Glue.subSys reqsP) c2 ∧
    C05L.RoundOk (C06Glue.subSys reqsP) ((C06Glue.subSys reqsP).req 1) (c2.subs 1) new := by
  have h0 : ((xrun id { cache := { cfg := C04Refine.cfgX }, pregated := ["o1"] } (histP.take 8)).subs[1]?).map
      (fun s => decide (s.id = "p1") && s.alive && s.queue.isEmpty && s.blocked.isNone) = some true := by decide
  have h2 : ((Sub.poll (xrun id { cache := { cfg := C04Refine.cfgX }, pregated := ["o1"] } (histP.take 8)) "p1").subs[1]?).map
      (fun s => s.alive && s.queue.isEmpty && s.blocked.isNone) = some true := by decide
  cases hs0 : (xrun id { cache := { cfg := C04Refine.cfgX }, pregated := ["o1"] } (histP.take 8)).subs[1]? with
  | none => rw [hs0] at h0; cases h0
  | some s0 =>
  cases hs2 : (Sub.poll (xrun id { cache := { cfg := C04Refine.cfgX }, pregated := ["o1"] } (histP.take 8)) "p1").subs[1]? with
  | none => rw [hs2] at h2; cases h2
  | some s2 =>
  rw [hs0] at h0
  rw [hs2] at h2
  simp only [Option.map_some, Option.some.injEq, Bool.and_eq_true, decide_eq_true_eq, List.isEmpty_iff,
    Option.isNone_iff_eq_none] at h0 h2
  obtain ⟨⟨⟨a1, a2⟩, a3⟩, a4⟩ := h0
  obtain ⟨⟨b2, b3⟩, b4⟩ := h2
  obtain ⟨c2, new, hr, _, _, hro⟩ := seq_poll_round reqsP id C04Refine.cfgX rfl ["o1"] (histP.take 8) histP_okHist8 "p1" 1
    s0 s2 hs0 a1 rfl a2 a3 a4 hs2 b2 b3 b4
  exact ⟨c2, new, hr, hro⟩

end C05Refine
end Gnmi
