import Gnmi.Lemmas.Metadata
import Gnmi.Lemmas.CacheServerName
/-!
# C14 (and the counter part of C15) on the metadata object itself

"Reset ... returns its metadata to the initial values": `Target.Reset` calls `Metadata.Clear`.
The theorems below are about the model of `metadata/metadata.go` (`Model/Metadata.lean`) for
**every** registry contents, **every** object state and **every** history of operations
(register/unregister calls in the middle included); nothing is bounded.

* `clear_initial` (+ the single clauses `clear_bool_false`, `clear_int_zero`, `clear_int_deleted`,
  `clear_str_default`, `clear_str_deleted`, `clear_str_keep`): what every registered name reads
  after `Clear`;
* `clear_eq_resetEntries`: `Clear` = `ResetEntry` applied to every registered entry, in any order,
  with any repetitions; `clear_idempotent`;
* `clear_eq_new`, `history_clear_eq_new`: whatever happened before, after `Clear` every name that is
  not a kept string reads as on a fresh `New()` object;
* `keep_survives`: a string registered with `Keep` (the optional `serverName`) reads the same after any
  history of operations (any number of `Clear`/`ResetEntry`) that does not set it;
* `step_frame` (+ `frame_getInt/getBool/getStr/path`): an operation addressed to name `a` changes
  nothing that is read under a name `b ≠ a`;
* `get_unregistered`, `set_unregistered`, `resetEntry_unregistered`: the error arms change nothing
  (the model has no panic outcome: every operation is total on objects created by `New`);
* `addInt_sums`, `getInt_after_setInt`, `getInt_after_reset`: `GetInt` = value established by the last
  `SetInt`/reset + the sum of the `AddInt`s since (`int64` wrap-around arithmetic);
* `equiv_trace`: objects that answer every lookup alike (Go maps up to key order) are
  indistinguishable by any history;
* `clear_abs`, `cache_reset_keeps_serverName`, `cache_addWith_sinv`, `cache_addWith_get`: the tie to the
  cache model (`Model/Cache.lean`): `Metadata.Clear` under the cache's registries is the model's
  `md := Meta.clear` with `Target.serverName` untouched; `Cache.Reset` keeps the server name of the
  target; `Cache.Add` of a cache created `WithServerName` keeps the state invariant of C14/C15;
* `clear_shadowed`: the code as it is — a name registered under two kinds is reset only under the
  first kind (bool, int, string), the lower kind's value is **not** reset by `Clear`.
-/
namespace Gnmi
namespace C14Meta
open Metadata

/-- the reset action leaves the stored string alone (`Keep`, or an out-of-range action) -/
def KeepLike (a : ResetAction) : Prop := a ≠ .defaultValue ∧ a ≠ .delete

instance (a : ResetAction) : Decidable (KeepLike a) := by unfold KeepLike; exact inferInstance

theorem actStr_keep {a : ResetAction} (h : KeepLike a) (o : Option String) : actStr a o = o := by
  cases a <;> simp_all [actStr, KeepLike]

/-! ## `Clear` returns every registered entry to its initial value -/

theorem clear_bool_false (r : Registry) (m : Md) (k : String) (hb : r.boolVal k = true) :
    (m.clear r).getBool r k = .ok false := by
  unfold Md.getBool
  rw [validBool_none.mpr hb, clear_bools]
  simp [rb, hb]

theorem clear_int_zero (r : Registry) (m : Md) (k : String) (v : IntValue) (hb : r.boolVal k = false)
    (hi : r.intVal? k = some v) (hz : v.initZero = true) : (m.clear r).getInt r k = .ok 0 := by
  unfold Md.getInt
  rw [validInt_none.mpr (by simp [hi]), clear_ints]
  simp [ri, hb, hi, hz]

theorem clear_int_deleted (r : Registry) (m : Md) (k : String) (v : IntValue) (hb : r.boolVal k = false)
    (hi : r.intVal? k = some v) (hz : v.initZero = false) : (m.clear r).getInt r k = .error .unset := by
  unfold Md.getInt
  rw [validInt_none.mpr (by simp [hi]), clear_ints]
  simp [ri, hb, hi, hz]

theorem clear_str_default (r : Registry) (m : Md) (k : String) (sv : StrValue) (hb : r.boolVal k = false)
    (hi : r.intVal? k = none) (hs : r.strVal? k = some sv) (ha : sv.resetAction = .defaultValue) :
    (m.clear r).getStr r k = .ok "" := by
  unfold Md.getStr
  rw [validStr_none.mpr (by simp [hs]), clear_strs]
  simp [rs, hb, hi, hs, ha, actStr]

theorem clear_str_deleted (r : Registry) (m : Md) (k : String) (sv : StrValue) (hb : r.boolVal k = false)
    (hi : r.intVal? k = none) (hs : r.strVal? k = some sv) (ha : sv.resetAction = .delete) :
    (m.clear r).getStr r k = .error .unset := by
  unfold Md.getStr
  rw [validStr_none.mpr (by simp [hs]), clear_strs]
  simp [rs, hb, hi, hs, ha, actStr]

theorem rs_keep (r : Registry) (k : String) (sv : StrValue) (hs : r.strVal? k = some sv)
    (ha : KeepLike sv.resetAction) (o : Option String) : rs r k o = o := by
  unfold rs
  split
  · rfl
  · split
    · rfl
    · simp [hs, actStr_keep ha]

/-- a string registered with `Keep` reads exactly what it read before `Clear` (a value or "unset") -/
theorem clear_str_keep (r : Registry) (m : Md) (k : String) (sv : StrValue)
    (hs : r.strVal? k = some sv) (ha : KeepLike sv.resetAction) :
    (m.clear r).getStr r k = m.getStr r k := by
  unfold Md.getStr
  rw [clear_strs, rs_keep r k sv hs ha]

/-- all clauses at once -/
theorem clear_initial (r : Registry) (m : Md) (k : String) :
    (r.boolVal k = true → (m.clear r).getBool r k = .ok false) ∧
    (r.boolVal k = false → ∀ v, r.intVal? k = some v →
      (m.clear r).getInt r k = if v.initZero then .ok 0 else .error .unset) ∧
    (r.boolVal k = false → r.intVal? k = none → ∀ sv, r.strVal? k = some sv →
      (m.clear r).getStr r k =
        match sv.resetAction with
        | .defaultValue => .ok ""
        | .delete => .error .unset
        | _ => m.getStr r k) := by
  refine ⟨clear_bool_false r m k, ?_, ?_⟩
  · intro hb v hi
    cases hz : v.initZero with
    | true => simpa using clear_int_zero r m k v hb hi hz
    | false => simpa using clear_int_deleted r m k v hb hi hz
  · intro hb hi sv hs
    cases ha : sv.resetAction with
    | defaultValue => exact clear_str_default r m k sv hb hi hs ha
    | delete => exact clear_str_deleted r m k sv hb hi hs ha
    | keep => exact clear_str_keep r m k sv hs (by simp [KeepLike, ha])
    | other n => exact clear_str_keep r m k sv hs (by simp [KeepLike, ha])

/-- The code as it is: `Clear` calls `ResetEntry(k)` for the keys of all three registries, and
`ResetEntry` resets `k` under the *first* kind it is valid for.  A name registered under two
kinds keeps the value of the lower kind across `Clear`. -/
theorem clear_shadowed (r : Registry) (m : Md) (k : String) :
    (r.boolVal k = true → (m.clear r).ints.get? k = m.ints.get? k ∧ (m.clear r).strs.get? k = m.strs.get? k) ∧
    ((r.intVal? k).isSome = true → (m.clear r).strs.get? k = m.strs.get? k) := by
  refine ⟨fun hb => ⟨by rw [clear_ints]; simp [ri, hb], by rw [clear_strs]; simp [rs, hb]⟩, fun hi => ?_⟩
  rw [clear_strs]
  unfold rs
  split
  · rfl
  · cases hx : r.intVal? k with
    | none => simp [hx] at hi
    | some v => rfl

/-! ## `Clear` is `ResetEntry` on every registered entry -/

/-- in any order, with any repetitions, even with unregistered names in between -/
theorem clear_eq_resetEntries (r : Registry) (m : Md) (ks : List String)
    (hc : ∀ k, k ∈ r.allKeys → k ∈ ks) : Md.Equiv (m.resetAll r ks) (m.clear r) :=
  ⟨fun k => by rw [resetAll_cover_ints r ks hc, clear_ints],
   fun k => by rw [resetAll_cover_bools r ks hc, clear_bools],
   fun k => by rw [resetAll_cover_strs r ks hc, clear_strs]⟩

/-- the map iteration order of the three `range` loops does not matter -/
theorem clear_any_order (r : Registry) (m : Md) (ks : List String) (hp : ks.Perm r.allKeys) :
    Md.Equiv (m.resetAll r ks) (m.clear r) :=
  clear_eq_resetEntries r m ks (fun _ hk => hp.mem_iff.mpr hk)

theorem clear_idempotent (r : Registry) (m : Md) : Md.Equiv ((m.clear r).clear r) (m.clear r) :=
  ⟨fun k => by rw [clear_ints, clear_ints, ri_idem],
   fun k => by rw [clear_bools, clear_bools, rb_idem],
   fun k => by rw [clear_strs, clear_strs, rs_idem]⟩

/-- `ResetEntry` is idempotent too -/
theorem resetEntry_idempotent (r : Registry) (m : Md) (e : String) :
    Md.Equiv ((m.resetEntry r e).1.resetEntry r e).1 (m.resetEntry r e).1 := by
  refine ⟨fun k => ?_, fun k => ?_, fun k => ?_⟩
  · rw [resetEntry_ints, resetEntry_ints]; split <;> simp [ri_idem]
  · rw [resetEntry_bools, resetEntry_bools]; split <;> simp [rb_idem]
  · rw [resetEntry_strs, resetEntry_strs]; split <;> simp [rs_idem]

/-! ## After `Clear` the object reads like a fresh one -/

/-- `k` is read under the string kind and its reset action leaves the value alone -/
def Kept (r : Registry) (k : String) : Prop := ∃ sv, r.strVal? k = some sv ∧ KeepLike sv.resetAction

/-- For an *arbitrary* object `m` (hence after any history): -/
theorem clear_eq_new (r : Registry) (m : Md) (k : String) :
    (m.clear r).getBool r k = (Md.new r).getBool r k ∧
    (r.boolVal k = false → (m.clear r).getInt r k = (Md.new r).getInt r k) ∧
    (r.boolVal k = false → r.intVal? k = none → ¬ Kept r k →
      (m.clear r).getStr r k = (Md.new r).getStr r k) := by
  refine ⟨?_, ?_, ?_⟩
  · unfold Md.getBool
    rw [clear_bools, new_bools]
    cases hb : r.boolVal k with
    | true => simp [rb, hb]
    | false => simp [validBool, hb]
  · intro hb
    unfold Md.getInt
    rw [clear_ints, new_ints]
    cases hi : r.intVal? k with
    | none => simp [validInt, hi]
    | some v => simp [ri, hb, hi]
  · intro hb hi hk
    unfold Md.getStr
    rw [clear_strs, new_strs]
    cases hs : r.strVal? k with
    | none => simp [validStr, hs]
    | some sv =>
      have : ¬ KeepLike sv.resetAction := fun h => hk ⟨sv, hs, h⟩
      have hx : sv.resetAction = .defaultValue ∨ sv.resetAction = .delete := by
        unfold KeepLike at this
        by_cases h1 : sv.resetAction = .defaultValue
        · exact Or.inl h1
        · by_cases h2 : sv.resetAction = .delete
          · exact Or.inr h2
          · exact absurd ⟨h1, h2⟩ this
      rcases hx with hx | hx <;> simp [rs, hb, hi, hs, hx, actStr]

/-- **Reset returns the metadata to its initial values whatever happened in between**: start
anywhere, run any history (data operations and register/unregister calls), `Clear`: every name
that is not a kept string (and not shadowed by a higher kind) reads as on `New()` under the
registries of that moment. -/
theorem history_clear_eq_new (s : St) (ops : List Op) (k : String) :
    let s' := s.run ops
    (s'.m.clear s'.reg).getBool s'.reg k = (Md.new s'.reg).getBool s'.reg k ∧
    (s'.reg.boolVal k = false → (s'.m.clear s'.reg).getInt s'.reg k = (Md.new s'.reg).getInt s'.reg k) ∧
    (s'.reg.boolVal k = false → s'.reg.intVal? k = none → ¬ Kept s'.reg k →
      (s'.m.clear s'.reg).getStr s'.reg k = (Md.new s'.reg).getStr s'.reg k) :=
  clear_eq_new _ _ k

/-! ## Frame -/

/-- every window name `RegisterLatencyMetadata(windows)` registers -/
def latencyNames (ws : List String) : List String :=
  ws.flatMap (fun w => latencyTypes.map (latencyName w))

/-- may the operation change what is read under name `k`? -/
def touches : Op → String → Bool
  | .new, _ => true
  | .clear, _ => true
  | .addInt n _, k => n == k
  | .setInt n _, k => n == k
  | .setBool n _, k => n == k
  | .setStr n _, k => n == k
  | .resetEntry n, k => n == k
  | .registerInt n _, k => n == k
  | .unregisterInt n, k => n == k
  | .registerStr n _, k => n == k
  | .unregisterStr n, k => n == k
  | .registerLatency ws, k => (latencyNames ws).contains k
  | .registerServerName, k => serverName == k
  | .unregisterServerName, k => serverName == k
  | .getInt _, _ => false
  | .getBool _, _ => false
  | .getStr _, _ => false
  | .path _, _ => false

/-- everything that is read under one name: its three registry entries and its three values -/
structure View where
  rb : Option Bool
  ri : Option (Option IntValue)
  rs : Option (Option StrValue)
  vb : Option Bool
  vi : Option Int64
  vs : Option String
deriving DecidableEq, Repr

def view (s : St) (k : String) : View :=
  { rb := s.reg.bools.get? k, ri := s.reg.ints.get? k, rs := s.reg.strs.get? k,
    vb := s.m.bools.get? k, vi := s.m.ints.get? k, vs := s.m.strs.get? k }

theorem foldl_registerInt {α : Type} (nm : α → String) (vl : α → Option IntValue) (l : List α) :
    ∀ (r : Registry),
      (l.foldl (fun r x => r.registerInt (nm x) (vl x)) r).bools = r.bools ∧
      (l.foldl (fun r x => r.registerInt (nm x) (vl x)) r).strs = r.strs ∧
      ∀ k, (∀ x ∈ l, nm x ≠ k) →
        (l.foldl (fun r x => r.registerInt (nm x) (vl x)) r).ints.get? k = r.ints.get? k := by
  induction l with
  | nil => intro r; exact ⟨rfl, rfl, fun _ _ => rfl⟩
  | cons x l ih =>
    intro r
    obtain ⟨h1, h2, h3⟩ := ih (r.registerInt (nm x) (vl x))
    refine ⟨h1, h2, fun k hk => ?_⟩
    simp only [List.foldl_cons]
    rw [h3 k (fun y hy => hk y (List.mem_cons_of_mem _ hy))]
    exact AMap.get?_set_ne _ _ (hk x (List.mem_cons_self ..))

theorem registerLatency_frame (ws : List String) : ∀ (r : Registry),
    (r.registerLatency ws).bools = r.bools ∧ (r.registerLatency ws).strs = r.strs ∧
    ∀ k, k ∉ latencyNames ws → (r.registerLatency ws).ints.get? k = r.ints.get? k := by
  induction ws with
  | nil => intro r; exact ⟨rfl, rfl, fun _ _ => rfl⟩
  | cons w ws ih =>
    intro r
    have inner := foldl_registerInt (fun typ => latencyName w typ)
      (fun typ => some { path := latencyPath w typ, initZero := false }) latencyTypes r
    obtain ⟨i1, i2, i3⟩ := inner
    obtain ⟨h1, h2, h3⟩ := ih (latencyTypes.foldl (fun r typ =>
      r.registerInt (latencyName w typ) (some { path := latencyPath w typ, initZero := false })) r)
    unfold Registry.registerLatency at h1 h2 h3 ⊢
    simp only [List.foldl_cons]
    refine ⟨h1.trans i1, h2.trans i2, fun k hk => ?_⟩
    have hk' : k ∉ latencyNames ws ∧ ∀ typ ∈ latencyTypes, latencyName w typ ≠ k := by
      simp only [latencyNames, List.flatMap_cons, List.mem_append, List.mem_map, not_or, not_exists,
        not_and] at hk
      exact ⟨hk.2, fun typ ht => hk.1 typ ht⟩
    rw [h3 k hk'.1]
    exact i3 k hk'.2

/-- **Frame**: an operation that is not addressed to `k` changes nothing that is read under `k`:
neither its registry entries nor its values. -/
theorem step_frame (s : St) (op : Op) (k : String) (h : touches op k = false) :
    view (s.step op).1 k = view s k := by
  cases op with
  | new => simp [touches] at h
  | clear => simp [touches] at h
  | addInt n i =>
    have hn : n ≠ k := by simpa [touches] using h
    simp only [St.step, view, Md.addInt]
    split <;> simp [AMap.get?_set_ne _ _ hn]
  | setInt n v =>
    have hn : n ≠ k := by simpa [touches] using h
    simp only [St.step, view, Md.setInt]
    split <;> simp [AMap.get?_set_ne _ _ hn]
  | setBool n v =>
    have hn : n ≠ k := by simpa [touches] using h
    simp only [St.step, view, Md.setBool]
    split <;> simp [AMap.get?_set_ne _ _ hn]
  | setStr n v =>
    have hn : n ≠ k := by simpa [touches] using h
    simp only [St.step, view, Md.setStr]
    split <;> simp [AMap.get?_set_ne _ _ hn]
  | resetEntry n =>
    have hn : n ≠ k := by simpa [touches] using h
    simp only [St.step, view]
    rw [resetEntry_bools, resetEntry_ints, resetEntry_strs]
    simp [hn]
  | getInt n => rfl
  | getBool n => rfl
  | getStr n => rfl
  | path n => rfl
  | registerInt n v =>
    have hn : n ≠ k := by simpa [touches] using h
    simp [St.step, view, Registry.registerInt, AMap.get?_set_ne _ _ hn]
  | unregisterInt n =>
    have hn : n ≠ k := by simpa [touches] using h
    simp [St.step, view, Registry.unregisterInt, AMap.get?_erase_ne _ hn]
  | registerStr n v =>
    have hn : n ≠ k := by simpa [touches] using h
    simp [St.step, view, Registry.registerStr, AMap.get?_set_ne _ _ hn]
  | unregisterStr n =>
    have hn : n ≠ k := by simpa [touches] using h
    simp [St.step, view, Registry.unregisterStr, AMap.get?_erase_ne _ hn]
  | registerLatency ws =>
    have hn : k ∉ latencyNames ws := by simpa [touches] using h
    obtain ⟨h1, h2, h3⟩ := registerLatency_frame ws s.reg
    simp [St.step, view, h1, h2, h3 k hn]
  | registerServerName =>
    have hn : serverName ≠ k := by simpa [touches] using h
    simp [St.step, view, Registry.registerServerName, Registry.registerStr, AMap.get?_set_ne _ _ hn]
  | unregisterServerName =>
    have hn : serverName ≠ k := by simpa [touches] using h
    simp [St.step, view, Registry.unregisterServerName, Registry.unregisterStr, AMap.get?_erase_ne _ hn]

/-- what `GetInt/GetBool/GetStr/Path` answer for `k` is a function of the view of `k` -/
theorem frame_getInt {s t : St} {k : String} (h : view s k = view t k) :
    s.m.getInt s.reg k = t.m.getInt t.reg k := by
  simp only [view, View.mk.injEq] at h
  obtain ⟨_, h2, _, _, h5, _⟩ := h
  simp [Md.getInt, validInt, Registry.intVal?, h2, h5]

theorem frame_getBool {s t : St} {k : String} (h : view s k = view t k) :
    s.m.getBool s.reg k = t.m.getBool t.reg k := by
  simp only [view, View.mk.injEq] at h
  obtain ⟨h1, _, _, h4, _, _⟩ := h
  unfold Md.getBool validBool Registry.boolVal
  rw [h1, h4]

theorem frame_getStr {s t : St} {k : String} (h : view s k = view t k) :
    s.m.getStr s.reg k = t.m.getStr t.reg k := by
  simp only [view, View.mk.injEq] at h
  obtain ⟨_, _, h3, _, _, h6⟩ := h
  simp [Md.getStr, validStr, Registry.strVal?, h3, h6]

theorem frame_path {s t : St} {k : String} (h : view s k = view t k) : s.reg.path k = t.reg.path k := by
  simp only [view, View.mk.injEq] at h
  obtain ⟨h1, h2, h3, _, _, _⟩ := h
  unfold Registry.path Registry.boolVal Registry.strVal? Registry.intVal?
  rw [h1, h2, h3]

/-- the frame over a whole history -/
theorem run_frame (ops : List Op) : ∀ (s : St) (k : String), (∀ op ∈ ops, touches op k = false) →
    view (s.run ops) k = view s k := by
  induction ops with
  | nil => intro s k _; rfl
  | cons op ops ih =>
    intro s k h
    simp only [St.run]
    rw [ih _ k (fun o ho => h o (List.mem_cons_of_mem _ ho)), step_frame s op k (h op (List.mem_cons_self ..))]

/-- a read changes nothing at all -/
theorem get_pure (s : St) (n : String) :
    (s.step (.getInt n)).1 = s ∧ (s.step (.getBool n)).1 = s ∧ (s.step (.getStr n)).1 = s ∧
    (s.step (.path n)).1 = s := ⟨rfl, rfl, rfl, rfl⟩

/-! ## Error arms (totality) -/

/-- reading a name that is not registered under the kind asked for: `ErrInvalidValue` -/
theorem get_unregistered (r : Registry) (m : Md) (k : String) :
    (r.intVal? k = none → m.getInt r k = .error .invalid) ∧
    (r.boolVal k = false → m.getBool r k = .error .invalid) ∧
    (r.strVal? k = none → m.getStr r k = .error .invalid) := by
  refine ⟨fun h => ?_, fun h => ?_, fun h => ?_⟩
  · simp [Md.getInt, validInt, h]
  · simp [Md.getBool, validBool, h]
  · simp [Md.getStr, validStr, h]

/-- writing under a name that is not registered under that kind: `ErrInvalidValue`, no change -/
theorem set_unregistered (r : Registry) (m : Md) (k : String) :
    (r.intVal? k = none → ∀ v, m.setInt r k v = (m, some .invalid) ∧ m.addInt r k v = (m, some .invalid)) ∧
    (r.boolVal k = false → ∀ v, m.setBool r k v = (m, some .invalid)) ∧
    (r.strVal? k = none → ∀ v, m.setStr r k v = (m, some .invalid)) := by
  refine ⟨fun h v => ?_, fun h v => ?_, fun h v => ?_⟩
  · simp [Md.setInt, Md.addInt, validInt, h]
  · simp [Md.setBool, validBool, h]
  · simp [Md.setStr, validStr, h]

/-- `ResetEntry` of a name registered under no kind: an error, no change -/
theorem resetEntry_unregistered (r : Registry) (m : Md) (k : String)
    (hb : r.boolVal k = false) (hi : r.intVal? k = none) (hs : r.strVal? k = none) :
    m.resetEntry r k = (m, some .unsupported) := resetEntry_unsupported r m k hb hi hs

/-- a registered value reads without error after `Set`, and reads what was set -/
theorem get_after_set (r : Registry) (m : Md) (k : String) :
    ((r.intVal? k).isSome = true → ∀ v, (m.setInt r k v).1.getInt r k = .ok v) ∧
    (r.boolVal k = true → ∀ v, (m.setBool r k v).1.getBool r k = .ok v) ∧
    ((r.strVal? k).isSome = true → ∀ v, (m.setStr r k v).1.getStr r k = .ok v) := by
  refine ⟨fun h v => ?_, fun h v => ?_, fun h v => ?_⟩
  · have := validInt_none.mpr h
    simp [Md.setInt, Md.getInt, this, AMap.get?_set_same]
  · have := validBool_none.mpr h
    simp [Md.setBool, Md.getBool, this, AMap.get?_set_same]
  · have := validStr_none.mpr h
    simp [Md.setStr, Md.getStr, this, AMap.get?_set_same]

/-! ## A kept string survives every history that does not set it -/

/-- the operation neither sets string `k`, nor replaces the object, nor changes the string registry
entry of `k` -/
def quietStr (k : String) : Op → Bool
  | .new => false
  | .setStr n _ => n != k
  | .registerStr n _ => n != k
  | .unregisterStr n => n != k
  | .registerServerName => serverName != k
  | .unregisterServerName => serverName != k
  | _ => true

theorem registerLatency_strs (r : Registry) (ws : List String) : (r.registerLatency ws).strs = r.strs :=
  (registerLatency_frame ws r).2.1

theorem keep_step (s : St) (op : Op) (k : String) (sv : StrValue) (hs : s.reg.strVal? k = some sv)
    (ha : KeepLike sv.resetAction) (hq : quietStr k op = true) :
    (s.step op).1.reg.strVal? k = some sv ∧ (s.step op).1.m.strs.get? k = s.m.strs.get? k := by
  cases op with
  | new => simp [quietStr] at hq
  | clear => exact ⟨hs, by simp only [St.step]; rw [clear_strs, rs_keep _ k sv hs ha]⟩
  | addInt n i => refine ⟨hs, ?_⟩; simp only [St.step, Md.addInt]; split <;> rfl
  | setInt n v => refine ⟨hs, ?_⟩; simp only [St.step, Md.setInt]; split <;> rfl
  | setBool n v => refine ⟨hs, ?_⟩; simp only [St.step, Md.setBool]; split <;> rfl
  | setStr n v =>
    have hn : n ≠ k := by simpa [quietStr] using hq
    refine ⟨hs, ?_⟩
    simp only [St.step, Md.setStr]
    split
    · rfl
    · exact AMap.get?_set_ne _ _ hn
  | resetEntry n =>
    refine ⟨hs, ?_⟩
    simp only [St.step]
    rw [resetEntry_strs]
    split
    · exact rs_keep _ k sv hs ha _
    · rfl
  | getInt n => exact ⟨hs, rfl⟩
  | getBool n => exact ⟨hs, rfl⟩
  | getStr n => exact ⟨hs, rfl⟩
  | path n => exact ⟨hs, rfl⟩
  | registerInt n v => exact ⟨hs, rfl⟩
  | unregisterInt n => exact ⟨hs, rfl⟩
  | registerStr n v =>
    have hn : n ≠ k := by simpa [quietStr] using hq
    refine ⟨?_, rfl⟩
    simpa [St.step, Registry.strVal?, Registry.registerStr, AMap.get?_set_ne _ _ hn] using hs
  | unregisterStr n =>
    have hn : n ≠ k := by simpa [quietStr] using hq
    refine ⟨?_, rfl⟩
    simpa [St.step, Registry.strVal?, Registry.unregisterStr, AMap.get?_erase_ne _ hn] using hs
  | registerLatency ws =>
    refine ⟨?_, rfl⟩
    simpa [St.step, Registry.strVal?, registerLatency_strs] using hs
  | registerServerName =>
    have hn : serverName ≠ k := by simpa [quietStr] using hq
    refine ⟨?_, rfl⟩
    simpa [St.step, Registry.strVal?, Registry.registerServerName, Registry.registerStr,
      AMap.get?_set_ne _ _ hn] using hs
  | unregisterServerName =>
    have hn : serverName ≠ k := by simpa [quietStr] using hq
    refine ⟨?_, rfl⟩
    simpa [St.step, Registry.strVal?, Registry.unregisterServerName, Registry.unregisterStr,
      AMap.get?_erase_ne _ hn] using hs

/-- **Keep**: a string registered with `ResetAction: Keep` (`serverName`) answers `GetStr` the same
after any history — any number of `Clear`, `ResetEntry` (of itself too), updates of other values,
registrations of other names — that does not `SetStr` it. -/
theorem keep_survives (ops : List Op) : ∀ (s : St) (k : String) (sv : StrValue),
    s.reg.strVal? k = some sv → KeepLike sv.resetAction → (∀ op ∈ ops, quietStr k op = true) →
    (s.run ops).m.getStr (s.run ops).reg k = s.m.getStr s.reg k := by
  induction ops with
  | nil => intro s k sv _ _ _; rfl
  | cons op ops ih =>
    intro s k sv hs ha hq
    obtain ⟨h1, h2⟩ := keep_step s op k sv hs ha (hq op (List.mem_cons_self ..))
    simp only [St.run]
    rw [ih (s.step op).1 k sv h1 ha (fun o ho => hq o (List.mem_cons_of_mem _ ho))]
    simp only [Md.getStr, validStr, h1, hs, h2]

/-- `RegisterServerNameMetadata` registers `serverName` with `Keep` -/
theorem registerServerName_keep (r : Registry) :
    (r.registerServerName).strVal? serverName = some { resetAction := .keep } := by
  simp [Registry.registerServerName, Registry.registerStr, Registry.strVal?, AMap.get?_set_same]

/-- the cache's use: `RegisterServerNameMetadata(); New(); SetStr(serverName, v)`, then anything
but another `SetStr(serverName, _)` / `New()` / re-registration: `GetStr(serverName) = v`. -/
theorem serverName_survives (s : St) (v : String) (ops : List Op)
    (hq : ∀ op ∈ ops, quietStr serverName op = true) :
    let s1 := (s.step .registerServerName).1
    let s2 := (s1.step .new).1
    let s3 := (s2.step (.setStr serverName v)).1
    (s3.run ops).m.getStr (s3.run ops).reg serverName = .ok v := by
  intro s1 s2 s3
  have hr : s3.reg.strVal? serverName = some { resetAction := .keep } := registerServerName_keep s.reg
  rw [keep_survives ops s3 serverName _ hr (by simp [KeepLike]) hq]
  exact (get_after_set s2.reg s2.m serverName).2.2 (by rw [show s2.reg = s3.reg from rfl, hr]; rfl) v

/-! ## Counters: `GetInt` = base + sum of the `AddInt`s -/

def sum64 : List Int64 → Int64
  | [] => 0
  | i :: l => i + sum64 l

/-- the increment the operation applies to int `k` -/
def incOf (k : String) : Op → Option Int64
  | .addInt n i => if n = k then some i else none
  | _ => none

def incs (k : String) (ops : List Op) : List Int64 := ops.filterMap (incOf k)

/-- the operation does not write int `k` other than by `AddInt`, and leaves its registration alone -/
def quietInt (k : String) : Op → Bool
  | .new => false
  | .clear => false
  | .setInt n _ => n != k
  | .resetEntry n => n != k
  | .registerInt n _ => n != k
  | .unregisterInt n => n != k
  | .registerLatency ws => !(latencyNames ws).contains k
  | _ => true

/-- `valuesInt[k] += i` applied for every increment in turn (absent counts as 0) -/
def bump (o : Option Int64) (l : List Int64) : Option Int64 :=
  l.foldl (fun o i => some (o.getD 0 + i)) o

theorem bump_some (x : Int64) (l : List Int64) : bump (some x) l = some (x + sum64 l) := by
  induction l generalizing x with
  | nil => simp [bump, sum64]
  | cons i l ih =>
    have : bump (some x) (i :: l) = bump (some (x + i)) l := rfl
    rw [this, ih, sum64, Int64.add_assoc]

theorem bump_none_cons (i : Int64) (l : List Int64) : bump none (i :: l) = some (sum64 (i :: l)) := by
  have : bump none (i :: l) = bump (some (0 + i)) l := rfl
  rw [this, bump_some, Int64.zero_add, sum64]

theorem int_step (s : St) (op : Op) (k : String) (v : IntValue) (hi : s.reg.intVal? k = some v)
    (hq : quietInt k op = true) :
    (s.step op).1.reg.intVal? k = some v ∧
    (s.step op).1.m.ints.get? k =
      match incOf k op with
      | some i => some ((s.m.ints.get? k).getD 0 + i)
      | none => s.m.ints.get? k := by
  cases op with
  | new => simp [quietInt] at hq
  | clear => simp [quietInt] at hq
  | addInt n i =>
    refine ⟨hi, ?_⟩
    by_cases hn : n = k
    · subst hn
      have : validInt s.reg n = none := validInt_none.mpr (by simp [hi])
      simp [St.step, Md.addInt, this, incOf, AMap.get?_set_same]
    · simp only [St.step, Md.addInt, incOf, hn, if_false]
      split
      · rfl
      · exact AMap.get?_set_ne _ _ hn
  | setInt n x =>
    have hn : n ≠ k := by simpa [quietInt] using hq
    refine ⟨hi, ?_⟩
    simp only [St.step, Md.setInt, incOf]
    split
    · rfl
    · exact AMap.get?_set_ne _ _ hn
  | setBool n x => refine ⟨hi, ?_⟩; simp only [St.step, Md.setBool, incOf]; split <;> rfl
  | setStr n x => refine ⟨hi, ?_⟩; simp only [St.step, Md.setStr, incOf]; split <;> rfl
  | resetEntry n =>
    have hn : n ≠ k := by simpa [quietInt] using hq
    refine ⟨hi, ?_⟩
    simp only [St.step, incOf]
    rw [resetEntry_ints]
    simp [hn]
  | getInt n => exact ⟨hi, rfl⟩
  | getBool n => exact ⟨hi, rfl⟩
  | getStr n => exact ⟨hi, rfl⟩
  | path n => exact ⟨hi, rfl⟩
  | registerInt n x =>
    have hn : n ≠ k := by simpa [quietInt] using hq
    refine ⟨?_, rfl⟩
    simpa [St.step, Registry.intVal?, Registry.registerInt, AMap.get?_set_ne _ _ hn] using hi
  | unregisterInt n =>
    have hn : n ≠ k := by simpa [quietInt] using hq
    refine ⟨?_, rfl⟩
    simpa [St.step, Registry.intVal?, Registry.unregisterInt, AMap.get?_erase_ne _ hn] using hi
  | registerStr n x => exact ⟨hi, rfl⟩
  | unregisterStr n => exact ⟨hi, rfl⟩
  | registerLatency ws =>
    have hn : k ∉ latencyNames ws := by simpa [quietInt] using hq
    refine ⟨?_, rfl⟩
    simpa [St.step, Registry.intVal?, (registerLatency_frame ws s.reg).2.2 k hn] using hi
  | registerServerName => exact ⟨hi, rfl⟩
  | unregisterServerName => exact ⟨hi, rfl⟩

/-- **Counters are sums**: over any history that does not `SetInt`/reset/re-register int `k`, the
stored value moves exactly by the `AddInt(k, ·)` increments, in order. -/
theorem addInt_sums (ops : List Op) : ∀ (s : St) (k : String) (v : IntValue),
    s.reg.intVal? k = some v → (∀ op ∈ ops, quietInt k op = true) →
    (s.run ops).reg.intVal? k = some v ∧ (s.run ops).m.ints.get? k = bump (s.m.ints.get? k) (incs k ops) := by
  induction ops with
  | nil => intro s k v hi _; exact ⟨hi, rfl⟩
  | cons op ops ih =>
    intro s k v hi hq
    obtain ⟨h1, h2⟩ := int_step s op k v hi (hq op (List.mem_cons_self ..))
    obtain ⟨h3, h4⟩ := ih (s.step op).1 k v h1 (fun o ho => hq o (List.mem_cons_of_mem _ ho))
    refine ⟨h3, ?_⟩
    simp only [St.run]
    rw [h4, h2]
    unfold incs
    cases hinc : incOf k op with
    | none => simp [hinc]
    | some i => simp [hinc, bump]

/-- after `SetInt(k, v0)`: `GetInt(k) = v0 + Σ AddInt(k, ·)` -/
theorem getInt_after_setInt (s : St) (k : String) (v : IntValue) (v0 : Int64) (ops : List Op)
    (hi : s.reg.intVal? k = some v) (hq : ∀ op ∈ ops, quietInt k op = true) :
    let s' := (s.step (.setInt k v0)).1.run ops
    s'.m.getInt s'.reg k = .ok (v0 + sum64 (incs k ops)) := by
  intro s'
  have hv : validInt s.reg k = none := validInt_none.mpr (by simp [hi])
  have h0 : (s.step (.setInt k v0)).1.m.ints.get? k = some v0 := by
    simp [St.step, Md.setInt, hv, AMap.get?_set_same]
  obtain ⟨h1, h2⟩ := addInt_sums ops (s.step (.setInt k v0)).1 k v hi hq
  have hv' : validInt s'.reg k = none := validInt_none.mpr (by simp [s', h1])
  simp only [Md.getInt, hv', s', h2, h0, bump_some]

/-- after a reset of a counter (`InitZero`), by `ResetEntry(k)` or by `Clear()`:
`GetInt(k) = Σ AddInt(k, ·)` since -/
theorem getInt_after_reset (s : St) (k : String) (v : IntValue) (ops : List Op) (rop : Op)
    (hr : rop = .resetEntry k ∨ rop = .clear)
    (hb : s.reg.boolVal k = false) (hi : s.reg.intVal? k = some v) (hz : v.initZero = true)
    (hq : ∀ op ∈ ops, quietInt k op = true) :
    let s' := (s.step rop).1.run ops
    s'.m.getInt s'.reg k = .ok (sum64 (incs k ops)) := by
  intro s'
  have hreg : (s.step rop).1.reg = s.reg := by rcases hr with h | h <;> subst h <;> rfl
  have h0 : (s.step rop).1.m.ints.get? k = some 0 := by
    rcases hr with h | h <;> subst h
    · simp only [St.step]; rw [resetEntry_ints]; simp [ri, hb, hi, hz]
    · simp only [St.step]; rw [clear_ints]; simp [ri, hb, hi, hz]
  obtain ⟨h1, h2⟩ := addInt_sums ops (s.step rop).1 k v (by rw [hreg]; exact hi) hq
  have hv' : validInt s'.reg k = none := validInt_none.mpr (by simp [s', h1])
  simp only [Md.getInt, hv', s', h2, h0, bump_some, Int64.zero_add]

/-- a value that is deleted on reset (`InitZero = false`: the latency statistics) is unset until the
first `AddInt`/`SetInt`, and counts from 0 then -/
theorem getInt_after_delete (s : St) (k : String) (v : IntValue) (ops : List Op)
    (hb : s.reg.boolVal k = false) (hi : s.reg.intVal? k = some v) (hz : v.initZero = false)
    (hq : ∀ op ∈ ops, quietInt k op = true) :
    let s' := (s.step .clear).1.run ops
    s'.m.getInt s'.reg k = if incs k ops = [] then .error .unset else .ok (sum64 (incs k ops)) := by
  intro s'
  have h0 : (s.step .clear).1.m.ints.get? k = none := by
    simp only [St.step]; rw [clear_ints]; simp [ri, hb, hi, hz]
  obtain ⟨h1, h2⟩ := addInt_sums ops (s.step .clear).1 k v hi hq
  have hv' : validInt s'.reg k = none := validInt_none.mpr (by simp [s', h1])
  simp only [Md.getInt, hv', s', h2, h0]
  cases hl : incs k ops with
  | nil => simp [bump]
  | cons i l => rw [bump_none_cons]; simp

/-! ## Key order does not matter -/

theorem equiv_step {a b : Md} (h : Md.Equiv a b) (r : Registry) (op : Op) :
    ((St.mk r a).step op).2 = ((St.mk r b).step op).2 ∧
    ((St.mk r a).step op).1.reg = ((St.mk r b).step op).1.reg ∧
    Md.Equiv ((St.mk r a).step op).1.m ((St.mk r b).step op).1.m := by
  cases op with
  | new => exact ⟨rfl, rfl, Md.Equiv.refl _⟩
  | clear => exact ⟨rfl, rfl, h.clear r⟩
  | addInt n i => obtain ⟨h1, h2⟩ := h.addInt r n i; exact ⟨by simp [St.step, h2], rfl, h1⟩
  | setInt n v => obtain ⟨h1, h2⟩ := h.setInt r n v; exact ⟨by simp [St.step, h2], rfl, h1⟩
  | setBool n v => obtain ⟨h1, h2⟩ := h.setBool r n v; exact ⟨by simp [St.step, h2], rfl, h1⟩
  | setStr n v => obtain ⟨h1, h2⟩ := h.setStr r n v; exact ⟨by simp [St.step, h2], rfl, h1⟩
  | resetEntry n => obtain ⟨h1, h2⟩ := h.resetEntry r n; exact ⟨by simp [St.step, h2], rfl, h1⟩
  | getInt n => exact ⟨by simp [St.step, h.getInt r n], rfl, h⟩
  | getBool n => exact ⟨by simp [St.step, h.getBool r n], rfl, h⟩
  | getStr n => exact ⟨by simp [St.step, h.getStr r n], rfl, h⟩
  | path n => exact ⟨rfl, rfl, h⟩
  | registerInt n v => exact ⟨rfl, rfl, h⟩
  | unregisterInt n => exact ⟨rfl, rfl, h⟩
  | registerStr n v => exact ⟨rfl, rfl, h⟩
  | unregisterStr n => exact ⟨rfl, rfl, h⟩
  | registerLatency ws => exact ⟨rfl, rfl, h⟩
  | registerServerName => exact ⟨rfl, rfl, h⟩
  | unregisterServerName => exact ⟨rfl, rfl, h⟩

/-- two objects that answer every lookup alike (the same Go maps in another key order) cannot be
told apart by any history of operations -/
theorem equiv_trace (ops : List Op) : ∀ (r : Registry) (a b : Md), Md.Equiv a b →
    (St.mk r a).trace ops = (St.mk r b).trace ops := by
  induction ops with
  | nil => intro r a b _; rfl
  | cons op ops ih =>
    intro r a b h
    obtain ⟨h1, h2, h3⟩ := equiv_step h r op
    simp only [St.trace]
    rw [h1]
    congr 1
    have e1 : ((St.mk r a).step op).1 = St.mk ((St.mk r a).step op).1.reg ((St.mk r a).step op).1.m := rfl
    have e2 : ((St.mk r b).step op).1 = St.mk ((St.mk r a).step op).1.reg ((St.mk r b).step op).1.m := by
      rw [h2]
    rw [e1, e2]
    exact ih _ _ _ h3

/-! ## The cache's registries and the cache model's metadata record -/

/-- the registries of a cache created with `WithServerName` (no latency windows) -/
def cacheReg : Registry := Registry.std.registerServerName

/-- the cache model's record (`Cache.Meta`) read off a metadata object, and the kept string -/
def absMeta (m : Md) : Cache.Meta × Option String :=
  ({ sync := (m.bools.get? sync).getD false,
     connected := (m.bools.get? connected).getD false,
     added := ((m.ints.get? addCount).getD 0).toInt,
     deleted := ((m.ints.get? delCount).getD 0).toInt,
     empty := ((m.ints.get? emptyCount).getD 0).toInt,
     leaves := ((m.ints.get? leafCount).getD 0).toInt,
     updated := ((m.ints.get? updateCount).getD 0).toInt,
     stale := ((m.ints.get? staleCount).getD 0).toInt,
     future := ((m.ints.get? futureCount).getD 0).toInt,
     suppressed := ((m.ints.get? suppressedCount).getD 0).toInt,
     size := ((m.ints.get? size).getD 0).toInt,
     latest := ((m.ints.get? latestTimestamp).getD 0).toInt,
     connectedAddr := (m.strs.get? connectedAddr).getD "",
     connectError := m.strs.get? connectError },
   m.strs.get? serverName)

/-- **Tie to the cache model**: under the cache's registries `Metadata.Clear` is what the cache
model's `Target.reset` does to its record — every field back to `Meta.clear`, the server name
untouched (`Target.serverName` is not part of `md`). -/
theorem clear_abs (m : Md) : absMeta (m.clear cacheReg) = (Cache.Meta.clear, m.strs.get? serverName) := by
  unfold absMeta
  simp only [clear_bools, clear_ints, clear_strs]
  have b1 : cacheReg.boolVal sync = true := by decide
  have b2 : cacheReg.boolVal connected = true := by decide
  have hi : ∀ n ∈ [addCount, delCount, emptyCount, leafCount, updateCount, staleCount, futureCount,
      suppressedCount, size, latestTimestamp],
      cacheReg.boolVal n = false ∧ cacheReg.intVal? n = some { path := [root, n], initZero := true } := by
    decide
  have i0 : ∀ n ∈ [addCount, delCount, emptyCount, leafCount, updateCount, staleCount, futureCount,
      suppressedCount, size, latestTimestamp], ∀ o, ri cacheReg n o = some 0 := by
    intro n hn o
    obtain ⟨h1, h2⟩ := hi n hn
    simp [ri, h1, h2]
  have s1 : ∀ o, rs cacheReg connectedAddr o = some "" := by
    intro o
    have h1 : cacheReg.boolVal connectedAddr = false := by decide
    have h2 : cacheReg.intVal? connectedAddr = none := by decide
    have h3 : cacheReg.strVal? connectedAddr = some { resetAction := .defaultValue } := by decide
    simp [rs, h1, h2, h3, actStr]
  have s2 : ∀ o, rs cacheReg connectError o = none := by
    intro o
    have h1 : cacheReg.boolVal connectError = false := by decide
    have h2 : cacheReg.intVal? connectError = none := by decide
    have h3 : cacheReg.strVal? connectError = some { resetAction := .delete } := by decide
    simp [rs, h1, h2, h3, actStr]
  have s3 : ∀ o, rs cacheReg serverName o = o := by
    intro o
    have h3 : cacheReg.strVal? serverName = some { resetAction := .keep } := by decide
    exact rs_keep cacheReg serverName _ h3 (by simp [KeepLike]) o
  rw [i0 addCount (by simp), i0 delCount (by simp), i0 emptyCount (by simp), i0 leafCount (by simp),
    i0 updateCount (by simp), i0 staleCount (by simp), i0 futureCount (by simp),
    i0 suppressedCount (by simp), i0 size (by simp), i0 latestTimestamp (by simp), s1, s2, s3]
  simp [rb, b1, b2, Cache.Meta.clear]

/-- **`Cache.Reset` keeps the server name** of the target it resets (cache model) -/
theorem cache_reset_keeps_serverName (s : Cache.State) (enc : String → String) (T : String) (now : Int)
    (t : Cache.Target) (h : s.get T = some t) :
    ((s.reset enc T now).1.get T).map (·.serverName) = some t.serverName := by
  simp only [Cache.State.reset, Cache.State.onTarget, h, Cache.get_set_same, Option.map_some,
    Cache.reset_serverName]

/-- `Cache.Add` of a cache created `WithServerName` keeps every target well formed: together with
`Cache.step_sinv` (all other API calls) the state invariant the C14/C15 theorems rest on holds along
every history of such a cache as well -/
theorem cache_addWith_sinv (s : Cache.State) (name : String) (hs : Cache.SInv s) (hn : name ≠ "") :
    Cache.SInv (s.addWith name) :=
  hs.set ⟨Cache.fresh_target_inv name _, rfl, hn⟩

/-- what `Cache.Add` creates: a fresh target carrying the cache's server name (if it has one) -/
theorem cache_addWith_get (s : Cache.State) (name : String) :
    (s.addWith name).get name =
      some { name := name, serverName := if s.cfg.serverName = "" then none else some s.cfg.serverName } :=
  Cache.get_set_same ..

/-! ## Non-vacuity -/

/-- registries with a counter, a deleted-on-reset int, and strings of all three reset actions -/
def exReg : Registry :=
  (Registry.std.registerLatency ["2s"]).registerServerName

/-- the hypotheses of the `clear_*` clauses are satisfiable, each by a different name -/
example : exReg.boolVal sync = true ∧
    (exReg.boolVal leafCount = false ∧ exReg.intVal? leafCount = some { path := [root, leafCount], initZero := true }) ∧
    (exReg.boolVal "avgLatencyWindow2s" = false ∧
      exReg.intVal? "avgLatencyWindow2s" = some { path := [root, "latency", "window", "2s", "avg"], initZero := false }) ∧
    exReg.strVal? connectedAddr = some { resetAction := .defaultValue } ∧
    exReg.strVal? connectError = some { resetAction := .delete } ∧
    exReg.strVal? serverName = some { resetAction := .keep } ∧ Kept exReg serverName ∧ ¬ Kept exReg connectError := by
  refine ⟨by decide, by decide, by decide, by decide, by decide, by decide,
    ⟨{ resetAction := .keep }, by decide, by decide⟩, ?_⟩
  rintro ⟨sv, h1, h2⟩
  have : exReg.strVal? connectError = some { resetAction := .delete } := by decide
  rw [this] at h1
  cases h1
  exact h2.2 rfl

/-- a concrete history: values set, counters bumped, `Clear`: the kept server name is still there,
everything else is initial (the seeded change `c14_seed6` answers `""` for the server name) -/
def exOps : List Op :=
  [.setStr serverName "srv1", .setBool sync true, .addInt leafCount 3, .addInt leafCount 4,
   .setStr connectError "boom", .setStr connectedAddr "1.2.3.4", .addInt "avgLatencyWindow2s" 7,
   .clear,
   .getStr serverName, .getBool sync, .getInt leafCount, .getStr connectError, .getStr connectedAddr,
   .getInt "avgLatencyWindow2s", .addInt leafCount 5, .getInt leafCount]

example : (St.mk exReg (Md.new exReg)).trace exOps =
    [.ok, .ok, .ok, .ok, .ok, .ok, .ok, .ok,
     .str "srv1", .bool false, .int 0, .err .unset, .str "", .err .unset, .ok, .int 5] := by decide

/-- `quietStr`/`quietInt` histories exist that contain `Clear`, `ResetEntry` of the name itself and
registrations -/
example : ∀ op ∈ [Op.clear, .resetEntry serverName, .setStr connectError "x", .registerLatency ["10s"],
    .registerInt serverName none, .unregisterStr connectError], quietStr serverName op = true := by decide

example : ∀ op ∈ [Op.addInt leafCount 1, .resetEntry addCount, .setInt addCount 9, .registerServerName,
    .registerLatency ["10s"], .addInt leafCount (-3)], quietInt leafCount op = true := by decide

/-- a name registered under two kinds: `Clear` resets the int, the string of the same name stays -/
example :
    let r := Registry.std.registerStr leafCount (some { resetAction := .defaultValue })
    let s : St := { reg := r, m := Md.new r }
    s.trace [.setStr leafCount "x", .addInt leafCount 2, .clear, .getInt leafCount, .getStr leafCount] =
      [.ok, .ok, .ok, .int 0, .str "x"] := by decide

/-- two different key orders of the same maps are equivalent and not equal -/
example : Md.Equiv { ints := [("a", 1), ("b", 2)] } { ints := [("b", 2), ("a", 1)] } ∧
    ({ ints := [("a", 1), ("b", 2)] } : Md) ≠ { ints := [("b", 2), ("a", 1)] } := by
  refine ⟨⟨fun k => ?_, fun _ => rfl, fun _ => rfl⟩, by decide⟩
  simp only [AMap.get?]
  by_cases h1 : "a" = k
  · subst h1; simp
  · by_cases h2 : "b" = k
    · subst h2; simp
    · simp [h1, h2]

end C14Meta
end Gnmi
