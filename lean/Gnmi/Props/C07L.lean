import Gnmi.Props.C04
import Gnmi.Lemmas.SubscribeAcl
/-!
# C07 (LTS part) — Subscribers never receive data for targets their ACL denies

The interleaving-quantified theorems; the statements about the sequential model of
`subscribe.Server` are in `Props/C07.lean`.

Theorems about the Subscribe LTS (`Model/SubscribeLTS.lean`).  The ACL of an RPC is an arbitrary
predicate `Req.allow : T → Bool`; a failing `NewRPCACL` is `Req.aclOk = false`.
-/
namespace Gnmi
namespace C07L
open SubLTS
set_option linter.unusedSectionVars false
set_option linter.unusedSimpArgs false

variable {K V T R : Type} [DecidableEq K] [DecidableEq R] [DecidableEq T]

/-- the handler is still before the mode switch -/
def earlyPc : HPc → Bool
  | .h0 | .h1 | .h2 | .h3 => true
  | _ => false

/-- the handler has not executed the mode switch yet (`h4`: about to; an unknown mode is rejected
there with `InvalidArgument`, after `HasTarget` and the ACL check, as in the code) -/
def beforeSwitch : HPc → Bool
  | .h0 | .h1 | .h2 | .h3 | .h4 => true
  | _ => false

theorem beforeSwitch_of_early {pc : HPc} (h : earlyPc pc = true) : beforeSwitch pc = true := by
  revert h; cases pc <;> simp [earlyPc, beforeSwitch]

/-- the RPC was rejected before or by the mode switch -/
def earlySt : Option Status → Bool
  | some .unauthenticated | some .invalid | some .notFound | some .denied => true
  | _ => false

/-- nothing was registered, walked, queued or sent -/
def Untouched (b : Sub K V R) : Prop :=
  b.sent = [] ∧ b.q = [] ∧ b.registered = false ∧ b.walker = .idle ∧ b.rounds = 0 ∧ b.insLog = [] ∧
    (b.snd = .off ∨ b.snd = .stopped)

structure Early (rq : Req K T R) (b : Sub K V R) : Prop where
  pcU : beforeSwitch b.pc = true → b.q = [] ∧ b.rounds = 0 ∧ b.insLog = []
  stU : earlySt b.status = true → Untouched b
  acl : rq.aclOk = false → b.pc = .h0 ∨ b.status = some .unauthenticated
  denied : ∀ t, rq.single = some t → rq.allow t = false →
    earlyPc b.pc = true ∨ earlySt b.status = true

theorem early_init (rq : Req K T R) : Early rq ({} : Sub K V R) := by
  constructor <;> simp [earlyPc, beforeSwitch, earlySt, Untouched]

theorem early_local {sys : Sys K T R} {rq : Req K T R} {sh : Shared K V T R} {b b' : Sub K V R}
    {l : SLabel K} (hph : Phase rq b) (h : SubStep sys rq sh b l b') (hi : Early rq b) :
    Early rq b' := by
  obtain ⟨h1, h2, h3, h4⟩ := hi
  have hpre : beforeSwitch b.pc = true → b.pc.pre = true ∧ b.pc.preReg = true := by
    cases b.pc <;> simp [beforeSwitch, HPc.pre, HPc.preReg]
  have p1 : beforeSwitch b.pc = true → b.snd = .off := fun h => hph.pre_snd (hpre h).1
  have p2 : beforeSwitch b.pc = true → b.walker = .idle := fun h => hph.pre_walker (hpre h).1
  have p3 : beforeSwitch b.pc = true → b.sent = [] := fun h => hph.pre_sent (hpre h).1
  have p4 : beforeSwitch b.pc = true → b.registered = false := fun h => hph.pre_reg (hpre h).2
  have p5 := hph.status_fin
  have p6 := hph.fin_snd
  have p7 := hph.armed
  have p8 : b.pc = .fin → b.registered = false := by
    intro hf
    cases hr : b.registered with
    | false => rfl
    | true => rcases hph.reg_pc hr with e | e <;> rw [e] at hf <;> cases hf
  have p10 : b.armed = true → earlyPc b.pc = false ∧ b.pc ≠ .fin := by
    intro ha
    have hr : b.snd ≠ .off ∧ b.snd ≠ .stopped := by
      rcases p7.1 ha with hr | ⟨r, hr⟩ <;> rw [hr] <;> constructor <;> intro e <;> cases e
    constructor
    · cases he : earlyPc b.pc with
      | false => rfl
      | true => exact absurd (p1 (beforeSwitch_of_early he)) hr.1
    · intro hf; exact absurd (p6 hf) hr.2
  have hes : earlyPc b.pc = true → beforeSwitch b.pc = true := beforeSwitch_of_early
  clear hpre hph p7
  refine ⟨?_, ?_, ?_, ?_⟩
  · intro hx
    clear h2 h3 h4
    cases h
    case fin l st why => cases why <;> simp_all [Sub.finish, earlyPc, beforeSwitch, earlySt]
    all_goals simp_all [Sub.finish, Sub.startWalk, earlyPc, beforeSwitch, earlySt]
    all_goals (cases hsw : sys.swap <;> simp_all)
    all_goals (by_cases hm : rq.mode = .stream <;> simp [hm] at hx)
  · intro hx
    clear h3 h4
    cases h
    case fin l st why => cases why <;> simp_all [Sub.finish, earlyPc, beforeSwitch, earlySt, Untouched]
    all_goals simp_all [Sub.finish, Sub.startWalk, earlyPc, beforeSwitch, earlySt, Untouched]
  · intro hx
    clear h1 h2 h4
    cases h
    case fin l st why => cases why <;> simp_all [Sub.finish, earlyPc, beforeSwitch, earlySt]
    all_goals simp_all [Sub.finish, Sub.startWalk, earlyPc, beforeSwitch, earlySt]
  · intro t ht hx
    have h4' := h4 t ht hx
    clear h1 h2 h3 h4
    cases h
    case fin l st why => cases why <;> simp_all [Sub.finish, earlyPc, beforeSwitch, earlySt]
    all_goals simp_all [Sub.finish, Sub.startWalk, earlyPc, beforeSwitch, earlySt]

theorem early_shared (sys : Sys K T R) {rq : Req K T R} {b : Sub K V R} (l : ShLabel K V T R)
    (hph : Phase rq b) (hi : Early rq b) : Early rq (b.onShared sys rq l) := by
  obtain ⟨h1, h2, h3, h4⟩ := hi
  refine ⟨?_, ?_, ?_, ?_⟩
  · intro hx
    rw [onShared_pc] at hx
    have hr : b.registered = false := hph.pre_reg (by revert hx; cases b.pc <;> simp [beforeSwitch, HPc.preReg])
    obtain ⟨e1, e2⟩ := onShared_unreg sys rq b l hr
    rw [e1, e2, onShared_rounds]; exact h1 hx
  · intro hx
    rw [onShared_status] at hx
    obtain ⟨u1, u2, u3, u4, u5, u6, u7⟩ := h2 hx
    obtain ⟨e1, e2⟩ := onShared_unreg sys rq b l u3
    refine ⟨?_, ?_, ?_, ?_, ?_, ?_, ?_⟩
    · rw [onShared_sent]; exact u1
    · rw [e1]; exact u2
    · rw [onShared_registered]; exact u3
    · exact onShared_walker_idle sys rq b l u4
    · rw [onShared_rounds]; exact u5
    · rw [e2]; exact u6
    · rw [onShared_snd]; exact u7
  · intro hx; rw [onShared_pc, onShared_status]; exact h3 hx
  · intro t ht hx; rw [onShared_pc, onShared_status]; exact h4 t ht hx

theorem early_reach [Inhabited V] {sys : Sys K T R} (hsw : sys.swap = false) {c : Cfg K V T R}
    (h : Reach sys c) (s : Nat) : Phase (sys.req s) (c.subs s) ∧ Early (sys.req s) (c.subs s) := by
  refine (reach_inv sys (fun _ => True) (fun s _ b => Phase (sys.req s) b ∧ Early (sys.req s) b)
    trivial ?_ ?_ ?_ ?_ h).2 s
  · intro s; exact ⟨phase_init _, early_init _⟩
  · intros; trivial
  · intro s sh l sh' b _ hb _
    exact ⟨phase_shared l hb.1, early_shared sys l hb.1 hb.2⟩
  · intro s sh b l b' _ hb hst
    exact ⟨phase_local hsw hst hb.1, early_local hb.1 hst hb.2⟩

/-- the handler is before the mode switch and nothing has happened yet -/
theorem early_untouched {rq : Req K T R} {b : Sub K V R} (hph : Phase rq b) (hi : Early rq b)
    (h : earlyPc b.pc = true ∨ earlySt b.status = true) : Untouched b := by
  rcases h with h | h
  · have hpre : b.pc.pre = true ∧ b.pc.preReg = true := by
      revert h; cases b.pc <;> simp [earlyPc, HPc.pre, HPc.preReg]
    obtain ⟨e1, e2, e3⟩ := hi.pcU (beforeSwitch_of_early h)
    exact ⟨hph.pre_sent hpre.1, e1, hph.pre_reg hpre.2, hph.pre_walker hpre.1, e2, e3,
      Or.inl (hph.pre_snd hpre.1)⟩
  · exact hi.stU h

/-- **unauthenticated_if_no_acl.**  If the per-call authorisation cannot be created
(`NewRPCACL` fails), then in every reachable configuration the RPC of that subscriber has sent
nothing, registered nothing, walked nothing and queued nothing, and its status is either still
open (the handler has not run its first statement) or `Unauthenticated`. -/
theorem unauthenticated_if_no_acl [Inhabited V] {sys : Sys K T R} (hsw : sys.swap = false)
    {c : Cfg K V T R} (h : Reach sys c) (s : Nat) (hacl : (sys.req s).aclOk = false) :
    Untouched (c.subs s) ∧
      (((c.subs s).pc = .h0 ∧ (c.subs s).status = none) ∨
        (c.subs s).status = some .unauthenticated) := by
  obtain ⟨hph, he⟩ := early_reach hsw h s
  rcases he.acl hacl with hp | hs
  · refine ⟨early_untouched hph he (Or.inl (by rw [hp]; rfl)), Or.inl ⟨hp, ?_⟩⟩
    exact hph.status_fin.2 (by rw [hp]; intro e; cases e)
  · exact ⟨early_untouched hph he (Or.inr (by rw [hs]; rfl)), Or.inr hs⟩

/-- progress half of `unauthenticated_if_no_acl`: the first handler statement ends the RPC -/
theorem unauthenticated_step (sys : Sys K T R) (c : Cfg K V T R) (s : Nat)
    (hacl : (sys.req s).aclOk = false) (hpc : (c.subs s).pc = .h0) :
    fire sys c (.sub s .hs) = some ⟨c.sh, setFn c.subs s ((c.subs s).finish .unauthenticated)⟩ := by
  simp [fire, subFire, hFire, hpc, hacl]

/-- **single_target_denied_early.**  A request for a single target `t` that the ACL denies:
in every reachable configuration nothing was sent, registered, walked or queued for this RPC,
the handler never gets past the ACL check, and the RPC's status is still open or one of the
early rejections (`Unauthenticated`/`InvalidArgument`/`NotFound` from the checks the code
performs *before* the ACL check, or `PermissionDenied`). -/
theorem single_target_denied_early [Inhabited V] {sys : Sys K T R} (hsw : sys.swap = false)
    {c : Cfg K V T R} (h : Reach sys c) (s : Nat) (t : T) (hs : (sys.req s).single = some t)
    (hd : (sys.req s).allow t = false) :
    Untouched (c.subs s) ∧
      ((earlyPc (c.subs s).pc = true ∧ (c.subs s).status = none) ∨
        earlySt (c.subs s).status = true) := by
  obtain ⟨hph, he⟩ := early_reach hsw h s
  have := he.denied t hs hd
  refine ⟨early_untouched hph he this, ?_⟩
  rcases this with hp | hst
  · refine Or.inl ⟨hp, hph.status_fin.2 ?_⟩
    intro e; rw [e] at hp; cases hp
  · exact Or.inr hst

/-- progress half: at the ACL check the handler returns `PermissionDenied` -/
theorem denied_step (sys : Sys K T R) (c : Cfg K V T R) (s : Nat) (t : T)
    (hs : (sys.req s).single = some t) (hd : (sys.req s).allow t = false)
    (hpc : (c.subs s).pc = .h3) :
    fire sys c (.sub s .hs) = some ⟨c.sh, setFn c.subs s ((c.subs s).finish .denied)⟩ := by
  simp [fire, subFire, hFire, hpc, hs, hd]

/-- **never_sends_denied** (all modes, all interleavings).  Every response ever handed to
`stream.Send` — and the one currently being sent — is a sync or names a key / region whose
target the ACL allows. -/
theorem never_sends_denied [Inhabited V] {sys : Sys K T R} (hsw : sys.swap = false) (wf : sys.WF)
    {c : Cfg K V T R} (h : Reach sys c) (s : Nat) :
    (∀ r ∈ (c.subs s).sent, respOk sys (sys.req s) r) ∧
      ∀ r, (c.subs s).snd = .sending r → respOk sys (sys.req s) r :=
  ⟨(basic_reach hsw wf h s).acl.sent, (basic_reach hsw wf h s).acl.sending⟩

/-- nothing the subscription's paths are not compatible with is ever sent -/
theorem never_sends_unwanted [Inhabited V] {sys : Sys K T R} (hsw : sys.swap = false) (wf : sys.WF)
    {c : Cfg K V T R} (h : Reach sys c) (s : Nat) :
    ∀ r ∈ (c.subs s).sent, respWanted (sys.req s) r :=
  (basic_reach hsw wf h s).wanted.sent


/-! ## `allowed_unaffected` -/

/-- the request without access control -/
def _root_.Gnmi.SubLTS.Req.noAcl (rq : Req K T R) : Req K T R := { rq with allow := fun _ => true }

/-- the system in which subscriber `s` is not subject to an ACL -/
def _root_.Gnmi.SubLTS.Sys.noAclFor (sys : Sys K T R) (s : Nat) : Sys K T R :=
  { sys with req := fun s' => if s' = s then (sys.req s').noAcl else sys.req s' }

/-- the system in which subscriber `s` is not subject to an ACL but only asks for what its ACL
allowed (`allowedReq`): the *projection onto allowed targets* of its request -/
def _root_.Gnmi.SubLTS.Sys.allowedOnlyFor (sys : Sys K T R) (s : Nat) : Sys K T R :=
  { sys with req := fun s' => if s' = s then allowedReq sys (sys.req s') else sys.req s' }

/-- the configuration with everything about denied targets erased from subscriber `s`
(`Lemmas/SubscribeAcl.lean`: queue entries, the item just dequeued, walk bookkeeping, ghost
logs; `sent`, the registration, the sender's and handler's state are untouched) -/
def projCfg (sys : Sys K T R) (s : Nat) (c : Cfg K V T R) : Cfg K V T R :=
  ⟨c.sh, setFn c.subs s (proj sys (sys.req s).allow (c.subs s))⟩

/-- **allowed_unaffected**, statement: for a `*`-target subscriber `s`, every response
sequence it can be sent under its ACL is a response sequence it can be sent — with the same
cache content — in the ACL-free system when asking only for the allowed targets. -/
def AllowedUnaffected [Inhabited V] (sys : Sys K T R) (s : Nat) : Prop :=
  (sys.req s).single = none →
  ∀ c : Cfg K V T R, Reach sys c → ∃ c' : Cfg K V T R, Reach (sys.allowedOnlyFor s) c' ∧
    (c'.subs s).sent = (c.subs s).sent ∧ c'.sh = c.sh ∧ ∀ s', s' ≠ s → c'.subs s' = c.subs s'

/-- **allowed_unaffected** (projection form).  Projecting a run onto the allowed targets of a
`*` subscriber gives a run of the ACL-free system: every step is mapped to the same step or to
no step (the steps that only handle items of denied targets: their `W2` insert, their `visit`,
their `Next`, their dropped `build`).  Nothing else changes: same cache, same writers, same
other subscribers, same `sent`. -/
theorem allowed_unaffected_proj [Inhabited V] (sys : Sys K T R) (s : Nat)
    (hsingle : (sys.req s).single = none) {c : Cfg K V T R} (h : Reach sys c) :
    Reach (sys.allowedOnlyFor s) (projCfg sys s c) := by
  induction h with
  | init =>
    have : projCfg sys s (Cfg.init : Cfg K V T R) = Cfg.init := by
      unfold projCfg Cfg.init
      congr 1
      funext s'
      unfold setFn
      split <;> rfl
    rw [this]; exact Reach.init
  | @step c c' l hr hs ih =>
    cases hs with
    | shared l1 sh' h1 =>
      have hf : shFire (sys.allowedOnlyFor s) (projCfg sys s c).sh l1 = some sh' := by
        have : shFire (sys.allowedOnlyFor s) c.sh l1 = shFire sys c.sh l1 := by cases l1 <;> rfl
        rw [← h1, ← this]; rfl
      have hstep := Step.shared (sys := sys.allowedOnlyFor s) (projCfg sys s c) l1 sh' hf
      refine cast ?_ (Reach.step ih hstep)
      congr 1
      unfold projCfg
      congr 1
      funext s'
      by_cases e : s' = s
      · subst e
        simp only [setFn_same]
        show (proj sys (sys.req s').allow (c.subs s')).onShared (sys.allowedOnlyFor s')
          (if s' = s' then allowedReq sys (sys.req s') else sys.req s') l1 = _
        rw [if_pos rfl]
        exact (proj_onShared sys (sys.req s') (c.subs s') l1).symm
      · simp only [setFn_other _ _ e]
        show (c.subs s').onShared (sys.allowedOnlyFor s) (if s' = s then _ else sys.req s') l1 = _
        rw [if_neg e]; rfl
    | sub s1 l1 b' h1 =>
      by_cases e : s1 = s
      · subst e
        rcases proj_local hsingle (subFire_step h1) with hst | hst
        · -- the step only concerned denied targets: no step after projection
          have : projCfg sys s1 ⟨c.sh, setFn c.subs s1 b'⟩ = projCfg sys s1 c := by
            unfold projCfg
            congr 1
            funext s'
            by_cases e' : s' = s1
            · subst e'; simp only [setFn_same]; exact hst
            · simp only [setFn_other _ _ e']
          rw [this]; exact ih
        · have hf : subFire (sys.allowedOnlyFor s1) ((sys.allowedOnlyFor s1).req s1)
              (projCfg sys s1 c).sh ((projCfg sys s1 c).subs s1) l1 =
              some (proj sys (sys.req s1).allow b') := by
            have e1 : (sys.allowedOnlyFor s1).req s1 = allowedReq sys (sys.req s1) := by
              simp [Sys.allowedOnlyFor]
            have e2 : (projCfg sys s1 c).subs s1 = proj sys (sys.req s1).allow (c.subs s1) := by
              simp [projCfg, setFn_same]
            rw [e1, e2, ← hst]
            cases l1 <;> rfl
          have hstep := Step.sub (sys := sys.allowedOnlyFor s1) (projCfg sys s1 c) s1 l1 _ hf
          refine cast ?_ (Reach.step ih hstep)
          congr 1
          unfold projCfg
          congr 1
          funext s'
          by_cases e' : s' = s1
          · subst e'; simp only [setFn_same]
          · simp only [setFn_other _ _ e']
      · have hf : subFire (sys.allowedOnlyFor s) ((sys.allowedOnlyFor s).req s1)
            (projCfg sys s c).sh ((projCfg sys s c).subs s1) l1 = some b' := by
          have e1 : (sys.allowedOnlyFor s).req s1 = sys.req s1 := by
            simp [Sys.allowedOnlyFor, e]
          have e2 : (projCfg sys s c).subs s1 = c.subs s1 := by
            simp [projCfg, setFn_other _ _ e]
          rw [e1, e2, ← h1]
          cases l1 <;> rfl
        have hstep := Step.sub (sys := sys.allowedOnlyFor s) (projCfg sys s c) s1 l1 b' hf
        refine cast ?_ (Reach.step ih hstep)
        congr 1
        unfold projCfg
        congr 1
        funext s'
        by_cases e' : s' = s
        · subst e'
          simp only [setFn_same, setFn_other _ _ (Ne.symm e)]
        · simp only [setFn_other _ _ e']
          by_cases e'' : s' = s1
          · subst e''; simp only [setFn_same]
          · simp only [setFn_other _ _ e'', setFn_other _ _ e']

/-- **allowed_unaffected.** -/
theorem allowed_unaffected [Inhabited V] (sys : Sys K T R) (s : Nat) : AllowedUnaffected (V := V) sys s := by
  intro hsingle c h
  refine ⟨projCfg sys s c, allowed_unaffected_proj sys s hsingle h, ?_, rfl, ?_⟩
  · simp [projCfg, setFn_same, proj]
  · intro s' e; simp [projCfg, setFn_other _ _ e]

/-- the ACL of `s` allows every target the subscription is about -/
structure AclCoversRequest (sys : Sys K T R) (s : Nat) : Prop where
  keys : ∀ k, (sys.req s).wants k = true → (sys.req s).allow (sys.tgt k) = true
  regions : ∀ r, (sys.req s).wantsR r = true → (sys.req s).allow (sys.rtgt r) = true
  single : ∀ t, (sys.req s).single = some t → (sys.req s).allow t = true

theorem onShared_noAcl (sys : Sys K T R) (rq : Req K T R) (b : Sub K V R) (l : ShLabel K V T R) :
    b.onShared sys rq.noAcl l = b.onShared sys rq l := by
  cases l with
  | w2 u => cases u <;> rfl
  | _ => rfl

theorem shFire_noAclFor (sys : Sys K T R) (s : Nat) (sh : Shared K V T R) (l : ShLabel K V T R) :
    shFire (sys.noAclFor s) sh l = shFire sys sh l := by
  cases l <;> rfl

/-- with an ACL covering the request, every local step of `s` is the same step without ACL -/
theorem subFire_noAcl {sys : Sys K T R} {s : Nat} (hc : AclCoversRequest sys s) {sh : Shared K V T R}
    {b : Sub K V R} (hw : Lifted (itemWanted (sys.req s)) (respWanted (V := V) (sys.req s)) b)
    (l : SLabel K) :
    subFire (sys.noAclFor s) (sys.req s).noAcl sh b l = subFire sys (sys.req s) sh b l := by
  cases l with
  | hs =>
    simp only [subFire, hFire]
    cases hpc : b.pc <;> simp only []
    · rfl
    · rfl
    · rfl
    · cases hsg : (sys.req s).single with
      | none => simp [Req.noAcl, hsg]
      | some t => simp [Req.noAcl, hsg, hc.single t hsg]
    · rfl
    · rfl
    · rfl
  | build =>
    simp only [subFire]
    cases hsnd : b.snd with
    | got i d =>
      simp only []
      have hwi := hw.got i d hsnd
      cases i with
      | handle k g => simp [mkResp, Req.noAcl, Sys.noAclFor, hc.keys k hwi]
      | delNote k => simp [mkResp, Req.noAcl, Sys.noAclFor, hc.keys k hwi]
      | regionDel r => simp [mkResp, Req.noAcl, Sys.noAclFor, hc.regions r hwi]
      | syncMarker => rfl
    | _ => rfl
  | sent =>
    simp only [subFire]
    cases b.blocked <;> simp only [Bool.false_eq_true, if_false, if_true]
    cases hsnd : b.snd <;> rfl
  | visit k => rfl
  | finish => rfl
  | poll => rfl
  | eof => rfl
  | next => rfl
  | drained => rfl
  | expire => rfl
  | gateClose => rfl
  | gateOpen => rfl
  | cancel => rfl

/-- **allowed_unaffected**, complement for requests the ACL fully covers (this includes
single-target requests, which `allowed_unaffected` does not): if the ACL of subscriber `s`
allows every target its subscription is about, the ACL is invisible — every reachable
configuration of the system is a reachable configuration of the system in which `s` has no
ACL (same schedule, same responses, same everything). -/
theorem allowed_unaffected_partial [Inhabited V] {sys : Sys K T R} (hsw : sys.swap = false)
    (wf : sys.WF) (s : Nat) (hc : AclCoversRequest sys s) {c : Cfg K V T R} (h : Reach sys c) :
    Reach (sys.noAclFor s) c := by
  induction h with
  | init => exact Reach.init
  | @step c c' l hr hs ih =>
    refine Reach.step (l := l) ih ?_
    cases hs with
    | shared l1 sh' h1 =>
      have := Step.shared (sys := sys.noAclFor s) c l1 sh' (by rw [shFire_noAclFor]; exact h1)
      refine cast ?_ this
      congr 2
      funext s'
      show (c.subs s').onShared (sys.noAclFor s) (if s' = s then (sys.req s').noAcl else sys.req s') l1 = _
      split
      · exact onShared_noAcl sys _ _ l1
      · rfl
    | sub s1 l1 b' h1 =>
      refine Step.sub c s1 l1 b' ?_
      show subFire (sys.noAclFor s) (if s1 = s then (sys.req s1).noAcl else sys.req s1) c.sh _ l1 = _
      by_cases e : s1 = s
      · subst e
        rw [if_pos rfl, subFire_noAcl hc (basic_reach hsw wf hr s1).wanted]; exact h1
      · rw [if_neg e]
        have : ∀ rq, subFire (sys.noAclFor s) rq c.sh (c.subs s1) l1 = subFire sys rq c.sh (c.subs s1) l1 := by
          intro rq; cases l1 <;> rfl
        rw [this]; exact h1

/-- everything for authorised targets is still delivered, whatever the ACL denies (STREAM):
the convergence theorem holds for every allowed key under an arbitrary ACL (as `C04.converges`: up to
the logged quiet writes; with an empty log, equality: `allowed_still_delivered_stream_exact`). -/
theorem allowed_still_delivered_stream [Inhabited V] {sys : Sys K T R} (hsw : sys.swap = false)
    (wf : sys.WF) {c : Cfg K V T R} (h : Reach sys c) (s : Nat)
    (hq : c.sh.pend = [] ∧ (c.subs s).walker = .done ∧ (c.subs s).q = [] ∧ (c.subs s).snd = .idle)
    (hr : (c.subs s).registered = true) (huo : (sys.req s).updatesOnly = false) (k : K)
    (hw : (sys.req s).walks k = true) (ha : (sys.req s).allow (sys.tgt k) = true) :
    ORel (QChain c.sh.qlog) (view sys k (c.subs s).sent) (c.sh.cache k) := by
  exact C04.converges hsw wf h s hq hr huo k hw ha

theorem allowed_still_delivered_stream_exact [Inhabited V] {sys : Sys K T R} (hsw : sys.swap = false)
    (wf : sys.WF) {c : Cfg K V T R} (h : Reach sys c) (s : Nat)
    (hq : c.sh.pend = [] ∧ (c.subs s).walker = .done ∧ (c.subs s).q = [] ∧ (c.subs s).snd = .idle)
    (hr : (c.subs s).registered = true) (huo : (sys.req s).updatesOnly = false) (k : K)
    (hw : (sys.req s).walks k = true) (ha : (sys.req s).allow (sys.tgt k) = true)
    (hnq : c.sh.qlog = []) :
    view sys k (c.subs s).sent = c.sh.cache k :=
  C04.converges_exact hsw wf h s hq hr huo k hw ha hnq


/-! ## Non-vacuity -/

section NonVacuity
open Demo

/-- `unauthenticated_if_no_acl`: subscriber 4's `NewRPCACL` fails; it reaches `Unauthenticated` -/
example : ∃ c : Demo.C, Reach Demo.sys c ∧ (Demo.sys.req 4).aclOk = false ∧
    (c.subs 4).status = some .unauthenticated := by
  obtain ⟨c, hr, hp⟩ := reach_of_trace (setup ++ hsN 4 1)
    (fun c => decide ((c.subs 4).status = some .unauthenticated)) (by decide)
  exact ⟨c, hr, rfl, by simpa using hp⟩

/-- `single_target_denied_early`: subscriber 3 asks for target 1, which its ACL denies; it
reaches `PermissionDenied` (target 1 exists; without it, it would be `NotFound`) -/
example : ∃ c : Demo.C, Reach Demo.sys c ∧ (Demo.sys.req 3).single = some 1 ∧
    (Demo.sys.req 3).allow 1 = false ∧ (c.subs 3).status = some .denied := by
  obtain ⟨c, hr, hp⟩ := reach_of_trace (setup ++ hsN 3 4)
    (fun c => decide ((c.subs 3).status = some .denied)) (by decide)
  exact ⟨c, hr, rfl, rfl, by simpa using hp⟩

/-- `never_sends_denied` is not vacuous: subscriber 1 (`*`, ACL allows only target 0) had the
leaf of the denied target 1 in its queue, dropped it at the ACL check, and delivered the rest;
a later delete on the denied target is dropped as well -/
example : ∃ c : Demo.C, Reach Demo.sys c ∧ (Demo.sys.req 1).allow (Demo.sys.tgt 11) = false ∧
    Item.handle 11 1 ∈ (c.subs 1).deliv.map Prod.fst ∧ Item.delNote 11 ∈ (c.subs 1).deliv.map Prod.fst ∧
    (c.subs 1).q = [] ∧ (c.subs 1).snd = .idle ∧ (c.subs 1).sent = [.upd 1 7 0, .sync] := by
  obtain ⟨c, hr, hp⟩ := reach_of_trace (setup ++ hsN 1 7 ++
      [.sub 1 (.visit 1), .sub 1 (.visit 11), .sub 1 .finish] ++ deliver 1 ++
      [.sub 1 .next, .sub 1 .build] ++ deliver 1 ++
      [.sh (.w1Del [11]), .sh (.w2 (.del 11)), .sub 1 .next, .sub 1 .build]) (fun c =>
    decide (Item.handle 11 1 ∈ (c.subs 1).deliv.map Prod.fst) &&
    decide (Item.delNote 11 ∈ (c.subs 1).deliv.map Prod.fst) && decide ((c.subs 1).q = []) &&
    decide ((c.subs 1).snd = .idle) && decide ((c.subs 1).sent = [.upd 1 7 0, .sync])) (by decide)
  simp only [Bool.and_eq_true, decide_eq_true_eq] at hp
  obtain ⟨⟨⟨⟨h1, h2⟩, h3⟩, h4⟩, h5⟩ := hp
  exact ⟨c, hr, rfl, h1, h2, h3, h4, h5⟩

/-- `allowed_unaffected_partial`: the ACL of subscriber 0 covers its request -/
example : AclCoversRequest Demo.sys 0 := ⟨fun _ _ => rfl, fun _ _ => rfl, fun _ h => by cases h⟩

/-- … and the ACL of subscriber 1 does not; it is a `*` subscriber, so `allowed_unaffected`
applies to it: its run (see the example above, with dropped items) projects to a run of the
ACL-free system -/
example : (Demo.sys.req 1).single = none := rfl


example : ¬ AclCoversRequest Demo.sys 1 := fun h => by
  have := h.keys 11 rfl
  cases this

end NonVacuity

end C07L
end Gnmi
