import Gnmi.Lemmas.CacheState
/-!
# C15 — per-target metadata counters are truthful (counter clauses)

The latency clause lives in `Props/C15Latency.lean`; the "no unsynchronised access" clause is
decided by the regenerated lockset obligations and `-race` runs (see DESIGN §8 C15).
Everything below is about the cache model `Gnmi/Model/Cache.lean`, for every history of API
calls (`State.run`), every notification shape and every clock reading.
-/
namespace Gnmi
namespace C15
open Cache

/-! ## Leaf count -/

/-- **The exported leaf count is truthful in every reachable state**: for any sequence of
updates, deletes, atomic and multi-update notifications and lifecycle calls (`Add`, `Remove`,
`Reset`, `Sync`, `Connect`, `ConnectError`, `UpdateMetadata`) on any number of targets,
`targetLeaves` equals the number of non-metadata leaves stored and equals
`targetLeavesAdded − targetLeavesDeleted` (both restart from zero at `Reset`, see
`C14.reset_clears`). -/
theorem leafcount_truthful (enc : String → String) (cfg : Cfg) (ops : List Op)
    (hv : ∀ op ∈ ops, op.valid) (name : String) (t : Target)
    (hg : (State.run enc { cfg := cfg } ops).get name = some t) :
    t.md.leaves = (nm t.tree : Nat) ∧ t.md.leaves = t.md.added - t.md.deleted := by
  obtain ⟨hi, _, _⟩ := run_sinv enc ops _ (SInv.empty cfg) hv name t hg
  have h1 := hi.lc
  have h2 := hi.bal
  constructor <;> omega

/-! ## Update accounting -/

/-- the four outcome counters of submitted updates -/
structure Cnt where
  updated : Int
  suppressed : Int
  stale : Int
  future : Int
deriving DecidableEq, Repr

def cntOf (m : Meta) : Cnt := ⟨m.updated, m.suppressed, m.stale, m.future⟩

theorem metaSideEffect_cnt {t t' : Target} {name : String} {v : Val}
    (h : metaSideEffect t name v = some t') : cntOf t'.md = cntOf t.md ∧ t'.md.empty = t.md.empty := by
  unfold metaSideEffect at h
  repeat' split at h
  all_goals first
    | (cases h; exact ⟨rfl, rfl⟩)
    | (simp at h)

theorem metaPre_cnt {t t' : Target} {h : String} {rest : Path} {v : Val} {rd : Bool}
    (hp : metaPre t h rest v = some (t', rd)) : cntOf t'.md = cntOf t.md ∧ t'.md.empty = t.md.empty := by
  unfold metaPre at hp
  split at hp
  · split at hp
    · cases hp
    · simp only [Option.map_eq_some_iff, Prod.mk.injEq] at hp
      obtain ⟨t0, h0, rfl, _⟩ := hp
      exact metaSideEffect_cnt h0
  · cases hp; exact ⟨rfl, rfl⟩

/-- what `gnmiUpdate` (one unit) does to the four counters, by outcome: a stale update bumps
`stale`, a future one `future`, an accepted but withheld one `suppressed`; an accepted and
announced one, an error and a panic bump nothing here (`updated` is bumped by the caller). -/
def afterUnit (c : Cnt) (r : Res) (ev : Option Noti) : Cnt :=
  match r, ev with
  | .stale, _ => { c with stale := c.stale + 1 }
  | .future, _ => { c with future := c.future + 1 }
  | .ok, none => { c with suppressed := c.suppressed + 1 }
  | _, _ => c

theorem updateCore_cnt (cfg : Cfg) (now : Int) (t : Target) (rd : Bool) (path : Path) (n : Noti) (u : Upd) :
    let r := updateCore cfg now t rd path n u
    cntOf r.2.1.md = afterUnit (cntOf t.md) r.1 r.2.2 ∧ r.2.1.md.empty = t.md.empty := by
  intro r
  have hr : r = updateCore cfg now t rd path n u := rfl
  unfold updateCore at hr
  repeat' split at hr
  all_goals (rw [hr]; exact ⟨rfl, rfl⟩)

theorem gnmiUpdate1_cnt (cfg : Cfg) (now : Int) (t : Target) (n : Noti) :
    let r := Target.gnmiUpdate1 cfg now t n
    cntOf r.2.1.md = afterUnit (cntOf t.md) r.1 r.2.2 ∧ r.2.1.md.empty = t.md.empty := by
  intro r
  have hr : r = Target.gnmiUpdate1 cfg now t n := rfl
  unfold Target.gnmiUpdate1 at hr
  split at hr
  · rw [hr]; exact ⟨rfl, rfl⟩
  · split at hr
    · rw [hr]; exact ⟨rfl, rfl⟩
    · rw [hr]; exact ⟨rfl, rfl⟩
    · split at hr
      · rw [hr]; exact ⟨rfl, rfl⟩
      · rename_i t' rd hp
        obtain ⟨h1, h2⟩ := metaPre_cnt hp
        rw [hr, ← h1, ← h2]
        exact updateCore_cnt cfg now t' rd _ n _

/-- **Every submitted single update is counted in exactly one of `updated`, `suppressed`,
`stale`, `future`, or returned as an error that counts nothing** (non-atomic notification with
one update and no delete; the same holds per update of a multi-update notification, which the
code processes as such units one at a time). -/
theorem update_accounting (cfg : Cfg) (now : Int) (t : Target) (n : Noti) (u : Upd)
    (ha : n.atomic = false) (hu : n.upd = [u]) (hd : n.del = []) :
    let r := t.dispatch cfg now n
    let c := cntOf t.md
    (r.1 = .ok ∧ r.2.2.1 ≠ [] ∧ cntOf r.2.1.md = { c with updated := c.updated + 1 }) ∨
    (r.1 = .ok ∧ r.2.2.1 = [] ∧ cntOf r.2.1.md = { c with suppressed := c.suppressed + 1 }) ∨
    (r.1 = .stale ∧ r.2.2.1 = [] ∧ cntOf r.2.1.md = { c with stale := c.stale + 1 }) ∨
    (r.1 = .future ∧ r.2.2.1 = [] ∧ cntOf r.2.1.md = { c with future := c.future + 1 }) ∨
    ((r.1 = .err ∨ r.1 = .panic) ∧ r.2.2.1 = [] ∧ cntOf r.2.1.md = c) := by
  intro r c
  have hr : r = singleArm (Target.gnmiUpdate1 cfg now t n) 1 := by
    show t.dispatch cfg now n = _
    unfold Target.dispatch
    simp [ha, hu, hd]
  obtain ⟨h1, _⟩ := gnmiUpdate1_cnt cfg now t n
  generalize Target.gnmiUpdate1 cfg now t n = g at hr h1
  obtain ⟨res, t', ev⟩ := g
  simp only at h1
  rw [hr]
  unfold singleArm
  cases res <;> cases ev <;> simp [Res.isErr, afterUnit, cntOf] at h1 ⊢ <;>
    simp [cntOf, h1, c]

/-- an empty notification is counted as empty and as nothing else -/
theorem empty_accounting (cfg : Cfg) (now : Int) (t : Target) (n : Noti)
    (hu : n.upd = []) (hd : n.del = []) :
    let r := t.dispatch cfg now n
    r.1 = .ok ∧ r.2.1.md.empty = t.md.empty + 1 ∧ cntOf r.2.1.md = cntOf t.md ∧ r.2.1.tree = t.tree := by
  intro r
  have hr : r = t.dispatch cfg now n := rfl
  unfold Target.dispatch at hr
  cases hat : n.atomic <;> simp [hat, hu, hd] at hr <;> rw [hr] <;> exact ⟨rfl, rfl, rfl, rfl⟩

/-! ## Latest timestamp -/

/-- **The latest-timestamp value is the greatest accepted target timestamp**: one
`Target.GnmiUpdate` leaves it alone unless an update of a notification whose first update is
not under `meta` was accepted, in which case it becomes the maximum of its old value and the
notification's timestamp. (`Reset` clears it: `C14.reset_clears`.) By induction over the
history it is the maximum of the accepted, tracked timestamps since the last reset. -/
theorem latest_step (cfg : Cfg) (now : Int) (t : Target) (n : Noti) (hi : TInv t) (ht : n.target ≠ "")
    (tracks : Bool) (htr : tracksTimestamp? n = some tracks) :
    (t.gnmiUpdate cfg now n).2.1.latest =
      if (t.dispatch cfg now n).2.2.2 && tracks then
        (match t.latest with
         | none => some n.ts
         | some l => some (max l n.ts))
      else t.latest := by
  obtain ⟨_, _, _, _, hl⟩ := dispatch_ok cfg now t n hi ht
  unfold Target.gnmiUpdate
  rw [htr]
  simp only
  split
  · unfold Target.checkTimestamp
    rw [hl]
    cases hlat : t.latest with
    | none => rfl
    | some l =>
      rw [hlat] at hl
      simp only
      split
      · rename_i h
        have : max l n.ts = n.ts := by rw [Int.max_def]; split <;> omega
        rw [this]
      · rename_i h
        have : max l n.ts = l := by rw [Int.max_def]; split <;> omega
        rw [this]; exact hl
  · exact hl

/-! ## Non-vacuity -/

def nA : Noti := { ts := 5, target := "t1", pfx := ["a"], praw := "p", upd := [{ path := ["b"], val := .scalar (.int 1), raw := "u" }] }
def tA : Target := (Target.gnmiUpdate {} 10 { name := "t1" } nA).2.1

example : tA.md.leaves = 1 ∧ tA.md.updated = 1 ∧ tA.latest = some 5 := by decide
example : (Target.gnmiUpdate {} 10 tA { nA with ts := 6 }).2.1.md.suppressed = 1 := by decide
example : (Target.gnmiUpdate {} 10 tA { nA with ts := 4 }).2.1.md.stale = 1 := by decide

end C15
end Gnmi
