import Gnmi.Props.C05
import Gnmi.Props.C03Sim
import Gnmi.Lemmas.CacheNames
/-!
# C05 on reachable caches

`once_static_exact` assumes `hT`: every leaf the walk collects is reported under the target named
in its own notification.  On every cache reachable through the API (any history of `Add`,
`Remove`, `Reset`, `Sync`, `Connect`, `ConnectError`, `GnmiUpdate`, `UpdateMetadata`) this holds —
the stored-notification owner invariant of the feed simulation (`GT.owner`) plus uniqueness of
target names — so the hypothesis is discharged here.
-/
namespace Gnmi
namespace C05
open Cache Sub Feed C03

theorem run_names (enc : String → String) : ∀ (ops : List Op) (s : Cache.State), NamesUnique s →
    NamesUnique (runS enc s ops).1
  | [], _, h => h
  | op :: ops, s, h => run_names enc ops _ (step_names enc s op h)

/-- every stored notification of a reachable cache carries the name of its target -/
theorem reachable_owner (enc : String → String) (cfg : Cfg) (ops : List Op) (hok : OkRun enc { cfg := cfg } ops)
    (name : String) (t : Target) (hm : (name, t) ∈ (runS enc { cfg := cfg } ops).1.targets) :
    ∀ kv ∈ t.tree, kv.2.target = name := by
  have hn := run_names enc ops { cfg := cfg } (NamesUnique.empty cfg)
  have hg := get_of_mem hn hm
  exact ((cache_feed_simulation enc cfg ops hok).1 name t hg).owner

/-- the walk of any subscription on a reachable cache reports each leaf under its own target -/
theorem walk_targets_reachable (enc : String → String) (cfg : Cfg) (ops : List Op)
    (hok : OkRun enc { cfg := cfg } ops) (r : Req) (items : List WalkItem)
    (hw : walkItems (runS enc { cfg := cfg } ops).1 r = some items) :
    ∀ it ∈ items, it.2.2.target = it.1 := by
  intro it hit
  cases huo : r.updatesOnly with
  | true =>
    unfold walkItems at hw
    simp only [huo, if_true, Option.some.injEq] at hw
    rw [← hw] at hit; cases hit
  | false =>
    obtain ⟨s, _, full, found, _, hq, hf⟩ := (walkItems_mem _ r items huo hw it).1 hit
    unfold State.query at hq
    split at hq
    · cases hq
    · split at hq
      · cases hq
        obtain ⟨kv, hkv, hmem⟩ := List.mem_flatMap.1 hf
        obtain ⟨e, he, rfl⟩ := List.mem_map.1 hmem
        have hin : e ∈ kv.2.tree := (List.mem_filter.1 he).1
        exact reachable_owner enc cfg ops hok kv.1 kv.2 hkv e hin
      · split at hq
        · cases hq
        · rename_i t hg
          cases hq
          obtain ⟨e, he, rfl⟩ := List.mem_map.1 hf
          have hin : e ∈ t.tree := (List.mem_filter.1 he).1
          exact ((cache_feed_simulation enc cfg ops hok).1 r.target t hg).owner e hin

/-- every leaf the walk collects is a stored leaf of the target it is reported under -/
theorem walk_item_source (c : Cache.State) (hn : NamesUnique c) (r : Req) (items : List WalkItem)
    (hw : walkItems c r = some items) (it : WalkItem) (hit : it ∈ items) :
    ∃ t, c.get it.1 = some t ∧ (it.2.1, it.2.2) ∈ t.tree := by
  cases huo : r.updatesOnly with
  | true =>
    unfold walkItems at hw
    simp only [huo, if_true, Option.some.injEq] at hw
    rw [← hw] at hit; cases hit
  | false =>
    obtain ⟨s, _, full, found, _, hq, hf⟩ := (walkItems_mem _ r items huo hw it).1 hit
    unfold State.query at hq
    split at hq
    · cases hq
    · split at hq
      · cases hq
        obtain ⟨kv, hkv, hmem⟩ := List.mem_flatMap.1 hf
        obtain ⟨e, he, rfl⟩ := List.mem_map.1 hmem
        exact ⟨kv.2, get_of_mem hn hkv, (List.mem_filter.1 he).1⟩
      · split at hq
        · cases hq
        · rename_i t hg
          cases hq
          obtain ⟨e, he, rfl⟩ := List.mem_map.1 hf
          exact ⟨t, hg, (List.mem_filter.1 he).1⟩

/-- a leaf has one value on a reachable cache: the `Functional` hypothesis of `once_static_exact` -/
theorem walk_functional_reachable (enc : String → String) (cfg : Cfg) (ops : List Op)
    (hok : OkRun enc { cfg := cfg } ops) (r : Req) (items : List WalkItem)
    (hw : walkItems (runS enc { cfg := cfg } ops).1 r = some items) : Functional items := by
  intro a ha b hb h1 h2
  have hn := run_names enc ops { cfg := cfg } (NamesUnique.empty cfg)
  obtain ⟨ta, hga, hma⟩ := walk_item_source _ hn r items hw a ha
  obtain ⟨tb, hgb, hmb⟩ := walk_item_source _ hn r items hw b hb
  rw [h1, hgb] at hga
  have hEq : tb = ta := Option.some.inj hga
  rw [← hEq] at hma
  have hu := ((cache_feed_simulation enc cfg ops hok).1 b.1 tb hgb).unique
  have la := lookup_some_of_mem hu hma
  have lb := lookup_some_of_mem hu hmb
  rw [h2, lb] at la
  exact (Option.some.inj la).symm

/-- **C05 (static) on any reachable cache**: `once_static_exact` without the `hT` and `Functional` hypotheses. -/
theorem once_static_exact_reachable (enc : String → String) (cfg : Cfg) (ops : List Op)
    (hok : OkRun enc { cfg := cfg } ops) (id : String) (a : Acl) (r : Req) (items : List WalkItem)
    (hacc : Accepted (runS enc { cfg := cfg } ops).1 a r) (hmode : r.mode = .once)
    (hw : walkItems (runS enc { cfg := cfg } ops).1 r = some items) :
    ∃ s, (subscribe { cache := (runS enc { cfg := cfg } ops).1 } id a (some r)).subs = [s] ∧
      s.status = some .ok ∧ s.alive = false ∧
      ∃ body, s.out.map (·.1) = body ++ [Resp.sync] ∧
        (∀ x ∈ body, ∃ it ∈ items, ∃ d, x = Resp.upd it.2.2 d ∧ a.check it.1 = true) ∧
        (∀ it ∈ items, a.check it.1 = true → ∃ d, Resp.upd it.2.2 d ∈ body) :=
  once_static_exact _ id a r items hacc hmode hw (walk_functional_reachable enc cfg ops hok r items hw)
    (walk_targets_reachable enc cfg ops hok r items hw)

end C05
end Gnmi
