import Gnmi.Props.C04Gate
import Gnmi.Lemmas.SubscribeSyncSeq
/-!
# C04 (sequential Subscribe model) — sync placement: clauses (a), (b), (c)

Over the code-shaped model `Model/Subscribe.lean` (the one `Driver/SU.lean` executes and the `su`
correspondence compares with the real server), for the histories of `C04Gate` (`GOp`: `Subscribe`
calls of any mode/ACL/request, cache API calls, flow control shut / step / open for any id):

* **(a)** `stream_initial_exact`: in a reachable state (`GHInv`), an accepted STREAM subscription
  that asks for the snapshot is sent `body ++ [sync]` where `body` is exactly the snapshot — one
  update per leaf of the cache that the registered queries match on a target the ACL lets the
  caller see, carrying the cache's current notification, no leaf twice, nothing else.
  `stream_initial_exact_run`: the same after any history.  `stream_initial_origin_conflict`: if
  `CompletePath` rejects a path the subscriber is dead and was sent nothing.
* **(b)** `stream_one_sync`: after **every** history (no side condition on the cache calls, both
  values of `updates_only`, any initial `pregated`), every STREAM subscriber has at most one sync
  marker among what it was sent, the response held in a gated `Send` and its queue — and exactly
  one while it is alive: the marker is neither duplicated nor lost by coalescing, freezing,
  re-reading, the per-response ACL check or flow control.  `stream_one_sync_all_ops`: also with poll
  triggers, half-closes and send timeouts in the history (`expire_loses_marker`: why "while alive").
* **(c)** `updates_only_sync_first`: a STREAM subscriber with `updates_only` has, at every point of
  every history, been sent nothing or the sync marker first; the first of everything sent, held and
  queued is the marker; nothing precedes the marker in `out`.
* `updates_only_converges_partial` (+ `_pending_partial`, `_exact_partial`): what an `updates_only`
  subscriber holds.  The first SEQ theorems without `updatesOnly = false`.  See the section comment
  for what is partial (`updates_only_converges` is the full statement).
-/
namespace Gnmi
namespace C04Sync
open Cache Gnmi.Sub Feed SubStream SubGate SubSync C04Gate

/-! ## the accepted STREAM call -/

/-- an accepted STREAM call appends the sender run on: (`updates_only`) the marker queued, then the
registration; (else) the registration, then the walk and the marker -/
theorem subscribe_stream_accepted (st : Sub.State) (id : String) (acl : Acl) (r : Req)
    (hacc : C05.Accepted st.cache acl r) (hm : r.mode = .stream) :
    subscribe st id acl (some r) = { st with subs := st.subs ++ [
      if r.updatesOnly = true then
        pumpAll { newSubscriber (st.pregated.contains id) id r acl with queue := [(Item.sync, 0)], regs := regQueries r }
      else pumpAll (doWalk st.cache { newSubscriber (st.pregated.contains id) id r acl with regs := regQueries r })] } := by
  obtain ⟨h1, h2, h3, h4, h5, _, h7⟩ := hacc
  have hden : ¬ (r.target ≠ "*" ∧ (!acl.check r.target) = true) := by
    rintro ⟨x, y⟩
    rcases h5 with h5 | h5
    · exact x h5
    · simp [h5] at y
  unfold subscribe
  cases acl with
  | fails => exact h7.elim
  | absent =>
    by_cases huo : r.updatesOnly = true
    · simp only [h1, h2, h3, h4, hm, hden, huo, Bool.not_true, Bool.false_eq_true, if_false, if_true]
      rfl
    · simp only [h1, h2, h3, h4, hm, hden, huo, Bool.not_true, Bool.false_eq_true, if_false]
  | allow ts =>
    by_cases huo : r.updatesOnly = true
    · simp only [h1, h2, h3, h4, hm, hden, huo, Bool.not_true, Bool.false_eq_true, if_false, if_true]
      rfl
    · simp only [h1, h2, h3, h4, hm, hden, huo, Bool.not_true, Bool.false_eq_true, if_false]

/-! ## (a) the initial snapshot, exactly, then the marker -/

/-- what the cache holds at `target`, `key` -/
def held (c : Cache.State) (t : String) (k : Path) : Option Noti := (c.get t).bind (fun tg => lookup tg.tree k)

/-- a registered query of the request matches the leaf -/
def matched (r : Req) (t : String) (k : Path) : Bool := (regQueries r).any (fun q => qmatches q (t :: k))

/-- **C04 (a), (b) at the start of a STREAM subscription.**  In a state reached by a history
(`GHInv`), a STREAM call that passes validation and the ACL gate, asks for the snapshot and whose
paths `CompletePath` accepts appends a subscriber that is alive, idle (nothing queued or held) and
registered, and that was sent `body ++ [sync]`: `body` consists of updates only — each the current
notification of a leaf the registered queries match, on a target the ACL allows (nothing else);
every such leaf is there (everything); and no leaf — (target, key) — occurs twice (`picks`). -/
theorem stream_initial_exact (st : Sub.State) (hi : GHInv st) (id : String) (acl : Acl) (r : Req)
    (hacc : C05.Accepted st.cache acl r) (hm : r.mode = .stream) (huo : r.updatesOnly = false)
    (hcp : ∀ sp ∈ r.subs, (completePath r sp).isSome = true) :
    ∃ s body, subscribe st id acl (some r) = { st with subs := st.subs ++ [s] } ∧
      s.id = id ∧ s.req = r ∧ s.acl = acl ∧ s.regs = regQueries r ∧
      s.alive = true ∧ s.status = none ∧ s.queue = [] ∧ s.blocked = none ∧
      s.out.map (·.1) = body ++ [Resp.sync] ∧
      (∀ x ∈ body, ∃ t k m d, x = Resp.upd m d ∧ acl.check t = true ∧ held st.cache t k = some m ∧
        matched r t k = true) ∧
      (∀ t k m, acl.check t = true → held st.cache t k = some m → matched r t k = true →
        ∃ d, Resp.upd m d ∈ body) ∧
      (∃ picks : List ((String × Path × Noti) × Nat),
        body = picks.map (fun p => Resp.upd p.1.2.2 p.2) ∧ (picks.map (fun p => (p.1.1, p.1.2.1))).Nodup ∧
        ∀ p ∈ picks, held st.cache p.1.1 p.1.2.1 = some p.1.2.2) := by
  have hT : r.target ≠ "" := hacc.2.2.1
  have hex := C04Seq.hasTarget_exists hacc.2.2.2.1
  have hws := SubStream.walkItems_isSome st.cache r hcp
  cases hw : walkItems st.cache r with
  | none => rw [hw] at hws; cases hws
  | some items =>
    obtain ⟨body, he, hb, ho⟩ := streamSub_exact hi.cok id r acl hT hex huo hw
    have hiff := fun t k m => items_iff hi.cok hT hex huo hw t k m
    refine ⟨streamSub st.cache id r acl, body, ?_, ?_⟩
    · rw [subscribe_stream_accepted st id acl r hacc hm, hi.pre]
      simp only [huo, Bool.false_eq_true, if_false]
      rfl
    · rw [he]
      refine ⟨rfl, rfl, rfl, rfl, rfl, rfl, rfl, rfl, ?_, ?_, ?_, ?_⟩
      · simp only [List.map_map]
        exact List.map_id' _
      · intro x hx
        obtain ⟨it, hit, d, rfl, hc⟩ := hb.1 x hx
        obtain ⟨t, k, m⟩ := it
        obtain ⟨h1, h2⟩ := (hiff t k m).1 hit
        exact ⟨t, k, m, d, rfl, hc, by unfold held; rw [← lookup_treesOf]; exact h1, h2⟩
      · intro t k m hc hh hmt
        have hit : (t, k, m) ∈ items :=
          (hiff t k m).2 ⟨by unfold held at hh; rw [← lookup_treesOf] at hh; exact hh, hmt⟩
        exact hb.2 (t, k, m) hit hc
      · obtain ⟨picks, hp1, hp2, hp3, _⟩ := ho
        refine ⟨picks, hp1, hp2, ?_⟩
        intro p hp
        obtain ⟨⟨t, k, m⟩, d⟩ := p
        have := ((hiff t k m).1 (hp3 _ hp).1).1
        unfold held
        rw [← lookup_treesOf]
        exact this

/-- (a), the other case: if `CompletePath` rejects one of the paths the walk fails — the subscriber
is dead, status "unknown" (a non-status error), and was sent nothing: no snapshot, no marker -/
theorem stream_initial_origin_conflict (st : Sub.State) (id : String) (acl : Acl) (r : Req)
    (hacc : C05.Accepted st.cache acl r) (hm : r.mode = .stream) (huo : r.updatesOnly = false)
    (hcp : r.subs.all (fun sp => (completePath r sp).isSome) = false) :
    ∃ s, subscribe st id acl (some r) = { st with subs := st.subs ++ [s] } ∧
      s.alive = false ∧ s.status = some .unknown ∧ s.out = [] ∧ s.blocked = none ∧ s.queue = [] := by
  have hw : walkItems st.cache r = none := by
    have := SubPoll.walkItems_isSome st.cache r
    rw [huo, hcp] at this
    cases h : walkItems st.cache r with
    | none => rfl
    | some x => rw [h] at this; cases this
  refine ⟨_, subscribe_stream_accepted st id acl r hacc hm, ?_⟩
  simp only [huo, Bool.false_eq_true, if_false]
  have hd : doWalk st.cache { newSubscriber (st.pregated.contains id) id r acl with regs := regQueries r } =
      { newSubscriber (st.pregated.contains id) id r acl with regs := regQueries r, alive := false, status := some .unknown } := by
    unfold doWalk
    simp only [newSubscriber, hw]
  rw [hd, pumpAll_dead _ rfl]
  exact ⟨rfl, rfl, rfl, rfl, rfl⟩

/-- (a) after any history: the hypotheses of `stream_initial_exact` hold of every state a history
(cache calls `OkRun`, no target named `*`) reaches -/
theorem stream_initial_exact_run (enc : String → String) (cfg : Cfg) (h : List GOp)
    (hok : C03.OkRun enc { cfg := cfg } (cacheOps h)) (hns : NoStarTargets h)
    (id : String) (acl : Acl) (r : Req)
    (hacc : C05.Accepted (grun enc { cache := { cfg := cfg } } h).cache acl r) (hm : r.mode = .stream)
    (huo : r.updatesOnly = false) (hcp : ∀ sp ∈ r.subs, (completePath r sp).isSome = true) :
    ∃ s body, grun enc { cache := { cfg := cfg } } (h ++ [.sub id acl (some r)]) =
        { grun enc { cache := { cfg := cfg } } h with subs := (grun enc { cache := { cfg := cfg } } h).subs ++ [s] } ∧
      s.alive = true ∧ s.queue = [] ∧ s.blocked = none ∧ s.regs = regQueries r ∧
      s.out.map (·.1) = body ++ [Resp.sync] ∧
      (∀ x ∈ body, ∃ t k m d, x = Resp.upd m d ∧ acl.check t = true ∧
        held (grun enc { cache := { cfg := cfg } } h).cache t k = some m ∧ matched r t k = true) ∧
      (∀ t k m, acl.check t = true → held (grun enc { cache := { cfg := cfg } } h).cache t k = some m →
        matched r t k = true → ∃ d, Resp.upd m d ∈ body) ∧
      (∃ picks : List ((String × Path × Noti) × Nat),
        body = picks.map (fun p => Resp.upd p.1.2.2 p.2) ∧ (picks.map (fun p => (p.1.1, p.1.2.1))).Nodup) := by
  obtain ⟨hinv, _⟩ := grun_inv enc h _ (ghinv_init cfg) hok hns
  obtain ⟨s, body, hs, _, _, _, h4, h5, _, h7, h8, h9, h10, h11, picks, hp1, hp2, _⟩ :=
    stream_initial_exact _ hinv id acl r hacc hm huo hcp
  refine ⟨s, body, ?_, h5, h7, h8, h4, h9, h10, h11, picks, hp1, hp2⟩
  unfold grun
  rw [List.foldl_append]
  exact hs

/-! ## what one operation does to the subscribers already there -/

/-- the per-subscriber function of an operation -/
def subF (enc : String → String) (st : Sub.State) : GOp → Subscriber → Subscriber
  | .sub .., s => s
  | .ca op, s => feedSub (st.cache.step enc op).1 (st.cache.step enc op).2.2 s
  | .gateShut id, s => if s.id = id then gateF true s else s
  | .gateOpen id, s => if s.id = id then gateF false s else s
  | .gateStep id, s => if s.id = id then stepF s else s

/-- the subscribers after an operation: the old ones, each transformed, and for a `Subscribe` call
one new one (described by `subscribe_shape`) -/
theorem gstep_subs (enc : String → String) (st : Sub.State) (op : GOp) :
    (∃ id acl req s, op = .sub id acl req ∧ subscribe st id acl req = { st with subs := st.subs ++ [s] } ∧
      (gstep enc st op).subs = st.subs.map (subF enc st op) ++ [s]) ∨
    ((∀ id acl req, op ≠ .sub id acl req) ∧ (gstep enc st op).subs = st.subs.map (subF enc st op)) := by
  cases op with
  | sub id acl req =>
    left
    obtain ⟨s, hs, _⟩ := subscribe_shape st id acl req
    refine ⟨id, acl, req, s, rfl, hs, ?_⟩
    show (subscribe st id acl req).subs = _
    rw [hs]
    have : ∀ l : List Subscriber, l.map (subF enc st (.sub id acl req)) = l := by
      intro l
      induction l with
      | nil => rfl
      | cons a l ih => rw [List.map_cons, ih]; rfl
    rw [this]
  | ca o => exact Or.inr ⟨fun _ _ _ h => (by cases h), rfl⟩
  | gateShut id => exact Or.inr ⟨fun _ _ _ h => (by cases h), rfl⟩
  | gateOpen id => exact Or.inr ⟨fun _ _ _ h => (by cases h), rfl⟩
  | gateStep id => exact Or.inr ⟨fun _ _ _ h => (by cases h), rfl⟩

theorem subF_req (enc : String → String) (st : Sub.State) (op : GOp) (s : Subscriber) :
    (subF enc st op s).req = s.req := by
  cases op with
  | sub => rfl
  | ca o => exact feedSub_req ..
  | gateShut id => simp only [subF]; split; exact gateF_req ..; rfl
  | gateOpen id => simp only [subF]; split; exact gateF_req ..; rfl
  | gateStep id => simp only [subF]; split; exact stepF_req ..; rfl

theorem subF_dead (enc : String → String) (st : Sub.State) (op : GOp) (s : Subscriber) (h : s.alive = false) :
    (subF enc st op s).alive = false := by
  cases op with
  | sub => exact h
  | ca o => exact feedSub_dead _ _ s h
  | gateShut id => simp only [subF]; split; exact gateF_dead _ s h; exact h
  | gateOpen id => simp only [subF]; split; exact gateF_dead _ s h; exact h
  | gateStep id => simp only [subF]; split; exact stepF_dead s h; exact h

theorem subF_syncs (enc : String → String) (st : Sub.State) (op : GOp) (s : Subscriber) :
    syncs (subF enc st op s) = syncs s := by
  cases op with
  | sub => rfl
  | ca o => exact feedSub_syncs ..
  | gateShut id => simp only [subF]; split; exact gateF_syncs ..; rfl
  | gateOpen id => simp only [subF]; split; exact gateF_syncs ..; rfl
  | gateStep id => simp only [subF]; split; exact stepF_syncs ..; rfl

theorem subF_syncFirst (enc : String → String) (st : Sub.State) (op : GOp) (s : Subscriber) (h : SyncFirst s) :
    SyncFirst (subF enc st op s) := by
  cases op with
  | sub => exact h
  | ca o => exact feedSub_syncFirst _ _ s h
  | gateShut id => simp only [subF]; split; exact gateF_syncFirst _ s h; exact h
  | gateOpen id => simp only [subF]; split; exact gateF_syncFirst _ s h; exact h
  | gateStep id => simp only [subF]; split; exact stepF_syncFirst s h; exact h

/-! ## (b) exactly one sync marker -/

/-- at most one marker sent, held or queued; exactly one while the RPC is alive -/
def SyncInv (s : Subscriber) : Prop := syncs s ≤ 1 ∧ (s.alive = true → syncs s = 1)

/-- the new subscriber of a `Subscribe` call: if it is a STREAM subscriber it has one marker, or
none and is dead (rejected call, failed walk) -/
theorem new_syncInv (st : Sub.State) (id : String) (acl : Acl) (req : Option Req) (s : Subscriber)
    (hs : subscribe st id acl req = { st with subs := st.subs ++ [s] }) (hm : s.req.mode = .stream) : SyncInv s := by
  obtain ⟨s', hs', hc⟩ := subscribe_shape st id acl req
  have : s = s' := by
    rw [hs] at hs'
    have := congrArg Sub.State.subs hs'
    simp only [List.append_cancel_left_eq, List.cons.injEq, and_true] at this
    exact this
  subst this
  rcases hc with ⟨c, rfl⟩ | ⟨r, _, hr, hne⟩ | ⟨r, _, _, _, _, _, rfl⟩ | ⟨r, _, _, _, _, _, rfl⟩
  · exact ⟨Nat.zero_le _, fun h => by cases h⟩
  · rw [hr] at hm; exact absurd hm hne
  · rw [SyncInv, pumpAll_syncs]
    exact ⟨Nat.le_refl _, fun _ => rfl⟩
  · rw [SyncInv, pumpAll_syncs]
    rcases doWalk_syncs st.cache { newSubscriber (st.pregated.contains id) id r acl with regs := regQueries r } rfl
      with ⟨hd, he⟩ | he
    · rw [he]
      refine ⟨Nat.zero_le _, fun ha => ?_⟩
      rw [pumpAll_dead _ hd, hd] at ha
      cases ha
    · rw [he]
      exact ⟨Nat.le_refl _, fun _ => rfl⟩

/-- the invariant of (b), of a state -/
def AllSync (st : Sub.State) : Prop := ∀ s ∈ st.subs, s.req.mode = .stream → SyncInv s

theorem gstep_allSync (enc : String → String) (st : Sub.State) (op : GOp) (hi : AllSync st) :
    AllSync (gstep enc st op) := by
  have old : ∀ x ∈ st.subs.map (subF enc st op), x.req.mode = .stream → SyncInv x := by
    intro x hx hm
    obtain ⟨s, hs, rfl⟩ := List.mem_map.1 hx
    rw [subF_req] at hm
    obtain ⟨h1, h2⟩ := hi s hs hm
    refine ⟨by rw [subF_syncs]; exact h1, fun ha => ?_⟩
    rw [subF_syncs]
    apply h2
    cases hs' : s.alive with
    | true => rfl
    | false => rw [subF_dead enc st op s hs'] at ha; cases ha
  intro x hx hm
  rcases gstep_subs enc st op with ⟨id, acl, req, s, _, hs, he⟩ | ⟨_, he⟩
  · rw [he] at hx
    rcases List.mem_append.1 hx with hx | hx
    · exact old x hx hm
    · simp only [List.mem_singleton] at hx
      subst hx
      exact new_syncInv st id acl req x hs hm
  · rw [he] at hx
    exact old x hx hm

theorem grun_allSync (enc : String → String) : ∀ (h : List GOp) (st : Sub.State), AllSync st → AllSync (grun enc st h)
  | [], _, hi => hi
  | op :: h, st, hi => grun_allSync enc h _ (gstep_allSync enc st op hi)

/-- **C04 (b) over the code-shaped model: exactly one sync marker.**  After every history of
`Subscribe` calls (any mode, ACL, request), cache API calls (any — no side condition) and flow-control
operations, from any state without subscribers (any cache, any `pregated` set), for every STREAM
subscriber — `updates_only` or not: the number of sync markers among the responses it was sent, the
response held inside a gated `Send` and the responses its queue stands for is at most one, and
exactly one while the subscriber is alive.  So the marker is sent at most once, and a live
subscriber has been sent it or still has it held or queued: coalescing (`insertHandle`,
`insertSync`), freezing, re-reading, the per-response ACL check and shut/step/open neither
duplicate nor lose it.  (A dead STREAM subscriber has none only if the call was rejected or its walk
failed.) -/
theorem stream_one_sync (enc : String → String) (st0 : Sub.State) (h0 : st0.subs = []) (h : List GOp) :
    ∀ s ∈ (grun enc st0 h).subs, s.req.mode = .stream →
      (s.out.map (·.1) ++ s.blocked.toList ++ s.queue.map toResp).count Resp.sync ≤ 1 ∧
      (s.alive = true → (s.out.map (·.1) ++ s.blocked.toList ++ s.queue.map toResp).count Resp.sync = 1) := by
  intro s hs hm
  have := grun_allSync enc h st0 (fun x hx => by rw [h0] at hx; cases hx) s hs hm
  rw [SyncInv, syncs_eq_count] at this
  exact this

/-! ### (b) with the remaining client-side operations: poll trigger, half-close, send timeout -/

/-- an operation of a history, with the operations `GOp` leaves out -/
inductive XOp where
  | g (op : GOp)
  | poll (id : String)
  | eof (id : String)
  | expire

def xstep (enc : String → String) (st : Sub.State) : XOp → Sub.State
  | .g op => gstep enc st op
  | .poll id => poll st id
  | .eof id => eof st id
  | .expire => expire st

def xrun (enc : String → String) (st : Sub.State) (h : List XOp) : Sub.State := h.foldl (xstep enc) st

theorem xstep_allSync (enc : String → String) (st : Sub.State) (op : XOp) (hi : AllSync st) :
    AllSync (xstep enc st op) := by
  cases op with
  | g op => exact gstep_allSync enc st op hi
  | poll id =>
    intro x hx hm
    show SyncInv x
    have hx' : x ∈ (updateSub st id (SubPoll.pollSub st.cache)).subs := hx
    obtain ⟨s, hs, rfl⟩ := List.mem_map.1 hx'
    by_cases hid : s.id = id
    · rw [if_pos hid] at hm ⊢
      rw [SubPoll.pollSub_req] at hm
      have : SubPoll.pollSub st.cache s = s := by
        unfold SubPoll.pollSub
        rw [if_neg]
        rintro ⟨_, h2⟩
        rw [hm] at h2; cases h2
      rw [this]
      exact hi s hs hm
    · rw [if_neg hid] at hm ⊢
      exact hi s hs hm
  | eof id =>
    intro x hx hm
    have hx' : x ∈ (updateSub st id SubPoll.eofSub).subs := hx
    obtain ⟨s, hs, rfl⟩ := List.mem_map.1 hx'
    by_cases hid : s.id = id
    · rw [if_pos hid] at hm ⊢
      rw [SubPoll.eofSub_req] at hm
      have : SubPoll.eofSub s = s := by
        unfold SubPoll.eofSub
        rw [if_neg]
        rintro ⟨_, h2⟩
        rw [hm] at h2; cases h2
      rw [this]
      exact hi s hs hm
    · rw [if_neg hid] at hm ⊢
      exact hi s hs hm
  | expire =>
    intro x hx hm
    have hx' : x ∈ (expire st).subs := hx
    unfold expire at hx'
    obtain ⟨s, hs, rfl⟩ := List.mem_map.1 hx'
    split
    · have h1 := (hi s hs (by rw [if_pos ‹_›] at hm; exact hm)).1
      refine ⟨?_, fun h => by cases h⟩
      unfold syncs at h1 ⊢
      simp only [Option.toList] at h1 ⊢
      have : nsync ([] : List Resp) = 0 := rfl
      omega
    · rw [if_neg ‹_›] at hm
      exact hi s hs hm

theorem xrun_allSync (enc : String → String) : ∀ (h : List XOp) (st : Sub.State), AllSync st → AllSync (xrun enc st h)
  | [], _, hi => hi
  | op :: h, st, hi => xrun_allSync enc h _ (xstep_allSync enc st op hi)

/-- (b) over histories that also contain poll triggers, half-closes and send timeouts.  A send
timeout ends the RPC and discards the held response — if that was the marker, the (dead) subscriber
has none: hence "exactly one" only while alive. -/
theorem stream_one_sync_all_ops (enc : String → String) (st0 : Sub.State) (h0 : st0.subs = []) (h : List XOp) :
    ∀ s ∈ (xrun enc st0 h).subs, s.req.mode = .stream →
      (s.out.map (·.1) ++ s.blocked.toList ++ s.queue.map toResp).count Resp.sync ≤ 1 ∧
      (s.alive = true → (s.out.map (·.1) ++ s.blocked.toList ++ s.queue.map toResp).count Resp.sync = 1) := by
  intro s hs hm
  have := xrun_allSync enc h st0 (fun x hx => by rw [h0] at hx; cases hx) s hs hm
  rw [SyncInv, syncs_eq_count] at this
  exact this

/-- (b), what was actually sent: at most one marker in `out` -/
theorem stream_one_sync_sent (enc : String → String) (st0 : Sub.State) (h0 : st0.subs = []) (h : List GOp) :
    ∀ s ∈ (grun enc st0 h).subs, s.req.mode = .stream → (s.out.map (·.1)).count Resp.sync ≤ 1 := by
  intro s hs hm
  have := (stream_one_sync enc st0 h0 h s hs hm).1
  rw [List.count_append, List.count_append] at this
  omega

/-! ## (c) `updates_only`: the marker first -/

def AllFirst (st : Sub.State) : Prop :=
  ∀ s ∈ st.subs, s.req.mode = .stream → s.req.updatesOnly = true → SyncFirst s

theorem new_syncFirst (st : Sub.State) (id : String) (acl : Acl) (req : Option Req) (s : Subscriber)
    (hs : subscribe st id acl req = { st with subs := st.subs ++ [s] }) (hm : s.req.mode = .stream)
    (hu : s.req.updatesOnly = true) : SyncFirst s := by
  obtain ⟨s', hs', hc⟩ := subscribe_shape st id acl req
  have : s = s' := by
    rw [hs] at hs'
    have := congrArg Sub.State.subs hs'
    simp only [List.append_cancel_left_eq, List.cons.injEq, and_true] at this
    exact this
  subst this
  rcases hc with ⟨c, rfl⟩ | ⟨r, _, hr, hne⟩ | ⟨r, _, _, _, _, _, rfl⟩ | ⟨r, _, _, huo, _, _, rfl⟩
  · cases hu
  · rw [hr] at hm; exact absurd hm hne
  · apply pumpAll_syncFirst
    exact Or.inr (Or.inr ⟨rfl, rfl, 0, [], rfl⟩)
  · rw [pumpAll_req, doWalk_req] at hu
    simp only [newSubscriber] at hu
    rw [huo] at hu
    cases hu

theorem gstep_allFirst (enc : String → String) (st : Sub.State) (op : GOp) (hi : AllFirst st) :
    AllFirst (gstep enc st op) := by
  have old : ∀ x ∈ st.subs.map (subF enc st op), x.req.mode = .stream → x.req.updatesOnly = true → SyncFirst x := by
    intro x hx hm hu
    obtain ⟨s, hs, rfl⟩ := List.mem_map.1 hx
    rw [subF_req] at hm hu
    exact subF_syncFirst enc st op s (hi s hs hm hu)
  intro x hx hm hu
  rcases gstep_subs enc st op with ⟨id, acl, req, s, _, hs, he⟩ | ⟨_, he⟩
  · rw [he] at hx
    rcases List.mem_append.1 hx with hx | hx
    · exact old x hx hm hu
    · simp only [List.mem_singleton] at hx
      subst hx
      exact new_syncFirst st id acl req x hs hm hu
  · rw [he] at hx
    exact old x hx hm hu

theorem grun_allFirst (enc : String → String) : ∀ (h : List GOp) (st : Sub.State), AllFirst st → AllFirst (grun enc st h)
  | [], _, hi => hi
  | op :: h, st, hi => grun_allFirst enc h _ (gstep_allFirst enc st op hi)

/-- **C04 (c) over the code-shaped model: with `updates_only` the sync marker comes first.**  At
every point of every history (as in `stream_one_sync`: no side condition), for every STREAM
subscriber with `updates_only`:
* nothing was sent yet, or the first response sent is the sync marker;
* the first of (sent ++ held ++ queued) is the sync marker: the marker is queued before the
  registration, so before anything else can be;
* nothing — in particular no snapshot update — precedes the marker in what was sent: any
  decomposition `pre ++ sync :: post` of `out` has `pre = []`. -/
theorem updates_only_sync_first (enc : String → String) (st0 : Sub.State) (h0 : st0.subs = []) (h : List GOp) :
    ∀ s ∈ (grun enc st0 h).subs, s.req.mode = .stream → s.req.updatesOnly = true →
      (s.out = [] ∨ ∃ f rest, s.out = (Resp.sync, f) :: rest) ∧
      (s.out.map (·.1) ++ s.blocked.toList ++ s.queue.map toResp).head? = some Resp.sync ∧
      (∀ pre post, s.out.map (·.1) = pre ++ Resp.sync :: post → pre = []) := by
  intro s hs hm hu
  have hf := grun_allFirst enc h st0 (fun x hx => by rw [h0] at hx; cases hx) s hs hm hu
  have hone := stream_one_sync_sent enc st0 h0 h s hs hm
  refine ⟨?_, ?_, ?_⟩
  · rcases hf with h1 | ⟨h2, _⟩ | ⟨h3, _⟩
    · exact Or.inr h1
    · exact Or.inl h2
    · exact Or.inl h3
  · rcases hf with ⟨f, rest, h1⟩ | ⟨h2, hb⟩ | ⟨h3, hb, d, rest, hq⟩
    · rw [h1]; rfl
    · rw [h2, hb]; rfl
    · rw [h3, hb, hq]; rfl
  · intro pre post hdec
    cases pre with
    | nil => rfl
    | cons x pre =>
      exfalso
      rcases hf with ⟨f, rest, h1⟩ | ⟨h2, _⟩ | ⟨h3, _⟩
      · rw [h1] at hdec
        simp only [List.map_cons, List.cons_append, List.cons.injEq] at hdec
        rw [h1] at hone
        simp only [List.map_cons] at hone
        rw [hdec.2] at hone
        simp only [List.count_cons_self, List.count_append] at hone
        omega
      · rw [h2] at hdec; cases hdec
      · rw [h3] at hdec; cases hdec

/-! ## `updates_only`: what the subscriber holds

An `updates_only` STREAM subscriber `su` is followed through the history by its *shadow*
(`SubSync.shadow snap su`): the subscriber that the same call without `updates_only` would have
produced — same registration, queue, gate, held response; `out` is `snap ++ su.out` where `snap` is
the snapshot.  Every per-subscriber function of the model commutes with `shadow`, so the shadow
satisfies the `C04Gate` invariant (`GInv`) at every point, and its pending view
(`snap ++ pend su`, replayed) agrees with the cache on every allowed matched key.  A key that some
response sent to / held for / queued for `su` *decides* (`SubSync.decides`: an update of that leaf,
an atomic update above it, a delete covering it) has the same value in both replays; a key that none
decides is absent from `su`'s view and in the shadow's view still shows the snapshot.

**What is proved** (`updates_only_converges_pending_partial`, at every point; `…_partial`, with
flow control open; `…_exact_partial`, without event-driven emulation): on every allowed matched
key, *either* the view of `su` agrees with the cache (`Feed.Sim`), *or* the view holds nothing there,
no response to `su` decides the key, and the cache still holds what it held at registration (both
`Sim` to one notification `w`, the snapshot's; equal if `eventDriven = false`).  Hence every matched
key whose content differs from the content at registration is reflected in the view.  And the view
holds nothing the cache does not hold.

**What is missing for the full statement `updates_only_converges`**: (1) the event form — a key
written since registration *with a value equal to the one at registration* (A → B → A) is reflected
too; the state form above only gives "agrees, or absent and unchanged" for it; this needs a ghost set
of the events offered since registration and the lemma "an offered event's response is sent, held or
queued (coalescing keeps the key)".  (2) requests whose paths `CompletePath` rejects (origin in both
prefix and path; path origin with a non-empty prefix): with `updates_only` there is no walk, so the
call is **not** rejected and the subscription stays registered, but it has no shadow (the call
without `updates_only` ends with an error): hypothesis `hcp`. -/

theorem gstep_cache' (enc : String → String) (st : Sub.State) (op : GOp) (ho : caOf op = none) :
    (gstep enc st op).cache = st.cache := by
  cases op with
  | sub id acl req =>
    obtain ⟨s, hs, _⟩ := subscribe_shape st id acl req
    show (subscribe st id acl req).cache = st.cache
    rw [hs]
  | ca o => cases ho
  | gateShut id => rfl
  | gateOpen id => rfl
  | gateStep id => rfl

theorem cacheOps_append (a b : List GOp) : cacheOps (a ++ b) = cacheOps a ++ cacheOps b := by
  unfold cacheOps
  exact List.filterMap_append

theorem caOf_some {op : GOp} {o : Cache.Op} (h : caOf op = some o) : op = .ca o := by
  cases op with
  | ca o' => simp only [caOf, Option.some.injEq] at h; rw [h]
  | sub => cases h
  | gateShut => cases h
  | gateOpen => cases h
  | gateStep => cases h

/-- the side conditions of a history split at any point -/
theorem okRun_split (enc : String → String) : ∀ (h1 : List GOp) (st : Sub.State) (ops2 : List Cache.Op),
    C03.OkRun enc st.cache (cacheOps h1 ++ ops2) →
    C03.OkRun enc st.cache (cacheOps h1) ∧ C03.OkRun enc (grun enc st h1).cache ops2
  | [], _, _, h => ⟨trivial, h⟩
  | op :: h1, st, ops2, h => by
    cases hc : caOf op with
    | none =>
      rw [cacheOps_cons_other h1 hc] at h ⊢
      have := okRun_split enc h1 (gstep enc st op) ops2 (by rw [gstep_cache' enc st op hc]; exact h)
      rw [gstep_cache' enc st op hc] at this
      exact this
    | some o =>
      have := caOf_some hc
      subst this
      rw [cacheOps_cons_ca] at h ⊢
      have := okRun_split enc h1 (gstep enc st (.ca o)) ops2 h.2
      exact ⟨⟨h.1, this.1⟩, this.2⟩

theorem getElem?_map_append {α : Type} (f : α → α) (l new : List α) (i : Nat) (x : α) (h : l[i]? = some x) :
    (l.map f ++ new)[i]? = some (f x) := by
  have hlt : i < (l.map f).length := by
    rw [List.length_map]
    exact (List.getElem?_eq_some_iff.1 h).1
  rw [List.getElem?_append_left hlt, List.getElem?_map, h]
  rfl

theorem gstep_getElem (enc : String → String) (st : Sub.State) (op : GOp) (i : Nat) (su : Subscriber)
    (h : st.subs[i]? = some su) : (gstep enc st op).subs[i]? = some (subF enc st op su) := by
  rcases gstep_subs enc st op with ⟨_, _, _, s, _, _, he⟩ | ⟨_, he⟩
  · rw [he]; exact getElem?_map_append _ _ _ i su h
  · rw [he, ← List.append_nil (st.subs.map _)]; exact getElem?_map_append _ _ _ i su h

/-- the subscriber at a position keeps `UInv` along any history (while it is alive) -/
theorem track (enc : String → String) (C0 : String → Path → Option Noti) (a : Acl) (r : Req) :
    ∀ (h : List GOp) (cfg : Cfg) (st : Sub.State) (i : Nat) (su : Subscriber),
    GHInv st → st.cache.cfg = cfg → C03.OkRun enc st.cache (cacheOps h) → NoStarTargets h →
    st.subs[i]? = some su → (su.alive = true → UInv cfg C0 (treesOf st.cache) a r su) →
    ∃ su', (grun enc st h).subs[i]? = some su' ∧
      (su'.alive = true → UInv cfg C0 (treesOf (grun enc st h).cache) a r su')
  | [], _, _, _, su, _, _, _, _, hsu, hu => ⟨su, hsu, hu⟩
  | op :: h, cfg, st, i, su, hi, hcfg, hok, hns, hsu, hu => by
    subst hcfg
    have hsu' := gstep_getElem enc st op i su hsu
    have halive : (subF enc st op su).alive = true → su.alive = true := by
      intro ha
      cases hs : su.alive with
      | true => rfl
      | false => rw [subF_dead enc st op su hs] at ha; cases ha
    cases hc : caOf op with
    | none =>
      have hi' := gstep_inv enc st op hi (fun o ho => by rw [hc] at ho; cases ho)
      have hca := gstep_cache' enc st op hc
      rw [cacheOps_cons_other h hc] at hok
      have hns' : NoStarTargets h := by
        intro x hx
        apply hns x
        rw [cacheOps_cons_other h hc]
        exact hx
      refine track enc C0 a r h st.cache.cfg (gstep enc st op) i _ hi' (by rw [hca]) (by rw [hca]; exact hok) hns' hsu' ?_
      intro ha
      have hu0 := hu (halive ha)
      rw [hca]
      cases op with
      | sub id acl req => exact hu0
      | ca o => cases hc
      | gateShut id =>
        simp only [subF] at ha ⊢
        split
        · rename_i hid
          rw [if_pos hid] at ha
          exact setGate_sub_uinv hi.cok.vok true hu0 ha
        · exact hu0
      | gateOpen id =>
        simp only [subF] at ha ⊢
        split
        · rename_i hid
          rw [if_pos hid] at ha
          exact setGate_sub_uinv hi.cok.vok false hu0 ha
        · exact hu0
      | gateStep id =>
        simp only [subF] at ha ⊢
        split
        · rename_i hid
          rw [if_pos hid] at ha
          exact stepGate_sub_uinv hi.cok.vok hu0 ha
        · exact hu0
    | some o =>
      have := caOf_some hc
      subst this
      rw [cacheOps_cons_ca] at hok
      have hno : NoStarOp o := hns o (by rw [cacheOps_cons_ca]; exact List.mem_cons_self ..)
      have hi' := gstep_inv enc st (.ca o) hi (fun o' ho => by
        simp only [caOf, Option.some.injEq] at ho; subst ho; exact ⟨hok.1, hno⟩)
      have hns' : NoStarTargets h := by
        intro x hx
        apply hns x
        rw [cacheOps_cons_ca]
        exact List.mem_cons_of_mem _ hx
      obtain ⟨hc', hsim⟩ := step_cacheOK enc st.cache o hi.sinv hi.cok hok.1 hno
      refine track enc C0 a r h st.cache.cfg (gstep enc st (.ca o)) i _ hi' (C14.step_cfg enc st.cache o) hok.2 hns' hsu' ?_
      intro ha
      exact feed_sub_uinv hi.cok.vok hc'.vok (step_goodTr enc st.cache o hi.sinv hi.cok hok.1 hno).1 hsim hc'.hkey
        (hu (halive ha)) ha

theorem held_eq (c : Cache.State) (t : String) (k : Path) : held c t k = lookup (treesOf c t) k :=
  (lookup_treesOf c t k).symm

/-- the initial state of a history -/
abbrev init (cfg : Cfg) : Sub.State := { cache := { cfg := cfg } }

/-- the subscriber a history `h1 ++ [Subscribe] ++ h2` tracks: the one the call appended (its
position is the number of subscribers before the call), as it is at the end -/
def tracked (enc : String → String) (cfg : Cfg) (h1 : List GOp) (op : GOp) (h2 : List GOp) : Option Subscriber :=
  (grun enc (init cfg) (h1 ++ op :: h2)).subs[(grun enc (init cfg) h1).subs.length]?

/-- the subscriber of an accepted `updates_only` STREAM call, at the end of the history, with the
invariant of its shadow -/
theorem tracked_uinv (enc : String → String) (cfg : Cfg) (h1 h2 : List GOp) (id : String) (acl : Acl) (r : Req)
    (hok : C03.OkRun enc { cfg := cfg } (cacheOps (h1 ++ .sub id acl (some r) :: h2)))
    (hns : NoStarTargets (h1 ++ .sub id acl (some r) :: h2))
    (hm : r.mode = .stream) (hu : r.updatesOnly = true)
    (hcp : ∀ sp ∈ r.subs, (completePath r sp).isSome = true) :
    VOK (treesOf (grun enc (init cfg) (h1 ++ .sub id acl (some r) :: h2)).cache) ∧
    ∀ su, tracked enc cfg h1 (.sub id acl (some r)) h2 = some su → su.alive = true →
      UInv cfg (fun t k => lookup (treesOf (grun enc (init cfg) h1).cache t) k)
        (treesOf (grun enc (init cfg) (h1 ++ .sub id acl (some r) :: h2)).cache) acl r su := by
  have hco : cacheOps (h1 ++ .sub id acl (some r) :: h2) = cacheOps h1 ++ cacheOps h2 := by
    rw [cacheOps_append, cacheOps_cons_other _ rfl]
  rw [hco] at hok
  obtain ⟨hok1, hok2⟩ := okRun_split enc h1 (init cfg) (cacheOps h2) hok
  have hns1 : NoStarTargets h1 := fun op hop => hns op (by rw [hco]; exact List.mem_append_left _ hop)
  have hns2 : NoStarTargets h2 := fun op hop => hns op (by rw [hco]; exact List.mem_append_right _ hop)
  obtain ⟨inv1, hcfg1⟩ := grun_inv enc h1 (init cfg) (ghinv_init cfg) hok1 hns1
  have hcfg1' : (grun enc (init cfg) h1).cache.cfg = cfg := hcfg1
  generalize hst1 : grun enc (init cfg) h1 = st1 at inv1 hcfg1' hok2
  have hrun : grun enc (init cfg) (h1 ++ .sub id acl (some r) :: h2) =
      grun enc (gstep enc st1 (.sub id acl (some r))) h2 := by
    unfold grun
    rw [List.foldl_append]
    show List.foldl (gstep enc) (gstep enc (grun enc (init cfg) h1) _) h2 = _
    rw [hst1]
  have inv1' : GHInv (gstep enc st1 (.sub id acl (some r))) :=
    gstep_inv enc st1 _ inv1 (fun o ho => by cases ho)
  have hca : (gstep enc st1 (.sub id acl (some r))).cache = st1.cache := gstep_cache' enc st1 _ rfl
  obtain ⟨s, hs, hc⟩ := subscribe_shape st1 id acl (some r)
  have hget : (gstep enc st1 (.sub id acl (some r))).subs[st1.subs.length]? = some s := by
    show (subscribe st1 id acl (some r)).subs[st1.subs.length]? = some s
    rw [hs]
    simp
  have hU : s.alive = true → UInv cfg (fun t k => lookup (treesOf st1.cache t) k)
      (treesOf (gstep enc st1 (.sub id acl (some r))).cache) acl r s := by
    intro ha
    rw [hca]
    rcases hc with ⟨c, rfl⟩ | ⟨r', hr, _, hne⟩ | ⟨r', hr, _, _, hT, hex, rfl⟩ | ⟨r', hr, _, huo, _, _, _⟩
    · cases ha
    · cases hr; exact absurd hm hne
    · cases hr
      have hg : st1.pregated.contains id = false := by rw [inv1.pre]; rfl
      rw [hg, uoSub_eq]
      rw [← hcfg1']
      exact uinv_init inv1.cok id r acl hm hT (C04Seq.hasTarget_exists hex) hcp
    · cases hr
      rw [hu] at huo; cases huo
  obtain ⟨su', hget', hU'⟩ := track enc _ acl r h2 cfg (gstep enc st1 (.sub id acl (some r))) st1.subs.length s
    inv1' (by rw [hca]; exact hcfg1') (by rw [hca]; exact hok2) hns2 hget hU
  obtain ⟨inv2, _⟩ := grun_inv enc h2 _ inv1' (by rw [hca]; exact hok2) hns2
  rw [hrun]
  refine ⟨inv2.cok.vok, ?_⟩
  intro su hsu ha
  unfold tracked at hsu
  rw [hrun, hst1, hget'] at hsu
  cases hsu
  exact hU' ha

/-- **`updates_only`, at every point of every history with flow control** (partial: see the section
comment).  The call `Subscribe id acl r` (STREAM, `updates_only`, paths that `CompletePath` accepts)
is made after `h1`; `h2` follows.  If the subscriber it created is alive at the end, then it still
carries the call's request and ACL and, for the view replayed from everything it was sent, the
response held for it and what its queue stands for (`SubGate.pend`):
* on every key `t :: k` of a target the ACL allows that a registered query matches, **either** the
  view agrees with the cache (`Feed.Sim`), **or** the view holds nothing there, no response sent to,
  held for or queued for the subscriber decides that key, and the cache holds what it held when the
  call was made (both `Sim` to one notification `w`);
* the view holds nothing the cache does not hold. -/
theorem updates_only_converges_pending_partial (enc : String → String) (cfg : Cfg) (h1 h2 : List GOp)
    (id : String) (acl : Acl) (r : Req)
    (hok : C03.OkRun enc { cfg := cfg } (cacheOps (h1 ++ .sub id acl (some r) :: h2)))
    (hns : NoStarTargets (h1 ++ .sub id acl (some r) :: h2))
    (hm : r.mode = .stream) (hu : r.updatesOnly = true)
    (hcp : ∀ sp ∈ r.subs, (completePath r sp).isSome = true) :
    ∀ su, tracked enc cfg h1 (.sub id acl (some r)) h2 = some su → su.alive = true →
      su.req = r ∧ su.acl = acl ∧
      (∀ t k, acl.check t = true → matched r t k = true →
        Sim cfg (lookup (replayR (pend su)) (t :: k))
          (held (grun enc (init cfg) (h1 ++ .sub id acl (some r) :: h2)).cache t k) ∨
        (lookup (replayR (pend su)) (t :: k) = none ∧ (∀ x ∈ pend su, decides (t :: k) x = false) ∧
          ∃ w, Sim cfg w (held (grun enc (init cfg) h1).cache t k) ∧
            Sim cfg w (held (grun enc (init cfg) (h1 ++ .sub id acl (some r) :: h2)).cache t k))) ∧
      (∀ κ, (lookup (replayR (pend su)) κ).isSome = true →
        ∃ t k, κ = t :: k ∧ (held (grun enc (init cfg) (h1 ++ .sub id acl (some r) :: h2)).cache t k).isSome = true) := by
  obtain ⟨hV, hall⟩ := tracked_uinv enc cfg h1 h2 id acl r hok hns hm hu hcp
  intro su hsu ha
  have ui := hall su hsu ha
  obtain ⟨v1, v2⟩ := ui.view hV
  refine ⟨ui.1, ui.2.1, ?_, ?_⟩
  · intro t k hc hq
    simp only [held_eq]
    exact v1 t k hc hq
  · intro κ hκ
    obtain ⟨t, k, e, hv⟩ := v2 κ hκ
    exact ⟨t, k, e, by rw [held_eq]; exact hv⟩

/-- **`updates_only` at quiescence** (flow control open at the end; partial: see the section
comment): nothing is queued or held, and the view replayed from what the subscriber was sent
satisfies the two clauses of `updates_only_converges_pending_partial`. -/
theorem updates_only_converges_partial (enc : String → String) (cfg : Cfg) (h1 h2 : List GOp)
    (id : String) (acl : Acl) (r : Req)
    (hok : C03.OkRun enc { cfg := cfg } (cacheOps (h1 ++ .sub id acl (some r) :: h2)))
    (hns : NoStarTargets (h1 ++ .sub id acl (some r) :: h2))
    (hm : r.mode = .stream) (hu : r.updatesOnly = true)
    (hcp : ∀ sp ∈ r.subs, (completePath r sp).isSome = true) :
    ∀ su, tracked enc cfg h1 (.sub id acl (some r)) h2 = some su → su.alive = true → su.gateShut = false →
      su.queue = [] ∧ su.blocked = none ∧
      (∀ t k, acl.check t = true → matched r t k = true →
        Sim cfg (lookup (replay su.out) (t :: k))
          (held (grun enc (init cfg) (h1 ++ .sub id acl (some r) :: h2)).cache t k) ∨
        (lookup (replay su.out) (t :: k) = none ∧ (∀ x ∈ su.out, decides (t :: k) x.1 = false) ∧
          ∃ w, Sim cfg w (held (grun enc (init cfg) h1).cache t k) ∧
            Sim cfg w (held (grun enc (init cfg) (h1 ++ .sub id acl (some r) :: h2)).cache t k))) ∧
      (∀ κ, (lookup (replay su.out) κ).isSome = true →
        ∃ t k, κ = t :: k ∧ (held (grun enc (init cfg) (h1 ++ .sub id acl (some r) :: h2)).cache t k).isSome = true) := by
  intro su hsu ha hg
  obtain ⟨_, hall⟩ := tracked_uinv enc cfg h1 h2 id acl r hok hns hm hu hcp
  obtain ⟨hq, hb⟩ := (hall su hsu ha).drained hg
  obtain ⟨_, _, v1, v2⟩ := updates_only_converges_pending_partial enc cfg h1 h2 id acl r hok hns hm hu hcp su hsu ha
  have hp : pend su = su.out.map (·.1) := by
    unfold pend
    rw [hq, hb]
    simp
  rw [pend_open hq hb] at v1 v2
  refine ⟨hq, hb, ?_, v2⟩
  intro t k hc hmt
  rcases v1 t k hc hmt with h1' | ⟨h1', h2', h3'⟩
  · exact Or.inl h1'
  · refine Or.inr ⟨h1', ?_, h3'⟩
    intro x hx
    apply h2'
    rw [hp]
    exact List.mem_map.2 ⟨x, hx, rfl⟩

/-- without event-driven emulation `Sim` is equality -/
theorem sim_eq {cfg : Cfg} (he : cfg.eventDriven = false) {a b : Option Noti} (h : Sim cfg a b) : a = b := by
  cases a <;> cases b
  · rfl
  · exact h.elim
  · exact h.elim
  · rcases h with rfl | ⟨h2, _⟩
    · rfl
    · rw [he] at h2; cases h2

/-- **`updates_only` at quiescence, without event-driven emulation** (partial, as above): on every
allowed matched key the view **is** what the cache holds, or it holds nothing there, nothing sent
decides the key and the cache holds **exactly** what it held when the call was made.  In particular
every allowed matched key whose content differs from the content at registration is in the view,
with the cache's content. -/
theorem updates_only_converges_exact_partial (enc : String → String) (cfg : Cfg) (he : cfg.eventDriven = false)
    (h1 h2 : List GOp) (id : String) (acl : Acl) (r : Req)
    (hok : C03.OkRun enc { cfg := cfg } (cacheOps (h1 ++ .sub id acl (some r) :: h2)))
    (hns : NoStarTargets (h1 ++ .sub id acl (some r) :: h2))
    (hm : r.mode = .stream) (hu : r.updatesOnly = true)
    (hcp : ∀ sp ∈ r.subs, (completePath r sp).isSome = true) :
    ∀ su, tracked enc cfg h1 (.sub id acl (some r)) h2 = some su → su.alive = true → su.gateShut = false →
      (∀ t k, acl.check t = true → matched r t k = true →
        lookup (replay su.out) (t :: k) = held (grun enc (init cfg) (h1 ++ .sub id acl (some r) :: h2)).cache t k ∨
        (lookup (replay su.out) (t :: k) = none ∧
          held (grun enc (init cfg) h1).cache t k = held (grun enc (init cfg) (h1 ++ .sub id acl (some r) :: h2)).cache t k)) ∧
      (∀ t k, acl.check t = true → matched r t k = true →
        held (grun enc (init cfg) h1).cache t k ≠ held (grun enc (init cfg) (h1 ++ .sub id acl (some r) :: h2)).cache t k →
        lookup (replay su.out) (t :: k) = held (grun enc (init cfg) (h1 ++ .sub id acl (some r) :: h2)).cache t k) := by
  intro su hsu ha hg
  obtain ⟨_, _, v1, _⟩ := updates_only_converges_partial enc cfg h1 h2 id acl r hok hns hm hu hcp su hsu ha hg
  have key : ∀ t k, acl.check t = true → matched r t k = true →
      lookup (replay su.out) (t :: k) = held (grun enc (init cfg) (h1 ++ .sub id acl (some r) :: h2)).cache t k ∨
      (lookup (replay su.out) (t :: k) = none ∧
        held (grun enc (init cfg) h1).cache t k = held (grun enc (init cfg) (h1 ++ .sub id acl (some r) :: h2)).cache t k) := by
    intro t k hc hmt
    rcases v1 t k hc hmt with h1' | ⟨h1', _, w, hw1, hw2⟩
    · exact Or.inl (sim_eq he h1')
    · exact Or.inr ⟨h1', (sim_eq he hw1).symm.trans (sim_eq he hw2)⟩
  refine ⟨key, ?_⟩
  intro t k hc hmt hne
  rcases key t k hc hmt with h1' | ⟨_, h2'⟩
  · exact h1'
  · exact absurd h2' hne

/-- **The full statement** (not proved; `updates_only_converges_partial` is the part that is): for
*every* accepted `updates_only` STREAM call — including requests whose paths `CompletePath` would
reject — at quiescence the view agrees with the cache on every allowed matched key that some event
emitted since the call decides (an update of that leaf, an atomic update above it, a delete
covering it), whether or not the content differs from the content at registration. -/
def updates_only_converges (enc : String → String) (cfg : Cfg) : Prop :=
  ∀ (h1 h2 : List GOp) (id : String) (acl : Acl) (r : Req),
    C03.OkRun enc { cfg := cfg } (cacheOps (h1 ++ .sub id acl (some r) :: h2)) →
    NoStarTargets (h1 ++ .sub id acl (some r) :: h2) →
    r.mode = .stream → r.updatesOnly = true →
    ∀ su, tracked enc cfg h1 (.sub id acl (some r)) h2 = some su → su.alive = true → su.gateShut = false →
      ∀ t k, acl.check t = true → matched r t k = true →
        (∃ (a b : List GOp) (op : Cache.Op) (e : Event), h2 = a ++ .ca op :: b ∧
          e ∈ ((grun enc (init cfg) (h1 ++ .sub id acl (some r) :: a)).cache.step enc op).2.2 ∧
          decides (t :: k) (toResp (Item.note e, 0)) = true) →
        Sim cfg (lookup (replay su.out) (t :: k))
          (held (grun enc (init cfg) (h1 ++ .sub id acl (some r) :: h2)).cache t k)

/-! ## Non-vacuity

`histU1`: a target with two leaves `a/b`, `a/c`.  Then an `updates_only` STREAM subscription to `a`.
`histU2`: its gate is shut, `a/b` is written twice (the first write is dequeued and held, the second
queued behind it), one response is stepped through, the gate is opened. -/

def reqU : Req := { target := "t", mode := .stream, updatesOnly := true, subs := [{ path := ["a"] }] }

def histU1 : List GOp := [ .ca (.add "t"), upT 10 1 [wr 1 "w1", cr 1 "c1"] ]

def histU2 : List GOp :=
  [ .gateShut "u1", upT 11 2 [wr 2 "w2"], upT 12 3 [wr 3 "w3"], .gateStep "u1", .gateOpen "u1" ]

def histU : List GOp := histU1 ++ .sub "u1" .absent (some reqU) :: histU2

theorem histU_ok : C03.OkRun id {} (cacheOps histU) := by
  have one : ∀ (ts i : Int) (r : String) (p : Path), glob ∉ p → p.head? ≠ some "" →
      Clean { ts := ts, target := "t", praw := "p", upd := [{ path := p, val := .scalar (.int i), raw := r }] } := by
    intro ts i r p h1 h2 u hu
    simp only [List.mem_cons, List.not_mem_nil, or_false] at hu
    subst hu
    exact ⟨h1, Or.inr rfl, h2⟩
  refine ⟨⟨by decide, rfl⟩, ?_, one 2 2 "w2" _ (by decide) (by decide), one 3 3 "w3" _ (by decide) (by decide), trivial⟩
  intro u hu
  simp only [List.mem_cons, List.not_mem_nil, or_false] at hu
  rcases hu with rfl | rfl <;> exact ⟨by decide, Or.inr rfl, by decide⟩

theorem histU_noStar : NoStarTargets histU := by
  intro op hop
  simp only [histU, histU1, histU2, upT, cacheOps, caOf, List.cons_append, List.nil_append, List.filterMap_cons,
    List.filterMap_nil, List.mem_cons, List.not_mem_nil, or_false] at hop
  rcases hop with rfl | rfl | rfl | rfl <;> first | trivial | (show _ ≠ _; decide)

/-- the tracked `updates_only` subscriber at the end: alive, gate open, sent the marker first and then
the two writes of `a/b` (no snapshot); its view holds `a/b` at the cache's timestamp 3 and **not**
`a/c`, which the cache holds unchanged since registration — both disjuncts of
`updates_only_converges_partial` occur -/
theorem histU_views :
    (tracked id {} histU1 (.sub "u1" .absent (some reqU)) histU2).map (fun s =>
      (s.alive, s.gateShut, s.req.updatesOnly, s.out.length, s.queue.length)) = some (true, false, true, 3, 0) ∧
    (tracked id {} histU1 (.sub "u1" .absent (some reqU)) histU2).map (fun s => kts (replay s.out)) =
      some [(["t", "a", "b"], 3)] ∧
    (tracked id {} histU1 (.sub "u1" .absent (some reqU)) histU2).map (fun s => s.out.head?.map (·.1)) =
      some (some Resp.sync) ∧
    ((grun id {} histU).cache.get "t").map (fun tg => kts tg.tree) = some [(["a", "c"], 1), (["a", "b"], 3)] ∧
    held (grun id {} histU1).cache "t" ["a", "c"] = held (grun id {} histU).cache "t" ["a", "c"] ∧
    held (grun id {} histU1).cache "t" ["a", "b"] ≠ held (grun id {} histU).cache "t" ["a", "b"] := by
  refine ⟨by decide, by decide, by decide, by decide, by decide, by decide⟩

/-- while the gate is shut the marker is held, nothing was sent: the second and third case of `SyncFirst` -/
theorem histU_held :
    (grun id {} (histU1 ++ [.gateShut "u1"])).subs = [] ∧
    (grun id { cache := {}, pregated := ["u1"] }
        (histU1 ++ [.sub "u1" .absent (some reqU), upT 11 2 [wr 2 "w2"]])).subs.map
      (fun s => (s.alive, s.out.length, s.blocked, s.queue.length)) = [(true, 0, some Resp.sync, 1)] := by
  decide

/-- the theorems instantiated -/
example := updates_only_converges_partial id {} histU1 histU2 "u1" .absent reqU histU_ok histU_noStar rfl rfl (by decide)
example := stream_one_sync id {} rfl histU
example := updates_only_sync_first id {} rfl histU
example := stream_one_sync id { cache := {}, pregated := ["u1"] } rfl histU

/-- (a) instantiated after the gated history of `C04Gate`: a second subscriber of the same paths is
sent the one leaf left (`a/b`) and the marker -/
example := stream_initial_exact_run id {} histG histG_ok histG_noStar "s2" .absent reqS
  ⟨rfl, rfl, by decide, by decide, Or.inr rfl, rfl, trivial⟩ rfl rfl (by decide)

theorem histG_second :
    (grun id {} (histG ++ [.sub "s2" .absent (some reqS)])).subs.map (fun s => (s.alive, s.out.length, s.queue.length)) =
      [(true, 8, 0), (true, 2, 0)] := by
  decide

/-- a request `CompletePath` rejects: an origin in the prefix and in the path -/
def reqC : Req := { target := "t", origin := "o", mode := .stream, subs := [{ origin := "x", path := ["a"] }] }

example := stream_initial_origin_conflict (grun id {} histG) "s3" .absent reqC
  ⟨rfl, rfl, by decide, by decide, Or.inr rfl, rfl, trivial⟩ rfl rfl (by decide)

/-- the same request with `updates_only` is **not** rejected (no walk, so `CompletePath` is never
called): the subscriber is alive, registered, and was sent the marker — the case hypothesis `hcp` of
`updates_only_converges_partial` leaves out -/
theorem origin_conflict_updates_only_accepted :
    (grun id {} (histG ++ [.sub "s3" .absent (some reqC), .sub "s4" .absent (some { reqC with updatesOnly := true })])).subs.map
      (fun s => (s.alive, s.status, s.out.length, s.regs.length)) =
      [(true, none, 8, 1), (false, some Code.unknown, 0, 1), (true, none, 1, 1)] := by
  decide

/-- why (b) says "exactly one" only while alive: a send timeout discards the held response; if that
was the marker the (dead) subscriber has none -/
theorem expire_loses_marker :
    (xrun id { cache := {}, pregated := ["u1"] }
        ((histU1 ++ [GOp.sub "u1" .absent (some reqU)]).map XOp.g ++ [.expire])).subs.map
      (fun s => (s.alive, s.status, s.out.length, s.blocked, s.queue.length)) = [(false, some Code.unknown, 0, none, 0)] ∧
    (xrun id { cache := {}, pregated := ["u1"] }
        ((histU1 ++ [GOp.sub "u1" .absent (some reqU)]).map XOp.g)).subs.map
      (fun s => (s.alive, s.out.length, s.blocked, s.queue.length)) = [(true, 0, some Resp.sync, 0)] := by
  refine ⟨by decide, by decide⟩

example := stream_one_sync_all_ops id { cache := {}, pregated := ["u1"] } rfl
  ((histU1 ++ [GOp.sub "u1" .absent (some reqU)]).map XOp.g ++ [.expire])

end C04Sync
end Gnmi
