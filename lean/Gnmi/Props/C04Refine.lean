import Gnmi.Lemmas.SubscribeRefine
import Gnmi.Props.C04Gate
import Gnmi.Props.C04Sync
import Gnmi.Props.C07
import Gnmi.Props.C07L
import Gnmi.Props.C08
/-!
# C04/C05/C07/C08 — the sequential Subscribe model is simulated by the Subscribe LTS

`Model/Subscribe.lean` (SEQ; what the `su` correspondence drives against the real server) and
`Model/SubscribeLTS.lean` (LTS; all interleavings, theorems `C04.converges`, `one_sync`, `C07L`, `C08`)
were tied only by the harness.  Here, for the concrete LTS instance `C06Glue.subSys reqs` (keys =
`(target, index path)`, values = notifications of the cache model, regions = `(target, delete path)`):

* `Refine.StRel` — the simulation relation (cache contents ↦ the LTS store; each SEQ subscriber ↦
  its LTS client: queue contents as handles of the right generation, held response, gate, sent list,
  status; all threads at their quiescent program counters);
* `seq_step_simulated` — every operation of the STREAM / cache-call / flow-control fragment
  (`C04Gate.GOp`: `Subscribe` of a STREAM request, accepted or rejected; any cache API call; gate
  shut / step / open) from related states is one finite **run** of LTS steps (handler `hs…`, walker
  `visit… finish`, writer `W1; W2` per event, sender `next; build; sent`…) ending in related states;
  the responses sent per subscriber are the same, in the same order (`StRel` relates `out` and `sent`
  before and after);
* `seq_reachable_in_lts` — every SEQ state reached by such a history is related to a `Reach`able
  configuration, so every invariant of the LTS holds of it: `seq_one_sync`, `seq_never_sends_denied`,
  `seq_converges` are `C04.one_sync`, `C07L.never_sends_denied`, `C04.converges` transferred;
  `seq_converges_replay` restates the last one on `SubStream.replay` (`view_eq_replay`), where it reads
  exactly like `C04Gate.stream_converges_gate_open`;
* `expire_simulated` — the send timeout `Sub.expire` (every subscriber stalled inside a `Send`, of a
  data response **or of the sync marker**, ends with an error) is the `expire` step of each such client,
  with no side condition: since the repair of D24 (/repo 5c72e29) the LTS arms the timer around the
  `Send` of the sync marker as the code does (`sync_send_expire_agrees`); `XOp` = `GOp` + `expire` is the
  operation type of `seq_step_simulated` and of the histories of `seq_reachable_in_lts`;
* `mode_other_status_agrees` — a request with an unknown mode is rejected by the LTS handler where the
  code rejects it (the mode `switch` at `h4`, after `HasTarget` and the ACL check): `NotFound` for a
  missing target, `InvalidArgument` otherwise, in both models;
* what is NOT simulated, with the reason (`seq_step_simulated_full` is the full statement, false as
  it stands): ONCE / POLL and `poll`/`eof`; histories with suppressed updates (event-driven emulation
  on: `suppressed_update_not_simulated` for the relation as it is — it demands an empty quiet log —,
  `suppressed_update_lts_run` for the LTS run with a quiet write `w1Quiet` that matches the SEQ state);
  and the places where the two models genuinely differ — the `CompletePath` error (SEQ ends
  the RPC with a non-status error, the LTS has no such step) and atomic containers (D25: `offered`
  depends on the notification, the LTS's `wants` on the key only).  Duplicate counts under overlapping
  paths: `overlap_dup_agrees` (the LTS walker may visit a leaf once per matching path).
-/
namespace Gnmi
namespace C04Refine
open Cache Feed SubStream Refine C04Gate
set_option linter.unusedSimpArgs false
set_option linter.unusedVariables false

/-! ## the fragment -/

instance : DecidablePred EvPlain := fun e => by
  cases e <;> unfold EvPlain <;> infer_instance

/-- side conditions of one operation of the simulated fragment, at the state it is applied to.
`reqs` is the static family of requests of the LTS: the `n`-th `Subscribe` call carries `reqs n`. -/
def OpOK (reqs : Nat → Sub.Req × Sub.Acl) (enc : String → String) (st : Sub.State) : GOp → Prop
  | .sub _ acl req => ∃ r, req = some r ∧ reqs st.subs.length = (r, acl) ∧ r.mode = .stream ∧
      (r.updatesOnly = false → ∀ sp ∈ r.subs, (Sub.completePath r sp).isSome = true)
  | .ca op =>
    Feed.Op.ok st.cache op ∧ NoStarOp op ∧
      (∀ e ∈ (st.cache.step enc op).2.2, EvPlain e)
  | _ => True

/-- the simulation relation, with what the cache lemmas of C03 need to keep it -/
structure Sim (reqs : Nat → Sub.Req × Sub.Acl) (st : Sub.State) (c : LCfg) : Prop where
  rel : StRel reqs st c
  sinv : SInv st.cache
  ed : st.cache.cfg.eventDriven = false
  modes : ∀ i, i < st.subs.length → (reqs i).1.mode = .stream
  paths : ∀ i, i < st.subs.length → (reqs i).1.updatesOnly = false →
    ∀ sp ∈ (reqs i).1.subs, (Sub.completePath (reqs i).1 sp).isSome = true

theorem sim_init (reqs : Nat → Sub.Req × Sub.Acl) (cfg : Cfg) (he : cfg.eventDriven = false) (pre : List String) :
    Sim reqs { cache := { cfg := cfg }, pregated := pre } SubLTS.Cfg.init := by
  have hget : ∀ t, ({ cfg := cfg } : Cache.State).get t = none := by intro t; simp [State.get]
  refine ⟨{ vrel := ?_, ok := cacheOK_empty cfg, subs := ⟨?_, ?_⟩ }, SInv.empty cfg, he,
    fun i hi => absurd hi (Nat.not_lt_zero i), fun i hi => absurd hi (Nat.not_lt_zero i)⟩
  · exact { pres := fun t k => by rw [treesOf_none (hget t)]; rfl
            val := fun t k n hn => by rw [treesOf_none (hget t)] at hn; simp [lookup] at hn
            hasT := fun t => by rw [hget]; rfl
            pend := rfl
            keys := fun k hk => by cases hk
            plain := fun t k n hn => by rw [treesOf_none (hget t)] at hn; simp [lookup] at hn
            quiet := rfl }
  · intro i s hi; simp at hi
  · intro i _
    exact ⟨rfl, rfl, rfl, rfl, rfl, rfl, rfl, rfl, rfl, rfl⟩

/-! ## one operation -/

theorem ca_sim (reqs : Nat → Sub.Req × Sub.Acl) (enc : String → String) {st : Sub.State} {c : LCfg}
    (h : Sim reqs st c) (op : Cache.Op) (hok : OpOK reqs enc st (.ca op)) :
    ∃ ls c', SubLTS.fireAll (C06Glue.subSys reqs) c ls = some c' ∧ Sim reqs (gstep enc st (.ca op)) c' := by
  obtain ⟨hv, hns, hplain⟩ := hok
  have htg : ∀ n, Event.upd n ∈ (st.cache.step enc op).2.2 → (st.cache.get n.target).isSome = true :=
    step_events_known enc st.cache op h.sinv h.rel.ok hv
  obtain ⟨hok', hsim⟩ := step_cacheOK enc st.cache op h.sinv h.rel.ok hv hns
  obtain ⟨hgood, hnotd⟩ := step_goodTr enc st.cache op h.sinv h.rel.ok hv hns
  have hsinv := (step_sinv enc st.cache op h.sinv (Feed.Op.ok_valid hv)).1
  have hcfg : (st.cache.step enc op).1.cfg = st.cache.cfg := C14.step_cfg enc st.cache op
  have hcont : ∀ t k, lookup (treesOf (st.cache.step enc op).1 t) k =
      lookup (applySs (treesOf st.cache) (st.cache.step enc op).2.2 t) k :=
    fun t k => (sim_eq h.ed (hsim t k)).symm
  have wrap : ∀ c', StRel reqs (gstep enc st (.ca op)) c' → Sim reqs (gstep enc st (.ca op)) c' := by
    intro c' hrel
    have hlen : (gstep enc st (.ca op)).subs.length = st.subs.length := by
      show (st.subs.map _).length = _
      rw [List.length_map]
    refine ⟨hrel, ?_, ?_, ?_, ?_⟩
    · show SInv (st.cache.step enc op).1
      exact hsinv
    · show (st.cache.step enc op).1.cfg.eventDriven = false
      rw [hcfg]; exact h.ed
    · intro i hi
      rw [hlen] at hi
      exact h.modes i hi
    · intro i hi
      rw [hlen] at hi
      exact h.paths i hi
  cases op with
  | add name =>
    obtain ⟨ls1, c1, hf1, hrel1⟩ := add_sim reqs h.rel name hv.2 hok'
    obtain ⟨ls2, c2, hf2, hrel2⟩ := feed_sim reqs hrel1 (st.cache.add name) [] trivial (fun _ _ => rfl)
      (fun _ => rfl) hok'
    exact ⟨ls1 ++ ls2, c2, fireAll_append hf1 hf2, wrap c2 hrel2⟩
  | remove name now =>
    have hname : name ≠ glob := hns
    obtain ⟨ls, c2, hf, hrel⟩ := feed_sim reqs h.rel (st.cache.remove name now).1 [Event.del name "" [glob] now]
      ⟨hname, (by decide : ("" : String) ≠ glob), trivial⟩ hcont (by
        intro t
        show (State.get { st.cache with targets := st.cache.targets.filter (fun kv => kv.1 != name) } t).isSome = _
        simp only [List.foldl_cons, List.foldl_nil, evH, true_and, if_true]
        unfold State.get
        by_cases ht : t = name
        · subst ht
          rw [get_filter_same, SubLTS.setFn_same]; rfl
        · rw [get_filter_other _ _ _ ht, SubLTS.setFn_other _ _ ht]) hok'
    exact ⟨ls, c2, hf, wrap c2 hrel⟩
  | reset name now =>
    obtain ⟨he1, he2⟩ := evsOK_of_noTD _ _ (fun t => (st.cache.get t).isSome) hgood (hnotd trivial) hplain htg
    obtain ⟨ls, c2, hf, hrel⟩ := feed_sim reqs h.rel _ _ he1 hcont
      (fun t => by rw [he2]; exact step_get_isSome enc st.cache h.rel.ok.names _ t (fun _ e => by cases e) trivial) hok'
    exact ⟨ls, c2, hf, wrap c2 hrel⟩
  | sync name now =>
    obtain ⟨he1, he2⟩ := evsOK_of_noTD _ _ (fun t => (st.cache.get t).isSome) hgood (hnotd trivial) hplain htg
    obtain ⟨ls, c2, hf, hrel⟩ := feed_sim reqs h.rel _ _ he1 hcont
      (fun t => by rw [he2]; exact step_get_isSome enc st.cache h.rel.ok.names _ t (fun _ e => by cases e) trivial) hok'
    exact ⟨ls, c2, hf, wrap c2 hrel⟩
  | connect name now =>
    obtain ⟨he1, he2⟩ := evsOK_of_noTD _ _ (fun t => (st.cache.get t).isSome) hgood (hnotd trivial) hplain htg
    obtain ⟨ls, c2, hf, hrel⟩ := feed_sim reqs h.rel _ _ he1 hcont
      (fun t => by rw [he2]; exact step_get_isSome enc st.cache h.rel.ok.names _ t (fun _ e => by cases e) trivial) hok'
    exact ⟨ls, c2, hf, wrap c2 hrel⟩
  | connectError name msg now =>
    obtain ⟨he1, he2⟩ := evsOK_of_noTD _ _ (fun t => (st.cache.get t).isSome) hgood (hnotd trivial) hplain htg
    obtain ⟨ls, c2, hf, hrel⟩ := feed_sim reqs h.rel _ _ he1 hcont
      (fun t => by rw [he2]; exact step_get_isSome enc st.cache h.rel.ok.names _ t (fun _ e => by cases e) trivial) hok'
    exact ⟨ls, c2, hf, wrap c2 hrel⟩
  | update now' pn n =>
    obtain ⟨he1, he2⟩ := evsOK_of_noTD _ _ (fun t => (st.cache.get t).isSome) hgood (hnotd trivial) hplain htg
    obtain ⟨ls, c2, hf, hrel⟩ := feed_sim reqs h.rel _ _ he1 hcont
      (fun t => by rw [he2]; exact step_get_isSome enc st.cache h.rel.ok.names _ t (fun _ e => by cases e) trivial) hok'
    exact ⟨ls, c2, hf, wrap c2 hrel⟩
  | updateMetadata now =>
    obtain ⟨he1, he2⟩ := evsOK_of_noTD _ _ (fun t => (st.cache.get t).isSome) hgood (hnotd trivial) hplain htg
    obtain ⟨ls, c2, hf, hrel⟩ := feed_sim reqs h.rel _ _ he1 hcont
      (fun t => by rw [he2]; exact step_get_isSome enc st.cache h.rel.ok.names _ t (fun _ e => by cases e) trivial) hok'
    exact ⟨ls, c2, hf, wrap c2 hrel⟩

/-- `seq_step_simulated` for the operations of `C04Gate.GOp` (STREAM + cache calls + flow control) -/
theorem gop_step_simulated (reqs : Nat → Sub.Req × Sub.Acl) (enc : String → String) {st : Sub.State} {c : LCfg}
    (h : Sim reqs st c) (op : GOp) (hok : OpOK reqs enc st op) :
    ∃ ls c', SubLTS.fireAll (C06Glue.subSys reqs) c ls = some c' ∧ Sim reqs (gstep enc st op) c' := by
  cases op with
  | sub id acl req =>
    obtain ⟨r, rfl, hrq, hm, hpaths⟩ := hok
    obtain ⟨ls, c', hf, hrel⟩ := subscribe_sim reqs h.rel id acl r hrq hm hpaths
    obtain ⟨sNew, hsub, _⟩ := subscribe_stream_cases st id acl r hm
    refine ⟨ls, c', hf, hrel, ?_, ?_, ?_, ?_⟩
    · show SInv (Sub.subscribe st id acl (some r)).cache
      rw [hsub]; exact h.sinv
    · show (Sub.subscribe st id acl (some r)).cache.cfg.eventDriven = false
      rw [hsub]; exact h.ed
    · intro i hi
      have hi' : i < (Sub.subscribe st id acl (some r)).subs.length := hi
      rw [hsub] at hi'
      simp only [List.length_append, List.length_cons, List.length_nil] at hi'
      by_cases hlt : i < st.subs.length
      · exact h.modes i hlt
      · have : i = st.subs.length := by omega
        rw [this, hrq]; exact hm
    · intro i hi
      have hi' : i < (Sub.subscribe st id acl (some r)).subs.length := hi
      rw [hsub] at hi'
      simp only [List.length_append, List.length_cons, List.length_nil] at hi'
      by_cases hlt : i < st.subs.length
      · exact h.paths i hlt
      · have : i = st.subs.length := by omega
        rw [this, hrq]; exact hpaths
  | ca o => exact ca_sim reqs enc h o hok
  | gateShut id =>
    obtain ⟨ls, c', hf, hrel⟩ := updateSub_sim reqs h.rel id (SubGate.gateF true)
      (fun rq s b hr => gateF_sim reqs hr true)
    have hlen : (gstep enc st (.gateShut id)).subs.length = st.subs.length := by
      show (st.subs.map _).length = _; rw [List.length_map]
    exact ⟨ls, c', hf, hrel, h.sinv, h.ed, fun i hi => h.modes i (by rw [hlen] at hi; exact hi),
      fun i hi => h.paths i (by rw [hlen] at hi; exact hi)⟩
  | gateOpen id =>
    obtain ⟨ls, c', hf, hrel⟩ := updateSub_sim reqs h.rel id (SubGate.gateF false)
      (fun rq s b hr => gateF_sim reqs hr false)
    have hlen : (gstep enc st (.gateOpen id)).subs.length = st.subs.length := by
      show (st.subs.map _).length = _; rw [List.length_map]
    exact ⟨ls, c', hf, hrel, h.sinv, h.ed, fun i hi => h.modes i (by rw [hlen] at hi; exact hi),
      fun i hi => h.paths i (by rw [hlen] at hi; exact hi)⟩
  | gateStep id =>
    obtain ⟨ls, c', hf, hrel⟩ := updateSub_sim reqs h.rel id SubGate.stepF
      (fun rq s b hr => stepF_sim reqs hr)
    have hlen : (gstep enc st (.gateStep id)).subs.length = st.subs.length := by
      show (st.subs.map _).length = _; rw [List.length_map]
    exact ⟨ls, c', hf, hrel, h.sinv, h.ed, fun i hi => h.modes i (by rw [hlen] at hi; exact hi),
      fun i hi => h.paths i (by rw [hlen] at hi; exact hi)⟩

/-- **`expire_simulated`: the send timeout** (`Sub.expire`).  Every live subscriber stalled inside a
`Send` — of a data response or of the sync marker — ends with a non-OK status: the `expire` step of its
LTS client, whose timer is armed in `sending` and, since the repair of D24, in `sendSync`.  No side
condition. -/
theorem expire_simulated (reqs : Nat → Sub.Req × Sub.Acl) {st : Sub.State} {c : LCfg}
    (h : StRel reqs st c) :
    ∃ ls c', SubLTS.fireAll (C06Glue.subSys reqs) c ls = some c' ∧ StRel reqs (Sub.expire st) c' := by
  obtain ⟨ls, c', hfire, hsh, hs⟩ := subs_local reqs h.subs
    (fun s => if s.alive ∧ s.blocked.isSome then { s with alive := false, status := some .unknown, blocked := none }
      else s) (by
    intro i s hi
    have hrel := h.subs.rel i s hi
    by_cases hc : s.alive = true ∧ s.blocked.isSome = true
    · rw [if_pos hc]
      rcases hrel with hl | hd
      · cases hb : s.blocked with
        | none => rw [hb] at hc; cases hc.2
        | some r =>
          have hsnd := hl.snd
          rw [hb] at hsnd
          have harm : (c.subs i).armed = true := by
            rcases hsnd with ⟨_, _, harm⟩ | ⟨_, _, r', _, harm, _⟩ <;> exact harm
          refine ⟨[.expire], (c.subs i).finish .timeout, ?_, Or.inr ?_⟩
          · simp [runSub, SubLTS.subFire, harm]
          · exact { alive := rfl, acl := hl.acl, blocked := rfl, pc := rfl, snd := rfl, reg := rfl,
                    bclosed := rfl, armed := rfl, status := ⟨.unknown, rfl, rfl⟩, sent := hl.sent }
      · rw [hd.alive] at hc; cases hc.1
    · rw [if_neg hc]
      exact ⟨[], _, rfl, hrel⟩)
  refine ⟨ls, c', hfire, { vrel := by rw [hsh]; exact h.vrel, ok := h.ok, subs := ?_ }⟩
  exact hs

/-- the statement of the former partial theorem (kept under its registered name): `expire_simulated`
with the side condition that is no longer needed -/
theorem expire_simulated_partial (reqs : Nat → Sub.Req × Sub.Acl) {st : Sub.State} {c : LCfg}
    (h : StRel reqs st c) (hns : ∀ s ∈ st.subs, s.alive = true → s.blocked ≠ some .sync) :
    ∃ ls c', SubLTS.fireAll (C06Glue.subSys reqs) c ls = some c' ∧ StRel reqs (Sub.expire st) c' :=
  expire_simulated reqs h

/-! ## the operations simulated: the fragment and the send timeout -/

/-- an operation of a simulated history: one of `C04Gate.GOp` (Subscribe, cache call, flow control)
or the send timeout -/
inductive XOp where
  | g (op : GOp)
  | expire

def xstep (enc : String → String) (st : Sub.State) : XOp → Sub.State
  | .g op => gstep enc st op
  | .expire => Sub.expire st

def xrun (enc : String → String) (st : Sub.State) (h : List XOp) : Sub.State := h.foldl (xstep enc) st

/-- side conditions: those of the fragment; none for the timeout -/
def XOpOK (reqs : Nat → Sub.Req × Sub.Acl) (enc : String → String) (st : Sub.State) : XOp → Prop
  | .g op => OpOK reqs enc st op
  | .expire => True

theorem xrun_map_g (enc : String → String) : ∀ (h : List GOp) (st : Sub.State),
    xrun enc st (h.map .g) = grun enc st h
  | [], _ => rfl
  | op :: h, st => by
    show xrun enc (gstep enc st op) (h.map .g) = grun enc (gstep enc st op) h
    exact xrun_map_g enc h _

/-- **`seq_step_simulated` (STREAM + cache calls + flow control + send timeout).**  Every operation
of the fragment, and the expiry of the send timer, from a SEQ state related to an LTS configuration,
is a finite run of LTS steps ending in a related configuration: same cache contents, same queues (as
handles), same held responses and gates, the same responses sent to every subscriber in the same
order, the same final status of every ended RPC. -/
theorem seq_step_simulated (reqs : Nat → Sub.Req × Sub.Acl) (enc : String → String) {st : Sub.State} {c : LCfg}
    (h : Sim reqs st c) (op : XOp) (hok : XOpOK reqs enc st op) :
    ∃ ls c', SubLTS.fireAll (C06Glue.subSys reqs) c ls = some c' ∧ Sim reqs (xstep enc st op) c' := by
  cases op with
  | g op => exact gop_step_simulated reqs enc h op hok
  | expire =>
    obtain ⟨ls, c', hf, hrel⟩ := expire_simulated reqs h.rel
    have hlen : (xstep enc st .expire).subs.length = st.subs.length := by
      show (st.subs.map _).length = _; rw [List.length_map]
    exact ⟨ls, c', hf, hrel, h.sinv, h.ed, fun i hi => h.modes i (by rw [hlen] at hi; exact hi),
      fun i hi => h.paths i (by rw [hlen] at hi; exact hi)⟩

/-! ## histories -/

/-- the side conditions along a history of `GOp`s -/
def GOkHist (reqs : Nat → Sub.Req × Sub.Acl) (enc : String → String) : Sub.State → List GOp → Prop
  | _, [] => True
  | st, op :: h => OpOK reqs enc st op ∧ GOkHist reqs enc (gstep enc st op) h

/-- the side conditions along a history -/
def OkHist (reqs : Nat → Sub.Req × Sub.Acl) (enc : String → String) : Sub.State → List XOp → Prop
  | _, [] => True
  | st, op :: h => XOpOK reqs enc st op ∧ OkHist reqs enc (xstep enc st op) h

theorem okHist_map_g (reqs : Nat → Sub.Req × Sub.Acl) (enc : String → String) :
    ∀ (h : List GOp) (st : Sub.State), GOkHist reqs enc st h → OkHist reqs enc st (h.map .g)
  | [], _, _ => trivial
  | op :: h, st, hok => ⟨hok.1, okHist_map_g reqs enc h _ hok.2⟩

theorem okHist_append (reqs : Nat → Sub.Req × Sub.Acl) (enc : String → String) :
    ∀ (h1 h2 : List XOp) (st : Sub.State), OkHist reqs enc st h1 → OkHist reqs enc (xrun enc st h1) h2 →
      OkHist reqs enc st (h1 ++ h2)
  | [], _, _, _, h2 => h2
  | op :: h1, h2, st, hk1, hk2 => ⟨hk1.1, okHist_append reqs enc h1 h2 _ hk1.2 hk2⟩

theorem seq_run_simulated (reqs : Nat → Sub.Req × Sub.Acl) (enc : String → String) :
    ∀ (h : List XOp) (st : Sub.State) (c : LCfg), Sim reqs st c → OkHist reqs enc st h →
    ∃ ls c', SubLTS.fireAll (C06Glue.subSys reqs) c ls = some c' ∧ Sim reqs (xrun enc st h) c'
  | [], st, c, hs, _ => ⟨[], c, rfl, hs⟩
  | op :: h, st, c, hs, hok => by
    obtain ⟨ls1, c1, hf1, hs1⟩ := seq_step_simulated reqs enc hs op hok.1
    obtain ⟨ls2, c2, hf2, hs2⟩ := seq_run_simulated reqs enc h _ c1 hs1 hok.2
    exact ⟨ls1 ++ ls2, c2, fireAll_append hf1 hf2, hs2⟩

/-- **`seq_reachable_in_lts`.**  Every state the sequential model reaches by a history of the
fragment and send timeouts (from an empty cache, event-driven emulation off, any pre-gated ids) is related by the
simulation relation to a *reachable* configuration of the LTS — one whose writer pool is empty,
whose walkers are done and whose senders wait in `Next` or inside a gated `Send`. -/
theorem seq_reachable_in_lts (reqs : Nat → Sub.Req × Sub.Acl) (enc : String → String) (cfg : Cfg)
    (he : cfg.eventDriven = false) (pre : List String) (h : List XOp)
    (hok : OkHist reqs enc { cache := { cfg := cfg }, pregated := pre } h) :
    ∃ c : LCfg, SubLTS.Reach (C06Glue.subSys reqs) c ∧
      Sim reqs (xrun enc { cache := { cfg := cfg }, pregated := pre } h) c := by
  obtain ⟨ls, c, hf, hs⟩ := seq_run_simulated reqs enc h _ _ (sim_init reqs cfg he pre) hok
  exact ⟨c, SubLTS.fireAll_reach ls SubLTS.Reach.init hf, hs⟩

/-! ## LTS invariants transferred to the sequential model -/

theorem sentRel_syncs {out : List (Sub.Resp × Bool)} {sent : List LResp} (h : SentRel out sent) :
    (out.map (·.1)).count Sub.Resp.sync = SubLTS.nSync sent := by
  unfold SentRel at h
  have h1 : SubLTS.nSync sent = (sent.map eraseDup).countP SubLTS.Resp.isSync := by
    unfold SubLTS.nSync
    rw [List.countP_map]
    congr 1
    funext r
    cases r <;> rfl
  rw [h1, h.1, List.countP_map, List.count, List.countP_map]
  congr 1
  funext x
  obtain ⟨r, f⟩ := x
  cases r <;> simp [absResp, SubLTS.Resp.isSync]

theorem ltsReq_mode_stream {rq : Sub.Req × Sub.Acl} (h : rq.1.mode = .stream) :
    (C06Glue.ltsReq rq.1 rq.2).mode = .stream := ltsOf_mode rq h

/-- **`C04.one_sync` transferred.**  At every point of every history of the fragment, every SEQ
subscriber was sent at most one sync response; and a live one whose queue is drained, with nothing
held, was sent exactly one.  (`C04Sync.stream_one_sync`, proved directly on SEQ, is stronger: it
also counts the held response and the queue, and needs no side condition on the history.) -/
theorem seq_one_sync (reqs : Nat → Sub.Req × Sub.Acl) (enc : String → String) (cfg : Cfg)
    (he : cfg.eventDriven = false) (pre : List String) (h : List XOp)
    (hok : OkHist reqs enc { cache := { cfg := cfg }, pregated := pre } h) :
    ∀ s ∈ (xrun enc { cache := { cfg := cfg }, pregated := pre } h).subs,
      (s.out.map (·.1)).count Sub.Resp.sync ≤ 1 ∧
      (s.alive = true → s.queue = [] → s.blocked = none → (s.out.map (·.1)).count Sub.Resp.sync = 1) := by
  obtain ⟨c, hreach, hsim⟩ := seq_reachable_in_lts reqs enc cfg he pre h hok
  intro s hs
  obtain ⟨i, hi, hget⟩ := List.getElem_of_mem hs
  have hsi : (xrun enc { cache := { cfg := cfg }, pregated := pre } h).subs[i]? = some s := by
    rw [List.getElem?_eq_getElem hi, hget]
  have hmode : ((C06Glue.subSys reqs).req i).mode = .stream := ltsReq_mode_stream (hsim.modes i hi)
  obtain ⟨h1, _, h3⟩ := C04.one_sync (C06Glue.subSys_swap reqs) hreach i hmode
  rcases hsim.rel.subs.rel i s hsi with hl | hd
  · rw [sentRel_syncs hl.sent]
    refine ⟨h1, ?_⟩
    intro _ hq hb
    have hbq : (c.subs i).q = [] := by
      have := hl.q
      rw [hq] at this
      cases hbq : (c.subs i).q with
      | nil => rfl
      | cons y ys => rw [hbq] at this; exact this.elim
    have hsnd := hl.snd
    rw [hb] at hsnd
    exact h3 hl.bstatus hl.walker hbq hsnd.1
  · rw [sentRel_syncs hd.sent]
    refine ⟨h1, ?_⟩
    intro ha
    rw [hd.alive] at ha; cases ha

/-- **`C07L.never_sends_denied` transferred.**  No response naming a target the caller's ACL denies
was ever sent to any SEQ subscriber.  (Agrees with `C07.never_sends_denied`, which is proved
directly on SEQ for all modes and without side conditions.) -/
theorem seq_never_sends_denied (reqs : Nat → Sub.Req × Sub.Acl) (enc : String → String) (cfg : Cfg)
    (he : cfg.eventDriven = false) (pre : List String) (h : List XOp)
    (hok : OkHist reqs enc { cache := { cfg := cfg }, pregated := pre } h) :
    ∀ s ∈ (xrun enc { cache := { cfg := cfg }, pregated := pre } h).subs,
      ∀ r ∈ s.out, Sub.denied s.acl r.1 = false := by
  obtain ⟨c, hreach, hsim⟩ := seq_reachable_in_lts reqs enc cfg he pre h hok
  intro s hs r hr
  obtain ⟨i, hi, hget⟩ := List.getElem_of_mem hs
  have hsi : (xrun enc { cache := { cfg := cfg }, pregated := pre } h).subs[i]? = some s := by
    rw [List.getElem?_eq_getElem hi, hget]
  have hsent := (C07L.never_sends_denied (C06Glue.subSys_swap reqs) (C06Glue.subSys_wf reqs) hreach i).1
  have hrel : SentRel s.out (c.subs i).sent ∧ s.acl = (reqs i).2 := by
    rcases hsim.rel.subs.rel i s hsi with hl | hd
    · exact ⟨hl.sent, hl.acl⟩
    · exact ⟨hd.sent, hd.acl⟩
  obtain ⟨hsr, hacl⟩ := hrel
  have hmem : absResp r.1 ∈ (c.subs i).sent.map eraseDup := by
    rw [hsr.1]; exact List.mem_map.2 ⟨r, hr, rfl⟩
  obtain ⟨r', hr', her⟩ := List.mem_map.1 hmem
  have hok' := hsent r' hr'
  obtain ⟨rr, f⟩ := r
  cases rr with
  | upd n d =>
    cases r' with
    | upd k v dd =>
      simp only [eraseDup, absResp, SubLTS.Resp.upd.injEq] at her
      have hk : k = (n.target, Sub.eventKey n) := her.1
      subst hk
      have : (reqs i).2.check n.target = true := hok'
      simp [Sub.denied, Sub.respTarget, hacl, this]
    | _ => simp [eraseDup, absResp] at her
  | del t o p ts d =>
    cases r' with
    | rdel g =>
      simp only [eraseDup, absResp, SubLTS.Resp.rdel.injEq] at her
      subst her
      have : (reqs i).2.check t = true := hok'
      simp [Sub.denied, Sub.respTarget, hacl, this]
    | _ => simp [eraseDup, absResp] at her
  | sync => rfl

theorem view_eraseDup (sys : LSys) (k : K) : ∀ (l : List LResp) (cur : Option Noti),
    (l.map eraseDup).foldl (SubLTS.applyResp sys k) cur = l.foldl (SubLTS.applyResp sys k) cur
  | [], _ => rfl
  | r :: l, cur => by
    simp only [List.map_cons, List.foldl_cons]
    have : SubLTS.applyResp sys k cur (eraseDup r) = SubLTS.applyResp sys k cur r := by
      cases r <;> rfl
    rw [this]
    exact view_eraseDup sys k l _

/-- the view of key `(t, k)` replayed from what a SEQ subscriber was sent, by the LTS's replay rule -/
def seqView (reqs : Nat → Sub.Req × Sub.Acl) (t : String) (k : Path) (out : List (Sub.Resp × Bool)) : Option Noti :=
  SubLTS.view (C06Glue.subSys reqs) (t, k) (out.map (fun x => absResp x.1))

/-- `C04.converges` read through the simulation relation: any SEQ state related to a reachable LTS
configuration has it -/
theorem converges_of_rel (reqs : Nat → Sub.Req × Sub.Acl) {st : Sub.State} {c : LCfg}
    (hreach : SubLTS.Reach (C06Glue.subSys reqs) c) (hrel : StRel reqs st c) :
    ∀ s ∈ st.subs, s.alive = true → s.queue = [] → s.blocked = none → s.req.updatesOnly = false →
      ∀ t k, C06Glue.walksOf s.req (t, k) = true → s.acl.check t = true →
        seqView reqs t k s.out = lookup (treesOf st.cache t) k := by
  intro s hs ha hq hb huo t k hw hacl
  obtain ⟨i, hi, hget⟩ := List.getElem_of_mem hs
  have hsi : st.subs[i]? = some s := by rw [List.getElem?_eq_getElem hi, hget]
  rcases hrel.subs.rel i s hsi with hl | hd
  · have hbq : (c.subs i).q = [] := by
      have := hl.q
      rw [hq] at this
      cases hbq : (c.subs i).q with
      | nil => rfl
      | cons y ys => rw [hbq] at this; exact this.elim
    have hsnd := hl.snd
    rw [hb] at hsnd
    have hquiet : C04.Quiescent c i := ⟨hrel.vrel.pend, hl.walker, hbq, hsnd.1⟩
    have hconv := C06Glue.converges_concrete reqs hreach i hquiet hl.reg (by rw [← hl.req]; exact huo) (t, k)
      (by rw [← hl.req]; exact hw) (by rw [← hl.acl]; exact hacl) hrel.vrel.quiet
    have hview : seqView reqs t k s.out = SubLTS.view (C06Glue.subSys reqs) (t, k) (c.subs i).sent := by
      unfold seqView SubLTS.view
      rw [← hl.sent.1]
      exact view_eraseDup _ _ _ _
    rw [hview, hconv]
    unfold SubLTS.Shared.cache
    have hp := hrel.vrel.pres t k
    cases hlk : lookup (treesOf st.cache t) k with
    | none => rw [hlk] at hp; simp [hp]
    | some m =>
      rw [hlk] at hp
      simp only [Option.isSome_some] at hp
      rw [if_pos hp, hrel.vrel.val t k m hlk]
  · rw [hd.alive] at ha; cases ha

/-- **`C04.converges` transferred** (through `C06Glue.converges_concrete`).  At every point of every
history of the fragment, a live STREAM subscriber that asked for the snapshot, whose queue is
drained and whose sender holds nothing, has — replayed from the responses it was sent — exactly the
notification the cache holds (or nothing, if the cache holds nothing) at every allowed key its
subscription paths match.  (`C04Gate.stream_converges_gate_open` proves this directly on SEQ for
`Feed.Sim`, i.e. also with event-driven emulation on, where the equality is up to equal values.) -/
theorem seq_converges (reqs : Nat → Sub.Req × Sub.Acl) (enc : String → String) (cfg : Cfg)
    (he : cfg.eventDriven = false) (pre : List String) (h : List XOp)
    (hok : OkHist reqs enc { cache := { cfg := cfg }, pregated := pre } h) :
    ∀ s ∈ (xrun enc { cache := { cfg := cfg }, pregated := pre } h).subs,
      s.alive = true → s.queue = [] → s.blocked = none → s.req.updatesOnly = false →
      ∀ t k, C06Glue.walksOf s.req (t, k) = true → s.acl.check t = true →
        seqView reqs t k s.out =
          lookup (treesOf (xrun enc { cache := { cfg := cfg }, pregated := pre } h).cache t) k := by
  obtain ⟨c, hreach, hsim⟩ := seq_reachable_in_lts reqs enc cfg he pre h hok
  exact converges_of_rel reqs hreach hsim.rel

/-! ### the same, in the vocabulary of the directly proved SEQ theorems (`SubStream.replay`) -/

/-- On the responses the LTS has counterparts for (plain leaves; deletes of named targets), the LTS's
replay rule (`SubLTS.view` of the abstracted responses) and the replay rule the SEQ theorems of
`C04Seq`/`C04Gate` use (`SubStream.replay`, the Go-side monitor's rule) are the same function. -/
theorem view_eq_replay (reqs : Nat → Sub.Req × Sub.Acl) (t : String) (k : Path) :
    ∀ (out : List (Sub.Resp × Bool)) (W : PMap Noti), (∀ x ∈ out, respOK x.1) →
      (out.map (fun x => absResp x.1)).foldl (SubLTS.applyResp (C06Glue.subSys reqs) (t, k)) (lookup W (t :: k)) =
        lookup (out.foldl (fun v r => applyResp v r.1) W) (t :: k)
  | [], _, _ => rfl
  | x :: out, W, h => by
    simp only [List.map_cons, List.foldl_cons]
    have hx := h x (List.mem_cons_self ..)
    have hstep : SubLTS.applyResp (C06Glue.subSys reqs) (t, k) (lookup W (t :: k)) (absResp x.1) =
        lookup (applyResp W x.1) (t :: k) := by
      rw [lookup_applyResp]
      obtain ⟨r, f⟩ := x
      cases r with
      | upd n d =>
        have hat : n.atomic = false := hx
        simp only [absResp, SubLTS.applyResp, eff, respKey_eq, hat, Bool.false_and, Bool.false_eq_true, if_false]
        by_cases hk : (n.target, Sub.eventKey n) = (t, k)
        · cases hk
          have : evKey n = Sub.eventKey n := rfl
          simp [this]
        · have : ¬ (n.target :: evKey n = t :: k) := by
            intro e
            simp only [List.cons.injEq] at e
            exact hk (by rw [e.1, ← e.2]; rfl)
          simp [hk, this]
      | del te o p ts d =>
        obtain ⟨ho, hte⟩ : o ≠ glob ∧ te ≠ glob := hx
        simp only [absResp, SubLTS.applyResp, eff]
        rw [← coversKey_eq_covers reqs hte o p ts t k]
        rfl
      | sync => rfl
    rw [hstep]
    exact view_eq_replay reqs t k out _ (fun y hy => h y (List.mem_cons_of_mem _ hy))

/-- **`C04.converges` transferred, on SEQ's own replay**: exactly the conclusion of
`C04Gate.stream_converges_gate_open` / `C04Seq.stream_converges_partial` (first clause), with equality
in place of `Feed.Sim` (event-driven emulation is off) — obtained not by the SEQ invariant of
`Lemmas/SubscribeStream.lean` but from the LTS theorem through the simulation. -/
theorem seq_converges_replay (reqs : Nat → Sub.Req × Sub.Acl) (enc : String → String) (cfg : Cfg)
    (he : cfg.eventDriven = false) (pre : List String) (h : List XOp)
    (hok : OkHist reqs enc { cache := { cfg := cfg }, pregated := pre } h) :
    ∀ s ∈ (xrun enc { cache := { cfg := cfg }, pregated := pre } h).subs,
      s.alive = true → s.queue = [] → s.blocked = none → s.req.updatesOnly = false →
      ∀ t k, s.acl.check t = true → s.regs.any (fun q => qmatches q (t :: k)) = true →
        lookup (replay s.out) (t :: k) =
          ((xrun enc { cache := { cfg := cfg }, pregated := pre } h).cache.get t).bind (fun tg => lookup tg.tree k) := by
  obtain ⟨c, hreach, hsim⟩ := seq_reachable_in_lts reqs enc cfg he pre h hok
  intro s hs ha hq hb huo t k hacl hm
  obtain ⟨i, hi, hget⟩ := List.getElem_of_mem hs
  have hsi : (xrun enc { cache := { cfg := cfg }, pregated := pre } h).subs[i]? = some s := by
    rw [List.getElem?_eq_getElem hi, hget]
  rcases hsim.rel.subs.rel i s hsi with hl | hd
  · -- a matched key is walked: the registered query `target :: full` comes from a subscription path
    have hw : C06Glue.walksOf s.req (t, k) = true := by
      rw [hl.regs, ← hl.req] at hm
      obtain ⟨q, hq', hqm⟩ := List.any_eq_true.1 hm
      obtain ⟨sp, hsp, rfl⟩ := (mem_regQueries s.req q).1 hq'
      have hsome : (Sub.completePath s.req sp).isSome = true := by
        have := hsim.paths i hi (by rw [← hl.req]; exact huo) sp (by rw [← hl.req]; exact hsp)
        rw [← hl.req] at this; exact this
      cases hcp : Sub.completePath s.req sp with
      | none => rw [hcp] at hsome; cases hsome
      | some full =>
        rw [completePath_reg s.req sp full hcp, qmatches_reg] at hqm
        unfold C06Glue.walksOf
        simp only [Bool.and_eq_true, Bool.or_eq_true, beq_iff_eq, List.any_eq_true]
        exact ⟨hqm.1, sp, hsp, by rw [hcp]; exact hqm.2⟩
    have := converges_of_rel reqs hreach hsim.rel s hs ha hq hb huo t k hw hacl
    rw [← lookup_treesOf, ← this]
    unfold seqView SubLTS.view replay
    exact (view_eq_replay reqs t k s.out [] hl.sent.2).symm
  · rw [hd.alive] at ha; cases ha

/-! ## what is missing, and where the two models differ -/

/-- The full statement: every operation of the sequential model (`C14Sub`/`C04Sync`'s operations: any
`Subscribe`, cache calls, flow control, poll trigger, half-close, send timeout), with no side
condition, is simulated.  **False as it stands** (`suppressed_update_not_simulated`); proved for the
fragment `XOpOK` (`OpOK` + the send timeout) as `seq_step_simulated`.  Missing: ONCE and POLL requests
(walk with `closed`, `drained`, `poll`, `eof`), `Subscribe` before a request (EOF); and the side
conditions of `OpOK` on cache calls (`Clean` updates, fresh `Add`s, no target
named `*`, no atomic notification, event-driven emulation off, requests whose paths complete). -/
def seq_step_simulated_full : Prop :=
  ∀ (reqs : Nat → Sub.Req × Sub.Acl) (enc : String → String) (st : Sub.State) (c : LCfg) (op : XOp),
    StRel reqs st c → (∀ id acl req, op = .g (.sub id acl req) → ∃ r, req = some r ∧ reqs st.subs.length = (r, acl)) →
    ∃ ls c', SubLTS.fireAll (C06Glue.subSys reqs) c ls = some c' ∧ StRel reqs (xstep (fun x => x) st op) c'

/-! ### (1) a write without an event: the LTS has no run for it -/

def nA (ts : Int) : Noti :=
  { ts := ts, target := "t", praw := "p", upd := [{ path := ["a"], val := .scalar (.int 1), raw := "w" }] }
def reqA : Sub.Req := { target := "t", mode := .stream, subs := [{ path := ["a"] }] }

/-- event-driven emulation on (the default): target added, leaf `a = 1 @1`, a STREAM subscriber, then
`a = 1 @2` — written to the leaf, suppressed from the feed -/
def histE : List GOp :=
  [.ca (.add "t"), .ca (.update 10 false (nA 1)), .sub "s1" .absent (some reqA), .ca (.update 11 false (nA 2))]

/-- after `histE` the subscriber is live and drained, was sent `a @1` and `sync`; the cache holds `a @2` -/
theorem histE_state :
    (grun id {} histE).subs.map (fun s => (s.alive, s.queue.length, s.blocked.isSome, s.out.length)) =
      [(true, 0, false, 2)] ∧
    (grun id {} histE).subs.map (fun s => (seqView (fun _ => (reqA, .absent)) "t" ["a"] s.out).map (·.ts)) = [some 1] ∧
    (lookup (treesOf (grun id {} histE).cache "t") ["a"]).map (·.ts) = some 2 := by
  decide

/-- **Suppressed updates: simulated only through a quiet write.**  The SEQ state after `histE`
(event-driven emulation on: an update that leaves the value unchanged is written to the leaf — newer
timestamp — but not announced; the real server does the same:
`corpus/C04/refine_suppressed_update.ops`) is related by the simulation relation `StRel` — whose
clause `VRel.quiet` says that no quiet write happened — to **no** reachable configuration of the LTS:
without `w1Quiet` every tree write `W1` is followed by its notification `W2` and `C04.converges_exact`
holds.  Hence the hypothesis `eventDriven = false` of `seq_reachable_in_lts`.  The LTS does model the
case since bLTSFIX (`ShLabel.w1Quiet`, `C04.converges` modulo the quiet log): `suppressed_update_lts_run`
below is the run that matches this SEQ state; the general simulation of suppressing histories
(`StRel` without the `quiet` clause, a `w1Quiet` step per suppressed leaf) is not proved. -/
theorem suppressed_update_not_simulated :
    ¬ ∃ c : LCfg, SubLTS.Reach (C06Glue.subSys (fun _ => (reqA, .absent))) c ∧
      StRel (fun _ => (reqA, .absent)) (grun id {} histE) c := by
  rintro ⟨c, hreach, hrel⟩
  have hconv := converges_of_rel _ hreach hrel
  have hex : ∃ s ∈ (grun id {} histE).subs,
      (s.alive && s.queue.isEmpty && s.blocked.isNone && !s.req.updatesOnly &&
        C06Glue.walksOf s.req ("t", ["a"]) && s.acl.check "t") = true ∧
      seqView (fun _ => (reqA, .absent)) "t" ["a"] s.out ≠ lookup (treesOf (grun id {} histE).cache "t") ["a"] := by
    decide
  obtain ⟨s, hs, hc, hne⟩ := hex
  simp only [Bool.and_eq_true, Bool.not_eq_true', List.isEmpty_iff, Option.isNone_iff_eq_none] at hc
  obtain ⟨⟨⟨⟨⟨h1, h2⟩, h3⟩, h4⟩, h5⟩, h6⟩ := hc
  exact hne (hconv s hs h1 h2 h3 h4 "t" ["a"] h5 h6)

/-- what the SEQ cache stores at `t:/a` after a history -/
def storedA (h : List GOp) : Option Noti := lookup (treesOf (grun id {} h).cache "t") ["a"]

/-- the LTS run for `histE`: `Cache.Add`; writer unit `W1; W2` for `a = 1 @1`; the handler of client 0
up to `<-errC`; the walk (one leaf), the sync marker; the sender delivers both; then the **quiet
write** of `a = 1 @2` (stored, not announced) -/
def runE (n1 n2 : Noti) : List GL :=
  [.sh (.tAdd "t"), .sh (.w1Add ("t", ["a"]) n1), .sh (.w2 (.upd ("t", ["a"]) 1))] ++
  List.replicate 7 (.sub 0 .hs) ++
  [.sub 0 (.visit ("t", ["a"])), .sub 0 .finish, .sub 0 .next, .sub 0 .build, .sub 0 .sent,
   .sub 0 .next, .sub 0 .build, .sub 0 .sent, .sh (.w1Quiet ("t", ["a"]) n2)]

/-- **Under event-driven emulation the suppressed update is a quiet write of the LTS** (the positive
counterpart of `suppressed_update_not_simulated`).  With `n1`, `n2` the notifications the SEQ cache
stores at `t:/a` before and after the suppressed update of `histE`, the run `runE n1 n2` is enabled from
the initial configuration; in the configuration reached, client 0 is quiescent and registered, was
sent exactly what the SEQ subscriber was sent (`SentRel`'s equation), the LTS store holds what the SEQ
cache holds at that key, and the ghost log holds the one quiet write `(n1, n2)` — two notifications
of equal value (`Feed.Supp`): `C04.converges` applies (the view `n1` and the cache's `n2` are linked by
the log), `C04.converges_exact` does not. -/
theorem suppressed_update_lts_run :
    ∃ n1 n2 c, storedA (histE.take 2) = some n1 ∧ storedA histE = some n2 ∧ n1 ≠ n2 ∧
      Feed.Supp {} n1 n2 ∧
      SubLTS.fireAll (C06Glue.subSys (fun _ => (reqA, .absent))) (SubLTS.Cfg.init : LCfg) (runE n1 n2) = some c ∧
      C04.Quiescent c 0 ∧ (c.subs 0).registered = true ∧
      (∀ s ∈ (grun id {} histE).subs, (c.subs 0).sent.map eraseDup = s.out.map (fun x => absResp x.1)) ∧
      c.sh.cache ("t", ["a"]) = storedA histE ∧ c.sh.qlog = [(n1, n2)] ∧
      SubLTS.view (C06Glue.subSys (fun _ => (reqA, .absent))) ("t", ["a"]) (c.subs 0).sent = some n1 := by
  have hdec : (match storedA (histE.take 2), storedA histE with
      | some n1, some n2 =>
        decide (n1 ≠ n2) && (({} : Cfg).eventDriven && !n1.atomic && !n2.atomic &&
          valueEqual (headVal n1) (headVal n2)) &&
        (match SubLTS.fireAll (C06Glue.subSys (fun _ => (reqA, .absent))) (SubLTS.Cfg.init : LCfg) (runE n1 n2) with
         | some c =>
           decide (c.sh.pend = []) && decide ((c.subs 0).walker = .done) && decide ((c.subs 0).q = []) &&
           decide ((c.subs 0).snd = .idle) && (c.subs 0).registered &&
           (grun id {} histE).subs.all (fun s => decide ((c.subs 0).sent.map eraseDup = s.out.map (fun x => absResp x.1))) &&
           decide (c.sh.cache ("t", ["a"]) = storedA histE) && decide (c.sh.qlog = [(n1, n2)]) &&
           decide (SubLTS.view (C06Glue.subSys (fun _ => (reqA, .absent))) ("t", ["a"]) (c.subs 0).sent = some n1)
         | none => false)
      | _, _ => false) = true := by decide
  cases h1 : storedA (histE.take 2) with
  | none => rw [h1] at hdec; simp at hdec
  | some n1 =>
    cases h2 : storedA histE with
    | none => rw [h1, h2] at hdec; simp at hdec
    | some n2 =>
      rw [h1, h2] at hdec
      simp only [Bool.and_eq_true, decide_eq_true_eq] at hdec
      obtain ⟨⟨hne, hsupp⟩, hrun⟩ := hdec
      have hsupp' : Feed.Supp {} n1 n2 := by
        simp only [Bool.and_eq_true, Bool.not_eq_true'] at hsupp
        exact ⟨rfl, hsupp.1.1.2, hsupp.1.2, hsupp.2⟩
      cases hc : SubLTS.fireAll (C06Glue.subSys (fun _ => (reqA, .absent))) (SubLTS.Cfg.init : LCfg) (runE n1 n2) with
      | none => rw [hc] at hrun; simp at hrun
      | some c =>
        rw [hc] at hrun
        simp only [Bool.and_eq_true, decide_eq_true_eq, List.all_eq_true] at hrun
        obtain ⟨⟨⟨⟨⟨⟨⟨⟨q1, q2⟩, q3⟩, q4⟩, q5⟩, q6⟩, q7⟩, q8⟩, q9⟩ := hrun
        exact ⟨n1, n2, c, rfl, rfl, hne, hsupp', hc, ⟨q1, q2, q3, q4⟩, q5, q6, q7, q8, q9⟩

/-! ### (2) duplicate counts when one request holds overlapping paths -/

def nB : Noti :=
  { ts := 1, target := "t", praw := "p", upd := [{ path := ["a", "b"], val := .scalar (.int 1), raw := "w" }] }
/-- two overlapping paths: `a` and `a/b` -/
def reqD : Sub.Req := { target := "t", mode := .stream, subs := [{ path := ["a"] }, { path := ["a", "b"] }] }
def histD : List GOp := [.ca (.add "t"), .ca (.update 10 false nB), .sub "s1" .absent (some reqD)]

/-- the LTS run for `histD`: `Cache.Add`; writer unit `W1; W2` for the leaf `a/b`; the handler of client 0 up
to `<-errC`; the walk visits the leaf **twice** — once for the path `a`, once for the path `a/b` —, the sync
marker; the sender delivers both -/
def runD (n : Noti) : List GL :=
  [.sh (.tAdd "t"), .sh (.w1Add ("t", ["a", "b"]) n), .sh (.w2 (.upd ("t", ["a", "b"]) 1))] ++
  List.replicate 7 (.sub 0 .hs) ++
  [.sub 0 (.visit ("t", ["a", "b"])), .sub 0 (.visit ("t", ["a", "b"])), .sub 0 .finish,
   .sub 0 .next, .sub 0 .build, .sub 0 .sent, .sub 0 .next, .sub 0 .build, .sub 0 .sent]

/-- **The two models agree on the duplicate count of a leaf under overlapping paths** (formerly
`overlap_dup_differs`: the LTS walker could visit a key once per walk only, so its client was sent the
update with `duplicates = 0`).  `processSubscription` runs one `Cache.Query` per subscription path and
`Insert`s every leaf each returns: with the overlapping paths `a` and `a/b` the leaf `a/b` is inserted
twice, and SEQ sends it once with `duplicates = 1` (the real server does the same:
`corpus/C04/refine_overlap_dups.ops`).  The LTS walker may now visit a key once per matching path
(`Req.extra` = the number of *further* matching paths; `C06Glue.extraOf` for actual requests): the run
`runD` is enabled and its client is sent the update with `duplicates = 1`, then the sync — and a visit
beyond the number of matching paths is disabled (`SubLTS.visit_beyond_extra`).  (`Refine.QRel` / `SentRel` still relate queues and
responses up to duplicate counts: the LTS allows one visit per matching path, it does not force it.) -/
theorem overlap_dup_agrees :
    (grun id { cache := { cfg := { eventDriven := false } } } histD).subs.map
        (fun s => s.out.map (fun r => match r.1 with
          | .upd n d => (some n.ts, d)
          | _ => (none, 0))) = [[(some 1, 1), (none, 0)]] ∧
    (SubLTS.fireAll (C06Glue.subSys (fun _ => (reqD, .absent))) (SubLTS.Cfg.init : LCfg) (runD nB)).map
        (fun c => (c.subs 0).sent) = some [.upd ("t", ["a", "b"]) nB 1, .sync] := by
  exact ⟨by decide, by decide⟩

/-! ## two former differences, repaired in the LTS -/

/-! ### (3) the mode `switch` comes after `HasTarget` and the ACL check -/

/-- the LTS handler run on a fresh client: `n` handler statements -/
def hsRun (reqs : Nat → Sub.Req × Sub.Acl) (c : LCfg) (n : Nat) : Option LCfg :=
  SubLTS.fireAll (C06Glue.subSys reqs) c (List.replicate n (.sub 0 .hs))

/-- **The two models agree on a request with an unknown mode** (formerly `mode_other_status_differs`:
the glue folded the mode test into `valid`, so the LTS client ended `invalid` at `h1`).
`Server.Subscribe` tests the mode in the `switch` that spawns the goroutines — after the validation
of the request, `HasTarget` and the single-target ACL check — and so does the LTS handler now (`h4`:
`Mode.other` ends the RPC `invalid`; `FinWhy.badMode`).  For a target the cache does not hold both
answer `NotFound` (SEQ; LTS: `valid`, then three handler statements end in `notFound`); for a target
it holds both answer `InvalidArgument` (LTS: five statements, ending at the mode switch), with
nothing registered, walked, queued or sent. -/
theorem mode_other_status_agrees :
    (Sub.subscribe {} "s" .absent (some { target := "t", mode := .other })).subs.map (·.status) =
      [some .notFound] ∧
    (C06Glue.ltsReq { target := "t", mode := .other } .absent).valid = true ∧
    (C06Glue.ltsReq { target := "t", mode := .other } .absent).mode = .other ∧
    ((hsRun (fun _ => ({ target := "t", mode := .other }, .absent)) (SubLTS.Cfg.init : LCfg) 3).map
      (fun c => ((c.subs 0).status, (c.subs 0).pc))) = some (some .notFound, .fin) ∧
    (Sub.subscribe (gstep id {} (.ca (.add "t"))) "s" .absent (some { target := "t", mode := .other })).subs.map
      (·.status) = [some .invalidArgument] ∧
    ((SubLTS.fireAll (C06Glue.subSys (fun _ => ({ target := "t", mode := .other }, .absent))) (SubLTS.Cfg.init : LCfg)
        (.sh (.tAdd "t") :: List.replicate 5 (.sub 0 .hs))).map
      (fun c => ((c.subs 0).status, (c.subs 0).pc, (c.subs 0).registered, (c.subs 0).q.length,
        (c.subs 0).sent.length))) = some (some .invalid, .fin, false, 0, 0) := by
  refine ⟨by decide, by decide, by decide, by decide, by decide, by decide⟩

/-- in every state of the LTS, for every request: the handler at the mode switch with an unknown mode
ends the RPC with `InvalidArgument` — and that is the only way an RPC that passed the validation of
`h1` ends `invalid` -/
theorem mode_other_rejected_at_switch (sys : LSys) (rq : LReq) (sh : LShared) (b : LSub)
    (hpc : b.pc = .h4) (hm : rq.mode = .other) :
    SubLTS.subFire sys rq sh b .hs = some (b.finish .invalid) := by
  simp [SubLTS.subFire, SubLTS.hFire, hpc, hm]

/-! ### (4) the send timeout while the sync marker is held -/

/-- a stream that starts with flow control shut on an empty target: the sender stops inside the
`Send` of the sync marker -/
def histS : List GOp := [.ca (.add "t"), .sub "s1" .absent (some reqA)]

/-- **The two models agree on the timeout of a stalled sync marker** (formerly
`sync_send_expire_differs`: the LTS was stale with respect to the repaired defect D24).  Since commit
5c72e29 of /repo the send timer is armed around `stream.Send(subscribeSync)` too; SEQ's `Sub.expire`
ends a subscriber whose held response is the sync marker (`corpus/C08/d24_sync_send_timeout.ops` runs
this on the real server); and in the LTS `build` of the sync marker arms the timer, so in every
reachable configuration a client stalled in `sendSync` can `expire`, ending with `timeout`
(`C08.stalled_send_terminates` covers the marker; `expire_simulated` needs no side condition). -/
theorem sync_send_expire_agrees :
    (grun id { pregated := ["s1"] } histS).subs.map (fun s => (s.alive, s.blocked)) = [(true, some .sync)] ∧
    (Sub.expire (grun id { pregated := ["s1"] } histS)).subs.map (fun s => (s.alive, s.status)) =
      [(false, some .unknown)] ∧
    ∀ (reqs : Nat → Sub.Req × Sub.Acl) (c : LCfg), SubLTS.Reach (C06Glue.subSys reqs) c → ∀ i,
      (c.subs i).snd = .sendSync →
      SubLTS.subFire (C06Glue.subSys reqs) ((C06Glue.subSys reqs).req i) c.sh (c.subs i) .expire =
        some ((c.subs i).finish .timeout) := by
  refine ⟨by decide, by decide, ?_⟩
  intro reqs c hreach i hs
  have harm := (C08.timer_armed_only_in_send (C06Glue.subSys_swap reqs) (C06Glue.subSys_wf reqs) hreach i).2
    (Or.inl hs)
  simp [SubLTS.subFire, harm]

/-! ## Non-vacuity: `C04Gate.histG` (snapshot, gate shut, coalesced writes, `gateStep`, a delete,
`gateOpen`) is a history of the fragment -/

def reqsG : Nat → Sub.Req × Sub.Acl := fun _ => (C04Gate.reqS, .absent)
def cfgX : Cfg := { eventDriven := false }

theorem histG_gokHist : GOkHist reqsG id { cache := { cfg := cfgX }, pregated := [] } histG := by
  have one : ∀ (c : Cache.State) (now ts i : Int) (r : String) (p : Path), glob ∉ p → p.head? ≠ some "" →
      Feed.Op.ok c (.update now false
        { ts := ts, target := "t", praw := "p", upd := [{ path := p, val := .scalar (.int i), raw := r }] }) := by
    intro c now ts i r p h1 h2 u hu
    simp only [List.mem_cons, List.not_mem_nil, or_false] at hu
    subst hu
    exact ⟨h1, Or.inr rfl, h2⟩
  refine ⟨⟨⟨by decide, rfl⟩, (by show _ ≠ _; decide), by decide⟩,
    ⟨?_, trivial, by decide⟩,
    ⟨C04Gate.reqS, rfl, rfl, rfl, fun _ => by decide⟩,
    trivial,
    ⟨one _ 11 2 2 "w2" _ (by decide) (by decide), trivial, by decide⟩,
    ⟨one _ 12 3 3 "w3" _ (by decide) (by decide), trivial, by decide⟩,
    ⟨one _ 13 4 4 "w4" _ (by decide) (by decide), trivial, by decide⟩,
    ⟨one _ 14 5 2 "c2" _ (by decide) (by decide), trivial, by decide⟩,
    trivial,
    ⟨one _ 15 6 5 "w5" _ (by decide) (by decide), trivial, by decide⟩,
    ⟨(fun u hu => by cases hu), trivial, by decide⟩,
    trivial, trivial⟩
  intro u hu
  simp only [List.mem_cons, List.not_mem_nil, or_false] at hu
  rcases hu with rfl | rfl <;> exact ⟨by decide, Or.inr rfl, by decide⟩

theorem histG_okHist : OkHist reqsG id { cache := { cfg := cfgX }, pregated := [] } (histG.map .g) :=
  okHist_map_g reqsG id histG _ histG_gokHist

/-- the run is not trivial: 8 responses were sent (snapshot of two leaves, `sync`, the stale held
`w2`, the coalesced `w4` with one duplicate, `w5`, the re-read `c2`, the delete), nothing is left -/
theorem histG_run :
    (xrun id { cache := { cfg := cfgX }, pregated := [] } (histG.map .g)).subs.map
      (fun s => (s.alive, s.gateShut, s.out.length, s.queue.length, s.blocked.isSome)) =
      [(true, false, 8, 0, false)] := by
  rw [xrun_map_g]
  decide

/-- the theorems instantiated at the example -/
example := seq_reachable_in_lts reqsG id cfgX rfl [] (histG.map .g) histG_okHist
example := seq_one_sync reqsG id cfgX rfl [] (histG.map .g) histG_okHist
example := seq_never_sends_denied reqsG id cfgX rfl [] (histG.map .g) histG_okHist
example := seq_converges reqsG id cfgX rfl [] (histG.map .g) histG_okHist
example := seq_converges_replay reqsG id cfgX rfl [] (histG.map .g) histG_okHist

/-! ### a history with the send timeout: the client never reads, the sync marker stalls, the timer fires -/

def reqsA : Nat → Sub.Req × Sub.Acl := fun _ => (reqA, .absent)

/-- target added; a STREAM subscriber `s1` whose client never reads (pre-gated) on the still empty
target: its sender stalls in the `Send` of the **sync marker**; the timeout ends it.  Then one leaf is
written and a second pre-gated subscriber `s2` stalls in the `Send` of the first data response of its
snapshot; the timeout ends it too -/
def histX : List XOp :=
  [.g (.ca (.add "t")), .g (.sub "s1" .absent (some reqA)), .expire,
   .g (.ca (.update 10 false (nA 1))), .g (.sub "s2" .absent (some reqA)), .expire]

theorem histX_okHist : OkHist reqsA id { cache := { cfg := cfgX }, pregated := ["s1", "s2"] } histX := by
  refine ⟨⟨⟨by decide, rfl⟩, (by show _ ≠ _; decide), by decide⟩,
    ⟨reqA, rfl, rfl, rfl, fun _ => by decide⟩,
    trivial,
    ⟨?_, trivial, by decide⟩,
    ⟨reqA, rfl, rfl, rfl, fun _ => by decide⟩,
    trivial, trivial⟩
  intro u hu
  simp only [nA, List.mem_cons, List.not_mem_nil, or_false] at hu
  subst hu
  exact ⟨by decide, Or.inr rfl, by decide⟩

/-- before the first timeout `s1` is stalled in the `Send` of the sync marker, before the second `s2`
in the `Send` of a data response; both end with the error status, nothing was sent -/
theorem histX_run :
    (xrun id { cache := { cfg := cfgX }, pregated := ["s1", "s2"] } (histX.take 2)).subs.map
      (fun s => (s.alive, s.blocked)) = [(true, some .sync)] ∧
    ((xrun id { cache := { cfg := cfgX }, pregated := ["s1", "s2"] } (histX.take 5)).subs.map
      (fun s => (s.alive, s.blocked.isSome, s.blocked == some .sync))) = [(false, false, false), (true, true, false)] ∧
    (xrun id { cache := { cfg := cfgX }, pregated := ["s1", "s2"] } histX).subs.map
      (fun s => (s.alive, s.status, s.out.length)) = [(false, some .unknown, 0), (false, some .unknown, 0)] := by
  decide

example := seq_reachable_in_lts reqsA id cfgX rfl ["s1", "s2"] histX histX_okHist
example := seq_one_sync reqsA id cfgX rfl ["s1", "s2"] histX histX_okHist

end C04Refine
end Gnmi
