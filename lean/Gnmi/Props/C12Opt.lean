import Gnmi.Model.ManagerOpt
/-!
# C12 — the manager's receive loop with any subset of its optional callbacks

`manager.Config` may leave `Connect`, `Sync`, `Update` and `Reset` nil in any combination.  Over
`Model/ManagerOpt.lean`:

* `opt_session_total`: for every mask and every stream of responses gRPC can deliver (no nil
  message), the session of `handleUpdates` never panics and never stops early — it ends with the
  list of callbacks invoked.
* `opt_session_filter`: that list is the fully configured session's list with the absent
  callbacks left out — an absent callback is skipped, nothing else changes (in particular the
  other callbacks of the same response still run, and the loop reads on).
* `full_session_shape`: the fully configured session is `connect` (iff a response arrived), then
  one `update` / `sync` per update / sync response, then `reset`.
* `unguarded_*_panics`: each of the four nil checks is necessary — decided witnesses of a panic
  when one call site is left unguarded and its callback is absent.
-/
namespace Gnmi.C12Opt
open Gnmi.RX Gnmi.MgrOpt

variable {F D : Type}

theorem target_ok (r : Response F D) (h : r ≠ .nilMsg) : ∃ t, target r = .ok t := by
  cases r with
  | nilMsg => exact absurd rfl h
  | unset => exact ⟨none, rfl⟩
  | update n => exact ⟨some .update, rfl⟩
  | sync b => exact ⟨some .sync, rfl⟩
  | error p => exact ⟨none, rfl⟩

theorem site_guarded (m : Mask) (c : Cb) : site true m c = .ok (if m.has c then [c] else []) := by
  unfold site; split <;> simp

/-- the loop with every site guarded: what it returns, for either value of `connected` -/
theorem optLoop_guarded (m : Mask) (rs : List (Response F D)) (hr : ∀ r ∈ rs, r ≠ .nilMsg) (conn : Bool) :
    ∃ l, optLoop (fun _ => true) m conn rs = .ok (l.filter m.has) ∧
         optLoop (fun _ => true) Mask.all conn rs = .ok l := by
  induction rs generalizing conn with
  | nil =>
    refine ⟨[.reset], ?_, ?_⟩
    · simp only [optLoop, site_guarded, List.filter]; cases m.has .reset <;> rfl
    · rfl
  | cons r rest ih =>
    obtain ⟨t, ht⟩ := target_ok r (hr r (by simp))
    obtain ⟨l, hl, hla⟩ := ih (fun x hx => hr x (by simp [hx])) true
    cases conn with
    | true =>
      cases t with
      | none =>
        refine ⟨l, ?_, ?_⟩
        · simp only [optLoop, ht, hl, if_true, List.nil_append]
        · simp only [optLoop, ht, hla, if_true, List.nil_append]
      | some cb =>
        refine ⟨cb :: l, ?_, ?_⟩
        · simp only [optLoop, ht, hl, if_true, site_guarded, List.nil_append, List.filter]
          cases m.has cb <;> rfl
        · simp only [optLoop, ht, hla, if_true, site_guarded, List.nil_append]
          cases cb <;> rfl
    | false =>
      cases t with
      | none =>
        refine ⟨.connect :: l, ?_, ?_⟩
        · simp only [optLoop, ht, hl, site_guarded, List.filter, Bool.false_eq_true, if_false, List.append_nil]
          cases m.has .connect <;> rfl
        · simp only [optLoop, ht, hla, site_guarded, Bool.false_eq_true, if_false, List.append_nil]
          rfl
      | some cb =>
        refine ⟨.connect :: cb :: l, ?_, ?_⟩
        · simp only [optLoop, ht, hl, site_guarded, List.filter, Bool.false_eq_true, if_false]
          cases m.has .connect <;> cases m.has cb <;> rfl
        · simp only [optLoop, ht, hla, site_guarded, Bool.false_eq_true, if_false]
          cases cb <;> rfl

/-- **C12 (manager, optional callbacks).** Whatever subset of the callbacks is configured and
whatever the peer sends, the receive loop runs to the end of the stream: no panic, no early stop. -/
theorem opt_session_total (m : Mask) (rs : List (Response F D)) (hr : ∀ r ∈ rs, r ≠ .nilMsg) :
    ∃ l, optSession m rs = .ok l := by
  obtain ⟨l, h, _⟩ := optLoop_guarded m rs hr false
  exact ⟨_, h⟩

/-- every wire-valid response is one gRPC can deliver -/
theorem wireValid_not_nil (r : Response F D) (h : r.wireValid = true) : r ≠ .nilMsg := by
  intro e; subst e; simp [Response.wireValid] at h

theorem opt_session_total_wire (m : Mask) (rs : List (Response F D)) (hr : ∀ r ∈ rs, r.wireValid = true) :
    ∃ l, optSession m rs = .ok l :=
  opt_session_total m rs (fun r h => wireValid_not_nil r (hr r h))

/-- an absent callback is skipped and nothing else changes -/
theorem opt_session_filter (m : Mask) (rs : List (Response F D)) (hr : ∀ r ∈ rs, r ≠ .nilMsg) :
    ∃ l, optSession Mask.all rs = .ok l ∧ optSession m rs = .ok (l.filter m.has) := by
  obtain ⟨l, h, ha⟩ := optLoop_guarded m rs hr false
  exact ⟨l, ha, h⟩

/-- the callback a response reaches, as a list -/
def reach (r : Response F D) : List Cb :=
  match target r with
  | .ok (some cb) => [cb]
  | _ => []

theorem optLoop_all_shape (rs : List (Response F D)) (hr : ∀ r ∈ rs, r ≠ .nilMsg) (conn : Bool) :
    optLoop (fun _ => true) Mask.all conn rs =
      .ok ((if conn || rs.isEmpty then [] else [Cb.connect]) ++ rs.flatMap reach ++ [.reset]) := by
  induction rs generalizing conn with
  | nil => cases conn <;> rfl
  | cons r rest ih =>
    obtain ⟨t, ht⟩ := target_ok r (hr r (by simp))
    have := ih (fun x hx => hr x (by simp [hx])) true
    simp only [Bool.true_or, if_true, List.nil_append, Mask.all] at this
    cases conn <;> cases t with
    | none => simp [optLoop, ht, this, site_guarded, reach, Mask.all, Mask.has]
    | some cb => cases cb <;> simp [optLoop, ht, this, site_guarded, reach, Mask.all, Mask.has]

/-- the fully configured session: `connect` iff a response arrived, one callback per update / sync
response in order, `reset` at the end -/
theorem full_session_shape (rs : List (Response F D)) (hr : ∀ r ∈ rs, r ≠ .nilMsg) :
    optSession Mask.all rs =
      .ok ((if rs.isEmpty then [] else [Cb.connect]) ++ rs.flatMap reach ++ [.reset]) := by
  have := optLoop_all_shape rs hr false
  simpa [optSession] using this

/-! ### each nil check is necessary (decided witnesses) -/

def guardsBut (c : Cb) : Cb → Bool := fun x => x != c

theorem unguarded_sync_panics :
    optLoop (F := Unit) (D := Unit) (guardsBut .sync) ⟨true, false, true, true⟩ false [.sync true] = .panic := by
  decide

theorem unguarded_update_panics :
    optLoop (F := Unit) (D := Unit) (guardsBut .update) ⟨true, true, false, true⟩ false [.update none] = .panic := by
  decide

theorem unguarded_connect_panics :
    optLoop (F := Unit) (D := Unit) (guardsBut .connect) ⟨false, true, true, true⟩ false [.sync true] = .panic := by
  decide

theorem unguarded_reset_panics :
    optLoop (F := Unit) (D := Unit) (guardsBut .reset) ⟨true, true, true, false⟩ false [] = .panic := by
  decide

/-- non-vacuity: a session with only `Update` configured -/
example : optSession (F := Unit) (D := Unit) ⟨false, false, true, false⟩
    [.sync true, .update none, .error true, .unset, .update none] = .ok [.update, .update] := by decide

end Gnmi.C12Opt
