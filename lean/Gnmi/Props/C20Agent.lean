import Gnmi.Model.FakeAgent
import Gnmi.Props.C20More
import Gnmi.Props.C20Fixed
/-!
# C20 — what a subscriber of the fake agent receives

Model: `Gnmi/Model/FakeAgent.lean` (`Client.Run` / `reset` / `processQueue` / `send`,
`Agent.Subscribe`), on top of the existing queue models `FQ` (`UpdateQueue`, `valToResp`) and
`FXQ` (`FixedQueue`); tied to the real agent by the `fa` correspondence component
(`go/vcorr/fa.go`, `lean/Driver/FA.lean`: in-process `Agent.Subscribe` and loopback gRPC).

The theorems of `Props/C20.lean` / `C20More.lean` speak about `emits n u`, what `n` calls of
`UpdateQueue.Next` return.  Here they are carried over to the stream of `SubscribeResponse`s:

* `valToResp_faithful`, `valToResp_ok_iff` — path, timestamp, value and kind of a response are
  those of the value; deletes become deletes, sync values sync responses; the conversion fails
  exactly for a value without a kind.
* `stream_is_emits_general`, `stream_is_emits` — the responses sent by one pass of `processQueue`
  are the emissions `emits n u` converted by `valToResp` (and stamped with the requested target),
  in order: all of them when no configured value lacks a kind, else up to the first such value.
  Corollaries: `stream_transfer`, `stream_nondecreasing`, `stream_length`, `stream_repeat_count`,
  `stream_delta_bounds`.
* `eof_iff`, `held_iff`, `stream_end_cases`, `unbounded_never_ends`, `error_looks_like_eof` — how
  the stream ends.
* `sync_after_firsts_stream`, `sync_exactly_once_at_end`, `no_sync_when_disabled`.
* `fixed_stream_verbatim`, `generator_selection` — the `fixed` generator.
* `subscribe_always_served`, `rejected_iff`, `target_only_stamps`, `unknown_target_not_rejected`
  (the agent never rejects an unknown target), `second_subscriber_same_stream`.
* `poll_replays`, `poll_held_when_disable_eof`, `polls_ignored_outside_poll_mode`.
* `same_seed_same_stream` — the stream depends on `rand.NewSource` only through the seeds written
  in the configuration.
-/
namespace Gnmi
namespace C20
open FQ FA

variable {D β : Type} [DOps D] [LawfulDOps D]

/-! ## `valToResp` -/

omit [DOps D] [LawfulDOps D] in
/-- **valToResp_faithful.**  A successful conversion keeps path and timestamp; the value kind
decides the response kind: a delete value becomes a delete of its path, a sync value a sync
response (`true` iff the counter is positive), every other value an update of its path with the
typed value of the same kind and content. -/
theorem valToResp_faithful (pv : PVal D) (r : Resp D) (h : valToResp pv = .ok r) :
    (pv.kind = .delete → ∃ t, pv.ts = some t ∧ r = .delete t.ts pv.path) ∧
    (∀ k, pv.kind = .sync k → r = .sync (decide (k > 0))) ∧
    (∀ v d, pv.kind = .int v d → ∃ t, pv.ts = some t ∧ r = .update t.ts pv.path (.int v)) ∧
    (∀ v d, pv.kind = .double v d → ∃ t, pv.ts = some t ∧ r = .update t.ts pv.path (.double v)) ∧
    (∀ v d, pv.kind = .str v d → ∃ t, pv.ts = some t ∧ r = .update t.ts pv.path (.str v)) ∧
    (∀ v d, pv.kind = .strList v d → ∃ t, pv.ts = some t ∧ r = .update t.ts pv.path (.leaflist v)) ∧
    (∀ v d, pv.kind = .bool v d → ∃ t, pv.ts = some t ∧ r = .update t.ts pv.path (.bool v)) ∧
    (∀ v d, pv.kind = .uint v d → ∃ t, pv.ts = some t ∧ r = .update t.ts pv.path (.uint v)) ∧
    pv.kind ≠ .unset := by
  unfold valToResp at h
  cases hk : pv.kind <;> rw [hk] at h <;> cases hts : pv.ts <;> rw [hts] at h <;>
    simp only [typedValueOf, reduceCtorEq] at h <;>
    (try cases h) <;> simp <;> (intros; simp_all)

omit [DOps D] [LawfulDOps D] in
/-- the conversion succeeds exactly for values with a kind and — except sync values, whose
timestamp is not read — a non-nil timestamp (which `addValue` guarantees for queued values) -/
theorem valToResp_ok_iff (pv : PVal D) :
    (∃ r, valToResp pv = .ok r) ↔ pv.kind ≠ .unset ∧ (pv.ts.isSome = true ∨ ∃ k, pv.kind = .sync k) := by
  unfold valToResp
  cases hk : pv.kind <;> cases hts : pv.ts <;> simp [typedValueOf]

/-- the response is a sync response -/
def _root_.Gnmi.FA.Wire.isSync : Wire D β → Bool
  | .sync _ => true
  | _ => false

/-- the timestamp a response carries (sync responses carry none) -/
def _root_.Gnmi.FA.Wire.ts? : Wire D β → Option Int
  | .noti ts _ _ => some ts
  | _ => none

/-- the path of the single update / delete of a response built by `valToResp` -/
def _root_.Gnmi.FA.Wire.path? : Wire D β → Option (List String)
  | .noti _ _ (.update p _) => some p
  | .noti _ _ (.delete p) => some p
  | _ => none

/-- the target in the prefix of a response -/
def _root_.Gnmi.FA.Wire.target? : Wire D β → Option String
  | .noti _ (some p) _ => some p.target
  | _ => none

/-- the response a subscriber with subscription `s` receives for the emitted value `pv` -/
def wireOf (s : SubList) (pv : PVal D) : Wire D β :=
  match valToResp pv with
  | .ok r => stamp s (ofResp r)
  | _ => .unset

def conv (pv : PVal D) : Bool :=
  match valToResp pv with
  | .ok _ => true
  | _ => false

omit [DOps D] [LawfulDOps D] in
theorem stamp_isSync (s : SubList) (w : Wire D β) : (stamp s w).isSync = w.isSync := by
  unfold stamp
  cases s.stampTarget <;> cases w <;> rfl

omit [DOps D] [LawfulDOps D] in
theorem stamp_ts (s : SubList) (w : Wire D β) : (stamp s w).ts? = w.ts? := by
  unfold stamp
  cases s.stampTarget <;> cases w <;> rfl

omit [DOps D] [LawfulDOps D] in
theorem stamp_path (s : SubList) (w : Wire D β) : (stamp s w).path? = w.path? := by
  unfold stamp
  cases s.stampTarget <;> cases w with
    | noti ts p b => cases b <;> rfl
    | _ => rfl

omit [DOps D] [LawfulDOps D] in
/-- a queued value (non-nil timestamp) with a kind converts; the response carries its timestamp
and path, and is a sync response iff the value is a sync value -/
theorem wireOf_facts (s : SubList) (pv : PVal D) (hts : pv.ts.isSome = true) (hk : pv.kind ≠ .unset) :
    ∃ r, valToResp pv = .ok r ∧ (wireOf s pv : Wire D β) = stamp s (ofResp r) ∧
      ((wireOf s pv : Wire D β).isSync = true ↔ ∃ k, pv.kind = .sync k) ∧
      ((∀ k, pv.kind ≠ .sync k) → ∀ t, pv.ts = some t →
        (wireOf s pv : Wire D β).ts? = some t.ts ∧ (wireOf s pv : Wire D β).path? = some pv.path) ∧
      (pv.kind = .sync 1 → (wireOf s pv : Wire D β) = .sync true) := by
  obtain ⟨r, hr⟩ := (valToResp_ok_iff pv).2 ⟨hk, Or.inl hts⟩
  have hw : (wireOf s pv : Wire D β) = stamp s (ofResp r) := by simp only [wireOf, hr]
  refine ⟨r, hr, hw, ?_, ?_, ?_⟩
  · rw [hw, stamp_isSync]
    have hf := valToResp_faithful pv r hr
    cases hkk : pv.kind with
    | sync k => rw [hf.2.1 k hkk]; simp [ofResp, Wire.isSync]
    | delete => obtain ⟨t, _, h2⟩ := hf.1 hkk; rw [h2]; simp [ofResp, Wire.isSync]
    | int v d => obtain ⟨t, _, h2⟩ := hf.2.2.1 v d hkk; rw [h2]; simp [ofResp, Wire.isSync]
    | double v d => obtain ⟨t, _, h2⟩ := hf.2.2.2.1 v d hkk; rw [h2]; simp [ofResp, Wire.isSync]
    | str v d => obtain ⟨t, _, h2⟩ := hf.2.2.2.2.1 v d hkk; rw [h2]; simp [ofResp, Wire.isSync]
    | strList v d => obtain ⟨t, _, h2⟩ := hf.2.2.2.2.2.1 v d hkk; rw [h2]; simp [ofResp, Wire.isSync]
    | bool v d => obtain ⟨t, _, h2⟩ := hf.2.2.2.2.2.2.1 v d hkk; rw [h2]; simp [ofResp, Wire.isSync]
    | uint v d => obtain ⟨t, _, h2⟩ := hf.2.2.2.2.2.2.2.1 v d hkk; rw [h2]; simp [ofResp, Wire.isSync]
    | unset => exact absurd hkk hk
  · intro hns t ht
    rw [hw, stamp_ts, stamp_path]
    have hf := valToResp_faithful pv r hr
    cases hkk : pv.kind with
    | sync k => exact absurd hkk (hns k)
    | delete =>
      obtain ⟨t', h1, h2⟩ := hf.1 hkk
      rw [ht] at h1; cases h1; rw [h2]; simp [ofResp, Wire.ts?, Wire.path?]
    | int v d =>
      obtain ⟨t', h1, h2⟩ := hf.2.2.1 v d hkk
      rw [ht] at h1; cases h1; rw [h2]; simp [ofResp, Wire.ts?, Wire.path?]
    | double v d =>
      obtain ⟨t', h1, h2⟩ := hf.2.2.2.1 v d hkk
      rw [ht] at h1; cases h1; rw [h2]; simp [ofResp, Wire.ts?, Wire.path?]
    | str v d =>
      obtain ⟨t', h1, h2⟩ := hf.2.2.2.2.1 v d hkk
      rw [ht] at h1; cases h1; rw [h2]; simp [ofResp, Wire.ts?, Wire.path?]
    | strList v d =>
      obtain ⟨t', h1, h2⟩ := hf.2.2.2.2.2.1 v d hkk
      rw [ht] at h1; cases h1; rw [h2]; simp [ofResp, Wire.ts?, Wire.path?]
    | bool v d =>
      obtain ⟨t', h1, h2⟩ := hf.2.2.2.2.2.2.1 v d hkk
      rw [ht] at h1; cases h1; rw [h2]; simp [ofResp, Wire.ts?, Wire.path?]
    | uint v d =>
      obtain ⟨t', h1, h2⟩ := hf.2.2.2.2.2.2.2.1 v d hkk
      rw [ht] at h1; cases h1; rw [h2]; simp [ofResp, Wire.ts?, Wire.path?]
    | unset => exact absurd hkk hk
  · intro hs
    rw [hw, (valToResp_faithful pv r hr).2.1 1 hs]
    unfold stamp
    cases s.stampTarget <;> simp [ofResp]

/-! ## one pass of `processQueue` over the generator -/

/-- when `Next` does not emit, the generator state is unchanged (accepted configurations) -/
theorem next_fix_of_not_emit {u : UQ D} (hi : Inv u) (h : ∀ v, (next u).1 ≠ .emit v) : (next u).2 = u := by
  cases next_cases u hi.wf with
  | empty hq h' => rw [h']
  | dropped v rest hv hmin hrep u' h' hvals hw hnid => exact absurd (by rw [h']) (h v)
  | requeued v rest hv hmin v' hid hstep hsucc u' h' a b hab hvals hw hnid => exact absurd (by rw [h']) (h v)
  | err v rest hv pv' ds' hnv h' => exact absurd h' (next_no_err hi).1
  | stuck v rest hv h' => rcases h' with ⟨h', _⟩ | h' | h' <;> rw [h']

omit [LawfulDOps D] in
theorem emits_of_fix (n : Nat) (u : UQ D) (hfix : (next u).2 = u) (h : ∀ v, (next u).1 ≠ .emit v) :
    emits n u = [] := by
  induction n with
  | zero => simp [emits, results]
  | succ n ih =>
    rw [emits_succ, hfix]
    cases hr : (next u).1 with
    | emit v => exact absurd hr (h v)
    | _ => exact ih

omit [LawfulDOps D] in
theorem after_of_fix (n : Nat) (u : UQ D) (hfix : (next u).2 = u) : after n u = u := by
  induction n with
  | zero => rfl
  | succ n ih => rw [after_succ, hfix]; exact ih

/-- the values queued all have a kind -/
def NoUnset (u : UQ D) : Prop := ∀ v ∈ u.vals, v.pv.kind ≠ .unset

omit [DOps D] [LawfulDOps D] in
theorem same_unset {a b : Kind D} (h : Kind.Same a b) (hb : b = .unset) : a = .unset := by
  subst hb
  cases a <;> simp [Kind.Same] at h ⊢

omit [DOps D] [LawfulDOps D] in
theorem same_sync {a b : Kind D} (h : Kind.Same a b) : (∃ k, a = .sync k) ↔ (∃ k, b = .sync k) := by
  cases a <;> cases b <;> simp [Kind.Same] at h ⊢

theorem next_noUnset {u : UQ D} (hi : Inv u) (hn : NoUnset u) : NoUnset (next u).2 := by
  cases next_cases u hi.wf with
  | empty hq h => rw [h]; exact hn
  | dropped v rest hv hmin hrep u' h hvals hw hnid =>
    rw [h]
    intro x hx
    exact hn x (by rw [hv]; rw [hvals] at hx; exact List.mem_cons_of_mem _ hx)
  | requeued v rest hv hmin v' hid hstep hsucc u' h a b hab hvals hw hnid =>
    rw [h]
    intro x hx
    rw [hvals] at hx
    rcases List.mem_append.mp hx with hx | hx
    · exact hn x (by rw [hv, hab]; simp [hx])
    · rcases List.mem_cons.mp hx with rfl | hx
      · intro hk
        exact hn v (by rw [hv]; simp) (same_unset hstep.same hk)
      · exact hn x (by rw [hv, hab]; simp [hx])
  | err v rest hv pv' ds' hnv h => exact absurd h (next_no_err hi).1
  | stuck v rest hv h => rcases h with ⟨h, _⟩ | h | h <;> rw [h] <;> exact hn

/-- what `Next` emits is the head of the queue -/
theorem emit_is_head {u : UQ D} (hi : Inv u) {v : Val D} (h : (next u).1 = .emit v) : v ∈ u.vals := by
  cases next_cases u hi.wf with
  | empty hq h' => rw [h'] at h; cases h
  | dropped w rest hv hmin hrep u' h' hvals hw hnid => rw [h'] at h; cases h; rw [hv]; simp
  | requeued w rest hv hmin v' hid hstep hsucc u' h' a b hab hvals hw hnid => rw [h'] at h; cases h; rw [hv]; simp
  | err w rest hv pv' ds' hnv h' => rw [h'] at h; cases h
  | stuck w rest hv h' => rcases h' with ⟨h', _⟩ | h' | h' <;> rw [h'] at h <;> cases h

/-- every value emitted by a generator whose values all have a kind converts -/
theorem emits_conv (n : Nat) : ∀ (u : UQ D), Inv u → NoUnset u →
    ∀ e ∈ emits n u, e.pv.ts.isSome = true ∧ e.pv.kind ≠ .unset := by
  induction n with
  | zero => intro u _ _ e he; simp [emits, results] at he
  | succ n ih =>
    intro u hi hn e he
    rw [emits_succ] at he
    cases hr : (next u).1 with
    | emit v =>
      rw [hr] at he
      rcases List.mem_cons.mp he with rfl | he
      · have hm := emit_is_head hi hr
        exact ⟨vals_isSome hi.wf hm, hn _ hm⟩
      · exact ih _ (next_inv hi) (next_noUnset hi hn) e he
    | _ => rw [hr] at he; exact ih _ (next_inv hi) (next_noUnset hi hn) e he

/-- **stream_is_emits_general.**  For every generator state of an accepted configuration, every
subscription and every fuel: the responses one pass of `processQueue` sends are the emissions
`emits n u` converted by `valToResp` and stamped, in order, up to the first emission `valToResp`
refuses (a value without a kind). -/
theorem stream_is_emits_general (c : Config D β) (s : SubList) (n : Nat) : ∀ (u : UQ D), Inv u →
    (processQueue c s n (.gen u)).1 =
      ((emits n u).takeWhile (fun e => conv e.pv)).map (fun e => wireOf s e.pv) := by
  induction n with
  | zero => intro u _; simp [processQueue, emits, results]
  | succ n ih =>
    intro u hi
    have hne := next_no_err hi
    rw [emits_succ]
    cases hnx : next u with
    | mk r u' =>
      have hr : (next u).1 = r := by rw [hnx]
      have hu : (next u).2 = u' := by rw [hnx]
      cases r with
      | emit v =>
        have hi' : Inv u' := hu ▸ next_inv hi
        simp only [processQueue, nextInQueue, hnx]
        cases hc : valToResp v.pv with
        | ok r =>
          rw [List.takeWhile_cons_of_pos (by simp [conv, hc]), List.map_cons, ih u' hi']
          simp [wireOf, hc]
        | _ => rw [List.takeWhile_cons_of_neg (by simp [conv, hc])]; rfl
      | err => exact absurd hr hne.1
      | panic => exact absurd hr hne.2
      | _ =>
        have hfix : (next u).2 = u := next_fix_of_not_emit hi (by rw [hr]; simp)
        have hemp := emits_of_fix n u hfix (by rw [hr]; simp)
        rw [hu] at hfix
        simp [processQueue, nextInQueue, hnx, hfix, hemp]

/-! ## how a pass over the generator ends -/

theorem nil_iff_empty {u : UQ D} (hi : Inv u) : (next u).1 = .nil ↔ u.vals = [] := by
  constructor
  · intro h
    cases next_cases u hi.wf with
    | empty hq h' => exact hq
    | dropped v rest hv hmin hrep u' h' hvals hw hnid => rw [h'] at h; cases h
    | requeued v rest hv hmin v' hid hstep hsucc u' h' a b hab hvals hw hnid => rw [h'] at h; cases h
    | err v rest hv pv' ds' hnv h' => rw [h'] at h; cases h
    | stuck v rest hv h' => rcases h' with ⟨h', _⟩ | h' | h' <;> rw [h'] at h <;> cases h
  · intro h
    rw [exhausted_stays u hi.wf h]

/-- One pass over the generator of an accepted configuration whose values all have a kind ends
in exactly one of two ways: the queue ran empty after some `m < n` calls of `Next` and the pass
ends as the configuration says (`exhaustedEnd`), or the queue is non-empty after every `m < n`
calls and the pass is still running (or left the modelled domain: `overflow` / `nodraws`). -/
theorem pq_gen_end (c : Config D β) (s : SubList) (n : Nat) : ∀ (u : UQ D), Inv u → NoUnset u →
    ((processQueue c s n (.gen u)).2.1 = exhaustedEnd c s ∧ ∃ m, m < n ∧ (after m u).vals = []) ∨
    (((processQueue c s n (.gen u)).2.1 = .more ∨ (processQueue c s n (.gen u)).2.1 = .overflow ∨
        (processQueue c s n (.gen u)).2.1 = .nodraws) ∧ ∀ m, m < n → (after m u).vals ≠ []) := by
  induction n with
  | zero => intro u _ _; exact Or.inr ⟨Or.inl rfl, fun m hm => absurd hm (Nat.not_lt_zero m)⟩
  | succ n ih =>
    intro u hi hn
    have hne := next_no_err hi
    cases hnx : next u with
    | mk r u' =>
      have hr : (next u).1 = r := by rw [hnx]
      have hu : (next u).2 = u' := by rw [hnx]
      cases r with
      | emit v =>
        have hi' : Inv u' := hu ▸ next_inv hi
        have hn' : NoUnset u' := hu ▸ next_noUnset hi hn
        have hm := emit_is_head hi hr
        obtain ⟨r, hc, _⟩ := wireOf_facts (β := β) s v.pv (vals_isSome hi.wf hm) (hn v hm)
        have hpq : (processQueue c s (n + 1) (.gen u)).2.1 = (processQueue c s n (.gen u')).2.1 := by
          simp only [processQueue, nextInQueue, hnx, hc]
        rw [hpq]
        rcases ih u' hi' hn' with ⟨h1, m, hm1, hm2⟩ | ⟨h1, h2⟩
        · exact Or.inl ⟨h1, m + 1, by omega, by rw [after_succ, hu]; exact hm2⟩
        · refine Or.inr ⟨h1, ?_⟩
          intro m hlt
          cases m with
          | zero => intro h0; simp only [after] at h0; rw [h0] at hm; cases hm
          | succ m => rw [after_succ, hu]; exact h2 m (by omega)
      | nil =>
        have hemp := (nil_iff_empty hi).1 hr
        refine Or.inl ⟨by simp only [processQueue, nextInQueue, hnx], 0, by omega, hemp⟩
      | err => exact absurd hr hne.1
      | panic => exact absurd hr hne.2
      | overflow =>
        have hfix : (next u).2 = u := next_fix_of_not_emit hi (by rw [hr]; simp)
        have hne' : u.vals ≠ [] := fun h => by rw [(nil_iff_empty hi).2 h] at hr; cases hr
        refine Or.inr ⟨Or.inr (Or.inl (by simp only [processQueue, nextInQueue, hnx])), ?_⟩
        intro m _
        rw [after_of_fix m u hfix]; exact hne'
      | nodraws =>
        have hfix : (next u).2 = u := next_fix_of_not_emit hi (by rw [hr]; simp)
        have hne' : u.vals ≠ [] := fun h => by rw [(nil_iff_empty hi).2 h] at hr; cases hr
        refine Or.inr ⟨Or.inr (Or.inr (by simp only [processQueue, nextInQueue, hnx])), ?_⟩
        intro m _
        rw [after_of_fix m u hfix]; exact hne'

omit [DOps D] [LawfulDOps D] in
theorem exhaustedEnd_cases (c : Config D β) (s : SubList) :
    (exhaustedEnd c s = .awaitPoll ∧ s.mode = .poll) ∨
    (exhaustedEnd c s = .held ∧ s.mode ≠ .poll ∧ c.disableEof = true) ∨
    (exhaustedEnd c s = .eof ∧ s.mode ≠ .poll ∧ c.disableEof = false) := by
  unfold exhaustedEnd
  by_cases h1 : s.mode = .poll
  · exact Or.inl ⟨by simp [h1], h1⟩
  · cases h2 : c.disableEof
    · exact Or.inr (Or.inr ⟨by simp [h1], h1, rfl⟩)
    · exact Or.inr (Or.inl ⟨by simp [h1], h1, rfl⟩)

/-! ## from the configuration to the generator -/

/-- no configured value lacks a kind (`valToResp` refuses such a value) -/
def AllKinds (values : List (PVal D × Option Draws)) : Prop := ∀ x ∈ values, x.1.kind ≠ .unset

/-- no configured value is itself a sync value (the only sync is the injected marker) -/
def NoUserSync (values : List (PVal D × Option Draws)) : Prop := ∀ x ∈ values, ∀ k, x.1.kind ≠ .sync k

omit [DOps D] [LawfulDOps D] in
theorem withTs_fields (v : Val D) :
    v.withTs.pv.kind = v.pv.kind ∧ v.withTs.pv.path = v.pv.path ∧ v.withTs.pv.repeat_ = v.pv.repeat_ := by
  unfold Val.withTs
  cases v.pv.ts <;> simp

omit [DOps D] [LawfulDOps D] in
theorem cfgVals_mem : ∀ (values : List (PVal D × Option Draws)) (k : Nat) (x : Val D), x ∈ cfgVals k values →
    ∃ y ∈ values, x.pv.kind = y.1.kind ∧ x.pv.path = y.1.path ∧ x.pv.repeat_ = y.1.repeat_ ∧
      k ≤ x.id ∧ x.id < k + values.length := by
  intro values
  induction values with
  | nil => intro k x hx; simp [cfgVals] at hx
  | cons y ys ih =>
    intro k x hx
    simp only [cfgVals, List.mem_cons] at hx
    rcases hx with rfl | hx
    · obtain ⟨h1, h2, h3⟩ := withTs_fields ({ pv := y.1, own := y.2, id := k } : Val D)
      exact ⟨y, List.mem_cons_self .., h1, h2, h3, by rw [withTs_id]; exact Nat.le_refl _,
        by rw [withTs_id]; simp only [List.length_cons]; omega⟩
    · obtain ⟨z, hz, h1, h2, h3, h4, h5⟩ := ih (k + 1) x hx
      exact ⟨z, List.mem_cons_of_mem _ hz, h1, h2, h3, by omega, by simp only [List.length_cons]; omega⟩

omit [DOps D] [LawfulDOps D] in
theorem cfgVals_of_mem : ∀ (values : List (PVal D × Option Draws)) (k : Nat) (y : PVal D × Option Draws), y ∈ values →
    ∃ x ∈ cfgVals k values, x.pv.kind = y.1.kind ∧ x.pv.path = y.1.path ∧ x.pv.repeat_ = y.1.repeat_ := by
  intro values
  induction values with
  | nil => intro k y hy; simp at hy
  | cons z zs ih =>
    intro k y hy
    rcases List.mem_cons.mp hy with rfl | hy
    · obtain ⟨h1, h2, h3⟩ := withTs_fields ({ pv := y.1, own := y.2, id := k } : Val D)
      exact ⟨_, by simp only [cfgVals]; exact List.mem_cons_self .., h1, h2, h3⟩
    · obtain ⟨x, hx, h⟩ := ih (k + 1) y hy
      exact ⟨x, by simp only [cfgVals]; exact List.mem_cons_of_mem _ hx, h⟩

omit [LawfulDOps D] in
/-- the queued values of a freshly built generator: the configured values (identities below
`values.length`), and — with sync injection — the marker (identity `values.length`) -/
theorem built_queue {g : Draws} {values : List (PVal D × Option Draws)} {ds : Bool} {u : UQ D}
    (hv : Accepted values) (hb : Built g values ds u) :
    ∃ pre, pre.Perm (cfgVals 0 values) ∧
      ((ds = true ∧ u.vals = pre) ∨
       (ds = false ∧ ∃ sv, u.vals = pre ++ [sv] ∧ sv.id = values.length ∧ sv.pv = syncValue (cfgLatest values))) := by
  cases ds with
  | false =>
    obtain ⟨pre, sv, h1, h2, h3, h4, _⟩ := sync_timestamp_exact hv hb
    exact ⟨pre, h2, Or.inr ⟨rfl, sv, h1, h3, h4⟩⟩
  | true =>
    obtain ⟨u', h, _, _, _, _, hp⟩ := new_spec g values hv
    unfold Built FQ.reset at hb
    rw [h] at hb
    cases hb
    exact ⟨_, hp, Or.inl ⟨rfl, rfl⟩⟩

omit [LawfulDOps D] in
theorem built_noUnset {g : Draws} {values : List (PVal D × Option Draws)} {ds : Bool} {u : UQ D}
    (hv : Accepted values) (hk : AllKinds values) (hb : Built g values ds u) : NoUnset u := by
  obtain ⟨pre, hp, h⟩ := built_queue hv hb
  have hpre : ∀ x ∈ pre, x.pv.kind ≠ .unset := by
    intro x hx
    obtain ⟨y, hy, h1, _⟩ := cfgVals_mem values 0 x (hp.subset hx)
    rw [h1]; exact hk y hy
  intro x hx
  rcases h with ⟨_, h⟩ | ⟨_, sv, h, _, hs⟩
  · rw [h] at hx; exact hpre x hx
  · rw [h] at hx
    rcases List.mem_append.mp hx with hx | hx
    · exact hpre x hx
    · simp only [List.mem_singleton] at hx
      rw [hx, hs]; simp [syncValue]

/-! ## `stream_is_emits` and what it carries over -/

omit [DOps D] [LawfulDOps D] in
theorem takeWhile_all {α : Type} (p : α → Bool) : ∀ (l : List α), (∀ x ∈ l, p x = true) → l.takeWhile p = l := by
  intro l
  induction l with
  | nil => intro _; rfl
  | cons a l ih =>
    intro h
    rw [List.takeWhile_cons_of_pos (h a (List.mem_cons_self ..)), ih (fun x hx => h x (List.mem_cons_of_mem _ hx))]

/-- **stream_is_emits.**  For every accepted configuration in which every value has a kind
(any size, any kinds, any seeds and draws, with or without sync injection), every subscription
(mode, target) and every fuel `n`: the responses a subscriber receives in one pass are exactly
the generator's emission sequence `emits n u`, each converted by `valToResp` (which succeeds on
every one of them) and stamped with the requested target, in order. -/
theorem stream_is_emits {g : Draws} {values : List (PVal D × Option Draws)} {ds : Bool} {u : UQ D}
    (hv : Accepted values) (hk : AllKinds values) (hb : Built g values ds u)
    (c : Config D β) (s : SubList) (n : Nat) :
    (processQueue c s n (.gen u)).1 = (emits n u).map (fun e => wireOf s e.pv) ∧
    ∀ e ∈ emits n u, ∃ r, valToResp e.pv = .ok r ∧ (wireOf s e.pv : Wire D β) = stamp s (ofResp r) := by
  have hi := built_inv hv hb
  have hn := built_noUnset hv hk hb
  have hall : ∀ e ∈ emits n u, ∃ r, valToResp e.pv = .ok r ∧ (wireOf s e.pv : Wire D β) = stamp s (ofResp r) := by
    intro e he
    obtain ⟨h1, h2⟩ := emits_conv n u hi hn e he
    obtain ⟨r, hr, hw, _⟩ := wireOf_facts (β := β) s e.pv h1 h2
    exact ⟨r, hr, hw⟩
  refine ⟨?_, hall⟩
  rw [stream_is_emits_general c s n u hi]
  congr 1
  apply takeWhile_all
  intro e he
  obtain ⟨r, hr, _⟩ := hall e he
  simp [conv, hr]

/-- **stream_transfer.**  Whatever holds of every emission holds of the value behind every
response received: each response is the conversion of an emission with that property.  (This is
how `in_range`, `delta_bounds`, `repeat_at_most`, `dropped_exact` … of Props/C20*.lean apply to
the responses.) -/
theorem stream_transfer {g : Draws} {values : List (PVal D × Option Draws)} {ds : Bool} {u : UQ D}
    (hv : Accepted values) (hk : AllKinds values) (hb : Built g values ds u)
    (c : Config D β) (s : SubList) (n : Nat) (P : Val D → Prop) (hP : ∀ e ∈ emits n u, P e) :
    ∀ w ∈ (processQueue c s n (.gen u)).1, ∃ e r, e ∈ emits n u ∧ P e ∧ valToResp e.pv = .ok r ∧
      w = stamp s (ofResp r) := by
  obtain ⟨h1, h2⟩ := stream_is_emits hv hk hb c s n
  intro w hw
  rw [h1] at hw
  obtain ⟨e, he, rfl⟩ := List.mem_map.mp hw
  obtain ⟨r, hr, hw'⟩ := h2 e he
  exact ⟨e, r, he, hP e he, hr, hw'⟩

/-- the `k`-th response is the conversion of the `k`-th emission; as many responses as emissions -/
theorem stream_length {g : Draws} {values : List (PVal D × Option Draws)} {ds : Bool} {u : UQ D}
    (hv : Accepted values) (hk : AllKinds values) (hb : Built g values ds u)
    (c : Config D β) (s : SubList) (n : Nat) :
    (processQueue c s n (.gen u)).1.length = (emits n u).length ∧
    ∀ k : Nat, (processQueue c s n (.gen u)).1[k]? = ((emits n u)[k]?).map (fun (e : Val D) => wireOf s e.pv) := by
  rw [(stream_is_emits hv hk hb c s n).1]
  exact ⟨List.length_map _, fun k => List.getElem?_map⟩

/-- the timestamp of the response for an emitted value: none for a sync value, else the value's -/
theorem wire_ts_of_emit {u : UQ D} (hi : Inv u) (hn : NoUnset u) (s : SubList) (n : Nat) (e : Val D)
    (he : e ∈ emits n u) (t : Int) (ht : (wireOf s e.pv : Wire D β).ts? = some t) : t = e.t := by
  obtain ⟨h1, h2⟩ := emits_conv n u hi hn e he
  obtain ⟨r, hr, hw, hsync, hts, _⟩ := wireOf_facts (β := β) s e.pv h1 h2
  by_cases hs : ∃ k, e.pv.kind = .sync k
  · have := hsync.2 hs
    cases hww : (wireOf s e.pv : Wire D β) <;> rw [hww] at this ht <;> simp [Wire.isSync, Wire.ts?] at this ht
  · cases hts' : e.pv.ts with
    | none => rw [hts'] at h1; cases h1
    | some tt =>
      have := (hts (fun k hk => hs ⟨k, hk⟩) tt hts').1
      rw [this] at ht
      cases ht
      simp [Val.t, hts']

/-- **stream_nondecreasing** (transfer of `emission_nondecreasing`).  The timestamps of the
notifications a subscriber receives never decrease (sync responses carry no timestamp). -/
theorem stream_nondecreasing {g : Draws} {values : List (PVal D × Option Draws)} {ds : Bool} {u : UQ D}
    (hv : Accepted values) (hk : AllKinds values) (hb : Built g values ds u)
    (c : Config D β) (s : SubList) (n : Nat) :
    (processQueue c s n (.gen u)).1.Pairwise
      (fun a b => ∀ ta tb, a.ts? = some ta → b.ts? = some tb → ta ≤ tb) := by
  have hi := built_inv hv hb
  have hn := built_noUnset hv hk hb
  rw [(stream_is_emits hv hk hb c s n).1, List.pairwise_map]
  refine List.Pairwise.imp_of_mem ?_ (emission_nondecreasing hv hb n)
  intro a b ha hb' hab ta tb hta htb
  rw [wire_ts_of_emit hi hn s n a ha ta hta, wire_ts_of_emit hi hn s n b hb' tb htb]
  exact hab

omit [DOps D] [LawfulDOps D] in
theorem zip_filter_id (W : Val D → Wire D β) (i : Nat) : ∀ (E : List (Val D)),
    ((E.map W).zip E).filter (fun p => p.2.id == i) = (proj i E).map (fun e => (W e, e)) := by
  intro E
  induction E with
  | nil => rfl
  | cons e E ih =>
    simp only [List.map_cons, List.zip_cons_cons, proj] at ih ⊢
    by_cases h : e.id = i
    · rw [List.filter_cons_of_pos (by simp [h]), List.filter_cons_of_pos (by simp [h]), List.map_cons, ih]
    · rw [List.filter_cons_of_neg (by simp [h]), List.filter_cons_of_neg (by simp [h]), ih]

/-- **stream_repeat_count** (transfer of `repeat_at_most` / `dropped_exact`).  Pair every response
with the emission it converts (`zip`): the responses stemming from a configured value with repeat
`r ≥ 1` are at most `r`, and exactly `r` once the value has left the queue. -/
theorem stream_repeat_count {g : Draws} {values : List (PVal D × Option Draws)} {ds : Bool} {u : UQ D}
    (hv : Accepted values) (hk : AllKinds values) (hb : Built g values ds u)
    (c : Config D β) (s : SubList) (n : Nat) (x : Val D) (hx : x ∈ u.vals) (hr : 1 ≤ x.pv.repeat_) :
    ((((processQueue c s n (.gen u)).1.zip (emits n u)).filter (fun p => p.2.id == x.id)).length : Int)
        ≤ x.pv.repeat_ ∧
    (x.id ∉ (after n u).ids →
      ((((processQueue c s n (.gen u)).1.zip (emits n u)).filter (fun p => p.2.id == x.id)).length : Int)
        = x.pv.repeat_) := by
  rw [(stream_is_emits hv hk hb c s n).1, zip_filter_id, List.length_map]
  exact ⟨repeat_at_most hv hb n x hx hr, fun hd => (emitted_all_iff_dropped hv hb n x hx hr).2 hd⟩

/-- **stream_delta_bounds** (transfer of `delta_bounds`).  The notifications received for two
consecutive emissions `a`, `b` of the same configured value carry timestamps whose difference lies
within the value's `[delta_min, delta_max]`. -/
theorem stream_delta_bounds {g : Draws} {values : List (PVal D × Option Draws)} {ds : Bool} {u : UQ D}
    (hv : Accepted values) (hk : AllKinds values) (hb : Built g values ds u)
    (s : SubList) (n i : Nat) (l1 l2 : List (Val D)) (a b : Val D)
    (h : proj i (emits n u) = l1 ++ a :: b :: l2) (ta tb : Int)
    (hta : (wireOf s a.pv : Wire D β).ts? = some ta) (htb : (wireOf s b.pv : Wire D β).ts? = some tb) :
    ∃ t, a.pv.ts = some t ∧ 0 ≤ t.dmin ∧ t.dmin ≤ tb - ta ∧ tb - ta ≤ t.dmax := by
  have hi := built_inv hv hb
  have hn := built_noUnset hv hk hb
  have hmem : ∀ x ∈ proj i (emits n u), x ∈ emits n u := fun x hx => (List.mem_filter.mp hx).1
  have ha : a ∈ emits n u := hmem a (by rw [h]; simp)
  have hb' : b ∈ emits n u := hmem b (by rw [h]; simp)
  obtain ⟨t, t', h1, h2, h3, h4, h5, _⟩ := delta_bounds hv hb n i l1 l2 a b h
  rw [wire_ts_of_emit hi hn s n a ha ta hta, wire_ts_of_emit hi hn s n b hb' tb htb]
  refine ⟨t, h1, h3, ?_, ?_⟩ <;> simp only [Val.t, h1, h2] <;> assumption

/-! ## the end of the stream -/

/-- **stream_end_cases.**  One pass for an accepted configuration with kinds everywhere never
ends in an error or a panic: either the queue ran empty (after `m < n` calls of `Next`; all
`emits m u` emissions have been sent, nothing follows) and the pass ends as the configuration
says — `awaitPoll` in POLL mode, else `held` with `disable_eof`, else `eof` — or it is still
running (`more`; or the run left the modelled domain). -/
theorem stream_end_cases {g : Draws} {values : List (PVal D × Option Draws)} {ds : Bool} {u : UQ D}
    (hv : Accepted values) (hk : AllKinds values) (hb : Built g values ds u)
    (c : Config D β) (s : SubList) (n : Nat) :
    ((processQueue c s n (.gen u)).2.1 = exhaustedEnd c s ∧ ∃ m, m < n ∧ (after m u).vals = [] ∧
        (processQueue c s n (.gen u)).1 = (emits m u).map (fun e => wireOf s e.pv) ∧
        ∀ j, emits (m + j) u = emits m u) ∨
    (((processQueue c s n (.gen u)).2.1 = .more ∨ (processQueue c s n (.gen u)).2.1 = .overflow ∨
        (processQueue c s n (.gen u)).2.1 = .nodraws) ∧ ∀ m, m < n → (after m u).vals ≠ []) := by
  have hi := built_inv hv hb
  have hn := built_noUnset hv hk hb
  rcases pq_gen_end c s n u hi hn with ⟨h1, m, hm1, hm2⟩ | h
  · refine Or.inl ⟨h1, m, hm1, hm2, ?_, ?_⟩
    · rw [(stream_is_emits hv hk hb c s n).1]
      have hj : ∀ j, emits (m + j) u = emits m u := by
        intro j
        rw [emits_add]
        have hi' := after_inv m hi
        have hx := exhausted_stays (after m u) hi'.wf hm2
        rw [emits_of_fix j (after m u) (by rw [hx]) (by rw [hx]; simp)]
        simp
      have : n = m + (n - m) := by omega
      rw [this, hj]
    · intro j
      rw [emits_add]
      have hi' := after_inv m hi
      have hx := exhausted_stays (after m u) hi'.wf hm2
      rw [emits_of_fix j (after m u) (by rw [hx]) (by rw [hx]; simp)]
      simp
  · exact Or.inr h

/-- **eof_iff.**  The stream ends cleanly by itself ("end of updates": `Run` returns nil, the
subscriber reads `io.EOF`) iff `disable_eof` is off, the subscription is not a POLL subscription,
and the queue has run empty within the fuel. -/
theorem eof_iff {g : Draws} {values : List (PVal D × Option Draws)} {ds : Bool} {u : UQ D}
    (hv : Accepted values) (hk : AllKinds values) (hb : Built g values ds u)
    (c : Config D β) (s : SubList) (n : Nat) :
    (processQueue c s n (.gen u)).2.1 = .eof ↔
      (c.disableEof = false ∧ s.mode ≠ .poll ∧ ∃ m, m < n ∧ (after m u).vals = []) := by
  have hi := built_inv hv hb
  have hn := built_noUnset hv hk hb
  constructor
  · intro he
    rcases pq_gen_end c s n u hi hn with ⟨h1, hm⟩ | ⟨h1, _⟩
    · rw [he] at h1
      rcases exhaustedEnd_cases c s with ⟨h2, _⟩ | ⟨h2, _⟩ | ⟨_, h3, h4⟩
      · rw [h2] at h1; cases h1
      · rw [h2] at h1; cases h1
      · exact ⟨h4, h3, hm⟩
    · rw [he] at h1
      rcases h1 with h1 | h1 | h1 <;> cases h1
  · rintro ⟨h1, h2, m, hm1, hm2⟩
    rcases pq_gen_end c s n u hi hn with ⟨h3, _⟩ | ⟨_, h3⟩
    · rw [h3]
      rcases exhaustedEnd_cases c s with ⟨_, h4⟩ | ⟨_, _, h4⟩ | ⟨h4, _⟩
      · exact absurd h4 h2
      · rw [h1] at h4; cases h4
      · exact h4
    · exact absurd hm2 (h3 m hm1)

/-- with `disable_eof` (outside POLL mode) an exhausted stream is held open instead -/
theorem held_iff {g : Draws} {values : List (PVal D × Option Draws)} {ds : Bool} {u : UQ D}
    (hv : Accepted values) (hk : AllKinds values) (hb : Built g values ds u)
    (c : Config D β) (s : SubList) (n : Nat) :
    (processQueue c s n (.gen u)).2.1 = .held ↔
      (c.disableEof = true ∧ s.mode ≠ .poll ∧ ∃ m, m < n ∧ (after m u).vals = []) := by
  have hi := built_inv hv hb
  have hn := built_noUnset hv hk hb
  constructor
  · intro he
    rcases pq_gen_end c s n u hi hn with ⟨h1, hm⟩ | ⟨h1, _⟩
    · rw [he] at h1
      rcases exhaustedEnd_cases c s with ⟨h2, _⟩ | ⟨_, h3, h4⟩ | ⟨h2, _⟩
      · rw [h2] at h1; cases h1
      · exact ⟨h4, h3, hm⟩
      · rw [h2] at h1; cases h1
    · rw [he] at h1
      rcases h1 with h1 | h1 | h1 <;> cases h1
  · rintro ⟨h1, h2, m, hm1, hm2⟩
    rcases pq_gen_end c s n u hi hn with ⟨h3, _⟩ | ⟨_, h3⟩
    · rw [h3]
      rcases exhaustedEnd_cases c s with ⟨_, h4⟩ | ⟨h4, _⟩ | ⟨_, _, h4⟩
      · exact absurd h4 h2
      · exact h4
      · rw [h1] at h4; cases h4
    · exact absurd hm2 (h3 m hm1)

/-- **unbounded_never_ends.**  If some configured value has an unbounded repeat (`repeat ≤ 0`),
no pass ever ends, whatever the fuel: not by `eof`, not `held`, not waiting for a poll. -/
theorem unbounded_never_ends {g : Draws} {values : List (PVal D × Option Draws)} {ds : Bool} {u : UQ D}
    (hv : Accepted values) (hk : AllKinds values) (hb : Built g values ds u)
    (y : PVal D × Option Draws) (hy : y ∈ values) (hr : y.1.repeat_ ≤ 0)
    (c : Config D β) (s : SubList) (n : Nat) :
    (processQueue c s n (.gen u)).2.1 = .more ∨ (processQueue c s n (.gen u)).2.1 = .overflow ∨
      (processQueue c s n (.gen u)).2.1 = .nodraws := by
  have hi := built_inv hv hb
  have hn := built_noUnset hv hk hb
  rcases pq_gen_end c s n u hi hn with ⟨_, m, _, hm⟩ | ⟨h, _⟩
  · exfalso
    obtain ⟨x, hx, _, _, hrep⟩ := cfgVals_of_mem values 0 y hy
    obtain ⟨pre, hp, hq⟩ := built_queue hv hb
    have hxu : x ∈ u.vals := by
      rcases hq with ⟨_, h⟩ | ⟨_, sv, h, _⟩ <;> rw [h]
      · exact hp.symm.subset hx
      · exact List.mem_append_left _ (hp.symm.subset hx)
    obtain ⟨z, hz, _⟩ := repeat_unbounded hv hb m x hxu (by rw [hrep]; exact hr)
    rw [hm] at hz
    cases hz
  · exact h

/-! ## the sync response -/

/-- every emission stems from a queued value of the same identity, kind and path -/
theorem emit_origin {u : UQ D} (hi : Inv u) (n : Nat) (e : Val D) (he : e ∈ emits n u) :
    ∃ x ∈ u.vals, x.id = e.id ∧ Kind.Same x.pv.kind e.pv.kind ∧ e.pv.path = x.pv.path := by
  have hid := emits_ids n u hi e he
  obtain ⟨x, hx, hxi⟩ := List.mem_map.mp hid
  have hep : e ∈ proj x.id (emits n u) := by
    simp only [proj, List.mem_filter, beq_iff_eq]; exact ⟨he, hxi.symm⟩
  rcases emits_chain n u hi x hx with h0 | ⟨rest, h1, hc⟩
  · rw [h0] at hep; cases hep
  · rw [h1] at hep
    rcases List.mem_cons.mp hep with rfl | her
    · exact ⟨e, hx, rfl, Kind.Same.refl _, rfl⟩
    · have := chain_all (R := Succ)
        (P := fun a b : Val D => Kind.Same a.pv.kind b.pv.kind ∧ b.pv.path = a.pv.path)
        (fun a b hs => ⟨hs.facts.same, hs.facts.path⟩)
        (fun a b c h1 h2 => ⟨h1.1.trans h2.1, h2.2.trans h1.2⟩) rest x hc e her
      exact ⟨x, hx, hxi, this.1, this.2⟩

omit [DOps D] [LawfulDOps D] in
theorem same_of_sync {k : Nat} {b : Kind D} (h : Kind.Same (.sync k) b) : b = .sync k := by
  cases b <;> simp [Kind.Same] at h ⊢
  exact h

omit [DOps D] [LawfulDOps D] in
theorem eq_of_id_eq : ∀ (l : List (Val D)), (l.map (·.id)).Nodup → ∀ x ∈ l, ∀ y ∈ l, x.id = y.id → x = y := by
  intro l
  induction l with
  | nil => intro _ x hx; cases hx
  | cons a l ih =>
    intro hnd x hx y hy hxy
    simp only [List.map_cons, List.nodup_cons] at hnd
    rcases List.mem_cons.mp hx with rfl | hx' <;> rcases List.mem_cons.mp hy with rfl | hy'
    · rfl
    · exact absurd (List.mem_map.mpr ⟨y, hy', hxy.symm⟩ : x.id ∈ l.map (·.id)) hnd.1
    · exact absurd (List.mem_map.mpr ⟨x, hx', hxy⟩ : y.id ∈ l.map (·.id)) hnd.1
    · exact ih hnd.2 x hx' y hy' hxy

/-- with sync injection and no sync value in the configuration, the emissions of sync kind are
exactly those of the injected marker (identity `values.length`), and they are `sync 1` -/
theorem sync_emission_iff {g : Draws} {values : List (PVal D × Option Draws)} {u : UQ D}
    (hv : Accepted values) (hs : NoUserSync values) (hb : Built g values false u) (n : Nat)
    (e : Val D) (he : e ∈ emits n u) :
    ((∃ k, e.pv.kind = .sync k) ↔ e.id = values.length) ∧ (e.id = values.length → e.pv.kind = .sync 1) := by
  have hi := built_inv hv hb
  obtain ⟨x, hx, hxi, hsame, _⟩ := emit_origin hi n e he
  obtain ⟨pre, hp, hq⟩ := built_queue hv hb
  rcases hq with ⟨h, _⟩ | ⟨_, sv, hvals, hsid, hspv⟩
  · cases h
  · have hpre : ∀ z ∈ pre, (∀ k, z.pv.kind ≠ .sync k) ∧ z.id < values.length := by
      intro z hz
      obtain ⟨y, hy, h1, _, _, _, h5⟩ := cfgVals_mem values 0 z (hp.subset hz)
      exact ⟨fun k => by rw [h1]; exact hs y hy k, by omega⟩
    rw [hvals] at hx
    rcases List.mem_append.mp hx with hx | hx
    · have := hpre x hx
      refine ⟨⟨fun hk => ?_, fun hid => ?_⟩, fun hid => ?_⟩
      · obtain ⟨k, hk'⟩ := (same_sync hsame).2 hk
        exact absurd hk' (this.1 k)
      · omega
      · omega
    · simp only [List.mem_singleton] at hx
      subst hx
      have hk1 : e.pv.kind = .sync 1 := by
        have : x.pv.kind = .sync 1 := by rw [hspv]; rfl
        rw [this] at hsame
        exact same_of_sync hsame
      exact ⟨⟨fun _ => by omega, fun _ => ⟨1, hk1⟩⟩, fun _ => hk1⟩

/-- **sync_after_firsts_stream.**  With sync injection (`disable_sync` off) and no sync value in
the configuration: wherever a sync response stands in the received stream, it is `sync true`, it
is the only sync response, and for every configured value an update (or delete) of that value's
path has been received before it. -/
theorem sync_after_firsts_stream {g : Draws} {values : List (PVal D × Option Draws)} {u : UQ D}
    (hv : Accepted values) (hk : AllKinds values) (hs : NoUserSync values) (hb : Built g values false u)
    (c : Config D β) (s : SubList) (n : Nat) (l1 l2 : List (Wire D β)) (b : Bool)
    (hm : (processQueue c s n (.gen u)).1 = l1 ++ Wire.sync b :: l2) :
    b = true ∧ (∀ w ∈ l1 ++ l2, w.isSync = false) ∧
    ∀ y ∈ values, ∃ w ∈ l1, w.isSync = false ∧ w.path? = some y.1.path := by
  have hi := built_inv hv hb
  have hn := built_noUnset hv hk hb
  rw [(stream_is_emits hv hk hb c s n).1] at hm
  obtain ⟨e1, e2', hsplit, hm1, hm2⟩ := List.map_eq_append_iff.mp hm
  obtain ⟨e, e2, rfl, hme, hm3⟩ := List.map_eq_cons_iff.mp hm2
  have hmem : ∀ x, x ∈ e1 ++ e :: e2 → x ∈ emits n u := fun x hx => hsplit ▸ hx
  have factsOf : ∀ x ∈ emits n u,
      ((wireOf s x.pv : Wire D β).isSync = true ↔ x.id = values.length) ∧
      (x.id = values.length → (wireOf s x.pv : Wire D β) = .sync true) ∧
      (x.id ≠ values.length → (wireOf s x.pv : Wire D β).path? = some x.pv.path) := by
    intro x hx
    obtain ⟨h1, h2⟩ := emits_conv n u hi hn x hx
    obtain ⟨_, _, _, hsy, hts, hone⟩ := wireOf_facts (β := β) s x.pv h1 h2
    obtain ⟨hiff, hk1⟩ := sync_emission_iff hv hs hb n x hx
    refine ⟨hsy.trans hiff, fun hid => hone (hk1 hid), fun hid => ?_⟩
    cases hts' : x.pv.ts with
    | none => rw [hts'] at h1; cases h1
    | some tt => exact (hts (fun k hk' => hid (hiff.1 ⟨k, hk'⟩)) tt hts').2
  have heid : e.id = values.length := by
    apply (factsOf e (hmem e (by simp))).1.1
    rw [hme]; rfl
  have hb1 : b = true := by
    have := (factsOf e (hmem e (by simp))).2.1 heid
    rw [hme] at this
    injection this
  -- the marker is emitted at most once
  have honce := sync_once hv hb n
  rw [hsplit] at honce
  simp only [proj, List.filter_append, List.length_append] at honce
  rw [List.filter_cons_of_pos (by simp [heid])] at honce
  simp only [List.length_cons] at honce
  have hno : ∀ x ∈ e1 ++ e2, x.id ≠ values.length := by
    intro x hx hid
    rcases List.mem_append.mp hx with hx | hx
    · have : x ∈ e1.filter (fun e => e.id == values.length) := by
        simp only [List.mem_filter, beq_iff_eq]; exact ⟨hx, hid⟩
      have := List.length_pos_of_mem this
      omega
    · have : x ∈ e2.filter (fun e => e.id == values.length) := by
        simp only [List.mem_filter, beq_iff_eq]; exact ⟨hx, hid⟩
      have := List.length_pos_of_mem this
      omega
  refine ⟨hb1, ?_, ?_⟩
  · intro w hw
    rw [← hm1, ← hm3, ← List.map_append] at hw
    obtain ⟨x, hx, rfl⟩ := List.mem_map.mp hw
    have hxm : x ∈ emits n u := by
      apply hmem
      rcases List.mem_append.mp hx with hx | hx
      · exact List.mem_append_left _ hx
      · exact List.mem_append_right _ (List.mem_cons_of_mem _ hx)
    cases hsy : (wireOf s x.pv : Wire D β).isSync with
    | false => rfl
    | true => exact absurd ((factsOf x hxm).1.1 hsy) (hno x hx)
  · intro y hy
    obtain ⟨x, hxc, hkind, hpath, _⟩ := cfgVals_of_mem values 0 y hy
    obtain ⟨_, _, _, _, _, _, hlt⟩ := cfgVals_mem values 0 x hxc
    obtain ⟨pre, hp, hq⟩ := built_queue hv hb
    rcases hq with ⟨h, _⟩ | ⟨_, sv, hvals, _, _⟩
    · cases h
    · have hxu : x ∈ u.vals := by rw [hvals]; exact List.mem_append_left _ (hp.symm.subset hxc)
      have hfirst := sync_after_firsts hv hb n e1 e2 e hsplit heid x.id (by omega)
      obtain ⟨e', he', hid'⟩ := List.mem_map.mp hfirst
      have he'm : e' ∈ emits n u := hmem e' (List.mem_append_left _ he')
      obtain ⟨x', hx', hx'id, _, hpath'⟩ := emit_origin hi n e' he'm
      have hxx : x' = x := eq_of_id_eq u.vals hi.nodup x' hx' x hxu (hx'id.trans hid')
      subst hxx
      have hne : e'.id ≠ values.length := by omega
      refine ⟨wireOf s e'.pv, by rw [← hm1]; exact List.mem_map.mpr ⟨e', he', rfl⟩, ?_, ?_⟩
      · cases hsy : (wireOf s e'.pv : Wire D β).isSync with
        | false => rfl
        | true => exact absurd ((factsOf e' he'm).1.1 hsy) hne
      · rw [(factsOf e' he'm).2.2 hne, hpath', hpath]

/-- **sync_exactly_once_at_end.**  Once the queue has run empty (so every configured repeat is
bounded) the stream received contains the sync response, exactly once. -/
theorem sync_exactly_once_at_end {g : Draws} {values : List (PVal D × Option Draws)} {u : UQ D}
    (hv : Accepted values) (hk : AllKinds values) (hs : NoUserSync values) (hb : Built g values false u)
    (c : Config D β) (s : SubList) (n m : Nat) (hm : m < n) (hex : (after m u).vals = []) :
    ∃ l1 l2, (processQueue c s n (.gen u)).1 = l1 ++ Wire.sync true :: l2 ∧
      ∀ w ∈ l1 ++ l2, w.isSync = false := by
  have hi := built_inv hv hb
  have hn := built_noUnset hv hk hb
  obtain ⟨pre, _, hq⟩ := built_queue hv hb
  rcases hq with ⟨h, _⟩ | ⟨_, sv, hvals, hsid, hspv⟩
  · cases h
  · have hsv : sv ∈ u.vals := by rw [hvals]; simp
    obtain ⟨_, hcount⟩ := repeat_exact hv hb m hex sv hsv
    have hrep : sv.pv.repeat_ = 1 := by rw [hspv]; rfl
    rw [hrep] at hcount
    have hpos : 0 < (proj sv.id (emits m u)).length := by omega
    obtain ⟨e, he⟩ := List.exists_mem_of_length_pos hpos
    simp only [proj, List.mem_filter, beq_iff_eq] at he
    have hemn : emits n u = emits m u := by
      have hj : ∀ j, emits (m + j) u = emits m u := by
        intro j
        rw [emits_add]
        have hx := exhausted_stays (after m u) (after_inv m hi).wf hex
        rw [emits_of_fix j (after m u) (by rw [hx]) (by rw [hx]; simp)]
        simp
      have : n = m + (n - m) := by omega
      rw [this, hj]
    have hen : e ∈ emits n u := by rw [hemn]; exact he.1
    obtain ⟨a, b, hab⟩ := List.append_of_mem hen
    have heid : e.id = values.length := he.2.trans hsid
    obtain ⟨h1, h2⟩ := emits_conv n u hi hn e hen
    obtain ⟨_, _, _, _, _, hone⟩ := wireOf_facts (β := β) s e.pv h1 h2
    have hw : (wireOf s e.pv : Wire D β) = .sync true := hone ((sync_emission_iff hv hs hb n e hen).2 heid)
    have hmsgs : (processQueue c s n (.gen u)).1 =
        a.map (fun e => wireOf s e.pv) ++ Wire.sync true :: b.map (fun e => wireOf s e.pv) := by
      rw [(stream_is_emits hv hk hb c s n).1, hab, List.map_append, List.map_cons, hw]
    exact ⟨_, _, hmsgs, (sync_after_firsts_stream hv hk hs hb c s n _ _ true hmsgs).2.1⟩

/-- **no_sync_when_disabled.**  With `disable_sync` (and no sync value in the configuration) no
sync response is ever sent. -/
theorem no_sync_when_disabled {g : Draws} {values : List (PVal D × Option Draws)} {u : UQ D}
    (hv : Accepted values) (hk : AllKinds values) (hs : NoUserSync values) (hb : Built g values true u)
    (c : Config D β) (s : SubList) (n : Nat) :
    ∀ w ∈ (processQueue c s n (.gen u)).1, w.isSync = false := by
  have hi := built_inv hv hb
  have hn := built_noUnset hv hk hb
  intro w hw
  rw [(stream_is_emits hv hk hb c s n).1] at hw
  obtain ⟨e, he, rfl⟩ := List.mem_map.mp hw
  obtain ⟨x, hx, _, hsame, _⟩ := emit_origin hi n e he
  obtain ⟨pre, hp, hq⟩ := built_queue hv hb
  rcases hq with ⟨_, hvals⟩ | ⟨h, _⟩
  · rw [hvals] at hx
    obtain ⟨y, hy, h1, _⟩ := cfgVals_mem values 0 x (hp.subset hx)
    obtain ⟨h1', h2'⟩ := emits_conv n u hi hn e he
    obtain ⟨_, _, _, hsy, _⟩ := wireOf_facts (β := β) s e.pv h1' h2'
    cases hww : (wireOf s e.pv : Wire D β).isSync with
    | false => rfl
    | true =>
      obtain ⟨k, hk'⟩ := (same_sync hsame).2 (hsy.1 hww)
      rw [h1] at hk'
      exact absurd hk' (hs y hy k)
  · cases h

/-! ## the `fixed` generator -/

/-- with `enable_delay`, `FixedQueue.Next` dereferences the notification of every update response
it looks at: no `Update` wrapper may hold a nil notification -/
def GoodFixed (c : Config D β) (resps : List (FResp β)) : Prop :=
  c.enableDelay = false ∨ ∀ r ∈ resps, r ≠ .emptyUpdate

omit [DOps D] [LawfulDOps D] in
theorem goodShape_fx (r : FResp β) : goodShape (fx r).shape = true ↔ r ≠ .emptyUpdate := by
  cases r <;> simp [fx, shapeOf, goodShape]

omit [LawfulDOps D] in
/-- one pass over a well-formed `FixedQueue`: the queued responses, in order, each cloned and
stamped; the pass ends as the configuration says once they are all sent -/
theorem pq_fixed (c : Config D β) (s : SubList) (n : Nat) : ∀ (q : FXQ.FQ (FResp β)), Good q →
    (processQueue c s n (.fixed q)).1 = (q.resp.take n).map (fun r => stamp s (ofFixed r.tag)) ∧
    (processQueue c s n (.fixed q)).2.1 = if q.resp.length < n then exhaustedEnd c s else .more := by
  induction n with
  | zero => intro q _; simp [processQueue]
  | succ n ih =>
    intro q hg
    cases hq : q.resp with
    | nil =>
      have := next_nil q hq
      simp [processQueue, nextInQueue, this]
    | cons r rest =>
      obtain ⟨q', hnx, h1, _, _⟩ := next_good q hg r rest hq
      have hg' : Good q' := by
        have := good_of_next q hg
        rw [hnx] at this
        exact this
      obtain ⟨ih1, ih2⟩ := ih q' hg'
      simp only [processQueue, nextInQueue, hnx, List.take_succ_cons, List.map_cons, ih1, ih2, h1,
        List.length_cons, Nat.add_lt_add_iff_right, and_self]

omit [LawfulDOps D] in
/-- **fixed_stream_verbatim.**  With the `fixed` generator the subscriber receives exactly the
configured responses, in order, followed by one `sync true` unless `disable_sync` — each a copy
with only `prefix.target` overwritten by the requested target (if any) — whatever `values` and
the seed are; after the last one the stream ends as the configuration says. -/
theorem fixed_stream_verbatim (c : Config D β) (resps : List (FResp β)) (hgen : c.generator = .fixed resps)
    (hgood : GoodFixed c resps) (s : SubList) (n : Nat) :
    ∃ q, FA.reset c = .ok (.fixed q) ∧
      (processQueue c s n (.fixed q)).1 =
        ((resps ++ (if c.disableSync then [] else [syncResp])).take n).map (fun r => stamp s (ofFixed r)) ∧
      (processQueue c s n (.fixed q)).2.1 =
        if (resps ++ (if c.disableSync then [] else [syncResp])).length < n then exhaustedEnd c s else .more := by
  have hq : ∀ l : List (FResp β), (l.map fx).map (fun r => stamp s (ofFixed (D := D) r.tag)) =
      l.map (fun r => stamp s (ofFixed r)) := by
    intro l; simp [fx]
  have hgoodq : ∀ l : List (FResp β), (∀ r ∈ l, r ≠ .emptyUpdate) → ∀ x ∈ l.map fx, goodShape x.shape = true := by
    intro l hl x hx
    obtain ⟨r, hr, rfl⟩ := List.mem_map.mp hx
    exact (goodShape_fx r).2 (hl r hr)
  cases hds : c.disableSync with
  | true =>
    have hg : Good (FXQ.newFixed (resps.map fx) c.enableDelay) := by
      rcases hgood with h | h
      · exact Or.inl h
      · exact Or.inr (hgoodq resps h)
    obtain ⟨h1, h2⟩ := pq_fixed c s n _ hg
    refine ⟨FXQ.newFixed (resps.map fx) c.enableDelay, by simp [FA.reset, hgen, hds], ?_, ?_⟩
    · rw [h1]; simp [FXQ.newFixed, ← List.map_take, fx]
    · rw [h2]; simp [FXQ.newFixed]
  | false =>
    have hg : Good (FXQ.add (FXQ.newFixed (resps.map fx) c.enableDelay) (fx syncResp)) := by
      rcases hgood with h | h
      · exact Or.inl h
      · refine Or.inr ?_
        have := hgoodq (resps ++ [syncResp]) (by
          intro r hr
          rcases List.mem_append.mp hr with hr | hr
          · exact h r hr
          · simp only [List.mem_singleton] at hr; rw [hr]; simp [syncResp])
        simpa [FXQ.add, FXQ.newFixed] using this
    obtain ⟨h1, h2⟩ := pq_fixed c s n _ hg
    refine ⟨FXQ.add (FXQ.newFixed (resps.map fx) c.enableDelay) (fx syncResp), by simp [FA.reset, hgen, hds], ?_, ?_⟩
    · rw [h1]
      simp only [FXQ.add, FXQ.newFixed, Bool.false_eq_true, if_false]
      rw [show resps.map fx ++ [fx syncResp] = (resps ++ [syncResp]).map fx by simp, ← List.map_take]
      exact hq _
    · rw [h2]; simp [FXQ.add, FXQ.newFixed]

omit [DOps D] [LawfulDOps D] in
/-- **generator_selection.**  Only `fixed` is ever looked at: with no generator, `custom` or
`random` the queue is the `UpdateQueue` over `values` (the same in all three cases); with `fixed`
neither `values` nor the seed matter. -/
theorem generator_selection (c : Config D β) :
    (FA.reset ({ c with generator := .custom } : Config D β) = FA.reset ({ c with generator := .none } : Config D β)) ∧
    (FA.reset ({ c with generator := .random } : Config D β) = FA.reset ({ c with generator := .none } : Config D β)) ∧
    (∀ (resps : List (FResp β)) g' values',
        FA.reset ({ c with generator := .fixed resps, g := g', values := values' } : Config D β) =
        FA.reset ({ c with generator := .fixed resps } : Config D β)) := by
  exact ⟨rfl, rfl, fun _ _ _ => rfl⟩

/-! ## `Run` / `Subscribe`: request handling, targets, subscribers -/

omit [LawfulDOps D] in
/-- **subscribe_always_served.**  A first request carrying a `SubscriptionList` is never
rejected, whatever its prefix target and mode: the RPC serves the stream. -/
theorem subscribe_always_served (c : Config D β) (sl : SubList) (n polls : Nat) :
    ∃ msgs e, run c (.subscribe sl) n polls = .served msgs e := by
  unfold run
  cases FA.reset c <;> exact ⟨_, _, rfl⟩

omit [LawfulDOps D] in
/-- **rejected_iff.**  `Run` refuses exactly three first events, with these status codes: end of
stream before any request (`Aborted`), a transport error (its own code), a request that is not a
`SubscriptionList` (`InvalidArgument`). -/
theorem rejected_iff (c : Config D β) (first : First) (n polls : Nat) (st : Status) :
    run c first n polls = .rejected st ↔
      (first = .recvEOF ∧ st = .aborted) ∨ (∃ code, first = .recvErr code ∧ st = .code code) ∨
      (first = .notSubscribe ∧ st = .invalidArgument) := by
  cases first with
  | recvEOF => simp [run]; exact eq_comm
  | recvErr code => simp [run]; exact eq_comm
  | notSubscribe => simp [run]; exact eq_comm
  | subscribe sl =>
    obtain ⟨msgs, e, h⟩ := subscribe_always_served c sl n polls
    rw [h]; simp

/-- The statement one would expect of an agent that serves a named target — *false* of
`testing/fake/gnmi`: `Agent.Subscribe` never compares `prefix.target` with `config.target`. -/
def unknown_target_rejected (D β : Type) [DOps D] : Prop :=
  ∀ (c : Config D β) (t : String) (m : Mode) (n polls : Nat), t ≠ c.target →
    ∃ st, run c (.subscribe { prefixTarget := some t, mode := m }) n polls = .rejected st

omit [LawfulDOps D] in
/-- **unknown_target_not_rejected.**  The fake agent serves a subscription for a target it does
not fake exactly like one for its own target. -/
theorem unknown_target_not_rejected : ¬ unknown_target_rejected D β := by
  intro h
  obtain ⟨st, hst⟩ := h {} "elsewhere" .stream 0 0 (by show "elsewhere" ≠ ""; decide)
  obtain ⟨msgs, e, hs⟩ := subscribe_always_served ({} : Config D β) { prefixTarget := some "elsewhere", mode := .stream } 0 0
  rw [hs] at hst
  cases hst

omit [DOps D] [LawfulDOps D] in
theorem stamp_none (s : SubList) (h : s.stampTarget = none) (w : Wire D β) : stamp s w = w := by
  simp [stamp, h]

omit [DOps D] [LawfulDOps D] in
/-- what stamping does: with a non-empty requested target every notification carries it in its
prefix (the rest of an existing prefix is kept); sync responses are untouched -/
theorem stamp_target (s : SubList) (t : String) (h : s.stampTarget = some t) (w : Wire D β) :
    (∀ ts p b, w = .noti ts p b → stamp s w = .noti ts (some { (p.getD {}) with target := t }) b) ∧
    (∀ b, w = .sync b → stamp s w = .sync b) ∧ (w = .unset → stamp s w = .unset) := by
  refine ⟨?_, ?_, ?_⟩ <;> intros <;> subst_vars <;> simp [stamp, h]

omit [LawfulDOps D] in
theorem pq_target (c : Config D β) (s s0 : SubList) (hm : s0.mode = s.mode) (h0 : s0.stampTarget = none)
    (n : Nat) : ∀ (q : Q D β),
    processQueue c s n q = ((processQueue c s0 n q).1.map (stamp s), (processQueue c s0 n q).2) := by
  have hex : exhaustedEnd c s0 = exhaustedEnd c s := by simp [exhaustedEnd, hm]
  induction n with
  | zero => intro q; simp [processQueue]
  | succ n ih =>
    intro q
    cases hq : nextInQueue q with
    | mk ev q' =>
      cases ev with
      | val pv =>
        cases hc : valToResp pv <;> simp [processQueue, hq, hc, ih q', stamp_none s0 h0]
      | resp r => simp [processQueue, hq, ih q', stamp_none s0 h0]
      | nil => simp [processQueue, hq, hex]
      | _ => simp [processQueue, hq]

/-- the messages of an outcome, transformed -/
def _root_.Gnmi.FA.Outcome.mapMsgs (f : Wire D β → Wire D β) : Outcome D β → Outcome D β
  | .rejected st => .rejected st
  | .served msgs e => .served (msgs.map f) e

omit [LawfulDOps D] in
theorem send_target (c : Config D β) (s s0 : SubList) (hm : s0.mode = s.mode) (h0 : s0.stampTarget = none)
    (n : Nat) : ∀ (polls : Nat) (q : Q D β),
    send c s n polls q = ((send c s0 n polls q).1.map (stamp s), (send c s0 n polls q).2) := by
  intro polls
  induction polls with
  | zero => intro q; simp [send, pq_target c s s0 hm h0 n q]
  | succ p ih =>
    intro q
    simp only [send, pq_target c s s0 hm h0 n q]
    cases (processQueue c s0 n q).2.1 <;> try rfl
    cases c.disableEof
    · simp only [Bool.false_eq_true, if_false]
      cases hr : FA.reset c with
      | ok q' => simp [ih q']
      | _ => rfl
    · rfl

omit [LawfulDOps D] in
/-- **target_only_stamps.**  The requested target never selects or filters anything: the outcome
of a subscription with prefix target `t` is the outcome of the same subscription without a prefix,
with every response stamped (`stamp`: notifications get `prefix.target = t` when `t ≠ ""`). -/
theorem target_only_stamps (c : Config D β) (t : String) (m : Mode) (n polls : Nat) :
    run c (.subscribe { prefixTarget := some t, mode := m }) n polls =
      (run c (.subscribe { prefixTarget := none, mode := m }) n polls).mapMsgs
        (stamp { prefixTarget := some t, mode := m }) := by
  unfold run
  cases hr : FA.reset c with
  | ok q =>
    simp only [Outcome.mapMsgs]
    rw [send_target c { prefixTarget := some t, mode := m } { prefixTarget := none, mode := m } rfl rfl n polls q]
  | _ => rfl

omit [LawfulDOps D] in
/-- **second_subscriber_same_stream.**  Every subscriber gets a fresh `Client` on the agent's
configuration: a later subscriber is served as if it were the first, whatever happened before;
the agent only counts its clients. -/
theorem second_subscriber_same_stream (a : Agent D β) (f1 f2 : First) (n1 p1 n2 p2 : Nat) :
    ((a.subscribe f1 n1 p1).2.subscribe f2 n2 p2).1 = (a.subscribe f2 n2 p2).1 ∧
    ((a.subscribe f1 n1 p1).2.subscribe f2 n2 p2).2.clients = a.clients + 2 ∧
    (a.subscribe f1 n1 p1).2.config = a.config :=
  ⟨rfl, rfl, rfl⟩

omit [DOps D] [LawfulDOps D] in
/-- `New` refuses a nil configuration only -/
theorem new_iff (config : Option (Config D β)) : (Agent.new config).isSome = config.isSome := by
  cases config <;> rfl

/-! ## POLL -/

omit [LawfulDOps D] in
theorem pq_no_awaitPoll (c : Config D β) (s : SubList) (hm : s.mode ≠ .poll) (n : Nat) : ∀ (q : Q D β),
    (processQueue c s n q).2.1 ≠ .awaitPoll := by
  induction n with
  | zero => intro q; simp [processQueue]
  | succ n ih =>
    intro q
    cases hq : nextInQueue q with
    | mk ev q' =>
      cases ev with
      | val pv => cases hc : valToResp pv <;> simp [processQueue, hq, hc, ih q']
      | resp r => simp [processQueue, hq, ih q']
      | nil =>
        simp only [processQueue, hq, exhaustedEnd, hm, if_false]
        cases c.disableEof <;> simp
      | _ => simp [processQueue, hq]

omit [LawfulDOps D] in
/-- **polls_ignored_outside_poll_mode.**  In STREAM and ONCE mode further requests change nothing. -/
theorem polls_ignored_outside_poll_mode (c : Config D β) (s : SubList) (hm : s.mode ≠ .poll) (n polls : Nat)
    (q : Q D β) : send c s n polls q = send c s n 0 q := by
  cases polls with
  | zero => rfl
  | succ p =>
    have := pq_no_awaitPoll c s hm n q
    simp only [send]

omit [LawfulDOps D] in
/-- **poll_replays.**  POLL mode without `disable_eof`: when a pass ends waiting for a poll, every
`Poll` request makes the agent rebuild its queue from the configuration and send the *same* pass
again: after `p` polls the subscriber has received `p + 1` copies of the pass, and the agent waits
for the next poll (the stream never ends by itself). -/
theorem poll_replays (c : Config D β) (s : SubList) (he : c.disableEof = false) (n : Nat) (q0 : Q D β)
    (hr : FA.reset c = .ok q0) (hpass : (processQueue c s n q0).2.1 = .awaitPoll) (p : Nat) :
    send c s n p q0 = ((List.replicate (p + 1) (processQueue c s n q0).1).flatten, .awaitPoll) := by
  induction p with
  | zero => simp [send, hpass]
  | succ p ih =>
    simp only [send, hpass, he, hr, ih, Bool.false_eq_true, if_false]
    rw [List.replicate_succ (n := p + 1), List.flatten_cons]

omit [LawfulDOps D] in
/-- **poll_held_when_disable_eof.**  POLL mode with `disable_eof`: the first served poll sends
nothing further — `send` then holds the stream (`<-c.canceledCh`) instead of looping. -/
theorem poll_held_when_disable_eof (c : Config D β) (s : SubList) (he : c.disableEof = true) (n : Nat) (q : Q D β)
    (hpass : (processQueue c s n q).2.1 = .awaitPoll) (p : Nat) :
    send c s n (p + 1) q = ((processQueue c s n q).1, .held) := by
  simp [send, hpass, he]

/-! ## seeds -/

/-- the seeds a configuration hands to `rand.NewSource` -/
def _root_.Gnmi.FA.ProtoConfig.seeds (p : ProtoConfig D β) : List Int :=
  p.seed :: (p.values.map (·.seed)).filter (· ≠ 0)

omit [DOps D] [LawfulDOps D] in
theorem instantiate_congr (src₁ src₂ : Int → Draws) (p : ProtoConfig D β)
    (hsrc : ∀ sd ∈ p.seeds, src₁ sd = src₂ sd) : p.instantiate src₁ = p.instantiate src₂ := by
  unfold ProtoConfig.instantiate
  have hg : src₁ p.seed = src₂ p.seed := hsrc _ (List.mem_cons_self ..)
  have hvals : p.values.map (fun v => (v.pv, if v.seed = 0 then none else some (src₁ v.seed))) =
      p.values.map (fun v => (v.pv, if v.seed = 0 then none else some (src₂ v.seed))) := by
    apply List.map_congr_left
    intro v hv
    by_cases h0 : v.seed = 0
    · simp [h0]
    · simp only [h0, if_false]
      rw [hsrc v.seed (List.mem_cons_of_mem _ (List.mem_filter.mpr ⟨List.mem_map.mpr ⟨v, hv, rfl⟩, by simp [h0]⟩))]
  rw [hg, hvals]

omit [LawfulDOps D] in
/-- **same_seed_same_stream.**  Two agents built from the same written configuration — global seed,
per-value seeds, values, flags, generator — serve identical outcomes (responses and end of stream)
to identical requests, for any two seeded sources that deliver the same draws for the seeds the
configuration names (`p.seeds`): the stream depends on `math/rand` only through
`rand.NewSource(seed)` of those seeds (and on nothing else: not on the clients served before, not
on time).  For the generator arm this composes `deterministic` (one generator per configuration
and draws) with the send loop. -/
theorem same_seed_same_stream (src₁ src₂ : Int → Draws) (p : ProtoConfig D β)
    (hsrc : ∀ sd ∈ p.seeds, src₁ sd = src₂ sd) (a₁ a₂ : Agent D β)
    (h₁ : a₁.config = p.instantiate src₁) (h₂ : a₂.config = p.instantiate src₂)
    (first : First) (n polls : Nat) :
    (a₁.subscribe first n polls).1 = (a₂.subscribe first n polls).1 := by
  simp only [Agent.subscribe, h₁, h₂, instantiate_congr src₁ src₂ p hsrc]

omit [LawfulDOps D] in
/-- the generator-arm form, through `deterministic`: equal seeds give one generator, hence one
response sequence -/
theorem same_seed_same_generator (src : Int → Draws) (p : ProtoConfig D β) (u₁ u₂ : UQ D)
    (h₁ : Built (p.instantiate src).g (p.instantiate src).values p.disableSync u₁)
    (h₂ : Built (p.instantiate src).g (p.instantiate src).values p.disableSync u₂)
    (c : Config D β) (s : SubList) (n : Nat) :
    processQueue c s n (.gen u₁) = processQueue c s n (.gen u₂) := by
  rw [(deterministic h₁ h₂ n).1]

/-! ## Non-vacuity and concrete witnesses (the example configuration of Props/C20.lean) -/

section NonVacuity

local instance : DOps Int where
  zero := 0
  lt a b := decide (a < b)
  ne0 x := x != 0
  unit v := Int.ofNat v
  isOne f := f == 1
  add a b := a + b
  sub a b := a - b
  mul a b := a * b

/-- the example configuration as an agent configuration: target `dev`, sync injection, EOF -/
def exAgentCfg : Config Int Nat := { target := "dev", g := exG, values := exCfg }

/-- a finite variant: the unbounded string value gets repeat 2 -/
def exFinite : List (PVal Int × Option Draws) :=
  exCfg.map (fun x => ({ x.1 with repeat_ := if x.1.repeat_ = 0 then 2 else x.1.repeat_ }, x.2))

def exFiniteCfg : Config Int Nat := { target := "dev", g := exG, values := exFinite }

/-- what is compared in the decided examples: (is sync, timestamp, path, prefix target) -/
structure View where
  sync : Bool
  ts : Option Int
  path : Option (List String)
  target : Option String
  deriving DecidableEq

def view (w : Wire Int Nat) : View := ⟨w.isSync, w.ts?, w.path?, w.target?⟩

structure OutView where
  msgs : List View
  e : End
  deriving DecidableEq

def viewOutcome : Outcome Int Nat → Option OutView
  | .rejected _ => none
  | .served msgs e => some ⟨msgs.map view, e⟩

theorem exCfg_allKinds : AllKinds exCfg := by
  intro x hx
  simp only [exCfg, List.mem_cons, List.not_mem_nil, or_false] at hx
  rcases hx with rfl | rfl | rfl <;> simp

theorem exCfg_noUserSync : NoUserSync exCfg := by
  intro x hx k
  simp only [exCfg, List.mem_cons, List.not_mem_nil, or_false] at hx
  rcases hx with rfl | rfl | rfl <;> simp

/-- the hypotheses of the stream theorems are satisfiable: the example configuration is accepted,
has kinds everywhere and no sync value of its own, and its generator exists -/
example : Accepted exCfg ∧ AllKinds exCfg ∧ NoUserSync exCfg ∧ ∃ u, Built exG exCfg false u :=
  ⟨exCfg_accepted, exCfg_allKinds, exCfg_noUserSync, build_never_fails exG exCfg false exCfg_accepted⟩

/-- a subscriber asking for the target `elsewhere` (the agent fakes `dev`) is served: the first six
responses — delete of `c` at 0, updates of `a` and `b` at 5, the sync response, two more updates
of `b` — all stamped `elsewhere`; the stream is still running (the value `b` is unbounded) -/
theorem unknown_target_served_witness :
    viewOutcome (run exAgentCfg (.subscribe { prefixTarget := some "elsewhere" }) 6 0) =
      some ⟨[⟨false, some 0, some ["c"], some "elsewhere"⟩, ⟨false, some 5, some ["a"], some "elsewhere"⟩,
             ⟨false, some 5, some ["b"], some "elsewhere"⟩, ⟨true, none, none, none⟩,
             ⟨false, some 5, some ["b"], some "elsewhere"⟩, ⟨false, some 6, some ["b"], some "elsewhere"⟩],
            .more⟩ := by
  decide +kernel

/-- without a prefix (or with an empty target) nothing is stamped -/
example : (viewOutcome (run exAgentCfg (.subscribe {}) 3 0)) =
    some ⟨[⟨false, some 0, some ["c"], none⟩, ⟨false, some 5, some ["a"], none⟩,
           ⟨false, some 5, some ["b"], none⟩], .more⟩ := by
  decide +kernel

/-- the finite variant ends by itself: 3 + 2 + 1 emissions and the sync response, then `eof`;
with `disable_eof` the same responses and the stream is held; in POLL mode the agent waits for
a poll, and one poll replays the whole pass -/
theorem eof_witness :
    (match run exFiniteCfg (.subscribe {}) 20 0 with
      | .served msgs e => (msgs.length, (msgs.filter (·.isSync)).length, e)
      | _ => (0, 0, .more)) = (7, 1, .eof) ∧
    (match run { exFiniteCfg with disableEof := true } (.subscribe {}) 20 0 with
      | .served msgs e => (msgs.length, e)
      | _ => (0, .more)) = (7, .held) ∧
    (match run exFiniteCfg (.subscribe { mode := .poll }) 20 0 with
      | .served msgs e => (msgs.length, e)
      | _ => (0, .more)) = (7, .awaitPoll) ∧
    (match run exFiniteCfg (.subscribe { mode := .poll }) 20 1 with
      | .served msgs e => (msgs.length, e)
      | _ => (0, .more)) = (14, .awaitPoll) ∧
    (match run { exFiniteCfg with disableEof := true } (.subscribe { mode := .poll }) 20 1 with
      | .served msgs e => (msgs.length, e)
      | _ => (0, .more)) = (7, .held) := by
  decide +kernel

/-- **error_looks_like_eof.**  A value without a kind and `repeat = 1` is *accepted* by the queue
(`ValidPV`: it is never advanced) but refused by `valToResp`: the stream ends there (`convErr` —
for the subscriber a clean end of stream, since `Run` returns nil after `send` logged the error),
and the values behind it — here the update of `z` at timestamp 9 and the sync response — are never
sent.  This is why `stream_is_emits` needs `AllKinds`, and `stream_is_emits_general` says
`takeWhile`. -/
theorem error_looks_like_eof :
    let cfg : Config Int Nat :=
      { g := exG, values := [({ path := ["k"], ts := some { ts := 1 }, repeat_ := 1, kind := .unset }, none),
                             ({ path := ["z"], ts := some { ts := 9 }, repeat_ := 1, kind := .bool true .const }, none)] }
    Accepted cfg.values ∧ viewOutcome (run cfg (.subscribe {}) 10 0) = some ⟨[], .convErr⟩ := by
  refine ⟨?_, by decide +kernel⟩
  intro x hx
  simp only [List.mem_cons, List.not_mem_nil, or_false] at hx
  rcases hx with rfl | rfl <;> exact Or.inl rfl

/-- the fixed generator: two notifications (one with a prefix of its own) and the injected sync,
requested target `t`: the prefix keeps origin and elements, only the target is overwritten -/
example :
    (match run ({ generator := .fixed [.noti 5 none 1, .noti 7 (some { target := "dev", origin := "oc", elems := ["p"] }) 2],
                  values := exCfg, g := exG } : Config Int Nat)
        (.subscribe { prefixTarget := some "t" }) 9 0 with
      | .served msgs e => (msgs.map (fun w => match w with
          | .noti ts (some p) (.fixed b) => [toString ts, p.target, p.origin, toString p.elems, toString b]
          | .sync true => ["sync"]
          | _ => ["?"]), e)
      | _ => ([], .more)) =
    ([["5", "t", "", "[]", "1"], ["7", "t", "oc", "[p]", "2"], ["sync"]], .eof) := by
  decide +kernel

end NonVacuity

end C20
end Gnmi
