import Gnmi.Lemmas.PipelineOnce
import Gnmi.Props.C01Glue
/-!
# C01 — the collector relays each configured target's state to subscribers faithfully

Statements about the composition `Gnmi/Model/Pipeline.lean` (target stream →
`manager.handleGNMIUpdate` → the collector's `Update` closure → `Cache` → feed → Subscribe server
→ `client/gnmi` decode → `CacheClient` tree → `Leaves()`), against the abstract specification
`Gnmi/Spec/Relay.lean` (a target's *view*: key ↦ (timestamp, value); `expected`: the leaves a
client must hold).  The glue theorems (`stamp_target_spec`, `configured_targets_registered`,
`cli_invocations_equivalent`, the decode lemma) are in `Props/C01Glue.lean`.
-/
namespace Gnmi
namespace C01
open Cache Pipeline Relay

/-! ## The collector right after start -/

/-- `collector.start` registers every configured target as a fresh (empty) cache target -/
theorem start_fresh (cfg : TargetCfg.Cfg) (hv : TargetCfg.validate cfg = .ok ()) (name : String)
    (hn : name ∈ TargetCfg.keys cfg.target) :
    (Coll.start cfg).cache.get name = some { name := name } := by
  obtain ⟨t, hmem⟩ := mem_keys hn
  have hok := validate_entries hv (name, t) hmem
  have keep : ∀ (l : List (String × TargetCfg.TgtP)) (c : Coll), c.cache.get name = some { name := name } →
      (l.foldl (fun c kv => c.add cfg kv.1 kv.2) c).cache.get name = some { name := name } := by
    intro l
    induction l with
    | nil => intro c h; exact h
    | cons kv l ih =>
      intro c h
      simp only [List.foldl_cons]
      apply ih
      rw [add_cache]
      cases kv.2 with
      | none => exact h
      | some t' =>
        simp only
        cases TargetCfg.find t'.request cfg.request with
        | none => exact h
        | some sr =>
          simp only [State.add]
          by_cases e : name = kv.1
          · rw [← e, get_set_same]
          · rw [get_set_other _ _ _ _ e]; exact h
  have reach : ∀ (l : List (String × TargetCfg.TgtP)) (c : Coll), (name, t) ∈ l →
      (l.foldl (fun c kv => c.add cfg kv.1 kv.2) c).cache.get name = some { name := name } := by
    intro l
    induction l with
    | nil => intro c h; cases h
    | cons kv l ih =>
      intro c h
      simp only [List.foldl_cons]
      cases List.mem_cons.1 h with
      | inl e =>
        subst e
        apply keep
        obtain ⟨t', rfl, _, _, sr, hf⟩ := hok.target
        rw [add_cache]
        simp only [hf, State.add, get_set_same]
      | inr hm => exact ih _ hm
  exact reach cfg.target {} hmem

theorem add_cfg (c : Coll) (cfg : TargetCfg.Cfg) (id : String) (t : TargetCfg.TgtP) :
    (c.add cfg id t).cache.cfg = c.cache.cfg := by
  rw [add_cache]
  cases t with
  | none => rfl
  | some t' =>
    simp only
    cases TargetCfg.find t'.request cfg.request with
    | none => rfl
    | some sr => exact set_cfg _ _ _

/-- the collector's cache is created by `cache.New(nil)`: no future threshold -/
theorem start_threshold (cfg : TargetCfg.Cfg) : (Coll.start cfg).cache.cfg.futureThr = 0 := by
  have : ∀ (l : List (String × TargetCfg.TgtP)) (c : Coll),
      (l.foldl (fun c kv => c.add cfg kv.1 kv.2) c).cache.cfg = c.cache.cfg := by
    intro l
    induction l with
    | nil => intro c; rfl
    | cons kv l ih => intro c; simp only [List.foldl_cons]; rw [ih, add_cfg]
  unfold Coll.start
  rw [this]

theorem agree_fresh (name : String) : Agree ({ name := name } : Target) [] := by
  intro k
  unfold absGet
  split <;> rfl

/-- the state `runCollector` starts serving from satisfies the run invariant, every view empty -/
theorem start_holds (cfg : TargetCfg.Cfg) (hv : TargetCfg.validate cfg = .ok ()) :
    Holds (TargetCfg.keys cfg.target) (Sys.start cfg) (fun _ => []) :=
  ⟨rfl, start_threshold cfg, fun name hn =>
    ⟨_, start_fresh cfg hv name hn, fresh_target_inv name, agree_fresh name, fun kv hkv => by cases hkv⟩⟩

/-! ## The collector glue + cache part -/

/-- **The cache holds each target's final state** (`pipeline_faithful`, collector glue + cache
part).  For every valid configuration, and every run of the collector that is *any interleaving*
of the sessions of its configured targets (any clock readings, `Connect` wherever a session
starts, STREAM clients subscribing anywhere) in which every target's own response stream is well
formed (`Relay.wellFormed true`: prefix-free keys, scalar values, no `*` element, origin not
`meta`, per leaf increasing timestamps — or the stored timestamp with the stored value again —,
deletes newer than what they delete; error responses and responses without payload anywhere): the collector never crashes, and at the end the cache holds,
for every configured target, exactly the target's final view — for every key the timestamp and
value of the last update not deleted afterwards, and nothing else outside `meta/`. -/
theorem collector_cache_holds_final_view (enc : String → String) (cfg : TargetCfg.Cfg)
    (hv : TargetCfg.validate cfg = .ok ()) (steps : List Step)
    (hs : ∀ x ∈ senders steps, x ∈ TargetCfg.keys cfg.target)
    (hwf : ∀ name ∈ TargetCfg.keys cfg.target, wellFormed true (itemsOf name steps) = true) :
    ((Sys.start cfg).run enc steps).crashed = false ∧
    ∀ name ∈ TargetCfg.keys cfg.target,
      ∃ t, ((Sys.start cfg).run enc steps).sub.cache.get name = some t ∧ TInv t ∧
        (∀ k, absGet t k = (finalView (itemsOf name steps)).get k) ∧ Good name t := by
  have hne : ∀ x ∈ TargetCfg.keys cfg.target, x ≠ "" := by
    intro x hx
    obtain ⟨t, hmem⟩ := mem_keys hx
    exact (validate_entries hv (x, t) hmem).name_ne
  have h := Holds.run enc hne steps _ _ (start_holds cfg hv) hs hwf
  exact ⟨h.alive, fun name hn => by
    obtain ⟨t, g1, g2, g3, g4⟩ := h.each name hn
    exact ⟨t, g1, g2, g3, g4⟩⟩

/-! ## End to end: a ONCE client at quiescence -/

theorem isMetaKey_of_prefix {a b : Path} (ha : a ≠ []) (hb : b ≠ []) (h : a.isPrefixOf b = true) :
    isMetaKey a = isMetaKey b := by
  cases a with
  | nil => exact absurd rfl ha
  | cons x xs =>
    cases b with
    | nil => exact absurd rfl hb
    | cons y ys => rw [isPrefixOf_head h]; rfl

theorem decLeaf_eq (n : Noti) : decLeaf n = clientLeaf (n.ts, headVal n) := by
  unfold decLeaf clientLeaf
  cases decodeVal (headVal n) <;> rfl

theorem cget_mem {m : PMap CLeaf} {p : Path} {leaf : CLeaf} (h : cget m p = some leaf) : (p, leaf) ∈ m := by
  unfold cget at h
  simp only [Option.map_eq_some_iff] at h
  obtain ⟨kv, hf, rfl⟩ := h
  have h1 := List.mem_of_find?_eq_some hf
  have h2 := List.find?_some hf
  have : kv.1 = p := by simpa using h2
  rw [← this]; exact h1

/-- **pipeline_faithful, ONCE client** (proved part of `pipeline_faithful`).
For every valid configuration of `n ≥ 1` targets, every run that is any interleaving of
well-formed sessions of the configured targets (as in `collector_cache_holds_final_view`), every
configured target `T` and every list of query paths `qs`: a client that subscribes ONCE to `T`
for `qs` through the collector after the run ends with its RPC closed OK and synced, every leaf
it holds is filed under `T :: …`, and for every key `k` outside `meta/` it holds at `T :: k`
exactly the decoded entry of `T`'s final view when some path of `qs` selects `k` — the last value
(and its timestamp) not deleted afterwards — and nothing otherwise: no missing, no extra, no
stale leaf.  What the server sends is `C05.once_static_exact` (one update per distinct matching
leaf, then sync); what the cache holds is `collector_cache_holds_final_view`. -/
theorem pipeline_faithful_once_partial (enc : String → String) (cfg : TargetCfg.Cfg)
    (hv : TargetCfg.validate cfg = .ok ()) (steps : List Step)
    (hs : ∀ x ∈ senders steps, x ∈ TargetCfg.keys cfg.target)
    (hwf : ∀ name ∈ TargetCfg.keys cfg.target, wellFormed true (itemsOf name steps) = true)
    (T : String) (hT : T ∈ TargetCfg.keys cfg.target) (hstar : T ≠ "*") (qs : List Path) :
    let c := ((Sys.start cfg).run enc steps).once T qs
    c.failed = false ∧ c.synced = true ∧
    (∀ kv ∈ c.leaves, ∃ k, kv.1 = T :: k) ∧ (c.leaves.map (·.1)).Nodup ∧
    ∀ k, isMetaKey k = false →
      cget c.tree (T :: k) =
        if selected qs k = true then ((finalView (itemsOf T steps)).get k).bind clientLeaf else none := by
  intro c
  obtain ⟨_, hall⟩ := collector_cache_holds_final_view enc cfg hv steps hs hwf
  obtain ⟨t, g1, g2, g3, g4⟩ := hall T hT
  have hne : T ≠ "" := by
    obtain ⟨tt, hmem⟩ := mem_keys hT
    exact (validate_entries hv (T, tt) hmem).name_ne
  have hvok := viewOK_final (itemsOf T steps) (hwf T hT)
  -- the walk and what the server sends (C05)
  have hwalk := walkItems_client ((Sys.start cfg).run enc steps).sub.cache T hne hstar t g1 qs
  have hitem : ∀ it ∈ qs.flatMap (fun q => (PMap.query t.tree q).map (fun e => (T, e.1, e.2))),
      it.1 = T ∧ (it.2.1, it.2.2) ∈ t.tree ∧ selected qs it.2.1 = true := by
    intro it hit
    obtain ⟨q, hq, hin⟩ := List.mem_flatMap.1 hit
    obtain ⟨e, he, rfl⟩ := List.mem_map.1 hin
    have := List.mem_filter.1 he
    exact ⟨rfl, this.1, List.any_eq_true.2 ⟨q, hq, this.2⟩⟩
  have hfun : C05.Functional (qs.flatMap (fun q => (PMap.query t.tree q).map (fun e => (T, e.1, e.2)))) := by
    intro a ha b hb _ hk
    have h1 := lookup_some_of_mem g2.unique (hitem a ha).2.1
    have h2 := lookup_some_of_mem g2.unique (hitem b hb).2.1
    rw [hk, h2] at h1
    exact (Option.some.inj h1).symm
  have hacc : C05.Accepted ((Sys.start cfg).run enc steps).sub.cache .absent (clientReq T .once qs) :=
    ⟨rfl, rfl, hne, by simp [State.hasTarget, clientReq, hne, hstar, g1], Or.inr rfl, rfl, trivial⟩
  obtain ⟨sb, hsubs, hstatus, _, body, hout, hsound, hcomplete⟩ :=
    C05.once_static_exact ((Sys.start cfg).run enc steps).sub.cache "once" .absent (clientReq T .once qs) _
      hacc rfl hwalk hfun (fun it hit => by rw [(hitem it hit).1]; exact (g4 _ (hitem it hit).2.1).2.2.1)
  have hc : c = (Client.run true {} (body ++ [.sync])).finish (some .ok) := by
    show Sys.once _ T qs = _
    unfold Sys.once lastSent
    simp only [hsubs, List.getLast?_singleton, hout, hstatus]
  -- the client
  have hgood : ∀ kv ∈ t.tree, GoodLeaf T kv.1 kv.2 ∧ kv.1 ≠ [] := fun kv hkv => ⟨g4 kv hkv, g2.nonEmpty kv hkv⟩
  have inview : ∀ e ∈ t.tree, isMetaKey e.1 = false →
      (e.1, (e.2.ts, headVal e.2)) ∈ finalView (itemsOf T steps) := by
    intro e he hme
    have hl : lookup t.tree e.1 = some e.2 := lookup_some_of_mem g2.unique he
    have := g3 e.1
    unfold absGet at this
    simp only [hme, Bool.false_eq_true, if_false, hl, Option.map_some] at this
    exact View.get_some_mem this.symm
  have hpf : ∀ a ∈ t.tree, ∀ b ∈ t.tree, isMetaKey a.1 = false ∨ isMetaKey b.1 = false →
      a.1.isPrefixOf b.1 = true → a.1 = b.1 := by
    intro a ha b hb hm hp
    have hmeq := isMetaKey_of_prefix (g2.nonEmpty a ha) (g2.nonEmpty b hb) hp
    have hma : isMetaKey a.1 = false := by rcases hm with h | h; exact h; rw [hmeq]; exact h
    have hmb : isMetaKey b.1 = false := by rw [← hmeq]; exact hma
    exact hvok.pf _ (inview a ha hma) _ (inview b hb hmb) hp
  have hw := walkedB_all T hne t.tree g2.unique hgood hpf body [] {}
    ⟨rfl, rfl, rfl, (fun _ h => nomatch h), List.nodup_nil, (fun _ _ _ _ _ h => nomatch h)⟩
    (by
      intro x hx
      obtain ⟨it, hit, d, rfl, _⟩ := hsound x hx
      exact ⟨it.2.1, it.2.2, d, rfl, (hitem it hit).2.1⟩)
  simp only [List.nil_append] at hw
  have hrun : Client.run true {} (body ++ [.sync]) =
      { (List.foldl (Client.recv true) {} body) with synced := true, stopped := true } := by
    unfold Client.run
    rw [List.foldl_append]
    simp only [List.foldl_cons, List.foldl_nil]
    exact decode_sync true _ hw.failed hw.stopped
  rw [hc, hrun]
  refine ⟨hw.failed, rfl, ?_, hw.nodup, ?_⟩
  · intro kv hkv
    obtain ⟨k, _, _, e, _⟩ := hw.keys kv hkv
    exact ⟨k, e⟩
  · intro k hk
    show cget (List.foldl (Client.recv true) {} body).tree (T :: k) = _
    -- a leaf the client holds came with the walk
    have hback : ∀ leaf, cget (List.foldl (Client.recv true) {} body).tree (T :: k) = some leaf →
        ∃ n, (k, n) ∈ t.tree ∧ selected qs k = true := by
      intro leaf hl
      obtain ⟨k2, n2, d2, e1, e2, e3⟩ := hw.keys _ (cget_mem hl)
      simp only [List.cons.injEq, true_and] at e1
      subst e1
      obtain ⟨it, hit, d, hx, _⟩ := hsound _ e3
      simp only [Sub.Resp.upd.injEq] at hx
      obtain ⟨_, hin, hsel⟩ := hitem it hit
      -- the same notification is filed under one key only
      obtain ⟨_, _, _, u1, hu1, _, hk1⟩ := g4 _ e2
      obtain ⟨_, _, _, u2, hu2, _, hk2⟩ := g4 _ hin
      have a1 : n2.upd = [u1] := hu1
      have a2 : it.2.2.upd = [u2] := hu2
      rw [← hx.1, a1] at a2
      simp only [List.cons.injEq, and_true] at a2
      have b1 : k = joinKey n2 u1.path := hk1
      have b2 : it.2.1 = joinKey it.2.2 u2.path := hk2
      have : it.2.1 = k := by rw [b1, b2, ← hx.1, a2]
      rw [this] at hsel
      exact ⟨n2, e2, hsel⟩
    by_cases hsel : selected qs k = true
    · simp only [hsel, if_true]
      have hg := g3 k
      unfold absGet at hg
      simp only [hk, Bool.false_eq_true, if_false] at hg
      rw [← hg]
      cases hl : lookup t.tree k with
      | some n =>
        have hmem := mem_of_lookup_some hl
        obtain ⟨q, hq, hqm⟩ := List.any_eq_true.1 hsel
        have hit : (T, k, n) ∈ qs.flatMap (fun q => (PMap.query t.tree q).map (fun e => (T, e.1, e.2))) :=
          List.mem_flatMap.2 ⟨q, hq, List.mem_map.2 ⟨(k, n), List.mem_filter.2 ⟨hmem, hqm⟩, rfl⟩⟩
        obtain ⟨d, hd⟩ := hcomplete _ hit rfl
        rw [hw.get k n d hk hmem hd]
        simp [decLeaf_eq]
      | none =>
        simp only [Option.map_none, Option.bind_none]
        cases hcg : cget (List.foldl (Client.recv true) {} body).tree (T :: k) with
        | none => rfl
        | some leaf =>
          obtain ⟨n, hn, _⟩ := hback leaf hcg
          rw [lookup_some_of_mem g2.unique hn] at hl
          cases hl
    · simp only [hsel, if_false]
      cases hcg : cget (List.foldl (Client.recv true) {} body).tree (T :: k) with
      | none => rfl
      | some leaf => exact absurd (hback leaf hcg).choose_spec.2 hsel

/-- … in the words of the specification: outside `meta/`, the leaves the ONCE client holds are
exactly `Relay.expected` of the target's final view (path `T :: origin-or-openconfig :: index`,
value `ToScalar`). -/
theorem once_client_holds_expected (enc : String → String) (cfg : TargetCfg.Cfg)
    (hv : TargetCfg.validate cfg = .ok ()) (steps : List Step)
    (hs : ∀ x ∈ senders steps, x ∈ TargetCfg.keys cfg.target)
    (hwf : ∀ name ∈ TargetCfg.keys cfg.target, wellFormed true (itemsOf name steps) = true)
    (T : String) (hT : T ∈ TargetCfg.keys cfg.target) (hstar : T ≠ "*") (qs : List Path)
    (k : Path) (cv : CVal) (hk : isMetaKey k = false) :
    (∃ ts, cget (((Sys.start cfg).run enc steps).once T qs).tree (T :: k) = some { ts := ts, val := cv }) ↔
      (T :: k, cv) ∈ expected T (finalView (itemsOf T steps)) qs := by
  obtain ⟨_, _, _, _, hget⟩ := pipeline_faithful_once_partial enc cfg hv steps hs hwf T hT hstar qs
  have hvok := viewOK_final (itemsOf T steps) (hwf T hT)
  rw [hget k hk]
  unfold expected
  simp only [List.mem_filterMap, List.mem_filter]
  constructor
  · rintro ⟨ts, h⟩
    by_cases hq : selected qs k = true
    · simp only [hq, if_true] at h
      cases hg : (finalView (itemsOf T steps)).get k with
      | none => rw [hg] at h; cases h
      | some x =>
        rw [hg] at h
        simp only [Option.bind_some] at h
        refine ⟨(k, x), ⟨View.get_some_mem hg, hq⟩, ?_⟩
        unfold clientLeaf at h
        unfold leafOf
        cases hd : decodeVal x.2 with
        | val c => rw [hd] at h; simp only [Option.some.injEq, CLeaf.mk.injEq] at h; simp [h.2]
        | skip => rw [hd] at h; cases h
        | err => rw [hd] at h; cases h
    · simp [hq] at h
  · rintro ⟨⟨k', x⟩, ⟨hm, hq⟩, hl⟩
    unfold leafOf at hl
    cases hd : decodeVal x.2 with
    | val c =>
      rw [hd] at hl
      simp only [Option.some.injEq, Prod.mk.injEq, List.cons.injEq, true_and] at hl
      obtain ⟨rfl, rfl⟩ := hl
      simp only at hq
      refine ⟨x.1, ?_⟩
      simp only [hq, if_true, View.get_of_mem hvok hm, Option.bind_some, clientLeaf, hd]
    | skip => rw [hd] at hl; cases hl
    | err => rw [hd] at hl; cases hl

/-! ## The full statement -/

/-- every update a target streams, in order -/
def updatesOf : List TItem → List Upd
  | [] => []
  | .update _ n :: r => n.upd ++ updatesOf r
  | _ :: r => updatesOf r

/-- the convention of `Model/Cache.lean`: raw renderings stand for `proto.Equal`, so equal
renderings of two updates of one stream mean equal values -/
def RawFaithful (items : List TItem) : Prop :=
  ∀ u ∈ updatesOf items, ∀ u' ∈ updatesOf items, u.raw = u'.raw → u.val = u'.val

/-- what a client of `T` asking for `qs` must hold outside `meta/`: exactly `Relay.expected` -/
def HoldsExpected (c : Client) (T : String) (v : View) (qs : List Path) : Prop :=
  c.failed = false ∧ c.synced = true ∧ (∀ kv ∈ c.leaves, ∃ k, kv.1 = T :: k) ∧
  ∀ k cv, isMetaKey k = false →
    ((∃ ts, cget c.tree (T :: k) = some { ts := ts, val := cv }) ↔ (T :: k, cv) ∈ expected T v qs)

/-- **pipeline_faithful** — the full statement of C01 over the composed model.  For every valid
configuration of `n ≥ 1` targets and every run that is any interleaving of sessions of the
configured targets whose streams are well formed in the sense of the property (`wellFormed
false`: per leaf *non-decreasing* timestamps; raw renderings faithful), every configured target
`T` and every list of admissible queries `qs`:
* a ONCE client of `T` after the run holds exactly `Relay.expected T (final view) qs`;
* a STREAM client of `T` that subscribed at *any* point of the run (`steps = pre ++ subscribe ::
  post`, fresh id) holds the same at the end.

Proved so far:
* the whole ONCE clause **as stated** (`wellFormed false ∧ RawFaithful`, any query paths, no restriction
  on their length): `pipeline_faithful_once_nondecreasing`, `pipeline_faithful_once_clause_holds` in
  `Props/C01Same.lean`, by composing `collector_cache_holds_final_view_nondecreasing` with
  `C05.once_static_exact`.  The same timestamp with *another* value is accepted unless the two
  notifications are `proto.Equal`, which the model decides on raw renderings; the run invariant
  (`Relay.Holds2`, `Lemmas/PipelineSame.lean`) carries `RawFaithful` as one more component (`Relay.From`:
  every update stored outside `meta/` is an update of the target's own stream), so a `proto.Equal`
  re-send has the stored value and rejecting it changes nothing.  `RawFaithful` on the updates' own
  renderings is enough (the duplicate test compares more — also the prefix rendering — and so only
  rejects less) and cannot be dropped (`once_fails_without_rawFaithful`).  The earlier theorems of this
  file (`pipeline_faithful_once_partial`, `once_client_holds_expected`, `pipeline_faithful_partial`) are
  the same for `wellFormed true` streams, where `RawFaithful` is not needed;
* the STREAM clause under `wellFormed false ∧ RawFaithful` plus two hypotheses without which it is false
  of model and code: `pipeline_faithful_stream_nondecreasing` (`Props/C01Same.lean`; for `wellFormed true`:
  `pipeline_faithful_stream_partial` in `Props/C01Stream.lean`) — no target literally named `*`, and
  `ExactStream` (values on which `value.Equal` is the identity: every value without a float/double —
  `exactV_of_noFloat`), composing `C04Seq.stream_converges_partial` (the sequential Subscribe model,
  every history).  Both clauses together: `pipeline_faithful_nondecreasing`.
Not provable: the literal statement.  Without `ExactStream` it is false of model and code
(`pipeline_faithful_refuted` in `Props/C01Stream.lean`): `+0.0` then `-0.0` is withheld as unchanged, a
STREAM client keeps `+0.0`.  The correspondence checks the clause on the real code (component `e2e`,
every subscription point of the exhaustive scope, random ones elsewhere). -/
def pipeline_faithful : Prop :=
  ∀ (enc : String → String) (cfg : TargetCfg.Cfg), TargetCfg.validate cfg = .ok () →
  ∀ (steps : List Step), (∀ x ∈ senders steps, x ∈ TargetCfg.keys cfg.target) →
    (∀ name ∈ TargetCfg.keys cfg.target,
      wellFormed false (itemsOf name steps) = true ∧ RawFaithful (itemsOf name steps)) →
  ∀ (T : String), T ∈ TargetCfg.keys cfg.target → T ≠ "*" →
  ∀ (qs : List Path), qs ≠ [] → (∀ q ∈ qs, queryOK q = true) →
    HoldsExpected (((Sys.start cfg).run enc steps).once T qs) T (finalView (itemsOf T steps)) qs ∧
    ∀ (pre post : List Step) (id : String), steps = pre ++ .subscribe id T qs :: post →
      (∀ st ∈ pre ++ post, match st with
        | .subscribe id' _ _ => id' ≠ id
        | _ => True) →
      HoldsExpected (((Sys.start cfg).run enc steps).streamView id) T (finalView (itemsOf T steps)) qs

/-- the proved part in the shape of the full statement: the ONCE clause, increasing timestamps or
unchanged re-sends -/
theorem pipeline_faithful_partial (enc : String → String) (cfg : TargetCfg.Cfg)
    (hv : TargetCfg.validate cfg = .ok ()) (steps : List Step)
    (hs : ∀ x ∈ senders steps, x ∈ TargetCfg.keys cfg.target)
    (hwf : ∀ name ∈ TargetCfg.keys cfg.target, wellFormed true (itemsOf name steps) = true)
    (T : String) (hT : T ∈ TargetCfg.keys cfg.target) (hstar : T ≠ "*") (qs : List Path) :
    HoldsExpected (((Sys.start cfg).run enc steps).once T qs) T (finalView (itemsOf T steps)) qs := by
  obtain ⟨h1, h2, h3, _, _⟩ := pipeline_faithful_once_partial enc cfg hv steps hs hwf T hT hstar qs
  exact ⟨h1, h2, h3, fun k cv hk => once_client_holds_expected enc cfg hv steps hs hwf T hT hstar qs k cv hk⟩

/-! ## Non-vacuity: a concrete two-target run meeting every hypothesis -/

def cfg2 : TargetCfg.Cfg :=
  { revision := 1, request := [("r", .msg "subscribe")],
    target := [("dev1", some { addresses := ["192.0.2.1:9339"], request := "r" }),
               ("dev2", some { addresses := ["192.0.2.2:9339"], request := "r" })] }

def upd (ts : Int) (p : Path) (i : Int) : TItem :=
  .update true { ts := ts, praw := "nil", upd := [{ path := p, val := .scalar (.int i), raw := toString i }] }

def del (ts : Int) (p : Path) : TItem :=
  .update true { ts := ts, praw := "nil", del := [{ path := p, raw := "d" }] }

/-- dev1: two leaves, one rewritten, one deleted, re-added and re-sent; dev2 interleaved; a sync,
an error response, a STREAM client joining in the middle -/
def steps2 : List Step :=
  [ .recv "dev1" true 0 (upd 10 ["a", "b"] 1),
    .recv "dev2" true 0 (upd 10 ["a", "b"] 100),
    .recv "dev1" false 0 (upd 11 ["a", "c"] 2),
    .subscribe "s1" "dev1" [[]],
    .recv "dev1" false 0 (upd 12 ["a", "b"] 7),
    .recv "dev1" false 0 .error,
    .recv "dev1" false 0 (del 13 ["a", "c"]),
    .recv "dev1" false 0 .sync,
    .recv "dev1" false 0 (upd 14 ["a", "c"] 3),
    .recv "dev1" false 0 (upd 14 ["a", "c"] 3) ]     -- re-sent unchanged

theorem cfg2_valid : TargetCfg.validate cfg2 = .ok () := by
  simp [TargetCfg.validate, TargetCfg.validateList, TargetCfg.validateTarget, TargetCfg.find, cfg2]

example : ∀ x ∈ senders steps2, x ∈ TargetCfg.keys cfg2.target := by decide
example : ∀ name ∈ TargetCfg.keys cfg2.target, wellFormed true (itemsOf name steps2) = true := by decide
example : (finalView (itemsOf "dev1" steps2)).get ["openconfig", "a", "b"] = some (12, .scalar (.int 7)) := by decide
example : (finalView (itemsOf "dev1" steps2)).get ["openconfig", "a", "c"] = some (14, .scalar (.int 3)) := by decide
example : (finalView (itemsOf "dev2" steps2)).get ["openconfig", "a", "b"] = some (10, .scalar (.int 100)) := by decide
/-- the theorem's conclusion on this run, computed: the ONCE client of dev1 holds the rewritten value -/
example : cget (((Sys.start cfg2).run id steps2).once "dev1" [[]]).tree ["dev1", "openconfig", "a", "b"] =
    some { ts := 12, val := .scalar (.int 7) } := by
  have h := (pipeline_faithful_once_partial id cfg2 cfg2_valid steps2 (by decide) (by decide) "dev1" (by decide)
    (by decide) [[]]).2.2.2.2 ["openconfig", "a", "b"] (by decide)
  rw [h]; decide

end C01
end Gnmi
