import Gnmi.Lemmas.CacheHist
/-!
# C02, headline clause over whole histories of cache API calls

"For any sequence of notifications for a target, a leaf always holds the accepted update with
the greatest timestamp received since that leaf was last deleted."

Histories are `State.run` over arbitrary `Op` lists (the API the line-protocol driver executes):
`GnmiUpdate` of any shape (single, multi-update, atomic, deletes, wildcard deletes, empty,
metadata-addressed), `Sync`, `Connect`, `ConnectError`, `Reset`, `Add`, `Remove`, the periodic
`UpdateMetadata`, on any number of targets, with any clock readings and any configuration.

From the history alone the *unit log* of a target is read off (`State.runLog`,
`Lemmas/CacheHist.lean`): the calls of `gnmiUpdate1` (one update unit each, with the result class
the cache answered), of `gnmiRemove1`, the subtree deletes of `Reset`, and `Add`/`Remove`.
`acceptedSince` folds that log, without looking at any tree, into the list of units for leaf
`(T, k)` that were **accepted** (answer `ok`: not stale, not future, not identical, no error)
**since `k` was last removed** (by a delete covering `k` whose timestamp is newer than the last
accepted unit, by `Reset` of the subtree, by `Remove`/`Add` of the target).

`stored_is_max_accepted`: that list is empty iff the leaf is absent; otherwise the leaf holds
exactly its last element; and no element carries a timestamp greater than the stored one.
-/
namespace Gnmi
namespace C02
open Cache

/-- the units for leaf `(T, k)` accepted since its last removal, after history `ops` on the empty
cache (oldest first) -/
def acceptedSince (enc : String → String) (cfg : Cfg) (ops : List Op) (T : String) (k : Path) : List Noti :=
  accepted k [] (State.runLog enc { cfg := cfg } ops T)

/-- **History form, from any well-formed state.**  If `g` tracks leaf `(T, k)` of a well-formed
cache state (`SInv`: unique keys, stored notifications carry an update, targets stored under
their non-empty names), then after any history the ghost run over the history's unit log tracks
it: the leaf holds the last accepted unit (absent iff there is none), and every accepted unit
since the last removal has a timestamp ≤ the stored one. -/
theorem stored_is_max_accepted_from (enc : String → String) (s : State) (hs : SInv s) (ops : List Op)
    (hv : ∀ op ∈ ops, op.valid) (T : String) (k : Path) (g : List Noti) (h : Tr k (s.treeOf T) g) :
    lookup ((s.run enc ops).treeOf T) k = (accepted k g (State.runLog enc s ops T)).getLast? ∧
    ∀ x ∈ accepted k g (State.runLog enc s ops T), ∀ l,
      (accepted k g (State.runLog enc s ops T)).getLast? = some l → x.ts ≤ l.ts :=
  let r := run_tr enc T k ops s g hs hv h
  ⟨r.stored, r.max⟩

/-- **C02 headline clause.**  For every history `ops` of cache API calls on the empty cache (the
only hypothesis: `Add` is called with non-empty names), every target `T` and leaf index `k`,
with `A` the units for `(T, k)` accepted since `k` was last removed:

* (0) the stored leaf *is* `A`'s last element — `lookup = A.getLast?` (an unregistered target
  reads as the empty tree);
* (i) if `A` is empty the leaf is absent (and `A` is empty when `T` is not registered);
* (ii) otherwise `T` is registered and the notification stored at `k` is the last accepted unit;
* (iii) every accepted unit in `A` has a timestamp ≤ the stored one: the stored unit carries the
  greatest timestamp accepted since the last removal.

(Rejected units do not enter `A` by definition of `ghostPrim`; that they do not change the
leaf either is (0), and explicitly `rejected_never_changes_leaf` below.) -/
theorem stored_is_max_accepted (enc : String → String) (cfg : Cfg) (ops : List Op)
    (hv : ∀ op ∈ ops, op.valid) (T : String) (k : Path) :
    let A := acceptedSince enc cfg ops T k
    let s := State.run enc { cfg := cfg } ops
    lookup (s.treeOf T) k = A.getLast? ∧
    (A = [] → ∀ t, s.get T = some t → lookup t.tree k = none) ∧
    (s.get T = none → A = []) ∧
    (∀ last, A.getLast? = some last → ∃ t, s.get T = some t ∧ lookup t.tree k = some last) ∧
    (∀ x ∈ A, ∀ last, A.getLast? = some last → x.ts ≤ last.ts) := by
  intro A s
  have h0 : Tr k (State.treeOf { cfg := cfg } T) [] := by
    rw [treeOf_none (by simp [State.get])]; exact Tr.nil k
  obtain ⟨h1, h2⟩ := stored_is_max_accepted_from enc { cfg := cfg } (SInv.empty cfg) ops hv T k [] h0
  refine ⟨h1, ?_, ?_, ?_, h2⟩
  · intro hA t ht
    have : lookup (s.treeOf T) k = none := by rw [h1]; show A.getLast? = none; rw [hA]; rfl
    rw [treeOf_some ht] at this; exact this
  · intro hn
    have : lookup (s.treeOf T) k = none := by rw [treeOf_none hn]; rfl
    rw [h1] at this
    exact List.getLast?_eq_none_iff.1 this
  · intro last hl
    have hs : lookup (s.treeOf T) k = some last := by rw [h1]; exact hl
    cases hg : s.get T with
    | none => rw [treeOf_none hg] at hs; cases hs
    | some t => rw [treeOf_some hg] at hs; exact ⟨t, rfl, hs⟩

/-- Converse reading of (0): whatever a registered target stores at `k` is the last accepted
unit for `(T, k)`. -/
theorem stored_is_last_accepted (enc : String → String) (cfg : Cfg) (ops : List Op)
    (hv : ∀ op ∈ ops, op.valid) (T : String) (k : Path) (t : Target) (v : Noti)
    (ht : (State.run enc { cfg := cfg } ops).get T = some t) (hl : lookup t.tree k = some v) :
    (acceptedSince enc cfg ops T k).getLast? = some v ∧
    ∀ x ∈ acceptedSince enc cfg ops T k, x.ts ≤ v.ts := by
  obtain ⟨h0, _, _, _, h4⟩ := stored_is_max_accepted enc cfg ops hv T k
  rw [treeOf_some ht, hl] at h0
  exact ⟨h0.symm, fun x hx => h4 x hx v h0.symm⟩

/-- Every element of the ghost list really is a unit the cache was handed for `k` and answered
`ok` to: it occurs in the unit log as `upd x ok` with index `k` (or was in the initial list). -/
theorem accepted_mem (k : Path) : ∀ (L : List Prim) (g : List Noti) (x : Noti), x ∈ accepted k g L →
    x ∈ g ∨ (Prim.upd x .ok ∈ L ∧ unitKey? x = some k)
  | [], _, _, h => Or.inl h
  | p :: L, g, x, h => by
    rw [accepted_cons] at h
    rcases accepted_mem k L _ x h with h1 | ⟨h1, h2⟩
    · cases p with
      | upd n res =>
        simp only [ghostPrim] at h1
        split at h1
        · rename_i hc
          rcases List.mem_append.1 h1 with h1 | h1
          · exact Or.inl h1
          · have : x = n := by simpa using h1
            subst this
            exact Or.inr ⟨by rw [hc.1]; exact List.mem_cons_self .., hc.2⟩
        · exact Or.inl h1
      | del ts q =>
        simp only [ghostPrim] at h1
        split at h1
        · cases h1
        · exact Or.inl h1
      | wipeRoot root =>
        simp only [ghostPrim] at h1
        split at h1
        · cases h1
        · exact Or.inl h1
      | fresh => simp [ghostPrim] at h1
    · exact Or.inr ⟨List.mem_cons_of_mem _ h1, h2⟩

theorem acceptedSince_mem (enc : String → String) (cfg : Cfg) (ops : List Op) (T : String) (k : Path)
    (x : Noti) (h : x ∈ acceptedSince enc cfg ops T k) :
    Prim.upd x .ok ∈ State.runLog enc { cfg := cfg } ops T ∧ unitKey? x = some k := by
  rcases accepted_mem k _ _ x h with h | h
  · cases h
  · exact h

/-- (iv), ghost side: a rejected unit (any answer but `ok`) leaves the accepted list alone. -/
theorem rejected_unit_not_accepted (k : Path) (g : List Noti) (n : Noti) (res : Res) (h : res ≠ .ok) :
    ghostPrim k g (.upd n res) = g := by
  simp [ghostPrim, h]

/-- a run of logged calls that are all update units either rejected or addressed to another leaf -/
theorem accepted_all_rejected (k : Path) : ∀ (L : List Prim) (g : List Noti),
    (∀ p ∈ L, ∃ n res, p = .upd n res ∧ (res ≠ .ok ∨ unitKey? n ≠ some k)) → accepted k g L = g
  | [], _, _ => rfl
  | p :: L, g, h => by
    obtain ⟨n, res, rfl, hr⟩ := h p (List.mem_cons_self ..)
    rw [accepted_cons]
    have : ghostPrim k g (.upd n res) = g := by
      simp only [ghostPrim]
      rw [if_neg]
      rintro ⟨h1, h2⟩
      rcases hr with hr | hr
      · exact hr h1
      · exact hr h2
    rw [this]
    exact accepted_all_rejected k L g (fun p hp => h p (List.mem_cons_of_mem _ hp))

/-- **(iv) A rejected unit never changes the leaf**, at any point of any history: if all the
cache does to target `T` during API call `op` (after history `ops`) is to process update units
that it rejects — stale, future, error — or that are addressed to other leaves, then leaf
`(T, k)` is exactly what it was, and so is its accepted list. -/
theorem rejected_never_changes_leaf (enc : String → String) (cfg : Cfg) (ops : List Op) (op : Op)
    (hv : ∀ o ∈ ops, o.valid) (hvo : op.valid) (T : String) (k : Path)
    (hrej : ∀ p ∈ (State.run enc { cfg := cfg } ops).stepLog enc op T,
      ∃ n res, p = .upd n res ∧ (res ≠ .ok ∨ unitKey? n ≠ some k)) :
    acceptedSince enc cfg (ops ++ [op]) T k = acceptedSince enc cfg ops T k ∧
    lookup ((State.run enc { cfg := cfg } (ops ++ [op])).treeOf T) k =
      lookup ((State.run enc { cfg := cfg } ops).treeOf T) k := by
  have hA : acceptedSince enc cfg (ops ++ [op]) T k = acceptedSince enc cfg ops T k := by
    unfold acceptedSince
    rw [runLog_append, accepted_append]
    simp only [State.runLog, List.append_nil]
    exact accepted_all_rejected k _ _ hrej
  refine ⟨hA, ?_⟩
  have hv' : ∀ o ∈ ops ++ [op], o.valid := by
    intro o ho
    rcases List.mem_append.1 ho with h | h
    · exact hv o h
    · have : o = op := by simpa using h
      rw [this]; exact hvo
  rw [(stored_is_max_accepted enc cfg (ops ++ [op]) hv' T k).1,
    (stored_is_max_accepted enc cfg ops hv T k).1, hA]

/-! ## Caches created `WithServerName`

`State.step` models `Cache.Add` of a cache without a server name (`State.add`); the driver executes
`State.addWith`, which also sets the `serverName` string of the new target (and equals `State.add`
when `cfg.serverName = ""`, `State.addWith_plain`).  The headline clause holds verbatim for
histories run with `addWith`: the new target's tree is empty either way, and the extra
`meta/serverName` unit written by the metadata refresh is part of the unit log
(`genServerNameLog`). -/

/-- one API call with `Add` = `State.addWith` (what the line-protocol driver executes) -/
def stepW (enc : String → String) (s : State) (op : Op) : State :=
  match op with
  | .add name => s.addWith name
  | op => (s.step enc op).1

def runW (enc : String → String) (s : State) : List Op → State
  | [] => s
  | op :: ops => runW enc (stepW enc s op) ops

/-- the unit log along `runW` (the log of one call is `State.stepLog`, unchanged) -/
def runLogW (enc : String → String) (s : State) : List Op → String → List Prim
  | [], _ => []
  | op :: ops, T => s.stepLog enc op T ++ runLogW enc (stepW enc s op) ops T

theorem stepW_eq_step (enc : String → String) (s : State) (op : Op) (h : s.cfg.serverName = "") :
    stepW enc s op = (s.step enc op).1 := by
  cases op <;> first | rfl | exact State.addWith_plain s _ h

theorem stepW_sinv (enc : String → String) (s : State) (op : Op) (hs : SInv s) (hv : op.valid) :
    SInv (stepW enc s op) := by
  cases op with
  | add name => exact hs.set ⟨fresh_target_inv name _, rfl, hv⟩
  | remove name now => exact (step_sinv enc s (.remove name now) hs hv).1
  | reset name now => exact (step_sinv enc s (.reset name now) hs hv).1
  | sync name now => exact (step_sinv enc s (.sync name now) hs hv).1
  | connect name now => exact (step_sinv enc s (.connect name now) hs hv).1
  | connectError name msg now => exact (step_sinv enc s (.connectError name msg now) hs hv).1
  | update now pn n => exact (step_sinv enc s (.update now pn n) hs hv).1
  | updateMetadata now => exact (step_sinv enc s (.updateMetadata now) hs hv).1

theorem stepW_tr (enc : String → String) (s : State) (op : Op) (hs : SInv s) (T : String) (k : Path)
    (g : List Noti) (h : Tr k (s.treeOf T) g) :
    Tr k ((stepW enc s op).treeOf T) (accepted k g (s.stepLog enc op T)) := by
  cases op with
  | add name =>
    simp only [stepW, State.stepLog, State.addWith]
    by_cases hT : name = T
    · subst hT
      simp only [if_true, treeOf_set_same]
      exact Tr.nil k
    · simp only [hT, if_false, accepted_nil]
      rw [treeOf_set_other _ _ _ _ (fun e => hT e.symm)]; exact h
  | remove name now => exact step_tr enc s (.remove name now) hs T k g h
  | reset name now => exact step_tr enc s (.reset name now) hs T k g h
  | sync name now => exact step_tr enc s (.sync name now) hs T k g h
  | connect name now => exact step_tr enc s (.connect name now) hs T k g h
  | connectError name msg now => exact step_tr enc s (.connectError name msg now) hs T k g h
  | update now pn n => exact step_tr enc s (.update now pn n) hs T k g h
  | updateMetadata now => exact step_tr enc s (.updateMetadata now) hs T k g h

theorem runW_tr (enc : String → String) (T : String) (k : Path) :
    ∀ (ops : List Op) (s : State) (g : List Noti), SInv s → (∀ op ∈ ops, op.valid) →
      Tr k (s.treeOf T) g → Tr k ((runW enc s ops).treeOf T) (accepted k g (runLogW enc s ops T))
  | [], _, _, _, _, h => h
  | op :: ops, s, g, hs, hv, h => by
    simp only [runW, runLogW, accepted_append]
    exact runW_tr enc T k ops _ _ (stepW_sinv enc s op hs (hv op (List.mem_cons_self ..)))
      (fun o ho => hv o (List.mem_cons_of_mem _ ho)) (stepW_tr enc s op hs T k g h)

/-- **C02 headline clause for any configuration, including `WithServerName`**: histories run
with `Add` = `State.addWith`.  Same statement as `stored_is_max_accepted`: the stored leaf is the
last unit accepted since the last removal, and that unit carries the greatest timestamp. -/
theorem stored_is_max_accepted_withServerName (enc : String → String) (cfg : Cfg) (ops : List Op)
    (hv : ∀ op ∈ ops, op.valid) (T : String) (k : Path) :
    lookup ((runW enc { cfg := cfg } ops).treeOf T) k =
      (accepted k [] (runLogW enc { cfg := cfg } ops T)).getLast? ∧
    ∀ x ∈ accepted k [] (runLogW enc { cfg := cfg } ops T), ∀ l,
      (accepted k [] (runLogW enc { cfg := cfg } ops T)).getLast? = some l → x.ts ≤ l.ts := by
  have h0 : Tr k (State.treeOf { cfg := cfg } T) [] := by
    rw [treeOf_none (by simp [State.get])]; exact Tr.nil k
  have r := runW_tr enc T k ops { cfg := cfg } [] (SInv.empty cfg) hv h0
  exact ⟨r.stored, r.max⟩

/-! ## Non-vacuity: a concrete history over two targets -/

section example_history

def hb (ts : Int) (v : Int) (raw : String) : Noti :=
  { ts := ts, target := "dev", pfx := ["a"], praw := "p",
    upd := [{ path := ["b"], val := .scalar (.int v), raw := raw }] }

/-- `a/b` accepted at 10, a stale resend at 5, accepted at 12, a multi-update (one unit for
`a/b` at 12 with another value — same timestamp, different: accepted; one for `a/c`), another
target, a metadata refresh, a delete at 12 (not newer: keeps the leaf), a delete at 13 (removes
it) and a re-add at 3 (accepted: the leaf was gone). -/
def hist : List Op :=
  [.add "dev", .add "other",
   .update 0 false (hb 10 1 "u1"),
   .update 0 false (hb 5 7 "u7"),
   .update 0 false (hb 12 2 "u2"),
   .update 0 false { ts := 12, target := "dev", pfx := ["a"], praw := "p",
                     upd := [{ path := ["b"], val := .scalar (.int 3), raw := "u3" },
                             { path := ["c"], val := .scalar (.int 4), raw := "u4" }] },
   .update 0 false { (hb 11 1 "u1") with target := "other" },
   .updateMetadata 1,
   .update 0 false { ts := 12, target := "dev", pfx := ["a"], praw := "p", del := [{ path := [], raw := "d" }] }]

def unit3 : Noti :=
  { ts := 12, target := "dev", pfx := ["a"], praw := "p",
    upd := [{ path := ["b"], val := .scalar (.int 3), raw := "u3" }] }

theorem hist_valid : ∀ op ∈ hist, op.valid := by
  intro op h
  simp only [hist, List.mem_cons, List.mem_nil_iff, or_false] at h
  rcases h with rfl | rfl | rfl | rfl | rfl | rfl | rfl | rfl | rfl <;> simp [Op.valid]

set_option maxRecDepth 20000 in
/-- accepted since the last removal: 10, 12, 12' — the stale resend at 5 is not in it, the delete
at 12 is not newer than the stored 12 and removes nothing -/
example : acceptedSince id {} hist "dev" ["a", "b"] = [hb 10 1 "u1", hb 12 2 "u2", unit3] := by decide

set_option maxRecDepth 20000 in
example : lookup ((State.run id {} hist).treeOf "dev") ["a", "b"] = some unit3 := by decide

set_option maxRecDepth 20000 in
/-- a delete at 13 removes the leaf: the list is empty again; a later unit with a *smaller*
timestamp is then accepted -/
example : acceptedSince id {}
    (hist ++ [.update 0 false { ts := 13, target := "dev", pfx := ["a"], praw := "p", del := [{ path := ["*"], raw := "d" }] }])
    "dev" ["a", "b"] = [] := by decide

set_option maxRecDepth 20000 in
example : acceptedSince id {}
    (hist ++ [.update 0 false { ts := 13, target := "dev", pfx := ["a"], praw := "p", del := [{ path := ["*"], raw := "d" }] },
              .update 0 false (hb 3 9 "u9")])
    "dev" ["a", "b"] = [hb 3 9 "u9"] := by decide

set_option maxRecDepth 20000 in
/-- `Reset` empties the list of every non-metadata leaf -/
example : acceptedSince id {} (hist ++ [.reset "dev" 20]) "dev" ["a", "b"] = [] := by decide

set_option maxRecDepth 20000 in
/-- with a server name configured the refresh writes `meta/serverName`; its accepted list is the
one unit written (the second refresh finds it current) -/
example : (accepted ["meta", "serverName"] []
    (runLogW id { cfg := { serverName := "srv" } } [.add "dev", .updateMetadata 1, .updateMetadata 2] "dev")).length = 1 := by
  decide

end example_history

end C02
end Gnmi
