import Gnmi.Lemmas.ClientPoll
import Gnmi.Props.C18
/-!
# C18 — `Close` while `Poll` calls are in flight (client/reconnect.go, client/client.go)

Theorems about the Poll wrapper of `Model/ClientPoll.lean` (the client LTS of
`Model/ClientLTS.lean` plus any number of Poll caller threads), for **every** transport script of
goroutine S, **every** transport behaviour per Poll call (`ps`), any number of Poll callers and
**every** interleaving.  `PReach false …` is the repository's code; `PReach true …` is the MUTANT of
seeded change `c18_seed8` (`ReconnectClient.Poll` holds `p.mu` across the blocking call).

Hypothesis on the `Impl`, built into the rules as in `Props/C18.lean`: the Send of the poll request
and `Recv` return once the Subscribe context is cancelled or `Close` was called on the instance.
-/
set_option linter.unusedSimpArgs false
set_option linter.unusedVariables false
namespace Gnmi
namespace C18Poll
open ClientLTS ClientPoll

variable {N : Type}

/-- everything has returned: `Subscribe`, `Close`, and every Poll caller -/
def AllReturned (c : PCfg N) : Prop :=
  c.base.spc.isReturned = true ∧ c.base.kpc.isReturned = true ∧
  ∀ (j : Nat) (pc : PPc N), c.polls[j]? = some pc → pc.isReturned = true

/-! ## Close never waits on a Poll caller -/

/-- In the repository's code every transition of the client LTS — in particular every
transition of `Close` and `initDone` — is enabled in the wrapper exactly as without Poll
callers: no guard mentions them (Poll takes no lock that `Close` needs). -/
theorem base_step_lifts {s : Script N} {ps : Nat → PollSpec N} {c : PCfg N} {l : Label} {b' : Cfg N}
    (hs : Step true s c.base l b') : PStep false s ps c (.base l) (c.doBase l b') :=
  .base hs (by simp)

/-- **close_returns_with_poll_in_flight.**  Whatever the Poll callers are doing (blocked in the
transport, between two steps, not yet called): until `Close` has returned, either `Close` has an
enabled transition of its own — which leaves every Poll caller where it is — or it is waiting for
the return of a `Subscribe` whose context is already cancelled (`subscribe_terminates` drives that
home).  It never waits for a Poll caller. -/
theorem close_returns_with_poll_in_flight {s : Script N} {ps : Nat → PollSpec N} {np : Nat}
    {c : PCfg N} (h : PReach false s ps np c) (hr : c.base.kpc.isReturned = false) :
    (∃ l c', PStep false s ps c (.base l) c' ∧ l.isK = true ∧ c'.polls = c.polls) ∨
    (c.base.cancelled = true ∧ c.base.spc.isIdle = false ∧ c.base.spc.isReturned = false) := by
  rcases C18.close_progress (preach_base h) hr with ⟨l, b', hs, hk⟩ | ⟨_, h2, h3, h4⟩
  · exact .inl ⟨l, _, base_step_lifts hs, hk, rfl⟩
  · exact .inr ⟨h2, h3, h4⟩

/-! ## Every in-flight Poll returns once the Subscribe context is cancelled -/

theorem returned_of_rank_zero {sp : PollSpec N} {pc : PPc N} (h : pRank sp pc = 0) :
    ∃ r, pc = .returned r := by
  cases pc <;> simp [pRank] at h
  exact ⟨_, rfl⟩

theorem poll_finish_aux {s : Script N} {ps : Nat → PollSpec N} (j : Nat) :
    ∀ (n : Nat) (c : PCfg N) (pc : PPc N), NoLock c → c.base.ctxDone = true → c.polls[j]? = some pc →
      pRank (ps j) pc ≤ n →
      ∃ ls c' r, PRun false s ps c ls c' ∧ (∀ l ∈ ls, l.poller = some j) ∧
        ls.length ≤ pRank (ps j) pc ∧ c'.polls[j]? = some (.returned r) ∧ c'.base = c.base ∧
        (∀ i, i ≠ j → c'.polls[i]? = c.polls[i]?) ∧ NoLock c' := by
  intro n
  induction n with
  | zero =>
      intro c pc hn hd hp hr
      obtain ⟨r, rfl⟩ := returned_of_rank_zero (Nat.le_zero.mp hr)
      exact ⟨[], c, r, .nil, by simp, by simp, hp, rfl, fun _ _ => rfl, hn⟩
  | succ n ih =>
      intro c pc hn hd hp hr
      cases hret : pc.isReturned with
      | true =>
          cases pc <;> simp at hret
          exact ⟨[], c, _, .nil, by simp, by simp, hp, rfl, fun _ _ => rfl, hn⟩
      | false =>
          obtain ⟨l, c1, hs, hl⟩ := poll_progress (s := s) (ps := ps) hn hd hp hret
          obtain ⟨hb, hfr, pc0, pc1, h0, h1, hlt⟩ := poll_step_frame hs hl
          rw [hp] at h0; cases h0
          obtain ⟨ls, c', r, hrun, hls, hlen, hfin, hb', hfr', hn'⟩ :=
            ih c1 pc1 (noLock_step hn hs) (by rw [hb]; exact hd) h1 (by omega)
          refine ⟨l :: ls, c', r, .cons hs hrun, ?_, by simp; omega, hfin, by rw [hb', hb], ?_, hn'⟩
          · intro l' hl'
            simp at hl'
            rcases hl' with rfl | hl'
            · exact hl
            · exact hls l' hl'
          · intro i hi; rw [hfr' i hi, hfr i hi]

/-- **poll_returns_after_close.**  Once the Subscribe context is cancelled (which `Close` does in
its critical section, or `initDone` for an early `Close`, or the caller), every Poll caller —
wherever it is: not yet called, inside `BaseClient.Poll`, blocked in the transport's `Recv` — is
never blocked again, and by transitions of its **own** only (no help from `Subscribe`, `Close` or
another Poll caller) it returns within `pRank` transitions, leaving everybody else untouched. -/
theorem poll_returns_after_close {s : Script N} {ps : Nat → PollSpec N} {np : Nat} {c : PCfg N}
    (h : PReach false s ps np c) (hd : c.base.ctxDone = true) {j : Nat} {pc : PPc N}
    (hp : c.polls[j]? = some pc) :
    (pc.isReturned = false → ∃ l c', PStep false s ps c l c' ∧ l.poller = some j) ∧
    ∃ ls c' r, PRun false s ps c ls c' ∧ (∀ l ∈ ls, l.poller = some j) ∧
      ls.length ≤ pRank (ps j) pc ∧ c'.polls[j]? = some (.returned r) ∧ c'.base = c.base ∧
      (∀ i, i ≠ j → c'.polls[i]? = c.polls[i]?) := by
  have hn := noLock_reach h
  refine ⟨fun hr => poll_progress hn hd hp hr, ?_⟩
  obtain ⟨ls, c', r, h1, h2, h3, h4, h5, h6, _⟩ :=
    poll_finish_aux (s := s) (ps := ps) j _ c pc hn hd hp (Nat.le_refl _)
  exact ⟨ls, c', r, h1, h2, h3, h4, h5, h6⟩

/-! ## both_return, with Poll callers -/

theorem polls_len {mu : Bool} {s : Script N} {ps : Nat → PollSpec N} {np : Nat} {c : PCfg N}
    (h : PReach mu s ps np c) : c.polls.length = np := by
  induction h with
  | init => simp [pinit]
  | step _ hs ih =>
      cases hs <;>
        simp only [PCfg.doBase, PCfg.doCall, PCfg.doLock, PCfg.doGetImpl, PCfg.ret, PCfg.setP, PCfg.doRecvMsg,
          PCfg.doHandle, PCfg.doHandled, PCfg.doCheck, PCfg.doRunErr] <;>
        (repeat' split) <;> simp [ih]

/-- a run of the client LTS is a run of the wrapper (repository's code) -/
theorem lift_run {s : Script N} {ps : Nat → PollSpec N} {b b' : Cfg N} {ls : List Label}
    (hr : Run true s b ls b') : ∀ (c : PCfg N), c.base = b →
      ∃ c', PRun false s ps c (ls.map .base) c' ∧ c'.base = b' ∧ c'.polls = c.polls := by
  induction hr with
  | nil => intro c hc; exact ⟨c, .nil, hc, rfl⟩
  | @cons b0 l b1 ls b2 hs _ ih =>
      intro c hc
      subst hc
      obtain ⟨c', h1, h2, h3⟩ := ih (c.doBase l b1) rfl
      exact ⟨c', .cons (base_step_lifts hs) h1, h2, h3⟩

theorem finish_all {s : Script N} {ps : Nat → PollSpec N} :
    ∀ (k : Nat) (c : PCfg N), NoLock c → c.base.ctxDone = true →
      ∃ ls c', PRun false s ps c ls c' ∧ (∀ l ∈ ls, l.poller.isSome = true) ∧ c'.base = c.base ∧
        NoLock c' ∧ ∀ (j : Nat) (pc : PPc N), j < k → c'.polls[j]? = some pc → pc.isReturned = true := by
  intro k
  induction k with
  | zero => intro c hn hd; exact ⟨[], c, .nil, by simp, rfl, hn, fun j pc hj => absurd hj (by omega)⟩
  | succ k ih =>
      intro c hn hd
      obtain ⟨ls, c1, hrun, hls, hb, hn1, hall⟩ := ih c hn hd
      cases hp : c1.polls[k]? with
      | none =>
          refine ⟨ls, c1, hrun, hls, hb, hn1, fun j pc hj hpc => ?_⟩
          by_cases hjk : j = k
          · subst hjk; rw [hp] at hpc; cases hpc
          · exact hall j pc (by omega) hpc
      | some pc =>
          obtain ⟨ls2, c2, r, hrun2, hls2, _, hfin, hb2, hfr, hn2⟩ :=
            poll_finish_aux (s := s) (ps := ps) k _ c1 pc hn1 (by rw [hb]; exact hd) hp (Nat.le_refl _)
          refine ⟨ls ++ ls2, c2, prun_append hrun hrun2, ?_, by rw [hb2, hb], hn2, fun j pc' hj hpc => ?_⟩
          · intro l hl
            rcases List.mem_append.mp hl with hl | hl
            · exact hls l hl
            · simp [hls2 l hl]
          · by_cases hjk : j = k
            · subst hjk; rw [hfin] at hpc; cases hpc; rfl
            · rw [hfr j hjk] at hpc; exact hall j pc' (by omega) hpc

/-- **both_return_with_polls** (`C18.both_return` generalised).  From every reachable
configuration of the client with any number of Poll callers, in which `Close` is past its critical
section or the caller's context is cancelled (`Doomed`), there is a run — without any new backoff
sleep — after which `Subscribe`, `Close` **and every Poll call** have returned. -/
theorem both_return_with_polls {s : Script N} {ps : Nat → PollSpec N} {np : Nat} {c : PCfg N}
    (h : PReach false s ps np c) (hd : Doomed true c.base) :
    ∃ ls c', PRun false s ps c ls c' ∧ PLabel.base .sleepStart ∉ ls ∧ AllReturned c' := by
  obtain ⟨ls, b', hr, _, hns, hS, hK⟩ := C18.both_return (preach_base h) hd
  obtain ⟨c1, hrun1, hb1, hp1⟩ := lift_run (ps := ps) hr c rfl
  have hreach1 := prun_reach h hrun1
  have hctx : c1.base.ctxDone = true := by
    apply C18.returns_only_if_cancelled (preach_base hreach1)
    rw [hb1]; cases hsp : b'.spc <;> simp [hsp] at hS ⊢
  obtain ⟨ls2, c2, hrun2, hls2, hb2, _, hall⟩ := finish_all (s := s) (ps := ps) np c1 (noLock_reach hreach1) hctx
  have hreach2 := prun_reach hreach1 hrun2
  refine ⟨ls.map .base ++ ls2, c2, prun_append hrun1 hrun2, ?_, ?_, ?_, ?_⟩
  · intro hmem
    rcases List.mem_append.mp hmem with hm | hm
    · obtain ⟨l, hl, he⟩ := List.mem_map.mp hm
      cases he; exact hns hl
    · have := hls2 _ hm; simp [PLabel.poller] at this
  · rw [hb2, hb1]; exact hS
  · rw [hb2, hb1]; exact hK
  · intro j pc hpc
    have hlen := polls_len hreach2
    have hj : j < c2.polls.length := by
      cases hl : decide (j < c2.polls.length) with
      | true => simpa using hl
      | false =>
          have : c2.polls.length ≤ j := by simpa using hl
          simp [List.getElem?_eq_none this] at hpc
    exact hall j pc (by omega) hpc

/-- … and nothing is stuck on the way: until everything has returned some transition is enabled. -/
theorem doomed_progress_with_polls {s : Script N} {ps : Nat → PollSpec N} {np : Nat} {c : PCfg N}
    (h : PReach false s ps np c) (hd : Doomed true c.base) (hne : ¬ AllReturned c) :
    ∃ l c', PStep false s ps c l c' := by
  by_cases hsk : c.base.spc.isReturned = true ∧ c.base.kpc.isReturned = true
  · have hctx : c.base.ctxDone = true := by
      apply C18.returns_only_if_cancelled (preach_base h)
      cases hsp : c.base.spc <;> simp [hsp] at hsk ⊢
    apply Classical.byContradiction
    intro hno
    apply hne
    refine ⟨hsk.1, hsk.2, fun j pc hp => ?_⟩
    cases hr : pc.isReturned with
    | true => rfl
    | false =>
        obtain ⟨l, c', hs, _⟩ := poll_progress (s := s) (ps := ps) (noLock_reach h) hctx hp hr
        exact absurd ⟨l, c', hs⟩ hno
  · obtain ⟨l, b', hs⟩ := C18.doomed_progress (preach_base h) hd hsk
    exact ⟨_, _, base_step_lifts hs⟩

/-! ## The seeded change c18_seed8 as a refutation (MUTANT: `PReach true`) -/

/-- the mutant's witness scenario: first sync; one Poll call, never answered; the callback returns,
the loop sleeps and re-dials, the dial blocks (`Conn.hang`); then `Close` is called -/
def mutantDemo : PScenario := { first := 0, polls := [.parked 0], cancel := false, inj := .dial }

/-- where the mutant ends up: Poll caller 0 parked in `Recv` on instance 0 **holding p.mu**,
goroutine S parked in the dial of attempt 1, `Close` not past `p.mu.Lock()` -/
def stuck : PCfg NKind := (runPScenario true mutantDemo).final

example : (stuck.base.kpc, stuck.muHeld, stuck.base.att, stuck.base.ctxDone, stuck.base.parentC) =
    (.idle, some 0, 1, false, false) := by decide
example : (match stuck.base.spc with | .connect => true | _ => false) = true := by decide
example : (match stuck.polls with | [.recv 0 0 [.wait]] => true | _ => false) = true := by decide

/-- **poll_holding_mu_deadlocks** (MUTANT, `mu = true`).  With `ReconnectClient.Poll` holding `p.mu`
across the wrapped client's blocking Poll, the configuration `stuck` is reachable, and in it
**no** thread of the client can move: not `Close` (its critical section needs `p.mu`), not
`Subscribe` (blocked in a dial bounded only by its context), not the Poll caller (blocked in
`Recv` until the context is cancelled — which only `Close` would do).  The only enabled transition
is the environment's cancellation of the caller's own context.  So `Close` called now never
returns by itself: `close_returns_with_poll_in_flight` and `both_return_with_polls` fail for the
mutant. -/
theorem poll_holding_mu_deadlocks :
    PReach true (pscriptOf mutantDemo) (specsOf mutantDemo) 1 stuck ∧
    stuck.base.kpc = .idle ∧ stuck.base.spc.isReturned = false ∧
    (∀ l c', PStep true (pscriptOf mutantDemo) (specsOf mutantDemo) stuck l c' → l = .base .parentCancel) := by
  have hq : stuck = { base := stuck.base, polls := [.recv 0 0 [.wait]], muHeld := some 0,
                      closedInst := stuck.closedInst, log := stuck.log } := rfl
  have hspc : stuck.base.spc = .connect := rfl
  have hk : stuck.base.kpc = .idle := rfl
  have hatt : stuck.base.att = 1 := rfl
  have hctx : stuck.base.ctxDone = false := rfl
  have hcl : stuck.closedInst = [] := rfl
  have hconn : (pscriptOf mutantDemo 1).conn = .hang := rfl
  refine ⟨runPScenario_reach true mutantDemo, hk, by rw [hspc]; rfl, ?_⟩
  intro l c' hs
  have pg : ∀ {j : Nat} {pc : PPc NKind}, stuck.polls[j]? = some pc → pc = .recv 0 0 [.wait] := by
    intro j pc h
    rw [hq] at h
    cases j <;> simp at h
    exact h.symm
  have hdead : stuck.dead 0 = false := by simp [PCfg.dead, hctx, hcl]
  cases hs
  case base l b' hb hg =>
      have hm : stuck.muHeld = some 0 := rfl
      clear pg hdead hq hcl
      cases hb <;> simp [hspc, hk, hatt, hconn, hctx, hm] at *
  case call h => cases pg h
  case lock h hm => rw [hq] at hm; cases hm
  case getImpl h => cases pg h
  case sendFail h _ => cases pg h
  case sendOk h _ => cases pg h
  case recvMsg h => cases pg h
  case recvWait a mi rest h hd =>
      have := pg h; injection this with h1 h2 h3; subst h1; rw [hdead] at hd; cases hd
  case recvAbort a mi items h hd =>
      have := pg h; injection this with h1 h2 h3; subst h1; rw [hdead] at hd; cases hd
  case recvTermErr h _ => cases pg h
  case recvEof h _ => cases pg h
  case handle h => cases pg h
  case handled h => cases pg h
  case check h => cases pg h
  case runErr h => cases pg h

/-- in particular `Close`'s first transition is disabled for the mutant in `stuck`, while the
repository's code enables it in every configuration in which `Close` has not been called
(`base_step_lifts`) -/
theorem mutant_close_blocked :
    (¬ ∃ c', PStep true (pscriptOf mutantDemo) (specsOf mutantDemo) stuck (.base .closeCs) c') ∧
    (∃ c', PStep false (pscriptOf mutantDemo) (specsOf mutantDemo) stuck (.base .closeCs) c') := by
  refine ⟨?_, _, base_step_lifts (.closeCs rfl rfl)⟩
  rintro ⟨c', hs⟩
  have := poll_holding_mu_deadlocks.2.2.2 _ _ hs
  cases this

/-- the same scenario on the repository's code: everything returns -/
example : (runPScenario false mutantDemo).final.base.kpc = .returned true false := by decide
example : ((runPScenario false mutantDemo).final.polls.map PPc.isReturned) = [true] := by decide
example : AllReturned (runPScenario false mutantDemo).final := by
  refine ⟨by decide, by decide, fun j pc h => ?_⟩
  have : (runPScenario false mutantDemo).final.polls = [.returned .err] := rfl
  rw [this] at h
  cases j <;> simp at h
  subst h; rfl

/-! ## Non-vacuity -/

/-- two overlapping Poll calls (one parked with a buffered message, one answered), `Close` injected
while the first is blocked in the transport -/
def demo2 : PScenario :=
  { first := 1, polls := [.parked 2, .answered 1], cancel := false, inj := .inCb 2 }

example : (runPScenario false demo2).valid = true := by decide
example : ((runPScenario false demo2).final.polls.map PPc.isReturned) = [true, true] := by decide
example : PReach false (pscriptOf demo2) (specsOf demo2) 2 (runPScenario false demo2).final :=
  runPScenario_reach false demo2

end C18Poll
end Gnmi
