import Gnmi.Lemmas.Cache
/-!
# C02 — the cache keeps the newest value per leaf (timestamp discipline)

Statements about the model `Gnmi/Model/Cache.lean` of `cache.Target.gnmiUpdate`,
`gnmiRemove` and `Target.GnmiUpdate`, for every target state, notification, clock reading
and threshold.  `t.tree` is the abstract prefix-free map the path tree refines (C09).

Hypotheses that appear below and why they are met:
* `TInv t` — unique keys and every stored notification carries an update: an invariant of
  every reachable target (`reachable_inv`);
* `n.target ≠ ""` — `Cache.GnmiUpdate` routes by the prefix target, and targets have names.
-/
namespace Gnmi
namespace C02
open Cache

/-! ## The decision on an existing leaf -/

/-- **Future rule, stated outright.** An update to an existing leaf is rejected as "future"
exactly when it is strictly newer than the stored one, a threshold is configured, it is ahead
of the wall clock by more than the threshold, and a latest accepted target timestamp exists
(positive) that it is also ahead of by more than the threshold. -/
theorem future_iff (cfg : Cfg) (now : Int) (latest : Option Int) (old n : Noti) :
    verdict cfg now latest old n = .future ↔
      old.ts < n.ts ∧ cfg.futureThr > 0 ∧ n.ts - now > cfg.futureThr ∧
        ∃ l, latest = some l ∧ 0 < l ∧ n.ts - l > cfg.futureThr := by
  unfold verdict
  constructor
  · intro h
    split at h
    · cases h
    · split at h
      · split at h <;> cases h
      · split at h
        · rename_i h1 h2 h3
          split at h
          · cases h
          · rename_i l
            split at h
            · cases h
            · split at h
              · cases h
              · exact ⟨by omega, h3.1, h3.2, l, rfl, by omega, by omega⟩
        · cases h
  · rintro ⟨h1, h2, h3, l, rfl, h4, h5⟩
    have a1 : ¬ n.ts < old.ts := by omega
    have a2 : ¬ n.ts = old.ts := by omega
    have a3 : ¬ l ≤ 0 := by omega
    have a4 : ¬ n.ts - l ≤ cfg.futureThr := by omega
    simp [a1, a2, h2, h3, a3, a4]

/-- **Stale rule, stated outright.** Rejected as stale exactly when older than the stored
notification, or carrying the same timestamp and identical to it. -/
theorem stale_iff (cfg : Cfg) (now : Int) (latest : Option Int) (old n : Noti) :
    verdict cfg now latest old n = .stale ↔
      n.ts < old.ts ∨ (n.ts = old.ts ∧ old.same n = true) := by
  unfold verdict
  constructor
  · intro h
    split at h
    · rename_i h1; exact Or.inl h1
    · split at h
      · rename_i h1 h2
        split at h
        · rename_i h3; exact Or.inr ⟨h2, h3⟩
        · cases h
      · split at h
        · split at h
          · cases h
          · split at h
            · cases h
            · split at h <;> cases h
        · cases h
  · rintro (h | ⟨h1, h2⟩)
    · simp [h]
    · have : ¬ n.ts < old.ts := by omega
      simp [this, h1, h2]

/-! ## One update (`gnmiUpdate`) -/

section one
variable (cfg : Cfg) (now : Int) (t : Target) (n : Noti) (u : Upd) (us : List Upd)

/-- An update older than the stored one, or identical to it, is rejected as stale and changes
nothing but the stale counter (for a non-metadata leaf). -/
theorem stale_rejected (h : String) (rest : Path) (old : Noti)
    (hu : n.upd = u :: us) (ht : n.target ≠ "") (hk : updKey n u = h :: rest) (hm : h ≠ metaRoot)
    (hl : lookup t.tree (h :: rest) = some old)
    (hs : n.ts < old.ts ∨ (n.ts = old.ts ∧ old.same n = true)) :
    Target.gnmiUpdate1 cfg now t n =
      (.stale, { t with md := { t.md with stale := t.md.stale + 1 } }, none) := by
  have hk' : updKey? n u = some (h :: rest) := by
    unfold updKey?; rw [joinKey?_eq _ _ ht]; exact congrArg some hk
  have hv : verdict cfg now t.latest old n = .stale := (stale_iff ..).2 hs
  unfold Target.gnmiUpdate1
  simp [hu, hk', metaPre, hm, updateCore, hl, hv]

/-- An update too far in the future (see `future_iff`) is rejected and changes nothing but the
future counter. -/
theorem future_rejected (h : String) (rest : Path) (old : Noti) (l : Int)
    (hu : n.upd = u :: us) (ht : n.target ≠ "") (hk : updKey n u = h :: rest) (hm : h ≠ metaRoot)
    (hl : lookup t.tree (h :: rest) = some old)
    (h1 : old.ts < n.ts) (h2 : cfg.futureThr > 0) (h3 : n.ts - now > cfg.futureThr)
    (h4 : t.latest = some l) (h5 : 0 < l) (h6 : n.ts - l > cfg.futureThr) :
    Target.gnmiUpdate1 cfg now t n =
      (.future, { t with md := { t.md with future := t.md.future + 1 } }, none) := by
  have hk' : updKey? n u = some (h :: rest) := by
    unfold updKey?; rw [joinKey?_eq _ _ ht]; exact congrArg some hk
  have hv : verdict cfg now t.latest old n = .future :=
    (future_iff ..).2 ⟨h1, h2, h3, l, h4, h5, h6⟩
  unfold Target.gnmiUpdate1
  simp [hu, hk', metaPre, hm, updateCore, hl, hv]

/-- Whatever the outcome class, a rejected update (stale, future, error) leaves every stored
leaf and the latest timestamp untouched. -/
theorem rejected_changes_nothing (hu : n.upd = u :: us) (ht : n.target ≠ "")
    (hr : (Target.gnmiUpdate1 cfg now t n).1 ≠ .ok) (hp : (Target.gnmiUpdate1 cfg now t n).1 ≠ .panic) :
    (Target.gnmiUpdate1 cfg now t n).2.1.tree = t.tree ∧
    (Target.gnmiUpdate1 cfg now t n).2.1.latest = t.latest ∧
    (Target.gnmiUpdate1 cfg now t n).2.2 = none := by
  have he := gnmiUpdate1_effect cfg now t n u us hu ht
  generalize Target.gnmiUpdate1 cfg now t n = r at he hr hp
  cases he with
  | rejected r t' _ h1 h2 _ => exact ⟨h1, h2, rfl⟩
  | replaced => exact absurd rfl hr
  | suppressed => exact absurd rfl hr
  | added => exact absurd rfl hr
  | panicOld => exact absurd rfl hp

/-- An accepted update is what the leaf holds afterwards — in particular a different value
carrying the *same* timestamp replaces the stored one (`same_ts_replaces`). -/
theorem accepted_is_stored (hi : TInv t) (hu : n.upd = u :: us) (ht : n.target ≠ "")
    (hr : (Target.gnmiUpdate1 cfg now t n).1 = .ok) :
    lookup (Target.gnmiUpdate1 cfg now t n).2.1.tree (updKey n u) = some n := by
  have he := gnmiUpdate1_effect cfg now t n u us hu ht
  generalize Target.gnmiUpdate1 cfg now t n = r at he hr
  cases he with
  | rejected r t' h => rcases h with rfl | rfl | rfl <;> cases hr
  | replaced t' old _ hl _ h1 =>
    show lookup t'.tree _ = _
    rw [h1]; exact lookup_setLeaf_same hi.unique hl
  | suppressed t' old _ _ _ hl _ h1 =>
    show lookup t'.tree _ = _
    rw [h1]; exact lookup_setLeaf_same hi.unique hl
  | added t' _ _ ha => exact lookup_add_same ha
  | panicOld => cases hr

theorem same_ts_replaces (hi : TInv t) (h : String) (rest : Path) (old : Noti)
    (hu : n.upd = u :: us) (ht : n.target ≠ "") (hk : updKey n u = h :: rest) (hm : h ≠ metaRoot)
    (hl : lookup t.tree (h :: rest) = some old) (h1 : n.ts = old.ts) (h2 : old.same n = false) :
    (Target.gnmiUpdate1 cfg now t n).1 = .ok ∧
    lookup (Target.gnmiUpdate1 cfg now t n).2.1.tree (h :: rest) = some n := by
  have hk' : updKey? n u = some (h :: rest) := by
    unfold updKey?; rw [joinKey?_eq _ _ ht]; exact congrArg some hk
  have hv : verdict cfg now t.latest old n = .accept := by
    unfold verdict
    have : ¬ n.ts < old.ts := by omega
    simp [this, h1, h2]
  have hok : (Target.gnmiUpdate1 cfg now t n).1 = .ok := by
    have hne : old.upd ≠ [] := hi.hasUpd _ (mem_of_lookup_some hl)
    unfold Target.gnmiUpdate1
    simp only [hu, hk', metaPre, hm, if_false, updateCore, hl, hv]
    split
    · rfl
    · split
      · rename_i ho; exact absurd ho hne
      · split <;> rfl
  refine ⟨hok, ?_⟩
  rw [← hk]
  exact accepted_is_stored cfg now t n u us hi hu ht hok

end one

/-! ## One delete (`gnmiRemove`) -/

/-- A delete at time `T` removes exactly the matching leaves whose stored timestamp is older
than `T`; everything else stays as it is. -/
theorem delete_exact (t : Target) (n : Noti) (d : Del) (ds : List Del)
    (hd : n.del = d :: ds) (ht : n.target ≠ "") :
    (Target.gnmiRemove1 t n).1.tree =
      t.tree.filter (fun kv => !(qmatches (joinKey n d.path) kv.1 && decide (kv.2.ts < n.ts))) :=
  (gnmiRemove1_spec t n d ds hd ht).1

/-! ## Whole notifications and histories -/

/-- One `Target.GnmiUpdate` of any shape (single, multi, atomic, delete, empty): no leaf that
is present before and after holds an older timestamp afterwards. -/
theorem notification_ts_monotone (cfg : Cfg) (now : Int) (t : Target) (n : Noti)
    (hi : TInv t) (ht : n.target ≠ "") :
    TsMono t (t.gnmiUpdate cfg now n).2.1 :=
  (gnmiUpdate_ok cfg now t n hi ht).2.2.1

/-- the targets reachable from a well-formed one by any sequence of notifications with any
clock readings, during which leaf `k` is never absent -/
inductive KeptRun (cfg : Cfg) (k : Path) : Target → Target → Prop
  | refl (t : Target) : KeptRun cfg k t t
  | step {t t' : Target} (now : Int) (n : Noti) :
      KeptRun cfg k t t' → n.target ≠ "" → lookup (t'.gnmiUpdate cfg now n).2.1.tree k ≠ none →
      KeptRun cfg k t (t'.gnmiUpdate cfg now n).2.1

theorem keptRun_inv {cfg : Cfg} {k : Path} {t t' : Target} (h : KeptRun cfg k t t') (hi : TInv t) :
    TInv t' := by
  induction h with
  | refl => exact hi
  | step now n _ ht _ ih => exact (gnmiUpdate_ok cfg now _ n ih ht).2.1

/-- **C02, history form.** For every sequence of update/delete/atomic notifications (any
order of timestamps, any threshold, any clock readings): as long as a leaf is not deleted,
the timestamp it holds never decreases.  Together with `accepted_is_stored` (the leaf holds
the last accepted update) this says the leaf always holds the accepted update with the
greatest timestamp received since it was last deleted. -/
theorem leaf_history_invariant {cfg : Cfg} {k : Path} {t t' : Target} (h : KeptRun cfg k t t')
    (hi : TInv t) (old new : Noti) (ho : lookup t.tree k = some old) (hn : lookup t'.tree k = some new) :
    old.ts ≤ new.ts := by
  induction h generalizing new with
  | refl => rw [ho] at hn; cases hn; exact Int.le_refl _
  | @step t1 now n hrun ht hk ih =>
    have hi1 : TInv t1 := keptRun_inv hrun hi
    have hmono := notification_ts_monotone cfg now t1 n hi1 ht
    -- `k` was present before this step too?  If not, it was deleted and re-added: excluded,
    -- because a notification applies its updates before its deletes and `KeptRun` keeps `k`.
    cases hmid : lookup t1.tree k with
    | some mid => exact Int.le_trans (ih mid hmid) (hmono k mid new hmid hn)
    | none => exact absurd hmid (keptRun_present hrun ho)
where
  keptRun_present {cfg : Cfg} {k : Path} {t t' : Target} {old : Noti} (h : KeptRun cfg k t t')
      (ho : lookup t.tree k = some old) : lookup t'.tree k ≠ none := by
    cases h with
    | refl => rw [ho]; simp
    | step now n _ _ hk => exact hk

/-- The empty target is well formed and every notification keeps it so: `TInv` holds in every
reachable state. -/
theorem reachable_inv (cfg : Cfg) (name : String) (ops : List (Int × Noti))
    (h : ∀ op ∈ ops, op.2.target ≠ "") :
    TInv (ops.foldl (fun t op => (t.gnmiUpdate cfg op.1 op.2).2.1) { name := name }) := by
  suffices ∀ (ops : List (Int × Noti)) (t : Target), (∀ op ∈ ops, op.2.target ≠ "") → TInv t →
      TInv (ops.foldl (fun t op => (t.gnmiUpdate cfg op.1 op.2).2.1) t) from
    this ops _ h ⟨by simp [UniqueKeys], by simp, by simp, by simp [nm], by simp⟩
  intro ops
  induction ops with
  | nil => intro t _ hi; exact hi
  | cons op ops ih =>
    intro t h hi
    exact ih _ (fun o ho => h o (List.mem_cons_of_mem _ ho))
      (gnmiUpdate_ok cfg op.1 t op.2 hi (h op (List.mem_cons_self ..))).2.1

/-! ## Non-vacuity -/

def n1 : Noti := { ts := 10, target := "dev", pfx := ["a"], praw := "p", upd := [{ path := ["b"], val := .scalar (.int 1), raw := "u1" }] }
def n2 : Noti := { n1 with ts := 10, upd := [{ path := ["b"], val := .scalar (.int 2), raw := "u2" }] }
def t1 : Target := (Target.gnmiUpdate {} 0 { name := "dev" } n1).2.1

example : lookup t1.tree ["a", "b"] = some n1 := by decide
example : (Target.gnmiUpdate {} 0 t1 n1).1 = .stale := by decide
example : lookup (Target.gnmiUpdate {} 0 t1 n2).2.1.tree ["a", "b"] = some n2 := by decide
example : (Target.gnmiUpdate { futureThr := 5 } 0 (Target.gnmiUpdate { futureThr := 5 } 0 t1 { n2 with ts := 11 }).2.1
    { n2 with ts := 100 }).1 = .future := by decide

end C02
end Gnmi
