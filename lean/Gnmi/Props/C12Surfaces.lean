import Gnmi.Lemmas.RecvSurfaces
/-!
# C12 — no message from a remote peer can crash a process: the receive surfaces other than
cache ingest

Models: `Gnmi/Model/RecvSurfaces.lean` — (2) the Subscribe handler, (3) the client receive
path (`client/gnmi` `Recv`/`defaultRecv`/`noti`, `value.ToScalar`, `CacheClient.defaultHandler`,
`BaseClient.run`), (4) the CLI display (`cli.QueryDisplay`), (5) `manager.handleGNMIUpdate`.
Every partial Go operation on these surfaces is a checked model operation with an explicit
`panic` outcome; the theorems say the `panic` outcome is unreachable for every message a
protobuf decoder can produce (`wireValid`: no nil entry in a repeated field, a set
message-typed oneof arm has a payload, the message pointer is non-nil — everything else is
allowed: nil prefix, nil / empty paths, absent values, both path encodings, any names incl.
`meta`, `*`, `""`, unset oneofs, empty updates, `sync_response: false`, error responses, unknown
enum numbers), for every cache state / client tree / display setting, with no bound on sizes.

Partial operations reachable only with messages built in-process (not WireValid) are
modelled too, exercised by the correspondence, and shown to panic by the `example`s at the end:
the theorems' hypotheses are exactly what excludes them.
-/
namespace Gnmi
namespace C12S
open Gnmi.RX
open Gnmi.PV (GPath TV FloatOps Bytes toStrings)

variable {F D : Type}

/-! ## (2) Subscribe handler -/

/-- **The Subscribe handler is total**: for *every* first request (valid or not: nil message,
unset / poll / nil-payload oneof, nil or target-less prefix, unknown mode number, nil
subscription entries, nil / empty / wildcard paths, origin conflicts), against every cache whose
stored values are decoded notifications (or non-notifications), for every coalescing schedule
(`dup`) and with or without duplicate reporting, `Server.Subscribe` — validation,
`addSubscription`, `processSubscription` with `path.CompletePath` and `cache.Query`,
`sendStreamingResults` with `MakeSubscribeResponse` and `isTargetDelete` — returns a result or
an error status, never panics. (No hypothesis on the request is needed: every access goes
through a nil-safe getter.) -/
theorem subscribe_total (c : CacheView F D) (hc : c.wireValid = true) (noDup : Bool) (dup : Nat → Nat)
    (req : Request) : subscribe c noDup dup req ≠ .panic :=
  subscribe_ok c hc noDup dup req

/-- **`MakeSubscribeResponse` is total** on every stored value that is a decoded notification
(whatever its update list: empty for a delete notification, any duplicate count) or not a
notification at all; so are `isTargetDelete` and the offer to the matcher
(`Server.Update` → `UpdateNotification`). -/
theorem make_response_total (noDup : Bool) (st : Stored F D) (dup : Nat) (hw : st.wireValid = true) :
    makeResponse noDup st dup ≠ .panic ∧ isTargetDelete st ≠ none ∧ offeredPaths st ≠ none :=
  ⟨makeResponse_ok noDup st dup hw, isTargetDelete_ok st hw, offeredPaths_ok st hw⟩

/-- … and on a non-nil notification pointer `MakeSubscribeResponse` does not even need the
entries to be non-nil (`proto.Clone` replaces nil entries by empty messages before
`Update[0].Duplicates` is written). -/
theorem make_response_total_nonnil (noDup : Bool) (n : Notification F D) (dup : Nat) :
    makeResponse noDup (.noti (some n)) dup ≠ .panic :=
  makeResponse_some_ok noDup n dup

/-! ## (3) client receive path -/

section client
variable [FloatOps F D]

/-- **The client receive path is total**: a `CacheClient` on the gNMI transport client, reading
any sequence of WireValid responses (whatever `encoding/json` accepts: `jv`; any query type),
never panics — `Recv`, `defaultRecv`, `noti`, `value.ToScalar` (incl. `decimalToFloat`, leaf
lists, JSON), `CacheClient.defaultHandler`, `ctree` add/delete — and its tree stays a
well-formed prefix-free tree. -/
theorem client_recv_total (jv : Bytes → Bool) (qt : QType) (t : CTree F D) (ht : Trie.WFRoot t)
    (rs : List (Response F D)) (hw : ∀ r ∈ rs, r.wireValid = true) :
    (cacheClientRun jv qt t rs).1 ≠ .panic ∧ Trie.WFRoot (cacheClientRun jv qt t rs).2 := by
  unfold cacheClientRun
  split
  · exact ⟨by simp, ht⟩
  · have hh := cacheHandler_hok (F := F) (D := D) (σ := Unit) noHandler (fun _ => True)
      (fun _ s _ _ _ => ⟨s, rfl, trivial⟩)
    have := run_ok jv qt (cacheHandler noHandler) _ hh rs { h := (t, ()) } ⟨ht, trivial⟩ hw
    exact ⟨this.1, this.2.1.1⟩

/-- The same for any handler state and any handler that keeps an invariant and does not panic
itself (the form the CLI theorem uses). -/
theorem recv_total_generic {σ : Type} (jv : Bytes → Bool) (qt : QType) (h : σ → CNoti F D → Option σ)
    (I : σ → Prop) (hh : HOK h I) (rs : List (Response F D)) (s : RecvSt σ) (hi : I s.h)
    (hw : ∀ r ∈ rs, r.wireValid = true) : (run jv qt h rs s).1 ≠ .panic :=
  (run_ok jv qt h I hh rs s hi hw).1

/-- **A rejected message leaves the client tree as it was.** If `defaultRecv` returns an error
for a response, then: (a) if the response is not an update (unset oneof, error response) the
tree is unchanged; (b) if it is an update notification, the tree is the one produced by the
update units accepted *before* the rejected unit — the rejected unit (nil path, undecodable
value, invalid JSON, unsupported encoding) and everything after it in the message change
nothing. (Units of one notification are processed one at a time, as in the cache:
`C12.rejected_preserves`.) -/
theorem client_rejected_preserves (jv : Bytes → Bool) (qt : QType) (t t' : CTree F D)
    (r : Response F D) (e : ErrClass)
    (hr : recvBody jv qt (cacheHandler noHandler) (t, ()) r = (.err e, (t', ()))) :
    ((∀ n, r ≠ .update (some n)) → t' = t) ∧
    (∀ n, r = .update (some n) → ∃ acc rest, n.update = acc ++ rest ∧ rest ≠ [] ∧
      recvUpdates jv (cacheHandler noHandler) (toStrings n.pfx true) n.ts acc (t, ()) = (.ok (), (t', ())) ∧
      recvUpdates jv (cacheHandler noHandler) (toStrings n.pfx true) n.ts rest (t', ()) = (.err e, (t', ()))) := by
  have := recvBody_rejected jv qt (cacheHandler noHandler) (t, ()) (t', ()) r e hr
  exact ⟨fun h => (Prod.mk.inj (this.1 h)).1, this.2⟩

/-- in particular: a message rejected at its first update unit changes nothing at all -/
theorem client_rejected_first_unit (jv : Bytes → Bool) (qt : QType) (t : CTree F D)
    (n : Notification F D) (u : Update F D) (us : List (Option (Update F D)))
    (hn : n.update = some u :: us)
    (hrej : u.path = none ∨ ∃ pp e, u.path = some pp ∧ noti jv (toStrings n.pfx true) (some pp) n.ts (some u) = .err e) :
    ∃ e, recvBody jv qt (cacheHandler noHandler) (t, ()) (.update (some n)) = (.err e, (t, ())) := by
  rcases hrej with h | ⟨pp, e, h1, h2⟩
  · exact ⟨.nilPath, by simp [recvBody, hn, recvUpdates, h]⟩
  · exact ⟨e, by simp [recvBody, hn, recvUpdates, h1, h2]⟩

end client

/-! ## (4) CLI display -/

section cli
variable [FloatOps F D]

/-- **The CLI display is total**: for every display type (group, single, proto, shortproto,
unknown), query type (once, polling, streaming, unknown), timestamp setting (off, on, raw,
custom layout) and every sequence of WireValid responses, `cli.QueryDisplay` returns or
reports an error and never panics: the notification handlers, `displayWalk`, `pathmap.add`
(its unchecked assertion `mm.(pathmap)` is discharged by the prefix-freeness of the client
tree, its `path[0]` by the empty-path guard), `formatTime`. -/
theorem cli_display_total (jv : Bytes → Bool) (dt : DisplayType) (qt : QType) (tm : TsMode)
    (rs : List (Response F D)) (hw : ∀ r ∈ rs, r.wireValid = true) :
    queryDisplay jv dt qt tm rs ≠ .panic := by
  have hcache := cacheHandler_hok (F := F) (D := D) (σ := Unit) noHandler (fun _ => True)
    (fun _ s _ _ _ => ⟨s, rfl, trivial⟩)
  have hempty : Trie.WFRoot (.empty : CTree F D) := Or.inl rfl
  cases dt with
  | unknown => simp [queryDisplay]
  | proto => simp only [queryDisplay]; split <;> simp
  | shortproto => simp only [queryDisplay]; split <;> simp
  | single =>
    simp only [queryDisplay]
    split
    · simp
    · have hh : HOK (F := F) (D := D) (singleHandler tm) (fun _ => True) := by
        intro s n _
        cases n <;> exact ⟨_, rfl, trivial⟩
      have := (run_ok jv qt (singleHandler tm) _ hh rs { h := ({} : CliSt F D) } trivial hw).1
      generalize run jv qt (singleHandler tm) rs { h := ({} : CliSt F D) } = r at this ⊢
      obtain ⟨o, s, rest⟩ := r
      cases o with
      | panic => exact absurd rfl this
      | err e => simp
      | ok x => cases x; simp
  | group =>
    cases qt with
    | unknown => simp [queryDisplay]
    | once =>
      simp only [queryDisplay]
      have := run_ok jv .once (cacheHandler noHandler) _ hcache rs { h := ((.empty : CTree F D), ()) } ⟨hempty, trivial⟩ hw
      generalize run jv QType.once (cacheHandler noHandler) rs { h := ((.empty : CTree F D), ()) } = r at this ⊢
      obtain ⟨o, s, rest⟩ := r
      cases o with
      | panic => exact absurd rfl this.1
      | err e => simp
      | ok x =>
        cases x
        obtain ⟨sh, hsh⟩ := displayWalk_ok tm s.h.1 this.2.1.1
        simp [hsh]
    | poll =>
      simp only [queryDisplay]
      have h1 := run_ok jv .poll (cacheHandler noHandler) _ hcache rs { h := ((.empty : CTree F D), ()) } ⟨hempty, trivial⟩ hw
      generalize run jv QType.poll (cacheHandler noHandler) rs { h := ((.empty : CTree F D), ()) } = r at h1 ⊢
      obtain ⟨o, s, rest⟩ := r
      cases o with
      | panic => exact absurd rfl h1.1
      | err e => simp
      | ok x =>
        cases x
        simp only []
        have h2 := run_ok jv .poll (cacheHandler noHandler) _ hcache rest s h1.2.1 h1.2.2
        generalize run jv QType.poll (cacheHandler noHandler) rest s = r2 at h2 ⊢
        obtain ⟨o2, s2, rest2⟩ := r2
        cases o2 with
        | panic => exact absurd rfl h2.1
        | err e => simp
        | ok y =>
          cases y
          obtain ⟨sh, hsh⟩ := displayWalk_ok tm s2.h.1 h2.2.1.1
          simp [hsh]
    | stream =>
      simp only [queryDisplay]
      have hh := cacheHandler_hok (F := F) (D := D) (streamHandler tm) (fun _ => True)
        (fun t s n ht _ => by
          obtain ⟨s', hs'⟩ := streamHandler_ok tm t ht s n
          exact ⟨s', hs', trivial⟩)
      have := (run_ok jv .stream (cacheHandler (streamHandler tm)) _ hh rs
        { h := ((.empty : CTree F D), ({} : CliSt F D)) } ⟨hempty, trivial⟩ hw).1
      generalize run jv QType.stream (cacheHandler (streamHandler tm)) rs
        { h := ((.empty : CTree F D), ({} : CliSt F D)) } = r at this ⊢
      obtain ⟨o, s, rest⟩ := r
      cases o with
      | panic => exact absurd rfl this
      | err e => simp
      | ok x => cases x; simp

omit [FloatOps F D] in
/-- `displayWalk` alone: total on every well-formed client tree, for every timestamp setting -/
theorem display_walk_total (tm : TsMode) (t : CTree F D) (ht : Trie.WFRoot t) :
    displayWalk tm t ≠ .panic := by
  obtain ⟨sh, hsh⟩ := displayWalk_ok tm t ht
  simp [hsh]

end cli

/-- `pathmap.add` panics exactly when a proper prefix of the path is bound to a value: the
unchecked assertion is load-bearing, prefix-freeness of the displayed tree is what discharges it -/
theorem pathmap_add_panic_iff {V : Type} (m : PMap' V) (p : Path) (v : PM V) :
    pmAdd m p v = .panic ↔ blocked m (normKey p) = true :=
  pmAddNE_panic_iff m (normKey p) v

/-! ## (5) target manager -/

/-- **`manager.handleGNMIUpdate` is total** on every decoded response (update, sync true/false,
error, unset oneof). -/
theorem manager_handle_total (r : Response F D) (hw : r.wireValid = true) :
    handleGNMIUpdate r ≠ .panic := by
  cases r with
  | nilMsg => simp [Response.wireValid] at hw
  | unset => simp [handleGNMIUpdate]
  | update n => simp [handleGNMIUpdate]
  | sync b => simp [handleGNMIUpdate]
  | error p => simp [handleGNMIUpdate]

/-! ## Non-vacuity, the repaired crash (D9), and what the hypotheses exclude -/

section examples

/-- a trivial float instance for closed examples -/
local instance : FloatOps Unit Unit := ⟨fun _ _ => true, fun _ _ => true, fun _ => (), fun _ _ => ()⟩

abbrev U := Update Unit Unit
abbrev N := Notification Unit Unit
abbrev R := Response Unit Unit

def jvAll : Bytes → Bool := fun _ => true

def pA : GPath := { elem := [{ name := "a" }] }
def pAB : GPath := { elem := [{ name := "a" }, { name := "b" }] }
def upA : U := { path := some pA, val := .intVal 1 }
def upAB : U := { path := some pAB, val := .stringVal "x" }
def upNilPath : U := { val := .intVal 1 }
def nRoot : N := { ts := 5, update := [some { path := some {}, val := .intVal 1 }] }
def nA : N := { ts := 5, pfx := some { target := "dev" }, update := [some upA] }
def nAB : N := { ts := 6, pfx := some { target := "dev" }, update := [some upAB] }

/-- the hypotheses are satisfiable by weird messages: nil prefix + empty path, nil path,
absent value, sync false, error, unset — all WireValid -/
example : (Response.update (some nRoot) : R).wireValid = true := by decide
example : (Response.update (some { update := [some upNilPath] }) : R).wireValid = true := by decide
example : (Response.update (some { update := [some {}], delete := [some {}] }) : R).wireValid = true := by decide
example : (Response.sync false : R).wireValid = true ∧ (Response.error true : R).wireValid = true ∧
    (Response.unset : R).wireValid = true := by decide

/-- D9 (repaired): group display of an update with an empty path. Before the fix
`pathmap.add` indexed `path[0]` of the empty path … -/
example : (pmAddPreD9 ([] : PMap' Nat) [] (.val 1)).isPanic = true := by decide
/-- … now the value is shown under the empty name -/
example : (queryDisplay jvAll .group .once .off [(.update (some nRoot) : R), .sync true]).isPanic = false := by
  decide
example : (pmAdd ([] : PMap' Nat) [] (.val 1)).isPanic = false := by decide

/-- a leaf below a leaf: the second update is refused by the tree (prefix-freeness), so the
display sees only `dev/a` -/
example : (queryDisplay jvAll .group .stream .raw
    [(.update (some nA) : R), .update (some nAB), .sync true, .update (some nAB)]).isPanic = false := by
  decide

/-- … while `pathmap.add` itself would panic on such a pair (the prefix-free hypothesis of
`display_walk_total` is necessary) -/
example : (pmAddAll ([] : PMap' Nat) [(["a"], .val 1), (["a", "b"], .val 2)]).isPanic = true := by decide

/-- without its `len(notification.Update) > 0` guard `MakeSubscribeResponse` would panic on a
stored delete notification that was coalesced (WireValid) — the guard is necessary -/
example : (makeResponseNoLenCheck false (.noti (some ({ delete := [some {}] } : N))) 1).isPanic = true := by
  decide
example : (makeResponse false (.noti (some ({ delete := [some {}] } : N))) 1).isPanic = false := by decide

/-! what `wireValid` excludes (objects only an in-process caller can build): each panics -/

/-- nil `*SubscribeResponse` -/
example : (handleGNMIUpdate (.nilMsg : R)).isPanic = true := by decide
example : (cacheClientRun jvAll .stream .empty [(.nilMsg : R)]).1.isPanic = true := by decide
/-- `SubscribeResponse_Update{Update: nil}` -/
example : (cacheClientRun jvAll .stream .empty [(.update none : R)]).1.isPanic = true := by decide
/-- a nil entry in `Notification.Update` -/
example : (cacheClientRun jvAll .stream .empty [(.update (some { update := [none] }) : R)]).1.isPanic = true := by
  decide
/-- `TypedValue_DecimalVal{DecimalVal: nil}` (`decimalToFloat(nil)`) and a nil leaf-list element -/
example : (noti jvAll [] (some pA) 0 (some ({ path := some pA, val := .decimalNil } : U))).isPanic = true := by
  decide
example : (noti jvAll [] (some pA) 0 (some ({ path := some pA, val := .leaflistVal [.intVal 1, .nilMsg] } : U))).isPanic = true := by
  decide
/-- a typed-nil `*Notification` stored in a cache leaf -/
example : (makeResponse false (.noti (none : Option N)) 1).isPanic = true ∧
    isTargetDelete (.noti (none : Option N)) = none ∧ offeredPaths (.noti (none : Option N)) = none := by decide
/-- a nil entry in a stored notification's update list: the offer to the matcher reads `u.Path` -/
example : offeredPaths (.noti (some ({ update := [none] } : N))) = none := by decide

/-- the Subscribe handler on a populated cache: a ONCE query for `dev/a/*` -/
def cache1 : CacheView Unit Unit :=
  [{ name := "dev", leaves := [(["a", "b"], .noti (some nAB)), (["x"], .noti (some nA))] }]
example : cache1.wireValid = true := by decide
example : subscribe cache1 false (fun _ => 0)
    (.subscribe (some { pfx := some { target := "dev" }, mode := 1, subs := [some { path := some pA }] })) =
    .ok { sent := [["dev", "a", "b"]], synced := true } := by decide
/-- requests a client can send that must be (and are) refused with a status -/
example : subscribe cache1 false (fun _ => 0) (.subscribe (some { pfx := none })) = .err .invalidArgument := by decide
example : subscribe cache1 false (fun _ => 0) (.subscribe (some { pfx := some { target := "dev" }, mode := 7 })) =
    .err .invalidArgument := by decide
example : subscribe cache1 false (fun _ => 0)
    (.subscribe (some { pfx := some { target := "dev", origin := "oc" }, mode := 1,
                        subs := [some { path := some { origin := "oc2" } }] })) = .err .unknown := by decide

end examples

end C12S
end Gnmi
