import Gnmi.Lemmas.CTreeConc
/-!
# C10 — the path tree is safe and per-path atomic under concurrent use

Property theorems about the locking-protocol LTS of `Model/CTreeConc.lean` (any number `n` of
threads, any schedule: `Reach true s` quantifies over every finite interleaving of the atomic
sections of any sequence of calls by each thread; `true` = the code as it is, with the
re-check after the lock upgrade).

Standing caveat (DESIGN §8 C10): this is a proof about the locking protocol.  Go's memory
model below lock granularity and pre-emption inside critical sections are validated with
`-race` and history checks (`go/vcorr/cc.go`), not proved.

Restrictions stated once: stored values are non-nil; handles are retained for non-root leaf
nodes only; `Walk` is `Query(nil)`.
-/
namespace Gnmi
namespace C10
open Trie CC

variable {n : Nat}

/-! ## frozen ancestors (the key invariant) -/

/-- While thread `σ` holds a lock (read or write) on node `x`, no step of another thread
changes `x`'s own field: its value if it is a leaf, its set of child names if it is a branch
(so in particular the child entry `σ` followed from `x` stays), and `x` stays attached.  Since
a thread holds every ancestor of its position, the whole path it descended is frozen. -/
theorem frozen_ancestors {s s' : Cfg n} {l : Label n} (hr : Reach true s) (h : Step true s l s')
    (σ : Fin n) (hσ : σ ≠ l.tid) (f : Frame) (hf : f ∈ (s.thr σ).stack) :
    f ∈ (s'.thr σ).stack ∧ (Trie.get s'.trie f.node).isSome = true ∧
    shallow (Trie.get s'.trie f.node) = shallow (Trie.get s.trie f.node) := by
  have hi := inv_reach hr
  have hth : s'.thr σ = s.thr σ := by rw [h.2]; exact eff_thr_other s l σ hσ
  have hsh : shallow (Trie.get s'.trie f.node) = shallow (Trie.get s.trie f.node) := by
    rcases trie_step hi h with ht | hm
    · rw [ht.1]
    · exact frozen_of_mut hi hm σ hσ f hf
  refine ⟨by rw [hth]; exact hf, ?_, hsh⟩
  rw [isSome_of_shallow_eq hsh]; exact hi.ex σ f hf

/-- the locks of a thread are the prefixes of one path, the root lock at the bottom -/
theorem locks_form_a_path {s : Cfg n} (hr : Reach true s) (σ : Fin n) : Chain (s.thr σ).stack :=
  (inv_reach hr).chain σ

/-- a write lock excludes every other holder (mutual exclusion of the lock model) -/
theorem write_lock_exclusive {s : Cfg n} (hr : Reach true s) (σ σ' : Fin n) (f f' : Frame)
    (hf : f ∈ (s.thr σ).stack) (hf' : f' ∈ (s.thr σ').stack) (hn : f.node = f'.node)
    (hm : f.mode = .W) : σ = σ' :=
  (inv_reach hr).excl σ σ' f f' hf hf' hn hm

/-! ## adds linearise; the re-check after the lock upgrade -/

/-- The step in which `Add p v` takes effect or fails (`termRoot`, `termWrite`, `insert`,
`addErr` — whatever happened during an upgrade window before) transforms the shared trie
exactly as the sequential `add` does on the trie *at that instant*, reports the sequential
status, and is logged; every other step of the adding thread leaves trie and log alone. -/
theorem add_linearises {s s' : Cfg n} {l : Label n} (hr : Reach true s) (h : Step true s l s')
    (p : Path) (v : Nat) (hc : (s.thr l.tid).call = .add p v) (hpc : (s.thr l.tid).pc ≠ .idle) :
    (s'.trie = s.trie ∧ s'.log = s.log) ∨
    (s'.trie = ((add s.trie p v).getD s.trie) ∧
      s'.log = s.log ++ [⟨l.tid.val, (s.thr l.tid).seq, .add p v, .status (add s.trie p v).isSome⟩] ∧
      (s'.thr l.tid).res = .status (add s.trie p v).isSome ∧ (s'.thr l.tid).pc = .unwind) := by
  have hi := inv_reach hr
  rcases lin_step hi h with ⟨hl, ht⟩ | ⟨op, hl, ht⟩
  · exact Or.inl ⟨ht, hl⟩
  · right
    cases log_step h with
    | quiet hl' _ _ _ => rw [hl'] at hl; simp at hl
    | bump hl' _ _ => rw [hl'] at hl; simp at hl
    | handle e _ _ _ hidle _ _ _ => exact absurd hidle hpc
    | call e hl' _ _ _ hpc' _ hres hop _ hcall =>
      rw [hl'] at hl
      have he : e = ⟨l.tid.val, (s.thr l.tid).seq, op, (C09.stepTrie s.trie op).2⟩ := by
        simpa using hl
      rw [hcall, hc] at hop
      have hop' : op = .add p v := by rw [he] at hop; exact hop
      subst hop'
      rw [he] at hres hl'
      cases ha : add s.trie p v with
      | none =>
        simp only [C09.stepTrie, ha] at hres hl' ht
        exact ⟨by simpa using ht, by simpa using hl', by simpa using hres, hpc'⟩
      | some t' =>
        simp only [C09.stepTrie, ha] at hres hl' ht
        exact ⟨by simpa using ht, by simpa using hl', by simpa using hres, hpc'⟩

/-- A successful add stores its leaf and leaves every other leaf alone (C09 `add_refines` at the
linearisation instant).  Together with `leaf_stable` below: **concurrent adds beneath a
not-yet-existing branch all survive**, whichever of them wins the upgrade. -/
theorem add_keeps_others {s : Cfg n} (hr : Reach true s) (p : Path) (v : Nat) (t' : Trie Nat)
    (ha : add s.trie p v = some t') (kv : Path × Nat) :
    kv ∈ walk t' ↔ kv = (p, v) ∨ (kv ∈ walk s.trie ∧ kv.1 ≠ p) := by
  have := (C09.add_refines s.trie t' p v (inv_reach hr).wf ha).2
  rw [this.mem_iff]
  simp

/-- A stored leaf `(k, w)` can only disappear or change by a step that is logged as a delete,
or as an add / handle update of exactly the key `k`: no add to another path and no traversal
step ever loses it. -/
theorem leaf_stable {s s' : Cfg n} {l : Label n} (hr : Reach true s) (h : Step true s l s')
    (k : Path) (w : Nat) (hk : (k, w) ∈ walk s.trie) :
    (k, w) ∈ walk s'.trie ∨
    ∃ e, s'.log = s.log ++ [e] ∧
      ((∃ q, e.op = .del q) ∨ (∃ q m, e.op = .delIf q m) ∨ (∃ v, e.op = .add k v) ∨ (∃ v, e.op = .upd k v)) := by
  have hi := inv_reach hr
  rcases lin_step hi h with ⟨_, ht⟩ | ⟨op, hl, ht⟩
  · left; rw [ht]; exact hk
  · cases op with
    | add p v =>
      by_cases hp : p = k
      · exact Or.inr ⟨_, hl, Or.inr (Or.inr (Or.inl ⟨v, by rw [hp]⟩))⟩
      · left
        rw [ht]
        simp only [C09.stepTrie]
        cases ha : add s.trie p v with
        | none => exact hk
        | some t' => exact (add_keeps_others hr p v t' ha (k, w)).2 (Or.inr ⟨hk, fun e => hp e.symm⟩)
    | get p => left; rw [ht]; exact hk
    | query q => left; rw [ht]; exact hk
    | walk => left; rw [ht]; exact hk
    | walkSorted => left; rw [ht]; exact hk
    | del q => exact Or.inr ⟨_, hl, Or.inl ⟨q, rfl⟩⟩
    | delIf q m => exact Or.inr ⟨_, hl, Or.inr (Or.inl ⟨q, m, rfl⟩)⟩
    | upd p v =>
      by_cases hp : p = k
      · exact Or.inr ⟨_, hl, Or.inr (Or.inr (Or.inr ⟨v, by rw [hp]⟩))⟩
      · left
        rw [ht]
        simp only [C09.stepTrie]
        cases hu : upd s.trie p v with
        | none => exact hk
        | some t' =>
          have ha : add s.trie p v = some t' := by
            simp only [upd] at hu
            split at hu
            · exact hu
            · cases hu
          exact (add_keeps_others hr p v t' ha (k, w)).2 (Or.inr ⟨hk, fun e => hp e.symm⟩)

/-! ## deletes are atomic -/

/-- A delete step fires only when no thread holds any lock anywhere in the tree (every
traversal is entirely before or entirely after it), and it applies the whole sequential
`internalDelete` at once. -/
theorem delete_atomic {s s' : Cfg n} {τ : Fin n} (hr : Reach true s) (h : Step true s (.delete τ) s') :
    (∀ σ, (s.thr σ).stack = []) ∧
    ∃ q m, (s.thr τ).call = .del q m ∧
      s'.trie = (del (delCond m) s.trie q).1 ∧
      (s'.thr τ).res = .set (del (delCond m) s.trie q).2 := by
  have hi := inv_reach hr
  obtain ⟨hg, rfl⟩ := h
  simp only [CC.guard, Bool.and_eq_true, beq_iff_eq, wOK_iff] at hg
  obtain ⟨⟨hpc, hw⟩, hg⟩ := hg
  refine ⟨?_, ?_⟩
  · intro σ
    by_cases hσ : σ = τ
    · subst hσ; exact hi.idle σ (Or.inr hpc)
    · by_cases hne : (s.thr σ).stack = []
      · exact hne
      · obtain ⟨g, hg', hgn⟩ := chain_root _ hne (hi.chain σ)
        exact absurd hgn (hw σ hσ g hg')
  · split at hg
    · rename_i q m hcall
      exact ⟨q, m, hcall, by simp [eff, eff0, hcall, setThr, addLog],
        by simp [eff, eff0, hcall, setThr, addLog]⟩
    · cases hg

/-! ## point operations are linearizable -/

/-- Every reachable trie is the sequential replay (from the empty tree) of the linearisation
log, every logged result is the sequential result at that point, the log restricted to a
thread is in that thread's program order (strictly increasing operation numbers, none from
the future), and a call that has taken effect returns exactly its logged result.  The log
holds `Add`, `Get`/`GetLeaf`, `Delete*`, and `Leaf.Value`/`Leaf.Update` on still-attached
leaves, each appended by a step inside the operation's own invocation/response interval.
Hence once all operations have finished the content equals that produced by the sequential
ordering `s.log`. -/
theorem linearizable_point_ops {s : Cfg n} (hr : Reach true s) :
    s.trie = replayFrom .empty s.log ∧ LegalFrom .empty s.log ∧
    s.log.Pairwise (fun a b => a.tid = b.tid → a.seq < b.seq) ∧
    (∀ e ∈ s.log, ∀ τ : Fin n, e.tid = τ.val → e.seq ≤ (s.thr τ).seq) ∧
    (∀ τ, (s.thr τ).pc = .unwind → notQuery (s.thr τ).call →
      ∃ e ∈ s.log, e.tid = τ.val ∧ e.seq = (s.thr τ).seq ∧ e.obs = (s.thr τ).res ∧
        e.op = callOp (s.thr τ).call) := by
  obtain ⟨h1, h2⟩ := replay_reach hr
  have hp := po_reach hr
  refine ⟨h1, h2, hp.order, ?_, hp.res⟩
  intro e he τ hτ
  rcases hp.bound e he τ hτ with h | h
  · exact Nat.le_of_lt h
  · exact Nat.le_of_eq h.1

/-- the reachable trie is always a well-formed tree (so all of C09 applies to it) -/
theorem reachable_wf {s : Cfg n} (hr : Reach true s) : WFRoot s.trie := (inv_reach hr).wf

/-- an attached handle always points at a leaf -/
theorem attached_handle_is_leaf {s : Cfg n} (hr : Reach true s) (σ : Fin n) (h : Handle)
    (hh : h ∈ (s.thr σ).hs) (ha : attached s h = true) : ∃ w, Trie.get s.trie h.path = some (.leaf w) :=
  (inv_reach hr).hinv σ h hh (by simpa [attached] using ha)

/-! ## no deadlock -/

/-- In every reachable configuration in which some operation is unfinished, some unfinished
operation has an enabled transition.  (Locks are only acquired parent → child —
`locks_form_a_path` — and the upgrade releases the node before re-acquiring it, so a thread
that waits for a lock waits for a thread that holds strictly more locks; a thread holding the
most locks waits for nobody: `CC.progress_or_blocked`.)  Lock model: a write lock is granted
iff there is no other holder, a read lock iff there is no other writer. -/
theorem no_deadlock {s : Cfg n} (hr : Reach true s) (τ : Fin n) (hpc : (s.thr τ).pc ≠ .idle) :
    ∃ (l : Label n) (s' : Cfg n), (s.thr l.tid).pc ≠ .idle ∧ Step true s l s' := by
  obtain ⟨l, h1, h2⟩ := progress (inv_reach hr) (inv2_reach hr) τ hpc
  exact ⟨l, eff s l, h1, h2, rfl⟩

/-- what a waiting thread waits for: a thread holding strictly more locks -/
theorem waits_for_deeper {s : Cfg n} (hr : Reach true s) (τ : Fin n) (hpc : (s.thr τ).pc ≠ .idle) :
    (∃ l : Label n, l.tid = τ ∧ CC.guard true s l = true) ∨
    (∃ σ, (s.thr σ).pc ≠ .idle ∧ (s.thr τ).stack.length < (s.thr σ).stack.length) :=
  progress_or_blocked (inv_reach hr) (inv2_reach hr) τ hpc

/-! ## query stability

Ghost state: from the configuration in which thread `τ` invokes `Query q` on,
`s.qmust τ` = the keys matching `q` that have been present in *every* configuration so far and
`s.qmay τ` = the key/value pairs that have been present in *some* configuration so far
(`qmust_at_invoke`, `qmust_later`, `qmay_at_invoke`, `qmay_later` say exactly this). -/

theorem qmust_at_invoke (s : Cfg n) (τ : Fin n) (q : Path) (k : Path) :
    k ∈ (eff s (.invoke τ (.query q))).qmust τ ↔ (∃ v, (k, v) ∈ walk s.trie) ∧ qmatches q k = true := by
  obtain ⟨_, h2, _⟩ := eff_q_invoke s τ q τ
  rw [h2]
  simp only [if_true, List.mem_filter, List.mem_map, hasKey_iff]
  constructor
  · rintro ⟨⟨_, hm⟩, hv⟩; exact ⟨hv, hm⟩
  · rintro ⟨⟨v, hv⟩, hm⟩; exact ⟨⟨⟨(k, v), hv, rfl⟩, hm⟩, ⟨v, hv⟩⟩

theorem qmay_at_invoke (s : Cfg n) (τ : Fin n) (q : Path) :
    (eff s (.invoke τ (.query q))).qmay τ = walk s.trie := by
  obtain ⟨_, _, h3⟩ := eff_q_invoke s τ q τ
  rw [h3]; simp

theorem qmust_later {s s' : Cfg n} {l : Label n} (h : Step true s l s') (τ : Fin n)
    (hl : isInvokeQuery l = false ∨ τ ≠ l.tid) (k : Path) :
    k ∈ s'.qmust τ ↔ k ∈ s.qmust τ ∧ ∃ v, (k, v) ∈ walk s'.trie := by
  rw [(q_fields h τ hl).1, List.mem_filter, hasKey_iff]

theorem qmay_later {s s' : Cfg n} {l : Label n} (h : Step true s l s') (τ : Fin n)
    (hl : isInvokeQuery l = false ∨ τ ≠ l.tid) (kv : Path × Nat) :
    kv ∈ s'.qmay τ ↔ kv ∈ s.qmay τ ∨ kv ∈ walk s'.trie := by
  rw [(q_fields h τ hl).2, List.mem_append]

/-- A `Query q` that has released its last lock (it returns `out` in its next step) has
reported every key matching `q` that was present in every configuration since its invocation,
only key/value pairs that match `q` and were present in some configuration since its
invocation, and no key twice. -/
theorem query_stability {s : Cfg n} (hr : Reach true s) (τ : Fin n) (q : Path)
    (hc : (s.thr τ).call = .query q) (hpc : (s.thr τ).pc = .run) (hst : (s.thr τ).stack = []) :
    (∀ k ∈ s.qmust τ, ∃ v, (k, v) ∈ (s.thr τ).out) ∧
    (∀ kv ∈ (s.thr τ).out, kv ∈ s.qmay τ ∧ qmatches q kv.1 = true) ∧
    ((s.thr τ).out.map (·.1)).Nodup := by
  have hq := qall_reach hr τ q hc (Or.inr hpc)
  refine ⟨?_, hq.sound, hq.nodupOut⟩
  intro k hk
  rcases hq.covered hpc k hk with h | ⟨f, hf, _⟩
  · exact h
  · rw [hst] at hf; cases hf

/-- soundness and at-most-once hold at every moment of a running query, not only at its end -/
theorem query_reports_sound {s : Cfg n} (hr : Reach true s) (τ : Fin n) (q : Path)
    (hc : (s.thr τ).call = .query q) (hpc : (s.thr τ).pc = .run) :
    (∀ kv ∈ (s.thr τ).out, kv ∈ s.qmay τ ∧ qmatches q kv.1 = true) ∧ ((s.thr τ).out.map (·.1)).Nodup :=
  ⟨(qall_reach hr τ q hc (Or.inr hpc)).sound, (qall_reach hr τ q hc (Or.inr hpc)).nodupOut⟩

/-- the value the query returns is the list it reported -/
theorem query_returns {s s' : Cfg n} {τ : Fin n} (h : Step true s (.ret τ) s') (q : Path)
    (hc : (s.thr τ).call = .query q) : (s'.thr τ).res = .set (s.thr τ).out := by
  rw [h.2]; simp [eff, eff0, setThr, hc]

/-! ## the race clause

`accesses nl s l` lists the reads and writes of `leafBranch` that transition `l` performs, with
the locks held at each access.  `nl = true` is the code as it is: `internalDelete` reads every
non-root node under that node's own read lock (in addition to the root write lock held by the
delete); `nl = false` is the code before that repair and only appears in the regression
witness for defect D15 at the end of this section. -/

/-- the locking discipline of one access -/
def Disc (nl : Bool) (s : Cfg n) (a : Access) : Prop :=
  match a.kind with
  | .tree => (∃ m, (a.node, m) ∈ a.locks ∧ (a.write = true → m = .W)) ∧ (∃ m, (([] : Path), m) ∈ a.locks) ∧
      a.gen = s.gens a.node
  | .del => (([] : Path), Mode.W) ∈ a.locks ∧ a.gen = s.gens a.node ∧
      (a.write = true → leafAt s.trie a.node = false) ∧
      (nl = true → a.write = false → ∃ m, (a.node, m) ∈ a.locks)
  | .hval => a.locks = [(a.node, .R)] ∧ a.write = false ∧
      (a.gen = s.gens a.node → leafAt s.trie a.node = true)
  | .hupd => a.locks = [(a.node, .W)] ∧ (a.gen = s.gens a.node → leafAt s.trie a.node = true)

theorem mem_locksOf {th : Thread} {f : Frame} (h : f ∈ th.stack) : (f.node, f.mode) ∈ locksOf th :=
  List.mem_map.2 ⟨f, h, rfl⟩

theorem root_locked {s : Cfg n} (hi : Inv s) (τ : Fin n) (f : Frame) (hf : f ∈ (s.thr τ).stack) :
    ∃ m, (([] : Path), m) ∈ locksOf (s.thr τ) := by
  have hne : (s.thr τ).stack ≠ [] := by intro e; rw [e] at hf; cases hf
  obtain ⟨g, hg, hgn⟩ := chain_root _ hne (hi.chain τ)
  exact ⟨g.mode, hgn ▸ mem_locksOf hg⟩

theorem handle_leaf {s : Cfg n} (hi : Inv s) {h : Handle} (his : issued s h = true)
    (hgen : h.gen = s.gens h.path) : leafAt s.trie h.path = true := by
  simp only [issued, decide_eq_true_eq] at his
  obtain ⟨σ, hσ⟩ := his
  obtain ⟨w, hw⟩ := hi.hinv σ h hσ hgen.symm
  simp [leafAt, hw]

theorem disc_of_guard (nl : Bool) {s : Cfg n} (hi : Inv s) {l : Label n} (hg : CC.guard true s l = true) :
    ∀ a ∈ accesses nl s l, Disc nl s a := by
  intro a ha
  cases l with
  | rlockRoot τ =>
    simp only [accesses, List.mem_singleton] at ha; subst ha
    exact ⟨⟨.R, by simp, by simp⟩, ⟨.R, by simp⟩, rfl⟩
  | termRoot τ =>
    simp only [accesses, List.mem_singleton] at ha; subst ha
    exact ⟨⟨.W, by simp, by simp⟩, ⟨.W, by simp⟩, rfl⟩
  | rlockChild τ =>
    simp only [accesses] at ha
    split at ha
    · rename_i f htop
      split at ha
      · rename_i k hk
        have hf := mem_of_top htop
        obtain ⟨m0, hm0⟩ := root_locked hi τ f hf
        simp only [List.mem_cons, List.not_mem_nil, or_false] at ha
        rcases ha with rfl | rfl
        · exact ⟨⟨f.mode, mem_locksOf hf, by simp⟩, ⟨m0, hm0⟩, rfl⟩
        · exact ⟨⟨.R, by simp, by simp⟩, ⟨m0, List.mem_cons_of_mem _ hm0⟩, rfl⟩
      · cases ha
    · cases ha
  | termWrite τ =>
    simp only [accesses] at ha
    split at ha
    · rename_i f htop
      split at ha
      · rename_i k r hk
        have hf := mem_of_top htop
        obtain ⟨m0, hm0⟩ := root_locked hi τ f hf
        simp only [List.mem_cons, List.not_mem_nil, or_false] at ha
        rcases ha with rfl | rfl
        · exact ⟨⟨f.mode, mem_locksOf hf, by simp⟩, ⟨m0, hm0⟩, rfl⟩
        · exact ⟨⟨.W, by simp, by simp⟩, ⟨m0, List.mem_cons_of_mem _ hm0⟩, rfl⟩
      · cases ha
    · cases ha
  | upgRelease τ =>
    simp only [accesses] at ha
    split at ha
    · rename_i f htop
      have hf := mem_of_top htop
      simp only [List.mem_singleton] at ha; subst ha
      exact ⟨⟨f.mode, mem_locksOf hf, by simp⟩, root_locked hi τ f hf, rfl⟩
    · cases ha
  | addErr τ =>
    simp only [accesses] at ha
    split at ha
    · rename_i f htop
      have hf := mem_of_top htop
      simp only [List.mem_singleton] at ha; subst ha
      exact ⟨⟨f.mode, mem_locksOf hf, by simp⟩, root_locked hi τ f hf, rfl⟩
    · cases ha
  | getMiss τ =>
    simp only [accesses] at ha
    split at ha
    · rename_i f htop
      have hf := mem_of_top htop
      simp only [List.mem_singleton] at ha; subst ha
      exact ⟨⟨f.mode, mem_locksOf hf, by simp⟩, root_locked hi τ f hf, rfl⟩
    · cases ha
  | insert τ =>
    simp only [accesses] at ha
    split at ha
    · rename_i f htop
      have hf := mem_of_top htop
      simp only [List.mem_singleton] at ha; subst ha
      simp only [CC.guard, Bool.and_eq_true, beq_iff_eq] at hg
      obtain ⟨hpc, hg⟩ := hg
      split at hg
      · rename_i p v f' hcall htop'
        rw [htop] at htop'; cases htop'
        simp only [Bool.and_eq_true, beq_iff_eq] at hg
        exact ⟨⟨f.mode, mem_locksOf hf, fun _ => hg.1⟩, root_locked hi τ f hf, rfl⟩
      · cases hg
    · cases ha
  | clobber τ => simp [CC.guard] at hg
  | delete τ =>
    simp only [accesses] at ha
    split at ha
    · simp only [List.mem_flatten, List.mem_map] at ha
      obtain ⟨as, ⟨x, _, rfl⟩, hax⟩ := ha
      simp only [delAccesses, List.mem_cons] at hax
      rcases hax with rfl | hax
      · refine ⟨?_, rfl, by simp, ?_⟩
        · simp only [delReadLocks]; split <;> simp
        · intro hnl _
          subst hnl
          simp only [delReadLocks, Bool.true_and]
          by_cases hx : x = []
          · exact ⟨.W, by simp [hx]⟩
          · exact ⟨.R, by simp [hx]⟩
      · split at hax
        · cases hax
        · rename_i hleaf
          simp only [List.mem_singleton] at hax; subst hax
          exact ⟨by simp, rfl, fun _ => by simpa using hleaf, by simp⟩
    · cases ha
  | hval τ h =>
    simp only [accesses, List.mem_singleton] at ha; subst ha
    simp only [CC.guard, Bool.and_eq_true, beq_iff_eq] at hg
    exact ⟨rfl, rfl, fun hgen => handle_leaf hi hg.1.2 hgen⟩
  | hupd τ h v =>
    simp only [accesses, List.mem_singleton] at ha; subst ha
    simp only [CC.guard, Bool.and_eq_true, beq_iff_eq] at hg
    exact ⟨rfl, fun hgen => handle_leaf hi hg.1.2 hgen⟩
  | invoke τ c => cases ha
  | upgAcquire τ => cases ha
  | getHit τ => cases ha
  | unlock τ => cases ha
  | ret τ => cases ha

/-- **The race clause.**  In every reachable configuration, conflicting accesses (same node —
path and generation —, different threads, at least one write) of two enabled transitions to a
node's `leafBranch` share a lock that at least one of them holds in write mode.  This covers
in particular `Leaf.Update`/`Leaf.Value` through retained handles against deletes: the delete
reads a leaf under the leaf's own read lock, and it writes (`delete(b, k)`) only to branch
nodes, to which no handle is attached. -/
theorem race_free {s : Cfg n} (hr : Reach true s) (l l' : Label n)
    (hg : CC.guard true s l = true) (hg' : CC.guard true s l' = true)
    (a : Access) (ha : a ∈ accesses true s l) (b : Access) (hb : b ∈ accesses true s l')
    (hc : Conflict a b) : CommonLock a b := by
  have hi := inv_reach hr
  have da := disc_of_guard true hi hg a ha
  have db := disc_of_guard true hi hg' b hb
  obtain ⟨_, hn, hgen, hw⟩ := hc
  unfold Disc at da db
  cases hka : a.kind <;> cases hkb : b.kind <;> simp only [hka, hkb] at da db
  · -- tree / tree
    obtain ⟨⟨m1, h1, hw1⟩, _, _⟩ := da
    obtain ⟨⟨m2, h2, hw2⟩, _, _⟩ := db
    refine ⟨a.node, m1, m2, h1, hn ▸ h2, ?_⟩
    rcases hw with hw | hw
    · exact Or.inl (hw1 hw)
    · exact Or.inr (hw2 hw)
  · -- tree / del
    obtain ⟨_, ⟨m1, h1⟩, _⟩ := da
    exact ⟨[], m1, .W, h1, db.1, Or.inr rfl⟩
  · -- tree / hval
    obtain ⟨⟨m1, h1, hw1⟩, _, _⟩ := da
    refine ⟨a.node, m1, .R, h1, by rw [db.1, hn]; simp, ?_⟩
    rcases hw with hw | hw
    · exact Or.inl (hw1 hw)
    · rw [db.2.1] at hw; cases hw
  · -- tree / hupd
    obtain ⟨⟨m1, h1, _⟩, _, _⟩ := da
    exact ⟨a.node, m1, .W, h1, by rw [db.1, hn]; simp, Or.inr rfl⟩
  · -- del / tree
    obtain ⟨_, ⟨m2, h2⟩, _⟩ := db
    exact ⟨[], .W, m2, da.1, h2, Or.inl rfl⟩
  · -- del / del
    exact ⟨[], .W, .W, da.1, db.1, Or.inl rfl⟩
  · -- del / hval : the node is a leaf, which a delete only reads
    exfalso
    have hleaf := db.2.2 (by rw [← hgen, da.2.1, hn])
    rcases hw with hw | hw
    · have := da.2.2.1 hw
      rw [hn, hleaf] at this; cases this
    · rw [db.2.1] at hw; cases hw
  · -- del / hupd : the delete's read holds the leaf's own lock
    have hleaf := db.2 (by rw [← hgen, da.2.1, hn])
    cases haw : a.write with
    | true =>
      have := da.2.2.1 haw
      rw [hn, hleaf] at this; cases this
    | false =>
      obtain ⟨m, hm⟩ := da.2.2.2 trivial haw
      exact ⟨a.node, m, .W, hm, by rw [db.1, hn]; simp, Or.inr rfl⟩
  · -- hval / tree
    obtain ⟨⟨m2, h2, hw2⟩, _, _⟩ := db
    refine ⟨a.node, .R, m2, by rw [da.1]; simp, hn ▸ h2, ?_⟩
    rcases hw with hw | hw
    · rw [da.2.1] at hw; cases hw
    · exact Or.inr (hw2 hw)
  · -- hval / del
    exfalso
    have hleaf := da.2.2 (by rw [hgen, db.2.1, hn])
    rcases hw with hw | hw
    · rw [da.2.1] at hw; cases hw
    · have := db.2.2.1 hw
      rw [← hn, hleaf] at this; cases this
  · -- hval / hval
    exfalso
    rcases hw with hw | hw
    · rw [da.2.1] at hw; cases hw
    · rw [db.2.1] at hw; cases hw
  · -- hval / hupd
    exact ⟨a.node, .R, .W, by rw [da.1]; simp, by rw [db.1, hn]; simp, Or.inr rfl⟩
  · -- hupd / tree
    obtain ⟨⟨m2, h2, _⟩, _, _⟩ := db
    exact ⟨a.node, .W, m2, by rw [da.1]; simp, hn ▸ h2, Or.inl rfl⟩
  · -- hupd / del
    have hleaf := da.2 (by rw [hgen, db.2.1, hn])
    cases hbw : b.write with
    | true =>
      have := db.2.2.1 hbw
      rw [← hn, hleaf] at this; cases this
    | false =>
      obtain ⟨m, hm⟩ := db.2.2.2 trivial hbw
      exact ⟨a.node, .W, m, by rw [da.1]; simp, hn ▸ hm, Or.inl rfl⟩
  · -- hupd / hval
    exact ⟨a.node, .W, .R, by rw [da.1]; simp, by rw [db.1, hn]; simp, Or.inl rfl⟩
  · -- hupd / hupd
    exact ⟨a.node, .W, .W, by rw [da.1]; simp, by rw [db.1, hn]; simp, Or.inl rfl⟩

/-! ### regression witness: the code before the repair of D15 (`nl = false`)

Before repository commit "fix: ctree deletes read each node under its own lock",
`internalDelete` read the descendants' `leafBranch` under the root write lock only.  The race
clause was false of that code; the witness is kept so that the model element the repair
corresponds to (`delReadLocks true`) is known to matter. -/

theorem reach_exec {rc : Bool} : ∀ (ls : List (Label n)) {s s' : Cfg n}, Reach rc s →
    exec rc s ls = some s' → Reach rc s'
  | [], s, s', hr, h => by simp only [exec, Option.some.injEq] at h; exact h ▸ hr
  | l :: ls, s, s', hr, h => by
      simp only [exec, next] at h
      by_cases hg : CC.guard rc s l = true
      · simp only [hg, if_true] at h
        exact reach_exec ls (Reach.step hr ⟨hg, rfl⟩) h
      · simp [hg] at h

/-- add `a/b`, fetch a handle on it (`GetLeaf`), then start `Delete(a)` in a second thread -/
def raceTrace : List (Label 2) := [
  .invoke 0 (.add ["a", "b"] 1), .rlockRoot 0, .upgRelease 0, .upgAcquire 0, .insert 0, .unlock 0, .ret 0,
  .invoke 0 (.get ["a", "b"]), .rlockRoot 0, .rlockChild 0, .rlockChild 0, .getHit 0,
  .unlock 0, .unlock 0, .unlock 0, .ret 0,
  .invoke 1 (.del ["a"] none)]

def raceCfg : Cfg 2 := (exec true (init 2) raceTrace).getD (init 2)

set_option maxRecDepth 8000 in
theorem raceCfg_reach : Reach true raceCfg := by
  have h : (exec true (init 2) raceTrace).isSome = true := by decide
  obtain ⟨s, hs⟩ := Option.isSome_iff_exists.1 h
  have : raceCfg = s := by simp [raceCfg, hs]
  rw [this]
  exact reach_exec _ Reach.init hs

def raceA : Access := ⟨0, ["a", "b"], 0, true, [(["a", "b"], .W)], .hupd⟩
/-- the delete's read of the leaf as it was before the repair: root write lock only -/
def raceB : Access := ⟨1, ["a", "b"], 0, false, [([], .W)], .del⟩
/-- the same read in the code as it is: also the leaf's own read lock -/
def raceB' : Access := ⟨1, ["a", "b"], 0, false, [([], .W), (["a", "b"], .R)], .del⟩

set_option maxRecDepth 8000 in
/-- **D15 (repaired).** A reachable configuration in which `Leaf.Update` through a retained
handle (write of the leaf's `leafBranch` under the leaf's own lock) and `Delete` of an ancestor
are both enabled.  With the delete's read as it was before the repair (`accesses false`) the two
locksets are disjoint; in the code as it is (`accesses true`) the read carries the leaf's lock. -/
theorem race_witness_prefix :
    Reach true raceCfg ∧
    CC.guard true raceCfg (.hupd 0 ⟨["a", "b"], 0⟩ 7) = true ∧ CC.guard true raceCfg (.delete 1) = true ∧
    raceA ∈ accesses false raceCfg (.hupd 0 ⟨["a", "b"], 0⟩ 7) ∧ raceB ∈ accesses false raceCfg (.delete 1) ∧
    Conflict raceA raceB ∧ ¬ CommonLock raceA raceB ∧
    raceB' ∈ accesses true raceCfg (.delete 1) ∧ CommonLock raceA raceB' := by
  refine ⟨raceCfg_reach, by decide, by decide, by decide, by decide, ?_, ?_, by decide, ?_⟩
  · exact ⟨by decide, rfl, rfl, Or.inl rfl⟩
  · rintro ⟨x, m1, m2, h1, h2, _⟩
    simp only [raceA, raceB, List.mem_singleton, Prod.mk.injEq] at h1 h2
    rw [h1.1] at h2
    exact absurd h2.1 (by decide)
  · exact ⟨["a", "b"], .W, .R, by simp [raceA], by simp [raceB'], Or.inl rfl⟩

/-- the race clause stated for the code before the repair -/
def race_free_before_fix : Prop :=
  ∀ (n : Nat) (s : Cfg n), Reach true s → ∀ l l' : Label n, CC.guard true s l = true →
    CC.guard true s l' = true → ∀ a ∈ accesses false s l, ∀ b ∈ accesses false s l',
      Conflict a b → CommonLock a b

/-- … was false (defect D15) -/
theorem race_free_false_before_fix : ¬ race_free_before_fix := by
  intro h
  obtain ⟨hr, g1, g2, ha, hb, hc, hn, _⟩ := race_witness_prefix
  exact hn (h 2 raceCfg hr _ _ g1 g2 _ ha _ hb hc)

/-! ## non-vacuity of the re-check: the mutant LTS loses a leaf -/

/-- two adds beneath the not-yet-existing branch `a`, both in the upgrade window at the root;
the second one overwrites (`clobber`: `slowAdd` without the re-check) -/
def mutantTrace : List (Label 2) := [
  .invoke 0 (.add ["a", "b"] 1), .invoke 1 (.add ["a", "c"] 2),
  .rlockRoot 0, .rlockRoot 1, .upgRelease 0, .upgRelease 1,
  .upgAcquire 0, .insert 0, .unlock 0, .ret 0,
  .upgAcquire 1, .clobber 1, .unlock 1, .ret 1]

def isOkAdd (e : Entry) (p : Path) (v : Nat) : Bool :=
  match e.op, e.obs with
  | .add p' v', .status true => p' == p && v' == v
  | _, _ => false

def mutantCfg : Cfg 2 := (exec false (init 2) mutantTrace).getD (init 2)

set_option maxRecDepth 8000 in
/-- In the LTS *without* the `slowAdd` re-check (`rc = false`) there is a reachable quiescent
configuration whose log consists of two successful adds (`a/b`, `a/c`; no delete) and whose
content lacks `a/b`: the leaf is lost.  With the re-check (`rc = true`) the same schedule is
impossible (`clobber` is never enabled) and `leaf_stable` holds. -/
theorem mutant_loses_leaf :
    Reach false mutantCfg ∧ (∀ τ : Fin 2, (mutantCfg.thr τ).pc = .idle) ∧
    mutantCfg.log.map (fun e => (isOkAdd e ["a", "b"] 1, isOkAdd e ["a", "c"] 2)) = [(true, false), (false, true)] ∧
    walk mutantCfg.trie = [(["a", "c"], 2)] := by
  refine ⟨?_, by decide, by decide, by decide⟩
  have h : (exec false (init 2) mutantTrace).isSome = true := by decide
  obtain ⟨s, hs⟩ := Option.isSome_iff_exists.1 h
  have : mutantCfg = s := by simp [mutantCfg, hs]
  rw [this]
  exact reach_exec _ Reach.init hs

/-- the same schedule is not a run of the real LTS -/
theorem mutantTrace_not_real : exec true (init 2) mutantTrace = none := by decide

/-- the real LTS on the corresponding schedule (the late thread finds `a`, descends, upgrades
again one level down): both leaves survive -/
def realTrace : List (Label 2) := [
  .invoke 0 (.add ["a", "b"] 1), .invoke 1 (.add ["a", "c"] 2),
  .rlockRoot 0, .rlockRoot 1, .upgRelease 0, .upgRelease 1,
  .upgAcquire 0, .insert 0, .unlock 0, .ret 0,
  .upgAcquire 1, .rlockChild 1, .upgRelease 1, .upgAcquire 1, .insert 1, .unlock 1, .unlock 1, .ret 1]

set_option maxRecDepth 8000 in
example : (exec true (init 2) realTrace).map (fun s => walk s.trie) =
    some [(["a", "b"], 1), (["a", "c"], 2)] := by decide

/-! ## non-vacuity: concrete reachable configurations meeting the hypotheses -/

/-- thread 1 is in the middle of `Get a/b` (holds the read locks of the root and of `a`),
thread 0 is about to overwrite the leaf `a/b` -/
def busyTrace : List (Label 2) := [
  .invoke 0 (.add ["a", "b"] 1), .rlockRoot 0, .upgRelease 0, .upgAcquire 0, .insert 0, .unlock 0, .ret 0,
  .invoke 1 (.get ["a", "b"]), .rlockRoot 1, .rlockChild 1,
  .invoke 0 (.add ["a", "b"] 2), .rlockRoot 0, .rlockChild 0]

def busyCfg : Cfg 2 := (exec true (init 2) busyTrace).getD (init 2)

set_option maxRecDepth 8000 in
theorem busyCfg_reach : Reach true busyCfg := by
  have h : (exec true (init 2) busyTrace).isSome = true := by decide
  obtain ⟨s, hs⟩ := Option.isSome_iff_exists.1 h
  have : busyCfg = s := by simp [busyCfg, hs]
  rw [this]
  exact reach_exec _ Reach.init hs

set_option maxRecDepth 8000 in
/-- hypotheses of `frozen_ancestors`, `add_linearises`, `no_deadlock`: thread 0's `termWrite` is
enabled while thread 1 holds two locks; the write goes to a node thread 1 does not hold -/
example : Reach true busyCfg ∧ CC.guard true busyCfg (.termWrite 0) = true ∧
    (busyCfg.thr 1).stack.map (·.node) = [["a"], []] ∧
    (busyCfg.thr 0).call = .add ["a", "b"] 2 ∧ (busyCfg.thr 0).pc = .run ∧
    walk (eff busyCfg (.termWrite 0)).trie = [(["a", "b"], 2)] := by
  refine ⟨busyCfg_reach, by decide, by decide, by decide, by decide, by decide⟩

/-- a query over `a/*` interleaved with an add and a delete: it starts with `a/b`, `a/c`
present; `a/c` is visited, then (while the query holds no lock below `a/c`… it still holds the
root, so the delete has to wait) the query finishes; `a/d` added meanwhile is not required -/
def queryTrace : List (Label 2) := [
  .invoke 0 (.add ["a", "b"] 1), .rlockRoot 0, .upgRelease 0, .upgAcquire 0, .insert 0, .unlock 0, .ret 0,
  .invoke 0 (.add ["a", "c"] 2), .rlockRoot 0, .rlockChild 0, .upgRelease 0, .upgAcquire 0, .insert 0,
  .unlock 0, .unlock 0, .ret 0,
  .invoke 1 (.query ["a", "*"]), .rlockRoot 1, .rlockChild 1, .rlockChild 1, .unlock 1,
  .invoke 0 (.add ["a", "d"] 3), .rlockRoot 0, .rlockChild 0, .upgRelease 0,
  .rlockChild 1, .unlock 1, .unlock 1,
  .upgAcquire 0, .insert 0, .unlock 0, .unlock 0, .ret 0,
  .unlock 1]

def queryCfg : Cfg 2 := (exec true (init 2) queryTrace).getD (init 2)

set_option maxRecDepth 8000 in
theorem queryCfg_reach : Reach true queryCfg := by
  have h : (exec true (init 2) queryTrace).isSome = true := by decide
  obtain ⟨s, hs⟩ := Option.isSome_iff_exists.1 h
  have : queryCfg = s := by simp [queryCfg, hs]
  rw [this]
  exact reach_exec _ Reach.init hs

set_option maxRecDepth 16000 in
/-- hypotheses of `query_stability` with a non-trivial outcome: the finished query reported
the two keys present throughout; the key added during the query is in `qmay` only -/
example : Reach true queryCfg ∧ (queryCfg.thr 1).call = .query ["a", "*"] ∧ (queryCfg.thr 1).pc = .run ∧
    (queryCfg.thr 1).stack = [] ∧ (queryCfg.thr 1).out = [(["a", "b"], 1), (["a", "c"], 2)] ∧
    queryCfg.qmust 1 = [["a", "b"], ["a", "c"]] ∧ (["a", "d"], 3) ∈ queryCfg.qmay 1 ∧
    walk queryCfg.trie = [(["a", "b"], 1), (["a", "c"], 2), (["a", "d"], 3)] := by
  refine ⟨queryCfg_reach, by decide, by decide, by decide, by decide, by decide, by decide, by decide⟩

end C10
end Gnmi
