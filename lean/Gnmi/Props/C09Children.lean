import Gnmi.Props.C09
/-!
# C09 — `Children()`: the child names reported at a path

`Tree.Get(p).Children()` (what the `ct children` operation of the correspondence harness
executes on the real code, and the `["children", p]` arm of `Driver/CT.lean` on the model)
returns, for every tree reachable through the API, exactly the set of next elements of the
stored keys that extend `p` — `PMap.childrenAt` of the refined prefix-free map — each child
name once.

`C09.Op` has no `children` constructor (the operation does not change the tree, so it is not
part of the history); the theorems are stated for the tree after *every* history and *every*
path instead, which is the same statement as "a `children` call inserted at any point of any
history returns the spec's answer".
-/
namespace Gnmi
namespace C09
open Trie

variable {V : Type}

/-- `t.Get(p).Children()` — exactly the term the driver evaluates (`Children` of a nil
`*Tree`, which `Get` returns for an absent path, is the empty map). -/
def childrenOf (t : Trie V) (p : Path) : List String :=
  match get t p with
  | some n => childKeys n
  | none => []

/-! ### `eraseDups` yields a duplicate-free list (not in core) -/

theorem nodup_eraseDups {α : Type} [BEq α] [LawfulBEq α] : ∀ (n : Nat) (l : List α),
    l.length ≤ n → l.eraseDups.Nodup
  | _, [], _ => by simp
  | 0, _ :: _, h => by simp at h
  | n + 1, a :: as, h => by
    rw [List.eraseDups_cons, List.nodup_cons]
    constructor
    · rw [List.mem_eraseDups]
      intro hm
      have := (List.mem_filter.1 hm).2
      simp at this
    · apply nodup_eraseDups n
      have h1 := List.length_filter_le (fun b => !b == a) as
      simp only [List.length_cons] at h
      omega

theorem childrenAt_nodup (m : PMap V) (p : Path) : (PMap.childrenAt m p).Nodup :=
  nodup_eraseDups _ _ (Nat.le_refl _)

/-- membership in the spec's answer: `k` is the element following `p` in a stored key -/
theorem mem_childrenAt (m : PMap V) (p : Path) (k : String) :
    k ∈ PMap.childrenAt m p ↔ ∃ kv ∈ m, ∃ r, kv.1 = p ++ k :: r := by
  simp only [PMap.childrenAt, List.mem_eraseDups, List.mem_filterMap]
  constructor
  · rintro ⟨kv, hkv, h⟩
    split at h
    · rename_i hp
      obtain ⟨s, hs⟩ := List.isPrefixOf_iff_prefix.1 hp
      refine ⟨kv, hkv, ?_⟩
      rw [← hs, List.drop_left] at h
      cases s with
      | nil => cases h
      | cons a s =>
        simp only [List.head?_cons, Option.some.injEq] at h
        subst h
        exact ⟨s, hs.symm⟩
    · cases h
  · rintro ⟨kv, hkv, r, hr⟩
    refine ⟨kv, hkv, ?_⟩
    have hp : p.isPrefixOf kv.1 = true := List.isPrefixOf_iff_prefix.2 ⟨k :: r, hr.symm⟩
    rw [if_pos hp, hr, List.drop_left]
    rfl

/-- the spec's answer does not depend on the order of the map -/
theorem childrenAt_perm {m m' : PMap V} (h : m.Perm m') (p : Path) :
    (PMap.childrenAt m p).Perm (PMap.childrenAt m' p) := by
  rw [List.perm_ext_iff_of_nodup (childrenAt_nodup m p) (childrenAt_nodup m' p)]
  intro k
  rw [mem_childrenAt, mem_childrenAt]
  constructor
  · rintro ⟨kv, hkv, r⟩; exact ⟨kv, h.mem_iff.1 hkv, r⟩
  · rintro ⟨kv, hkv, r⟩; exact ⟨kv, h.mem_iff.2 hkv, r⟩

theorem wfl_keys_nodup : ∀ (cs : List (String × Trie V)), WFL cs → (cs.map (·.1)).Nodup
  | [], _ => by simp
  | (k, t) :: cs, h => by
    rw [List.map_cons, List.nodup_cons]
    refine ⟨?_, wfl_keys_nodup cs h.2.2⟩
    intro hm
    obtain ⟨kt, hkt, he⟩ := List.mem_map.1 hm
    exact h.2.1 kt hkt he

theorem wfl_mem : ∀ (cs : List (String × Trie V)), WFL cs → ∀ kt ∈ cs, WF kt.2
  | [], _, _, hm => by cases hm
  | (k, t) :: cs, h, kt, hm => by
    rcases List.mem_cons.1 hm with rfl | hm
    · exact h.1
    · exact wfl_mem cs h.2.2 kt hm

/-- the child names of a (well-formed) node are exactly the first elements of the keys
stored below it -/
theorem mem_childKeys (n : Trie V) (h : WFRoot n) (k : String) :
    k ∈ childKeys n ↔ ∃ kv ∈ content n, ∃ r, kv.1 = k :: r := by
  match n, h with
  | .empty, _ => simp [childKeys, Trie.walk]
  | .leaf v, _ =>
    simp only [childKeys, List.not_mem_nil, Trie.walk, List.mem_singleton, false_iff]
    rintro ⟨kv, rfl, r, hr⟩
    cases hr
  | .branch cs, h =>
    have hw : WF (.branch cs) := by
      rcases h with h | h
      · cases h
      · exact h
    simp only [childKeys, Trie.walk, List.mem_map]
    constructor
    · rintro ⟨kt, hkt, rfl⟩
      have hwt := wfl_mem cs hw.2 kt hkt
      have hne := walk_ne_nil_of_WF kt.2 hwt
      cases hwk : Trie.walk kt.2 with
      | nil => exact absurd hwk hne
      | cons y ys =>
        refine ⟨pre kt.1 y, mem_walkL.2 ⟨kt.1, kt.2, hkt, y, by rw [hwk]; simp, rfl⟩, y.1, rfl⟩
    · rintro ⟨kv, hkv, r, hr⟩
      obtain ⟨k', t', hm, y, _, rfl⟩ := mem_walkL.1 hkv
      simp only [pre_fst, List.cons.injEq] at hr
      exact ⟨(k', t'), hm, hr.1⟩

theorem childKeys_nodup (n : Trie V) (h : WFRoot n) : (childKeys n).Nodup := by
  match n, h with
  | .empty, _ => simp [childKeys]
  | .leaf v, _ => simp [childKeys]
  | .branch cs, h =>
    have hw : WF (.branch cs) := by
      rcases h with h | h
      · cases h
      · exact h
    exact wfl_keys_nodup cs hw.2

theorem mem_filterMap_strip (m : PMap V) (p : Path) (x : Path × V) :
    x ∈ m.filterMap (strip p) ↔ ∃ kv ∈ m, kv.1 = p ++ x.1 ∧ kv.2 = x.2 := by
  simp only [List.mem_filterMap, strip]
  constructor
  · rintro ⟨kv, hkv, h⟩
    split at h
    · rename_i hp
      obtain ⟨s, hs⟩ := List.isPrefixOf_iff_prefix.1 hp
      simp only [Option.some.injEq] at h
      subst h
      refine ⟨kv, hkv, ?_, rfl⟩
      simp only
      rw [← hs, List.drop_left]
    · cases h
  · rintro ⟨kv, hkv, h1, h2⟩
    refine ⟨kv, hkv, ?_⟩
    have hp : p.isPrefixOf kv.1 = true := List.isPrefixOf_iff_prefix.2 ⟨x.1, h1.symm⟩
    rw [if_pos hp, h1, List.drop_left, h2]

/-- the tree never reports a child twice -/
theorem childrenOf_nodup (t : Trie V) (p : Path) (h : WFRoot t) : (childrenOf t p).Nodup := by
  unfold childrenOf
  cases hg : get t p with
  | none => simp
  | some n => exact childKeys_nodup n (get_walk t p n h hg).1

/-- membership form: `k` is reported as a child at `p` iff some stored key is `p ++ k :: r` -/
theorem mem_childrenOf (t : Trie V) (p : Path) (h : WFRoot t) (k : String) :
    k ∈ childrenOf t p ↔ ∃ kv ∈ content t, ∃ r, kv.1 = p ++ k :: r := by
  unfold childrenOf
  cases hg : get t p with
  | none =>
    obtain ⟨_, h2⟩ := get_none t p h hg
    simp only [List.not_mem_nil, false_iff]
    rintro ⟨kv, hkv, r, hr⟩
    have : ((k :: r, kv.2) : Path × V) ∈ (content t).filterMap (strip p) :=
      (mem_filterMap_strip _ p _).2 ⟨kv, hkv, hr, rfl⟩
    rw [h2] at this
    cases this
  | some n =>
    obtain ⟨h1, h2⟩ := get_walk t p n h hg
    simp only
    rw [mem_childKeys n h1 k]
    show (∃ kv ∈ Trie.walk n, ∃ r, kv.1 = k :: r) ↔ _
    rw [h2]
    constructor
    · rintro ⟨x, hx, r, hr⟩
      obtain ⟨kv, hkv, e1, _⟩ := (mem_filterMap_strip _ p x).1 hx
      exact ⟨kv, hkv, r, by rw [e1, hr]⟩
    · rintro ⟨kv, hkv, r, hr⟩
      exact ⟨(k :: r, kv.2), (mem_filterMap_strip _ p _).2 ⟨kv, hkv, hr, rfl⟩, r, rfl⟩

/-- **Children, one tree.** For every well-formed tree (every tree reachable through the API,
`reachable_wf`) and every path, `Get(p).Children()` is — as a duplicate-free list, i.e. as a
set — the spec's `childrenAt` of the tree's flat content. -/
theorem children_spec (t : Trie V) (p : Path) (h : WFRoot t) :
    (childrenOf t p).Perm (PMap.childrenAt (content t) p) := by
  rw [List.perm_ext_iff_of_nodup (childrenOf_nodup t p h) (childrenAt_nodup _ p)]
  intro k
  rw [mem_childrenOf t p h, mem_childrenAt]

/-- … and against any map the tree refines -/
theorem children_refines (t : Trie Nat) (m : PMap Nat) (p : Path) (h : Rel t m) :
    (childrenOf t p).Perm (PMap.childrenAt m p) :=
  (children_spec t p h.1).trans (childrenAt_perm h.2 p)

/-- the state reached by a history on the model and on the spec -/
def trieAfter (ops : List Op) : Trie Nat := ops.foldl (fun t op => (stepTrie t op).1) .empty
def specAfter (ops : List Op) : PMap Nat := ops.foldl (fun m op => (stepSpec m op).1) []

theorem rel_after (ops : List Op) : Rel (trieAfter ops) (specAfter ops) := by
  suffices ∀ (ops : List Op) (t : Trie Nat) (m : PMap Nat), Rel t m →
      Rel (ops.foldl (fun t op => (stepTrie t op).1) t) (ops.foldl (fun m op => (stepSpec m op).1) m) from
    this ops .empty [] ⟨Or.inl rfl, by simp [Trie.walk]⟩
  intro ops
  induction ops with
  | nil => intro t m h; exact h
  | cons op ops ih => intro t m h; exact ih _ _ (step_refines t m op h).2

/-- **C09, Children over every history.** After every sequence of API calls, at every path,
the children the tree reports are the children the prefix-free map (driven by the same calls)
specifies: same elements, no repetition on either side. -/
theorem children_history (ops : List Op) (p : Path) :
    (childrenOf (trieAfter ops) p).Perm (PMap.childrenAt (specAfter ops) p) :=
  children_refines _ _ p (rel_after ops)

/-! ### the same as sorted lists (what the harness compares) -/

def strLe (a b : String) : Bool := decide (a ≤ b)

theorem strLe_trans (a b c : String) : strLe a b = true → strLe b c = true → strLe a c = true := by
  simp only [strLe, decide_eq_true_eq]
  exact String.le_trans

theorem strLe_total (a b : String) : (strLe a b || strLe b a) = true := by
  simp only [strLe, Bool.or_eq_true, decide_eq_true_eq]
  exact String.le_total _ _

/-- sorted with `sort.Strings`, both answers are the same list -/
theorem children_history_sorted (ops : List Op) (p : Path) :
    (childrenOf (trieAfter ops) p).mergeSort strLe =
      (PMap.childrenAt (specAfter ops) p).mergeSort strLe := by
  have hp := ((List.mergeSort_perm (childrenOf (trieAfter ops) p) strLe).trans
    (children_history ops p)).trans (List.mergeSort_perm (PMap.childrenAt (specAfter ops) p) strLe).symm
  apply List.Perm.eq_of_pairwise (le := fun a b => strLe a b = true) _
    (List.pairwise_mergeSort strLe_trans strLe_total _)
    (List.pairwise_mergeSort strLe_trans strLe_total _) hp
  intro a b _ _ hab hba
  simp only [strLe, decide_eq_true_eq] at hab hba
  exact String.le_antisymm hab hba

/-- a node has children exactly when `Get` reports a branch (`IsBranch`) -/
theorem children_nonempty_iff_branch (t : Trie V) (p : Path) (h : WFRoot t) :
    childrenOf t p ≠ [] ↔ ∃ cs, get t p = some (.branch cs) := by
  unfold childrenOf
  cases hg : get t p with
  | none => simp
  | some n =>
    obtain ⟨h1, _⟩ := get_walk t p n h hg
    match n, h1 with
    | .empty, _ => simp [childKeys]
    | .leaf v, _ => simp [childKeys]
    | .branch cs, h1 =>
      have hw : WF (.branch cs) := by
        rcases h1 with h | h
        · cases h
        · exact h
      simp only [childKeys, ne_eq, List.map_eq_nil_iff, Option.some.injEq, Trie.branch.injEq,
        exists_eq', iff_true]
      exact hw.1

/-! ### non-vacuity -/

example : childrenOf sample ["b"] = ["c", "*"] := by decide
example : PMap.childrenAt (content sample) ["b"] = ["c", "*"] := by decide
example : childrenOf sample [] = ["a", "b"] := by decide
example : childrenOf sample ["a"] = [] := by decide
example : childrenOf sample ["zz"] = [] := by decide
example : childrenOf (trieAfter [.add ["a", "b"] 1, .add ["a", "c"] 2, .del ["a", "b"]]) ["a"] = ["c"] := by
  decide
example : PMap.childrenAt (specAfter [.add ["a", "b"] 1, .add ["a", "c"] 2, .del ["a", "b"]]) ["a"] = ["c"] := by
  decide

end C09
end Gnmi
