import Gnmi.Gen.LocksetCache

/-!
# C15, "no unsynchronised access": the lockset obligation over the regenerated access table

`Gnmi.Gen.LocksetCache.accesses` is regenerated from the repository's current source by `go/vlockset`
before every Lean build (lib/gen_lockset.py).  Each row is one kind of access to a struct field of
`cache`, `metadata` or `latency`: who runs it (`group`), the function it is in, the field, read or
write, and the mutexes that MUST be held there (lexically in the function, incl. the `defer` stack run
last-in first-out, plus what the callers along the call path hold).  This file states, over that table,
the lockset discipline (Eraser): *two accesses to one field, at least one a write, that may run
concurrently have a mutex in common that at least one of them holds exclusively* — and the kernel
decides it (`decide`; the table is a finite closed term).  When the code changes, the table changes and
the obligation is decided again; nothing here is re-stated by hand.

## Who may run concurrently (`Concurrent`)

Groups (`entryPoints` lists the functions):
* `stream`  — ONE target's update stream: `GnmiUpdate`, `Sync`, `Connect`, `ConnectError`, `Reset`
  (the session goroutine of the target manager and its callbacks);
* `refresh` — the collector's periodic goroutines: `UpdateMetadata`, `UpdateSize`;
* `reader`  — `Cache.Metadata()` and the getters of the `*Metadata` it hands out, `Query`, `HasTarget`,
  `GetTarget` (subscribe server, monitoring);
* `admin`   — `Cache.Add`, `Cache.Remove`;
* `other`   — every other exported function / method of the three packages, entered with no mutex held;
* `setup`   — constructors, the `Option` closures `New` applies, and `SetClient`.

Assumptions (stated, not proved here):
* **A0** `setup` runs before the object is shared: `New` works on the object it creates; `SetClient` is
  documented "prior to sending any updates into the cache, just after initialization".  So `setup` is
  concurrent with nothing.
* **A1** two `stream` accesses to ONE target are not concurrent: the target manager runs one session
  per target and issues the callbacks from it.  `cache_lockset_race_free` uses A1;
  `cache_lockset_race_free_all` does not need it (every pair outside `setup`, `stream`/`stream`
  included, is covered) — on the current source the stronger statement holds as well.
Every other pair of groups — `stream`/`refresh` (the clause), `refresh`/`refresh` (two periodic
goroutines), `refresh`/`reader`, `stream`/`reader`, anything with `admin` or `other` — is concurrent.

## Soundness note: what the table does and does not capture

Captured: every selector `x.f` on a struct of the three packages in code reachable from the entry
points, through static calls, interface calls (`latency.Metadata` → `*metadata.Metadata`), calls of
function values whose target is a method value / method expression of the three packages
(`window.stats`, `updateCache(fn)`), deferred closures (with the mutexes still held when they run) and
closures created but not called (with nothing held).  Map / slice element writes, `delete`, `append`
count as writes of the field holding the container; `&x.f` counts as a write.

NOT captured — the obligation is a lockset check, not a proof of race freedom of the binary:
* mutexes and fields are identified by *type* (`Target.tsmu`, `Metadata.valuesInt`), not by object: the
  check is sound only if one `Target` owns its `Metadata`, `Latency` and windows exclusively (they are
  created in `Cache.Add` and never shared) and an access under `x.mu` is to a field of the same `x`;
* accesses through pointers handed to other packages: the `*ctree.Tree` and its leaves (C10 has its own
  lock theorems), the notifications stored in it, the `*Metadata` values returned by `Cache.Metadata()`
  beyond their own methods, what the client callback (`callbacks`) does;
* package-level variables (the metadata registry maps, `Now`): "not thread-safe" by documentation;
* objects before they are shared: accesses through a local initialised from a composite literal;
* happens-before edges other than mutexes (channels, goroutine start) — none is needed here;
* lock ORDER only at type level and only inside the three packages: `lock_order` shows every acquisition
  made while another mutex of the three packages is held goes up in one fixed order (so no cycle among
  these four mutexes); callbacks invoked under `Cache.mu` are listed (`callbacks`), not followed;
* atomicity of compound actions (check-then-act across two critical sections) — C15's counters are
  single critical sections; the `ca par` / `lt race` scenarios exercise the real interleavings.
The `-race` stress step of the C15 check remains the dynamic counterpart.
-/

namespace Gnmi.GenProps.LocksetCache
open Gnmi.Gen.LocksetCache

/-! ## The discipline -/

/-- two held mutexes exclude each other: the same mutex, at least one side holds it exclusively
(two `RLock`s of an `RWMutex` do not exclude each other) -/
def excludes (x y : Held) : Bool := x.mu == y.mu && (x.excl || y.excl)

/-- executable form of `SharesLock` -/
def guarded (a b : Access) : Bool := a.locks.any fun x => b.locks.any fun y => excludes x y

/-- the two accesses hold a common mutex, at least one of them exclusively -/
def SharesLock (a b : Access) : Prop :=
  ∃ x ∈ a.locks, ∃ y ∈ b.locks, x.mu = y.mu ∧ (x.excl = true ∨ y.excl = true)

/-- groups that may run concurrently on one target, under A0 and A1 -/
def Concurrent (g h : Group) : Prop := g ≠ .setup ∧ h ≠ .setup ∧ ¬ (g = .stream ∧ h = .stream)

/-- groups that may run concurrently, under A0 only -/
def ConcurrentAll (g h : Group) : Prop := g ≠ .setup ∧ h ≠ .setup

def conc (g h : Group) : Bool := g != .setup && h != .setup && !(g == .stream && h == .stream)
def concAll (g h : Group) : Bool := g != .setup && h != .setup

def conflict (c : Group → Group → Bool) (a b : Access) : Bool :=
  a.field == b.field && (a.write || b.write) && c a.group b.group

/-- the whole obligation as one boolean over a table -/
def raceFree (c : Group → Group → Bool) (l : List Access) : Bool :=
  l.all fun a => l.all fun b => !conflict c a b || guarded a b

theorem guarded_iff (a b : Access) : guarded a b = true ↔ SharesLock a b := by
  simp only [guarded, SharesLock, excludes, List.any_eq_true, Bool.and_eq_true, Bool.or_eq_true, beq_iff_eq]

theorem conc_iff (g h : Group) : conc g h = true ↔ Concurrent g h := by
  cases g <;> cases h <;> simp [conc, Concurrent]

theorem concAll_iff (g h : Group) : concAll g h = true ↔ ConcurrentAll g h := by
  cases g <;> cases h <;> simp [concAll, ConcurrentAll]

/-- what `raceFree c l = true` means, for ANY table `l` and concurrency relation `c` -/
theorem raceFree_sound (c : Group → Group → Bool) (l : List Access) (h : raceFree c l = true) :
    ∀ a ∈ l, ∀ b ∈ l, a.field = b.field → (a.write = true ∨ b.write = true) → c a.group b.group = true →
      SharesLock a b := by
  intro a ha b hb hf hw hc
  simp only [raceFree, List.all_eq_true] at h
  have := h a ha b hb
  rw [Bool.or_eq_true] at this
  rcases this with hn | hg
  · have hcf : conflict c a b = true := by
      simp only [conflict, Bool.and_eq_true, Bool.or_eq_true, beq_iff_eq]
      exact ⟨⟨hf, hw⟩, hc⟩
    simp [hcf] at hn
  · exact (guarded_iff a b).1 hg

/-- ... and conversely: the boolean is exactly the universally quantified statement -/
theorem raceFree_complete (c : Group → Group → Bool) (l : List Access)
    (h : ∀ a ∈ l, ∀ b ∈ l, a.field = b.field → (a.write = true ∨ b.write = true) → c a.group b.group = true →
      SharesLock a b) : raceFree c l = true := by
  simp only [raceFree, List.all_eq_true]
  intro a ha b hb
  rw [Bool.or_eq_true]
  cases hcf : conflict c a b
  · left; rfl
  · right
    simp only [conflict, Bool.and_eq_true, Bool.or_eq_true, beq_iff_eq] at hcf
    exact (guarded_iff a b).2 (h a ha b hb hcf.1.1 hcf.1.2 hcf.2)

/-! ## The same check, field by field

The table comes grouped by field (`byField`), so that the kernel compares only rows of one field with
each other.  `raceFreeG` is that check; `raceFreeG_sound` shows it implies the statement over the flat
table, given that every row sits in the group of its field (`wellGrouped`, decided too). -/

/-- one pair: not a conflict (given the fields agree), or guarded -/
def pairOK (c : Group → Group → Bool) (a b : Access) : Bool :=
  !((a.write || b.write) && c a.group b.group) || guarded a b

def raceFreeG (c : Group → Group → Bool) (G : List (Field × List Access)) : Bool :=
  G.all fun g => G.all fun h => !(g.1 == h.1) || g.2.all fun a => h.2.all fun b => pairOK c a b

def wellGrouped (G : List (Field × List Access)) : Bool :=
  G.all fun g => g.2.all fun a => a.field == g.1

theorem raceFreeG_sound (c : Group → Group → Bool) (G : List (Field × List Access))
    (hw : wellGrouped G = true) (h : raceFreeG c G = true) :
    ∀ a ∈ G.flatMap (·.2), ∀ b ∈ G.flatMap (·.2), a.field = b.field → (a.write = true ∨ b.write = true) →
      c a.group b.group = true → SharesLock a b := by
  intro a ha b hb hf hwr hc
  obtain ⟨g, hg, hag⟩ := List.mem_flatMap.1 ha
  obtain ⟨k, hk, hbk⟩ := List.mem_flatMap.1 hb
  simp only [wellGrouped, List.all_eq_true, beq_iff_eq] at hw
  have hfa : a.field = g.1 := hw g hg a hag
  have hfb : b.field = k.1 := hw k hk b hbk
  simp only [raceFreeG, List.all_eq_true] at h
  have h1 := h g hg k hk
  rw [Bool.or_eq_true] at h1
  rcases h1 with hne | hall
  · have : (g.1 == k.1) = true := by rw [beq_iff_eq, ← hfa, ← hfb]; exact hf
    simp [this] at hne
  · simp only [List.all_eq_true] at hall
    have h2 := hall a hag b hbk
    simp only [pairOK, Bool.or_eq_true] at h2
    rcases h2 with hn | hgd
    · have : ((a.write || b.write) && c a.group b.group) = true := by
        simp only [Bool.and_eq_true, Bool.or_eq_true]; exact ⟨hwr, hc⟩
      simp [this] at hn
    · exact (guarded_iff a b).1 hgd

/-! ## The obligation on the current source -/

/-- every row of the regenerated table sits in the group of its field -/
theorem table_well_grouped : wellGrouped byField = true := by decide +kernel

/-- decided by the kernel on the regenerated table (A0 only: `stream`/`stream` pairs included) -/
theorem table_race_free_all : raceFreeG concAll byField = true := by decide +kernel

/-- **C15, no unsynchronised access (A0 only).**  Any two accesses of the table to one field, one of them
a write, from groups other than `setup` — the update stream against the periodic refresh, the refresh
against itself and against readers, two streams, administration, any other exported entry — hold a common
mutex, at least one of them exclusively. -/
theorem cache_lockset_race_free_all :
    ∀ a ∈ accesses, ∀ b ∈ accesses, a.field = b.field → (a.write = true ∨ b.write = true) →
      ConcurrentAll a.group b.group → SharesLock a b := by
  intro a ha b hb hf hw hc
  exact raceFreeG_sound concAll byField table_well_grouped table_race_free_all a ha b hb hf hw
    ((concAll_iff _ _).2 hc)

/-- the flat boolean form of the same fact -/
theorem table_race_free_all_flat : raceFree concAll accesses = true :=
  raceFree_complete concAll accesses fun a ha b hb hf hw hc =>
    cache_lockset_race_free_all a ha b hb hf hw ((concAll_iff _ _).1 hc)

/-- **C15, no unsynchronised access** (the form of the property: A0 and A1). -/
theorem cache_lockset_race_free :
    ∀ a ∈ accesses, ∀ b ∈ accesses, a.field = b.field → (a.write = true ∨ b.write = true) →
      Concurrent a.group b.group → SharesLock a b := by
  intro a ha b hb hf hw hc
  exact cache_lockset_race_free_all a ha b hb hf hw ⟨hc.1, hc.2.1⟩

/-- the clause as worded: update stream against the periodic refresh (`UpdateMetadata` / `UpdateSize`) -/
theorem stream_vs_refresh_race_free :
    ∀ a ∈ accesses, ∀ b ∈ accesses, a.group = .stream → b.group = .refresh → a.field = b.field →
      (a.write = true ∨ b.write = true) → SharesLock a b := by
  intro a ha b hb hga hgb hf hw
  exact cache_lockset_race_free a ha b hb hf hw (by simp [Concurrent, hga, hgb])

/-! ## The table is the one the clause is about (non-vacuity) -/

/-- the cells named by the clause: sync flag, latest timestamp, the metadata value maps (counters,
booleans, strings), the latency accumulators and the window state -/
def clauseFields : List Field :=
  [.Target_sync, .Target_ts, .Metadata_valuesInt, .Metadata_valuesBool, .Metadata_valuesStr,
   .Latency_start, .Latency_totalDiff, .Latency_count, .Latency_min, .Latency_max,
   .window_total, .window_count, .window_slots, .window_covered]

/-- every cell of the clause really is in conflict between the stream and the refresh: the table has a
stream-side and a refresh-side access to it, one of them a write (so the obligation says something about
each of them); both sides WRITE `Target.sync`, the counters map, the latency state and the window slots -/
theorem table_covers_clause :
    (∀ f ∈ clauseFields, ∃ a ∈ accesses, a.group = .stream ∧ a.field = f ∧
        ∃ b ∈ accesses, b.group = .refresh ∧ b.field = f ∧ (a.write = true ∨ b.write = true)) ∧
    (∀ f ∈ [Field.Target_sync, .Metadata_valuesInt, .Latency_start, .window_slots],
        ∃ a ∈ accesses, a.group = .stream ∧ a.field = f ∧ a.write = true ∧
        ∃ b ∈ accesses, b.group = .refresh ∧ b.field = f ∧ b.write = true) := by
  decide +kernel

/-- the extractor found every entry point it was told about and understood every construct it met -/
theorem extractor_complete : missingEntryPoints = [] ∧ warnings = [] := by decide

/-- the entry points of the clause are among the walked ones -/
theorem entry_points_present :
    ∀ e ∈ [(Group.stream, "Target.GnmiUpdate"), (.stream, "Cache.GnmiUpdate"), (.stream, "Target.Sync"),
           (.stream, "Target.Connect"), (.stream, "Cache.ConnectError"), (.stream, "Target.Reset"),
           (.refresh, "Cache.UpdateMetadata"), (.refresh, "Cache.UpdateSize"),
           (.reader, "Cache.Metadata"), (.reader, "Metadata.GetInt"), (.admin, "Cache.Add"),
           (.admin, "Cache.Remove"), (.setup, "Cache.SetClient")],
      e ∈ entryPoints := by decide +kernel

/-! ## The obligation FAILS on the two historical breaks

Both shapes are obtained from the current table by removing one mutex from the rows of the functions the
break concerned — what the extractor produces on the broken sources (checked dynamically: with the D14
fix reverted and with seeded change c15_seed2 applied, `table_race_free_all` no longer elaborates and
the check reports the pairs below). -/

/-- remove mutex `m` from the rows selected by `p` -/
def dropLock (m : Mutex) (p : Access → Bool) (l : List Access) : List Access :=
  l.map fun a => if p a then { a with locks := a.locks.filter fun h => h.mu != m } else a

/-- a table with a concurrent conflicting pair that shares no mutex fails the check -/
theorem raceFree_false_of_pair (c : Group → Group → Bool) (l : List Access) (a b : Access)
    (ha : a ∈ l) (hb : b ∈ l) (hf : a.field = b.field) (hw : a.write = true ∨ b.write = true)
    (hc : c a.group b.group = true) (hn : ¬ SharesLock a b) : raceFree c l = false := by
  cases h : raceFree c l
  · rfl
  · exact absurd (raceFree_sound c l h a ha b hb hf hw hc) hn

/-- D14 (fixed in 6cd4c5a): `Target.sync` written without `tsmu` -/
def d14Shape : List Access := dropLock .Target_tsmu (fun a => a.fn == "Target.setSync") accesses

/-- the racing pair: the stream's write of `sync` (now under no mutex) against the refresh's read of it
in `synced` (under `tsmu`): no common mutex -/
theorem d14_shape_race :
    ∃ a ∈ d14Shape, ∃ b ∈ d14Shape, a.group = .stream ∧ b.group = .refresh ∧ a.field = .Target_sync ∧
      b.field = .Target_sync ∧ a.write = true ∧ Concurrent a.group b.group ∧ ¬ SharesLock a b := by
  refine ⟨⟨.stream, "Target.setSync", .Target_sync, true, []⟩, ?_,
    ⟨.refresh, "Target.synced", .Target_sync, false, [⟨.Cache_mu, false⟩, ⟨.Target_tsmu, true⟩]⟩, ?_,
    rfl, rfl, rfl, rfl, rfl, by simp [Concurrent], by simp [SharesLock]⟩
  · exact List.mem_map.2 ⟨⟨.stream, "Target.setSync", .Target_sync, true, [⟨.Target_tsmu, true⟩]⟩,
      by decide +kernel, by decide⟩
  · exact List.mem_map.2 ⟨⟨.refresh, "Target.synced", .Target_sync, false, [⟨.Cache_mu, false⟩, ⟨.Target_tsmu, true⟩]⟩,
      by decide +kernel, by decide⟩

theorem d14_shape_rejected : raceFree conc d14Shape = false := by
  obtain ⟨a, ha, b, hb, _, _, hfa, hfb, hw, hc, hn⟩ := d14_shape_race
  exact raceFree_false_of_pair conc d14Shape a b ha hb (hfa.trans hfb.symm) (Or.inl hw) ((conc_iff _ _).2 hc) hn

/-- seeded change c15_seed2: `Latency.update` takes `mu` AFTER deferring the export closure, so the
deferred `Unlock` runs first and the closure (and the window code it calls) runs with `Latency.mu` released -/
def seed2Shape : List Access :=
  dropLock .Latency_mu
    (fun a => ["Latency.update.func1", "window.updateMeta", "window.isCovered", "window.slide",
               "window.setAvg", "window.setMax", "window.setMin"].contains a.fn) accesses

/-- the racing pair: the refresh's write of `Latency.start` in the deferred closure (no `Latency.mu`)
against the stream's read of it in `Compute` -/
theorem seed2_shape_race :
    ∃ a ∈ seed2Shape, ∃ b ∈ seed2Shape, a.group = .refresh ∧ b.group = .stream ∧ a.field = .Latency_start ∧
      b.field = .Latency_start ∧ a.write = true ∧ Concurrent a.group b.group ∧ ¬ SharesLock a b := by
  refine ⟨⟨.refresh, "Latency.update.func1", .Latency_start, true, [⟨.Cache_mu, false⟩]⟩, ?_,
    ⟨.stream, "Latency.Compute", .Latency_start, false, [⟨.Latency_mu, true⟩]⟩, ?_,
    rfl, rfl, rfl, rfl, rfl, by simp [Concurrent], by simp [SharesLock]⟩
  · exact List.mem_map.2 ⟨⟨.refresh, "Latency.update.func1", .Latency_start, true, [⟨.Cache_mu, false⟩, ⟨.Latency_mu, true⟩]⟩,
      by decide +kernel, by decide⟩
  · exact List.mem_map.2 ⟨⟨.stream, "Latency.Compute", .Latency_start, false, [⟨.Latency_mu, true⟩]⟩,
      by decide +kernel, by decide⟩

theorem seed2_shape_rejected : raceFree conc seed2Shape = false := by
  obtain ⟨a, ha, b, hb, _, _, hfa, hfb, hw, hc, hn⟩ := seed2_shape_race
  exact raceFree_false_of_pair conc seed2Shape a b ha hb (hfa.trans hfb.symm) (Or.inl hw) ((conc_iff _ _).2 hc) hn

/-- a shared (`RLock`) hold on both sides protects nothing: were the refresh to write the target map
under the read lock it walks it with, the obligation would fail (against a reader's `GetTarget`) -/
theorem rlock_does_not_exclude :
    raceFree concAll (⟨.refresh, "Cache.updateCache", .Cache_targets, true, [⟨.Cache_mu, false⟩]⟩ :: accesses) = false := by
  refine raceFree_false_of_pair concAll _ ⟨.refresh, "Cache.updateCache", .Cache_targets, true, [⟨.Cache_mu, false⟩]⟩
    ⟨.reader, "Cache.GetTarget", .Cache_targets, false, [⟨.Cache_mu, false⟩]⟩
    (List.mem_cons_self ..) (List.mem_cons_of_mem _ (by decide +kernel)) rfl (Or.inl rfl) (by decide) (by simp [SharesLock])

/-! ## Lock order and callbacks (type level, inside the three packages) -/

/-- the order in which the four mutexes are taken -/
def rank : Mutex → Nat
  | .Cache_mu => 0
  | .Target_tsmu => 1
  | .Latency_mu => 1
  | .Metadata_mu => 2

/-- every acquisition made while another mutex of the three packages is held goes strictly up in `rank`:
`Cache.mu` first, then `Target.tsmu` or `Latency.mu`, `Metadata.mu` last; in particular no mutex is taken
while (a mutex of) the same kind is held, and there is no cycle among the four -/
theorem lock_order : ∀ e ∈ acquires, rank e.frm.mu < rank e.to.mu := by decide +kernel

/-- the cache-client callback (and every other function value set from outside) is never invoked while a
per-target mutex is held: under `Target.tsmu` / `Metadata.mu` / `Latency.mu` the only function values
called are the clock stubs and latency's `ComputeFunc` -/
theorem client_callbacks_outside_target_locks :
    ∀ c ∈ callbacks, (c.callee = "cache.Now" ∨ c.callee = "latency.Now" ∨ c.callee = "Latency.compute") ∨
      ∀ h ∈ c.locks, h.mu = .Cache_mu := by decide +kernel

end Gnmi.GenProps.LocksetCache
