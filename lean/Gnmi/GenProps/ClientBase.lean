import Gnmi.Gen.ClientBaseSubscribe
import Gnmi.Gen.ClientBaseClose
import Gnmi.Gen.ClientBaseImpl
import Gnmi.Gen.ClientBasePoll
import Gnmi.Gen.ClientBaseRunLoop
import Gnmi.Model.ClientLTS
/-!
# Obligations: `BaseClient.Subscribe` (installation), `Close`, `Impl`, `Poll`, one iteration of `run`
# as the source has them now = the S steps `install`, `handled`, `check`, `runErr` and the K step
# `Cfg.doBcClose` of the client LTS  (C18)

Regenerated from `client/client.go` on every check run.

Atoms ↦ model terms: `c.clientImpl == nil` ↦ `c.bcImpl.isNone`; `c.closed` ↦ `c.bcClosed`; the error
class of `impl.Recv()` (`err == nil`, `err == io.EOF`, `err == ErrStopReading`) ↦ `Ret` (`ok`, `stop`,
`err`).  The interpreters refuse (`none`) a write to `c.closed` / `c.clientImpl` outside `c.mu`, and a
call of `run` with the lock held.

Equalities, for all configurations.
-/
set_option linter.unusedSimpArgs false
set_option linter.unusedVariables false
namespace Gnmi.GenProps.ClientBase
open Gnmi.Gen Gnmi.ClientLTS
variable {N : Type}

/-- configuration and whether `c.mu` is held -/
def applyEff (e : Eff) (s : Cfg N × Bool) : Option (Cfg N × Bool) :=
  if e.label = "c.mu.Lock()" then (if s.2 then none else some (s.1, true))
  else if e.label = "c.mu.Unlock()" then (if s.2 then some (s.1, false) else none)
  else if e.label = "defer c.mu.Unlock()" then some s
  else if e.label = "c.query = q" then (if s.2 then some s else none)
  else if e.label = "c.clientImpl.Close()" then (if s.2 ∧ s.1.bcImpl.isSome then some s else none)
  else if e.label = "c.clientImpl = impl" then (if s.2 then some ({ s.1 with bcImpl := some s.1.att }, s.2) else none)
  else if e.label = "c.closed = false" then (if s.2 then some ({ s.1 with bcClosed := false }, s.2) else none)
  else if e.label = "c.run(impl)" then (if s.2 then none else some ({ s.1 with spc := .recv }, s.2))
  else none

def run : List Eff → Cfg N × Bool → Option (Cfg N × Bool)
  | [], s => some s
  | e :: es, s => (applyEff e s).bind (run es)

/-- `getFirst` is the `connect` step (its effect is the first of the region); what follows on
success is the section `install` -/
def execInstall (c : Cfg N) (o : Gen.Outcome) : Option (Cfg N) :=
  match o.effects with
  | ⟨"impl, err := getFirst(ctx, clientType, q, fn)", _⟩ :: es =>
      (run es (c, false)).bind (fun s =>
        if o.ret = .label "c.run(impl)" ∧ s.2 = false then some s.1 else none)
  | _ => none

/-- **install**: after a successful `getFirst`: `c.mu` taken, the previous implementation closed when
there is one, the new one installed, `closed = false`, lock released, then `run` -/
theorem tie_install (c : Cfg N) :
    execInstall c (gen_baseSubscribe (c_clientImpl_eq_nil := c.bcImpl.isNone) (err_eq_nil := true))
      = some c.doInstall := by
  unfold gen_baseSubscribe Cfg.doInstall
  cases h : c.bcImpl <;> simp [execInstall, run, applyEff, h]

/-- a failed `getFirst` returns its error and installs nothing -/
theorem tie_connFail (b : Bool) :
    gen_baseSubscribe (c_clientImpl_eq_nil := b) (err_eq_nil := false)
      = Gen.eff "impl, err := getFirst(ctx, clientType, q, fn)" [] (Gen.ret (.label "err")) := by
  unfold gen_baseSubscribe; cases b <;> rfl

/-! ## one iteration of `run` -/

/-- what `impl.Recv()` returned, as the atoms of the region -/
def isNil : Ret → Bool | .ok => true | _ => false

/-- the S step(s) an iteration performs after `Recv` returned `r`: the effects after the receive and
the way the iteration ends, read as the LTS steps `handled`; `check`; `runErr` -/
def execIter (c : Cfg N) (r : Ret) (o : Gen.Outcome) : Option (Cfg N) :=
  match r, o.effects.map (·.label), o.ret with
  | .stop, ["err := impl.Recv()"], .nil => some (c.doHandled .stop)
  | .err, ["err := impl.Recv()", "impl.Close()"], .label "err" => some (c.doHandled .err).doRunErr
  | .ok, ["err := impl.Recv()", "c.mu.RLock()", "c.mu.RUnlock()"], .nil =>
      if c.bcClosed then some (c.doHandled .ok).doCheck else none
  | .ok, ["err := impl.Recv()", "c.mu.RLock()", "c.mu.RUnlock()"], .fall =>
      if c.bcClosed then none else some (c.doHandled .ok).doCheck
  | _, _, _ => none

/-- **run**: a stop marker (either one) ends `run` with nil and leaves the implementation open; any
other error closes it and is returned; after a message the `closed` flag, read under the read lock,
decides between returning nil and receiving again.  `eof`: which of the two stop markers. -/
theorem tie_iteration (c : Cfg N) (r : Ret) (eof : Bool) :
    execIter c r (gen_baseRunIteration (c_closed := c.bcClosed)
      (err_eq_ErrStopReading := (r == .stop && !eof)) (err_eq_io_EOF := (r == .stop && eof))
      (err_eq_nil := isNil r))
    = some (match r with
        | .ok => (c.doHandled .ok).doCheck
        | .stop => c.doHandled .stop
        | .err => (c.doHandled .err).doRunErr) := by
  unfold gen_baseRunIteration
  cases r <;> cases eof <;> cases h : c.bcClosed <;> simp [execIter, isNil, h]

/-! ## `Close`, `Impl`, `Poll` -/

/-- `BaseClient.Close` run on the configuration: the K step `doBcClose` -/
def execClose (c : Cfg N) (k : Bool → KPc) (o : Gen.Outcome) : Option (Cfg N) :=
  match o.effects.map (·.label), o.ret with
  | ["c.mu.Lock()", "defer c.mu.Unlock()"], .label "ErrClientInit" =>
      if c.bcImpl.isNone then some { c with kpc := k true } else none
  | ["c.mu.Lock()", "defer c.mu.Unlock()", "c.closed = true", "c.clientImpl.Close()"], .label "c.clientImpl.Close()" =>
      if c.bcImpl.isSome then
        some { c with bcClosed := true, curClosed := c.curClosed || c.hitsCurrent,
                      postClose := if c.hitsCurrent then some (c.postClose.getD 0) else c.postClose,
                      kpc := k false }
      else none
  | _, _ => none

/-- **Close** = `Cfg.doBcClose`: `ErrClientInit` without an implementation; otherwise `closed = true`
*before* the implementation is closed, both under `c.mu` -/
theorem tie_close (c : Cfg N) (k : Bool → KPc) :
    execClose c k (gen_baseClose (c_clientImpl_eq_nil := c.bcImpl.isNone)) = some (c.doBcClose k) := by
  unfold gen_baseClose Cfg.doBcClose
  cases h : c.bcImpl <;> simp [execClose, h]
  cases hp : c.postClose <;> simp [hp]

/-- **Impl**: under `c.mu`, `ErrClientInit` exactly without an implementation -/
theorem tie_impl (b : Bool) :
    gen_baseImpl (c_clientImpl_eq_nil := b) =
      Gen.eff "c.mu.Lock()" [] (Gen.eff "defer c.mu.Unlock()" []
        (if b then Gen.ret (.label "nil, ErrClientInit") else Gen.ret (.label "c.clientImpl, nil"))) := by
  unfold gen_baseImpl; cases b <;> rfl

/-- **Poll**: `run` is entered only after `Impl` succeeded, the query is a Poll query and the
implementation's `Poll` succeeded -/
theorem poll_shape (a b c : Bool) :
    "c.run(impl)" ∈ (gen_basePoll (c_query_Type_eq_Poll := a) (err_eq_nil := b) (err_v2_eq_nil := c)).labels
      ↔ (a = true ∧ b = true ∧ c = true) := by
  unfold gen_basePoll; cases a <;> cases b <;> cases c <;> simp [Gen.Outcome.labels]

end Gnmi.GenProps.ClientBase
