import Gnmi.Gen.MatchAddQuery
import Gnmi.Gen.MatchRemoveClosure
import Gnmi.Gen.MatchBranchAddQuery
import Gnmi.Gen.MatchBranchRemoveQuery
import Gnmi.Gen.MatchBranchRemoveQueryDeferred
import Gnmi.Gen.MatchUpdate
import Gnmi.Gen.MatchUpdateOnce
import Gnmi.Gen.MatchBranchUpdate
import Gnmi.Gen.MatchBranchUpdateClient
import Gnmi.Model.Match
/-!
# Obligations: `match.go` — `AddQuery` and the remove closure, `addQuery`, `removeQuery` (+ deferred
# `empty`), `Update`, `UpdateOnce`, `update` (body and client loop) as the source has them now = one
# unfolding of `Match.addQuery`, `Match.removeQuery`, `Match.updateClients`, `Match.update`  (C06)

Regenerated from `match/match.go` on every check run.

The ties are stated at the node the call is made on: first with the child looked up *at the head* of
the child list (`tie_add_new`, `tie_add_found`, `tie_remove_step`), then for **every child list**
(`tie_add_step`, `tie_remove_general`: `addQueryL_eq` / `removeQueryL_eq` say that the model's walk to
the entry of the key is the map operation `m[k] = …` / `delete(m, k)` the code performs).
Atoms ↦ model terms: `len(query)` ↦ `q.length`; `ok(b.children[query[0]])` ↦ the child is present;
`b.children[query[0]].removeQuery(query[1:], client)` (the `empty` result of the recursion) ↦
`isEmptyB (removeQuery b q c)`; `updated == nil` ↦ `u = none`; `ok(updated[client])` ↦ `c ∈ s`.
-/
set_option linter.unusedSimpArgs false
set_option linter.unusedVariables false
set_option linter.unusedSectionVars false
namespace Gnmi.GenProps.MatchTrie
open Gnmi.Gen Gnmi Gnmi.Match
variable {C : Type} [DecidableEq C]

/-! ## locks -/

/-- `AddQuery`, the remove closure: the trie is written under the write lock (`Lock` before the call,
the deferred `Unlock` after); `Update` / `UpdateOnce` traverse under the read lock; `Update` hands
the nil map down, `UpdateOnce` the caller's -/
theorem tie_locks :
    gen_matchAddQuery.labels = ["defer m.mu.Unlock()", "m.mu.Lock()", "m.tree.addQuery(query, client)"] ∧
    gen_matchRemoveClosure.labels = ["defer m.mu.Unlock()", "m.mu.Lock()", "m.tree.removeQuery(query, client)"] ∧
    gen_matchUpdate.labels = ["defer m.mu.RUnlock()", "m.mu.RLock()", "m.tree.update(n, p, nil)"] ∧
    gen_matchUpdateOnce.labels = ["defer m.mu.RUnlock()", "m.mu.RLock()", "m.tree.update(n, p, updated)"] := by
  refine ⟨rfl, rfl, rfl, rfl⟩

/-! ## `addQuery` -/

/-- the node after the effects of one call (`rec`: what the recursive call makes of the child) -/
def applyAdd (c : C) (k : String) (rec : Branch C → Branch C) (e : Eff) (s : List C × List (String × Branch C)) :
    Option (List C × List (String × Branch C)) :=
  if e.label = "b.clients = map[Client]struct { }{}" then (if s.1 = [] then some s else none)
  else if e.label = "map[Client]struct { }{}[client] = struct { }{}" ∨ e.label = "b.clients[client] = struct { }{}" then
    some (insertClient c s.1, s.2)
  else if e.label = "b.children = map[string]*branch{}" then (if s.2 = [] then some s else none)
  else if e.label = "map[string]*branch{}[query[0]] = (&branch{})" ∨ e.label = "b.children[query[0]] = (&branch{})" then
    some (s.1, (k, Branch.empty) :: s.2)
  else if e.label = "(&branch{}).addQuery(query[1:], client)" ∨ e.label = "b.children[query[0]].addQuery(query[1:], client)"
      ∨ e.label = "map[string]*branch{}[query[0]].addQuery(query[1:], client)" then
    (match s.2 with | (k', b) :: r => if k' = k then some (s.1, (k', rec b) :: r) else none | [] => none)
  else none

def runAdd (c : C) (k : String) (rec : Branch C → Branch C) : List Eff → List C × List (String × Branch C) →
    Option (List C × List (String × Branch C))
  | [], s => some s
  | e :: es, s => (applyAdd c k rec e s).bind (runAdd c k rec es)

theorem chain_eq (q : Path) (c : C) : addQuery (Branch.empty : Branch C) q c = chain q c := by
  cases q <;> simp [Branch.empty, addQuery, addQueryL, chain, insertClient]

/-- **addQuery, end of the query**: the client is inserted into the (possibly nil) client set -/
theorem tie_add_leaf (cl : List C) (ch : List (String × Branch C)) (c : C) (x y z : Bool) :
    (runAdd c "" id (gen_branchAddQuery (b_children_eq_nil := x) (b_clients_eq_nil := decide (cl = []))
        (len_query := (([] : Path).length : Int)) (ok_b_children_query_0 := y)
        (ok_map_string_branch_query_0 := z)).effects (cl, ch)).map (fun s => Branch.mk s.1 s.2)
      = some (addQuery (.mk cl ch) [] c) := by
  unfold gen_branchAddQuery
  cases cl <;> simp [runAdd, applyAdd, addQuery]

/-- **addQuery, child absent** (no children at all; a fresh map holds no key): the child is created
and the rest of the query added below it = `addQueryL [] k q c` -/
theorem tie_add_new (cl : List C) (k : String) (q : Path) (c : C) (x : Bool) (nilMap : Bool) :
    (runAdd c k (fun b => addQuery b q c) (gen_branchAddQuery (b_children_eq_nil := nilMap) (b_clients_eq_nil := x)
        (len_query := ((k :: q).length : Int)) (ok_b_children_query_0 := false)
        (ok_map_string_branch_query_0 := false)).effects (cl, [])).map (fun s => Branch.mk s.1 s.2)
      = some (addQuery (.mk cl []) (k :: q) c) := by
  unfold gen_branchAddQuery
  have h : ¬ ((q.length : Int) + 1 = 0) := by omega
  cases nilMap <;> simp [runAdd, applyAdd, addQuery, addQueryL, chain_eq, h]

/-- **addQuery, child present**: only the recursion = the `k' = k` arm of `addQueryL` -/
theorem tie_add_found (cl : List C) (k : String) (b : Branch C) (r : List (String × Branch C)) (q : Path) (c : C)
    (x z : Bool) :
    (runAdd c k (fun b => addQuery b q c) (gen_branchAddQuery (b_children_eq_nil := false) (b_clients_eq_nil := x)
        (len_query := ((k :: q).length : Int)) (ok_b_children_query_0 := true)
        (ok_map_string_branch_query_0 := z)).effects (cl, (k, b) :: r)).map (fun s => Branch.mk s.1 s.2)
      = some (addQuery (.mk cl ((k, b) :: r)) (k :: q) c) := by
  unfold gen_branchAddQuery
  have h : ¬ ((q.length : Int) + 1 = 0) := by omega
  simp [runAdd, applyAdd, addQuery, addQueryL, h]

/-! ## `removeQuery` -/

/-- what the code deletes, by the decision it takes (`sub`: the child after the recursive call, which
the model keeps when it is not empty; the recursion itself is the atom's side) -/
theorem tie_remove_leaf (cl : List C) (ch : List (String × Branch C)) (c : C) (x y : Bool) :
    (gen_branchRemoveQuery (b_children_query_0_removeQuery_query_1_client := x)
        (b_clients_eq_nil := decide (cl = [])) (len_query := (([] : Path).length : Int))
        (ok_b_children_query_0 := y)).labels =
      "defer ƒ()" :: (if cl = [] then [] else ["delete(b.clients, client)"]) ∧
    (cl = [] → removeQuery (.mk cl ch) [] c = .mk cl ch) ∧
    removeQuery (.mk cl ch) [] c = .mk (deleteClient c cl) ch := by
  unfold gen_branchRemoveQuery
  refine ⟨?_, ?_, ?_⟩
  · cases cl <;> simp [Gen.Outcome.labels]
  · intro h; subst h; simp [removeQuery, deleteClient]
  · simp [removeQuery]

/-- **removeQuery, below**: the child entry is deleted exactly when the recursion reports the child
empty = the `k' = k` arm of `removeQueryL`; an absent child deletes nothing -/
theorem tie_remove_step (cl : List C) (k : String) (b : Branch C) (r : List (String × Branch C)) (q : Path) (c : C)
    (x : Bool) :
    ("delete(b.children, query[0])" ∈ (gen_branchRemoveQuery
        (b_children_query_0_removeQuery_query_1_client := isEmptyB (removeQuery b q c))
        (b_clients_eq_nil := x) (len_query := ((k :: q).length : Int)) (ok_b_children_query_0 := true)).labels
      ↔ removeQuery (.mk cl ((k, b) :: r)) (k :: q) c = .mk cl r) ∨
    -- (when the child is not empty the model keeps it, so the right side is false and so is the left)
    (isEmptyB (removeQuery b q c) = false ∧
      removeQuery (.mk cl ((k, b) :: r)) (k :: q) c = .mk cl ((k, removeQuery b q c) :: r) ∧
      "delete(b.children, query[0])" ∉ (gen_branchRemoveQuery
        (b_children_query_0_removeQuery_query_1_client := false)
        (b_clients_eq_nil := x) (len_query := ((k :: q).length : Int)) (ok_b_children_query_0 := true)).labels) := by
  unfold gen_branchRemoveQuery
  have h : ¬ ((q.length : Int) + 1 = 0) := by omega
  cases he : isEmptyB (removeQuery b q c)
  · right; simp [removeQuery, removeQueryL, he, h, Gen.Outcome.labels]
  · left; simp [removeQuery, removeQueryL, he, h, Gen.Outcome.labels]

theorem tie_remove_absent (x y : Bool) (k : String) (q : Path) :
    (gen_branchRemoveQuery (b_children_query_0_removeQuery_query_1_client := x) (b_clients_eq_nil := y)
      (len_query := ((k :: q).length : Int)) (ok_b_children_query_0 := false)).labels = ["defer ƒ()"] := by
  unfold gen_branchRemoveQuery
  have h : ¬ ((q.length : Int) + 1 = 0) := by omega
  simp [h, Gen.Outcome.labels]

/-! ## general position: the child anywhere in the child list

`addQueryL` / `removeQueryL` walk the association list to the entry of the key; the Go code indexes
the map.  `hasKey` / `mapAt` / `eraseKey` are the map operations on the association list; the two
lemmas say the model's walk *is* the map operation, and the ties below are stated for every child
list. -/

def hasKey (k : String) : List (String × Branch C) → Bool
  | [] => false
  | (k', _) :: r => if k' = k then true else hasKey k r

/-- `m[k] = f(m[k])` on the first entry of the key -/
def mapAt (k : String) (f : Branch C → Branch C) : List (String × Branch C) → List (String × Branch C)
  | [] => []
  | (k', b) :: r => if k' = k then (k', f b) :: r else (k', b) :: mapAt k f r

/-- `delete(m, k)` -/
def eraseKey (k : String) : List (String × Branch C) → List (String × Branch C)
  | [] => []
  | (k', b) :: r => if k' = k then r else (k', b) :: eraseKey k r

/-- `m[k]` (the empty branch stands for the nil pointer of an absent key; only read when present) -/
def getAt (k : String) : List (String × Branch C) → Branch C
  | [] => Branch.empty
  | (k', b) :: r => if k' = k then b else getAt k r

theorem addQueryL_eq (ch : List (String × Branch C)) (k : String) (q : Path) (c : C) :
    addQueryL ch k q c =
      if hasKey k ch then mapAt k (fun b => addQuery b q c) ch
      else mapAt k (fun b => addQuery b q c) (ch ++ [(k, Branch.empty)]) := by
  induction ch with
  | nil => simp [addQueryL, hasKey, mapAt, chain_eq]
  | cons hd tl ih =>
    obtain ⟨k', b⟩ := hd
    by_cases h : k' = k
    · simp [addQueryL, hasKey, mapAt, h]
    · simp [addQueryL, hasKey, mapAt, h, ih]
      cases hasKey k tl <;> simp

theorem removeQueryL_eq (ch : List (String × Branch C)) (k : String) (q : Path) (c : C) :
    removeQueryL ch k q c =
      if hasKey k ch then
        (if isEmptyB (removeQuery (getAt k ch) q c) then eraseKey k ch
         else mapAt k (fun b => removeQuery b q c) ch)
      else ch := by
  induction ch with
  | nil => simp [removeQueryL, hasKey]
  | cons hd tl ih =>
    obtain ⟨k', b⟩ := hd
    by_cases h : k' = k
    · simp [removeQueryL, hasKey, mapAt, eraseKey, getAt, h]
    · simp [removeQueryL, hasKey, mapAt, eraseKey, getAt, h, ih]
      cases hasKey k tl <;> simp
      cases isEmptyB (removeQuery (getAt k tl) q c) <;> simp

/-- the map reading of the effects of `addQuery` below the end of the query -/
def applyAddG (k : String) (rec : Branch C → Branch C) (e : Eff) (ch : List (String × Branch C)) :
    Option (List (String × Branch C)) :=
  if e.label = "b.children = map[string]*branch{}" then (if ch = [] then some ch else none)
  else if e.label = "map[string]*branch{}[query[0]] = (&branch{})" ∨ e.label = "b.children[query[0]] = (&branch{})" then
    (if hasKey k ch then none else some (ch ++ [(k, Branch.empty)]))
  else if e.label = "(&branch{}).addQuery(query[1:], client)" ∨ e.label = "b.children[query[0]].addQuery(query[1:], client)"
      ∨ e.label = "map[string]*branch{}[query[0]].addQuery(query[1:], client)" then
    (if hasKey k ch then some (mapAt k rec ch) else none)
  else none

def runAddG (k : String) (rec : Branch C → Branch C) : List Eff → List (String × Branch C) →
    Option (List (String × Branch C))
  | [], s => some s
  | e :: es, s => (applyAddG k rec e s).bind (runAddG k rec es)

theorem hasKey_append_self (k : String) (ch : List (String × Branch C)) (b : Branch C) :
    hasKey k (ch ++ [(k, b)]) = true := by
  induction ch with
  | nil => simp [hasKey]
  | cons hd tl ih => obtain ⟨k', b'⟩ := hd; by_cases h : k' = k <;> simp [hasKey, h, ih]

/-- **addQuery, below the end of the query, every child list**: the children after the effects =
`addQueryL ch k q c` (a nil map is the empty list; the entry is created iff the key is absent, then
the rest of the query is added below it) -/
theorem tie_add_step (cl : List C) (ch : List (String × Branch C)) (k : String) (q : Path) (c : C) (x : Bool) :
    (runAddG k (fun b => addQuery b q c) (gen_branchAddQuery (b_children_eq_nil := decide (ch = []))
        (b_clients_eq_nil := x) (len_query := ((k :: q).length : Int)) (ok_b_children_query_0 := hasKey k ch)
        (ok_map_string_branch_query_0 := false)).effects ch).map (Branch.mk cl)
      = some (addQuery (.mk cl ch) (k :: q) c) := by
  unfold gen_branchAddQuery
  have h : ¬ ((q.length : Int) + 1 = 0) := by omega
  cases ch with
  | nil => simp [runAddG, applyAddG, addQuery, addQueryL_eq, hasKey, h]
  | cons hd tl =>
    cases hk : hasKey k (hd :: tl) <;>
      simp [runAddG, applyAddG, addQuery, addQueryL_eq, hk, h, hasKey_append_self]
    exact hasKey_append_self k (hd :: tl) _

/-- **removeQuery, below the end of the query, every child list**: with `sub` the child after the
recursive call (the call is the atom: its effect on the child is the recursion's), the entry is
deleted iff the recursion reports it empty, an absent key changes nothing = `removeQueryL ch k q c` -/
def execRemove (k : String) (rec : Branch C → Branch C) (o : Gen.Outcome) (ch : List (String × Branch C)) :
    Option (List (String × Branch C)) :=
  match o.effects.map (·.label) with
  | ["defer ƒ()"] => some (if hasKey k ch then mapAt k rec ch else ch)
  | ["defer ƒ()", "delete(b.children, query[0])"] => if hasKey k ch then some (eraseKey k (mapAt k rec ch)) else none
  | _ => none

theorem eraseKey_mapAt (k : String) (f : Branch C → Branch C) (ch : List (String × Branch C)) :
    eraseKey k (mapAt k f ch) = eraseKey k ch := by
  induction ch with
  | nil => rfl
  | cons hd tl ih => obtain ⟨k', b'⟩ := hd; by_cases h : k' = k <;> simp [eraseKey, mapAt, h, ih]

theorem tie_remove_general (cl : List C) (ch : List (String × Branch C)) (k : String) (q : Path) (c : C) (x : Bool) :
    (execRemove k (fun b => removeQuery b q c) (gen_branchRemoveQuery
        (b_children_query_0_removeQuery_query_1_client := isEmptyB (removeQuery (getAt k ch) q c))
        (b_clients_eq_nil := x) (len_query := ((k :: q).length : Int)) (ok_b_children_query_0 := hasKey k ch)) ch).map
        (Branch.mk cl)
      = some (removeQuery (.mk cl ch) (k :: q) c) := by
  unfold gen_branchRemoveQuery
  have h : ¬ ((q.length : Int) + 1 = 0) := by omega
  cases hk : hasKey k ch <;> cases he : isEmptyB (removeQuery (getAt k ch) q c) <;>
    simp [execRemove, removeQuery, removeQueryL_eq, hk, he, h, eraseKey_mapAt]

/-- the deferred closure computes `empty` from the node as it is at the return (`isEmptyB`) -/
theorem tie_remove_deferred :
    gen_branchRemoveQueryDeferred.labels = ["empty = (len(b.clients) == 0 && len(b.children) == 0)"] := rfl

/-! ## `update` -/

/-- **client loop** = one step of `Match.updateClients`: with the nil map the client is invoked; with
an allocated one it is invoked iff not in it, and then added -/
theorem tie_update_client (c : C) (cl : List C) (u : Option (List C)) :
    let o := gen_branchUpdateClient (ok_updated_client := (match u with | some s => decide (c ∈ s) | none => false))
      (updated_eq_nil := u.isNone)
    (("client.Update(n)" ∈ o.labels) ↔ (updateClients (c :: cl) u).1 = c :: (updateClients cl (match u with
        | none => none | some s => if c ∈ s then some s else some (c :: s))).1) ∧
    (("updated[client] = struct { }{}" ∈ o.labels) ↔ (∃ s, u = some s ∧ c ∉ s)) := by
  unfold gen_branchUpdateClient
  cases u with
  | none => simp [updateClients, Gen.Outcome.labels]
  | some s =>
    by_cases h : c ∈ s
    · simp [updateClients, Gen.Outcome.labels, h]
    · simp [updateClients, Gen.Outcome.labels, h]

/-- **branch.update**: the clients of the node first; no children ends it; the empty path and the glob
visit every child; otherwise the glob child then the named child, each iff present
(`Match.update`'s arms) -/
theorem tie_branch_update (nch np : Int) (g k glob : Bool) :
    (gen_branchUpdate (len_b_children := nch) (len_path := np) (ok_b_children_Glob := g)
      (ok_b_children_path_0 := k) (path_0_eq_Glob := glob)).labels =
      "for client := range b.clients { }" ::
      (if nch = 0 then []
       else if np = 0 ∨ glob = true then ["for _, c := range b.children { }"]
       else (if g then ["b.children[Glob].update(n, path[1:], updated)"] else []) ++
            (if k then ["b.children[path[0]].update(n, path[1:], updated)"] else [])) := by
  unfold gen_branchUpdate
  by_cases h1 : nch = 0 <;> by_cases h2 : np = 0 <;> cases g <;> cases k <;> cases glob <;>
    simp [Gen.Outcome.labels, h1, h2]

end Gnmi.GenProps.MatchTrie
