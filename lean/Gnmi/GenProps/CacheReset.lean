import Gnmi.Gen.CacheTargetReset
import Gnmi.Gen.CacheTargetResetRoot
import Gnmi.Gen.CacheReset
import Gnmi.Gen.CacheRemove
import Gnmi.Gen.CacheConnectError
import Gnmi.Model.Cache
/-!
# Obligations: `(*Target).Reset`, `(*Cache).Reset`, `(*Cache).Remove`, `(*Cache).ConnectError` as
the source has them now = `Cache.Target.reset`, `Cache.State.reset`, `Cache.State.remove`,
`Cache.State.connectError`  (C14, C03, C15)

Regenerated from `cache/cache.go` on every check run:

* `gen_targetReset`: the four statements of `Reset` in their order — `t.resetTimestamp()`,
  `t.meta.Clear()`, `t.updateMeta(t.client)`, the loop over `t.t.Children()` (one effect labelled
  by its header);
* `gen_targetResetRoot`: the body of that loop — skip `metadata.Root`, else the *unconditional*
  `t.t.Delete([]string{root})` and then the announcement `t.client(… deleteNoti(t.name, root, "*"))`;
* `gen_cacheReset`: read lock taken, unlock deferred, `t.Reset()` on a known target only, called
  while the lock is held;
* `gen_cacheRemove`: write lock, `delete(c.targets, target)`, the whole-target delete announced
  (known target or not);
* `gen_cacheConnectError`: `c.GetTarget(name)`, `target.connectError(err)` on a known target only.

The interpreters below run the effects on the model's target / cache state and its feed (`List
Event`); the loop effect is read as the fold of the *generated* body over `rootChildren` of the
tree at that point.  A lock effect flips `locked`; the calls that the model treats as one atomic
cache operation are refused unless the lock is held (`c14_seed7`: `Reset` outside the lock).

Atoms: `root == metadata.Root` ↦ `root == metaRoot`; `c.targets[target] == nil`, `target == nil`
↦ `(s.get name).isNone`.
-/
set_option linter.unusedSimpArgs false
set_option linter.unusedVariables false
namespace Gnmi.GenProps.CacheReset
open Gnmi.Gen Gnmi.Cache

/-! ## `(*Target).Reset` -/

abbrev TS := Target × List Event

/-- one effect of the loop body for root `root`; the flag: this root's subtree has been deleted.
The announcement is refused before the deletion (a client that reacts to it by reading the cache
must not find the old leaves: the model's step deletes and announces at once) -/
def applyRoot (now : Int) (root : String) (e : Eff) (s : TS × Bool) : Option (TS × Bool) :=
  if e.label = "t.t.Delete([]string{root})" then
    some (({ s.1.1 with tree := (PMap.delete (fun _ => true) s.1.1.tree [root]).1 }, s.1.2), true)
  else if e.label = "t.client(ctree.DetachedLeaf(deleteNoti(t.name, root, []string{\"*\"})))" then
    (if s.2 then some ((s.1.1, s.1.2 ++ [Event.del s.1.1.name root [glob] now]), s.2) else none)
  else none

def runRoot (now : Int) (root : String) : List Eff → TS × Bool → Option (TS × Bool)
  | [], s => some s
  | e :: es, s => (applyRoot now root e s).bind (runRoot now root es)

/-- one iteration: `continue` and falling off the body both go on with the next root -/
def execRoot (now : Int) (root : String) (s : TS) (o : Outcome) : Option TS :=
  (runRoot now root o.effects (s, false)).bind (fun s' =>
    if o.ret = .label "continue" ∨ o.ret = .fall then some s'.1 else none)

/-- the loop: the generated body, root by root -/
def loopRoots (now : Int) : List String → TS → Option TS
  | [], s => some s
  | root :: rs, s =>
    (execRoot now root s (gen_targetResetRoot (root_eq_metadata_Root := (root == metaRoot)))).bind (loopRoots now rs)

def applyReset (cfg : Cfg) (enc : String → String) (now : Int) (e : Eff) (s : TS) : Option TS :=
  if e.label = "t.resetTimestamp()" then some ({ s.1 with latest := none }, s.2)
  else if e.label = "t.meta.Clear()" then some ({ s.1 with md := Meta.clear }, s.2)
  else if e.label = "t.updateMeta(t.client)" then
    let r := Target.updateMeta cfg enc now true s.1
    some (r.1, s.2 ++ r.2)
  else if e.label = "for root := range t.t.Children() { }" then loopRoots now (rootChildren s.1.tree) s
  else none

def runReset (cfg : Cfg) (enc : String → String) (now : Int) : List Eff → TS → Option TS
  | [], s => some s
  | e :: es, s => (applyReset cfg enc now e s).bind (runReset cfg enc now es)

/-- the model's loop step -/
def resetStep (now : Int) (acc : TS) (root : String) : TS :=
  ({ acc.1 with tree := (PMap.delete (fun _ => true) acc.1.tree [root]).1 },
   acc.2 ++ [Event.del acc.1.name root [glob] now])

/-- the generated loop body folded over the children = the model's fold over the children other
than `meta` -/
theorem loopRoots_eq (now : Int) (l : List String) (s : TS) :
    loopRoots now l s = some ((l.filter (· != metaRoot)).foldl (resetStep now) s) := by
  induction l generalizing s with
  | nil => rfl
  | cons root rs ih =>
    unfold loopRoots gen_targetResetRoot
    have hne : (root != metaRoot) = !(root == metaRoot) := rfl
    cases h : root == metaRoot
    · simp [execRoot, runRoot, applyRoot, List.filter, h, hne, ih, resetStep]
    · simp [execRoot, runRoot, applyRoot, List.filter, h, hne, ih]

/-- **`Target.Reset`**: timestamp cleared, metadata cleared, metadata re-announced, then every
root but `meta` deleted unconditionally and announced after its deletion -/
theorem tie_target_reset (cfg : Cfg) (enc : String → String) (now : Int) (t : Target) :
    runReset cfg enc now gen_targetReset.effects (t, []) = some (Target.reset cfg enc now t) ∧
    gen_targetReset.ret = .fall := by
  refine ⟨?_, rfl⟩
  unfold gen_targetReset Target.reset
  simp only [eff_effects, ret_effects, runReset, applyReset, Option.bind, String.reduceEq, ite_true, ite_false,
    List.nil_append, reduceCtorEq, if_false, if_true]
  rw [loopRoots_eq]
  rfl

/-! ## `(*Cache).Reset`, `Remove`, `ConnectError` -/

/-- cache state, feed, and whether `c.mu` is held by this call -/
structure CS where
  s : State
  evs : List Event := []
  locked : Bool := false
  forgotten : Bool := false     -- `delete(c.targets, target)` happened

def applyCache (enc : String → String) (name msg : String) (now : Int) (e : Eff) (c : CS) : Option CS :=
  if e.label = "defer c.mu.RUnlock()" ∨ e.label = "defer c.mu.Unlock()" then some c     -- released on return
  else if e.label = "c.mu.RLock()" ∨ e.label = "c.mu.Lock()" then some { c with locked := true }
  else if e.label = "t.Reset()" then
    if c.locked then
      let r := c.s.onTarget name (fun t => t.reset c.s.cfg enc now)
      some { c with s := r.1, evs := c.evs ++ r.2 }
    else none
  else if e.label = "delete(c.targets, target)" then
    if c.locked then
      some { c with s := { c.s with targets := c.s.targets.filter (fun kv => kv.1 != name) }, forgotten := true }
    else none
  else if e.label = "c.client(ctree.DetachedLeaf(deleteNoti(target, \"\", []string{\"*\"})))" then
    -- forget, then announce (a client reacting to the announcement must not find the target)
    if c.locked && c.forgotten then some { c with evs := c.evs ++ [Event.del name "" [glob] now] } else none
  else if e.label = "target := c.GetTarget(name)" then some c       -- a read (takes and releases the read lock itself)
  else if e.label = "target.connectError(err)" then
    let r := c.s.onTarget name (fun t =>
      let r := t.gnmiUpdate c.s.cfg now (metaNoti enc name "connectError" (.str msg) now)
      (r.2.1, flattenGroups r.2.2))
    some { c with s := r.1, evs := c.evs ++ r.2 }
  else none

def runCache (enc : String → String) (name msg : String) (now : Int) : List Eff → CS → Option CS
  | [], c => some c
  | e :: es, c => (applyCache enc name msg now e c).bind (runCache enc name msg now es)

def execCache (enc : String → String) (name msg : String) (now : Int) (s : State) (o : Outcome) :
    Option (State × List Event) :=
  (runCache enc name msg now o.effects { s := s }).bind (fun c =>
    if o.ret = .fall ∨ o.ret = .nil then some (c.s, c.evs) else none)      -- the functions return nothing

/-- **`Cache.Reset`**: under the read lock, the target's `Reset` when the target is known, nothing
otherwise -/
theorem tie_cache_reset (s : State) (enc : String → String) (name : String) (now : Int) :
    execCache enc name "" now s (gen_cacheReset (c_targets_target_eq_nil := (s.get name).isNone))
      = some (s.reset enc name now) := by
  unfold gen_cacheReset State.reset State.onTarget
  cases h : s.get name <;> simp [execCache, runCache, applyCache, State.onTarget, h]

/-- **`Cache.Remove`**: under the write lock, the entry deleted and the whole-target delete
announced, whether or not the target was known -/
theorem tie_cache_remove (s : State) (enc : String → String) (name : String) (now : Int) :
    execCache enc name "" now s gen_cacheRemove = some (s.remove name now) := by
  unfold gen_cacheRemove State.remove
  simp [execCache, runCache, applyCache]

/-- **`Cache.ConnectError`**: the `connectError` metadata update of a known target, nothing for an
unknown one -/
theorem tie_cache_connectError (s : State) (enc : String → String) (name msg : String) (now : Int) :
    execCache enc name msg now s (gen_cacheConnectError (target_eq_nil := (s.get name).isNone))
      = some (s.connectError enc name msg now) := by
  unfold gen_cacheConnectError State.connectError State.onTarget
  cases h : s.get name <;> simp [execCache, runCache, applyCache, State.onTarget, h]

/-- non-vacuity: a target with a data root and the `meta` root: one delete announced, `meta` kept -/
example : (loopRoots 5 ["a", metaRoot] ({ name := "t" }, [])).map (·.2) = some [Event.del "t" "a" [glob] 5] := by
  decide

end Gnmi.GenProps.CacheReset
