import Gnmi.Gen.ClientReconnectClose
import Gnmi.Gen.ClientReconnectCloseLocked
import Gnmi.Gen.ClientReconnectPoll
import Gnmi.Gen.ClientGetFirstWorker
import Gnmi.Model.ClientFirst
/-!
# Obligations: `(*ReconnectClient).Close` / `Poll` and the goroutine of `getFirst` as the source
has them now = goroutine K of the client LTS (`closeCs`, `closeInner`, `closeWait`) and the
goroutine steps `fnImpl | fnErr`, `sendErr` of `ClientFirst`  (C18)

Regenerated from `client/reconnect.go` and `client/register.go` on every check run:

* `gen_reconnectCloseLocked` (the closure `Close` applies on the spot): under `p.mu` — `p.cancel()`
  when set, `p.closed = true`, the `subscribeDone` channel read — the critical section
  `ClientLTS.Cfg.doCloseCs`;
* `gen_reconnectClose`: that closure first, then `p.Client.Close()` *outside the lock* (the closure
  has returned, and with it its deferred unlock), then the wait on `subscribeDone` when one was
  read, then `return err`: the K steps `closeCs`, `closeInner`, `closeWait`;
* `gen_reconnectPoll`: `return p.Client.Poll()` and nothing else: `Poll` neither takes `p.mu` nor
  reads `p.closed`, which is why the client LTS has no transition for it (`c18_seed8` adds both);
* `gen_getFirstWorker` (the closure started with `go` per client type): `fn`, then on an error the
  send on `errC` *unconditionally* and return, else the `select` on `implC` / `done` (`c18_seed7`
  guards the send by `ctx.Err() == nil`: a new atom).

Atoms ↦ model terms: `p.cancel == nil` ↦ `!c.cancelSet`; `subscribeDone == nil` ↦ `!sd` (`sd`: what
the critical section read, `KPc.inner sd`); `err == nil` (of `fn`) ↦ the scripted outcome.
-/
set_option linter.unusedSimpArgs false
set_option linter.unusedVariables false
namespace Gnmi.GenProps.ClientClose
open Gnmi.Gen

/-! ## `Close` -/
section close
open Gnmi.ClientLTS
variable {N : Type}

/-- configuration and whether `p.mu` is held -/
def applyCs (e : Eff) (s : Cfg N × Bool) : Option (Cfg N × Bool) :=
  if e.label = "p.mu.Lock()" then some (s.1, true)
  else if e.label = "defer p.mu.Unlock()" then some s
  else if e.label = "p.cancel()" then
    (if s.2 then some ({ s.1 with cancelled := true, cancelCalls := s.1.cancelCalls + 1 }, s.2) else none)
  else if e.label = "p.closed = true" then (if s.2 then some ({ s.1 with rcClosed := true }, s.2) else none)
  else none

def runCs : List Eff → Cfg N × Bool → Option (Cfg N × Bool)
  | [], s => some s
  | e :: es, s => (applyCs e s).bind (runCs es)

/-- the closure returns `p.subscribeDone` (read under the lock): K is past the critical section -/
def execCs (c : Cfg N) (o : Outcome) : Option (Cfg N) :=
  (runCs o.effects (c, false)).bind (fun s =>
    if o.ret = .label "p.subscribeDone" ∧ s.2 = true then some { s.1 with kpc := .inner s.1.sdSet } else none)

/-- **closeCs**: the locked section of `Close` is `Cfg.doCloseCs` -/
theorem tie_closeCs (c : Cfg N) :
    execCs c (gen_reconnectCloseLocked (p_cancel_eq_nil := !c.cancelSet)) = some c.doCloseCs := by
  unfold gen_reconnectCloseLocked Cfg.doCloseCs
  cases h : c.cancelSet <;> simp [execCs, runCs, applyCs, h]

/-- the K labels an effect of `Close` stands for -/
def stepOfEff (e : Eff) : Option (List Label) :=
  if e.label = "subscribeDone := ƒ()" then some [.closeCs]
  else if e.label = "err := p.Client.Close()" then some [.closeInner]
  else if e.label = "<-subscribeDone" then some [.closeWait]
  else none

def stepsOfEffs : List Eff → Option (List Label)
  | [] => some []
  | e :: es => (stepOfEff e).bind (fun a => (stepsOfEffs es).map (a ++ ·))

/-- without a `subscribeDone` the wait is skipped: `closeWait` is then the (always enabled) step to
`returned` -/
def stepsOf (sd : Bool) (o : Outcome) : Option (List Label) :=
  (stepsOfEffs o.effects).bind (fun a =>
    if o.ret = .label "err" then some (if sd then a else a ++ [.closeWait]) else none)

/-- the labels `kNext` takes from `c` until K has returned or blocks -/
def kPath (c : Cfg N) : Nat → List Label
  | 0 => []
  | fuel + 1 =>
    match kNext true c with
    | some (l, c') => l :: kPath c' fuel
    | none => []

/-- **Close**: critical section, inner `Close` outside the lock, then the wait for `Subscribe` to
return (when it was called): the K path of the LTS, here for a `Subscribe` that has returned -/
theorem tie_close (c : Cfg N) (hk : c.kpc = .idle) (hsd : c.sdSet = true → c.sdClosed = true) :
    stepsOf c.sdSet (gen_reconnectClose (subscribeDone_eq_nil := !c.sdSet)) = some (kPath c 4) := by
  unfold gen_reconnectClose
  cases hs : c.sdSet <;> cases hb : c.bcImpl <;>
    simp_all [stepsOf, stepsOfEffs, stepOfEff, kPath, kNext, Cfg.doCloseCs, Cfg.doBcClose, hk]

/-- **Poll** forwards to the wrapped client: no lock, no look at `p.closed` -/
theorem poll_shape : gen_reconnectPoll = Gen.eff "p.Client.Poll()" [] (Gen.ret (.label "p.Client.Poll()")) := rfl

/-- non-vacuity of `tie_close`: `Close` on a client whose `Subscribe` was never called -/
example : stepsOf false (gen_reconnectClose (subscribeDone_eq_nil := true))
    = some [.closeCs, .closeInner, .closeWait] := by decide

end close

/-! ## the goroutine of `getFirst` -/
section first
open Gnmi.ClientFirst

def applyWorker (i : Nat) (errNil : Bool) (e : Eff) (c : Cfg) : Option Cfg :=
  if e.label = "impl, err := fn(ctx, t, input)" then
    (if c.g[i]? = some .calling then some (c.setG i (if errNil then .offering else .failed)) else none)
  else if e.label = "errC <- fmt.Errorf(\"client %q : %v\", t, err)" then
    (if c.g[i]? = some .failed then some (c.doSendErr i) else none)
  else if e.label = "select { case implC <- impl: case <-done: impl.Close() }" then
    (if c.g[i]? = some .offering then some c else none)       -- parked: `recvImpl` / `doneArm` come next
  else none

def runWorker (i : Nat) (errNil : Bool) : List Eff → Cfg → Option Cfg
  | [], c => some c
  | e :: es, c => (applyWorker i errNil e c).bind (runWorker i errNil es)

/-- **the goroutine**: after `fn` an error is always sent (`sendErr`, never dropped), an `Impl` is
offered -/
theorem tie_worker (c : Cfg) (i : Nat) (hi : i < c.g.length) (hc : c.g[i]? = some .calling) (errNil : Bool) :
    runWorker i errNil (gen_getFirstWorker (err_eq_nil := errNil)).effects c
      = some (if errNil then c.setG i .offering else (c.setG i .failed).doSendErr i) ∧
    ((gen_getFirstWorker (err_eq_nil := errNil)).ret = .fall ∨ (gen_getFirstWorker (err_eq_nil := errNil)).ret = .nil) := by
  unfold gen_getFirstWorker
  have hg : c.g[i] = GPc.calling := by
    have := List.getElem?_eq_getElem hi
    rw [hc] at this; exact (Option.some.inj this).symm
  have hs : ∀ x, (c.g.set i x)[i]? = some x := by intro x; simp [hi]
  cases errNil <;> simp [runWorker, applyWorker, hc, hg, hs, Cfg.setG, hi]

/-- non-vacuity of `tie_worker`: the goroutine of type 0 whose `fn` fails sends its error -/
example : runWorker 0 false (gen_getFirstWorker (err_eq_nil := false)).effects { g := [.calling] }
    = some { g := [.exitedErr true], errC := [0] } := by decide

end first

end Gnmi.GenProps.ClientClose
