import Gnmi.Gen.CtreeAdd
import Gnmi.Gen.CtreeTerminalAdd
import Gnmi.Gen.CtreeIntermediateAdd
import Gnmi.Gen.CtreeIntermediateAddDeferred
import Gnmi.Gen.CtreeSlowAdd
import Gnmi.Gen.CtreeGet
import Gnmi.Model.CTree
/-!
# Obligations: `(*Tree).Add`, `terminalAdd`, `intermediateAdd` (+ its deferred closure), `slowAdd`,
# `Get` as the source has them now: lock balance of the read→write upgrade, and the case analysis of
# `Trie.add` / `Trie.get` at the node the call is made on  (C09, C10)

Regenerated from `ctree/tree.go` on every check run.

**Lock balance** (`balanced`): the effects of `intermediateAdd` are run on the lock state of `t.mu` as
this goroutine sees it (read locks held, write lock held) together with the flag `readerLocked` the
deferred closure reads (the translator option `Captured` makes its assignments effects) and the stack
of deferred calls; at the return the deferred calls run, last registered first, the closure as the
regenerated `gen_ctreeIntermediateAddDeferred` applied to the value the flag has *then*.  The run is
refused (`none`) when an unlock has no matching lock, when `Lock` is called with the read lock still
held (self-deadlock of the upgrade), when `slowAdd` runs without the write lock, when the recursive
`br.Add` runs without the read lock.  The obligation: on every path the run is accepted and ends with
no lock held — every return path releases the read lock exactly once.

**Decisions**: atoms ↦ model terms: `t.leafBranch.(type) == nil` ↦ `t = .empty`, `… == branch` ↦
`t = .branch _`, `b[path[0]] == nil` ↦ `Trie.getL cs k [] = none`, `len(path)` ↦ `p.length`.
-/
set_option linter.unusedSimpArgs false
set_option linter.unusedVariables false
namespace Gnmi.GenProps.CtreeAdd
open Gnmi.Gen Gnmi

/-- deferred calls -/
inductive Def where
  | closure      -- `defer func() { if readerLocked { t.mu.RUnlock() } }()`
  | unlock       -- `defer t.mu.Unlock()`
deriving DecidableEq, Repr

structure LS where
  r : Nat := 0            -- read locks of t.mu held by this call
  w : Bool := false       -- write lock held by this call
  flag : Bool := false    -- readerLocked
  defs : List Def := []   -- deferred calls, last registered first
deriving DecidableEq, Repr

def applyEff (e : Eff) (s : LS) : Option LS :=
  if e.label = "readerLocked := true" then some { s with flag := true }
  else if e.label = "readerLocked = false" then some { s with flag := false }
  else if e.label = "defer ƒ()" then some { s with defs := .closure :: s.defs }
  else if e.label = "defer t.mu.Unlock()" then some { s with defs := .unlock :: s.defs }
  else if e.label = "t.mu.RLock()" then (if s.w then none else some { s with r := s.r + 1 })
  else if e.label = "t.mu.RUnlock()" then (if s.r = 0 then none else some { s with r := s.r - 1 })
  else if e.label = "t.mu.Lock()" then (if s.w || s.r != 0 then none else some { s with w := true })
  else if e.label = "t.mu.Unlock()" then (if s.w then some { s with w := false } else none)
  else if e.label = "t.slowAdd(path, value)" then (if s.w && s.r == 0 then some s else none)
  else if e.label = "br.Add(path[1:], value)" then (if !s.w && s.r == 1 then some s else none)
  else none

def run : List Eff → LS → Option LS
  | [], s => some s
  | e :: es, s => (applyEff e s).bind (run es)

/-- the deferred calls at the return; the closure is the regenerated one, on the flag's value now -/
def unwind : List Def → LS → Option LS
  | [], s => some s
  | .unlock :: ds, s => (applyEff ⟨"t.mu.Unlock()", []⟩ s).bind (unwind ds)
  | .closure :: ds, s => (run (gen_ctreeIntermediateAddDeferred (readerLocked := s.flag)).effects s).bind (unwind ds)

def exec (o : Gen.Outcome) : Option LS :=
  (run o.effects {}).bind (fun s => unwind s.defs { s with defs := [] })

/-- **lock balance**: whatever the node holds, `intermediateAdd` is accepted by the lock discipline
and returns with neither lock held and nothing left to run -/
theorem balanced (a b c : Bool) :
    (exec (gen_ctreeIntermediateAdd (b_path_0_eq_nil := a) (t_leafBranch_type_eq_branch := b)
      (t_leafBranch_type_eq_nil := c))).map (fun s => (s.r, s.w, s.defs)) = some (0, false, []) := by
  unfold gen_ctreeIntermediateAdd
  cases a <;> cases b <;> cases c <;>
    simp [exec, run, unwind, applyEff, gen_ctreeIntermediateAddDeferred]

/-- the deferred closure releases the read lock iff the flag says it is still held -/
theorem tie_deferred (f : Bool) :
    gen_ctreeIntermediateAddDeferred (readerLocked := f) =
      if f then Gen.eff "t.mu.RUnlock()" [] (Gen.ret .fall) else Gen.ret .fall := by
  unfold gen_ctreeIntermediateAddDeferred; cases f <;> rfl

/-! ## decisions at the node -/
variable {V : Type}

def isEmpty : Trie V → Bool | .empty => true | _ => false
def isBranch : Trie V → Bool | .branch _ => true | _ => false
/-- `b[path[0]] == nil` (meaningful on a branch) -/
def childNil : Trie V → String → Bool
  | .branch cs, k => (Trie.getL cs k []).isNone
  | _, _ => true

/-- **Add**: the empty path is `terminalAdd`, every other `intermediateAdd` -/
theorem tie_add (p : Path) :
    (gen_ctreeAdd (len_path := p.length)).labels =
      match p with | [] => ["t.terminalAdd(value)"] | _ :: _ => ["t.intermediateAdd(path, value)"] := by
  unfold gen_ctreeAdd
  cases p with
  | nil => simp [Gen.Outcome.labels]
  | cons hd tl =>
    have h : ¬ ((tl.length : Int) + 1 = 0) := by omega
    simp [Gen.Outcome.labels, h]

/-- **terminalAdd** = `Trie.add t []`: refused exactly on a branch, otherwise the value is written
(under the write lock) -/
theorem tie_terminal (t : Trie V) (v : V) :
    ((gen_ctreeTerminalAdd (ok_t_leafBranch_branch := isBranch t)).ret = .error ↔ Trie.add t [] v = none) ∧
    ((gen_ctreeTerminalAdd (ok_t_leafBranch_branch := isBranch t)).labels =
        ["defer t.mu.Unlock()", "t.mu.Lock()", "t.leafBranch = value"] ↔ Trie.add t [] v = some (.leaf v)) := by
  unfold gen_ctreeTerminalAdd
  cases t <;> simp [isBranch, Trie.add, Gen.Outcome.labels]

/-- which way `intermediateAdd` goes -/
inductive Way where | refuse | slow | recurse
deriving DecidableEq, Repr

def wayOf (o : Gen.Outcome) : Option Way :=
  if o.ret = .error then some .refuse
  else if o.ret = .label "t.slowAdd(path, value)" then some .slow
  else if o.ret = .label "br.Add(path[1:], value)" then some .recurse
  else none

/-- **intermediateAdd** follows `Trie.add t (k :: p)`: a leaf refuses (`none`); the nil node and a
branch without the child take the write lock and `slowAdd`; a branch with the child recurses under
the read lock -/
theorem tie_intermediate (t : Trie V) (k : String) :
    wayOf (gen_ctreeIntermediateAdd (b_path_0_eq_nil := childNil t k)
      (t_leafBranch_type_eq_branch := isBranch t) (t_leafBranch_type_eq_nil := isEmpty t)) =
    some (match t with
      | .empty => .slow
      | .leaf _ => .refuse
      | .branch cs => if (Trie.getL cs k []).isNone then .slow else .recurse) := by
  unfold gen_ctreeIntermediateAdd
  cases t with
  | empty => simp [wayOf, isEmpty, isBranch, childNil]
  | leaf v => simp [wayOf, isEmpty, isBranch, childNil]
  | branch cs => cases h : (Trie.getL cs k []).isNone <;> simp [wayOf, isEmpty, isBranch, childNil, h]

theorem refuse_is_none (x : V) (k : String) (p : Path) (v : V) : Trie.add (.leaf x) (k :: p) v = none := by
  simp [Trie.add]

/-- **slowAdd**: a nil node becomes an empty branch first; the child is created iff missing; a leaf
is refused.  (`branch{}.(type) == branch` is true: the value just written.) -/
theorem tie_slow (childMissing isNil isBr : Bool) :
    (gen_ctreeSlowAdd (b_path_0_eq_nil := childMissing) (branch_type_eq_branch := true)
      (t_leafBranch_eq_nil := isNil) (t_leafBranch_type_eq_branch := isBr)).labels =
      (if isNil then ["t.leafBranch = branch{}"] else []) ++
      (if isNil || isBr then
        (if childMissing then ["b[path[0]] = br"] else []) ++ ["br.Add(path[1:], value)"] else []) := by
  unfold gen_ctreeSlowAdd
  cases childMissing <;> cases isNil <;> cases isBr <;> simp [Gen.Outcome.labels]

/-- **Get** follows `Trie.get`: the node itself for the empty path; below a branch the child when
present; nil otherwise; always under the read lock, released by the deferred unlock -/
theorem tie_get (p : Path) (br childNil : Bool) :
    let o := gen_ctreeGet (len_path := p.length) (ok_t_leafBranch_branch := br)
      (t_leafBranch_branch_path_0_eq_nil := childNil)
    o.labels.take 2 = ["defer t.mu.RUnlock()", "t.mu.RLock()"] ∧
    o.ret = (match p with
      | [] => .label "t"
      | _ :: _ => if br && !childNil then .label "br.Get(path[1:])" else .nil) := by
  unfold gen_ctreeGet
  cases p with
  | nil => cases br <;> cases childNil <;> simp [Gen.Outcome.labels]
  | cons hd tl =>
    have h : ¬ ((tl.length : Int) + 1 = 0) := by omega
    cases br <;> cases childNil <;> simp [Gen.Outcome.labels, h]

end Gnmi.GenProps.CtreeAdd
