import Gnmi.Gen.SubscribeIsTargetDelete
import Gnmi.Model.Subscribe
/-!
# Obligation: `isTargetDelete` as the source has it now = `Sub.isTargetDelete` (C04/C05: the sender
ends the RPC of a single-target subscription after a whole-target delete)

Regenerated from `subscribe/subscribe.go` on every check run.  Atoms ↦ model terms for a response
`r`: the type test and `len(v.Delete) == 1` ↦ "`r` is a `.del`"; `v.Prefix == nil` ↦ any (a nil
prefix has the empty origin); `v.Prefix.Origin` ↦ the origin; the joined path
`append(ToStrings(prefix), ToStrings(delete[0])…)` ↦ `p` (its length and first element).
-/
set_option linter.unusedSimpArgs false
set_option linter.unusedVariables false
namespace Gnmi.GenProps.SubscribeIsTargetDelete
open Gnmi.Gen Gnmi.Sub

/-! ## `isTargetDelete` -/

/-- a delete response: the source's test is the model's -/
theorem tie_del (t o : String) (p : Path) (ts : Int) (d : Nat) (prefixNil : Bool)
    (hnil : prefixNil = true → o = "") :
    gen_isTargetDelete
        (append_path_ToStrings_v_Prefix_false_path_ToStrings_v_Delete := p.headD "")
        (l_Value_type_eq_pb_Notification := true)
        (len_append_path_ToStrings_v_Prefix_false_path_ToStrings_v_De := p.length)
        (len_v_Delete := 1) (v_Prefix_eq_nil := prefixNil) (v_Prefix_Origin := o)
      = Gen.ret (.bool (isTargetDelete (.del t o p ts d))) := by
  unfold gen_isTargetDelete isTargetDelete glob
  have ho : prefixNil = true → o = "" := hnil
  rcases p with _ | ⟨a, _ | ⟨b, r⟩⟩ <;> cases prefixNil <;>
    simp_all [Bool.and_comm, Bool.and_left_comm, and_comm, and_left_comm] <;> (try omega) <;>
    (try (intros; omega))

/-- anything else (an update, the sync marker: no single delete): never a target delete -/
theorem tie_other (r : Resp) (hr : ∀ t o p ts d, r ≠ .del t o p ts d)
    (s : String) (isNoti : Bool) (n nd : Int) (hnd : nd ≠ 1) (pn : Bool) (o : String) :
    gen_isTargetDelete
        (append_path_ToStrings_v_Prefix_false_path_ToStrings_v_Delete := s)
        (l_Value_type_eq_pb_Notification := isNoti)
        (len_append_path_ToStrings_v_Prefix_false_path_ToStrings_v_De := n)
        (len_v_Delete := nd) (v_Prefix_eq_nil := pn) (v_Prefix_Origin := o)
      = Gen.ret (.bool (isTargetDelete r)) := by
  unfold gen_isTargetDelete
  cases r with
  | del t o p ts d => exact absurd rfl (hr t o p ts d)
  | upd _ _ => cases isNoti <;> simp [hnd, isTargetDelete]
  | sync => cases isNoti <;> simp [hnd, isTargetDelete]

end Gnmi.GenProps.SubscribeIsTargetDelete
