import Gnmi.Gen.ConnectionConnection
import Gnmi.Gen.ConnectionDial
import Gnmi.Model.ConnLTS
/-!
# Obligations: `(*Manager).Connection` and `(*Manager).dial` as the source has them now = the
atomic sections `r0`, `r1` (`Conn.doR1`), `r3` and `d2` (`Conn.doD2`) of the connection LTS (C16)

Regenerated from `connection/connection.go` on every check run:

* `gen_connectionConnection`: the non-blocking context check; under `m.mu` the create-or-join keyed
  by `addr` (`c16_seed8` keys by `connKey(addr, dialer)`: a new effect), `go m.dial(…)` for a new
  object only, `c.ref++` *before* the unlock and the wait `<-c.ready`; after the wait `c.err` decides
  between `(nil, func(){}, c.err)` and `(c.c, c.done(m), nil)`.  The translator substitutes the
  local `c`: the labels say which object is written (`m.conns[addr]` resp. `newConnection(addr)`).
* `gen_connectionDial`: `defer close(c.ready)` first; the dialer lookup; the `Dial` call only when
  the dialer exists; on an error — unknown dialer included — `m.mu.Lock(); m.remove(addr); c.err =
  err; m.mu.Unlock()` in this order (`c13_seed3`, `c16_seed3` change the unknown-dialer path).

Atoms ↦ model terms (requester `r` with `Req` `q`, at the time the section runs):
`ready(<-ctx.Done())` ↦ `q.cancelled`; `ok(m.conns[addr])` ↦ `(find c.conns q.addr).isSome`;
`m.conns[addr].ref` ↦ `ob.ref` of the registered object; `newConnection(addr).ref` ↦ `0` (a fresh
object); `….err == nil` ↦ `ob.err.isNone` *when `r3` runs* (after the wait); `ok(m.d[dialer])` ↦
`ob.dialerOK`; `fmt.Errorf(…) == nil` ↦ `false`; `err == nil` (of the `Dial` call) ↦ the scripted
outcome.  `c.ref` is a Go `int`: the increment wraps; the obligation assumes it is in range.
-/
set_option linter.unusedSimpArgs false
set_option linter.unusedVariables false
set_option maxRecDepth 4000
namespace Gnmi.GenProps.ConnectionConnect
open Gnmi.Gen Gnmi.Conn

/-! ## `Connection`: the locked section -/

/-- the effects up to the wait (`none`: the region does not reach a wait) and the rest -/
def uptoWait : List Eff → Option (List Eff)
  | [] => none
  | e :: es =>
    if e.label = "<-m.conns[addr].ready" ∨ e.label = "<-newConnection(addr).ready" then some []
    else (uptoWait es).map (e :: ·)

/-- state of the section: configuration, the object joined (once known), `m.mu` held; a write to
the shared state outside the lock is refused -/
abbrev RS := Cfg × Option Nat × Bool

def applyR1 (r : Nat) (q : Req) (e : Eff) (s : RS) : Option RS :=
  let c := s.1
  let held := s.2.2
  if e.label = "m.mu.Lock()" then some (c, s.2.1, true)
  else if !held then none
  else if e.label = "m.conns[addr] = newConnection(addr)" then
    let o := c.objs.length
    some ({ c with conns := (q.addr, o) :: c.conns,
                   objs := c.objs ++ [{ addr := q.addr, ref := 0, creator := r, dialerOK := q.dialerOK }] }, some o, held)
  else if e.label = "go m.dial(ctx, addr, dialer, newConnection(addr))" then
    (if s.2.1.isSome then some s else none)        -- the goroutine's state is the new object's `dpc := .start`
  else if e.label = "newConnection(addr).ref = _" then
    match s.2.1 with
    | some o =>
      match c.objs[o]? with
      | some ob => some ({ c with objs := c.objs.set o { ob with ref := e.args.headD 0 } }, s.2)
      | none => none
    | none => none
  else if e.label = "m.conns[addr].ref = _" then
    match find c.conns q.addr with
    | some o =>
      match c.objs[o]? with
      | some ob => some ({ c with objs := c.objs.set o { ob with ref := e.args.headD 0 } }, some o, held)
      | none => none
    | none => none
  else if e.label = "m.mu.Unlock()" then
    match s.2.1 with
    | some o => some ({ c with reqs := c.reqs.set r { q with pc := .wait o } }, s.2.1, false)    -- next: `<-c.ready`
    | none => none
  else none

def runR1 (r : Nat) (q : Req) : List Eff → RS → Option RS
  | [], s => some s
  | e :: es, s => (applyR1 r q e s).bind (runR1 r q es)

/-- the section ends unlocked, right before the wait -/
def execR1 (r : Nat) (q : Req) (c : Cfg) (o : Gen.Outcome) : Option Cfg :=
  (uptoWait o.effects).bind (fun es => (runR1 r q es (c, none, false)).bind (fun s => if s.2.2 then none else some s.1))

/-- **r1, join**: the address is registered: `ref++` on that object, then wait on it -/
theorem tie_r1_join (c : Cfg) (r : Nat) (q : Req) (o : Nat) (ob : Obj)
    (hf : find c.conns q.addr = some o) (ho : c.objs[o]? = some ob) (hr : inI64 (ob.ref + 1))
    (e1 e2 : Bool) (nref : Int) :
    execR1 r q c (gen_connectionConnection (ready_recv_ctx_Done := false) (ok_m_conns_addr := true)
        (m_conns_addr_ref := ob.ref) (newConnection_addr_ref := nref)
        (m_conns_addr_err_eq_nil := e1) (newConnection_addr_err_eq_nil := e2))
      = some (doR1 c r q) := by
  unfold gen_connectionConnection doR1
  rw [wrap64_id hr]
  simp [execR1, uptoWait, runR1, applyR1, hf, ho]

/-- **r1, create**: the address is free: a new object registered under `addr`, the dial goroutine
started, `ref = 1`, then wait on it -/
theorem tie_r1_create (c : Cfg) (r : Nat) (q : Req) (hf : find c.conns q.addr = none)
    (e1 e2 : Bool) (jref : Int) :
    execR1 r q c (gen_connectionConnection (ready_recv_ctx_Done := false) (ok_m_conns_addr := false)
        (m_conns_addr_ref := jref) (newConnection_addr_ref := 0)
        (m_conns_addr_err_eq_nil := e1) (newConnection_addr_err_eq_nil := e2))
      = some (doR1 c r q) := by
  unfold gen_connectionConnection doR1
  have hw : wrap64 1 = 1 := wrap64_id (by unfold inI64; omega)
  simp [execR1, uptoWait, runR1, applyR1, hf, hw]

/-- **r0**: a done context returns `ctx.Err()` before anything is touched; otherwise the first
thing done is `m.mu.Lock()` -/
theorem tie_r0 (cancelled ok e1 e2 : Bool) (jref nref : Int) :
    let o := gen_connectionConnection (ready_recv_ctx_Done := cancelled) (ok_m_conns_addr := ok)
        (m_conns_addr_ref := jref) (newConnection_addr_ref := nref)
        (m_conns_addr_err_eq_nil := e1) (newConnection_addr_err_eq_nil := e2)
    (cancelled = true → o = Gen.ret (.label "nil, func() { }, ctx.Err()")) ∧
    (cancelled = false → o.labels.head? = some "m.mu.Lock()") := by
  unfold gen_connectionConnection
  cases cancelled <;> cases ok <;> simp

/-- the requester's program counter after `r3`, read off the result list -/
def pcOfRet (o : Nat) (err : Option Err) (v : Gen.Val) : Option RPc :=
  if v = .label "nil, func() { }, m.conns[addr].err" ∨ v = .label "nil, func() { }, newConnection(addr).err" then
    err.map .failed
  else if v = .label "m.conns[addr].c, m.conns[addr].done(m), nil" ∨
      v = .label "newConnection(addr).c, newConnection(addr).done(m), nil" then
    (if err.isNone then some (.held o false) else none)
  else none

/-- **r3**: after the wait, `c.err` alone decides: the error with a no-op `done`, or the connection
with the object's `done` -/
theorem tie_r3 (o : Nat) (ob : Obj) (ok : Bool) (jref nref : Int) :
    pcOfRet o ob.err (gen_connectionConnection (ready_recv_ctx_Done := false) (ok_m_conns_addr := ok)
        (m_conns_addr_ref := jref) (newConnection_addr_ref := nref)
        (m_conns_addr_err_eq_nil := ob.err.isNone) (newConnection_addr_err_eq_nil := ob.err.isNone)).ret
      = some (match ob.err with
              | some e => .failed e
              | none => .held o false) := by
  unfold gen_connectionConnection
  cases ok <;> cases h : ob.err <;> simp [pcOfRet, h]

/-! ## `dial` -/

/-- the failure section on object `o` with error class `e` (configuration, `m.mu` held):
`remove` "should be called while locking m" -/
def applyD2 (o : Nat) (ob : Obj) (e : Err) (x : Eff) (s : Cfg × Bool) : Option (Cfg × Bool) :=
  let c := s.1
  if x.label = "m.mu.Lock()" then some (c, true)
  else if x.label = "m.mu.Unlock()" then some (c, false)
  else if x.label = "m.remove(addr)" then (if s.2 then some (remove c ob.addr, s.2) else none)
  else if x.label = "c.err = err" then
    if !s.2 then none
    else if c.panicked then some s            -- the goroutine died inside `remove`
    else
      match c.objs[o]? with
      | some ob1 => some ({ c with objs := c.objs.set o { ob1 with err := some e, dpc := .closing } }, s.2)
      | none => some s
  else none

def runD2' (o : Nat) (ob : Obj) (e : Err) : List Eff → Cfg × Bool → Option (Cfg × Bool)
  | [], s => some s
  | x :: xs, s => (applyD2 o ob e x s).bind (runD2' o ob e xs)

def runD2 (o : Nat) (ob : Obj) (e : Err) (xs : List Eff) (c : Cfg) : Option Cfg :=
  (runD2' o ob e xs (c, false)).bind (fun s => if s.2 then none else some s.1)

/-- the effects from `m.mu.Lock()` on -/
def fromLock : List Eff → List Eff
  | [] => []
  | e :: es => if e.label = "m.mu.Lock()" then e :: es else fromLock es

/-- **d2**: on every failure path — unknown dialer, or the `Dial` function failed — the locked
section is `remove(addr)`, then `c.err = err`: `Conn.doD2` -/
theorem tie_d2 (c : Cfg) (o : Nat) (ob : Obj) (e : Err) (dialerOK : Bool) :
    runD2 o ob e (fromLock (gen_connectionDial (ok_m_d_dialer := dialerOK) (err_eq_nil := false)
        (fmt_Errorf_no_such_dialer_v_dialer_eq_nil := false)).effects) c
      = some (doD2 c o ob e) := by
  unfold gen_connectionDial doD2
  cases dialerOK <;> simp [fromLock, runD2, runD2', applyD2] <;>
    (cases hp : (remove c ob.addr).panicked <;> simp [hp]) <;>
    (cases ho : (remove c ob.addr).objs[o]? <;> simp [ho])

/-- **order of `dial`**: `close(c.ready)` is deferred before anything else (it runs last); the
`Dial` function is called exactly when the dialer exists; a failure ends in the locked section and
a bare return, a success in `c.c = cc` -/
theorem dial_shape (dialerOK dialNil : Bool) :
    (gen_connectionDial (ok_m_d_dialer := dialerOK) (err_eq_nil := dialNil)
        (fmt_Errorf_no_such_dialer_v_dialer_eq_nil := false)).labels =
      ["defer close(c.ready)"] ++ (if dialerOK then ["cc, err = d(ctx, addr, m.opts...)"] else []) ++
      (if dialerOK && dialNil then ["c.c = cc"]
       else ["m.mu.Lock()", "m.remove(addr)", "c.err = err", "m.mu.Unlock()"]) := by
  unfold gen_connectionDial
  cases dialerOK <;> cases dialNil <;> rfl

/-- non-vacuity: second requester joins a registered address -/
example : execR1 1 { addr := "a", pc := .r1 }
    { conns := [("a", 0)], objs := [{ addr := "a", ref := 1 }], reqs := [{ addr := "a", pc := .wait 0 }, { addr := "a", pc := .r1 }] }
    (gen_connectionConnection (ready_recv_ctx_Done := false) (ok_m_conns_addr := true)
        (m_conns_addr_ref := 1) (newConnection_addr_ref := 0)
        (m_conns_addr_err_eq_nil := true) (newConnection_addr_err_eq_nil := true))
    = some { conns := [("a", 0)], objs := [{ addr := "a", ref := 2 }],
             reqs := [{ addr := "a", pc := .wait 0 }, { addr := "a", pc := .wait 0 }] } := by decide

end Gnmi.GenProps.ConnectionConnect
