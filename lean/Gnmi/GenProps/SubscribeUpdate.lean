import Gnmi.Gen.SubscribeUpdate
import Gnmi.Gen.SubscribeUpdateNotification
import Gnmi.Gen.SubscribeUpdateNotificationUpd
import Gnmi.Gen.SubscribeUpdateNotificationDel
import Gnmi.Model.Match
/-!
# Obligations: `(*Server).Update` and `UpdateNotification` as the source has them now =
`Match.serverUpdate`, `Match.updateNotification`  (C06)

Regenerated from `subscribe/subscribe.go` on every check run:

* `gen_serverUpdate`: the type switch — a `*pb.Notification` goes to `UpdateNotification` with
  the prefix strings, anything else is logged; no other arm (`c06_seed8`'s fast path for a
  target delete adds the atom `isTargetDelete(n)`);
* `gen_UpdateNotification`: *one* `updated` set is made, before the two loops (D11), then the
  loop over the updates, then the loop over the deletes (`make` is declared an effect for this
  region so that where the set is created is visible);
* `gen_UpdateNotificationUpd` / `…Del`: the loop bodies: one `m.UpdateOnce(v, append(prefix, …),
  updated)` per path with the shared set.

The interpreter runs the effects on (clients invoked so far, the `updated` set; `none` before it
is made) with `Match.update` for `UpdateOnce`.

Atom: `n.Value().(type) == *pb.Notification` ↦ `v.isSome`.
-/
set_option linter.unusedSimpArgs false
set_option linter.unusedVariables false
namespace Gnmi.GenProps.SubscribeUpdate
open Gnmi.Gen Gnmi.Match

variable {C : Type} [DecidableEq C]

/-- clients invoked, `updated` (`none`: not made yet) -/
abbrev St (C : Type) := List C × Option (Option (List C))

/-- one loop body (the generated `o`) for path `p` -/
def applyBody (t : Branch C) (pfx p : Path) (label : String) (e : Eff) (s : St C) : Option (St C) :=
  if e.label = label then
    match s.2 with
    | none => none                      -- `updated` used before it was made
    | some u => let a := update t (pfx ++ p) u; some (s.1 ++ a.1, some a.2)
  else none

def runBody (t : Branch C) (pfx p : Path) (label : String) : List Eff → St C → Option (St C)
  | [], s => some s
  | e :: es, s => (applyBody t pfx p label e s).bind (runBody t pfx p label es)

def loopOver (t : Branch C) (pfx : Path) (label : String) (o : Outcome) : List Path → St C → Option (St C)
  | [], s => some s
  | p :: ps, s =>
    (if o.ret = .fall then runBody t pfx p label o.effects s else none).bind (loopOver t pfx label o ps)

def updLabel : String := "m.UpdateOnce(v, append(prefix, path.ToStrings(u.Path, false)...), updated)"
def delLabel : String := "m.UpdateOnce(v, append(prefix, path.ToStrings(d, false)...), updated)"

def applyEff (t : Branch C) (pfx : Path) (n : Noti) (e : Eff) (s : St C) : Option (St C) :=
  if e.label = "updated := make(map[match.Client]struct { })" then some (s.1, some (some []))
  else if e.label = "for _, u := range n.Update { }" then loopOver t pfx updLabel gen_UpdateNotificationUpd n.upd s
  else if e.label = "for _, d := range n.Delete { }" then loopOver t pfx delLabel gen_UpdateNotificationDel n.del s
  else none

def run (t : Branch C) (pfx : Path) (n : Noti) : List Eff → St C → Option (St C)
  | [], s => some s
  | e :: es, s => (applyEff t pfx n e s).bind (run t pfx n es)

theorem updateMany_append (t : Branch C) (l1 l2 : List Path) (u : Option (List C)) :
    updateMany t (l1 ++ l2) u =
      ((updateMany t l1 u).1 ++ (updateMany t l2 (updateMany t l1 u).2).1, (updateMany t l2 (updateMany t l1 u).2).2) := by
  induction l1 generalizing u with
  | nil => simp [updateMany]
  | cons p ps ih => simp [updateMany, ih, List.append_assoc]

theorem loopOver_eq (t : Branch C) (pfx : Path) (label : String) (l : List Path) (out : List C) (u : Option (List C)) :
    loopOver t pfx label (Gen.eff label [] (Gen.ret .fall)) l (out, some u) =
      some (out ++ (updateMany t (l.map (fun p => pfx ++ p)) u).1, some (updateMany t (l.map (fun p => pfx ++ p)) u).2) := by
  induction l generalizing out u with
  | nil => simp [loopOver, updateMany]
  | cons p ps ih =>
    simp [loopOver, runBody, applyBody, ih, updateMany, List.append_assoc]

/-- **`UpdateNotification`**: the clients invoked are those of `Match.updateNotification` -/
theorem tie_notification (t : Branch C) (pfx : Path) (n : Noti) :
    (run t pfx n gen_UpdateNotification.effects ([], none)).map (·.1) = some (updateNotification t pfx n) ∧
    gen_UpdateNotification.ret = .fall := by
  refine ⟨?_, rfl⟩
  have h1 := loopOver_eq t pfx updLabel n.upd [] (some [])
  have h2 : ∀ out u, loopOver t pfx delLabel gen_UpdateNotificationDel n.del (out, some u) = _ :=
    fun out u => loopOver_eq t pfx delLabel n.del out u
  unfold gen_UpdateNotification
  simp only [eff_effects, ret_effects, run, applyEff, String.reduceEq, ite_true, ite_false, Option.bind]
  have e1 : gen_UpdateNotificationUpd = Gen.eff updLabel [] (Gen.ret .fall) := rfl
  rw [e1, h1]
  simp only [h2, updateNotification, List.map_append, updateMany_append, List.nil_append, Option.map]

/-- **`Server.Update`** = `Match.serverUpdate` -/
theorem tie_update (t : Branch C) (v : Option Noti) :
    (match v with
     | some n =>
        if (gen_serverUpdate (n_Value_type_eq_pb_Notification := true)).labels
            = ["UpdateNotification(s.m, n, v, path.ToStrings(v.Prefix, true))"] then
          some (updateNotification t (toStrings n.pfx true) n) else none
     | none =>
        if (gen_serverUpdate (n_Value_type_eq_pb_Notification := false)).labels = [] then some [] else none)
      = some (serverUpdate t v) := by
  unfold gen_serverUpdate serverUpdate
  cases v <;> simp

end Gnmi.GenProps.SubscribeUpdate
