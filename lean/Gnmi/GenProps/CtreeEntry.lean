import Gnmi.Gen.CtreeQuery
import Gnmi.Gen.CtreeWalkDeleted
import Gnmi.Gen.CtreeDeleteConditional
import Gnmi.Gen.CtreeDelete
import Gnmi.Model.CTree
/-!
# Obligations: the entry points `(*Tree).Query`, `WalkDeleted`, `DeleteConditional`, `Delete` as the
source has them now hand their path argument *unchanged* to the recursion the model follows
(`Trie.query`, `Trie.del`)  (C09; C02 through `gnmiRemove` → `WalkDeleted`)

Regenerated from `ctree/tree.go` on every check run.  `Query` is one call of `queryInternal(nil,
path, f)`; `WalkDeleted` / `DeleteConditional` take the write lock, return at once on an empty tree,
else run `internalDelete(path, condition, …, root = true)` once and clear the root when it says so;
`Delete` is `DeleteConditional` with the always-true condition.  A statement that rewrites the path
first (`c09_seed7`: trailing globs trimmed in `Query`; `c02_seed8`: `trimGlobs` in the delete
entries) is an additional effect the interpreters do not know.

Atoms ↦ model terms: `t.leafBranch == nil` ↦ `t = .empty` (`Trie.isEmpty t`); `delBr` ↦ the
recursion reports the root is to be removed: `Trie.isEmpty (Trie.del c t path).1`.
-/
set_option linter.unusedSimpArgs false
set_option linter.unusedVariables false
namespace Gnmi.GenProps.CtreeEntry
open Gnmi.Gen Gnmi.Trie

variable {V : Type}

/-- **Query**: the recursion starts at the root with the empty prefix and the caller's path -/
theorem tie_query (t : Trie V) (path : Path) :
    (if gen_ctreeQuery.labels = ["t.queryInternal(nil, path, f)"] ∧
        gen_ctreeQuery.ret = .label "t.queryInternal(nil, path, f)" then some (query t path) else none)
      = some (query t path) := by
  simp [gen_ctreeQuery]

/-- tree, removed leaves, lock held -/
structure St (V : Type) where
  t : Trie V
  removed : List (Path × V) := []
  locked : Bool := false

def applyDel (c : V → Bool) (path : Path) (e : Eff) (s : St V) : Option (St V) :=
  if e.label = "defer t.mu.Unlock()" then some s
  else if e.label = "t.mu.Lock()" then some { s with locked := true }
  else if e.label = "delBr, _ := t.internalDelete(path, condition, f, false, true)" ∨
      e.label = "delBr, leaves := t.internalDelete(subpath, condition, func(interface { }) { }, true, true)" then
    if s.locked then
      let r := del c s.t path
      -- a node the recursion empties is unlinked by its parent; the root has none: it keeps what it
      -- holds until the caller clears it (`t.leafBranch = nil` below)
      some { s with t := if isEmpty r.1 then s.t else r.1, removed := r.2 }
    else none
  else if e.label = "t.leafBranch = nil" then (if s.locked then some { s with t := .empty } else none)
  else none

def runDel (c : V → Bool) (path : Path) : List Eff → St V → Option (St V)
  | [], s => some s
  | e :: es, s => (applyDel c path e s).bind (runDel c path es)

def execDel (c : V → Bool) (path : Path) (t : Trie V) (o : Outcome) : Option (Trie V × List (Path × V)) :=
  (runDel c path o.effects { t := t }).map (fun s => (s.t, s.removed))

theorem del_empty (c : V → Bool) (path : Path) : del c (.empty : Trie V) path = (.empty, []) := by
  cases path <;> simp [del]

theorem isEmpty_iff (t : Trie V) : isEmpty t = true ↔ t = .empty := by
  cases t <;> simp [isEmpty]

/-- **WalkDeleted** = `Trie.del` on the caller's path -/
theorem tie_walkDeleted (c : V → Bool) (path : Path) (t : Trie V) :
    execDel c path t (gen_ctreeWalkDeleted (t_leafBranch_eq_nil := isEmpty t) (delBr := isEmpty (del c t path).1))
      = some (del c t path) := by
  unfold gen_ctreeWalkDeleted
  cases ht : isEmpty t
  · cases hd : isEmpty (del c t path).1
    · simp [execDel, runDel, applyDel, hd]
    · have := (isEmpty_iff _).1 hd
      simp [execDel, runDel, applyDel]
      exact Prod.ext this.symm rfl
  · have := (isEmpty_iff _).1 ht
    subst this
    simp [execDel, runDel, applyDel, del_empty]

/-- **DeleteConditional** = `Trie.del` on the caller's path; the removed leaves are returned -/
theorem tie_deleteConditional (c : V → Bool) (path : Path) (t : Trie V) :
    execDel c path t (gen_ctreeDeleteConditional (t_leafBranch_eq_nil := isEmpty t) (delBr := isEmpty (del c t path).1))
      = some (del c t path) ∧
    (isEmpty t = false →
      (gen_ctreeDeleteConditional (t_leafBranch_eq_nil := isEmpty t) (delBr := isEmpty (del c t path).1)).ret = .label "leaves") := by
  unfold gen_ctreeDeleteConditional
  cases ht : isEmpty t
  · cases hd : isEmpty (del c t path).1
    · simp [execDel, runDel, applyDel, hd]
    · have := (isEmpty_iff _).1 hd
      simp [execDel, runDel, applyDel]
      exact Prod.ext this.symm rfl
  · have := (isEmpty_iff _).1 ht
    subst this
    simp [execDel, runDel, applyDel, del_empty]

/-- **Delete** is `DeleteConditional` with the caller's path and the condition `always` -/
theorem tie_delete :
    gen_ctreeDelete = Gen.eff "t.DeleteConditional(subpath, always)" [] (Gen.ret (.label "t.DeleteConditional(subpath, always)")) := rfl

/-- non-vacuity: deleting the only leaf clears the root -/
example : execDel (fun (_ : Nat) => true) ["a"] (.branch [("a", .leaf 1)])
    (gen_ctreeWalkDeleted (t_leafBranch_eq_nil := false) (delBr := true)) = some (.empty, [(["a"], 1)]) := by
  simp [execDel, runDel, applyDel, gen_ctreeWalkDeleted, del, delOne, delAll, endsHere, isEmpty, mkBranch, pre]

end Gnmi.GenProps.CtreeEntry
