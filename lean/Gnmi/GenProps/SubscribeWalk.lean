import Gnmi.Gen.SubscribeProcess
import Gnmi.Gen.SubscribeProcessPath
import Gnmi.Gen.SubscribeProcessLeaf
import Gnmi.Gen.SubscribeProcessDeferred
import Gnmi.Model.Subscribe
/-!
# Obligation: `(*Server).processSubscription` as the source has it now = `Sub.walkItems` /
`Sub.doWalk`  (C04, C05, C06; C14 for "the error of `Query` is ignored")

Regenerated from `subscribe/subscribe.go` on every check run, four regions:

* `gen_processSubscription` — the function body: the deferred error report, the `updates_only`
  test, the loop over the subscriptions (one effect labelled by its header, followed by the test
  `returned(…)`: did the function return from inside the loop), the sync marker;
* `gen_processSubscriptionPath` — the loop body: `path.CompletePath` (an error returns), then
  `s.c.Query(c.target, fullPath, ƒ)` *as a statement* (its result is dropped: `c14_seed3` assigns it
  to `err`), then the test of the `err` the visitor may have set;
* `gen_processSubscriptionLeaf` — the visitor `ƒ`: an earlier insert error stops the walk, else
  `c.queue.Insert(l)`;
* `gen_processSubscriptionDeferred` — the deferred closure: a non-nil `err` is sent on `c.errC`.

There is no other statement in the loop body: every subscription path is completed and queried
(`c05_seed2`'s textual-prefix skip adds a labelled `continue`, which the translator refuses).

The interpreters run the effects on the subscriber's queue.  `Queue.Insert` cannot fail during the
walk in the sequential model (the queue is closed only after the walk, by the same goroutine), so
the atoms about `err` after an insert are `true` (= nil).

Atoms ↦ model terms: `c.sr.GetSubscribe().GetUpdatesOnly()` ↦ `r.updatesOnly`; `err == nil` (after
`CompletePath`) ↦ `(completePath r s).isSome`; `err·2 == nil` (after `Query`), `err == nil` (in the
visitor) ↦ `true`; `returned(for …)` ↦ what the interpreted loop says.
-/
set_option linter.unusedSimpArgs false
set_option linter.unusedVariables false
namespace Gnmi.GenProps.SubscribeWalk
open Gnmi.Gen Gnmi.Sub

abbrev Q := List (Item × Nat)
abbrev Found := String × Path × Cache.Noti

/-! ## the visitor -/

def applyLeaf (it : Found) (e : Eff) (q : Q) : Option Q :=
  if e.label = "_, err = c.queue.Insert(l)" then some (insertHandle q it.1 it.2.1 it.2.2) else none

def runLeaf (it : Found) : List Eff → Q → Option Q
  | [], q => some q
  | e :: es, q => (applyLeaf it e q).bind (runLeaf it es)

/-- one call of the visitor (it returns `nil`: the query goes on) -/
def leafStep (q : Q) (it : Found) : Option Q :=
  let o := gen_processSubscriptionLeaf (err_eq_nil := true)
  (runLeaf it o.effects q).bind (fun q' => if o.ret = .nil then some q' else none)

def ins (q : Q) (it : Found) : Q := insertHandle q it.1 it.2.1 it.2.2

def leaves : List Found → Q → Option Q
  | [], q => some q
  | it :: rest, q => (leafStep q it).bind (leaves rest)

theorem leaves_eq (l : List Found) (q : Q) :
    leaves l q = some (l.foldl ins q) := by
  induction l generalizing q with
  | nil => rfl
  | cons it rest ih =>
    simp [leaves, leafStep, gen_processSubscriptionLeaf, runLeaf, applyLeaf, ih, ins]

/-! ## the loop body -/

/-- state of one iteration: the queue and the completed path (once `CompletePath` ran) -/
def applyPath (c : Cache.State) (r : Req) (s : SubPath) (e : Eff) (st : Q × Option Path) :
    Option (Q × Option Path) :=
  if e.label = "fullPath, err = path.CompletePath(c.sr.GetSubscribe().GetPrefix(), subscription.GetPath())" then
    some (st.1, completePath r s)
  else if e.label = "s.c.Query(c.target, fullPath, ƒ)" then
    match st.2 with
    | none => none                                  -- queried without a completed path
    | some full =>
      match c.query r.target full with
      | none => some st                             -- the error of `Query` is dropped
      | some found => (leaves found st.1).map (fun q => (q, st.2))
  else none

def runPath (c : Cache.State) (r : Req) (s : SubPath) : List Eff → Q × Option Path → Option (Q × Option Path)
  | [], st => some st
  | e :: es, st => (applyPath c r s e st).bind (runPath c r s es)

/-- one iteration: the queue afterwards and whether the function returned -/
def pathStep (c : Cache.State) (r : Req) (q : Q) (s : SubPath) : Option (Q × Bool) :=
  let o := gen_processSubscriptionPath (err_eq_nil := (completePath r s).isSome) (err_v2_eq_nil := true)
  (runPath c r s o.effects (q, none)).bind (fun st =>
    if o.ret = .nil then some (st.1, true) else if o.ret = .fall then some (st.1, false) else none)

def loop (c : Cache.State) (r : Req) : List SubPath → Q → Option (Q × Bool)
  | [], q => some (q, false)
  | s :: rest, q =>
    (pathStep c r q s).bind (fun x => if x.2 then some x else loop c r rest x.1)

/-- the model's per-path step -/
def walkStep (c : Cache.State) (r : Req) (acc : Option (List Found)) (s : SubPath) : Option (List Found) :=
  match acc with
  | none => none
  | some items =>
    match completePath r s with
    | none => none
    | some full =>
      match c.query r.target full with
      | none => some items
      | some found => some (items ++ found)

theorem foldl_walkStep_none (c : Cache.State) (r : Req) (l : List SubPath) :
    l.foldl (walkStep c r) none = none := by
  induction l with
  | nil => rfl
  | cons s rest ih => simpa [List.foldl, walkStep] using ih

/-- the generated loop against the model's fold -/
theorem loop_eq (c : Cache.State) (r : Req) (l : List SubPath) (items : List Found) (q0 : Q) :
    match l.foldl (walkStep c r) (some items) with
    | some items' => loop c r l (items.foldl ins q0) = some (items'.foldl ins q0, false)
    | none => ∃ q', loop c r l (items.foldl ins q0) = some (q', true) := by
  induction l generalizing items with
  | nil => simp [loop]
  | cons s rest ih =>
    simp only [List.foldl, loop, pathStep, gen_processSubscriptionPath]
    cases hcp : completePath r s with
    | none =>
      simp [walkStep, hcp, foldl_walkStep_none, runPath, applyPath]
    | some full =>
      cases hq : c.query r.target full with
      | none =>
        have := ih items
        simp [walkStep, hcp, hq, runPath, applyPath]
        simpa [walkStep, hcp, hq] using this
      | some found =>
        have := ih (items ++ found)
        simp [walkStep, hcp, hq, runPath, applyPath, leaves_eq]
        simpa [walkStep, hcp, hq, List.foldl_append] using this

/-! ## the function body -/

def loopLabel : String := "for _, subscription := range c.sr.GetSubscribe().Subscription { }"

def applyProc (c : Cache.State) (r : Req) (e : Eff) (q : Q) : Option Q :=
  if e.label = "defer ƒ()" then some q                  -- the report: `gen_processSubscriptionDeferred`
  else if e.label = loopLabel then (loop c r r.subs q).map (·.1)
  else if e.label = "_, err = c.queue.Insert(syncMarker{})" then some (insertSync q)
  else none

def runProc (c : Cache.State) (r : Req) : List Eff → Q → Option Q
  | [], q => some q
  | e :: es, q => (applyProc c r e q).bind (runProc c r es)

/-- did the interpreted loop return from the function -/
def loopReturned (c : Cache.State) (r : Req) (q : Q) : Bool :=
  match loop c r r.subs q with
  | some (_, b) => b
  | none => false

/-- the walk on the subscriber: queue afterwards, and whether it ended by an early return (with
`err` set: the deferred report ends the RPC) -/
def exec (c : Cache.State) (s : Subscriber) : Option (Q × Bool) :=
  let o := gen_processSubscription (c_sr_GetSubscribe_GetUpdatesOnly := s.req.updatesOnly)
    (returned_for_subscription_range_c_sr_GetSubscribe_Subscripti :=
      !s.req.updatesOnly && loopReturned c s.req s.queue)
  (runProc c s.req o.effects s.queue).bind (fun q =>
    if o.ret = .fall then some (q, false) else if o.ret = .label "return in loop" then some (q, true) else none)

theorem walkItems_eq (c : Cache.State) (r : Req) :
    walkItems c r = if r.updatesOnly then some [] else r.subs.foldl (walkStep c r) (some []) := by
  unfold walkItems
  split
  · rfl
  · congr

/-- **the walk succeeded**: every path completed and queried in order, every leaf found inserted,
then the sync marker — the queue of `Sub.doWalk` -/
theorem tie_walk (c : Cache.State) (s : Subscriber) (items : List Found) (h : walkItems c s.req = some items) :
    exec c s = some ((doWalk c s).queue, false) := by
  have hd : (doWalk c s).queue = insertSync (items.foldl ins s.queue) := by
    simp only [doWalk, h]; rfl
  rw [hd]
  rw [walkItems_eq] at h
  unfold exec gen_processSubscription
  cases hu : s.req.updatesOnly
  · simp only [hu, Bool.false_eq_true, ite_false] at h
    have hl := loop_eq c s.req s.req.subs [] s.queue
    simp only [h, List.foldl_nil] at hl
    simp [runProc, applyProc, loopLabel, loopReturned, hl]
  · simp only [hu, ite_true, Option.some.injEq] at h
    subst h
    simp [runProc, applyProc, loopLabel]

/-- **the walk failed** (`CompletePath` error): the function returns from inside the loop, no sync
marker is queued (`Sub.doWalk`: the subscriber ends with a non-status error) -/
theorem tie_walk_error (c : Cache.State) (s : Subscriber) (h : walkItems c s.req = none) :
    ∃ q, exec c s = some (q, true) ∧ (doWalk c s).alive = false := by
  have hd : (doWalk c s).alive = false := by simp [doWalk, h]
  rw [walkItems_eq] at h
  unfold exec gen_processSubscription
  cases hu : s.req.updatesOnly
  · simp only [hu, Bool.false_eq_true, ite_false] at h
    have hl := loop_eq c s.req s.req.subs [] s.queue
    simp only [h, List.foldl_nil] at hl
    obtain ⟨q', hq'⟩ := hl
    exact ⟨q', by simp [runProc, applyProc, loopLabel, loopReturned, hq'], hd⟩
  · simp [hu] at h

/-- **the deferred report**: a non-nil `err` is sent on `c.errC`, nothing otherwise -/
theorem tie_report (errNil : Bool) :
    (gen_processSubscriptionDeferred (err_eq_nil := errNil)).labels = (if errNil then [] else ["c.errC <- err"]) := by
  unfold gen_processSubscriptionDeferred
  cases errNil <;> rfl

/-- the visitor stops inserting after an insert error (the error is handed back to `Query`) -/
theorem leaf_stops_on_error :
    (gen_processSubscriptionLeaf (err_eq_nil := false)) = Gen.ret (.label "err") := by
  unfold gen_processSubscriptionLeaf; rfl

/-- non-vacuity of `tie_walk`: a cache with one target holding one leaf, a subscriber asking for it -/
def exCache : Cache.State :=
  { targets := [("t", { name := "t", tree := [(["a"], { ts := 1, target := "t", upd := [{ path := ["a"] }] })] })] }

example : walkItems exCache { target := "t", subs := [{ path := ["a"] }] }
    = some [("t", ["a"], { ts := 1, target := "t", upd := [{ path := ["a"] }] })] := by
  rfl

end Gnmi.GenProps.SubscribeWalk
