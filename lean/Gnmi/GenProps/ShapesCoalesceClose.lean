import Gnmi.Gen.CoalesceClose
/-!
# Obligations (shape): `Queue.Close` (coalesce/coalesce.go): the channel is closed at most once, under the lock  (C11)

Regenerated on every check run.  Characterisations over all atoms of what the hand-written models assume
of these functions (not equalities with a model definition: the models take these facts as the shape of
their transitions).
-/
set_option linter.unusedSimpArgs false
set_option linter.unusedVariables false
namespace Gnmi.GenProps.ShapesCoalesceClose
open Gnmi.Gen

/-- **Close**: under the lock, the channel is closed iff it is not closed yet -/
theorem tie_coalesce_close (closed : Bool) :
    (gen_coalesceClose (ready_recv_q_closed := closed)).labels =
      ["defer q.Unlock()", "q.Lock()"] ++ (if closed then [] else ["close(q.closed)"]) := by
  unfold gen_coalesceClose; cases closed <;> simp [Gen.Outcome.labels]

end Gnmi.GenProps.ShapesCoalesceClose
