import Gnmi.Gen.CoalesceInsert
import Gnmi.Gen.CoalesceInsertLocked
import Gnmi.Gen.CoalesceNextLocked
import Gnmi.Model.Coalesce
/-!
# Obligations: `(*Queue).Insert`, `(*Queue).insert`, `(*Queue).next` as the source has them now =
`Coalesce.insert`, `Coalesce.insertLocked`, `Coalesce.nextLocked`  (C11, C08)

`Gnmi.Gen.gen_coalesceInsert` / `gen_coalesceInsertLocked` / `gen_coalesceNextLocked` are regenerated
from `coalesce/coalesce.go` on every check run.  Their effects, run on the model's queue, and
their results are the model's operations.

Atoms ↦ model terms:

| atom                      | model term                                                          |
|---------------------------|---------------------------------------------------------------------|
| `ready(<-q.closed)`       | `q.closed`                                                          |
| `ok` (of `Insert`)        | the result of the call `q.insert(i)`: `(insertLocked q i).2`        |
| `ok(q.coalesced[i])`      | `(q.coalesced.lookup i).isSome` (the comma-ok map read)             |
| `q.coalesced[i]`          | `cnt q i` (the value read; Go: zero when absent)                    |
| `len(q.queue)`            | `q.queue.length`                                                    |
| `len(q.queue[1:])`        | `(q.queue.drop 1).length`                                           |

The duplicate counter is a `uint32` in Go, the translator computes `+ 1` as a wrapping machine
integer, the model counts in `Nat`: the obligation assumes the incremented counter is in range
(the stated input restriction of `Model/Coalesce.lean`; `Gnmi.C11.counter_bound`).

In `next` the translator substitutes the locals `i := q.queue[0]` and `coalesced := q.coalesced[i]`
by the expressions they were bound to (closed at the binding: the values *before* the statements
that follow): the label of the `delete` and of the result list name `q.queue[0]`, the head of the
queue as it was on entry, which the interpreter below passes as `hd`.
-/
set_option linter.unusedSimpArgs false
set_option linter.unusedVariables false
namespace Gnmi.GenProps.Coalesce
open Gnmi.Gen Gnmi.Coalesce

variable {Item : Type} [DecidableEq Item]

/-! ## `insert` (the locked section) -/

/-- queue, `q.Mutex` held, unlock deferred; a write outside the critical section is refused -/
abbrev LQ (Item : Type) := Q Item × Bool × Bool

def applyIns (i : Item) (e : Eff) (s : LQ Item) : Option (LQ Item) :=
  let q := s.1
  if e.label = "defer q.Unlock()" then some (q, s.2.1, true)
  else if e.label = "q.Lock()" then some (q, true, s.2.2)
  else if e.label = "q.coalesced[i] = _" then
    (if s.2.1 then some ({ q with coalesced := q.coalesced.set i (e.args.headD 0).toNat }, s.2) else none)
  else if e.label = "q.queue = append(q.queue, i)" then
    (if s.2.1 then some ({ q with queue := q.queue ++ [i] }, s.2) else none)
  else none

def runIns (i : Item) : List Eff → LQ Item → Option (LQ Item)
  | [], s => some s
  | e :: es, s => (applyIns i e s).bind (runIns i es)

def execIns (i : Item) (q : Q Item) (o : Outcome) : Option (Q Item × Bool) :=
  (runIns i o.effects (q, false, false)).bind (fun s =>
    match o.ret with
    | .bool b => if s.2.1 && s.2.2 then some (s.1, b) else none     -- locked, and unlocked on return
    | _ => none)

/-- **insert**: coalesce-or-append with the duplicate count, as `Coalesce.insertLocked` -/
theorem tie_insertLocked (q : Q Item) (i : Item) (hc : inI64 ((cnt q i : Int) + 1)) :
    execIns i q (gen_coalesceInsertLocked (ok_q_coalesced_i := (q.coalesced.lookup i).isSome)
        (q_coalesced_i := cnt q i))
      = some (insertLocked q i) := by
  unfold gen_coalesceInsertLocked insertLocked
  rw [wrap64_id hc]
  unfold cnt
  cases h : q.coalesced.lookup i with
  | none => simp [execIns, runIns, applyIns]
  | some c =>
    simp [execIns, runIns, applyIns]

/-! ## `Insert` -/

def applyInsert (i : Item) (e : Eff) (q : Q Item) : Option (Q Item) :=
  if e.label = "ok := q.insert(i)" then some (insertLocked q i).1
  else if e.label = "select { case q.inserted <- struct { }{}: default: }" then some (postToken q)
  else none

def runInsert (i : Item) : List Eff → Q Item → Option (Q Item)
  | [], q => some q
  | e :: es, q => (applyInsert i e q).bind (runInsert i es)

/-- the result list: `false, errClosedQueue` or `ok, nil` (`ok`: what `q.insert(i)` returned) -/
def resInsert (ok : Bool) (v : Gen.Val) : Option InsRes :=
  if v = .label "false, errClosedQueue" then some .refused
  else if v = .label "ok, nil" then some (.ok ok)
  else none

def execInsert (i : Item) (q : Q Item) (o : Outcome) : Option (Q Item × InsRes) :=
  (runInsert i o.effects q).bind (fun q' => (resInsert (insertLocked q i).2 o.ret).map (fun r => (q', r)))

/-- **Insert**: closed test first, then the locked insert, the token posted exactly when the item
is new, as `Coalesce.insert` -/
theorem tie_insert (q : Q Item) (i : Item) :
    execInsert i q (gen_coalesceInsert (ok := (insertLocked q i).2) (ready_recv_q_closed := q.closed))
      = some (Coalesce.insert q i) := by
  unfold gen_coalesceInsert Coalesce.insert
  cases hcl : q.closed <;> cases hok : (insertLocked q i).2 <;>
    simp [execInsert, runInsert, applyInsert, resInsert, hok]

/-! ## `next` (the locked section) -/

/-- `hd`: the head of the queue on entry (what `q.queue[0]` denotes in the labels) -/
def applyNext (hd : Item) (e : Eff) (s : LQ Item) : Option (LQ Item) :=
  let q := s.1
  let wr (q' : Q Item) : Option (LQ Item) := if s.2.1 then some (q', s.2) else none
  if e.label = "defer q.Unlock()" then some (q, s.2.1, true)
  else if e.label = "q.Lock()" then some (q, true, s.2.2)
  else if e.label = "q.queue[0] = nil" then wr q                  -- the slot is dropped by the next statement
  else if e.label = "q.queue = q.queue[1:]" then wr { q with queue := q.queue.drop 1 }
  else if e.label = "delete(q.coalesced, q.queue[0])" then wr { q with coalesced := q.coalesced.erase hd }
  else if e.label = "q.queue = nil" then wr { q with queue := [] }
  else if e.label = "q.coalesced = make(map[interface { }]uint32)" then wr { q with coalesced := [] }
  else none

def runNext (hd : Item) : List Eff → LQ Item → Option (LQ Item)
  | [], s => some s
  | e :: es, s => (applyNext hd e s).bind (runNext hd es)

/-- the result list, read in the state on entry -/
def resNext (q0 : Q Item) (v : Gen.Val) : Option (Option (Item × Nat)) :=
  if v = .label "nil, 0, false" then some none
  else if v = .label "q.queue[0], q.coalesced[q.queue[0]], true" then
    q0.queue.head?.map (fun hd => some (hd, cnt q0 hd))
  else none

/-- for an empty queue there is no head to name: any `hd` will do, nothing is written -/
def execNext (q : Q Item) (o : Outcome) : Option (Q Item × Option (Item × Nat)) :=
  let go (hd : Item) := (runNext hd o.effects (q, false, false)).bind (fun s =>
    if s.2.1 && s.2.2 then (resNext q o.ret).map (fun r => (s.1, r)) else none)
  match q.queue.head? with
  | some hd => go hd
  | none =>
    if o.effects.all (fun e => e.label = "defer q.Unlock()" ∨ e.label = "q.Lock()") ∧ o.effects.length = 2 then
      (resNext q o.ret).map (fun r => (q, r))
    else none

/-- **next**: dequeue, the count read before the map entry is deleted, the reset of an emptied
queue, as `Coalesce.nextLocked` -/
theorem tie_nextLocked (q : Q Item) :
    execNext q (gen_coalesceNextLocked (len_q_queue := q.queue.length) (len_q_queue_1 := (q.queue.drop 1).length))
      = some (nextLocked q) := by
  unfold gen_coalesceNextLocked nextLocked
  obtain ⟨queue, co, tok, cl⟩ := q
  cases queue with
  | nil => simp [execNext, resNext]
  | cons hd rest =>
    cases rest with
    | nil => simp [execNext, resNext, runNext, applyNext]
    | cons b r =>
      have h1 : ¬ ((r.length : Int) + 1 = 0) := by omega
      have h2 : ¬ ((r.length : Int) + 1 + 1 = 0) := by omega
      have h1' : ¬ (0 = (r.length : Int) + 1) := by omega
      have h2' : ¬ (0 = (r.length : Int) + 1 + 1) := by omega
      simp [execNext, resNext, runNext, applyNext, h1, h2, h1', h2']

/-- non-vacuity: a pending item coalesces -/
example : execIns 7 { queue := [7], coalesced := [(7, 2)] }
    (gen_coalesceInsertLocked (ok_q_coalesced_i := true) (q_coalesced_i := 2))
      = some ({ queue := [7], coalesced := [(7, 3)] }, false) := by decide

end Gnmi.GenProps.Coalesce
