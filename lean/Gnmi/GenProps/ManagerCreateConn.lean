import Gnmi.GenProps.ManagerMonitor
import Gnmi.Model.ManagerHops
/-!
# Obligation: the hand-written `createConn` loop of `Model/ManagerHops.lean` = the loop body
regenerated from `manager.go` (`Gen/ManagerCreateConnLoop.lean`), folded over the next hops

`GenProps/ManagerMonitor.lean` proves what one regenerated iteration does (`tie_hop`: a done context
returns the context error before anything is acquired; otherwise `Connection` is called once and
the iteration returns exactly when `err == nil`) and folds it over a list of per-hop answers
(`ManagerMonitor.createConn`).  Here the function `Hops.loop` / `Hops.createConn` — the one the `mh`
driver executes and `Props/C13Hops.lean` is about — is proved to compute that fold: same number of
handles acquired, same success / error verdict, for every iteration order, outcome script, context
script and `m.timeout`; and the `defer cancel()` of the timeout context is in the regenerated body
exactly when `m.timeout > 0` (the `defers` of the model).
-/
set_option linter.unusedSimpArgs false
namespace Gnmi.GenProps.ManagerCreateConn
open Gnmi.Gen Gnmi.Manager.Hops

/-- what the regenerated loop body is asked per hop: is the context done at its `select`, does
`Connection` return `err == nil` -/
def perHop (tmo : Bool) (out : String → HopOut) (ctxDone : Nat → Bool) : Nat → List String → List (Bool × Bool)
  | _, [] => []
  | k, h :: r => (ctxDone k, decide (hopRes tmo (out h) = .connected)) :: perHop tmo out ctxDone (k + 1) r

theorem acquiredIn_append_fail (calls : List (String × HopRes)) (h : String) {res : HopRes}
    (hr : res ≠ .connected) : acquiredIn (calls ++ [(h, res)]) = acquiredIn calls := by
  simp [acquiredIn, List.filter_append, hr]

theorem acquiredIn_append_ok (calls : List (String × HopRes)) (h : String) :
    acquiredIn (calls ++ [(h, .connected)]) = acquiredIn calls + 1 := by
  simp [acquiredIn, List.filter_append]

/-- **the loop** of the model is the regenerated iteration folded over the hops: handles acquired
from here on, and whether `createConn` returns `err == nil` -/
theorem tie_loop (timeout : Int) (out : String → HopOut) (ctxDone : Nat → Bool) (hops : List String)
    (calls : List (String × HopRes)) (defers : List Nat) :
    ManagerMonitor.createConn timeout (perHop (decide (0 < timeout)) out ctxDone calls.length hops) =
      some (acquiredIn (loop (decide (0 < timeout)) out ctxDone hops calls defers).calls - acquiredIn calls,
            (loop (decide (0 < timeout)) out ctxDone hops calls defers).ret.isConn) := by
  induction hops generalizing calls defers with
  | nil =>
    simp only [perHop, ManagerMonitor.createConn, loop]
    cases calls.getLast? with
    | none => simp [Ret.isConn]
    | some p => simp [Ret.isConn]
  | cons h r ih =>
    simp only [perHop, ManagerMonitor.createConn, ManagerMonitor.tie_hop]
    cases hd : ctxDone calls.length
    · by_cases hk : hopRes (decide (0 < timeout)) (out h) = .connected
      · simp [loop, hd, hk, Ret.isConn, acquiredIn_append_ok]
      · have hl : loop (decide (0 < timeout)) out ctxDone (h :: r) calls defers =
            loop (decide (0 < timeout)) out ctxDone r (calls ++ [(h, hopRes (decide (0 < timeout)) (out h))])
              (if decide (0 < timeout) = true then calls.length :: defers else defers) := by
          cases hres : hopRes (decide (0 < timeout)) (out h) <;> simp_all [loop]
        have := ih (calls ++ [(h, hopRes (decide (0 < timeout)) (out h))])
          (if decide (0 < timeout) = true then calls.length :: defers else defers)
        simp only [List.length_append, List.length_cons, List.length_nil, Nat.zero_add] at this
        rw [hl]
        simp [hk, this, acquiredIn_append_fail calls h hk]
    · simp [loop, hd, Ret.isConn]

/-- **`createConn`** of the model = the regenerated loop over `uniqueNextHops` in any iteration
order: it acquires exactly the handles, and reports success exactly when, the source's loop does -/
theorem tie_createConn (timeout : Int) (hops : List String) (out : String → HopOut) (ctxDone : Nat → Bool)
    (hne : hops ≠ []) :
    ManagerMonitor.createConn timeout (perHop (decide (0 < timeout)) out ctxDone 0 hops) =
      some ((createConn (decide (0 < timeout)) hops out ctxDone).acquired,
            (createConn (decide (0 < timeout)) hops out ctxDone).ret.isConn) := by
  have := tie_loop timeout out ctxDone hops [] []
  unfold createConn Out.acquired
  rw [if_neg hne]
  simpa [acquiredIn] using this

/-- **the timeout context**: the regenerated body creates a timeout context and defers its
`cancel()` — once, before the `Connection` call — exactly when `m.timeout > 0` and the context is
not done (the model's `defers`: one entry per call iff `tmo`); the `Connection` call itself is made
exactly once when the context is not done, never when it is. -/
theorem tie_defer (timeout : Int) (ctxDone errNil : Bool) :
    let ls := (gen_createConnIteration (err_eq_nil := errNil) (m_timeout := timeout)
      (ready_recv_ctx_Done := ctxDone)).labels
    ls.count "defer cancel()" = (if !ctxDone && decide (0 < timeout) then 1 else 0) ∧
    ls.count "conn, done, err = m.connectionManager.Connection(connCtx, nh, t.GetDialer())" =
      (if ctxDone then 0 else 1) ∧
    (ls.contains "defer cancel()" = true →
      ls.getLast? = some "conn, done, err = m.connectionManager.Connection(connCtx, nh, t.GetDialer())") := by
  unfold gen_createConnIteration
  cases ctxDone <;> cases errNil <;> by_cases h : 0 < timeout <;> simp [Outcome.labels, h]

/-- non-vacuity: three hops, the first refuses, the second is slower than the timeout, the third
answers -/
example : ManagerMonitor.createConn 5 (perHop true
    (fun h => if h = "a" then .fail else if h = "b" then .slow else .ok) (fun _ => false) 0 ["a", "b", "c"]) =
    some (1, true) := by decide

end Gnmi.GenProps.ManagerCreateConn
