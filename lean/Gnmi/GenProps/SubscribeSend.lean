import Gnmi.Gen.SubscribeSendResponse
import Gnmi.Model.Subscribe
/-!
# Obligations: `(*Server).sendSubscribeResponse` as the source has it now = the `Sub.denied` test of
the sender loop `Sub.pump` (C07), and its timer discipline (C08)

Regenerated from `subscribe/subscribe.go` on every check run.  Atoms: `err == nil` ↦ `true` (the
leaf holds a notification: `MakeSubscribeResponse` succeeds);
`notification.GetUpdate().GetPrefix() == nil` ↦ `(respTarget r).isNone`; `c.acl.Check(prefix
target)` ↦ `a.check t`; `s.o.flowControlTest == nil` ↦ any.
-/
set_option linter.unusedSimpArgs false
set_option linter.unusedVariables false
namespace Gnmi.GenProps.SubscribeSend
open Gnmi.Gen Gnmi.Sub

/-! ## `sendSubscribeResponse` -/

def aclAtom (a : Acl) (r : Resp) : Bool :=
  match respTarget r with
  | some t => a.check t
  | none => false

/-- **ACL before send**: the response goes out on the stream exactly when the model's `denied`
test lets it through; a denied one is dropped with a `nil` return and *no* effect at all after
the response was built — in particular the send timer is never armed for it -/
theorem tie_send (a : Acl) (r : Resp) (fc : Bool) :
    let o := gen_sendSubscribeResponse
      (c_acl_Check_notification_GetUpdate_GetPrefix_GetTarget := aclAtom a r) (err_eq_nil := true)
      (notification_GetUpdate_GetPrefix_eq_nil := (respTarget r).isNone) (s_o_flowControlTest_eq_nil := fc)
    (o.labels.contains "r.stream.Send(notification)" = !denied a r) ∧
    (denied a r = true →
      o = Gen.eff "notification, err := s.MakeSubscribeResponse(r.n.Value(), r.dup)" [] (Gen.ret .nil)) := by
  unfold gen_sendSubscribeResponse denied aclAtom
  cases respTarget r with
  | none => cases fc <;> simp
  | some t => cases h : a.check t <;> cases fc <;> simp [h]

/-- **timer discipline**: on every path the timer is armed (`r.t.Reset`) only immediately before
the send sequence, its disarming is deferred right away, and nothing is sent without it -/
theorem tie_timer (chk e pn fc : Bool) :
    let l := (gen_sendSubscribeResponse
      (c_acl_Check_notification_GetUpdate_GetPrefix_GetTarget := chk) (err_eq_nil := e)
      (notification_GetUpdate_GetPrefix_eq_nil := pn) (s_o_flowControlTest_eq_nil := fc)).labels
    l = ["notification, err := s.MakeSubscribeResponse(r.n.Value(), r.dup)"] ∨
    l = ["notification, err := s.MakeSubscribeResponse(r.n.Value(), r.dup)", "r.t.Reset(s.o.timeout)",
         "defer r.t.Stop()", "r.stream.Send(notification)"] ∨
    l = ["notification, err := s.MakeSubscribeResponse(r.n.Value(), r.dup)", "r.t.Reset(s.o.timeout)",
         "defer r.t.Stop()", "s.o.flowControlTest()", "r.stream.Send(notification)"] := by
  unfold gen_sendSubscribeResponse
  cases chk <;> cases e <;> cases pn <;> cases fc <;> simp

end Gnmi.GenProps.SubscribeSend
