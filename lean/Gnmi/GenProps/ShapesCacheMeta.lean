import Gnmi.Gen.CacheTargetSync
import Gnmi.Gen.CacheTargetConnect
import Gnmi.Gen.CacheTargetUpdateMeta
/-!
# Obligations (shape): `Target.Sync` / `Connect` / `updateMeta` (cache/cache.go): `Sync` is one meta update `sync = true`; `Connect` is `connected = true` then the delete of `connectError`; `updateMeta` reads `t.ts` under `tsmu` and writes `latestTimestamp` before `UpdateReset`  (C14)

Regenerated on every check run.  Characterisations over all atoms of what the hand-written models assume
of these functions (not equalities with a model definition: the models take these facts as the shape of
their transitions).
-/
set_option linter.unusedSimpArgs false
set_option linter.unusedVariables false
namespace Gnmi.GenProps.ShapesCacheMeta
open Gnmi.Gen

/-- **Sync / Connect / updateMeta** -/
theorem tie_cache_meta :
    gen_targetSync.labels = ["err := t.GnmiUpdate(metaNotiBool(t.name, metadata.Sync, true))"] ∧
    gen_targetConnect.labels = ["err := t.GnmiUpdate(metaNotiBool(t.name, metadata.Connected, true))",
      "err := t.GnmiUpdate(deleteNoti(t.name, \"\", metadata.Path(metadata.ConnectError)))"] ∧
    gen_targetUpdateMeta.labels = ["t.tsmu.Lock()", "t.tsmu.Unlock()",
      "t.meta.SetInt(metadata.LatestTimestamp, latest.UnixNano())", "t.lat.UpdateReset(t.meta)",
      "t.generateMetaUpdates(clients)"] := ⟨rfl, rfl, rfl⟩

end Gnmi.GenProps.ShapesCacheMeta
