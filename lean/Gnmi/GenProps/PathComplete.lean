import Gnmi.Gen.PathCompletePath
import Gnmi.Model.PathConv
/-!
# Obligation: `path.CompletePath` as the source has it now = `PV.completePath`  (C19)

Regenerated from `path/path.go` on every check run.  Atoms ↦ model terms: `prefix.GetOrigin()` ↦
`getOrigin pfx`, `path.GetOrigin()` ↦ `getOrigin path`, `len(ToStrings(prefix, false))` ↦
`(toStrings pfx false).length`.  The three non-error results are read from the (substituted) text of
the result list.  Equality, for all prefixes and paths.
-/
set_option linter.unusedSimpArgs false
set_option linter.unusedVariables false
namespace Gnmi.GenProps.PathComplete
open Gnmi.Gen Gnmi.PV

/-- the value a result list of `CompletePath` denotes -/
def read (pfx path : Option GPath) (o : Gen.Outcome) : Option (Option (List String)) :=
  if o.effects ≠ [] then none
  else if o.ret = .error then some none
  else if o.ret = .label "append(append(append(nil, prefix.GetOrigin()), ToStrings(prefix, false)...), ToStrings(path, false)...), nil" then
    some (some ((getOrigin pfx :: toStrings pfx false) ++ toStrings path false))
  else if o.ret = .label "append(append(nil, path.GetOrigin()), ToStrings(path, false)...), nil" then
    some (some ([getOrigin path] ++ toStrings path false))
  else if o.ret = .label "append(append(nil, ToStrings(prefix, false)...), ToStrings(path, false)...), nil" then
    some (some (toStrings pfx false ++ toStrings path false))
  else none

def ofExcept : Except PathErr (List String) → Option (List String)
  | .ok l => some l
  | .error _ => none

/-- **CompletePath** = `PV.completePath` (which arm errs, and what the others return) -/
theorem tie (pfx path : Option GPath) :
    read pfx path (gen_CompletePath (len_ToStrings_prefix_false := ((toStrings pfx false).length : Int))
      (path_GetOrigin := getOrigin path) (prefix_GetOrigin := getOrigin pfx)) = some (ofExcept (completePath pfx path)) := by
  unfold gen_CompletePath completePath
  by_cases h1 : getOrigin pfx = "" <;> by_cases h2 : getOrigin path = "" <;>
    by_cases h3 : (toStrings pfx false).length > 0 <;> simp [read, ofExcept, h1, h2, h3] <;> omega

end Gnmi.GenProps.PathComplete
