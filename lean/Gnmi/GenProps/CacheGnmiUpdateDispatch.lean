import Gnmi.Gen.CacheGnmiUpdateDispatch
import Gnmi.Model.Cache
/-!
# Obligation: the dispatch `switch` of `(*Target).GnmiUpdate` as the source has it now =
`Cache.Target.dispatch`

`Gnmi.Gen.gen_GnmiUpdateDispatch` is regenerated from `cache/cache.go` on every check run: the
arm conditions (atomic / more than one update+delete / one update / one delete / empty) in their
order, and per arm the calls in their order with the counter increments (`EmptyCount`,
`UpdateCount` by `int64(l)` resp. `1`), the early error returns and `updateTS = true`.

The two loops of the multi arm and the loop over `gnmiRemove`'s result are *uninterpreted
statements*: they appear as effects labelled with their normalised source text, which `applyEff`
maps to the model's `multiUpdates` / `multiDeletes` / `gnmiRemove1` (so the obligation breaks when
their text changes; their decision logic is what the other obligations and the correspondence tie).

Atoms ↦ model terms: `n.Atomic` ↦ `n.atomic`; `len(n.GetUpdate())`, `len(n.GetDelete())` ↦ the
list lengths; `err == nil`, `nd == nil` ↦ about the result `r` of the (one) call `t.gnmiUpdate(n)`
= `Target.gnmiUpdate1 cfg now t n`: `!r.1.isErr`, `r.2.2.isNone`.
-/
set_option linter.unusedSimpArgs false
set_option linter.unusedVariables false
namespace Gnmi.GenProps.CacheGnmiUpdateDispatch
open Gnmi.Gen Gnmi.Cache

/-- interpreter state: the accumulator of the model's multi arm (its `anyOk` is `updateTS`) plus
the leaf returned by the last `t.gnmiUpdate` -/
structure St where
  acc : MultiAcc
  nd : Option Noti := none

def loopUpdates : String := "for _, u := range updates { noti := proto.Clone(n).(*pb.Notification) noti.Update = []*pb.Update{u} nd, err := t.gnmiUpdate(noti) if err != nil { errs.Add(err) continue } updateTS = true if nd != nil { t.meta.AddInt(metadata.UpdateCount, 1) t.client(nd) } }"
def loopDeletes : String := "for _, d := range deletes { noti := proto.Clone(n).(*pb.Notification) noti.Delete = []*pb.Path{d} t.meta.AddInt(metadata.UpdateCount, 1) for _, nd := range t.gnmiRemove(noti) { t.client(nd) } }"

def bumpUpdated (a : MultiAcc) (k : Int) : MultiAcc :=
  { a with t := { a.t with md := { a.t.md with updated := a.t.md.updated + k } } }

def applyEff (cfg : Cfg) (now : Int) (n : Noti) (e : Eff) (s : St) : Option St :=
  let hdr : Noti := { n with upd := [], del := [] }
  if e.label = "nd, err := t.gnmiUpdate(n)" then
    let r := Target.gnmiUpdate1 cfg now s.acc.t n
    some { acc := { s.acc with t := r.2.1 }, nd := r.2.2 }
  else if e.label = "updateTS = true" then some { s with acc := { s.acc with anyOk := true } }
  else if e.label = "t.meta.AddInt(metadata.UpdateCount, 1)" ∨ e.label = "t.meta.AddInt(metadata.UpdateCount, int64(l))" then
    some { s with acc := bumpUpdated s.acc (e.args.headD 0) }
  else if e.label = "t.meta.AddInt(metadata.EmptyCount, 1)" then
    some { s with acc := { s.acc with t := { s.acc.t with md := { s.acc.t.md with empty := s.acc.t.md.empty + e.args.headD 0 } } } }
  else if e.label = "t.client(nd)" then
    s.nd.map (fun nd => { s with acc := { s.acc with evs := s.acc.evs ++ [[Event.upd nd]] } })
  else if e.label = "n.Update, n.Delete = nil, nil" then some s          -- the header `hdr` of the loops
  else if e.label = "defer func() { n.Update = updates n.Delete = deletes }()" then some s
  else if e.label = loopUpdates then some { s with acc := multiUpdates cfg now hdr n.upd s.acc }
  else if e.label = loopDeletes then some { s with acc := multiDeletes hdr n.del s.acc }
  else if e.label = "for _, nd := range t.gnmiRemove(n) { t.client(nd) }" then
    let r := Target.gnmiRemove1 s.acc.t n
    some { s with acc := { s.acc with t := r.1, panicked := r.2.2,
                                      evs := if r.2.2 || r.2.1.isEmpty then s.acc.evs else s.acc.evs ++ [r.2.1] } }
  else none

def run (cfg : Cfg) (now : Int) (n : Noti) : List Eff → St → Option St
  | [], s => some s
  | e :: es, s => (applyEff cfg now n e s).bind (run cfg now n es)

/-- what `GnmiUpdate` returns (`r1`: the class of the error `t.gnmiUpdate(n)` returned) -/
def finish (r1 : Res) (v : Gen.Val) (a : MultiAcc) : Option (Res × Target × List (List Event) × Bool) :=
  if a.panicked then some (.panic, a.t, a.evs, false)
  else if v = .error then some (.err, a.t, a.evs, a.anyOk)
  else if v = .label "err" then some (r1, a.t, a.evs, a.anyOk)
  else if v = .nil then some (.ok, a.t, a.evs, a.anyOk)
  else if v = .label "errs.Err()" then some ((if a.anyErr then .err else .ok), a.t, a.evs, a.anyOk)
  else none

def exec (cfg : Cfg) (now : Int) (t : Target) (n : Noti) (o : Outcome) :
    Option (Res × Target × List (List Event) × Bool) :=
  (run cfg now n o.effects { acc := { t := t } }).bind
    (fun s => finish (Target.gnmiUpdate1 cfg now t n).1 o.ret s.acc)

/-- **dispatch**: the switch of the source, run on the model's state, is `Target.dispatch` -/
theorem tie (cfg : Cfg) (now : Int) (t : Target) (n : Noti)
    (hlen : (n.upd.length : Int) + n.del.length ≤ 9223372036854775807) :
    exec cfg now t n (gen_GnmiUpdateDispatch (n_Atomic := n.atomic)
        (len_n_GetUpdate := n.upd.length) (len_n_GetDelete := n.del.length)
        (err_eq_nil := !(Target.gnmiUpdate1 cfg now t n).1.isErr)
        (nd_eq_nil := (Target.gnmiUpdate1 cfg now t n).2.2.isNone))
      = some (Target.dispatch cfg now t n) := by
  have hw1 : wrap64 ((n.upd.length : Int) + n.del.length) = (n.upd.length : Int) + n.del.length := by
    apply wrap64_id; unfold inI64; omega
  have hw2 : wrap64 ((n.del.length : Int) + n.upd.length) = (n.del.length : Int) + n.upd.length := by
    apply wrap64_id; unfold inI64; omega
  unfold exec gen_GnmiUpdateDispatch Target.dispatch singleArm
  simp only [hw1, hw2]
  clear hw1 hw2
  generalize hr : Target.gnmiUpdate1 cfg now t n = r
  obtain ⟨r1, t', nd⟩ := r
  obtain ⟨ts, tg, og, pfx, praw, atomic, upd, del⟩ := n
  simp only [] at hlen ⊢
  cases atomic <;> rcases upd with _ | ⟨u, _ | ⟨u2, us⟩⟩ <;> rcases del with _ | ⟨d, _ | ⟨d2, ds⟩⟩ <;>
    simp only [List.length_cons, List.length_nil, List.isEmpty_cons, List.isEmpty_nil, Bool.not_true, Bool.not_false,
      Bool.false_eq_true, ite_true, ite_false, decide_eq_true_eq, Bool.not_eq_true', decide_eq_false_iff_not,
      Bool.and_eq_true, Bool.or_eq_true] at hlen ⊢ <;>
    (try simp (disch := omega) only [if_pos, if_neg]) <;>
    simp [run, applyEff, finish, bumpUpdated, loopUpdates, loopDeletes, hr]
  all_goals first
    | (cases r1 <;> cases nd <;> simp [run, applyEff, finish, bumpUpdated, Res.isErr, hr]; done)
    | (split <;> rfl)
    | (split <;> simp_all; done)
    | skip

end Gnmi.GenProps.CacheGnmiUpdateDispatch
