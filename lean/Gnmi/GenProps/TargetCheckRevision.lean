import Gnmi.Gen.TargetCheckRevision
import Gnmi.Model.TargetCfg
/-!
# Obligation: `(*Config).checkRevision` as the source has it now = the model's revision gate

`Gnmi.Gen.gen_checkRevision` is regenerated from `target/target.go` on every check run
(`go/vtrans`); this module proves that, for every current configuration and every offered
configuration whose revisions are `int64` values, it returns `nil` exactly when
`TargetCfg.checkRevision` (the definition the C17 theorems are about) accepts.

Atoms: `c.configuration == nil` ↦ `cur.isNone`; `cf.Revision` ↦ `cf.revision`;
`c.configuration.GetRevision()` ↦ the current revision (`0` on a nil receiver, as the generated
getter returns; it is not looked at on that path).
-/
set_option linter.unusedSimpArgs false
set_option linter.unusedVariables false
namespace Gnmi.GenProps.TargetCheckRevision
open Gnmi.Gen

/-- `c.configuration.GetRevision()` -/
def curRevision (cur : Option TargetCfg.Cfg) : Int :=
  match cur with
  | some c => c.revision
  | none => 0

theorem tie (cur : Option TargetCfg.Cfg) (cf : TargetCfg.Cfg)
    (_hcf : inI64 cf.revision) (hcur : inI64 (curRevision cur)) :
    ((gen_checkRevision (c_configuration_eq_nil := cur.isNone)
        (c_configuration_GetRevision := curRevision cur) (cf_Revision := cf.revision)).ret = Val.nil
      ↔ TargetCfg.checkRevision cur cf = true) := by
  unfold gen_checkRevision TargetCfg.checkRevision curRevision inI64 at *
  cases cur <;> simp_all <;> repeat (first | omega | split | simp_all)

end Gnmi.GenProps.TargetCheckRevision
