import Gnmi.Gen.CacheCheckTimestamp
import Gnmi.Gen.CacheGnmiUpdateTrack
import Gnmi.Gen.CacheGnmiUpdateDeferred
import Gnmi.Model.Cache
/-!
# Obligations: `(*Target).checkTimestamp` and the deferred timestamp tracking of
`(*Target).GnmiUpdate` as the source has them now = `Cache.Target.checkTimestamp`,
`Cache.tracksTimestamp?` and the last line of `Cache.Target.gnmiUpdate`  (C02, C15)

Regenerated from `cache/cache.go` on every check run:

* `gen_checkTimestamp`: `defer t.tsmu.Unlock()`, `t.tsmu.Lock()`, then the comparison
  `ts.After(t.ts)` and the store `t.ts = ts` — one critical section (`c02_seed7` splits it into a
  locked read and a locked write);
* `gen_GnmiUpdateTrack` (the statements of `GnmiUpdate` before its dispatch switch): when the
  deferred tracking closure is installed — there is an update, and the joined path of the first
  update (of the prefix alone for an atomic notification) is non-empty and does not start with
  `metadata.Root`;
* `gen_GnmiUpdateDeferred` (the body of that closure): `t.checkTimestamp(T(ts))` exactly when
  `updateTS` was set, i.e. when an update was accepted (`c15_seed7`: `err == nil` instead).

Atoms ↦ model terms: `ts.After(t.ts)` ↦ `after t.latest ts` (`none` is the zero `time.Time`, before
every instant `T(int64)` can denote); `len(n.GetUpdate())` ↦ `n.upd.length`; `n.GetAtomic()` ↦
`n.atomic`; for the joined key `k` of the first update (`updKey? n u = some k`; `none` is the
panic of `p[1:]` inside `joinPrefixAndPath`, outside the generated definition):
`len(joinPrefixAndPath(…))` ↦ `k.length`, `joinPrefixAndPath(…)[0] == metadata.Root` ↦
`k.head? == some metaRoot`; `updateTS` ↦ the flag `Target.dispatch` returns.
-/
set_option linter.unusedSimpArgs false
set_option linter.unusedVariables false
namespace Gnmi.GenProps.CacheTimestamp
open Gnmi.Gen Gnmi.Cache

/-! ## `checkTimestamp` -/

/-- `ts.After(t.ts)` -/
def after (latest : Option Int) (ts : Int) : Bool :=
  match latest with
  | none => true
  | some l => decide (ts > l)

/-- target and whether `t.tsmu` is held -/
def applyCheck (ts : Int) (e : Eff) (s : Target × Bool) : Option (Target × Bool) :=
  if e.label = "defer t.tsmu.Unlock()" then some s                       -- released on return
  else if e.label = "t.tsmu.Lock()" then some (s.1, true)
  else if e.label = "t.ts = ts" then (if s.2 then some ({ s.1 with latest := some ts }, s.2) else none)
  else none

def runCheck (ts : Int) : List Eff → Target × Bool → Option (Target × Bool)
  | [], s => some s
  | e :: es, s => (applyCheck ts e s).bind (runCheck ts es)

/-- the lock is taken before anything else happens (so the comparison is inside the section) -/
def lockedFirst (o : Outcome) : Bool :=
  match o.labels with
  | a :: b :: _ => (a == "defer t.tsmu.Unlock()" && b == "t.tsmu.Lock()") || (a == "t.tsmu.Lock()" && b == "defer t.tsmu.Unlock()")
  | _ => false

/-- **`checkTimestamp`**: under `t.tsmu`, the latest timestamp moves forward only -/
theorem tie_checkTimestamp (t : Target) (ts : Int) :
    (runCheck ts (gen_checkTimestamp (ts_After_t_ts := after t.latest ts)).effects (t, false)).map (·.1)
      = some (t.checkTimestamp ts) ∧
    lockedFirst (gen_checkTimestamp (ts_After_t_ts := after t.latest ts)) = true := by
  unfold gen_checkTimestamp Target.checkTimestamp after
  cases h : t.latest with
  | none => simp [runCheck, applyCheck, lockedFirst, Outcome.labels]
  | some l =>
    by_cases hl : ts > l <;> simp [runCheck, applyCheck, lockedFirst, Outcome.labels, hl]

/-! ## when the tracking is installed, and what it does -/

def trackLabel : String := "defer ƒ(n.GetTimestamp())"      -- ƒ: the closure `gen_GnmiUpdateDeferred`

/-- the region installs the deferred tracking (and does nothing else, and falls through to the switch) -/
def installs (o : Outcome) : Option Bool :=
  if o.ret = .fall then
    (if o.labels = [trackLabel] then some true else if o.labels = [] then some false else none)
  else none

/-- **installed exactly when `tracksTimestamp?` says so** (`k`: the joined key of the first update;
the atoms of the arm not taken — atomic / not atomic — are arbitrary) -/
theorem tie_track (n : Noti) (tracks : Bool) (h : tracksTimestamp? n = some tracks)
    (k : Path) (hk : ∀ u rest, n.upd = u :: rest → updKey? n u = some k)
    (lenOther : Int) (rootOther : Bool) :
    installs (if n.atomic then
        gen_GnmiUpdateTrack (len_n_GetUpdate := n.upd.length) (n_GetAtomic := n.atomic)
          (len_joinPrefixAndPath_n_GetPrefix_nil := k.length)
          (joinPrefixAndPath_n_GetPrefix_nil_0_eq_metadata_Root := (k.head? == some metaRoot))
          (len_joinPrefixAndPath_n_GetPrefix_n_GetUpdate_0_GetPath := lenOther)
          (joinPrefixAndPath_n_GetPrefix_n_GetUpdate_0_GetPath_0_eq_met := rootOther)
      else
        gen_GnmiUpdateTrack (len_n_GetUpdate := n.upd.length) (n_GetAtomic := n.atomic)
          (len_joinPrefixAndPath_n_GetPrefix_nil := lenOther)
          (joinPrefixAndPath_n_GetPrefix_nil_0_eq_metadata_Root := rootOther)
          (len_joinPrefixAndPath_n_GetPrefix_n_GetUpdate_0_GetPath := k.length)
          (joinPrefixAndPath_n_GetPrefix_n_GetUpdate_0_GetPath_0_eq_met := (k.head? == some metaRoot)))
      = some tracks := by
  unfold gen_GnmiUpdateTrack
  unfold tracksTimestamp? at h
  cases hu : n.upd with
  | nil =>
    rw [hu] at h
    cases hat : n.atomic <;> simp_all [installs, Outcome.labels]
  | cons u rest =>
    have hk' := hk u rest hu
    rw [hu] at h
    simp only [hk'] at h
    have hpos : (0 : Int) < ((u :: rest).length : Int) := by simp
    cases k with
    | nil =>
      cases hat : n.atomic <;> simp_all [installs, Outcome.labels, trackLabel]
    | cons a r =>
      have hl : (0 : Int) < ((a :: r).length : Int) := by simp
      simp only [Option.some.injEq] at h
      subst h
      have hne : (a != metaRoot) = !(a == metaRoot) := rfl
      cases hat : n.atomic <;> cases ha : a == metaRoot <;>
        simp_all [installs, Outcome.labels, trackLabel]

def applyDeferred (ts : Int) (e : Eff) (t : Target) : Option Target :=
  if e.label = "t.checkTimestamp(T(ts))" then some (t.checkTimestamp ts) else none

def runDeferred (ts : Int) : List Eff → Target → Option Target
  | [], t => some t
  | e :: es, t => (applyDeferred ts e t).bind (runDeferred ts es)

/-- **the deferred closure** tracks the timestamp exactly when `updateTS` is set -/
theorem tie_deferred (t : Target) (ts : Int) (updateTS : Bool) :
    runDeferred ts (gen_GnmiUpdateDeferred (updateTS := updateTS)).effects t
      = some (if updateTS then t.checkTimestamp ts else t) := by
  unfold gen_GnmiUpdateDeferred
  cases updateTS <;> simp [runDeferred, applyDeferred]

/-- **`Target.GnmiUpdate` = the dispatch switch, then the installed closure**: the prologue, the
closure and `Target.dispatch` (tied by `GenProps.CacheGnmiUpdateDispatch.tie`) compose to the
model's `Target.gnmiUpdate` -/
theorem tie_gnmiUpdate (cfg : Cfg) (now : Int) (t : Target) (n : Noti) (tracks : Bool)
    (h : tracksTimestamp? n = some tracks) :
    let r := t.dispatch cfg now n
    (if tracks then runDeferred n.ts (gen_GnmiUpdateDeferred (updateTS := r.2.2.2)).effects r.2.1 else some r.2.1)
      = some (t.gnmiUpdate cfg now n).2.1 := by
  simp only [Target.gnmiUpdate, h, tie_deferred]
  cases tracks <;> cases (t.dispatch cfg now n).2.2.2 <;> simp

/-- non-vacuity: a data update (key `["a"]`) installs the tracking, a `meta` update does not -/
example : installs (gen_GnmiUpdateTrack (len_n_GetUpdate := 1) (n_GetAtomic := false)
    (len_joinPrefixAndPath_n_GetPrefix_nil := 0) (joinPrefixAndPath_n_GetPrefix_nil_0_eq_metadata_Root := false)
    (len_joinPrefixAndPath_n_GetPrefix_n_GetUpdate_0_GetPath := 1)
    (joinPrefixAndPath_n_GetPrefix_n_GetUpdate_0_GetPath_0_eq_met := false)) = some true := by decide

end Gnmi.GenProps.CacheTimestamp
