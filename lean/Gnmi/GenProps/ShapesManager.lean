import Gnmi.Gen.ManagerAdd
import Gnmi.Gen.ManagerRemove
import Gnmi.Gen.ManagerReconnect
import Gnmi.Gen.ManagerSubscribe
import Gnmi.Gen.ManagerCustomizeRequest
/-!
# Obligations (shape): `Manager.Add` / `Remove` / `Reconnect` / `subscribe` (manager/manager.go): the target map is written only under `m.mu`; `Add` refuses an empty name, a nil request, a known name, no addresses and only then registers and starts `retryMonitor`; `Remove` cancels, waits for `finished`, then deletes; `Reconnect` calls and clears `t.reconnect` under `t.mu` iff set; `subscribe` reaches `handleUpdates` only after the stream opened and the request was sent  (C13, C16)

Regenerated on every check run.  Characterisations over all atoms of what the hand-written models assume
of these functions (not equalities with a model definition: the models take these facts as the shape of
their transitions).
-/
set_option linter.unusedSimpArgs false
set_option linter.unusedVariables false
namespace Gnmi.GenProps.ShapesManager
open Gnmi.Gen

/-- **Add**: registration (map write, then the monitor goroutine) happens iff all four checks pass, and
then under the lock -/
theorem tie_add (n : Int) (name : String) (known srNil : Bool) :
    gen_managerAdd (len_t_GetAddresses := n) (name := name) (ok_m_targets_name := known) (sr_eq_nil := srNil) =
      if name = "" ∨ srNil = true then Gen.ret .error
      else Gen.eff "defer m.mu.Unlock()" [] (Gen.eff "m.mu.Lock()" []
        (if known = true ∨ n = 0 then Gen.ret .error
         else Gen.eff "m.targets[name] = ta" [] (Gen.eff "go m.retryMonitor(ctx, ta)" [] (Gen.ret .nil)))) := by
  unfold gen_managerAdd
  by_cases h1 : name = "" <;> cases srNil <;> cases known <;> by_cases h2 : n = 0 <;> simp [h1, h2]

/-- **Remove**: unknown → error, nothing touched; known → cancel, wait for `finished`, delete -/
theorem tie_remove (known : Bool) :
    (gen_managerRemove (ok_m_targets_name := known)).labels =
      ["m.mu.Lock()", "defer m.mu.Unlock()"] ++
        (if known then ["t.cancel()", "<-t.finished", "delete(m.targets, name)"] else []) ∧
    ((gen_managerRemove (ok_m_targets_name := known)).ret = .error ↔ known = false) := by
  unfold gen_managerRemove; cases known <;> simp [Gen.Outcome.labels]

/-- **Reconnect**: the lookup under `m.mu`; the reconnect function called and cleared under `t.mu`
iff set; `m.mu` is not held across it -/
theorem tie_reconnect (recNil known : Bool) :
    (gen_managerReconnect (m_targets_name_reconnect_eq_nil := recNil) (ok_m_targets_name := known)).labels =
      ["m.mu.Lock()", "m.mu.Unlock()"] ++
        (if known then
          ["t.mu.Lock()"] ++ (if recNil then [] else ["t.reconnect()", "t.reconnect = nil"]) ++ ["t.mu.Unlock()"]
         else []) := by
  unfold gen_managerReconnect; cases recNil <;> cases known <;> simp [Gen.Outcome.labels]

/-- **subscribe**: `handleUpdates` runs iff the context is live, the stream opened and the request
was sent; every failure is an error, success is nil -/
theorem tie_subscribe (a b c d : Bool) :
    let o := gen_managerSubscribe (err_eq_nil := a) (err_v2_eq_nil := b) (err_v3_eq_nil := c) (ready_recv_ctx_Done := d)
    ("err = m.handleUpdates(ctx, ta, sc)" ∈ o.labels ↔ (d = false ∧ a = true ∧ b = true)) ∧
    (o.ret = .nil ↔ (d = false ∧ a = true ∧ b = true ∧ c = true)) := by
  unfold gen_managerSubscribe; cases a <;> cases b <;> cases c <;> cases d <;> simp [Gen.Outcome.labels]

/-- **customizeRequest**: the target is written into the *clone* only (the caller's request is never
written), into the existing prefix when there is one, else into a fresh prefix; a request without a
subscription list is cloned unchanged -/
theorem tie_customize (noSub noPrefix : Bool) :
    let o := gen_customizeRequest (proto_Clone_sr_gpb_SubscribeRequest_GetSubscribe_eq_nil := noSub)
      (proto_Clone_sr_gpb_SubscribeRequest_GetSubscribe_GetPrefix_e := noPrefix)
    o.ret = .label "proto.Clone(sr).(*gpb.SubscribeRequest)" ∧
    o.labels = (if noSub then []
      else if noPrefix then ["proto.Clone(sr).(*gpb.SubscribeRequest).GetSubscribe().Prefix = &gpb.Path{Target: target}"]
      else ["proto.Clone(sr).(*gpb.SubscribeRequest).GetSubscribe().GetPrefix().Target = target"]) := by
  unfold gen_customizeRequest; cases noSub <;> cases noPrefix <;> simp [Gen.Outcome.labels]

end Gnmi.GenProps.ShapesManager
