import Gnmi.Gen.SubscribeMakeResponse
import Gnmi.Model.Subscribe
/-!
# Obligation: `(*Server).MakeSubscribeResponse` as the source has it now: the duplicate count is
written to a *deep clone*, never to the cached notification; it is the count `Sub.toResp` carries
(C08, C05)

`Gnmi.Gen.gen_MakeSubscribeResponse` is regenerated from `subscribe/subscribe.go` on every check
run.  The translator substitutes the local `notification`, so the label of the one assignment to
non-local state names its target as the code computes it:
`proto.Clone(n.(*pb.Notification)).(*pb.Notification).Update[0].Duplicates` — a field of the clone.
A shallow copy (`c05_seed8`, `c08_seed`: a new `Notification` sharing the `*pb.Update` elements) or
no copy at all gives another target text and the obligation fails.

Atoms ↦ model terms: `ok(n.(*pb.Notification))` ↦ the queued item holds a notification (all of
`Sub.Item`'s do, the sync marker is handled before); `s.o.noDupReport` ↦ `false` (the model is
about a server that reports duplicates; with the option set nothing is written: `no_report`);
`dup` ↦ the coalesced count of the queue entry; `len(n.(*pb.Notification).Update)` ↦ `n.upd.length`.
`dup` is a `uint32`: in range of the translator's machine integers.
-/
set_option linter.unusedSimpArgs false
set_option linter.unusedVariables false
namespace Gnmi.GenProps.SubscribeMakeResponse
open Gnmi.Gen Gnmi.Sub

def cloneWrite : String := "proto.Clone(n.(*pb.Notification)).(*pb.Notification).Update[0].Duplicates = _"

/-- what the region writes: `none` = a write the model does not know (in particular any write to
the shared, cached message); `some d` = the count in the response (`0`: the proto default) -/
def dupWritten (o : Outcome) : Option Int :=
  match o.effects with
  | [] => some 0
  | [e] => if e.label = cloneWrite then e.args.head? else none
  | _ => none

/-- the duplicate count a response carries -/
def respDup : Resp → Nat
  | .upd _ d => d
  | .del _ _ _ _ d => d
  | .sync => 0

/-- **the count of the queue entry reaches the response of a notification that has an update, and
only a clone is written** -/
theorem tie_dup (target : String) (key : Path) (n : Cache.Noti) (d : Nat) (hu : n.upd ≠ []) :
    dupWritten (gen_MakeSubscribeResponse (dup := d) (len_n_pb_Notification_Update := n.upd.length)
        (ok_n_pb_Notification := true) (s_o_noDupReport := false))
      = some (respDup (toResp (.handle target key n, d)) : Int) := by
  unfold gen_MakeSubscribeResponse
  have hl : (0 : Int) < (n.upd.length : Int) := by
    cases h : n.upd with
    | nil => exact absurd h hu
    | cons a l => simp
  cases d with
  | zero => simp [dupWritten, toResp, respDup]
  | succ k =>
    have : (0 : Int) < ((k + 1 : Nat) : Int) := by omega
    have hl' : 0 < n.upd.length := by omega
    simp [dupWritten, toResp, respDup, cloneWrite, hl, hl', this]

/-- whatever the atoms: the response is built (`ok`) or the call fails with `codes.Internal`
(`!ok`), and nothing but the clone is ever written -/
theorem only_clone_written (d len : Int) (ok noRep : Bool) :
    let o := gen_MakeSubscribeResponse (dup := d) (len_n_pb_Notification_Update := len)
        (ok_n_pb_Notification := ok) (s_o_noDupReport := noRep)
    (∀ e ∈ o.effects, e.label = cloneWrite ∧ e.args = [d]) ∧
    (o.ret = .label "status(codes.Internal)" ↔ ok = false) ∧
    (o.effects ≠ [] ↔ (ok = true ∧ noRep = false ∧ 0 < d ∧ 0 < len)) := by
  unfold gen_MakeSubscribeResponse
  cases ok <;> cases noRep <;> by_cases h1 : 0 < d <;> by_cases h2 : 0 < len <;>
    simp [h1, h2, cloneWrite]

/-- with `noDupReport` nothing is written -/
theorem no_report (d len : Int) (ok : Bool) :
    (gen_MakeSubscribeResponse (dup := d) (len_n_pb_Notification_Update := len)
        (ok_n_pb_Notification := ok) (s_o_noDupReport := true)).effects = [] := by
  unfold gen_MakeSubscribeResponse
  cases ok <;> simp

/-- non-vacuity of `tie_dup`: one update, three coalesced duplicates: `3` is written to the clone -/
example : dupWritten (gen_MakeSubscribeResponse (dup := 3) (len_n_pb_Notification_Update := 1)
    (ok_n_pb_Notification := true) (s_o_noDupReport := false)) = some 3 := by decide

end Gnmi.GenProps.SubscribeMakeResponse
