import Gnmi.Gen.SubscribeHandler
import Gnmi.Model.Subscribe
/-!
# Obligation: the *rejections* of `(*Server).Subscribe` after the first `Recv`, as the source has
them now = those of `Sub.subscribe` (C07: a single-target subscription the ACL denies is refused
before anything is set up; C04/C05: which requests are refused, with which status)

`Gnmi.Gen.gen_Subscribe` is regenerated from `subscribe/subscribe.go` on every check run.  This
module looks only at *how the region returns*: for every request, whenever the source returns a
status, `Sub.subscribe` ends the RPC with that status (and the other way round: whenever it goes on
to `return <-errC`, the model sets the subscription up).  What is set up, and in which order, is
`SubscribeHandler`.  Atoms ↦ model terms: see `SubscribeHandler`.
-/
set_option linter.unusedSimpArgs false
set_option linter.unusedVariables false
namespace Gnmi.GenProps.SubscribeReject
open Gnmi.Gen Gnmi.Sub

/-- the status a returned value stands for (`none`: not a rejection) -/
def codeOf (v : Gen.Val) : Option Code :=
  if v = .nil then some .ok
  else if v = .label "status(codes.InvalidArgument)" then some .invalidArgument
  else if v = .label "status(codes.NotFound)" then some .notFound
  else if v = .label "status(codes.PermissionDenied)" then some .permissionDenied
  else none

def ended (st : State) (id : String) (acl : Acl) (c : Code) : State :=
  { st with subs := st.subs ++ [{ id := id, req := {}, acl := acl, alive := false, status := some c }] }

/-- `Sub.subscribe` on a first request, its checks as one chain (the ACL could be created) -/
theorem subscribe_eq (st : State) (id : String) (acl : Acl) (hacl : ∀ (h : acl = .fails), False) (r : Req) :
    subscribe st id acl (some r) =
      (if !r.hasSubscribe then ended st id acl .invalidArgument
      else if r.prefixNil then ended st id acl .invalidArgument
      else if r.target = "" then ended st id acl .invalidArgument
      else if !st.cache.hasTarget r.target then ended st id acl .notFound
      else if r.target ≠ "*" ∧ !acl.check r.target then ended st id acl .permissionDenied
      else
        let s : Subscriber := newSubscriber (st.pregated.contains id) id r acl
        match r.mode with
        | .once =>
          let s := doWalk st.cache s
          let s := if s.alive then { s with closed := true } else s
          { st with subs := st.subs ++ [pumpAll s] }
        | .poll => { st with subs := st.subs ++ [pumpAll (doWalk st.cache s)] }
        | .stream =>
          let s := if r.updatesOnly then { s with queue := insertSync s.queue } else s
          let s := { s with regs := regQueries r }
          let s := if r.updatesOnly then s else doWalk st.cache s
          { st with subs := st.subs ++ [pumpAll s] }
        | .other => ended st id acl .invalidArgument) := by
  unfold subscribe ended
  cases acl <;> first | exact absurd rfl (fun h => hacl h) | rfl

/-- the status `Sub.subscribe` refuses a first request with (`none`: it is accepted) -/
def rejection (st : State) (acl : Acl) (r : Req) : Option Code :=
  if !r.hasSubscribe then some .invalidArgument
  else if r.prefixNil then some .invalidArgument
  else if r.target = "" then some .invalidArgument
  else if !st.cache.hasTarget r.target then some .notFound
  else if r.target ≠ "*" ∧ !acl.check r.target then some .permissionDenied
  else if r.mode = .other then some .invalidArgument
  else none

/-- `rejection` is what `Sub.subscribe` does -/
theorem rejection_sound (st : State) (id : String) (acl : Acl) (hacl : ∀ (h : acl = .fails), False) (r : Req) (c : Code)
    (h : rejection st acl r = some c) : subscribe st id acl (some r) = ended st id acl c := by
  rw [subscribe_eq st id acl hacl r]
  unfold rejection at h
  repeat' split at h
  all_goals first
    | (cases h; simp_all; done)
    | (cases h; cases hm : r.mode <;> simp_all; done)
    | (exact absurd h (by simp))

def genFor (st : State) (acl : Acl) (r : Req) (ms : String) : Outcome :=
  gen_Subscribe (err_eq_io_EOF := false) (err_eq_nil := true)
    (c_sr_GetSubscribe_eq_nil := !r.hasSubscribe) (c_sr_GetSubscribe_GetPrefix_eq_nil := r.prefixNil)
    (c_sr_GetSubscribe_GetPrefix_GetTarget := r.target)
    (s_c_HasTarget_c_sr_GetSubscribe_GetPrefix_GetTarget := st.cache.hasTarget r.target)
    (c_acl_Check_c_sr_GetSubscribe_GetPrefix_GetTarget := acl.check r.target)
    (c_sr_GetSubscribe_Mode_eq_pb_SubscriptionList_ONCE := r.mode == .once)
    (c_sr_GetSubscribe_Mode_eq_pb_SubscriptionList_POLL := r.mode == .poll)
    (c_sr_GetSubscribe_Mode_eq_pb_SubscriptionList_STREAM := r.mode == .stream)
    (c_sr_GetSubscribe_GetUpdatesOnly := r.updatesOnly) (c_sr_GetSubscribe_Mode_String := ms)

/-- **rejections**: the source refuses a request exactly when, and with the status with which,
`Sub.subscribe` does; otherwise it goes on to `return <-errC` -/
theorem tie_reject (st : State) (acl : Acl) (r : Req) (ms : String) :
    codeOf (genFor st acl r ms).ret = rejection st acl r ∧
    (rejection st acl r = none → (genFor st acl r ms).ret = .label "<-errC") := by
  unfold genFor gen_Subscribe rejection
  cases r.hasSubscribe <;> (try (simp [codeOf]; done))
  all_goals cases r.prefixNil <;> (try (simp [codeOf]; done))
  all_goals by_cases h3 : r.target = "" <;> (try (simp [codeOf, h3]; done))
  all_goals cases st.cache.hasTarget r.target <;> (try (simp [codeOf, h3]; done))
  all_goals by_cases hms : ms = "" <;> by_cases h4 : r.target = "*" <;> cases acl.check r.target <;>
    (try (simp [codeOf, h3, h4, hms]; done))
  all_goals cases r.mode <;> cases r.updatesOnly <;> simp [codeOf, h3, h4, hms]

end Gnmi.GenProps.SubscribeReject
