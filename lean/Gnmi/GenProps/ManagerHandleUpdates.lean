import Gnmi.Gen.ManagerHandleUpdatesLoop
import Gnmi.Model.ManagerRun
/-!
# Obligation: one iteration of the receive loop of `(*Manager).handleUpdates` as the source has
it now = the monitor-goroutine path `recv j c → … → recv (j+1) true | connErr j c true` of the
manager LTS (C13; C01 relies on it for "a `Reset` follows every `Recv` error, `io.EOF` included")

`Gnmi.Gen.gen_handleUpdatesIteration` is regenerated from `manager/manager.go` on every check run:
arming / stopping the receive timer around `sc.Recv()`; on an error `m.reset(ta.name)` (when the
callback is set) and `return err` — *whatever the error is*: the generated definition has one atom
`err == nil` about the result of `Recv` and no other test of it; on a message, once per stream
`m.connect(ta.name)` and `connected = true`, then `m.handleGNMIUpdate`.

`exec` runs the effects on the model's instance: each effect is read as the model step it stands
for (and is refused when the instance is not where that step starts), so the obligation states
that the code walks exactly the steps the executable semantics `monNext` takes.

Atoms ↦ model terms, for an instance at `Pc.recv j c` whose context is not cancelled:
`err == nil` ↦ `j < I.cur.msgs.length` (the scripted stream has a `j`-th message; otherwise it
ends — error or EOF alike — and `Recv` returns an error); `connected` ↦ `c`; `recvTimer == nil` ↦
`!I.rt`; `m.reset == nil`, `m.connect == nil` ↦ `false` (the model is about a manager with both
callbacks; `nil_callbacks`: a nil callback drops exactly its own call).
-/
set_option linter.unusedSimpArgs false
set_option linter.unusedVariables false
namespace Gnmi.GenProps.ManagerHandleUpdates
open Gnmi.Gen Gnmi.Manager
open Gnmi.Session (Ev)

/-- what one effect does to the instance and to the Go local `connected` (second component), and
which label the model step carries; `none`: the instance is not where the step starts, or an effect
the model does not know -/
def applyEff (e : Eff) (s : Inst × Bool) : Option (List MLabel × (Inst × Bool)) :=
  let I := s.1
  if e.label = "recvTimer.Reset(ta.receiveTimeout)" ∨ e.label = "recvTimer.Stop()" ∨ e.label = "m.testSync()" then
    some ([], s)      -- the timer is armed exactly while the instance is at `Pc.recv` (header of `ManagerLTS`)
  else if e.label = "resp, err := sc.Recv()" then
    match I.pc with
    | .recv j c =>
      if j < I.cur.msgs.length then some ([.tau], ({ I with pc := .got j c }, s.2))        -- `recvMsg`
      else some ([.tau], ({ I with pc := .reset j c }, s.2))                                -- `recvEnd` / `recvCancel`
    | _ => none
  else if e.label = "m.reset(ta.name)" then
    match I.pc with
    | .reset j c => some ([.cb .reset], ({ I with pc := .connErr j c true }, s.2))          -- `resetCb`
    | _ => none
  else if e.label = "m.connect(ta.name)" then
    match I.pc with
    | .got j false => some ([.cb .connect], ({ I with pc := .got j true }, s.2))            -- `connectCb`
    | _ => none
  else if e.label = "connected = true" then
    match I.pc with
    | .got _ true => some ([], (I, true))
    | _ => none
  else if e.label = "err := m.handleGNMIUpdate(ta.name, resp)" then
    match I.pc with
    | .got j true =>
      match I.cur.msgs[j]? with
      | some m =>
        match m.ev j with
        | some ev => some ([.cb ev], ({ I with pc := .recv (j + 1) true }, s.2))            -- `handleCb`
        | none => some ([.tau], ({ I with pc := .recv (j + 1) true }, s.2))                 -- `handleNone`
      | none => none
    | _ => none
  else none

def run : List Eff → Inst × Bool → Option (List MLabel × (Inst × Bool))
  | [], s => some ([], s)
  | e :: es, s => (applyEff e s).bind (fun r => (run es r.2).map (fun r' => (r.1 ++ r'.1, r'.2)))

/-- `return err` leaves `handleUpdates` (the instance is past `m.reset`); falling off the body is
the next iteration: the instance is in `Recv` again and the local `connected` the next iteration
reads is the `conn` component of its program counter -/
def exec (I : Inst) (connected : Bool) (o : Outcome) : Option (List MLabel × Inst) :=
  (run o.effects (I, connected)).bind (fun r =>
    if o.ret = .label "err" then
      match r.2.1.pc with
      | .connErr _ _ true => some (r.1, r.2.1)
      | _ => none
    else if o.ret = .fall then
      match r.2.1.pc with
      | .recv _ c => if c = r.2.2 then some (r.1, r.2.1) else none
      | _ => none
    else none)

/-- the steps `monNext` takes from `I` until the instance is in `Recv` again or has left
`handleUpdates` (at most 4) -/
def path (next : Attempt) : Nat → Inst → List MLabel × Inst
  | 0, I => ([], I)
  | fuel + 1, I =>
    match monNext next I with
    | none => ([], I)
    | some (l, I') =>
      match I'.pc with
      | .recv _ _ => ([l], I')
      | .connErr _ _ _ => ([l], I')
      | _ => let r := path next fuel I'; (l :: r.1, r.2)

/-- the stream does not block for ever at message `j`: there is a `j`-th message, or it ends -/
def Progress (I : Inst) (j : Nat) : Prop := j < I.cur.msgs.length ∨ I.cur.ending ≠ .silence

/-- **one iteration**: for an instance in `Recv` (context alive, stream not silent) the code makes
exactly the steps of the model: a message is handled (`connect` first, once) and the loop goes on;
any error — EOF included — is followed by `reset` and leaves with the error -/
theorem tie (next : Attempt) (I : Inst) (j : Nat) (c : Bool) (hpc : I.pc = .recv j c)
    (hctx : I.ctxDone = false) (hp : Progress I j) :
    exec I c (gen_handleUpdatesIteration (connected := c) (err_eq_nil := decide (j < I.cur.msgs.length))
        (m_connect_eq_nil := false) (m_reset_eq_nil := false) (recvTimer_eq_nil := !I.rt))
      = some (path next 4 I) := by
  unfold gen_handleUpdatesIteration
  by_cases hj : j < I.cur.msgs.length
  · have hm : I.cur.msgs[j]? = some (I.cur.msgs[j]) := by simp [hj]
    cases hrt : I.rt <;> cases c <;> cases hev : (I.cur.msgs[j]).ev j <;>
      simp [exec, run, applyEff, path, monNext, hpc, hctx, hj, hm, hev]
  · have he : I.cur.ending ≠ .silence := by
      rcases hp with h | h
      · exact absurd h hj
      · exact h
    cases hrt : I.rt <;> cases c <;>
      simp [exec, run, applyEff, path, monNext, hpc, hctx, hj, he]

/-- the same when the context was cancelled while the goroutine sat in `Recv` (environment
hypothesis `recvCancel`: `Recv` fails): `reset`, then out with the error -/
theorem tie_cancelled (next : Attempt) (I : Inst) (j : Nat) (c : Bool) (hpc : I.pc = .recv j c)
    (hctx : I.ctxDone = true) (hj : ¬ j < I.cur.msgs.length) :
    exec I c (gen_handleUpdatesIteration (connected := c) (err_eq_nil := false)
        (m_connect_eq_nil := false) (m_reset_eq_nil := false) (recvTimer_eq_nil := !I.rt))
      = some (path next 4 I) := by
  unfold gen_handleUpdatesIteration
  cases hrt : I.rt <;> cases c <;>
    simp [exec, run, applyEff, path, monNext, hpc, hctx, hj]

/-- labels only (no instance needed): every path on which `Recv` failed calls `m.reset` unless the
callback is nil, and nothing else but the timer; no path calls `m.reset` after a message -/
theorem reset_iff_error (c e cn rn tn : Bool) :
    ((gen_handleUpdatesIteration (connected := c) (err_eq_nil := e) (m_connect_eq_nil := cn)
        (m_reset_eq_nil := rn) (recvTimer_eq_nil := tn)).labels.contains "m.reset(ta.name)" = (!e && !rn)) ∧
    ((gen_handleUpdatesIteration (connected := c) (err_eq_nil := e) (m_connect_eq_nil := cn)
        (m_reset_eq_nil := rn) (recvTimer_eq_nil := tn)).ret = (if e then .fall else .label "err")) := by
  unfold gen_handleUpdatesIteration
  cases c <;> cases e <;> cases cn <;> cases rn <;> cases tn <;> simp [Outcome.labels]

/-- non-vacuity: a stream of one update then EOF, first iteration -/
example : exec { name := "t", rt := true, cur := .stream [.update] .eof, pc := .recv 0 false } false
    (gen_handleUpdatesIteration (connected := false) (err_eq_nil := true)
        (m_connect_eq_nil := false) (m_reset_eq_nil := false) (recvTimer_eq_nil := false))
    = some ([.tau, .cb .connect, .cb (.update 0)],
        { name := "t", rt := true, cur := .stream [.update] .eof, pc := .recv 1 true }) := by decide

end Gnmi.GenProps.ManagerHandleUpdates
