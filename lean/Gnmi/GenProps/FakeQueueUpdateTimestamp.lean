import Gnmi.Gen.FakeQueueUpdateTimestamp
import Gnmi.Model.FakeQueue
/-!
# Obligation: `(*value).updateTimestamp` as the source has it now = `FQ.updateTimestamp` (C20)

Regenerated from `testing/fake/queue/queue.go` on every check run: the three validity tests in
their order (timestamp set, non-negative, `0 ≤ delta_min ≤ delta_max`) and the arithmetic of the
new timestamp `t + Int63n(max-min+1) + min`.

Atoms: `v.v.Timestamp == nil` ↦ `pv.ts.isNone`; the three fields ↦ `t.ts`, `t.dmin`, `t.dmax`;
`v.r.Int63n` ↦ a function atom: the obligation instantiates it with any function that returns,
for the argument the code passes, the draw the model's `int63n` delivers.  The model flags
arithmetic leaving `int64` as `overflow` (outside the modelled domain, hypothesis `NoOverflow` of
C20); the obligation is about the inputs inside it.
-/
set_option linter.unusedSimpArgs false
set_option linter.unusedVariables false
namespace Gnmi.GenProps.FakeQueueUpdateTimestamp
open Gnmi.Gen Gnmi.FQ

/-- unset timestamp: error, nothing written -/
theorem tie_unset {D : Type} (pv : PVal D) (ds : Draws) (f : Int → Int) (a b c : Int) (h : pv.ts = none) :
    gen_updateTimestamp (v_r_Int63n := f) (v_v_Timestamp_eq_nil := pv.ts.isNone)
        (v_v_Timestamp_DeltaMax := a) (v_v_Timestamp_DeltaMin := b) (v_v_Timestamp_Timestamp := c) = Gen.ret .error
      ∧ (∃ r, updateTimestamp pv ds = r ∧ match r with | .err => True | _ => False) := by
  unfold gen_updateTimestamp updateTimestamp
  simp [h]

/-- invalid configuration: error, nothing written — exactly when the model says `err` -/
theorem tie_invalid {D : Type} (pv : PVal D) (t : TS) (ds : Draws) (f : Int → Int) (h : pv.ts = some t)
    (hbad : t.ts < 0 ∨ t.dmin > t.dmax ∨ t.dmin < 0) :
    gen_updateTimestamp (v_r_Int63n := f) (v_v_Timestamp_eq_nil := pv.ts.isNone)
        (v_v_Timestamp_DeltaMax := t.dmax) (v_v_Timestamp_DeltaMin := t.dmin) (v_v_Timestamp_Timestamp := t.ts)
      = Gen.ret .error
      ∧ (∃ r, updateTimestamp pv ds = r ∧ match r with | .err => True | _ => False) := by
  unfold gen_updateTimestamp updateTimestamp
  simp only [h, Option.isNone_some]
  by_cases h1 : t.ts < 0
  · simp [h1]
  · by_cases h2 : t.dmin > t.dmax
    · simp [h1, h2]
    · have h3 : t.dmin < 0 := by omega
      simp [h1, h3]

/-- valid configuration, arithmetic inside `int64`: the new timestamp written is the one the
model stores, computed from the same draw -/
theorem tie_ok {D : Type} (pv : PVal D) (t : TS) (ds ds' : Draws) (x : Int) (f : Int → Int) (h : pv.ts = some t)
    (hgood : ¬ (t.ts < 0 ∨ t.dmin > t.dmax ∨ t.dmin < 0))
    (hn : Gen.inI64 (t.dmax - t.dmin)) (hn1 : Gen.inI64 (t.dmax - t.dmin + 1))
    (hdraw : int63n (t.dmax - t.dmin + 1) ds = .ok (x, ds')) (hf : f (t.dmax - t.dmin + 1) = x)
    (hs1 : Gen.inI64 (t.ts + x)) (hs2 : Gen.inI64 (t.ts + x + t.dmin)) :
    gen_updateTimestamp (v_r_Int63n := f) (v_v_Timestamp_eq_nil := pv.ts.isNone)
        (v_v_Timestamp_DeltaMax := t.dmax) (v_v_Timestamp_DeltaMin := t.dmin) (v_v_Timestamp_Timestamp := t.ts)
      = Gen.eff "v.v.Timestamp.Timestamp = _" [t.ts + x + t.dmin] (Gen.ret .nil)
      ∧ (∃ pv', updateTimestamp pv ds = .ok (pv', ds') ∧ pv'.ts = some { t with ts := t.ts + x + t.dmin }) := by
  have c1 : chk64 (t.dmax - t.dmin + 1) = .ok (t.dmax - t.dmin + 1) := by
    unfold Gen.inI64 at hn1; simp [chk64, FQ.inI64]; omega
  have c2 : chk64 (t.ts + x + t.dmin) = .ok (t.ts + x + t.dmin) := by
    unfold Gen.inI64 at hs2; simp [chk64, FQ.inI64]; omega
  unfold gen_updateTimestamp updateTimestamp
  simp only [h, Option.isNone_some, wrap64_id hn, wrap64_id hn1, hf, wrap64_id hs1, wrap64_id hs2, c1, hdraw, c2]
  have g1 : ¬ t.ts < 0 := by omega
  have g2 : ¬ t.dmax < t.dmin := by omega
  have g3 : ¬ t.dmin < 0 := by omega
  simp [g1, g2, g3]

end Gnmi.GenProps.FakeQueueUpdateTimestamp
