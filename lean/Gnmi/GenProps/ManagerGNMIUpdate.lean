import Gnmi.Gen.ManagerHandleGNMIUpdate
import Gnmi.Gen.ManagerNew
import Gnmi.Model.ManagerOpt
/-!
# Obligations: `(*Manager).handleGNMIUpdate` and `NewManager` as the source has them now =
# `MgrOpt.target` followed by the guarded call site `MgrOpt.site true`  (C12, C13)

Regenerated from `manager/manager.go` on every check run:

* `gen_handleGNMIUpdate`: `resp.Response == nil` → error; the type switch: `Update` → `m.update` iff
  non-nil; `SyncResponse` → `m.sync` iff non-nil; the `Error` arm and `default` → error; else nil.
* `gen_NewManager`: a nil `ConnectionManager` is refused; otherwise the Manager literal (its text is
  compared: every callback field is copied from the Config field of the same name).

Atoms ↦ model terms (for a response `r` that is not the nil message, which gRPC never delivers and
on which `resp.Response` panics — outside the generated definition): `resp.Response == nil` ↦
`r = .unset`; the two type tests ↦ the constructor of `r`; `m.update == nil` ↦ `!mask.update`,
`m.sync == nil` ↦ `!mask.sync`.

Equalities, for all responses and all masks.
-/
set_option linter.unusedSimpArgs false
set_option linter.unusedVariables false
namespace Gnmi.GenProps.ManagerGNMIUpdate
open Gnmi.Gen Gnmi.RX Gnmi.MgrOpt

variable {F D : Type}

def isUnset : Response F D → Bool | .unset => true | _ => false
def isUpdate : Response F D → Bool | .update _ => true | _ => false
def isSync : Response F D → Bool | .sync _ => true | _ => false
def notNilMsg : Response F D → Bool | .nilMsg => false | _ => true

/-- the callback an effect label of `handleGNMIUpdate` stands for -/
def cbOf (e : Eff) : Option Cb :=
  if e.label = "m.update(name, v.Update)" then some .update
  else if e.label = "m.sync(name)" then some .sync
  else none

def cbsOf : List Eff → Option (List Cb)
  | [] => some []
  | e :: es => (cbOf e).bind (fun c => (cbsOf es).map (c :: ·))

/-- what the code does with one response: the callbacks invoked and whether an error is returned
(`none`: an effect or a result the reading does not know) -/
def read (o : Gen.Outcome) : Option (List Cb × Bool) :=
  (cbsOf o.effects).bind (fun l =>
    if o.ret = .nil then some (l, false) else if o.ret = .error then some (l, true) else none)

/-- the model: `target r`, then the guarded call site of the callback it names -/
def model (m : Mask) (r : Response F D) : Option (List Cb × Bool) :=
  match target r with
  | .ok none => some ([], true)
  | .ok (some cb) => (match site true m cb with | .ok l => some (l, false) | _ => none)
  | _ => none

/-- **handleGNMIUpdate** = `target` + guarded site, for every response gRPC can deliver and every
subset of configured callbacks -/
theorem tie (m : Mask) (r : Response F D) (h : notNilMsg r = true) :
    read (gen_handleGNMIUpdate (m_sync_eq_nil := !m.sync) (m_update_eq_nil := !m.update)
      (resp_Response_eq_nil := isUnset r)
      (resp_Response_type_eq_gpb_SubscribeResponse_SyncResponse := isSync r)
      (resp_Response_type_eq_gpb_SubscribeResponse_Update := isUpdate r)) = model m r := by
  unfold gen_handleGNMIUpdate
  cases r <;> cases hu : m.update <;> cases hs : m.sync <;>
    simp_all [read, cbsOf, cbOf, model, target, handleGNMIUpdate, site, Mask.has, isUnset, isUpdate, isSync, notNilMsg]

/-- a configured-or-not callback is never called through a nil function value: no path of the
generated definition has a call that the mask does not hold -/
theorem calls_only_configured (m : Mask) (r : Response F D) (a b c : Bool) (l : List Cb) (e : Bool)
    (h : read (gen_handleGNMIUpdate (m_sync_eq_nil := !m.sync) (m_update_eq_nil := !m.update)
      (resp_Response_eq_nil := a)
      (resp_Response_type_eq_gpb_SubscribeResponse_SyncResponse := b)
      (resp_Response_type_eq_gpb_SubscribeResponse_Update := c)) = some (l, e)) :
    ∀ cb ∈ l, m.has cb = true := by
  unfold gen_handleGNMIUpdate at h
  cases a <;> cases b <;> cases c <;> cases hu : m.update <;> cases hs : m.sync <;>
    simp_all [read, cbsOf, cbOf, Mask.has] <;> (obtain ⟨rfl, _⟩ := h; simp [Mask.has, hu, hs])

/-- **NewManager**: refused exactly for a nil ConnectionManager; otherwise every optional callback of
the receive loop is the Config field of the same name (the mask of the Manager is the mask of the
Config: `ManagerOpt`'s premise) -/
theorem tie_new (cmNil : Bool) :
    gen_NewManager (cfg_ConnectionManager_eq_nil := cmNil) =
      if cmNil then Gen.ret .error
      else Gen.ret (.label "&Manager{connect: cfg.Connect, connectError: cfg.ConnectError, monitorError: cfg.MonitorError, connectionManager: cfg.ConnectionManager, cred: cfg.Credentials, reset: cfg.Reset, sync: cfg.Sync, targets: make(map[string]*target), testSync: func() { }, timeout: cfg.Timeout, receiveTimeout: cfg.ReceiveTimeout, update: cfg.Update}, nil") := by
  unfold gen_NewManager; cases cmNil <;> rfl

end Gnmi.GenProps.ManagerGNMIUpdate
