import Gnmi.Gen.SubscribeAddSubscription
import Gnmi.Model.Subscribe
/-!
# Obligation: the loop body of `addSubscription` as the source has it now = `Sub.regQueries`
(C06, C04)

`Gnmi.Gen.gen_addSubscriptionPath` is regenerated from `subscribe/subscribe.go` on every check run:
for one subscription the query handed to `m.AddQuery`.  The translator substitutes the locals (`p`,
`origin`, `query`), so the effect label shows *what* is registered: the prefix strings, then the
subscription path's origin exactly when the prefix has none and the path has one, then the path
strings.  (`c06_seed7` adds a third conjunct `origin != defaultOrigin`: a new atom-free comparison
in the condition, and the obligation no longer elaborates.)

Atoms ↦ model terms: `s.Prefix.GetOrigin()` ↦ `r.origin`; `sub.GetPath().GetOrigin()` ↦
`sp.origin` (a nil path has the empty origin and no elements: the getters of a nil message).
`prefix` (bound before the loop: `path.ToStrings(s.Prefix, true)` with a capacity-clipped backing
array) ↦ `r.target :: origin? ++ r.pfx`; `path.ToStrings(sub.GetPath(), false)` ↦ `sp.path`.
-/
set_option linter.unusedSimpArgs false
set_option linter.unusedVariables false
set_option maxRecDepth 8000
namespace Gnmi.GenProps.SubscribeRegister
open Gnmi.Gen Gnmi.Sub

/-- `path.ToStrings(s.Prefix, true)` -/
def pre (r : Req) : Path := r.target :: ((if r.origin = "" then [] else [r.origin]) ++ r.pfx)

/-- the query an effect registers -/
def queryOfEff (r : Req) (sp : SubPath) (e : Eff) : Option Path :=
  if e.label = "removes = append(removes, m.AddQuery(append(append(prefix, sub.GetPath().GetOrigin()), path.ToStrings(sub.GetPath(), false)...), c))" then
    some (pre r ++ [sp.origin] ++ sp.path)
  else if e.label = "removes = append(removes, m.AddQuery(append(prefix, path.ToStrings(sub.GetPath(), false)...), c))" then
    some (pre r ++ sp.path)
  else none

/-- the queries one iteration registers (it falls off the body: the loop goes on) -/
def queriesOf (r : Req) (sp : SubPath) (o : Outcome) : Option (List Path) :=
  if o.ret = .fall then o.effects.mapM (queryOfEff r sp) else none

/-- the loop: one iteration per subscription -/
def registered (r : Req) : List SubPath → Option (List Path)
  | [] => some []
  | sp :: rest =>
    (queriesOf r sp (gen_addSubscriptionPath (s_Prefix_GetOrigin := r.origin) (sub_GetPath_GetOrigin := sp.origin))).bind
      (fun a => (registered r rest).map (a ++ ·))

theorem tie_one (r : Req) (sp : SubPath) :
    queriesOf r sp (gen_addSubscriptionPath (s_Prefix_GetOrigin := r.origin) (sub_GetPath_GetOrigin := sp.origin))
      = some [pre r ++ (if r.origin = "" ∧ sp.origin ≠ "" then [sp.origin] else []) ++ sp.path] := by
  unfold gen_addSubscriptionPath
  by_cases h1 : r.origin = "" <;> by_cases h2 : sp.origin = "" <;>
    simp [queriesOf, queryOfEff, h1, h2]

theorem registered_eq (r : Req) (l : List SubPath) :
    registered r l = some (l.map (fun sp =>
      pre r ++ (if r.origin = "" ∧ sp.origin ≠ "" then [sp.origin] else []) ++ sp.path)) := by
  induction l with
  | nil => rfl
  | cons sp rest ih => simp [registered, tie_one, ih]

/-- **registration**: exactly one query per subscription, the one `Sub.regQueries` lists -/
theorem tie (r : Req) : registered r r.subs = some (regQueries r) := by
  rw [registered_eq]; rfl

/-- non-vacuity: prefix without origin, path with origin `oc` -/
example : registered { target := "dev", pfx := ["a"], subs := [{ origin := "oc", path := ["b"] }] }
    [{ origin := "oc", path := ["b"] }] = some [["dev", "a", "oc", "b"]] := by decide

end Gnmi.GenProps.SubscribeRegister
