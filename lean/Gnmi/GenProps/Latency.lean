import Gnmi.Gen.LatencyWindowAdd
import Gnmi.Gen.LatencySetAvg
import Gnmi.Model.Latency
/-!
# Obligations: `(*window).add` / `(*window).setAvg` as the source has them now =
`Latency.Window.add` / `Latency.Window.setAvg` (C15, latency clause)

Regenerated from `latency/latency.go` on every check run.  The arithmetic of the source is Go's
(`int64` / `time.Duration`: `+`, `*` wrap, `/` truncates); the model computes on `Int`.  The
obligations state the no-overflow hypotheses under which the two agree (C15's latency theorems are
about the model; the harness reports any divergence near the extremes).

Atoms: `ls == nil` ↦ `false` (`update` hands `add` a freshly built slot); `ls.count`, `ls.total`,
`w.count`, `w.total`, `w.sf` ↦ the fields.
-/
set_option linter.unusedSimpArgs false
set_option linter.unusedVariables false
namespace Gnmi.GenProps.Latency
open Gnmi.Gen Gnmi.Latency

/-! ## `add` -/

def applyAdd (ls : Slot) (e : Eff) (w : Window) : Option Window :=
  if e.label = "w.total = _" then some { w with total := e.args.headD 0 }
  else if e.label = "w.count = _" then some { w with count := e.args.headD 0 }
  else if e.label = "w.slots = append(w.slots, ls)" then some { w with slots := w.slots ++ [ls] }
  else none

def runAdd (ls : Slot) : List Eff → Window → Option Window
  | [], w => some w
  | e :: es, w => (applyAdd ls e w).bind (runAdd ls es)

theorem tie_add (w : Window) (ls : Slot)
    (h1 : inI64 (w.total + ls.total)) (h2 : inI64 (w.count + ls.count)) :
    runAdd ls (gen_windowAdd (ls_eq_nil := false) (ls_count := ls.count) (ls_total := ls.total)
        (w_count := w.count) (w_total := w.total)).effects w
      = some (w.add ls) := by
  unfold gen_windowAdd Window.add
  simp only [wrap64_id h1, wrap64_id h2]
  by_cases h : ls.count = 0 <;> simp [h, runAdd, applyAdd]

/-! ## `setAvg` -/

/-- the `m.SetInt(name, v)` calls of the region as the model's writes (the metadata name of a
window's average is a function of the window size) -/
def writesOf (w : Window) (o : Outcome) : List Write :=
  o.effects.filterMap (fun e => if e.label = "m.SetInt(name, n*w.sf)" then some ⟨w.size, .avg, e.args.headD 0⟩ else none)

theorem tie_setAvg (w : Window)
    (h1 : inI64 (Int.tdiv w.total w.count)) (h2 : inI64 (Int.tdiv w.total w.count * w.sf)) :
    writesOf w (gen_setAvg (w_count := w.count) (w_sf := w.sf) (w_total := w.total)) = w.setAvg := by
  unfold gen_setAvg Window.setAvg quot
  simp only [wrap64_id h1, wrap64_id h2]
  by_cases h : w.count = 0 <;> by_cases h' : Int.tdiv w.total w.count = 0 <;> simp [h, h', writesOf]

/-- every effect of `setAvg` is such a write (nothing else happens) -/
theorem setAvg_only_writes (wc sf wt : Int) :
    ∀ e ∈ (gen_setAvg (w_count := wc) (w_sf := sf) (w_total := wt)).effects, e.label = "m.SetInt(name, n*w.sf)" := by
  unfold gen_setAvg
  intro e he
  repeat' split at he
  all_goals simp_all

end Gnmi.GenProps.Latency
