import Gnmi.Gen.TargetHandleDiffsReq
import Gnmi.Gen.TargetHandleDiffsOld
import Gnmi.Gen.TargetHandleDiffsNew
import Gnmi.Model.TargetCfg
/-!
# Obligations: the three loops of `(*Config).handleDiffs` as the source has them now =
`TargetCfg.requestChanged`, `TargetCfg.diffOld`, `TargetCfg.addLeft`  (C17)

Regenerated from `target/target.go` on every check run (the loop bodies):

* `gen_handleDiffsReq`: a request present in both configurations counts as changed exactly when the
  *whole messages* differ (`proto.Equal(old, new)`; `c17_seed8` compares `GetSubscribe()` only:
  another atom);
* `gen_handleDiffsOld`: per old target — gone from the new configuration → `Delete`; request
  unchanged and target equal → dropped from `newTargets` without a call; otherwise `Update` (with
  the new target and *its* request looked up in the new configuration) and dropped from `newTargets`;
* `gen_handleDiffsNew`: per target left in `newTargets` → `Add`.

The interpreters run the bodies on (handler calls so far, `newTargets`); the loops are the folds
of the generated bodies over the maps (as association lists, in iteration order).

Atoms ↦ model terms: `ok(c.configuration.GetRequest()[k])` ↦ `(find k old).isSome`;
`proto.Equal(c.configuration.GetRequest()[k], new)` ↦ `decide (find k old = some new)`;
`newTargets[k] == nil` ↦ `(tgtAt nts k).isNone`; `requestChanged[t.GetRequest()]` ↦
`changed.contains t.getRequest`; `proto.Equal(t, newTargets[k])` ↦ `decide (t = tgtAt nts k)`;
`c.h.X == nil` ↦ `!h.x`.
-/
set_option linter.unusedSimpArgs false
set_option linter.unusedVariables false
namespace Gnmi.GenProps.TargetHandleDiffs
open Gnmi.Gen Gnmi.TargetCfg

/-! ## first loop -/

/-- does the iteration mark `k` as changed -/
def marks (o : Outcome) : Option Bool :=
  if o.ret = .fall then
    (if o.labels = ["requestChanged[k] = true"] then some true else if o.labels = [] then some false else none)
  else none

def loopReq (old : List (String × Req)) : List (String × Req) → Option (List String)
  | [] => some []
  | (k, new) :: rest =>
    (marks (gen_handleDiffsReq (ok_c_configuration_GetRequest_k := (find k old).isSome)
        (proto_Equal_c_configuration_GetRequest_k_new := decide (find k old = some new)))).bind (fun b =>
      (loopReq old rest).map (fun l => if b then k :: l else l))

/-- **which requests changed** = `TargetCfg.requestChanged` -/
theorem tie_req (old new : List (String × Req)) : loopReq old new = some (requestChanged old new) := by
  induction new with
  | nil => rfl
  | cons kn rest ih =>
    obtain ⟨k, n⟩ := kn
    unfold loopReq gen_handleDiffsReq requestChanged
    cases h : find k old with
    | none => simp [marks, Outcome.labels, ih, requestChanged, h]
    | some o =>
      by_cases he : o = n
      · subst he; simp [marks, Outcome.labels, ih, requestChanged, h]
      · simp [marks, Outcome.labels, ih, requestChanged, h, he]

/-! ## second loop -/

abbrev DS := List Call × List (String × TgtP)

def applyOld (newReqs : List (String × Req)) (k : String) (nt : TgtP) (e : Eff) (s : DS) : Option DS :=
  if e.label = "c.h.Delete(k)" then some (s.1 ++ [.delete k], s.2)
  else if e.label = "delete(newTargets, k)" then some (s.1, erase k s.2)
  else if e.label = "c.h.Update(Update{Name: k, Request: r, Target: nt})" then
    -- `nt := newTargets[k]`, `r := config.GetRequest()[nt.GetRequest()]`
    some (s.1 ++ [.update ⟨k, reqAt newReqs nt.getRequest, nt⟩], s.2)
  else none

def runOld (newReqs : List (String × Req)) (k : String) (nt : TgtP) : List Eff → DS → Option DS
  | [], s => some s
  | e :: es, s => (applyOld newReqs k nt e s).bind (runOld newReqs k nt es)

def stepOld (h : Handlers) (newReqs : List (String × Req)) (changed : List String) (k : String) (t : TgtP)
    (s : DS) : Option DS :=
  let o := gen_handleDiffsOld (c_h_Delete_eq_nil := !h.delete) (c_h_Update_eq_nil := !h.update)
    (newTargets_k_eq_nil := (tgtAt s.2 k).isNone) (proto_Equal_t_newTargets_k := decide (t = tgtAt s.2 k))
    (requestChanged_t_GetRequest := changed.contains t.getRequest)
  if o.ret = .fall then runOld newReqs k (tgtAt s.2 k) o.effects s else none

def loopOld (h : Handlers) (newReqs : List (String × Req)) (changed : List String) :
    List (String × TgtP) → DS → Option DS
  | [], s => some s
  | (k, t) :: rest, s => (stepOld h newReqs changed k t s).bind (loopOld h newReqs changed rest)

/-- **the loop over the old targets** = `TargetCfg.diffOld` -/
theorem tie_old (h : Handlers) (newReqs : List (String × Req)) (changed : List String)
    (olds : List (String × TgtP)) (acc : List Call) (nts : List (String × TgtP)) :
    loopOld h newReqs changed olds (acc, nts)
      = some (acc ++ (diffOld h newReqs changed olds nts).1, (diffOld h newReqs changed olds nts).2) := by
  induction olds generalizing acc nts with
  | nil => simp [loopOld, diffOld]
  | cons kt rest ih =>
    obtain ⟨k, t⟩ := kt
    have hg : ∀ x : Tgt, TgtP.getRequest (some x) = x.request := fun _ => rfl
    unfold loopOld stepOld gen_handleDiffsOld diffOld
    generalize hcb : changed.contains t.getRequest = cb
    cases hn : tgtAt nts k with
    | none =>
      cases hd : h.delete <;> simp [runOld, applyOld, ih, emitIf, hn, hd]
    | some nt =>
      cases cb
      · by_cases he : t = some nt
        · subst he
          cases hu : h.update <;> simp [runOld, applyOld, ih, emitIf, hn, hu, hg]
        · cases hu : h.update <;> simp [runOld, applyOld, ih, emitIf, hn, hu, he, hg]
      · cases hu : h.update <;> simp [runOld, applyOld, ih, emitIf, hn, hu, hg]

/-! ## third loop -/

def loopNew (h : Handlers) (newReqs : List (String × Req)) : List (String × TgtP) → Option (List Call)
  | [] => some []
  | (k, t) :: rest =>
    let o := gen_handleDiffsNew (c_h_Add_eq_nil := !h.add)
    (if o.ret = .fall then
      (if o.labels = ["c.h.Add(Update{Name: k, Request: r, Target: t})"] then
        some [Call.add ⟨k, reqAt newReqs t.getRequest, t⟩]       -- `r := config.GetRequest()[t.GetRequest()]`
       else if o.labels = [] then some [] else none)
     else none).bind (fun a => (loopNew h newReqs rest).map (a ++ ·))

/-- **the loop over what is left** = `TargetCfg.addLeft` -/
theorem tie_new (h : Handlers) (newReqs : List (String × Req)) (left : List (String × TgtP)) :
    loopNew h newReqs left = some (addLeft h newReqs left) := by
  induction left with
  | nil => rfl
  | cons kt rest ih =>
    obtain ⟨k, t⟩ := kt
    unfold loopNew gen_handleDiffsNew addLeft
    cases ha : h.add <;> simp [Outcome.labels, ih, emitIf, ha]

/-- the three loops compose to `TargetCfg.handleDiffs` -/
theorem tie_handleDiffs (h : Handlers) (old : Option Cfg) (new : Cfg) :
    ((loopReq (getRequestMap old) new.request).bind (fun changed =>
      (loopOld h new.request changed (getTargetMap old) ([], new.target)).bind (fun d =>
        (loopNew h new.request d.2).map (fun a => d.1 ++ a))))
      = some (handleDiffs h old new) := by
  simp [tie_req, tie_old, tie_new, handleDiffs]

/-- a concrete instance: the request `r` changed, so the unchanged target `a` using it is updated -/
example : (loopReq [("r", .msg "x")] [("r", .msg "y")]) = some ["r"] := by decide

end Gnmi.GenProps.TargetHandleDiffs
