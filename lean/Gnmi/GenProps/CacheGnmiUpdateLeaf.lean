import Gnmi.Gen.CacheGnmiUpdateLeaf
import Gnmi.Model.Cache
/-!
# Obligation: the *shape* of the existing-leaf arm of `(*Target).gnmiUpdate` as the source has it now

`Gnmi.Gen.gen_gnmiUpdateLeaf` is regenerated from `cache/cache.go` on every check run: the
timestamp `switch` on an existing leaf (stale / same timestamp / future threshold), the
`StaleCount` / `FutureCount` effects, `oldval.Update(n)`, the suppression condition, the latency
call and the returns.

This module does not say *which* updates are rejected (that is `CacheGnmiUpdateVerdict`); it says
what the region does *given* its own verdict, for every value of every atom (`shape`): a rejected
update only bumps its counter and returns the error; an accepted one writes the leaf first, then
either counts a suppression and hands nothing to the feed — exactly when neither notification is
atomic, the values are equal and the target is event driven — or (optionally after the latency
call) hands the leaf on.  This is what the counter laws (C15) and "withheld from the feed only if
rejected or suppressed" (C03) rest on, whatever the timestamp rule is.
-/
set_option linter.unusedSimpArgs false
set_option linter.unusedVariables false
namespace Gnmi.GenProps.CacheGnmiUpdateLeaf
open Gnmi.Gen Gnmi.Cache

/-- the result class the returned pair stands for -/
def verdictOf (v : Gen.Val) : Verdict :=
  if v = .label "nil, ErrStale" then .stale
  else if v = .label "nil, ErrFuture" then .future
  else .accept

/-- the canonical outcome for a verdict -/
def canon (v : Verdict) (suppress latency : Bool) : Outcome :=
  match v with
  | .stale => Gen.eff "t.meta.AddInt(metadata.StaleCount, 1)" [1] (Gen.ret (.label "nil, ErrStale"))
  | .future => Gen.eff "t.meta.AddInt(metadata.FutureCount, 1)" [1] (Gen.ret (.label "nil, ErrFuture"))
  | .accept =>
    Gen.eff "oldval.Update(n)" [] <|
      if suppress then Gen.eff "t.meta.AddInt(metadata.SuppressedCount, 1)" [1] (Gen.ret .nil)
      else if latency then Gen.eff "t.lat.Compute(T(n.GetTimestamp()))" [] (Gen.ret (.label "oldval, nil"))
      else Gen.ret (.label "oldval, nil")

theorem verdictOf_canon (v : Verdict) (s l : Bool) : verdictOf (canon v s l).ret = v := by
  cases v <;> cases s <;> cases l <;> simp [canon, verdictOf]

/-- **shape**: whatever the atoms are, the region does one of three things, nothing else: a
rejected update only counts (stale / future); an accepted one writes the leaf first, then either
counts a suppression and hands nothing to the feed, or (optionally after the latency call) hands
the leaf on -/
theorem shape (now nts ots thr lt ltNano : Int) (nAtomic oldAtomic same realData synced eventDriven valueEq : Bool) :
    ∃ v, gen_gnmiUpdateLeaf (Now := now) (n_Atomic := nAtomic) (n_GetTimestamp := nts)
        (old_GetAtomic := oldAtomic) (old_GetTimestamp := ots) (proto_Equal_old_n := same)
        (realData := realData) (t_eventDriven := eventDriven) (t_futureThreshold := thr)
        (t_latest := lt) (t_latest_UnixNano := ltNano) (t_synced := synced)
        (value_Equal_old_Update_0_Val_n_Update_0_Val := valueEq)
      = canon v (!nAtomic && !oldAtomic && valueEq && eventDriven) (realData && synced) := by
  unfold gen_gnmiUpdateLeaf
  repeat' split
  all_goals first
    | exact ⟨.stale, rfl⟩
    | exact ⟨.future, rfl⟩
    | (refine ⟨.accept, ?_⟩; simp_all [canon]; done)
    | (refine ⟨.accept, ?_⟩; cases nAtomic <;> cases oldAtomic <;> cases valueEq <;> cases eventDriven <;>
        cases realData <;> cases synced <;> simp_all [canon])

end Gnmi.GenProps.CacheGnmiUpdateLeaf
