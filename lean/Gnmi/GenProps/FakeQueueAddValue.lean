import Gnmi.Gen.FakeQueueAddValueLatest
import Gnmi.Model.FakeQueue
/-!
# Obligation: the prologue of `(*UpdateQueue).addValue` as the source has it now = the timestamp
default `FQ.Val.withTs` and the `latest` tracking of `FQ.addValue`  (C20)

`Gnmi.Gen.gen_addValueLatest` is regenerated from `testing/fake/queue/queue.go` on every check run
(the statements before the binary search): a nil `Timestamp` is replaced by a zero one, and
`u.latest` becomes the timestamp when that is *greater* — an exact comparison of two `int64`s
(`c20_seed7` goes through `math.Max` on `float64`s: another effect text, and wrong beyond 2^53).

Atoms ↦ model terms: `v.v.Timestamp == nil` ↦ `v.pv.ts.isNone`; `v.v.Timestamp.Timestamp` ↦ `v.t`
(of a set timestamp); `(&fpb.Timestamp{}).Timestamp` ↦ `0` (the zero message); `u.latest` ↦ `u.latest`.
-/
set_option linter.unusedSimpArgs false
set_option linter.unusedVariables false
namespace Gnmi.GenProps.FakeQueueAddValue
open Gnmi.Gen Gnmi.FQ

variable {D : Type}

/-- value and `latest` -/
def applyEff (e : Eff) (s : Val D × Int) : Option (Val D × Int) :=
  if e.label = "v.v.Timestamp = &fpb.Timestamp{}" then
    some ({ s.1 with pv := { s.1.pv with ts := some {} } }, s.2)
  else if e.label = "u.latest = _" then e.args.head?.map (fun x => (s.1, x))
  else none

def run : List Eff → Val D × Int → Option (Val D × Int)
  | [], s => some s
  | e :: es, s => (applyEff e s).bind (run es)

/-- **the prologue**: the value gets its default timestamp, `latest` is the maximum of the old
`latest` and the value's timestamp -/
theorem tie (u : UQ D) (v : Val D) :
    (run (gen_addValueLatest (v_v_Timestamp_eq_nil := v.pv.ts.isNone) (v_v_Timestamp_Timestamp := v.t)
        (ref_fpb_Timestamp_Timestamp := 0) (u_latest := u.latest)).effects (v, u.latest)).map
        (fun s => (s.1.pv.ts, s.2))
      = some (v.withTs.pv.ts, if v.withTs.t > u.latest then v.withTs.t else u.latest) ∧
    (gen_addValueLatest (v_v_Timestamp_eq_nil := v.pv.ts.isNone) (v_v_Timestamp_Timestamp := v.t)
        (ref_fpb_Timestamp_Timestamp := 0) (u_latest := u.latest)).ret = .fall := by
  unfold gen_addValueLatest Val.withTs Val.t
  cases h : v.pv.ts with
  | none =>
    by_cases hl : u.latest < 0 <;> simp [run, applyEff, h, hl]
  | some t =>
    by_cases hl : u.latest < t.ts <;> simp [run, applyEff, h, hl]

end Gnmi.GenProps.FakeQueueAddValue
