import Gnmi.GenProps.SubscribeReject
/-!
# Obligation: `(*Server).Subscribe` after the first `Recv`, as the source has it now =
`Sub.subscribe` (C04, C05, C07)

`Gnmi.Gen.gen_Subscribe` is regenerated from `subscribe/subscribe.go` on every check run: the
checks on the first request in their order (EOF, error, no subscription, nil prefix, empty target),
`HasTarget`, the single-target ACL check, the mode dispatch (ONCE / POLL / STREAM with
`updates_only` / anything else), the goroutines spawned and their order.

The effects are run on the model's subscriber under the model's sequential reading of the
goroutines (`go s.processSubscription(&c)` ↦ the walk `doWalk`, `go s.sendStreamingResults(&c)` ↦
`pumpAll`, `addSubscription` ↦ the registration `regs`); the *order* of registration, sync marker
and walk in the STREAM arm — which the sequential model cannot distinguish, and on which the
concurrent theorems of C04 rest — is the separate obligation `stream_order`.

Atoms ↦ model terms (`firstRecv = some r`): `err == io.EOF` ↦ `false`, `err == nil` ↦ `true`
(a failing first `Recv` other than EOF is outside the model); `c.sr.GetSubscribe() == nil` ↦
`!r.hasSubscribe`; `…GetPrefix() == nil` ↦ `r.prefixNil`; `…GetTarget()` ↦ `r.target`;
`s.c.HasTarget(target)` ↦ `st.cache.hasTarget r.target`; `c.acl.Check(target)` ↦
`acl.check r.target`; `Mode == …ONCE/POLL/STREAM` ↦ `r.mode == .once/.poll/.stream`;
`GetUpdatesOnly()` ↦ `r.updatesOnly`; `Mode.String()` ↦ any string (statistics only).
-/
set_option linter.unusedSimpArgs false
set_option linter.unusedVariables false
namespace Gnmi.GenProps.SubscribeHandler
open Gnmi.Gen Gnmi.Sub Gnmi.GenProps.SubscribeReject

def lblSync : String := "c.queue.Insert(syncMarker{})"
def lblRegister : String := "remove := addSubscription(s.m, c.sr.GetSubscribe(), &matchClient{acl: c.acl, q: c.queue})"
def lblWalk : String := "go s.processSubscription(&c)"
def lblWalkOnce : String := "go func() { s.processSubscription(&c) c.queue.Close() }()"
def lblWalkPoll : String := "go s.processPollingSubscription(&c)"
def lblSender : String := "go s.sendStreamingResults(&c)"

/-- statements that do not touch what the model tracks (counters, deferred cleanup, the error
channel, the queue allocation, the schedule hook) -/
def bookkeeping : List String :=
  ["c.target = c.sr.GetSubscribe().GetPrefix().GetTarget()", "defer s.updateTargetCounts(c.target)()",
   "defer s.updateTypeCounts(strings.ToLower(m))()", "c.queue = coalesce.NewQueue()", "defer c.queue.Close()",
   "c.errC = errC", "defer remove()", "verifPoint(\"subscribe.registered\")"]

def applyEff (st : State) (r : Req) (e : Eff) (s : Subscriber) : Option Subscriber :=
  if e.label = lblSync then some { s with queue := insertSync s.queue }
  else if e.label = lblRegister then some { s with regs := regQueries r }
  else if e.label = lblWalk then some (doWalk st.cache s)
  else if e.label = lblWalkOnce then
    let s := doWalk st.cache s
    some (if s.alive then { s with closed := true } else s)
  else if e.label = lblWalkPoll then some (doWalk st.cache s)
  else if e.label = lblSender then some (pumpAll s)
  else if bookkeeping.contains e.label then some s
  else none

def run (st : State) (r : Req) : List Eff → Subscriber → Option Subscriber
  | [], s => some s
  | e :: es, s => (applyEff st r e s).bind (run st r es)

/-- the outcome of the region on the model's state: a rejection ends the RPC with its status having
done nothing but bookkeeping; `return <-errC` means the subscription was set up -/
def exec (st : State) (id : String) (acl : Acl) (r : Req) (o : Outcome) : Option State :=
  match codeOf o.ret with
  | some c => if o.labels.all bookkeeping.contains then some (ended st id acl c) else none
  | none =>
    if o.ret = .label "<-errC" then
      (run st r o.effects (newSubscriber (st.pregated.contains id) id r acl)).map
        (fun s => { st with subs := st.subs ++ [s] })
    else none

/-- EOF before a request -/
theorem tie_eof (st : State) (id : String) (acl : Acl) (hacl : ∀ (h : acl = .fails), False)
    (a b c e f g h i j : Bool) (t ms : String) :
    exec st id acl {} (gen_Subscribe (err_eq_io_EOF := true) (err_eq_nil := a)
        (c_sr_GetSubscribe_eq_nil := b) (c_sr_GetSubscribe_GetPrefix_eq_nil := c)
        (c_sr_GetSubscribe_GetPrefix_GetTarget := t) (s_c_HasTarget_c_sr_GetSubscribe_GetPrefix_GetTarget := e)
        (c_acl_Check_c_sr_GetSubscribe_GetPrefix_GetTarget := f)
        (c_sr_GetSubscribe_Mode_eq_pb_SubscriptionList_ONCE := g)
        (c_sr_GetSubscribe_Mode_eq_pb_SubscriptionList_POLL := h)
        (c_sr_GetSubscribe_Mode_eq_pb_SubscriptionList_STREAM := i)
        (c_sr_GetSubscribe_GetUpdatesOnly := j) (c_sr_GetSubscribe_Mode_String := ms))
      = some (subscribe st id acl none) := by
  unfold gen_Subscribe subscribe
  cases acl <;> first | exact absurd rfl (fun h => hacl h) | simp [exec, codeOf, ended, Outcome.labels]

/-- a first request: checks, dispatch and set-up are the model's -/
theorem tie (st : State) (id : String) (acl : Acl) (hacl : ∀ (h : acl = .fails), False) (r : Req) (ms : String) :
    exec st id acl r (gen_Subscribe (err_eq_io_EOF := false) (err_eq_nil := true)
        (c_sr_GetSubscribe_eq_nil := !r.hasSubscribe) (c_sr_GetSubscribe_GetPrefix_eq_nil := r.prefixNil)
        (c_sr_GetSubscribe_GetPrefix_GetTarget := r.target)
        (s_c_HasTarget_c_sr_GetSubscribe_GetPrefix_GetTarget := st.cache.hasTarget r.target)
        (c_acl_Check_c_sr_GetSubscribe_GetPrefix_GetTarget := acl.check r.target)
        (c_sr_GetSubscribe_Mode_eq_pb_SubscriptionList_ONCE := r.mode == .once)
        (c_sr_GetSubscribe_Mode_eq_pb_SubscriptionList_POLL := r.mode == .poll)
        (c_sr_GetSubscribe_Mode_eq_pb_SubscriptionList_STREAM := r.mode == .stream)
        (c_sr_GetSubscribe_GetUpdatesOnly := r.updatesOnly) (c_sr_GetSubscribe_Mode_String := ms))
      = some (subscribe st id acl (some r)) := by
  rw [subscribe_eq st id acl hacl r]
  unfold gen_Subscribe
  cases h1 : r.hasSubscribe
  · simp [exec, codeOf, ended, Outcome.labels]
  by_cases h2 : r.prefixNil = true
  · simp [h2, exec, codeOf, ended, Outcome.labels]
  have h2 : r.prefixNil = false := by simpa using h2
  simp only [h2]
  by_cases h3 : r.target = ""
  · simp [h3, exec, codeOf, ended, Outcome.labels]
  cases h4 : st.cache.hasTarget r.target
  · simp [h3, exec, codeOf, ended, Outcome.labels, bookkeeping]
  by_cases hs : r.target = "*"
  · by_cases h6 : ms = "" <;> cases hm : r.mode <;> cases hu : r.updatesOnly <;>
      simp [h3, hs, h6, hm, hu, exec, codeOf, ended, Outcome.labels, bookkeeping, run, applyEff,
        lblSync, lblRegister, lblWalk, lblWalkOnce, lblWalkPoll, lblSender]
  · cases ha : acl.check r.target
    · by_cases h6 : ms = "" <;>
        simp [h3, hs, ha, h6, exec, codeOf, ended, Outcome.labels, bookkeeping]
    · by_cases h6 : ms = "" <;> cases hm : r.mode <;> cases hu : r.updatesOnly <;>
        simp [h3, hs, ha, h6, hm, hu, exec, codeOf, ended, Outcome.labels, bookkeeping, run, applyEff,
          lblSync, lblRegister, lblWalk, lblWalkOnce, lblWalkPoll, lblSender]

/-- **order in the STREAM arm** (what `C04.converges` depends on, `C04.swap_breaks`): on every path
that registers the subscription, the sync marker of an `updates_only` subscription is queued
before the registration, and the walk is started after it -/
def orderedStream : List String → Bool
  | [] => true
  | l :: rest =>
    (if l = lblRegister then !rest.contains lblSync
     else if l = lblWalk then !rest.contains lblRegister
     else true) && orderedStream rest

theorem stream_order (a b c e f g h i j k l : Bool) (t ms : String) :
    orderedStream (gen_Subscribe (err_eq_io_EOF := k) (err_eq_nil := a)
        (c_sr_GetSubscribe_eq_nil := b) (c_sr_GetSubscribe_GetPrefix_eq_nil := c)
        (c_sr_GetSubscribe_GetPrefix_GetTarget := t) (s_c_HasTarget_c_sr_GetSubscribe_GetPrefix_GetTarget := e)
        (c_acl_Check_c_sr_GetSubscribe_GetPrefix_GetTarget := f)
        (c_sr_GetSubscribe_Mode_eq_pb_SubscriptionList_ONCE := g)
        (c_sr_GetSubscribe_Mode_eq_pb_SubscriptionList_POLL := h)
        (c_sr_GetSubscribe_Mode_eq_pb_SubscriptionList_STREAM := i)
        (c_sr_GetSubscribe_GetUpdatesOnly := j) (c_sr_GetSubscribe_Mode_String := ms)).labels = true
    ∧ (l = l) := by
  refine ⟨?_, rfl⟩
  unfold gen_Subscribe
  all_goals cases k <;> (try simp only [↓reduceIte, Bool.false_eq_true, Bool.not_true, Bool.not_false, beq_self_eq_true, beq_iff_eq, Bool.true_and, Bool.false_and, Bool.and_true, Bool.and_false, Bool.not_eq_true', not_true_eq_false, not_false_eq_true]) <;> (try (simp [orderedStream, Outcome.labels, lblRegister, lblSync, lblWalk, *]; done))
  all_goals cases a <;> (try simp only [↓reduceIte, Bool.false_eq_true, Bool.not_true, Bool.not_false, beq_self_eq_true, beq_iff_eq, Bool.true_and, Bool.false_and, Bool.and_true, Bool.and_false, Bool.not_eq_true', not_true_eq_false, not_false_eq_true]) <;> (try (simp [orderedStream, Outcome.labels, lblRegister, lblSync, lblWalk, *]; done))
  all_goals cases b <;> (try simp only [↓reduceIte, Bool.false_eq_true, Bool.not_true, Bool.not_false, beq_self_eq_true, beq_iff_eq, Bool.true_and, Bool.false_and, Bool.and_true, Bool.and_false, Bool.not_eq_true', not_true_eq_false, not_false_eq_true]) <;> (try (simp [orderedStream, Outcome.labels, lblRegister, lblSync, lblWalk, *]; done))
  all_goals cases c <;> (try simp only [↓reduceIte, Bool.false_eq_true, Bool.not_true, Bool.not_false, beq_self_eq_true, beq_iff_eq, Bool.true_and, Bool.false_and, Bool.and_true, Bool.and_false, Bool.not_eq_true', not_true_eq_false, not_false_eq_true]) <;> (try (simp [orderedStream, Outcome.labels, lblRegister, lblSync, lblWalk, *]; done))
  all_goals by_cases ht : t = "" <;> (try simp only [↓reduceIte, Bool.false_eq_true, Bool.not_true, Bool.not_false, beq_self_eq_true, beq_iff_eq, Bool.true_and, Bool.false_and, Bool.and_true, Bool.and_false, Bool.not_eq_true', not_true_eq_false, not_false_eq_true, ht]) <;> (try (simp [orderedStream, Outcome.labels, lblRegister, lblSync, lblWalk, *]; done))
  all_goals cases e <;> (try simp only [↓reduceIte, Bool.false_eq_true, Bool.not_true, Bool.not_false, beq_self_eq_true, beq_iff_eq, Bool.true_and, Bool.false_and, Bool.and_true, Bool.and_false, Bool.not_eq_true', not_true_eq_false, not_false_eq_true]) <;> (try (simp [orderedStream, Outcome.labels, lblRegister, lblSync, lblWalk, *]; done))
  all_goals by_cases hm : ms = "" <;> (try simp only [↓reduceIte, Bool.false_eq_true, Bool.not_true, Bool.not_false, beq_self_eq_true, beq_iff_eq, Bool.true_and, Bool.false_and, Bool.and_true, Bool.and_false, Bool.not_eq_true', not_true_eq_false, not_false_eq_true, hm]) <;> (try (simp [orderedStream, Outcome.labels, lblRegister, lblSync, lblWalk, *]; done))
  all_goals by_cases hs : t = "*" <;> (try simp only [↓reduceIte, Bool.false_eq_true, Bool.not_true, Bool.not_false, beq_self_eq_true, beq_iff_eq, Bool.true_and, Bool.false_and, Bool.and_true, Bool.and_false, Bool.not_eq_true', not_true_eq_false, not_false_eq_true, hs]) <;> (try (simp [orderedStream, Outcome.labels, lblRegister, lblSync, lblWalk, *]; done))
  all_goals cases f <;> (try simp only [↓reduceIte, Bool.false_eq_true, Bool.not_true, Bool.not_false, beq_self_eq_true, beq_iff_eq, Bool.true_and, Bool.false_and, Bool.and_true, Bool.and_false, Bool.not_eq_true', not_true_eq_false, not_false_eq_true]) <;> (try (simp [orderedStream, Outcome.labels, lblRegister, lblSync, lblWalk, *]; done))
  all_goals cases g <;> (try simp only [↓reduceIte, Bool.false_eq_true, Bool.not_true, Bool.not_false, beq_self_eq_true, beq_iff_eq, Bool.true_and, Bool.false_and, Bool.and_true, Bool.and_false, Bool.not_eq_true', not_true_eq_false, not_false_eq_true]) <;> (try (simp [orderedStream, Outcome.labels, lblRegister, lblSync, lblWalk, *]; done))
  all_goals cases h <;> (try simp only [↓reduceIte, Bool.false_eq_true, Bool.not_true, Bool.not_false, beq_self_eq_true, beq_iff_eq, Bool.true_and, Bool.false_and, Bool.and_true, Bool.and_false, Bool.not_eq_true', not_true_eq_false, not_false_eq_true]) <;> (try (simp [orderedStream, Outcome.labels, lblRegister, lblSync, lblWalk, *]; done))
  all_goals cases i <;> (try simp only [↓reduceIte, Bool.false_eq_true, Bool.not_true, Bool.not_false, beq_self_eq_true, beq_iff_eq, Bool.true_and, Bool.false_and, Bool.and_true, Bool.and_false, Bool.not_eq_true', not_true_eq_false, not_false_eq_true]) <;> (try (simp [orderedStream, Outcome.labels, lblRegister, lblSync, lblWalk, *]; done))
  all_goals cases j <;> (try simp only [↓reduceIte, Bool.false_eq_true, Bool.not_true, Bool.not_false, beq_self_eq_true, beq_iff_eq, Bool.true_and, Bool.false_and, Bool.and_true, Bool.and_false, Bool.not_eq_true', not_true_eq_false, not_false_eq_true]) <;> (try (simp [orderedStream, Outcome.labels, lblRegister, lblSync, lblWalk, *]; done))

end Gnmi.GenProps.SubscribeHandler
