import Gnmi.Gen.MetadataResetEntry
import Gnmi.Model.Metadata
/-!
# Obligation: `(*Metadata).ResetEntry` as the source has it now = `Metadata.Md.resetEntry` (C14)

`Gnmi.Gen.gen_ResetEntry` is regenerated from `metadata/metadata.go` on every check run.  This
module ties it to the metadata model proper (`Model/Metadata.lean`: registries, nil pointers,
`InitZero`, `ResetAction`), for every registry, every object and every entry name.

Atoms ↦ model terms: `validBool/validInt/validStr(entry) == nil` ↦ `validX r entry = none`;
`TargetIntValues[entry].InitZero` ↦ the `initZero` of `r.intVal? entry` (only looked at when
`validInt` succeeded, i.e. the pointer is non-nil); `TargetStrValues[entry].ResetAction ==
DefaultValue / Delete` ↦ the `resetAction` of `r.strVal? entry`.
-/
set_option linter.unusedSimpArgs false
set_option linter.unusedVariables false
namespace Gnmi.GenProps.MetadataResetEntryMd
open Gnmi.Gen Gnmi.Metadata

def applyEff (r : Registry) (entry : String) (e : Eff) (m : Md) : Option Md :=
  if e.label = "m.SetBool(entry, false)" then some (m.setBool r entry false).1
  else if e.label = "m.SetInt(entry, 0)" then some (m.setInt r entry 0).1
  else if e.label = "delete(m.valuesInt, entry)" then some { m with ints := m.ints.erase entry }
  else if e.label = "m.SetStr(entry, \"\")" then some (m.setStr r entry "").1
  else if e.label = "delete(m.valuesStr, entry)" then some { m with strs := m.strs.erase entry }
  else if e.label = "m.mu.Lock()" ∨ e.label = "m.mu.Unlock()" then some m
  else none

def run (r : Registry) (entry : String) : List Eff → Md → Option Md
  | [], m => some m
  | e :: es, m => (applyEff r entry e m).bind (run r entry es)

def errOf (v : Gen.Val) : Option (Option Err) :=
  if v = .nil then some none else if v = .error then some (some .unsupported) else none

def exec (r : Registry) (entry : String) (m : Md) (o : Outcome) : Option (Md × Option Err) :=
  (run r entry o.effects m).bind (fun m' => (errOf o.ret).map (fun e => (m', e)))

def initZeroOf (r : Registry) (entry : String) : Bool :=
  match r.intVal? entry with
  | some v => v.initZero
  | none => false

def actionIs (r : Registry) (entry : String) (a : ResetAction) : Bool :=
  match r.strVal? entry with
  | some v => decide (v.resetAction = a)
  | none => false

theorem tie (r : Registry) (m : Md) (entry : String) :
    exec r entry m (gen_ResetEntry (TargetIntValues_entry_InitZero := initZeroOf r entry)
        (TargetStrValues_entry_ResetAction_eq_DefaultValue := actionIs r entry .defaultValue)
        (TargetStrValues_entry_ResetAction_eq_Delete := actionIs r entry .delete)
        (validBool_entry_eq_nil := decide (validBool r entry = none))
        (validInt_entry_eq_nil := decide (validInt r entry = none))
        (validStr_entry_eq_nil := decide (validStr r entry = none)))
      = some (m.resetEntry r entry) := by
  unfold gen_ResetEntry Md.resetEntry initZeroOf actionIs
  by_cases hb : validBool r entry = none
  · simp [hb, exec, run, applyEff, errOf]
  by_cases hi : validInt r entry = none
  · cases hv : r.intVal? entry with
    | none => simp [validInt, hv] at hi
    | some v => cases hz : v.initZero <;> simp [hb, hi, hv, hz, exec, run, applyEff, errOf]
  by_cases hs : validStr r entry = none
  · cases hv : r.strVal? entry with
    | none => simp [validStr, hv] at hs
    | some v =>
      by_cases h1 : v.resetAction = .defaultValue
      · simp [hb, hi, hs, hv, h1, exec, run, applyEff, errOf]
      · by_cases h2 : v.resetAction = .delete <;> simp [hb, hi, hs, hv, h1, h2, exec, run, applyEff, errOf]
  · simp [hb, hi, hs, exec, run, applyEff, errOf]

end Gnmi.GenProps.MetadataResetEntryMd
