import Gnmi.Gen.PathToStrings
import Gnmi.Gen.PathToStringsElem
import Gnmi.Model.PathConv
/-!
# Obligation: `path.ToStrings` as the source has it now = `PV.toStrings`  (C19)

Regenerated from `path/path.go` on every check run:

* `gen_ToStrings` — the function body: the nil test, the optional target / origin header, the
  deprecated-`element` fallback when there are no `elem`s — its result is `append(is, p.GetElement()...)`
  on the *fresh* slice `is` (made by `make` in this call; `c19_seed8` returns `p.GetElement()`
  itself when nothing was prepended: another result text and another condition) —, else the loop
  over the elements (one effect labelled by its header and by what `is` holds on entry) and `return is`;
* `gen_ToStringsElem` — the loop body: the name, then by the number of keys nothing / the only
  value / `sortedVals`.

The translator substitutes the local `is`, so the result texts spell out the slice expression; the
interpreter reads each of them as the list it denotes.

Atoms ↦ model terms: `p == nil` ↦ `p.isNone`; `prefix` ↦ `pfx`; `p.GetTarget()`, `p.GetOrigin()` ↦
the fields; `len(p.GetElem())` ↦ `p.elem.length`; `len(e.GetKey())` ↦ `e.key.length`.
-/
set_option linter.unusedSimpArgs false
set_option linter.unusedVariables false
set_option maxRecDepth 8000
namespace Gnmi.GenProps.PathToStrings
open Gnmi.Gen Gnmi.PV

/-! ## the loop body -/

/-- `is` on entry of the iteration and now -/
def applyElem (e : PathElem) (x : Eff) (s : List String × List String) : Option (List String × List String) :=
  if x.label = "is = append(is, e.GetName())" then some (s.1, s.2 ++ [e.name])
  else if x.label = "for _, v := range keys { is = append(is, v) }" then some (s.1, s.2 ++ e.key.map (·.2))
  else if x.label = "is = append(append(is, e.GetName()), sortedVals(e.GetKey())...)" then
    some (s.1, (s.1 ++ [e.name]) ++ sortedVals e.key)       -- the value written, in terms of `is` on entry
  else none

def runElem (e : PathElem) : List Eff → List String × List String → Option (List String × List String)
  | [], s => some s
  | x :: xs, s => (applyElem e x s).bind (runElem e xs)

def loopElems : List PathElem → List String → Option (List String)
  | [], is => some is
  | e :: es, is =>
    let o := gen_ToStringsElem (len_e_GetKey := e.key.length)
    (if o.ret = .fall then (runElem e o.effects (is, is)).map (·.2) else none).bind (loopElems es)

theorem loopElems_eq (es : List PathElem) (is : List String) :
    loopElems es is = some (is ++ es.flatMap elemStrings) := by
  induction es generalizing is with
  | nil => simp [loopElems]
  | cons e rest ih =>
    unfold loopElems gen_ToStringsElem
    obtain ⟨name, key⟩ := e
    rcases key with _ | ⟨kv, _ | ⟨kv2, r⟩⟩
    · simp [runElem, applyElem, ih, elemStrings]
    · simp [runElem, applyElem, ih, elemStrings]
    · have h0 : ¬ ((r.length : Int) + 1 + 1 = 0) := by omega
      have h1 : ¬ ((r.length : Int) + 1 + 1 = 1) := by omega
      simp [runElem, applyElem, ih, elemStrings, h0, h1]

/-! ## the function -/

/-- the slice a result / loop-entry text denotes -/
def sliceOf (p : GPath) (s : String) : Option (List String × Bool) :=
  if s = "[]string{}" then some ([], false)
  else if s = "append(append(append(make([]string, 0, 20), p.GetTarget()), p.GetOrigin()), p.GetElement()...)" then
    some ([p.target, p.origin] ++ p.element, false)
  else if s = "append(append(make([]string, 0, 20), p.GetTarget()), p.GetElement()...)" then some ([p.target] ++ p.element, false)
  else if s = "append(append(make([]string, 0, 20), p.GetOrigin()), p.GetElement()...)" then some ([p.origin] ++ p.element, false)
  else if s = "append(make([]string, 0, 20), p.GetElement()...)" then some (p.element, false)
  else if s = "for _, e := range p.GetElem() { } | is = append(append(make([]string, 0, 20), p.GetTarget()), p.GetOrigin())" then
    some ([p.target, p.origin], true)
  else if s = "for _, e := range p.GetElem() { } | is = append(make([]string, 0, 20), p.GetTarget())" then some ([p.target], true)
  else if s = "for _, e := range p.GetElem() { } | is = append(make([]string, 0, 20), p.GetOrigin())" then some ([p.origin], true)
  else if s = "for _, e := range p.GetElem() { } | is = make([]string, 0, 20)" then some ([], true)
  else none

def valOf (p : GPath) (o : Outcome) : Option (List String) :=
  match o.effects, o.ret with
  | [], .label s => (sliceOf p s).bind (fun r => if r.2 then none else some r.1)
  | [e], .label "is" => (sliceOf p e.label).bind (fun r => if r.2 then loopElems p.elem r.1 else none)
  | _, _ => none

/-- **`ToStrings`** on a non-nil path = `PV.toStrings` -/
theorem tie (p : GPath) (pfx : Bool) :
    valOf p (gen_ToStrings (p_eq_nil := false) (v_prefix := pfx) (p_GetTarget := p.target)
        (p_GetOrigin := p.origin) (len_p_GetElem := p.elem.length))
      = some (toStrings (some p) pfx) := by
  unfold gen_ToStrings toStrings header
  by_cases ht : p.target = "" <;> by_cases ho : p.origin = "" <;> cases pfx <;>
    (cases he : p.elem with
     | nil => simp [valOf, sliceOf, ht, ho, he]
     | cons e es =>
       have hne : ¬ ((es.length : Int) + 1 = 0) := by omega
       simp [valOf, sliceOf, ht, ho, he, hne, loopElems_eq])

/-- a nil path gives the empty slice -/
theorem tie_nil (pfx : Bool) (t o : String) (n : Int) :
    (gen_ToStrings (p_eq_nil := true) (v_prefix := pfx) (p_GetTarget := t) (p_GetOrigin := o) (len_p_GetElem := n))
      = Gen.ret (.label "[]string{}") ∧ toStrings none pfx = [] := by
  unfold gen_ToStrings toStrings
  simp

/-- a concrete instance: target, no origin, one element with one key -/
example : valOf { target := "dev", elem := [{ name := "if", key := [("name", "eth0")] }] }
    (gen_ToStrings (p_eq_nil := false) (v_prefix := true) (p_GetTarget := "dev") (p_GetOrigin := "") (len_p_GetElem := 1))
    = some ["dev", "if", "eth0"] := by decide

end Gnmi.GenProps.PathToStrings
