import Gnmi.Gen.CacheGnmiRemoveOlder
import Gnmi.Model.Cache
/-!
# Obligation: the age test of `(*Target).gnmiRemove` as the source has it now = `Cache.olderThan`

`Gnmi.Gen.gen_gnmiRemoveOlder` is regenerated from `cache/cache.go` on every check run: the
predicate `gnmiRemove` hands to `WalkDeleted` (which stored leaves a delete stamped `ts` removes).
Atoms: `n.GetTimestamp()` ↦ the delete's timestamp, `v.(*pb.Notification).GetTimestamp()` ↦ the
stored notification's.
-/
set_option linter.unusedSimpArgs false
set_option linter.unusedVariables false
namespace Gnmi.GenProps.CacheGnmiRemoveOlder
open Gnmi.Gen

theorem tie (ts : Int) (v : Cache.Noti) :
    gen_gnmiRemoveOlder (n_GetTimestamp := ts) (v_pb_Notification_GetTimestamp := v.ts)
      = Gen.ret (.bool (Cache.olderThan ts v)) := by
  unfold gen_gnmiRemoveOlder Cache.olderThan
  by_cases h : v.ts < ts <;> simp [h] <;> omega

end Gnmi.GenProps.CacheGnmiRemoveOlder
