import Gnmi.Gen.ClientReconnectLoop
import Gnmi.Model.ClientLTS
/-!
# Obligation: one iteration of the loop of `(*ReconnectClient).Subscribe` as the source has it now
= the S-goroutine path `innerRet → … → connect | returned` of the client LTS (C18)

`Gnmi.Gen.gen_reconnectIteration` is regenerated from `client/reconnect.go` on every check run: the
inner `Subscribe`, the `disconnect` callback, the non-blocking check of `ctx.Done()` with the exit
`return ctx.Err()`, the backoff bookkeeping, the sleep, the `reset` callback, and falling off the
end of the body (= the next iteration).

The model's S goroutine after the inner `Subscribe` returned (`spc = innerRet e`) makes the steps
`disc`, then `ctxExit` (the deferred `done()` then makes `finish`) when the context is done, else
`sleepStart`, `wake`, `reset` and is back at `connect`.  `stepsOf` reads the same steps off the
effects and the return of the region; the obligation is that they are exactly the labels the
executable semantics `sNext` takes from `innerRet e` — for both values of the context test.

Atoms: `ready(<-ctx.Done())` ↦ `c.ctxDone`; `err == nil` ↦ `!e`; `p.disconnect == nil`,
`p.reset == nil` ↦ `false` (the model is about a client with both callbacks; a nil callback drops
exactly its own call, `nil_callbacks`); `time.Since(start)`, `RetryMaxDelay` ↦ any (backoff
bookkeeping is not observable in the model: any positive delay).
-/
set_option linter.unusedSimpArgs false
set_option linter.unusedVariables false
namespace Gnmi.GenProps.ClientReconnectLoop
open Gnmi.Gen Gnmi.ClientLTS

/-- the LTS labels an effect of the region stands for -/
def stepOfEff (e : Eff) : Option (List Label) :=
  if e.label = "start := time.Now()" then some []
  else if e.label = "err := p.Client.Subscribe(ctx, q, clientType...)" then some []   -- the steps up to `innerRet`
  else if e.label = "p.disconnect()" then some [.disc]
  else if e.label = "p.backoff.Reset()" then some []
  else if e.label = "bo := p.backoff.NextBackOff()" then some []
  else if e.label = "time.Sleep(bo)" then some [.sleepStart, .wake]
  else if e.label = "p.reset()" then some [.reset]
  else none

def stepsOfEffs : List Eff → Option (List Label)
  | [] => some []
  | e :: es => (stepOfEff e).bind (fun a => (stepsOfEffs es).map (a ++ ·))

/-- `return ctx.Err()` leaves through the deferred `done()`; falling off the body loops -/
def stepsOf (o : Outcome) : Option (List Label) :=
  (stepsOfEffs o.effects).bind (fun a =>
    if o.ret = .label "ctx.Err()" then some (a ++ [.ctxExit, .finish])
    else if o.ret = .fall then some a
    else none)

/-- the labels `sNext` takes from `c` until S is at `connect` again or has returned (at most 4) -/
def sPath {N : Type} (s : Script N) (c : Cfg N) : Nat → List Label
  | 0 => []
  | fuel + 1 =>
    match c.spc with
    | .connect => []
    | .returned _ => []
    | _ =>
      match sNext true s false c with
      | some (l, c') => l :: sPath s c' fuel
      | none => []

theorem tie {N : Type} (s : Script N) (c : Cfg N) (e : Bool) (hc : c.spc = .innerRet e) (since maxd : Int) :
    stepsOf (gen_reconnectIteration (RetryMaxDelay := maxd) (err_eq_nil := !e) (p_disconnect_eq_nil := false)
        (p_reset_eq_nil := false) (ready_recv_ctx_Done := c.ctxDone) (time_Since_start := since))
      = some (sPath s c 4) := by
  have hd : (c.doDisc e).ctxDone = c.ctxDone := rfl
  unfold gen_reconnectIteration
  cases hcd : c.ctxDone <;> cases e <;> by_cases hlt : maxd < since <;>
    simp [stepsOf, stepsOfEffs, stepOfEff, sPath, sNext, hc, Cfg.doDisc, Cfg.doReset, Cfg.doFinish, Cfg.ctxDone, hlt] <;>
    simp_all [Cfg.ctxDone]

/-- nil callbacks drop exactly their own call: the same steps without `disc` / `reset` -/
theorem nil_callbacks (e dn rn cd : Bool) (since maxd : Int) :
    stepsOf (gen_reconnectIteration (RetryMaxDelay := maxd) (err_eq_nil := e) (p_disconnect_eq_nil := dn)
        (p_reset_eq_nil := rn) (ready_recv_ctx_Done := cd) (time_Since_start := since))
      = some ((if dn then [] else [Label.disc]) ++
          (if cd then [.ctxExit, .finish] else [.sleepStart, .wake] ++ (if rn then [] else [.reset]))) := by
  unfold gen_reconnectIteration
  cases e <;> cases dn <;> cases rn <;> cases cd <;> by_cases hlt : maxd < since <;>
    simp [stepsOf, stepsOfEffs, stepOfEff, hlt]

end Gnmi.GenProps.ClientReconnectLoop
