import Gnmi.Gen.ManagerCreateConnLoop
import Gnmi.Gen.ManagerMonitor
import Gnmi.Gen.ManagerMonitorDeferred
import Gnmi.Model.ManagerConn
/-!
# Obligations: `(*Manager).createConn` (one next hop), `(*Manager).monitor` and its deferred
report as the source has them now = the acquire / release bookkeeping `Manager.connEff` of the
manager's connection ledger (C16, C13)

`Model/ManagerConn.lean` attaches the ledger to program-counter pairs of the monitor goroutine:
`dial → open_` acquires (*`Connection` returned `err == nil`*), every way from inside `subscribe`
(`open_`, `send`, `reset`) to `connErr` releases (*`defer done()`*), `dial → connErr` and
`gmeta → connErr` do nothing, and at `connErr` (the deferred `m.connectError`) the handle is
released already (*deferred calls run last-in first-out*).  The three starred sentences are facts
about `manager.go`; this module proves them of the definitions regenerated from it.

* `gen_createConnIteration` (body of the loop over the next hops): context poll, the optional
  timeout context, `Connection`, `if err == nil { return }`.  `createConn` folds it over any list of
  next hops (per hop: is the context done, did `Connection` succeed): a handle is acquired by
  exactly the successful `Connection` call, the loop stops there, and the function reports success
  exactly when one handle was acquired (`createConn_acquires_iff_ok`).
* `gen_monitor`: the effects of the body followed by the deferred calls in reverse order of their
  registration (`unwind`), run on (program counter, ledger), give the ledger `connEff` gives along
  the model's path (`tie_ledger`), and `done()` comes before the deferred report
  (`done_before_connectError`).
* `gen_monitorDeferred`: the report is made exactly when `monitor` returns an error (and the
  callback is set).

Atoms: `ready(<-ctx.Done())`, `err == nil` (of `Connection`; in `monitor`: of `gRPCMeta`, and
`err·2 == nil` of `createConn`), `m.timeout` — all universally quantified.
-/
set_option linter.unusedSimpArgs false
set_option linter.unusedVariables false
namespace Gnmi.GenProps.ManagerMonitor
open Gnmi.Gen Gnmi.Manager

/-! ## `createConn`: one next hop, and the loop -/

/-- how one iteration ends -/
inductive HopEnd
  | failCtx     -- `return nil, func() {}, ctx.Err()`
  | success     -- bare `return` with `err == nil`: `conn`, `done` of this hop
  | nextHop     -- fell off the body: `err != nil`, try the next one
  deriving DecidableEq, Repr

/-- per effect: number of handles acquired, given whether `Connection` succeeded -/
def acqOfEff (errNil : Bool) (e : Eff) : Option Nat :=
  if e.label = "c, cancel := context.WithTimeout(ctx, m.timeout)" ∨ e.label = "defer cancel()" then some 0
  else if e.label = "conn, done, err = m.connectionManager.Connection(connCtx, nh, t.GetDialer())" then
    some (if errNil then 1 else 0)
  else none

def acqOfEffs (errNil : Bool) : List Eff → Option Nat
  | [] => some 0
  | e :: es => (acqOfEff errNil e).bind (fun a => (acqOfEffs errNil es).map (a + ·))

def hopEnd (v : Gen.Val) : Option HopEnd :=
  if v = .label "nil, func() { }, ctx.Err()" then some .failCtx
  else if v = .nil then some .success
  else if v = .fall ∨ v = .label "continue" then some .nextHop
  else none

/-- one hop: handles acquired and how the iteration ends -/
def hop (timeout : Int) (ctxDone errNil : Bool) : Option (Nat × HopEnd) :=
  let o := gen_createConnIteration (err_eq_nil := errNil) (m_timeout := timeout) (ready_recv_ctx_Done := ctxDone)
  (acqOfEffs errNil o.effects).bind (fun a => (hopEnd o.ret).map (fun e => (a, e)))

/-- **one next hop**: a done context ends the loop with an error before anything is acquired;
otherwise `Connection` is called once, and the iteration returns success exactly when it acquired -/
theorem tie_hop (timeout : Int) (ctxDone errNil : Bool) :
    hop timeout ctxDone errNil =
      some (if ctxDone then (0, .failCtx) else if errNil then (1, .success) else (0, .nextHop)) := by
  unfold hop gen_createConnIteration
  cases ctxDone <;> cases errNil <;> by_cases h : 0 < timeout <;>
    simp [acqOfEffs, acqOfEff, hopEnd, h]

/-- the loop over the next hops (`(ctxDone, errNil)` per hop); falling off the last hop is the final
bare `return` with the last (non-nil) `err` -/
def createConn (timeout : Int) : List (Bool × Bool) → Option (Nat × Bool)
  | [] => some (0, false)
  | (cd, en) :: rest =>
    (hop timeout cd en).bind (fun r =>
      match r.2 with
      | .failCtx => some (r.1, false)
      | .success => some (r.1, true)
      | .nextHop => (createConn timeout rest).map (fun r' => (r.1 + r'.1, r'.2)))

/-- **`Pc.dial → Pc.open_` acquires, `Pc.dial → Pc.connErr` does not**: over any next hops and any
behaviour of the collaborators, `createConn` returns `err == nil` exactly when it acquired exactly
one handle, and acquired none when it returns an error -/
theorem createConn_acquires_iff_ok (timeout : Int) (hops : List (Bool × Bool)) :
    ∃ a ok, createConn timeout hops = some (a, ok) ∧ (ok = true → a = 1) ∧ (ok = false → a = 0) := by
  induction hops with
  | nil => exact ⟨0, false, rfl, by simp, by simp⟩
  | cons h rest ih =>
    obtain ⟨cd, en⟩ := h
    obtain ⟨a, ok, hr, h1, h2⟩ := ih
    simp only [createConn, tie_hop]
    cases cd <;> cases en <;> cases ok <;> simp_all

/-! ## `monitor`: the ledger along the body and the deferred calls -/

/-- the deferred closure (`gen_monitorDeferred`) -/
def deferredReport : String := "ƒ()"

/-- the call a `defer` statement of `monitor` registers (a `defer` statement this table does not
know stays in the body, where `applyLabel` refuses it) -/
def deferredOf (l : String) : Option String :=
  if l = "defer done()" then some "done()"
  else if l = "defer ƒ()" then some deferredReport
  else none

/-- the labels in execution order: the body (without the `defer` statements), then the deferred
calls, last registered first -/
def unwind (effs : List Eff) : List String :=
  ((effs.map (·.label)).filter (fun l => (deferredOf l).isNone)) ++
  ((effs.map (·.label)).filterMap deferredOf).reverse

/-- one executed label on (program counter, ledger); `metaNil`, `connNil`: the results of `gRPCMeta`
and `createConn`; `last`: where inside `subscribe` the goroutine is when `subscribe` returns -/
def applyLabel (metaNil connNil : Bool) (last : Pc) (l : String) (s : Pc × Handles) : Option (Pc × Handles) :=
  let go (p : Pc) : Option (Pc × Handles) := some (p, (connEff s.1 p).apply s.2)
  if l = "meta, err := gRPCMeta(ctx, ta.name, ta.t, m.cred)" then
    if s.1 = .gmeta then go (if metaNil then .dial else .connErr 0 false false) else none
  else if l = "conn, done, err := m.createConn(sCtx, ta.name, ta.t)" then
    if s.1 = .dial then
      -- the ledger: what `createConn` acquired (`createConn_acquires_iff_ok`), not `connEff`
      some (if connNil then (.open_, 0 :: s.2) else (.connErr 0 false false, s.2))
    else none
  else if l = "m.subscribe(sCtx, ta, conn)" then
    if s.1 = .open_ then some (last, s.2) else none       -- inside `subscribe` the ledger is untouched
  else if l = "done()" then
    some (.connErr 0 false false, s.2.release)             -- the deferred release: leaves towards `connErr`
  else if l = deferredReport then
    match s.1 with
    | .connErr _ _ _ => some s
    | _ => none
  else none

def runLabels (metaNil connNil : Bool) (last : Pc) : List String → Pc × Handles → Option (Pc × Handles)
  | [], s => some s
  | l :: ls, s => (applyLabel metaNil connNil last l s).bind (runLabels metaNil connNil last ls)

/-- the model's side: `connEff` folded along a path of program counters -/
def ledgerAlong : List Pc → Handles → Handles
  | a :: b :: rest, h => ledgerAlong (b :: rest) ((connEff a b).apply h)
  | _, h => h

/-- the places from which `subscribe` returns to `monitor` -/
def Leaves (p : Pc) : Prop := p = .open_ ∨ p = .send ∨ ∃ j c, p = .reset j c

/-- **the ledger of one `monitor` call** is the one `connEff` prescribes along the model's path:
nothing on the two early returns, acquire at `dial → open_` and release on the way from inside
`subscribe` to `connErr` otherwise -/
theorem tie_ledger (metaNil connNil : Bool) (last : Pc) (hl : Leaves last) (h : Handles) :
    (runLabels metaNil connNil last
        (unwind (gen_monitor (err_eq_nil := metaNil) (err_v2_eq_nil := connNil)).effects) (.gmeta, h)).map (·.2)
      = some (ledgerAlong
          (if !metaNil then [.gmeta, .connErr 0 false false]
           else if !connNil then [.gmeta, .dial, .connErr 0 false false]
           else [.gmeta, .dial, .open_, last, .connErr 0 false false]) h) := by
  unfold gen_monitor
  rcases hl with rfl | rfl | ⟨j, c, rfl⟩ <;> cases metaNil <;> cases connNil <;>
    simp [unwind, deferredOf, runLabels, applyLabel, deferredReport, ledgerAlong, connEff, ConnEff.apply, Handles.release]

/-- **last-in first-out**: whenever `done()` is deferred it runs before the deferred report, so at
`Pc.connErr` the handle is released already -/
theorem done_before_connectError (metaNil connNil : Bool) :
    let ls := unwind (gen_monitor (err_eq_nil := metaNil) (err_v2_eq_nil := connNil)).effects
    ls.getLast? = some deferredReport ∧
    (ls.contains "done()" = (metaNil && connNil)) ∧
    (ls.contains "done()" = true → ls.dropLast.getLast? = some "done()") := by
  unfold gen_monitor
  cases metaNil <;> cases connNil <;> simp [unwind, deferredOf, deferredReport]

/-- what `monitor` returns: an error on the first two paths, `subscribe`'s result on the third -/
theorem monitor_returns (metaNil connNil : Bool) :
    (gen_monitor (err_eq_nil := metaNil) (err_v2_eq_nil := connNil)).ret =
      (if !metaNil then .error else if !connNil then .nil else .label "m.subscribe(sCtx, ta, conn)") := by
  unfold gen_monitor
  cases metaNil <;> cases connNil <;> rfl

/-- **the deferred report** is made exactly when `monitor` returns an error and the callback is set -/
theorem tie_deferred (errNil cbNil : Bool) :
    (gen_monitorDeferred (err_eq_nil := errNil) (m_connectError_eq_nil := cbNil)).labels =
      (if !errNil && !cbNil then ["m.connectError(ta.name, err)"] else []) := by
  unfold gen_monitorDeferred
  cases errNil <;> cases cbNil <;> rfl

/-- non-vacuity: a successful attempt that ends in `handleUpdates` (`reset 3 true`) acquires one
handle and releases it once -/
example : (runLabels true true (.reset 3 true)
    (unwind (gen_monitor (err_eq_nil := true) (err_v2_eq_nil := true)).effects) (.gmeta, [1])).map (·.2)
      = some [1, 1] := by decide

end Gnmi.GenProps.ManagerMonitor
