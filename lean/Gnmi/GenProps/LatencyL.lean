import Gnmi.Gen.LatencyCompute
import Gnmi.Gen.LatencyUpdate
import Gnmi.Gen.LatencyUpdateDeferred
import Gnmi.Model.Latency
/-!
# Obligations: `(*Latency).Compute`, `(*Latency).update` and its deferred closure as the source has
# them now = `Latency.L.computeLat`, `L.closeSlot`, `L.flush`  (C15)

Regenerated from `latency/latency.go` on every check run.

Atoms ↦ model terms: `l.compute(ts, Now())` ↦ `lat`; `l.totalDiff`, `l.count`, `l.max`, `l.min`,
`l.scaleFactor` ↦ the fields (`sf`); `l.start.IsZero()` ↦ `l.start.isNone`.  Hypotheses: the scale
factor is not zero (Go panics: the model's `panicked`), sum and count stay inside `int64`.
The loops over the windows enter as header labels ↦ `windows.map (·.add slot)` / the `updateMeta`s of
`L.flush`.

Equalities (of the fields the effects write), for all states.
-/
set_option linter.unusedSimpArgs false
set_option linter.unusedVariables false
namespace Gnmi.GenProps.LatencyL
open Gnmi.Gen Gnmi.Latency

/-- the running statistics after one effect; writes are refused outside `l.mu` -/
def applyEff (now : Int) (e : Eff) (s : L × Bool) : Option (L × Bool) :=
  if e.label = "l.mu.Lock()" then some (s.1, true)
  else if e.label = "defer l.mu.Unlock()" then some s
  else if !s.2 then none
  else if e.label = "l.totalDiff = _" then some ({ s.1 with totalDiff := e.args.headD 0 }, s.2)
  else if e.label = "l.count = _" then some ({ s.1 with count := e.args.headD 0 }, s.2)
  else if e.label = "l.max = _" then some ({ s.1 with max := e.args.headD 0 }, s.2)
  else if e.label = "l.min = _" then some ({ s.1 with min := e.args.headD 0 }, s.2)
  else if e.label = "l.start = nowTime" then some ({ s.1 with start := some now }, s.2)
  else none

def run (now : Int) : List Eff → L × Bool → Option (L × Bool)
  | [], s => some s
  | e :: es, s => (applyEff now e s).bind (run now es)

/-- **Compute** = `L.computeLat`: scaled sum, count, max, min (0 = unset), start of the slot set once;
all under `l.mu` -/
theorem tie_compute (l : L) (now lat : Int) (hsf : l.sf ≠ 0)
    (h1 : inI64 (Int.tdiv lat l.sf)) (h2 : inI64 (l.totalDiff + Int.tdiv lat l.sf)) (h3 : inI64 (l.count + 1)) :
    (run now (gen_latencyCompute (l_compute_ts_Now := lat) (l_count := l.count) (l_max := l.max) (l_min := l.min)
      (l_scaleFactor := l.sf) (l_start_IsZero := l.start.isNone) (l_totalDiff := l.totalDiff)).effects (l, false)).map (·.1)
      = some (l.computeLat now lat) := by
  unfold gen_latencyCompute L.computeLat quot
  simp only [wrap64_id h1, wrap64_id h2, wrap64_id h3]
  cases hs : l.start <;> by_cases ha : l.max < lat <;> by_cases hb : lat < l.min <;> by_cases hc : l.min = 0 <;>
    simp [run, applyEff, hsf, hs, ha, hb, hc]

/-- the first half of `update` on the running statistics (`slotAdd`: what the window loop does) -/
def applyUpd (slotAdd : L → L) (e : Eff) (s : L × Bool) : Option (L × Bool) :=
  if e.label = "l.mu.Lock()" then some (s.1, true)
  else if e.label = "defer l.mu.Unlock()" ∨ e.label = "defer ƒ()" then some s
  else if !s.2 then none
  else if e.label = "for _, window := range l.windows { }" then some (slotAdd s.1, s.2)
  else if e.label = "l.totalDiff = _" then some ({ s.1 with totalDiff := e.args.headD 1 }, s.2)
  else if e.label = "l.count = _" then some ({ s.1 with count := e.args.headD 1 }, s.2)
  else if e.label = "l.max = _" then some ({ s.1 with max := e.args.headD 1 }, s.2)
  else if e.label = "l.min = _" then some ({ s.1 with min := e.args.headD 1 }, s.2)
  else none

def runUpd (slotAdd : L → L) : List Eff → L × Bool → Option (L × Bool)
  | [], s => some s
  | e :: es, s => (applyUpd slotAdd e s).bind (runUpd slotAdd es)

/-- **update, first half** = `L.closeSlot`: nothing recorded → nothing added and nothing reset; else
the slot of the running statistics is added to every window *before* they are reset to zero -/
theorem tie_closeSlot (l : L) (ts : Int) :
    (runUpd (fun l' => { l' with windows := l'.windows.map (fun w => w.add (l'.curSlot ts)) })
      (gen_latencyUpdate (l_count := l.count)).effects (l, false)).map (·.1) = some (l.closeSlot ts) := by
  unfold gen_latencyUpdate L.closeSlot
  by_cases h : l.count = 0 <;> simp [runUpd, applyUpd, h, L.curSlot]

/-- the deferred closure is registered before the early return, so it runs on both paths: `L.update`
is `closeSlot` then `flush` -/
theorem deferred_always (c : Int) :
    (gen_latencyUpdate (l_count := c)).labels.take 3 = ["l.mu.Lock()", "defer l.mu.Unlock()", "defer ƒ()"] := by
  unfold gen_latencyUpdate; by_cases h : c = 0 <;> simp [Gen.Outcome.labels, h]

/-- **update, deferred half** = `L.flush`: every window's metadata first, then the start of the next slot -/
theorem tie_flush : gen_latencyUpdateDeferred.labels = ["for _, window := range l.windows { }", "l.start = ts"] := rfl

end Gnmi.GenProps.LatencyL
