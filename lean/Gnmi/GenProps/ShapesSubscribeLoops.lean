import Gnmi.Gen.SubscribeHead
import Gnmi.Gen.SubscribePollLoop
import Gnmi.Gen.SubscribeStreamLoop
/-!
# Obligations (shape): head of `Server.Subscribe`, one iteration of `processPollingSubscription` and of `sendStreamingResults` (subscribe/subscribe.go): a failing `NewRPCACL` ends the RPC with `Unauthenticated` before any `Recv`; a poll walks again only after a successful `Recv` on an open queue; the streaming loop arms the timer only around the `Send` of the sync marker and stops on a target delete unless the subscription is for `*`  (C05, C07, C08)

Regenerated on every check run.  Characterisations over all atoms of what the hand-written models assume
of these functions (not equalities with a model definition: the models take these facts as the shape of
their transitions).
-/
set_option linter.unusedSimpArgs false
set_option linter.unusedVariables false
namespace Gnmi.GenProps.ShapesSubscribeLoops
open Gnmi.Gen

/-- **Subscribe, head**: with an ACL configured, a failing `NewRPCACL` returns `Unauthenticated` and
nothing is received; otherwise exactly one `Recv` follows -/
theorem tie_head (errNil aclNil : Bool) :
    let o := gen_SubscribeHead (err_eq_nil := errNil) (s_o_acl_eq_nil := aclNil)
    (o.ret = .label "status(codes.Unauthenticated)" ↔ (aclNil = false ∧ errNil = false)) ∧
    ("c.sr, err = stream.Recv()" ∈ o.labels ↔ ¬ (aclNil = false ∧ errNil = false)) ∧
    ("c.acl = a" ∈ o.labels ↔ (aclNil = false ∧ errNil = true)) := by
  unfold gen_SubscribeHead; cases errNil <;> cases aclNil <;> simp [Gen.Outcome.labels]

/-- **poll**: the walk is repeated iff the queue is open and `Recv` succeeded; a closed queue and EOF
report `nil`, any other error itself; each of these ends the goroutine -/
theorem tie_poll (closed eof errNil : Bool) :
    let o := gen_pollIteration (c_queue_IsClosed := closed) (err_eq_io_EOF := eof) (err_eq_nil := errNil)
    ("s.processSubscription(c)" ∈ o.labels ↔ (closed = false ∧ eof = false ∧ errNil = true)) ∧
    ("c.errC <- nil" ∈ o.labels ↔ (closed = true ∨ eof = true)) ∧
    ("c.errC <- err" ∈ o.labels ↔ (closed = false ∧ eof = false ∧ errNil = false)) ∧
    (o.ret = .fall ↔ "s.processSubscription(c)" ∈ o.labels) := by
  unfold gen_pollIteration; cases closed <;> cases eof <;> cases errNil <;> simp [Gen.Outcome.labels]

/-- **stream**: the timer is armed (`Reset`) exactly on the sync-marker arm, and there only immediately
before the `Send` of the marker and stopped immediately after it -/
theorem tie_stream_timer (tgt : String) (a b c d e f g : Bool) :
    ("t.Reset(s.o.timeout)" ∈ (gen_streamIteration (c_target := tgt) (coalesce_IsClosedQueue_err := a) (err_eq_nil := b)
      (err_v2_eq_nil := c) (isTargetDelete_item_ctree_Leaf := d) (item_ctree_Leaf_eq_nil := e)
      (ok_item_ctree_Leaf := f) (ok_item_syncMarker := g)).labels ↔ (a = false ∧ b = true ∧ g = true)) := by
  unfold gen_streamIteration
  cases a <;> cases b <;> cases c <;> cases g <;> cases f <;> cases e <;> cases d <;>
    by_cases h : tgt = "*" <;> simp [Gen.Outcome.labels, h]

theorem tie_stream_sync (tgt : String) (c d e f : Bool) :
    (gen_streamIteration (c_target := tgt) (coalesce_IsClosedQueue_err := false) (err_eq_nil := true)
      (err_v2_eq_nil := c) (isTargetDelete_item_ctree_Leaf := d) (item_ctree_Leaf_eq_nil := e)
      (ok_item_ctree_Leaf := f) (ok_item_syncMarker := true)).labels =
      ["item, dup, err := c.queue.Next(ctx)", "s.updateClientStats(szKey, c.target, int64(dup), int64(c.queue.Len()))",
       "t.Reset(s.o.timeout)", "err = c.stream.Send(subscribeSync)", "t.Stop()"] ++
      (if c then [] else ["c.errC <- err"]) := by
  unfold gen_streamIteration; cases c <;> simp [Gen.Outcome.labels]

/-- **stream**: a target delete ends the stream with `nil` unless the subscription is for `*` -/
theorem tie_stream_delete (tgt : String) (d : Bool) :
    (gen_streamIteration (c_target := tgt) (coalesce_IsClosedQueue_err := false) (err_eq_nil := true)
      (err_v2_eq_nil := true) (isTargetDelete_item_ctree_Leaf := d) (item_ctree_Leaf_eq_nil := false)
      (ok_item_ctree_Leaf := true) (ok_item_syncMarker := false)).ret =
      if d = true ∧ tgt ≠ "*" then .nil else .fall := by
  unfold gen_streamIteration; cases d <;> by_cases h : tgt = "*" <;> simp [h]

end Gnmi.GenProps.ShapesSubscribeLoops
