import Gnmi.GenProps.CacheGnmiUpdateLeaf
import Gnmi.Model.Cache
/-!
# Obligations: the existing-leaf arm of `(*Target).gnmiUpdate` as the source has it now =
`Cache.verdict` / the `some old` arm of `Cache.updateCore`

`Gnmi.Gen.gen_gnmiUpdateLeaf` is regenerated from `cache/cache.go` on every check run: the
timestamp `switch` on an existing leaf (stale / same timestamp / future threshold), the
`StaleCount` / `FutureCount` effects, `oldval.Update(n)`, the suppression condition, the latency
call and the returns.

Atoms ↦ model terms:

| atom                                  | model term                                   |
|---------------------------------------|----------------------------------------------|
| `n.GetTimestamp()`, `old.GetTimestamp()` | `n.ts`, `old.ts`                          |
| `proto.Equal(old, n)`                 | `old.same n`                                 |
| `t.futureThreshold`                   | `cfg.futureThr`                              |
| `Now()`                               | `now` (Unix nanoseconds)                     |
| `t.latest()`, `t.latest().UnixNano()` | `lt`, `ltNano` with `LatestOK latest lt ltNano`: `some l` ↦ both are `l`; `none` (the zero `time.Time`) ↦ `UnixNano()` is `≤ 0` (Go computes `Cache.zeroUnixNano`) |
| `n.Atomic`, `old.GetAtomic()`         | `n.atomic`, `old.atomic`                     |
| `value.Equal(old.Update[0].Val, n.Update[0].Val)` | `valueEqual ou.val u.val` (`old.upd = ou :: _`) |
| `t.eventDriven`                       | `cfg.eventDriven`                            |
| `realData`, `t.synced()`              | any (the latency call is not part of `Cache.Target`) |

`time.Time.Sub` saturates (`Gen.timeSub`); the model computes on `Int`.  The two agree because the
timestamps, the clock and `t.ts` are `int64` nanoseconds and the threshold is a `time.Duration`
below the maximal one (hypotheses `Rng`).
-/
set_option linter.unusedSimpArgs false
set_option linter.unusedVariables false
namespace Gnmi.GenProps.CacheGnmiUpdateVerdict
open Gnmi.Gen Gnmi.Cache Gnmi.GenProps.CacheGnmiUpdateLeaf

/-- what `t.latest()` / `t.latest().UnixNano()` are for the model's `latest` -/
def LatestOK (latest : Option Int) (lt ltNano : Int) : Prop :=
  match latest with
  | some l => lt = l ∧ ltNano = l
  | none => ltNano ≤ 0

theorem latestOK_zero : LatestOK none 0 zeroUnixNano := by simp [LatestOK, zeroUnixNano]

/-- ranges of the machine integers involved -/
structure Rng (cfg : Cfg) (now : Int) (latest : Option Int) (old n : Noti) : Prop where
  n : inI64 n.ts
  old : inI64 old.ts
  now : inI64 now
  thr0 : -9223372036854775808 ≤ cfg.futureThr
  thr : cfg.futureThr < 9223372036854775807
  latest : ∀ l, latest = some l → inI64 l

/-- **the timestamp discipline**: the switch of the source decides exactly as `Cache.verdict` -/
theorem tie_verdict (cfg : Cfg) (now : Int) (latest : Option Int) (old n : Noti) (lt ltNano : Int)
    (hl : LatestOK latest lt ltNano) (hr : Rng cfg now latest old n)
    (nAtomic oldAtomic realData synced eventDriven valueEq : Bool) :
    verdictOf (gen_gnmiUpdateLeaf (Now := now) (n_Atomic := nAtomic) (n_GetTimestamp := n.ts)
        (old_GetAtomic := oldAtomic) (old_GetTimestamp := old.ts) (proto_Equal_old_n := old.same n)
        (realData := realData) (t_eventDriven := eventDriven) (t_futureThreshold := cfg.futureThr)
        (t_latest := lt) (t_latest_UnixNano := ltNano) (t_synced := synced)
        (value_Equal_old_Update_0_Val_n_Update_0_Val := valueEq)).ret
      = verdict cfg now latest old n := by
  obtain ⟨h1, h2, h3, h40, h4, h5⟩ := hr
  unfold inI64 at h1 h2 h3
  unfold gen_gnmiUpdateLeaf
  simp only [apply_ite Outcome.ret, apply_ite verdictOf]
  simp only [verdictOf, reduceCtorEq, Val.label.injEq, String.reduceEq, ite_true, ite_false, ite_self]
  unfold verdict
  simp only [Bool.and_eq_true, decide_eq_true_eq, Bool.not_eq_true', timeSub_gt h40 h4, timeSub_le h40 h4]
  cases latest with
  | none =>
    simp only [LatestOK] at hl
    repeat' split
    all_goals first | rfl | omega | (exfalso; omega) | (simp_all; done) | (exfalso; simp_all; omega)
  | some l =>
    simp only [LatestOK] at hl
    obtain ⟨rfl, rfl⟩ := hl
    repeat' split
    all_goals first | rfl | omega | (exfalso; omega) | (simp_all; done) | (exfalso; simp_all; omega)

/-! ## effects and result against `updateCore` -/

/-- what one effect of the region does to the model's target (`path`: where the leaf is; `n`: the
notification); `none`: an effect the model does not know -/
def applyEff (path : Path) (n : Noti) (e : Eff) (t : Target) : Option Target :=
  if e.label = "t.meta.AddInt(metadata.StaleCount, 1)" then
    some { t with md := { t.md with stale := t.md.stale + e.args.headD 0 } }
  else if e.label = "t.meta.AddInt(metadata.FutureCount, 1)" then
    some { t with md := { t.md with future := t.md.future + e.args.headD 0 } }
  else if e.label = "t.meta.AddInt(metadata.SuppressedCount, 1)" then
    some { t with md := { t.md with suppressed := t.md.suppressed + e.args.headD 0 } }
  else if e.label = "oldval.Update(n)" then some { t with tree := setLeaf t.tree path n }
  else if e.label = "t.lat.Compute(T(n.GetTimestamp()))" then some t   -- latency is not part of `Cache.Target`
  else none

def run (path : Path) (n : Noti) : List Eff → Target → Option Target
  | [], t => some t
  | e :: es, t => (applyEff path n e t).bind (run path n es)

/-- the returned pair: result class and the leaf handed to the feed -/
def resOf (n : Noti) (v : Gen.Val) : Option (Res × Option Noti) :=
  if v = .label "nil, ErrStale" then some (.stale, none)
  else if v = .label "nil, ErrFuture" then some (.future, none)
  else if v = .nil then some (.ok, none)
  else if v = .label "oldval, nil" then some (.ok, some n)
  else none

/-- the outcome of the region on the model's state -/
def exec (path : Path) (n : Noti) (t : Target) (o : Outcome) : Option (Res × Target × Option Noti) :=
  (run path n o.effects t).bind (fun t' => (resOf n o.ret).map (fun r => (r.1, t', r.2)))

/-- **the existing-leaf arm of `updateCore`** is what the region does, effect by effect -/
theorem tie_core (cfg : Cfg) (now : Int) (t : Target) (realData synced : Bool) (path : Path) (n : Noti) (u : Upd)
    (old : Noti) (ou : Upd) (rest : List Upd) (lt ltNano : Int)
    (hlook : lookup t.tree path = some old) (hupd : old.upd = ou :: rest)
    (hl : LatestOK t.latest lt ltNano) (hr : Rng cfg now t.latest old n) :
    exec path n t (gen_gnmiUpdateLeaf (Now := now) (n_Atomic := n.atomic) (n_GetTimestamp := n.ts)
        (old_GetAtomic := old.atomic) (old_GetTimestamp := old.ts) (proto_Equal_old_n := old.same n)
        (realData := realData) (t_eventDriven := cfg.eventDriven) (t_futureThreshold := cfg.futureThr)
        (t_latest := lt) (t_latest_UnixNano := ltNano) (t_synced := synced)
        (value_Equal_old_Update_0_Val_n_Update_0_Val := valueEqual ou.val u.val))
      = some (updateCore cfg now t realData path n u) := by
  have hv := tie_verdict cfg now t.latest old n lt ltNano hl hr n.atomic old.atomic realData synced
    cfg.eventDriven (valueEqual ou.val u.val)
  obtain ⟨v, hs⟩ := shape now n.ts old.ts cfg.futureThr lt ltNano n.atomic old.atomic (old.same n) realData synced
    cfg.eventDriven (valueEqual ou.val u.val)
  rw [hs] at hv ⊢
  rw [verdictOf_canon] at hv
  unfold updateCore
  rw [hlook]
  simp only [← hv]
  cases v
  · simp [canon, exec, run, applyEff, resOf]
  · simp [canon, exec, run, applyEff, resOf]
  · cases hn : n.atomic <;> cases ho : old.atomic <;> cases hq : valueEqual ou.val u.val <;>
      cases he : cfg.eventDriven <;> cases realData <;> cases synced <;>
      simp [canon, exec, run, applyEff, resOf, hupd, hq, he]

end Gnmi.GenProps.CacheGnmiUpdateVerdict
