import Gnmi.Gen.ConnectionDone
import Gnmi.Gen.ConnectionRemove
import Gnmi.Model.ConnLTS
/-!
# Obligations: `(*connection).done` / `(*Manager).remove` as the source has them now =
the atomic sections `Conn.doDone` / `Conn.remove` of the connection LTS (C16)

`Gnmi.Gen.gen_connectionDone` (the once-guarded function literal of `done`: lock, `c.ref--`,
`if c.ref <= 0 { m.remove(c.id) }`) and `Gnmi.Gen.gen_connectionRemove` (`delete(m.conns, addr)`,
`if c.c != nil { c.c.Close() }`) are regenerated from `connection/connection.go` on every check
run.  Their effects, run on the LTS configuration, are the model's transitions.

Atoms: `c == nil` ↦ `false` (a held handle is a non-nil `*connection`); `c.ref` ↦ `ob.ref`;
`c.c == nil` ↦ `ob.conn.isNone`.  `c.ref` is a Go `int`: the decrement wraps; the obligation
assumes the counter and its predecessor are in range.  The nil dereference of `remove` when the
address is not registered happens inside the atom `c.c` (model: `panicked`); the obligation for
`remove` is about a registered address.
-/
set_option linter.unusedSimpArgs false
set_option linter.unusedVariables false
namespace Gnmi.GenProps.Connection
open Gnmi.Gen Gnmi.Conn

/-! ## `remove` -/

def applyRemove (a : Addr) (o : Nat) (ob : Obj) (e : Eff) (c : Cfg) : Option Cfg :=
  if e.label = "delete(m.conns, addr)" then some { c with conns := erase c.conns a }
  else if e.label = "err := c.c.Close()" then some { c with objs := c.objs.set o { ob with closed := ob.closed + 1 } }
  else none

def runRemove (a : Addr) (o : Nat) (ob : Obj) : List Eff → Cfg → Option Cfg
  | [], c => some c
  | e :: es, c => (applyRemove a o ob e c).bind (runRemove a o ob es)

/-- **remove**: on a registered address the source does what `Conn.remove` does -/
theorem tie_remove (c : Cfg) (a : Addr) (o : Nat) (ob : Obj)
    (hf : find c.conns a = some o) (ho : c.objs[o]? = some ob) :
    runRemove a o ob (gen_connectionRemove (c_c_eq_nil := ob.conn.isNone)).effects c = some (remove c a) := by
  unfold gen_connectionRemove remove
  rw [hf]; simp only [ho]
  have hset : c.objs.set o ob = c.objs := by
    apply List.ext_getElem?; intro i
    by_cases hi : o = i
    · subst hi
      have hlt : o < c.objs.length := by
        cases hl : decide (o < c.objs.length) <;> simp_all
      have hg : c.objs[o] = ob := by
        have := List.getElem?_eq_getElem hlt
        rw [ho] at this; exact (Option.some.inj this).symm
      simp [hlt, hg, ho]
    · simp [List.getElem?_set, hi]
  cases h : ob.conn.isSome <;> simp_all [runRemove, applyRemove]

/-! ## `done` -/

def applyDone (ob : Obj) (o : Nat) (e : Eff) (c : Cfg) : Option Cfg :=
  if e.label = "m.mu.Lock()" ∨ e.label = "defer m.mu.Unlock()" then some c     -- one atomic section
  else if e.label = "c.ref = _" then some { c with objs := c.objs.set o { ob with ref := e.args.headD 0 } }
  else if e.label = "m.remove(c.id)" then some (remove c ob.addr)
  else none

def runDone (ob : Obj) (o : Nat) : List Eff → Cfg → Option Cfg
  | [], c => some c
  | e :: es, c => (applyDone ob o e c).bind (runDone ob o es)

/-- **done**: the once-guarded release (requester `r` at `held o false`, which the `sync.Once`
turns into `held o true`) is `Conn.doDone`: decrement, and remove by address at zero -/
theorem tie_done (c : Cfg) (r : Nat) (q : Req) (o : Nat) (ob : Obj)
    (h1 : inI64 ob.ref) (h2 : inI64 (ob.ref - 1)) :
    runDone ob o (gen_connectionDone (c_eq_nil := false) (c_ref := ob.ref)).effects
        { c with reqs := c.reqs.set r { q with pc := .held o true } }
      = some (doDone c r q o ob) := by
  unfold gen_connectionDone doDone
  simp only [wrap64_id h2]
  simp only [decide_eq_true_eq, Bool.not_eq_true', decide_eq_false_iff_not]
  by_cases h : ob.ref - 1 ≤ 0 <;> (try simp (disch := omega) only [if_pos, if_neg]) <;> simp [h, runDone, applyDone]

end Gnmi.GenProps.Connection
