import Gnmi.Gen.MetadataResetEntry
import Gnmi.Model.Cache
/-!
# Obligation: `(*Metadata).ResetEntry` as the source has it now = `Cache.Meta.resetEntry` (C14)

`Gnmi.Gen.gen_ResetEntry` is regenerated from `metadata/metadata.go` on every check run: the
dispatch on the class of the entry (bool / int / string, in this order), the reset action per
class (`SetBool(false)`; `SetInt(0)` or deletion; `SetStr("")` or deletion), the error for an
unknown entry.

Atoms ↦ model terms for an entry `name`: `validBool(entry) == nil` ↦ `boolNames.contains name`,
`validInt(entry) == nil` ↦ `intNames.contains name`, `validStr(entry) == nil` ↦
`strNames.contains name`; `TargetIntValues[entry].InitZero` ↦ any (the model represents an absent
integer entry by `0`, what `Metadata.GetInt` callers and the harness read); `ResetAction ==
DefaultValue` / `== Delete` ↦ what the table `TargetStrValues` says for the two string entries
(`connectedAddress`: default value; `connectError`: delete).
-/
set_option linter.unusedSimpArgs false
set_option linter.unusedVariables false
namespace Gnmi.GenProps.MetadataResetEntry
open Gnmi.Gen Gnmi.Cache

def setBool (m : Meta) (name : String) (b : Bool) : Meta :=
  if name = "sync" then { m with sync := b } else if name = "connected" then { m with connected := b } else m

def setInt (m : Meta) (name : String) (v : Int) : Meta :=
  if name = "targetLeavesAdded" then { m with added := v }
  else if name = "targetLeavesDeleted" then { m with deleted := v }
  else if name = "targetLeavesEmpty" then { m with empty := v }
  else if name = "targetLeaves" then { m with leaves := v }
  else if name = "targetLeavesUpdated" then { m with updated := v }
  else if name = "targetLeavesStale" then { m with stale := v }
  else if name = "targetLeavesFuture" then { m with future := v }
  else if name = "targetLeavesSuppressed" then { m with suppressed := v }
  else if name = "targetSize" then { m with size := v }
  else if name = "latestTimestamp" then { m with latest := v }
  else m

def applyEff (name : String) (e : Eff) (m : Meta) : Option Meta :=
  if e.label = "m.SetBool(entry, false)" then some (setBool m name false)
  else if e.label = "m.SetInt(entry, 0)" then some (setInt m name 0)
  else if e.label = "delete(m.valuesInt, entry)" then some (setInt m name 0)      -- absent = 0
  else if e.label = "m.SetStr(entry, \"\")" then
    some (if name = "connectedAddress" then { m with connectedAddr := "" } else m)
  else if e.label = "delete(m.valuesStr, entry)" then
    some (if name = "connectError" then { m with connectError := none } else m)
  else if e.label = "m.mu.Lock()" ∨ e.label = "m.mu.Unlock()" then some m
  else none

def run (name : String) : List Eff → Meta → Option Meta
  | [], m => some m
  | e :: es, m => (applyEff name e m).bind (run name es)

def gen (name : String) (initZero : Bool) : Outcome :=
  gen_ResetEntry (TargetIntValues_entry_InitZero := initZero)
    (TargetStrValues_entry_ResetAction_eq_DefaultValue := name == "connectedAddress")
    (TargetStrValues_entry_ResetAction_eq_Delete := name == "connectError")
    (validBool_entry_eq_nil := boolNames.contains name) (validInt_entry_eq_nil := intNames.contains name)
    (validStr_entry_eq_nil := strNames.contains name)

/-- a known entry is reset as the model resets it, and `nil` is returned -/
theorem tie_known (m : Meta) (name : String) (initZero : Bool)
    (hk : name ∈ boolNames ++ intNames ++ strNames) :
    run name (gen name initZero).effects m = some (m.resetEntry name) ∧ (gen name initZero).ret = .nil := by
  simp only [boolNames, intNames, strNames, List.cons_append, List.nil_append, List.mem_cons, List.not_mem_nil, or_false] at hk
  rcases hk with h | h | h | h | h | h | h | h | h | h | h | h | h | h <;> subst h <;> cases initZero <;>
    simp [gen, gen_ResetEntry, boolNames, intNames, strNames, run, applyEff, setBool, setInt, Meta.resetEntry]

/-- an unknown entry: an error, nothing touched (the model's `resetEntry` is the identity) -/
theorem tie_unknown (m : Meta) (name : String) (initZero : Bool)
    (hk : ¬ name ∈ boolNames ++ intNames ++ strNames) :
    gen name initZero = Gen.ret .error ∧ m.resetEntry name = m := by
  simp only [boolNames, intNames, strNames, List.cons_append, List.nil_append, List.mem_cons, List.not_mem_nil, or_false,
    not_or] at hk
  obtain ⟨h1, h2, h3, h4, h5, h6, h7, h8, h9, h10, h11, h12, h13, h14⟩ := hk
  constructor
  · simp [gen, gen_ResetEntry, boolNames, intNames, strNames, *]
  · simp [Meta.resetEntry, *]

end Gnmi.GenProps.MetadataResetEntry
