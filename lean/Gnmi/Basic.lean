/-
Common vocabulary of all models (core Lean only; nothing here imports Mathlib, so
the line-protocol driver can be compiled as a `lean_exe`).
-/
namespace Gnmi

/-- An index path, as the repository uses it everywhere: `[]string`. -/
abbrev Path := List String

/-- The wildcard element (`"*"` in `ctree`, `match.Glob`). -/
def glob : String := "*"

/-- Prepend a child name to a relative result (`append(prefix, k)` read bottom-up). -/
def pre {α : Type} (k : String) (kv : Path × α) : Path × α := (k :: kv.1, kv.2)

@[simp] theorem pre_fst {α : Type} (k : String) (kv : Path × α) : (pre k kv).1 = k :: kv.1 := rfl
@[simp] theorem pre_snd {α : Type} (k : String) (kv : Path × α) : (pre k kv).2 = kv.2 := rfl

theorem pre_inj {α : Type} {k : String} {a b : Path × α} (h : pre k a = pre k b) : a = b := by
  cases a; cases b; simp [pre] at h; simp [h]

end Gnmi
