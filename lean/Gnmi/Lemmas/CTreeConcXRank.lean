import Gnmi.Lemmas.CTreeConcX
/-!
# A termination measure for the extended ctree LTS

`measure s = (A, Q)`, ordered lexicographically.  `A` sums, over the threads, the rank of the
thread's add / get / delete / node operation / announced lock (a function of the thread's own
state only), `Q` sums the remaining work of the queries and walks (a function of the thread's
lock stack and of the shared trie: the nodes it still has to visit).  Every transition that is
not the start of a new operation decreases the measure: transitions of queries leave the trie
and `A` alone and decrease `Q`; all other transitions decrease `A` (and may increase `Q`, by
growing a subtree a query has not visited yet).
-/
namespace Gnmi
namespace CX
open Trie CC

/-! ## the work of a query below a node -/

mutual
/-- number of lock and unlock transitions `queryInternal` performs at and below a node for the
remaining query `q` -/
def qw : Trie Nat → Path → Nat
  | .branch cs, [] => 2 + qwAll cs []
  | .branch cs, g :: q => if g = glob then 2 + qwAll cs q else 2 + qwOne cs g q
  | .empty, _ => 2
  | .leaf _, _ => 2
def qwAll : List (String × Trie Nat) → Path → Nat
  | [], _ => 0
  | (_, t) :: cs, q => qw t q + qwAll cs q
def qwOne : List (String × Trie Nat) → String → Path → Nat
  | [], _, _ => 0
  | (k, t) :: cs, g, q => if k = g then qw t q else qwOne cs g q
end

/-- the work below child `k` of node `nd` -/
def childQ (nd : Trie Nat) (k : String) (q : Path) : Nat :=
  match Trie.get nd [k] with
  | some c => qw c q
  | none => 0

theorem qwOne_eq : ∀ (cs : List (String × Trie Nat)) (g : String) (q : Path),
    qwOne cs g q = (match getL cs g [] with | some c => qw c q | none => 0)
  | [], g, q => by simp [qwOne, getL]
  | (k, t) :: cs, g, q => by
      simp only [qwOne, getL]
      split
      · simp [Trie.get]
      · exact qwOne_eq cs g q

theorem qwAll_eq : ∀ (cs : List (String × Trie Nat)) (q : Path), (cs.map (·.1)).Nodup →
    qwAll cs q = ((cs.map (·.1)).map (fun k => match getL cs k [] with | some c => qw c q | none => 0)).sum
  | [], q, _ => by simp [qwAll]
  | (k, t) :: cs, q, hnd => by
      simp only [List.map_cons, List.nodup_cons] at hnd
      simp only [qwAll, List.map_cons, List.sum_cons, getL, if_true, Trie.get]
      rw [qwAll_eq cs q hnd.2]
      congr 1
      congr 1
      apply List.map_congr_left
      intro k' hk'
      have : k ≠ k' := by intro e; subst e; exact hnd.1 hk'
      simp [this]

theorem qw_unfold (nd : Trie Nat) (qr : Path) (h : nd = .empty ∨ WF nd) :
    qw nd qr = 2 + ((todoFor nd qr).map (fun k => childQ nd k qr.tail)).sum := by
  cases nd with
  | empty => cases qr <;> simp [qw, todoFor]
  | leaf v => cases qr <;> simp [qw, todoFor]
  | branch cs =>
    have hnd : (cs.map (·.1)).Nodup := by
      rcases h with h | h
      · cases h
      · exact wfl_keys_nodup cs h.2
    cases qr with
    | nil =>
      simp only [qw, todoFor, List.tail_nil, childQ, Trie.get]
      rw [qwAll_eq cs [] hnd]
    | cons g q =>
      simp only [qw, todoFor, List.tail_cons, childQ, Trie.get]
      split
      · rw [qwAll_eq cs q hnd]
      · rw [qwOne_eq]
        cases hg : getL cs g [] with
        | none => simp
        | some c => simp [hg]

/-- the work at and below the node at path `x` for the query `q` -/
def qwAt (t : Trie Nat) (q x : Path) : Nat :=
  match Trie.get t x with
  | some nd => qw nd (q.drop x.length)
  | none => 0

theorem qwAt_child {t : Trie Nat} {q x : Path} {nd : Trie Nat} (h : Trie.get t x = some nd) (k : String) :
    qwAt t q (x ++ [k]) = childQ nd k (q.drop x.length).tail := by
  simp only [qwAt, childQ, get_append, h, Option.bind_some, List.length_append, List.length_singleton,
    List.tail_drop]

theorem qwAt_unfold {t : Trie Nat} {q x : Path} {nd : Trie Nat} (hw : nd = .empty ∨ WF nd)
    (h : Trie.get t x = some nd) :
    qwAt t q x = 2 + ((todoFor nd (q.drop x.length)).map (fun k => qwAt t q (x ++ [k]))).sum := by
  have : (fun k => qwAt t q (x ++ [k])) = (fun k => childQ nd k (q.drop x.length).tail) := by
    funext k; exact qwAt_child h k
  rw [this, ← qw_unfold nd _ hw]
  simp [qwAt, h]

theorem node_wf {t : Trie Nat} (hw : WFRoot t) {x : Path} {nd : Trie Nat} (h : Trie.get t x = some nd) :
    nd = .empty ∨ WF nd := by
  rcases hw with e | hw
  · subst e
    cases x with
    | nil => simp [Trie.get] at h; exact Or.inl h.symm
    | cons k p => simp [Trie.get] at h
  · exact Or.inr (get_wf t x nd hw h)

end CX
end Gnmi

namespace Gnmi
namespace CX
open Trie CC

variable {n : Nat}

/-! ## the acting thread after a `CC` transition -/

theorem thr_unlock (b : CC.Cfg n) (τ : Fin n) :
    (CC.eff b (.unlock τ)).thr τ = { b.thr τ with stack := (b.thr τ).stack.tail } := by
  simp [CC.eff, eff0, setThr]

theorem thr_upgAcquire (b : CC.Cfg n) (τ : Fin n) :
    (CC.eff b (.upgAcquire τ)).thr τ =
      { b.thr τ with pc := .run, stack := ⟨(b.thr τ).cur, .W, []⟩ :: (b.thr τ).stack } := by
  simp [CC.eff, eff0, setThr]

theorem thr_upgRelease (b : CC.Cfg n) (τ : Fin n) (f : Frame) (r : List Frame)
    (h : (b.thr τ).stack = f :: r) :
    (CC.eff b (.upgRelease τ)).thr τ = { b.thr τ with pc := .window, stack := r, cur := f.node } := by
  simp [CC.eff, eff0, setThr, h]

theorem thr_rlockRoot (b : CC.Cfg n) (τ : Fin n) :
    (CC.eff b (.rlockRoot τ)).thr τ = pushR b (b.thr τ) [] := by
  simp [CC.eff, eff0, setThr]

theorem thr_rlockChild (b : CC.Cfg n) (τ : Fin n) (f : Frame) (k : String)
    (htop : (b.thr τ).top = some f) (hk : nextChild (b.thr τ) f = some k) :
    (CC.eff b (.rlockChild τ)).thr τ =
      pushR b { b.thr τ with stack := popTodo (b.thr τ) } (f.node ++ [k]) := by
  simp [CC.eff, eff0, setThr, htop, hk]

theorem thr_ret (b : CC.Cfg n) (τ : Fin n) :
    ((CC.eff b (.ret τ)).thr τ).pc = .idle ∧ ((CC.eff b (.ret τ)).thr τ).stack = (b.thr τ).stack ∧
    ((CC.eff b (.ret τ)).thr τ).call = (b.thr τ).call := by
  simp [CC.eff, eff0, setThr]

/-- transitions that leave the acting thread's lock stack alone -/
def keepsStack : CC.Label n → Bool
  | .termRoot _ | .termWrite _ | .insert _ | .addErr _ | .getHit _ | .getMiss _ | .delete _
  | .hupd _ _ _ | .hval _ _ | .ret _ => true
  | _ => false

theorem stack_kept {b : CC.Cfg n} {l : CC.Label n} (hk : keepsStack l = true)
    (hg : CC.guard true b l = true) : ((CC.eff b l).thr l.tid).stack = (b.thr l.tid).stack := by
  unfold CC.eff
  rw [track_thr]
  cases l <;> simp only [keepsStack] at hk <;> (try cases hk) <;> simp only [CC.Label.tid]
  case termRoot τ =>
    simp only [CC.guard, Bool.and_eq_true, beq_iff_eq] at hg
    obtain ⟨_, hg⟩ := hg
    split at hg
    · rename_i p v hc
      exact (termAt_thr b τ [] p v hc (by simp [Trie.get])).1
    · cases hg
  case termWrite τ =>
    simp only [CC.guard, Bool.and_eq_true, beq_iff_eq] at hg
    obtain ⟨_, hg⟩ := hg
    split at hg
    · rename_i p v f hc htop
      simp only [Bool.and_eq_true] at hg
      obtain ⟨_, hg⟩ := hg
      split at hg
      · rename_i k nd hrest hget
        simp only [Bool.and_eq_true] at hg
        simp only [eff0, htop, hrest]
        exact (termAt_thr b τ (f.node ++ [k]) p v hc (by rw [get_child _ _ _ _ hget]; exact hg.1)).1
      · cases hg
    · cases hg
  case insert τ =>
    simp only [CC.guard, Bool.and_eq_true, beq_iff_eq] at hg
    obtain ⟨_, hg⟩ := hg
    split at hg
    · rename_i p v f hc htop
      simp only [Bool.and_eq_true] at hg
      obtain ⟨_, hg⟩ := hg
      split at hg
      · rename_i k r nd hrest hget
        rw [hc] at hrest
        simp only [eff0, hc, htop, hrest, hget]
        exact (addDone_thr b τ _ true p v hc).1
      · cases hg
    · cases hg
  case addErr τ =>
    simp only [CC.guard, Bool.and_eq_true, beq_iff_eq] at hg
    obtain ⟨_, hg⟩ := hg
    split at hg
    · rename_i p v f hc htop
      simp only [eff0]
      exact (addDone_thr b τ _ false p v hc).1
    · cases hg
  case getHit τ =>
    simp only [eff0]
    split <;> simp [setThr, addLog]
  case getMiss τ =>
    simp only [eff0]
    split <;> simp [setThr, addLog]
  case delete τ =>
    simp only [eff0]
    split <;> simp [setThr, addLog]
  case hupd τ h w =>
    simp only [eff0]
    split <;> simp [setThr, addLog]
  case hval τ h =>
    simp only [eff0]
    split <;> simp [setThr, addLog]
  case ret τ => simp [eff0, setThr]

end CX
end Gnmi

namespace Gnmi
namespace CX
open Trie CC

variable {n : Nat}

/-! ## ranks -/

def frameWork (t : Trie Nat) (q : Path) (f : Frame) : Nat :=
  1 + (f.todo.map (fun k => qwAt t q (f.node ++ [k]))).sum

/-- remaining work of a query / walk: the nodes it still has to lock and unlock -/
def qrank (t : Trie Nat) (th : Thread) : Nat :=
  match th.call with
  | .query q =>
    (match th.pc with
     | .idle => 0
     | .start => 2 + qwAt t q []
     | _ => 1 + (th.stack.map (frameWork t q)).sum)
  | _ => 0

def pendRank : Option Pend → Nat
  | none => 1
  | some (.tree _) => 0
  | some (.handle _ _) => 3

def nopRank : Option NOp → Nat
  | none => 0
  | some o => (match o.pc with | .want => 3 | .locked => 2 | .locked2 => 1)

def chkRank : Option Bool → Nat
  | none => 1
  | some _ => 0

def xrank (x : XThread) : Nat := pendRank x.pend + nopRank x.nop + chkRank x.chk

def headW (st : List Frame) : Bool :=
  match st.head? with
  | some f => f.mode == .W
  | none => false

/-- rank of an add / get / delete as a function of where the thread is -/
def brankOf (c : Call) (pc : PC) (k : Nat) (w : Bool) : Nat :=
  match c with
  | .query _ => 0
  | c =>
    (match pc with
     | .idle => 0
     | .start => 8 * c.path.length + 10
     | .run => 8 * (c.path.length + 1 - k) + k + (if w then 2 else 6)
     | .window => 8 * (c.path.length - k) + k + 5
     | .unwind => k + 1)

def brank (th : Thread) : Nat := brankOf th.call th.pc th.stack.length (headW th.stack)

def arank (s : Cfg n) (τ : Fin n) : Nat := xrank (s.xt τ) + brank (s.base.thr τ)

def rankA (s : Cfg n) : Nat := ((List.finRange n).map (arank s)).sum
def rankQ (s : Cfg n) : Nat := ((List.finRange n).map (fun τ => qrank s.base.trie (s.base.thr τ))).sum

/-- the termination measure -/
def rank (s : Cfg n) : Nat × Nat := (rankA s, rankQ s)

/-- cost budget of a transition in `brank` -/
def wcost : CC.Label n → Nat
  | .termRoot _ | .termWrite _ | .upgAcquire _ | .delete _ => 2
  | .hupd _ _ _ => 0
  | _ => 1

theorem brankOf_query (q : Path) (pc : PC) (k : Nat) (w : Bool) : brankOf (.query q) pc k w = 0 := rfl

theorem rest_len_lt {c : Call} {x : Path} {k : String} {r : Path} (h : restAt c x = k :: r) :
    x.length < c.path.length := by
  simp only [restAt] at h
  by_cases hlt : x.length < c.path.length
  · exact hlt
  · rw [List.drop_eq_nil_of_le (Nat.le_of_not_lt hlt)] at h; cases h

theorem brank_key {b : CC.Cfg n} {l : CC.Label n} (τ : Fin n)
    (hpc' : ((CC.eff b l).thr τ).pc = pcAfter (b.thr τ).pc l)
    (hcall : ((CC.eff b l).thr τ).call = (b.thr τ).call)
    (pc pc' : PC) (k k' : Nat) (w w' : Bool)
    (h1 : (b.thr τ).pc = pc) (h2 : pcAfter pc l = pc') (h3 : (b.thr τ).stack.length = k)
    (h4 : ((CC.eff b l).thr τ).stack.length = k') (h5 : headW (b.thr τ).stack = w)
    (h6 : headW ((CC.eff b l).thr τ).stack = w')
    (h : brankOf (b.thr τ).call pc' k' w' + wcost l ≤ brankOf (b.thr τ).call pc k w) :
    brank ((CC.eff b l).thr τ) + wcost l ≤ brank (b.thr τ) := by
  simp only [brank, hpc', hcall, h1, h2, h3, h4, h5, h6]; exact h

theorem headW_cons (f : Frame) (r : List Frame) : headW (f :: r) = (f.mode == .W) := rfl

/-- every transition of an add / get / delete (not the start of an operation) pays its cost -/
theorem brank_step {b : CC.Cfg n} (hi : Inv b) {l : CC.Label n} (hg : CC.guard true b l = true)
    (hnq : isQuery (b.thr l.tid).call = false)
    (hns : (∀ τ c, l ≠ .invoke τ c) ∧ (∀ τ h, l ≠ .hval τ h)) :
    brank ((CC.eff b l).thr l.tid) + wcost l ≤ brank (b.thr l.tid) := by
  have hst : CC.Step true b l (CC.eff b l) := ⟨hg, rfl⟩
  obtain ⟨hpc', hcall'⟩ := pc_call_after hst
  have hcall := hcall' (isInvokeQuery_of_not_invoke hns.1) hns.1
  have hcq : ∀ q, (b.thr l.tid).call ≠ .query q := by
    intro q e; rw [e] at hnq; cases hnq
  clear hcall' hst hnq
  cases l with
  | invoke τ c => exact absurd rfl (hns.1 τ c)
  | hval τ h => exact absurd rfl (hns.2 τ h)
  | clobber τ => simp [CC.guard] at hg
  | hupd τ h w =>
    have hk := stack_kept (l := .hupd τ h w) rfl hg
    simp only [CC.Label.tid] at hpc' hcall hcq hk ⊢
    simp only [CC.guard, Bool.and_eq_true, beq_iff_eq] at hg
    refine brank_key τ hpc' hcall .idle .idle _ _ _ _ hg.1.1 rfl rfl (by rw [hk]) rfl (by rw [hk]) ?_
    cases hc : (b.thr τ).call <;> simp [brankOf, wcost]
  | termRoot τ =>
    have hk := stack_kept (l := .termRoot τ) rfl hg
    simp only [CC.Label.tid] at hpc' hcall hcq hk ⊢
    simp only [CC.guard, Bool.and_eq_true, beq_iff_eq] at hg
    have hs0 := hi.idle τ (Or.inr hg.1.1)
    refine brank_key τ hpc' hcall .start .unwind 0 0 false false hg.1.1 rfl (by rw [hs0]; rfl)
      (by rw [hk, hs0]; rfl) (by rw [hs0]; rfl) (by rw [hk, hs0]; rfl) ?_
    cases hc : (b.thr τ).call <;> first | exact absurd hc (hcq _) | (simp only [brankOf, wcost, Call.path, Bool.false_eq_true, if_false, if_true]; (try split) <;> omega)
  | delete τ =>
    have hk := stack_kept (l := .delete τ) rfl hg
    simp only [CC.Label.tid] at hpc' hcall hcq hk ⊢
    simp only [CC.guard, Bool.and_eq_true, beq_iff_eq] at hg
    have hs0 := hi.idle τ (Or.inr hg.1.1)
    refine brank_key τ hpc' hcall .start .unwind 0 0 false false hg.1.1 rfl (by rw [hs0]; rfl)
      (by rw [hk, hs0]; rfl) (by rw [hs0]; rfl) (by rw [hk, hs0]; rfl) ?_
    cases hc : (b.thr τ).call <;> first | exact absurd hc (hcq _) | (simp only [brankOf, wcost, Call.path, Bool.false_eq_true, if_false, if_true]; (try split) <;> omega)
  | rlockRoot τ =>
    simp only [CC.Label.tid] at hpc' hcall hcq ⊢
    simp only [CC.guard, Bool.and_eq_true, beq_iff_eq] at hg
    have hs0 := hi.idle τ (Or.inr hg.1.1)
    obtain ⟨F, hF, _, hFm, _⟩ := pushR_spec b (b.thr τ) []
    have hth := thr_rlockRoot b τ
    refine brank_key τ hpc' hcall .start .run 0 1 false false hg.1.1 rfl (by rw [hs0]; rfl)
      (by rw [hth, hF, hs0]; rfl) (by rw [hs0]; rfl) (by rw [hth, hF, headW_cons, hFm]; rfl) ?_
    cases hc : (b.thr τ).call <;> first | exact absurd hc (hcq _) | (simp only [brankOf, wcost, Call.path, Bool.false_eq_true, if_false, if_true]; (try split) <;> omega)
  | upgAcquire τ =>
    simp only [CC.Label.tid] at hpc' hcall hcq ⊢
    simp only [CC.guard, Bool.and_eq_true, beq_iff_eq] at hg
    have hth := thr_upgAcquire b τ
    refine brank_key τ hpc' hcall .window .run (b.thr τ).stack.length ((b.thr τ).stack.length + 1)
      (headW (b.thr τ).stack) true hg.1 rfl rfl (by rw [hth]; rfl) rfl (by rw [hth]; rfl) ?_
    cases hc : (b.thr τ).call <;> first | exact absurd hc (hcq _) | (simp only [brankOf, wcost, Call.path, Bool.false_eq_true, if_false, if_true]; (try split) <;> omega)
  | unlock τ =>
    simp only [CC.Label.tid] at hpc' hcall hcq ⊢
    have hth := thr_unlock b τ
    simp only [CC.guard] at hg
    split at hg
    · cases hg
    · rename_i f htop
      obtain ⟨r, hstk⟩ := stack_of_top htop
      have hun : (b.thr τ).pc = .unwind := by
        simp only [Bool.or_eq_true, Bool.and_eq_true, beq_iff_eq] at hg
        rcases hg with h | h
        · exact h
        · exfalso
          first
          | exact absurd h.2 (by simp)
          | (have := h.2
             split at this
             · rename_i q hc; exact hcq q hc
             · cases this)
      refine brank_key τ hpc' hcall .unwind .unwind (r.length + 1) r.length (headW (b.thr τ).stack) (headW r)
        hun (by simp [pcAfter]) (by rw [hstk]; rfl) (by rw [hth, hstk]; rfl) rfl (by rw [hth, hstk]; rfl) ?_
      cases hc : (b.thr τ).call <;> first | exact absurd hc (hcq _) | (simp only [brankOf, wcost, Call.path, Bool.false_eq_true, if_false, if_true]; (try split) <;> omega)
  | ret τ =>
    have hk := stack_kept (l := .ret τ) rfl hg
    simp only [CC.Label.tid] at hpc' hcall hcq hk ⊢
    simp only [CC.guard, Bool.and_eq_true, beq_iff_eq] at hg
    have hun : (b.thr τ).pc = .unwind := by
      have h := hg.2
      simp only [Bool.or_eq_true, Bool.and_eq_true, beq_iff_eq] at h
      rcases h with h | h
      · exact h
      · exfalso
        first
        | exact absurd h.2 (by simp)
        | (have := h.2
           split at this
           · rename_i q hc; exact hcq q hc
           · cases this)
    refine brank_key τ hpc' hcall .unwind .idle 0 0 false false hun rfl (by rw [hg.1]; rfl)
      (by rw [hk, hg.1]; rfl) (by rw [hg.1]; rfl) (by rw [hk, hg.1]; rfl) ?_
    cases hc : (b.thr τ).call <;> first | exact absurd hc (hcq _) | (simp only [brankOf, wcost, Call.path, Bool.false_eq_true, if_false, if_true]; (try split) <;> omega)
  | upgRelease τ =>
    simp only [CC.Label.tid] at hpc' hcall hcq ⊢
    simp only [CC.guard, Bool.and_eq_true, beq_iff_eq] at hg
    obtain ⟨hrun, hg⟩ := hg
    split at hg
    · rename_i p v f hc htop
      simp only [Bool.and_eq_true, beq_iff_eq] at hg
      obtain ⟨r, hstk⟩ := stack_of_top htop
      have hth := thr_upgRelease b τ f r hstk
      refine brank_key τ hpc' hcall .run .window (r.length + 1) r.length false (headW r) hrun rfl
        (by rw [hstk]; rfl) (by rw [hth]) (by rw [hstk, headW_cons, hg.1]; rfl) (by rw [hth]) ?_
      cases hc : (b.thr τ).call <;> first | exact absurd hc (hcq _) | (simp only [brankOf, wcost, Call.path, Bool.false_eq_true, if_false, if_true]; (try split) <;> omega)
    · cases hg
  | rlockChild τ =>
    simp only [CC.Label.tid] at hpc' hcall hcq ⊢
    simp only [CC.guard, Bool.and_eq_true, beq_iff_eq] at hg
    obtain ⟨hrun, hg⟩ := hg
    split at hg
    · cases hg
    · rename_i f htop
      simp only [Bool.and_eq_true] at hg
      obtain ⟨_, hg⟩ := hg
      split at hg
      · rename_i k nd hk hget
        obtain ⟨r, hstk⟩ := stack_of_top htop
        have hth := thr_rlockChild b τ f k htop hk
        obtain ⟨F, hF, _, hFm, _⟩ := pushR_spec b { b.thr τ with stack := popTodo (b.thr τ) } (f.node ++ [k])
        obtain ⟨f', hpop, _, _⟩ := popTodo_spec (b.thr τ) f r hstk
        have hflen := chain_top_len r f (hstk ▸ hi.chain τ)
        have hlt : r.length + 1 ≤ (b.thr τ).call.path.length := by
          have hne : restAt (b.thr τ).call f.node ≠ [] := by
            intro e
            cases hc : (b.thr τ).call with
            | query q => exact hcq q hc
            | del q m => rw [hc] at hg; simp at hg
            | add p v => simp only [nextChild, hc] at hk; rw [hc] at e; rw [e] at hk; cases hk
            | get p => simp only [nextChild, hc] at hk; rw [hc] at e; rw [e] at hk; cases hk
          obtain ⟨k', r', hr'⟩ := List.exists_cons_of_ne_nil hne
          have := rest_len_lt hr'
          omega
        refine brank_key τ hpc' hcall .run .run (r.length + 1) (r.length + 2) (headW (b.thr τ).stack) false
          hrun rfl (by rw [hstk]; rfl) (by rw [hth, hF]; simp [hpop]) rfl
          (by rw [hth, hF, headW_cons, hFm]; rfl) ?_
        revert hlt
        cases hc : (b.thr τ).call <;> first | exact absurd hc (hcq _) | (intro hlt; simp only [brankOf, wcost, Call.path, Bool.false_eq_true, if_false] at hlt ⊢; (try split) <;> omega)
      · cases hg
  | termWrite τ =>
    have hk := stack_kept (l := .termWrite τ) rfl hg
    simp only [CC.Label.tid] at hpc' hcall hcq hk ⊢
    simp only [CC.guard, Bool.and_eq_true, beq_iff_eq] at hg
    obtain ⟨hrun, hg⟩ := hg
    split at hg
    · rename_i p v f hc htop
      simp only [Bool.and_eq_true] at hg
      obtain ⟨_, hg⟩ := hg
      split at hg
      · rename_i k nd hrest hget
        obtain ⟨r, hstk⟩ := stack_of_top htop
        have hflen := chain_top_len r f (hstk ▸ hi.chain τ)
        have hlt : r.length + 1 ≤ (b.thr τ).call.path.length := by
          have := rest_len_lt hrest
          omega
        refine brank_key τ hpc' hcall .run .unwind (r.length + 1) (r.length + 1) (headW (b.thr τ).stack)
          (headW (b.thr τ).stack) hrun rfl (by rw [hstk]; rfl) (by rw [hk, hstk]; rfl) rfl (by rw [hk]) ?_
        revert hlt
        cases hc' : (b.thr τ).call <;> first | exact absurd hc' (hcq _) | (intro hlt; simp only [brankOf, wcost, Call.path, Bool.false_eq_true, if_false] at hlt ⊢; (try split) <;> omega)
      · cases hg
    · cases hg
  | insert τ =>
    have hk := stack_kept (l := .insert τ) rfl hg
    simp only [CC.Label.tid] at hpc' hcall hcq hk ⊢
    simp only [CC.guard, Bool.and_eq_true, beq_iff_eq] at hg
    refine brank_key τ hpc' hcall .run .unwind _ _ _ _ hg.1 rfl rfl (by rw [hk]) rfl (by rw [hk]) ?_
    cases hc : (b.thr τ).call <;> first | exact absurd hc (hcq _) | (simp only [brankOf, wcost, Call.path, Bool.false_eq_true, if_false, if_true]; (try split) <;> omega)
  | addErr τ =>
    have hk := stack_kept (l := .addErr τ) rfl hg
    simp only [CC.Label.tid] at hpc' hcall hcq hk ⊢
    simp only [CC.guard, Bool.and_eq_true, beq_iff_eq] at hg
    refine brank_key τ hpc' hcall .run .unwind _ _ _ _ hg.1 rfl rfl (by rw [hk]) rfl (by rw [hk]) ?_
    cases hc : (b.thr τ).call <;> first | exact absurd hc (hcq _) | (simp only [brankOf, wcost, Call.path, Bool.false_eq_true, if_false, if_true]; (try split) <;> omega)
  | getHit τ =>
    have hk := stack_kept (l := .getHit τ) rfl hg
    simp only [CC.Label.tid] at hpc' hcall hcq hk ⊢
    simp only [CC.guard, Bool.and_eq_true, beq_iff_eq] at hg
    refine brank_key τ hpc' hcall .run .unwind _ _ _ _ hg.1 rfl rfl (by rw [hk]) rfl (by rw [hk]) ?_
    cases hc : (b.thr τ).call <;> first | exact absurd hc (hcq _) | (simp only [brankOf, wcost, Call.path, Bool.false_eq_true, if_false, if_true]; (try split) <;> omega)
  | getMiss τ =>
    have hk := stack_kept (l := .getMiss τ) rfl hg
    simp only [CC.Label.tid] at hpc' hcall hcq hk ⊢
    simp only [CC.guard, Bool.and_eq_true, beq_iff_eq] at hg
    refine brank_key τ hpc' hcall .run .unwind _ _ _ _ hg.1 rfl rfl (by rw [hk]) rfl (by rw [hk]) ?_
    cases hc : (b.thr τ).call <;> first | exact absurd hc (hcq _) | (simp only [brankOf, wcost, Call.path, Bool.false_eq_true, if_false, if_true]; (try split) <;> omega)

end CX
end Gnmi

namespace Gnmi
namespace CX
open Trie CC

variable {n : Nat}

/-! ## every transition of a query / walk decreases its remaining work -/

theorem frameWork_queryFrame {t : Trie Nat} (hw : WFRoot t) (q x : Path) {nd : Trie Nat}
    (h : Trie.get t x = some nd) : frameWork t q (queryFrame t q x) + 1 = qwAt t q x := by
  rw [qwAt_unfold (node_wf hw h) h]
  simp only [frameWork, queryFrame, h]
  omega

theorem qrank_step {b : CC.Cfg n} (hi : Inv b) {l : CC.Label n} (hg : CC.guard true b l = true)
    {q : Path} (hc : (b.thr l.tid).call = .query q) (hns : ∀ τ c, l ≠ .invoke τ c)
    (hpc : (b.thr l.tid).pc ≠ .idle) :
    (CC.eff b l).trie = b.trie ∧ qrank b.trie ((CC.eff b l).thr l.tid) < qrank b.trie (b.thr l.tid) := by
  have hst : CC.Step true b l (CC.eff b l) := ⟨hg, rfl⟩
  obtain ⟨hpc', hcall'⟩ := pc_call_after hst
  have hcall := hcall' (isInvokeQuery_of_not_invoke hns) hns
  clear hcall' hst
  cases l with
  | invoke τ c => exact absurd rfl (hns τ c)
  | rlockRoot τ =>
    refine ⟨quiet_trie _ _ rfl, ?_⟩
    simp only [CC.Label.tid] at hpc' hcall hc ⊢
    simp only [CC.guard, Bool.and_eq_true, beq_iff_eq] at hg
    have hs0 := hi.idle τ (Or.inr hg.1.1)
    have hth := thr_rlockRoot b τ
    have hstk := (pushR_query b (b.thr τ) [] q hc).1
    simp only [qrank, hcall, hc, hpc', hg.1.1, pcAfter]
    rw [hth, hstk, hs0]
    have := frameWork_queryFrame hi.wf q [] (t := b.trie) (nd := b.trie) (by simp [Trie.get])
    simp only [List.map_cons, List.map_nil, List.sum_cons, List.sum_nil]
    omega
  | rlockChild τ =>
    refine ⟨quiet_trie _ _ rfl, ?_⟩
    simp only [CC.Label.tid] at hpc' hcall hc ⊢
    simp only [CC.guard, Bool.and_eq_true, beq_iff_eq] at hg
    obtain ⟨hrun, hg⟩ := hg
    split at hg
    · cases hg
    · rename_i f htop
      simp only [Bool.and_eq_true] at hg
      obtain ⟨_, hg⟩ := hg
      split at hg
      · rename_i k nd hk hget
        simp only [Bool.and_eq_true] at hg
        obtain ⟨r, hstk⟩ := stack_of_top htop
        have hth := thr_rlockChild b τ f k htop hk
        have htd : f.todo = k :: f.todo.tail := by
          simp only [nextChild, hc] at hk
          cases h : f.todo with
          | nil => rw [h] at hk; cases hk
          | cons a t => rw [h] at hk; simp only [List.head?_cons, Option.some.injEq] at hk; rw [hk]; rfl
        have hpop : popTodo (b.thr τ) = { f with todo := f.todo.tail } :: r := by
          simp [popTodo, hc, hstk]
        have hst' := (pushR_query b { b.thr τ with stack := popTodo (b.thr τ) } (f.node ++ [k]) q hc).1
        have hsome : (Trie.get b.trie (f.node ++ [k])).isSome = true := by
          rw [get_child _ _ _ _ hget]; exact hg.1.1
        obtain ⟨nd', hget'⟩ := Option.isSome_iff_exists.1 hsome
        have hfw := frameWork_queryFrame hi.wf q (f.node ++ [k]) hget'
        simp only [qrank, hcall, hc, hpc', hrun, pcAfter]
        rw [hth, hst', hpop, hstk]
        simp only [List.map_cons, List.sum_cons]
        have h1 : frameWork b.trie q f =
            1 + qwAt b.trie q (f.node ++ [k]) + (f.todo.tail.map (fun k => qwAt b.trie q (f.node ++ [k]))).sum := by
          conv => lhs; rw [frameWork, htd]
          simp only [List.map_cons, List.sum_cons]; omega
        have h2 : frameWork b.trie q { f with todo := f.todo.tail } =
            1 + (f.todo.tail.map (fun k => qwAt b.trie q (f.node ++ [k]))).sum := rfl
        rw [h1, h2]
        omega
      · cases hg
  | unlock τ =>
    refine ⟨quiet_trie _ _ rfl, ?_⟩
    simp only [CC.Label.tid] at hpc' hcall hc hpc ⊢
    have hth := thr_unlock b τ
    simp only [CC.guard] at hg
    split at hg
    · cases hg
    · rename_i f htop
      obtain ⟨r, hstk⟩ := stack_of_top htop
      simp only [qrank, hcall, hc, hpc', pcAfter]
      rw [hth, hstk]
      have : 1 ≤ frameWork b.trie q f := by simp [frameWork]
      cases hp : (b.thr τ).pc <;> simp only [List.tail_cons, List.map_cons, List.sum_cons] <;>
        first | exact absurd hp hpc | omega | skip
      -- `start` holds no lock
      exact absurd (hi.idle τ (Or.inr hp)) (by rw [hstk]; simp)
  | ret τ =>
    refine ⟨quiet_trie _ _ rfl, ?_⟩
    simp only [CC.Label.tid] at hpc' hcall hc hpc ⊢
    simp only [qrank, hcall, hc, hpc', pcAfter]
    cases hp : (b.thr τ).pc <;> first | exact absurd hp hpc | (simp only []; omega) | (simp; done) | (simp; omega)
  | hval τ h => simp only [CC.guard, Bool.and_eq_true, beq_iff_eq] at hg; exact absurd hg.1.1 hpc
  | hupd τ h w => simp only [CC.guard, Bool.and_eq_true, beq_iff_eq] at hg; exact absurd hg.1.1 hpc
  | upgAcquire τ =>
    exfalso
    simp only [CC.guard, Bool.and_eq_true, beq_iff_eq] at hg
    obtain ⟨p, v, hcl, _⟩ := (hi.win τ hg.1).call
    simp only [CC.Label.tid] at hc
    rw [hc] at hcl; cases hcl
  | _ =>
    exfalso
    simp only [CC.Label.tid] at hc
    simp [CC.guard, hc] at hg

end CX
end Gnmi

namespace Gnmi
namespace CX
open Trie CC

variable {n : Nat}

/-! ## every transition decreases the measure -/

theorem sum_map_le {α : Type} (f g : α → Nat) : ∀ (l : List α), (∀ a ∈ l, g a ≤ f a) →
    (l.map g).sum ≤ (l.map f).sum
  | [], _ => Nat.le_refl _
  | a :: l, h => by
      simp only [List.map_cons, List.sum_cons]
      have := sum_map_le f g l (fun x hx => h x (List.mem_cons_of_mem _ hx))
      have := h a (by simp)
      omega

theorem sum_map_lt {α : Type} (f g : α → Nat) (τ : α) : ∀ (l : List α), τ ∈ l → (∀ a ∈ l, g a ≤ f a) →
    g τ < f τ → (l.map g).sum < (l.map f).sum
  | [], h, _, _ => by cases h
  | a :: l, hm, h, hlt => by
      simp only [List.map_cons, List.sum_cons]
      have hle := sum_map_le f g l (fun x hx => h x (List.mem_cons_of_mem _ hx))
      rcases List.mem_cons.1 hm with e | hm'
      · subst e; omega
      · have := sum_map_lt f g τ l hm' (fun x hx => h x (List.mem_cons_of_mem _ hx)) hlt
        have := h a (by simp)
        omega

theorem sum_map_eq {α : Type} (f g : α → Nat) (l : List α) (h : ∀ a ∈ l, g a = f a) :
    (l.map g).sum = (l.map f).sum := by
  rw [List.map_congr_left h]

/-- a write-lock acquisition is not a transition of a running query -/
theorem wacq_not_query {b : CC.Cfg n} (hi : Inv b) {l : CC.Label n} (hg : CC.guard true b l = true)
    (hw : isWAcq l = true) : (b.thr l.tid).pc = .idle ∨ isQuery (b.thr l.tid).call = false := by
  cases l <;> simp only [isWAcq] at hw <;> (try cases hw) <;> simp only [CC.Label.tid]
  case hupd τ h w =>
    simp only [CC.guard, Bool.and_eq_true, beq_iff_eq] at hg; exact Or.inl hg.1.1
  case upgAcquire τ =>
    simp only [CC.guard, Bool.and_eq_true, beq_iff_eq] at hg
    obtain ⟨p, v, hcl, _⟩ := (hi.win τ hg.1).call
    right; rw [hcl]; rfl
  all_goals
    right
    cases hc : (b.thr _).call <;> first | rfl | (exfalso; simp [CC.guard, hc] at hg)

theorem xrank_pend_none (x : XThread) :
    xrank { x with pend := none } + pendRank x.pend = xrank x + 1 := by
  simp only [xrank, pendRank]; omega

theorem rank_step {s : Cfg n} (hr : Reach real s) {l : Label n} (hs : isStart l = false)
    (hg : guard real s l = true) :
    Prod.Lex (· < ·) (· < ·) (rank (eff real s l)) (rank s) := by
  have hb := reach_base hr
  have hi := inv_reach hb
  have hx := xinv_reach rfl hr
  have hf := step_facts (v := real) rfl hb hg
  have hmem : ∀ σ : Fin n, σ ∈ List.finRange n := List.mem_finRange
  -- the other threads keep their rank in `A`
  have hoA : ∀ σ, σ ≠ l.tid → arank (eff real s l) σ = arank s σ := by
    intro σ hσ; simp only [arank, hf.xt σ hσ, hf.thr σ hσ]
  -- it suffices that the acting thread's rank in `A` drops
  have dropA : arank (eff real s l) l.tid < arank s l.tid →
      Prod.Lex (· < ·) (· < ·) (rank (eff real s l)) (rank s) := by
    intro h
    apply Prod.Lex.left
    refine sum_map_lt _ _ l.tid _ (hmem _) ?_ h
    intro σ _
    by_cases hσ : σ = l.tid
    · subst hσ; exact Nat.le_of_lt h
    · exact Nat.le_of_eq (hoA σ hσ)
  cases l with
  | call τ a c => cases hs
  | announceH τ h w => cases hs
  | nBegin τ h k => cases hs
  | announce τ =>
    apply dropA
    simp only [guard, Bool.and_eq_true, Option.isNone_iff_eq_none] at hg
    obtain ⟨y, hy⟩ := Option.isSome_iff_exists.1 hg.2
    simp only [arank, eff, Label.tid, updX_base, updX_xt_self, xrank, hg.1.1, hy, Option.map_some, pendRank]
    omega
  | rootCheck τ =>
    apply dropA
    simp only [guard, Bool.and_eq_true, Option.isNone_iff_eq_none] at hg
    simp only [arank, eff, Label.tid, updX_base, updX_xt_self, xrank, hg.1.2, chkRank]
    omega
  | nRLock τ =>
    apply dropA
    simp only [guard] at hg
    split at hg
    · rename_i o ho
      simp only [Bool.and_eq_true, beq_iff_eq] at hg
      simp only [arank, eff, Label.tid, ho, updX_base, updX_xt_self, xrank, nopRank, hg.1.1]
      omega
    · cases hg
  | nRLock2 τ => simp [guard, real] at hg
  | nRUnlock τ =>
    apply dropA
    simp only [guard] at hg
    split at hg
    · rename_i o ho
      simp only [arank, eff, Label.tid, ho, updX_base, updX_xt_self, xrank, nopRank]
      cases o.pc <;> simp only [] <;> omega
    · cases hg
  | b l0 =>
    simp only [guard, Bool.and_eq_true] at hg
    obtain ⟨hgb, hbg⟩ := hg
    have hgb' : CC.guard true s.base l0 = true := hgb
    have hninv := not_invoke_of_bguard hbg
    have hnhval : ∀ τ h, l0 ≠ .hval τ h := by
      intro τ h e; subst e; cases hs
    have hbase : (eff real s (.b l0)).base = CC.eff s.base l0 := by rw [eff_base]; rfl
    have hxt := eff_b_xt real s l0
    have hst : CC.Step true s.base l0 (CC.eff s.base l0) := ⟨hgb', rfl⟩
    obtain ⟨hpc', hcall'⟩ := pc_call_after hst
    have hcall := hcall' (isInvokeQuery_of_not_invoke hninv) hninv
    by_cases hq : isQuery (s.base.thr l0.tid).call = true ∧ (s.base.thr l0.tid).pc ≠ .idle
    · -- a transition of a running query: `A` is unchanged, `Q` drops
      obtain ⟨hqc, hpc⟩ := hq
      obtain ⟨q, hc⟩ : ∃ q, (s.base.thr l0.tid).call = .query q := by
        cases hcl : (s.base.thr l0.tid).call <;> rw [hcl] at hqc <;> first | exact ⟨_, rfl⟩ | cases hqc
      obtain ⟨htrie, hlt⟩ := qrank_step hi hgb' hc hninv hpc
      have hnw : isWAcq l0 = false := by
        cases hw : isWAcq l0 with
        | false => rfl
        | true =>
          rcases wacq_not_query hi hgb' hw with h | h
          · exact absurd h hpc
          · rw [hqc] at h; cases h
      have hA : rankA (eff real s (.b l0)) = rankA s := by
        apply sum_map_eq
        intro σ _
        by_cases hσ : σ = l0.tid
        · subst hσ
          simp only [arank, hxt, hnw, Bool.false_eq_true, if_false, hbase, brank, hcall, hc, brankOf_query]
        · exact hoA σ hσ
      have hQ : rankQ (eff real s (.b l0)) < rankQ s := by
        refine sum_map_lt _ _ l0.tid _ (hmem _) ?_ ?_
        · intro σ _
          simp only [hbase, htrie]
          by_cases hσ : σ = l0.tid
          · subst hσ; exact Nat.le_of_lt hlt
          · rw [eff_thr_other s.base l0 σ hσ]; exact Nat.le_refl _
        · simp only [hbase, htrie]; exact hlt
      show Prod.Lex (· < ·) (· < ·) (rankA _, rankQ _) (rankA s, rankQ s)
      rw [hA]
      exact Prod.Lex.right _ hQ
    · -- any other transition: the acting thread's rank in `A` drops
      apply dropA
      simp only [Label.tid]
      have hbr : brank ((CC.eff s.base l0).thr l0.tid) + wcost l0 ≤ brank (s.base.thr l0.tid) := by
        by_cases hqc : isQuery (s.base.thr l0.tid).call = true
        · have hpc : (s.base.thr l0.tid).pc = .idle := by
            cases h : (s.base.thr l0.tid).pc <;> first | rfl | exact absurd ⟨hqc, by rw [h]; simp⟩ hq
          rcases guard_idle' hgb hpc with ⟨τ, c, rfl⟩ | ⟨τ, h, rfl⟩ | ⟨τ, h, w, rfl⟩
          · exact absurd rfl (hninv τ c)
          · exact absurd rfl (hnhval τ h)
          · obtain ⟨q, hc⟩ : ∃ q, (s.base.thr τ).call = .query q := by
              simp only [CC.Label.tid] at hqc
              cases hcl : (s.base.thr τ).call <;> rw [hcl] at hqc <;> first | exact ⟨_, rfl⟩ | cases hqc
            simp only [CC.Label.tid] at hcall
            simp only [brank, CC.Label.tid, hcall, hc, brankOf_query, wcost]; exact Nat.le_refl _
        · exact brank_step hi hgb' (by simpa using hqc) ⟨hninv, hnhval⟩
      simp only [arank, hbase, hxt]
      cases hw : isWAcq l0 with
      | false =>
        simp only [Bool.false_eq_true, if_false]
        have : wcost l0 = 1 := by cases l0 <;> simp [isWAcq] at hw <;> rfl
        omega
      | true =>
        simp only [if_true]
        have hxr := xrank_pend_none (s.xt l0.tid)
        cases l0 with
        | hupd τ h w =>
          simp only [bguard, Bool.and_eq_true, beq_iff_eq] at hbg
          simp only [CC.Label.tid] at hxr hbr ⊢
          rw [hbg.1.1] at hxr
          simp only [wcost] at hbr
          simp only [pendRank] at hxr
          omega
        | termRoot τ =>
          simp only [CC.Label.tid] at hxr hbr ⊢
          have hwa : wAnnounced real s τ = true := by
            first
            | exact hbg
            | (simp only [bguard, Bool.and_eq_true] at hbg; exact hbg.1)
          simp only [wAnnounced] at hwa
          split at hwa
          · rename_i x y hls hp
            rw [hp] at hxr
            simp only [wcost] at hbr
            simp only [pendRank] at hxr
            omega
          · cases hwa
        | termWrite τ =>
          simp only [CC.Label.tid] at hxr hbr ⊢
          have hwa : wAnnounced real s τ = true := by
            first
            | exact hbg
            | (simp only [bguard, Bool.and_eq_true] at hbg; exact hbg.1)
          simp only [wAnnounced] at hwa
          split at hwa
          · rename_i x y hls hp
            rw [hp] at hxr
            simp only [wcost] at hbr
            simp only [pendRank] at hxr
            omega
          · cases hwa
        | upgAcquire τ =>
          simp only [CC.Label.tid] at hxr hbr ⊢
          have hwa : wAnnounced real s τ = true := by
            first
            | exact hbg
            | (simp only [bguard, Bool.and_eq_true] at hbg; exact hbg.1)
          simp only [wAnnounced] at hwa
          split at hwa
          · rename_i x y hls hp
            rw [hp] at hxr
            simp only [wcost] at hbr
            simp only [pendRank] at hxr
            omega
          · cases hwa
        | delete τ =>
          simp only [CC.Label.tid] at hxr hbr ⊢
          have hwa : wAnnounced real s τ = true := by
            first
            | exact hbg
            | (simp only [bguard, Bool.and_eq_true] at hbg; exact hbg.1)
          simp only [wAnnounced] at hwa
          split at hwa
          · rename_i x y hls hp
            rw [hp] at hxr
            simp only [wcost] at hbr
            simp only [pendRank] at hxr
            omega
          · cases hwa
        | _ => simp only [isWAcq] at hw; cases hw

end CX
end Gnmi
