import Gnmi.Model.Coalesce
import Gnmi.Spec.CoQueue
/-!
Helper lemmas for C11: the three map laws, the representation invariant `QInv` of the queue
and the exact effect of the two locked sections (`insertLocked`, `nextLocked`) on the
quantities the property speaks about (`pend`, `pendTotal`, the pending order).  Both the
sequential theorems and the LTS invariants of `Props/C11.lean` are assembled from these.
-/
namespace Gnmi
namespace Coalesce

variable {Item : Type} [DecidableEq Item]

/-! ## map laws -/

@[simp] theorem lookup_nil (j : Item) : CMap.lookup ([] : CMap Item) j = none := rfl

theorem lookup_replace (m : CMap Item) (i j : Item) (n : Nat) :
    CMap.lookup (CMap.replace m i n) j =
      if j = i then (CMap.lookup m i).map (fun _ => n) else CMap.lookup m j := by
  induction m with
  | nil => simp [CMap.replace, CMap.lookup]
  | cons kv m ih =>
    obtain ⟨k, c⟩ := kv
    by_cases hk : k = i
    · subst hk
      by_cases hj : j = k
      · subst hj; simp [CMap.replace, CMap.lookup]
      · have : ¬ k = j := fun h => hj h.symm
        simp [CMap.replace, CMap.lookup, this, hj, ih]
    · by_cases hj : j = i
      · subst hj
        simp [CMap.replace, CMap.lookup, hk, ih]
      · by_cases hkj : k = j
        · simp [CMap.replace, CMap.lookup, hk, hj, hkj]
        · simp [CMap.replace, CMap.lookup, hk, hj, hkj, ih]

theorem lookup_append_single (m : CMap Item) (i j : Item) (n : Nat)
    (h : CMap.lookup m i = none) :
    CMap.lookup (m ++ [(i, n)]) j = if j = i then some n else CMap.lookup m j := by
  induction m with
  | nil =>
    by_cases hj : j = i
    · subst hj; simp [CMap.lookup]
    · have : ¬ i = j := fun h => hj h.symm
      simp [CMap.lookup, hj, this]
  | cons kv m ih =>
    obtain ⟨k, c⟩ := kv
    by_cases hk : k = i
    · subst hk; simp [CMap.lookup] at h
    · simp only [CMap.lookup, hk, if_false] at h
      by_cases hkj : k = j
      · subst hkj
        simp [CMap.lookup, hk]
      · simp [CMap.lookup, hkj, ih h]

/-- `m[i] = n; m[j]` -/
theorem lookup_set (m : CMap Item) (i j : Item) (n : Nat) :
    CMap.lookup (CMap.set m i n) j = if j = i then some n else CMap.lookup m j := by
  unfold CMap.set
  cases h : CMap.lookup m i with
  | none => simp only; exact lookup_append_single m i j n h
  | some c =>
    simp only
    rw [lookup_replace, h]
    rfl

/-- `delete(m, i); m[j]` -/
theorem lookup_erase (m : CMap Item) (i j : Item) :
    CMap.lookup (CMap.erase m i) j = if j = i then none else CMap.lookup m j := by
  induction m with
  | nil => simp [CMap.erase, CMap.lookup]
  | cons kv m ih =>
    obtain ⟨k, c⟩ := kv
    unfold CMap.erase at ih ⊢
    by_cases hk : k = i
    · subst hk
      by_cases hj : j = k
      · subst hj; simpa [CMap.lookup] using ih
      · have : ¬ k = j := fun h => hj h.symm
        simpa [CMap.lookup, this, hj] using ih
    · by_cases hkj : k = j
      · subst hkj
        simp [CMap.lookup, hk]
      · simp [CMap.lookup, hk, hkj, ih]

/-! ## representation invariant and measured quantities -/

/-- representation invariant: no item is pending twice, and the map's key set is exactly the
set of pending items -/
structure QInv (q : Q Item) : Prop where
  nodup : q.queue.Nodup
  dom : ∀ i, (CMap.lookup q.coalesced i).isSome ↔ i ∈ q.queue

/-- insertions of `i` represented by the pending state: `1 + duplicates` if pending -/
def pend (q : Q Item) (i : Item) : Nat := if i ∈ q.queue then 1 + cnt q i else 0

/-- insertions represented by the whole pending state -/
def pendTotal (q : Q Item) : Nat := (q.queue.map (fun i => 1 + cnt q i)).sum

/-- insertions of `i` represented by a delivery log -/
def dsum (i : Item) : List (Item × Nat) → Nat
  | [] => 0
  | (k, d) :: l => (if k = i then 1 + d else 0) + dsum i l

/-- insertions represented by a delivery log -/
def wsum : List (Item × Nat) → Nat
  | [] => 0
  | (_, d) :: l => 1 + d + wsum l

@[simp] theorem dsum_nil (i : Item) : dsum i [] = 0 := rfl
@[simp] theorem wsum_nil : wsum ([] : List (Item × Nat)) = 0 := rfl

theorem dsum_append (i : Item) (a b : List (Item × Nat)) :
    dsum i (a ++ b) = dsum i a + dsum i b := by
  induction a with
  | nil => simp
  | cons kv a ih => obtain ⟨k, d⟩ := kv; simp [dsum, ih]; omega

theorem wsum_append (a b : List (Item × Nat)) : wsum (a ++ b) = wsum a + wsum b := by
  induction a with
  | nil => simp
  | cons kv a ih => obtain ⟨k, d⟩ := kv; simp [wsum, ih]; omega

@[simp] theorem dsum_single (i k : Item) (d : Nat) :
    dsum i [(k, d)] = if k = i then 1 + d else 0 := by simp [dsum]

@[simp] theorem wsum_single (k : Item) (d : Nat) : wsum [(k, d)] = 1 + d := by simp [wsum]

theorem QInv.new : QInv (Q.new : Q Item) := ⟨List.nodup_nil, by intro i; simp [Q.new]⟩

theorem sum_map_congr {α : Type} (l : List α) (f g : α → Nat) (h : ∀ x ∈ l, f x = g x) :
    (l.map f).sum = (l.map g).sum := by
  induction l with
  | nil => rfl
  | cons a l ih =>
    simp only [List.map_cons, List.sum_cons]
    rw [h a (List.mem_cons_self ..), ih (fun x hx => h x (List.mem_cons_of_mem _ hx))]

theorem sum_map_bump (l : List Item) (f g : Item → Nat) (i : Item) (hn : l.Nodup) (hi : i ∈ l)
    (hi1 : g i = f i + 1) (ho : ∀ x, x ≠ i → g x = f x) :
    (l.map g).sum = (l.map f).sum + 1 := by
  induction l with
  | nil => cases hi
  | cons a l ih =>
    simp only [List.map_cons, List.sum_cons]
    have hn' := List.nodup_cons.1 hn
    by_cases ha : a = i
    · subst ha
      rw [hi1, sum_map_congr l g f (fun x hx => ho x (fun h => hn'.1 (h ▸ hx)))]
      omega
    · have : i ∈ l := by
        rcases List.mem_cons.1 hi with h | h
        · exact absurd h.symm ha
        · exact h
      rw [ho a ha, ih hn'.2 this]
      omega

/-! ## the locked section of `Insert` -/

/-- everything the property needs to know about `q.insert(i)` -/
structure InsertSpec (q : Q Item) (i : Item) (q' : Q Item) (fresh : Bool) : Prop where
  inv : QInv q'
  fresh_iff : fresh = true ↔ i ∉ q.queue
  queue_eq : q'.queue = if fresh then q.queue ++ [i] else q.queue
  token_eq : q'.token = q.token
  closed_eq : q'.closed = q.closed
  pend_eq : ∀ j, pend q' j = pend q j + (if j = i then 1 else 0)
  total_eq : pendTotal q' = pendTotal q + 1
  cnt_eq : ∀ j, cnt q' j = cnt q j + (if j = i ∧ fresh = false then 1 else 0)
  cnt_fresh : fresh = true → cnt q i = 0

theorem insertLocked_spec (q : Q Item) (i : Item) (h : QInv q) :
    InsertSpec q i (insertLocked q i).1 (insertLocked q i).2 := by
  unfold insertLocked
  cases hl : CMap.lookup q.coalesced i with
  | some c =>
    have hi : i ∈ q.queue := (h.dom i).1 (by simp [hl])
    have hcnt : ∀ j, cnt { q with coalesced := CMap.set q.coalesced i (c + 1) } j =
        cnt q j + (if j = i then 1 else 0) := by
      intro j
      unfold cnt
      simp only [lookup_set]
      by_cases hj : j = i
      · subst hj; simp [hl]
      · simp [hj]
    refine ⟨⟨h.nodup, ?_⟩, ?_, ?_, rfl, rfl, ?_, ?_, ?_, ?_⟩
    · intro j
      simp only [lookup_set]
      by_cases hj : j = i
      · subst hj; simp [hi]
      · simp [hj, h.dom j]
    · simp [hi]
    · simp
    · intro j
      unfold pend
      simp only [hcnt]
      by_cases hj : j = i
      · subst hj; simp [hi]; omega
      · simp [hj]
    · unfold pendTotal
      simp only
      apply sum_map_bump q.queue _ _ i h.nodup hi
      · rw [hcnt]; simp; omega
      · intro x hx; rw [hcnt]; simp [hx]
    · intro j; rw [hcnt]; simp
    · intro hf; simp at hf
  | none =>
    have hi : i ∉ q.queue := fun hm => by
      have := (h.dom i).2 hm
      simp [hl] at this
    have hcnt : ∀ j, cnt { q with queue := q.queue ++ [i], coalesced := CMap.set q.coalesced i 0 } j =
        cnt q j := by
      intro j
      unfold cnt
      simp only [lookup_set]
      by_cases hj : j = i
      · subst hj; simp [hl]
      · simp [hj]
    refine ⟨⟨?_, ?_⟩, ?_, ?_, rfl, rfl, ?_, ?_, ?_, ?_⟩
    · simp only
      rw [List.nodup_append]
      refine ⟨h.nodup, by simp, ?_⟩
      intro a ha b hb
      simp at hb
      subst hb
      exact fun hab => hi (hab ▸ ha)
    · intro j
      simp only [lookup_set, List.mem_append, List.mem_singleton]
      by_cases hj : j = i
      · subst hj; simp
      · simp [hj, h.dom j]
    · simp [hi]
    · simp
    · intro j
      unfold pend
      simp only [hcnt, List.mem_append, List.mem_singleton]
      by_cases hj : j = i
      · subst hj
        have : cnt q j = 0 := by unfold cnt; simp [hl]
        simp [hi, this]
      · simp [hj]
    · unfold pendTotal
      simp only [List.map_append, List.sum_append, List.map_cons, List.map_nil, List.sum_cons,
        List.sum_nil, hcnt]
      have : cnt q i = 0 := by unfold cnt; simp [hl]
      omega
    · intro j; rw [hcnt]; simp
    · intro _; unfold cnt; simp [hl]

theorem insertLocked_closed (q : Q Item) (i : Item) : (insertLocked q i).1.closed = q.closed := by
  unfold insertLocked
  cases CMap.lookup q.coalesced i <;> rfl

/-! ## the locked section of `Next` -/

/-- everything the property needs to know about a successful `q.next()` -/
structure NextSpec (q : Q Item) (q' : Q Item) (i : Item) (d : Nat) : Prop where
  inv : QInv q'
  queue_eq : q.queue = i :: q'.queue
  dups_eq : d = cnt q i
  token_eq : q'.token = q.token
  closed_eq : q'.closed = q.closed
  pend_self : pend q i = 1 + d
  pend_self' : pend q' i = 0
  pend_other : ∀ j, j ≠ i → pend q' j = pend q j
  total_eq : pendTotal q = 1 + d + pendTotal q'
  cnt_other : ∀ j, j ∈ q'.queue → cnt q' j = cnt q j

theorem nextLocked_none (q : Q Item) (h : (nextLocked q).2 = none) :
    (nextLocked q).1 = q ∧ q.queue = [] := by
  unfold nextLocked at h ⊢
  cases hq : q.queue with
  | nil => simp
  | cons i rest =>
    rw [hq] at h
    by_cases hr : rest.isEmpty <;> simp [hr] at h

theorem nextLocked_some (q : Q Item) (i : Item) (d : Nat) (hq : QInv q)
    (h : (nextLocked q).2 = some (i, d)) : NextSpec q (nextLocked q).1 i d := by
  unfold nextLocked at h ⊢
  cases hqq : q.queue with
  | nil => rw [hqq] at h; simp at h
  | cons a rest =>
    rw [hqq] at h
    have hnd := hq.nodup
    rw [hqq] at hnd
    have hnd' := List.nodup_cons.1 hnd
    have hai : a = i ∧ cnt q a = d := by
      by_cases hr : rest.isEmpty <;> simp [hr] at h <;> exact ⟨h.1, by unfold cnt; exact h.2⟩
    obtain ⟨rfl, hd⟩ := hai
    have hmem : a ∈ q.queue := by rw [hqq]; exact List.mem_cons_self ..
    by_cases hr : rest.isEmpty
    · have hre : rest = [] := by simpa using hr
      subst hre
      simp only [List.isEmpty_nil, if_true]
      refine ⟨⟨List.nodup_nil, ?_⟩, hqq, hd.symm, rfl, rfl, ?_, ?_, ?_, ?_, ?_⟩
      · intro j; simp
      · unfold pend; simp [hmem, hd]
      · unfold pend; simp
      · intro j hj
        unfold pend
        simp [hqq, hj]
      · unfold pendTotal
        simp [hqq, hd]
      · intro j hj; simp at hj
    · have hr' : rest.isEmpty = false := by simpa using hr
      simp only [hr', Bool.false_eq_true, if_false]
      have hcnt : ∀ j, j ≠ a → cnt { q with queue := rest, coalesced := CMap.erase q.coalesced a } j = cnt q j := by
        intro j hj
        unfold cnt
        simp [lookup_erase, hj]
      refine ⟨⟨hnd'.2, ?_⟩, hqq, hd.symm, rfl, rfl, ?_, ?_, ?_, ?_, ?_⟩
      · intro j
        simp only [lookup_erase]
        by_cases hj : j = a
        · subst hj; simp [hnd'.1]
        · have := hq.dom j
          rw [hqq] at this
          simp [hj, this]
      · unfold pend; simp [hmem, hd]
      · unfold pend; simp [hnd'.1]
      · intro j hj
        unfold pend
        simp only [hqq, List.mem_cons, hj, false_or]
        rw [hcnt j hj]
      · unfold pendTotal
        simp only [hqq, List.map_cons, List.sum_cons, hd]
        have := sum_map_congr rest
          (fun i => 1 + cnt { q with queue := rest, coalesced := CMap.erase q.coalesced a } i)
          (fun i => 1 + cnt q i) (fun x hx => by rw [hcnt x (fun h => hnd'.1 (h ▸ hx))])
        omega
      · intro j hj
        exact hcnt j (fun h => hnd'.1 (h ▸ hj))

theorem nextLocked_closed (q : Q Item) : (nextLocked q).1.closed = q.closed := by
  unfold nextLocked
  cases q.queue with
  | nil => rfl
  | cons a rest => simp only []; split <;> rfl

/-- `next()` either fails on an empty queue and changes nothing, or succeeds -/
theorem nextLocked_cases (q : Q Item) (hq : QInv q) :
    ((nextLocked q).2 = none ∧ (nextLocked q).1 = q ∧ q.queue = []) ∨
    (∃ i d, (nextLocked q).2 = some (i, d) ∧ NextSpec q (nextLocked q).1 i d) := by
  cases h : (nextLocked q).2 with
  | none => exact Or.inl ⟨rfl, nextLocked_none q h⟩
  | some p => obtain ⟨i, d⟩ := p; exact Or.inr ⟨i, d, rfl, nextLocked_some q i d hq h⟩

/-! ## the `select` of `Next` -/

theorem mem_ready_ctx (q : Q Item) (c : Bool) : Arm.ctx ∈ ready q c ↔ c = true := by
  cases c <;> cases q.token <;> cases q.closed <;> simp [ready]

theorem mem_ready_token (q : Q Item) (c : Bool) : Arm.token ∈ ready q c ↔ q.token = true := by
  cases c <;> cases h : q.token <;> cases q.closed <;> simp [ready, h]

theorem mem_ready_closed (q : Q Item) (c : Bool) : Arm.closed ∈ ready q c ↔ q.closed = true := by
  cases c <;> cases q.token <;> cases h : q.closed <;> simp [ready, h]

theorem ready_nil (q : Q Item) (c : Bool) :
    ready q c = [] ↔ c = false ∧ q.token = false ∧ q.closed = false := by
  cases c <;> cases h1 : q.token <;> cases h2 : q.closed <;> simp [ready, h1, h2]

omit [DecidableEq Item] in
theorem choose_mem (pref rdy : List Arm) (a : Arm) (h : choose pref rdy = some a) : a ∈ rdy := by
  unfold choose at h
  cases hf : pref.find? (fun a => decide (a ∈ rdy)) with
  | some b =>
    rw [hf] at h
    simp only [Option.some.injEq] at h
    subst h
    have := List.find?_some hf
    simpa using this
  | none =>
    rw [hf] at h
    exact List.mem_of_mem_head? h

omit [DecidableEq Item] in
theorem choose_none (pref rdy : List Arm) (h : choose pref rdy = none) : rdy = [] := by
  unfold choose at h
  cases hf : pref.find? (fun a => decide (a ∈ rdy)) with
  | some b => rw [hf] at h; simp at h
  | none => rw [hf] at h; simpa using h

omit [DecidableEq Item] in
/-- the runtime may pick any ready case: a suitable preference realises it -/
theorem choose_singleton (rdy : List Arm) (a : Arm) (h : a ∈ rdy) : choose [a] rdy = some a := by
  simp [choose, h]

/-! ## `Next` run to completion by one goroutine -/

/-- states that differ at most in the wake-up token -/
def SameData (q q' : Q Item) : Prop :=
  q'.queue = q.queue ∧ q'.coalesced = q.coalesced ∧ q'.closed = q.closed

theorem SameData.refl (q : Q Item) : SameData q q := ⟨rfl, rfl, rfl⟩

theorem SameData.inv {q q' : Q Item} (h : SameData q q') (hq : QInv q) : QInv q' :=
  ⟨by rw [h.1]; exact hq.nodup, by intro i; rw [h.1, h.2.1]; exact hq.dom i⟩

theorem SameData.cnt {q q' : Q Item} (h : SameData q q') (j : Item) : cnt q' j = cnt q j := by
  unfold Coalesce.cnt; rw [h.2.1]

theorem SameData.pend {q q' : Q Item} (h : SameData q q') (j : Item) : pend q' j = pend q j := by
  unfold Coalesce.pend; rw [h.1, h.cnt]

theorem SameData.pendTotal {q q' : Q Item} (h : SameData q q') : pendTotal q' = pendTotal q := by
  unfold Coalesce.pendTotal
  rw [h.1]
  exact sum_map_congr _ _ _ (fun x _ => by rw [h.cnt])

/-- the answers `Next` can give on an empty queue -/
def EmptyRes (cancelled closed : Bool) (r : NextRes Item) : Prop :=
  (r = .errCtx ∧ cancelled = true) ∨ (r = .errClosed ∧ closed = true) ∨
  (r = .blocks ∧ cancelled = false ∧ closed = false)

theorem nextLocked_empty (q : Q Item) (h : q.queue = []) : nextLocked q = (q, none) := by
  unfold nextLocked; rw [h]

/-- empty queue, no token: one `select` decides -/
theorem nextLoop_empty_notoken (n : Nat) (q : Q Item) (c : Bool) (pref : List Arm)
    (hq : q.queue = []) (ht : q.token = false) :
    (nextLoop (n + 1) q c pref).1 = q ∧ EmptyRes c q.closed (nextLoop (n + 1) q c pref).2 := by
  unfold nextLoop
  rw [nextLocked_empty q hq]
  simp only
  cases hc : choose pref (ready q c) with
  | none =>
    have := (ready_nil q c).1 (choose_none _ _ hc)
    exact ⟨rfl, Or.inr (Or.inr ⟨rfl, this.1, this.2.2⟩)⟩
  | some a =>
    have hm := choose_mem _ _ _ hc
    cases a with
    | ctx => exact ⟨rfl, Or.inl ⟨rfl, (mem_ready_ctx q c).1 hm⟩⟩
    | token => rw [(mem_ready_token q c).1 hm] at ht; cases ht
    | closed =>
      have : len q = 0 := by unfold len; rw [hq]; rfl
      rw [if_pos this]
      exact ⟨rfl, Or.inr (Or.inl ⟨rfl, (mem_ready_closed q c).1 hm⟩)⟩

/-- empty queue: at most one token is consumed, then one `select` decides -/
theorem nextLoop_empty (n : Nat) (q : Q Item) (c : Bool) (pref : List Arm) (hq : q.queue = []) :
    SameData q (nextLoop (n + 2) q c pref).1 ∧ EmptyRes c q.closed (nextLoop (n + 2) q c pref).2 := by
  unfold nextLoop
  rw [nextLocked_empty q hq]
  simp only
  cases hc : choose pref (ready q c) with
  | none =>
    have := (ready_nil q c).1 (choose_none _ _ hc)
    exact ⟨SameData.refl q, Or.inr (Or.inr ⟨rfl, this.1, this.2.2⟩)⟩
  | some a =>
    have hm := choose_mem _ _ _ hc
    cases a with
    | ctx => exact ⟨SameData.refl q, Or.inl ⟨rfl, (mem_ready_ctx q c).1 hm⟩⟩
    | token =>
      have := nextLoop_empty_notoken n { q with token := false } c pref hq rfl
      simp only
      rw [this.1]
      exact ⟨⟨rfl, rfl, rfl⟩, this.2⟩
    | closed =>
      have : len q = 0 := by unfold len; rw [hq]; rfl
      rw [if_pos this]
      exact ⟨SameData.refl q, Or.inr (Or.inl ⟨rfl, (mem_ready_closed q c).1 hm⟩)⟩

/-- one iteration of the loop of `Next` on an empty queue -/
theorem nextLoop_miss (n : Nat) (q : Q Item) (c : Bool) (pref : List Arm) (h : q.queue = []) :
    nextLoop (n + 1) q c pref =
      match choose pref (ready q c) with
      | none => (q, .blocks)
      | some .ctx => (q, .errCtx)
      | some .token => nextLoop n { q with token := false } c pref
      | some .closed => (q, .errClosed) := by
  conv => lhs; unfold nextLoop
  rw [nextLocked_empty q h]
  have hl : len q = 0 := by unfold len; rw [h]; rfl
  simp only
  cases choose pref (ready q c) with
  | none => rfl
  | some a => cases a <;> simp [hl]

/-- `Next` on a non-empty queue returns the head at once -/
theorem nextLoop_hit (n : Nat) (q : Q Item) (c : Bool) (pref : List Arm) (i : Item) (d : Nat)
    (h : (nextLocked q).2 = some (i, d)) :
    nextLoop (n + 1) q c pref = ((nextLocked q).1, .item i d) := by
  unfold nextLoop
  generalize hr : nextLocked q = r at h
  obtain ⟨q1, o⟩ := r
  simp only at h
  subst h
  rfl

/-- the two ways a sequential `Next` can go -/
theorem next_cases (q : Q Item) (c : Bool) (pref : List Arm) (hq : QInv q) :
    (∃ i d, (nextLocked q).2 = some (i, d) ∧ NextSpec q (nextLocked q).1 i d ∧
        next q c pref = ((nextLocked q).1, .item i d)) ∨
    (q.queue = [] ∧ SameData q (next q c pref).1 ∧ EmptyRes c q.closed (next q c pref).2) := by
  rcases nextLocked_cases q hq with ⟨_, _, he⟩ | ⟨i, d, hs, hspec⟩
  · exact Or.inr ⟨he, nextLoop_empty 1 q c pref he⟩
  · exact Or.inl ⟨i, d, hs, hspec, nextLoop_hit 2 q c pref i d hs⟩

/-! ## one API call: effect on the measured quantities -/

/-- the bookkeeping identities of one call; summing them over a history gives the property -/
structure StepFacts (q : Q Item) (op : Op Item) (q' : Q Item) (o : Obs Item) : Prop where
  inv : QInv q'
  order : q.queue ++ freshOf op o = (delivOf o).map (·.1) ++ q'.queue
  item : ∀ j, pend q j + (okOf op o).count j = dsum j (delivOf o) + pend q' j
  total : pendTotal q + (okOf op o).length = wsum (delivOf o) + pendTotal q'
  closed_mono : q.closed = true → q'.closed = true

theorem insert_closed (q : Q Item) (i : Item) (h : q.closed = true) : insert q i = (q, .refused) := by
  unfold insert; simp [h]

theorem insert_open (q : Q Item) (i : Item) (h : q.closed = false) :
    insert q i = (if (insertLocked q i).2 then postToken (insertLocked q i).1 else (insertLocked q i).1,
                  .ok (insertLocked q i).2) := by
  unfold insert
  simp only [h, Bool.false_eq_true, if_false]
  cases (insertLocked q i).2 <;> simp

theorem postToken_same (q : Q Item) : SameData q (postToken q) := ⟨rfl, rfl, rfl⟩

theorem step_facts (q : Q Item) (op : Op Item) (hq : QInv q) :
    StepFacts q op (step q op).1 (step q op).2 := by
  cases op with
  | insert i =>
    simp only [step]
    cases hc : q.closed with
    | true =>
      rw [insert_closed q i hc]
      exact ⟨hq, by simp [freshOf, delivOf], by intro j; simp [okOf, delivOf],
        by simp [okOf, delivOf], fun _ => hc⟩
    | false =>
      rw [insert_open q i hc]
      have hs := insertLocked_spec q i hq
      generalize (insertLocked q i).1 = q1 at hs
      generalize (insertLocked q i).2 = fresh at hs
      cases fresh with
      | true =>
        have hsd := postToken_same q1
        simp only [if_true]
        refine ⟨hsd.inv hs.inv, ?_, ?_, ?_, ?_⟩
        · show q.queue ++ [i] = [] ++ (postToken q1).queue
          rw [hsd.1, hs.queue_eq]; simp
        · intro j
          show pend q j + [i].count j = 0 + pend (postToken q1) j
          rw [hsd.pend, hs.pend_eq j, List.count_singleton]
          by_cases hj : j = i
          · subst hj; simp
          · have : ¬ i = j := fun h => hj h.symm
            simp [hj, this]
        · show pendTotal q + 1 = 0 + pendTotal (postToken q1)
          rw [hsd.pendTotal, hs.total_eq]; omega
        · intro h; rw [h] at hc; cases hc
      | false =>
        simp only [Bool.false_eq_true, if_false]
        refine ⟨hs.inv, ?_, ?_, ?_, ?_⟩
        · show q.queue ++ [] = [] ++ q1.queue
          rw [hs.queue_eq]; simp
        · intro j
          show pend q j + [i].count j = 0 + pend q1 j
          rw [hs.pend_eq j, List.count_singleton]
          by_cases hj : j = i
          · subst hj; simp
          · have : ¬ i = j := fun h => hj h.symm
            simp [hj, this]
        · show pendTotal q + 1 = 0 + pendTotal q1
          rw [hs.total_eq]; omega
        · intro h; rw [h] at hc; cases hc
  | next c pref =>
    simp only [step]
    rcases next_cases q c pref hq with ⟨i, d, _, hs, he⟩ | ⟨he, hsd, hr⟩
    · rw [he]
      refine ⟨hs.inv, ?_, ?_, ?_, ?_⟩
      · show q.queue ++ [] = [i] ++ (nextLocked q).1.queue
        rw [hs.queue_eq]; simp
      · intro j
        show pend q j + 0 = dsum j [(i, d)] + pend (nextLocked q).1 j
        by_cases hj : j = i
        · subst hj; rw [hs.pend_self, hs.pend_self']; simp
        · have : ¬ i = j := fun h => hj h.symm
          rw [hs.pend_other j hj]; simp [this]
      · show pendTotal q + 0 = wsum [(i, d)] + pendTotal (nextLocked q).1
        rw [hs.total_eq]; simp
      · intro h; rw [hs.closed_eq]; exact h
    · have hdel : delivOf (Obs.nxt (next q c pref).2) = [] := by
        rcases hr with ⟨h, _⟩ | ⟨h, _⟩ | ⟨h, _⟩ <;> rw [h] <;> rfl
      refine ⟨hsd.inv hq, ?_, ?_, ?_, ?_⟩
      · rw [hdel, hsd.1]; simp [freshOf]
      · intro j; rw [hdel, hsd.pend]; simp [okOf]
      · rw [hdel, hsd.pendTotal]; simp [okOf]
      · intro h; rw [hsd.2.2]; exact h
  | len => exact ⟨hq, by simp [step, freshOf, delivOf], by intro j; simp [step, okOf, delivOf],
      by simp [step, okOf, delivOf], fun h => h⟩
  | close =>
    have h1 : ∀ j, pend (close q) j = pend q j := fun _ => rfl
    have h2 : pendTotal (close q) = pendTotal q := rfl
    refine ⟨⟨hq.nodup, hq.dom⟩, by simp [step, freshOf, delivOf, close], ?_, ?_, fun _ => rfl⟩
    · intro j
      show pend q j + 0 = 0 + pend (close q) j
      rw [h1]; omega
    · show pendTotal q + 0 = 0 + pendTotal (close q)
      rw [h2]; omega
  | isClosed => exact ⟨hq, by simp [step, freshOf, delivOf], by intro j; simp [step, okOf, delivOf],
      by simp [step, okOf, delivOf], fun h => h⟩

/-- the bookkeeping identities of a whole history -/
structure RunFacts (q : Q Item) (ops : List (Op Item)) : Prop where
  inv : QInv (run q ops)
  order : q.queue ++ freshInserts q ops = (deliveries q ops).map (·.1) ++ (run q ops).queue
  item : ∀ j, pend q j + (okInserts q ops).count j = dsum j (deliveries q ops) + pend (run q ops) j
  total : pendTotal q + (okInserts q ops).length = wsum (deliveries q ops) + pendTotal (run q ops)
  closed_mono : q.closed = true → (run q ops).closed = true

theorem run_facts (q : Q Item) (ops : List (Op Item)) (hq : QInv q) : RunFacts q ops := by
  induction ops generalizing q with
  | nil => exact ⟨hq, by simp [freshInserts, deliveries, run], by intro j; simp [okInserts, deliveries, run],
      by simp [okInserts, deliveries, run], fun h => h⟩
  | cons op ops ih =>
    have h1 := step_facts q op hq
    have h2 := ih (step q op).1 h1.inv
    refine ⟨h2.inv, ?_, ?_, ?_, fun h => h2.closed_mono (h1.closed_mono h)⟩
    · show q.queue ++ (freshOf op (step q op).2 ++ freshInserts (step q op).1 ops) =
        (delivOf (step q op).2 ++ deliveries (step q op).1 ops).map (·.1) ++ (run (step q op).1 ops).queue
      rw [← List.append_assoc, h1.order, List.append_assoc, h2.order, List.map_append,
        List.append_assoc]
    · intro j
      show pend q j + (okOf op (step q op).2 ++ okInserts (step q op).1 ops).count j =
        dsum j (delivOf (step q op).2 ++ deliveries (step q op).1 ops) + pend (run (step q op).1 ops) j
      rw [List.count_append, dsum_append]
      have a := h1.item j
      have b := h2.item j
      omega
    · show pendTotal q + (okOf op (step q op).2 ++ okInserts (step q op).1 ops).length =
        wsum (delivOf (step q op).2 ++ deliveries (step q op).1 ops) + pendTotal (run (step q op).1 ops)
      rw [List.length_append, wsum_append]
      have a := h1.total
      have b := h2.total
      omega

theorem run_append (q : Q Item) (a b : List (Op Item)) : run q (a ++ b) = run (run q a) b := by
  induction a generalizing q with
  | nil => rfl
  | cons op a ih => exact ih _

theorem pend_new (j : Item) : pend (Q.new : Q Item) j = 0 := by simp [pend, Q.new]

theorem pendTotal_new : pendTotal (Q.new : Q Item) = 0 := by simp [pendTotal, Q.new]

/-! ## abstraction -/

theorem abs_keys (q : Q Item) : (abs q).items.map (·.1) = q.queue := by
  simp [abs, List.map_map, Function.comp_def]

theorem bump_map (i : Item) (l : List Item) (f : Item → Nat) :
    bump i (l.map (fun j => (j, f j))) = l.map (fun j => (j, if j = i then f j + 1 else f j)) := by
  induction l with
  | nil => rfl
  | cons a l ih =>
    simp only [List.map_cons, bump, ih]
    by_cases h : a = i <;> simp [h]

end Coalesce
end Gnmi
