import Gnmi.Lemmas.CacheState
/-!
# The unit log of a cache history, and the per-leaf ghost "accepted since last removal"

Every change the cache makes to a target's tree goes through four primitives:

* one call of `Target.gnmiUpdate1` with a *unit* (a notification carrying the one update to
  apply; an atomic notification is a unit as a whole),
* one call of `Target.gnmiRemove1` (a delete at a timestamp below a path),
* `Reset` dropping one top-level subtree,
* `Add` / `Remove` (the target starts empty / is gone).

The functions `…Log` below only *observe* the model: following the model function of the same
name arm by arm they list the primitive calls it makes for one target (`Prim`), each update
unit together with the result class the model's `gnmiUpdate1` returns for it in the state it
is applied to.  All intermediate states are computed by the model functions themselves
(`multiUpdates … [u] acc`, `Target.gnmiUpdate`, `State.step`): nothing is re-defined.

`ghostPrim` / `accepted` then define, from such a log and by recursion over it alone (no
access to the tree), the list of units for leaf `k` accepted since `k` was last removed; `Tr`
says that this ghost tracks the stored leaf.  The lemmas `…_tr` lift `Tr` through every
level of the model up to `State.run`.
-/
namespace Gnmi
namespace Cache

/-! ## Primitive calls and the ghost -/

/-- one primitive call on a target's tree, as logged -/
inductive Prim where
  /-- `gnmiUpdate1` was called with unit `n` and returned result class `res` -/
  | upd (n : Noti) (res : Res)
  /-- `gnmiRemove1`: delete at timestamp `ts` of what query `q` matches -/
  | del (ts : Int) (q : Path)
  /-- `Reset` deleted the top-level subtree `root` (`t.t.Delete([]string{root})`) -/
  | wipeRoot (root : String)
  /-- `Add` (fresh empty target) or `Remove` (target gone) -/
  | fresh
deriving DecidableEq, Repr

/-- the index a unit is stored under (`none`: the model panics before computing one) -/
def unitKey? (n : Noti) : Option Path :=
  match n.upd with
  | u :: _ => updKey? n u
  | [] => none

/-- is `ts` strictly newer than the last unit of `g`? -/
def newerThanLast (g : List Noti) (ts : Int) : Bool :=
  match g.getLast? with
  | some l => decide (l.ts < ts)
  | none => false

/-- **The ghost step.**  `g` = the units for leaf `k` accepted since `k` was last removed
(oldest first).  A unit is *accepted* when `gnmiUpdate1` answered `ok` (not stale, not future,
no error); an accepted unit for `k` is appended, a rejected one or one for another leaf
changes nothing.  A delete covering `k` with a timestamp newer than the last accepted unit, a
`Reset` of the subtree `k` lies in, and `Add`/`Remove` of the target empty the list. -/
def ghostPrim (k : Path) (g : List Noti) : Prim → List Noti
  | .upd n res => if res = .ok ∧ unitKey? n = some k then g ++ [n] else g
  | .del ts q => if qmatches q k && newerThanLast g ts then [] else g
  | .wipeRoot root => if qmatches [root] k then [] else g
  | .fresh => []

/-- the units for `k` accepted since its last removal, after the logged calls `L`, starting
from `g` -/
def accepted (k : Path) (g : List Noti) (L : List Prim) : List Noti := L.foldl (ghostPrim k) g

theorem accepted_nil (k : Path) (g : List Noti) : accepted k g [] = g := rfl

theorem accepted_cons (k : Path) (g : List Noti) (p : Prim) (L : List Prim) :
    accepted k g (p :: L) = accepted k (ghostPrim k g p) L := rfl

theorem accepted_append (k : Path) (g : List Noti) (L L' : List Prim) :
    accepted k g (L ++ L') = accepted k (accepted k g L) L' := by
  simp [accepted, List.foldl_append]

/-- **`g` tracks leaf `k` of tree `m`**: the leaf is absent when `g` is empty and holds the last
unit of `g` otherwise; and no unit of `g` is newer than the last one. -/
structure Tr (k : Path) (m : PMap Noti) (g : List Noti) : Prop where
  stored : lookup m k = g.getLast?
  max : ∀ x ∈ g, ∀ l, g.getLast? = some l → x.ts ≤ l.ts

theorem Tr.nil (k : Path) : Tr k [] [] := ⟨rfl, by simp⟩

theorem Tr.absent {k : Path} {m : PMap Noti} (h : lookup m k = none) : Tr k m [] :=
  ⟨by simpa using h, by simp⟩

theorem Tr.of_eq {k : Path} {m m' : PMap Noti} {g : List Noti} (h : Tr k m g) (e : m' = m) : Tr k m' g := by
  rw [e]; exact h

theorem Tr.empty_of_none {k : Path} {m : PMap Noti} {g : List Noti} (h : Tr k m g)
    (hl : lookup m k = none) : g = [] := by
  have := h.stored; rw [hl] at this
  exact List.getLast?_eq_none_iff.1 this.symm

theorem Tr.snoc {k : Path} {m m' : PMap Noti} {g : List Noti} {n : Noti} (h : Tr k m g)
    (hs : lookup m' k = some n) (hold : ∀ old, lookup m k = some old → old.ts ≤ n.ts) :
    Tr k m' (g ++ [n]) := by
  refine ⟨by simp [hs], ?_⟩
  intro x hx l hl
  have hln : l = n := by simpa using hl.symm
  subst hln
  rcases List.mem_append.1 hx with hx | hx
  · cases hg : g.getLast? with
    | none => rw [List.getLast?_eq_none_iff.1 hg] at hx; cases hx
    | some o =>
      have h1 := h.max x hx o hg
      have h2 := hold o (by rw [h.stored, hg])
      exact Int.le_trans h1 h2
  · have : x = l := by simpa using hx
    rw [this]; exact Int.le_refl _

/-- an existing leaf `key` is overwritten by a unit that is not older -/
theorem Tr.overwrite {k key : Path} {m : PMap Noti} {g : List Noti} {n old : Noti} (hu : UniqueKeys m)
    (hl : lookup m key = some old) (hts : old.ts ≤ n.ts) (h : Tr k m g) :
    Tr k (setLeaf m key n) (if some key = some k then g ++ [n] else g) := by
  by_cases hk : key = k
  · subst hk
    simp only [if_true]
    refine h.snoc (lookup_setLeaf_same hu hl) ?_
    intro o ho; rw [hl] at ho; cases ho; exact hts
  · have : ¬ (some key = some k) := fun e => hk (Option.some.inj e)
    simp only [this, if_false]
    exact ⟨by rw [lookup_setLeaf_other hu (fun e => hk e.symm)]; exact h.stored, h.max⟩

/-- a new leaf `key` is added -/
theorem Tr.added {k key : Path} {m m' : PMap Noti} {g : List Noti} {n : Noti}
    (hl : lookup m key = none) (ha : PMap.add m key n = some m') (h : Tr k m g) :
    Tr k m' (if some key = some k then g ++ [n] else g) := by
  by_cases hk : key = k
  · subst hk
    simp only [if_true]
    refine h.snoc (lookup_add_same ha) ?_
    intro o ho; rw [hl] at ho; cases ho
  · have : ¬ (some key = some k) := fun e => hk (Option.some.inj e)
    simp only [this, if_false]
    exact ⟨by rw [lookup_add_other ha (fun e => hk e.symm)]; exact h.stored, h.max⟩

/-- a conditional delete: the leaf goes exactly when the query covers it and the condition
holds of the stored (= last accepted) unit -/
theorem Tr.delete {k : Path} {m : PMap Noti} {g : List Noti} (hu : UniqueKeys m) (c : Noti → Bool)
    (q : Path) (h : Tr k m g) :
    Tr k (PMap.delete c m q).1
      (if qmatches q k && (match g.getLast? with | some l => c l | none => false) then [] else g) := by
  cases hl : lookup m k with
  | none =>
    have hg := h.empty_of_none hl
    subst hg
    have : lookup (PMap.delete c m q).1 k = none := by
      cases hd : lookup (PMap.delete c m q).1 k with
      | none => rfl
      | some v => have := lookup_delete_some hu hd; rw [hl] at this; cases this
    simpa using Tr.absent this
  | some v =>
    have hg : g.getLast? = some v := by rw [← h.stored, hl]
    simp only [hg]
    by_cases hc : (qmatches q k && c v) = true
    · simp only [hc, if_true]
      exact Tr.absent (lookup_delete_removed hu hl hc)
    · have hc' : (qmatches q k && c v) = false := by simpa using hc
      simp only [hc', Bool.false_eq_true, if_false]
      exact ⟨by rw [lookup_delete_kept hu hl hc', hg], h.max⟩

/-! ## One `gnmiUpdate1`, one `gnmiRemove1` -/

theorem unitKey?_eq {n : Noti} {u : Upd} {us : List Upd} (hu : n.upd = u :: us) (ht : n.target ≠ "") :
    unitKey? n = some (updKey n u) := by
  unfold unitKey?; rw [hu]
  simp only [updKey?, updKey]; exact joinKey?_eq _ _ ht

/-- **One unit.**  Whatever `gnmiUpdate1` answers, the ghost step on the logged call tracks the
leaf afterwards: accepted and addressed to `k` — the leaf now holds the unit, which is not
older than anything accepted before; rejected, or addressed elsewhere — the leaf is as before. -/
theorem Tr.upd {a b : Int} {cfg : Cfg} {now : Int} {t : Target} {n : Noti} {k : Path} {g : List Noti}
    (hi : TInvD a b t) (hn : n.upd ≠ []) (ht : n.target ≠ "") (h : Tr k t.tree g) :
    Tr k (Target.gnmiUpdate1 cfg now t n).2.1.tree
      (ghostPrim k g (.upd n (Target.gnmiUpdate1 cfg now t n).1)) := by
  match hu : n.upd with
  | [] => exact absurd hu hn
  | u :: us =>
    have he := gnmiUpdate1_effect cfg now t n u us hu ht
    have hk := unitKey?_eq hu ht
    simp only [ghostPrim, hk]
    generalize Target.gnmiUpdate1 cfg now t n = r at he
    cases he with
    | rejected r t' hr h1 =>
      have : r ≠ .ok := by rcases hr with rfl | rfl | rfl <;> simp
      simp only [this, false_and, if_false]
      exact h.of_eq h1
    | replaced t' old _ hl hts h1 =>
      simp only [true_and]
      exact (Tr.overwrite hi.unique hl hts h).of_eq h1
    | suppressed t' old _ _ _ hl hts h1 =>
      simp only [true_and]
      exact (Tr.overwrite hi.unique hl hts h).of_eq h1
    | added t' _ hl ha =>
      simp only [true_and]
      exact Tr.added hl ha h
    | panicOld t' old hl ho => exact absurd ho (hi.hasUpd _ (mem_of_lookup_some hl))

/-- the call logged for `gnmiRemove1 t n` (nothing when it panics before touching the tree) -/
def delLog (n : Noti) : List Prim :=
  match n.del with
  | [] => []
  | d :: _ =>
    match joinKey? n d.path with
    | none => []
    | some q => [.del n.ts q]

theorem Tr.remove1 {a b : Int} {t : Target} {n : Noti} {k : Path} {g : List Noti}
    (hi : TInvD a b t) (ht : n.target ≠ "") (h : Tr k t.tree g) :
    Tr k (Target.gnmiRemove1 t n).1.tree (accepted k g (delLog n)) := by
  match hd : n.del with
  | [] =>
    have h1 : Target.gnmiRemove1 t n = (t, [], true) := by unfold Target.gnmiRemove1; rw [hd]
    have h2 : delLog n = [] := by unfold delLog; rw [hd]
    rw [h1, h2]; exact h
  | d :: ds =>
    obtain ⟨h1, _⟩ := gnmiRemove1_spec t n d ds hd ht
    have h2 : delLog n = [.del n.ts (joinKey n d.path)] := by
      unfold delLog; rw [hd]; simp only [joinKey?_eq _ _ ht]
    rw [h2, h1]
    have := Tr.delete hi.unique (olderThan n.ts) (joinKey n d.path) h
    simpa [accepted, ghostPrim, newerThanLast, olderThan] using this

/-! ## The loops of a multi-update notification -/

theorem multiUpdates_panicked (cfg : Cfg) (now : Int) (hdr : Noti) (us : List Upd) (acc : MultiAcc)
    (h : acc.panicked = true) : multiUpdates cfg now hdr us acc = acc := by
  cases us <;> simp [multiUpdates, h]

theorem multiDeletes_panicked (hdr : Noti) (ds : List Del) (acc : MultiAcc)
    (h : acc.panicked = true) : multiDeletes hdr ds acc = acc := by
  cases ds <;> simp [multiDeletes, h]

/-- the update loop is its first round followed by the loop over the rest -/
theorem multiUpdates_cons (cfg : Cfg) (now : Int) (hdr : Noti) (u : Upd) (us : List Upd) (acc : MultiAcc) :
    multiUpdates cfg now hdr (u :: us) acc =
      multiUpdates cfg now hdr us (multiUpdates cfg now hdr [u] acc) := by
  by_cases hp : acc.panicked = true
  · rw [multiUpdates_panicked _ _ _ (u :: us) _ hp, multiUpdates_panicked _ _ _ [u] _ hp,
      multiUpdates_panicked _ _ _ us _ hp]
  · have hp' : acc.panicked = false := by simpa using hp
    by_cases h1 : (Target.gnmiUpdate1 cfg now acc.t { hdr with upd := [u], del := [] }).1 = .panic
    · have e1 : multiUpdates cfg now hdr (u :: us) acc =
          { acc with panicked := true,
                     t := (Target.gnmiUpdate1 cfg now acc.t { hdr with upd := [u], del := [] }).2.1 } := by
        simp [multiUpdates, hp', h1]
      have e2 : multiUpdates cfg now hdr [u] acc =
          { acc with panicked := true,
                     t := (Target.gnmiUpdate1 cfg now acc.t { hdr with upd := [u], del := [] }).2.1 } := by
        simp [multiUpdates, hp', h1]
      rw [e1, e2, multiUpdates_panicked _ _ _ us _ rfl]
    · by_cases h2 : (Target.gnmiUpdate1 cfg now acc.t { hdr with upd := [u], del := [] }).1.isErr = true
      · simp [multiUpdates, hp', h1, h2]
      · cases h3 : (Target.gnmiUpdate1 cfg now acc.t { hdr with upd := [u], del := [] }).2.2 <;>
          simp [multiUpdates, hp', h1, h2, h3]

theorem multiDeletes_cons (hdr : Noti) (d : Del) (ds : List Del) (acc : MultiAcc) :
    multiDeletes hdr (d :: ds) acc = multiDeletes hdr ds (multiDeletes hdr [d] acc) := by
  by_cases hp : acc.panicked = true
  · rw [multiDeletes_panicked _ (d :: ds) _ hp, multiDeletes_panicked _ [d] _ hp,
      multiDeletes_panicked _ ds _ hp]
  · have hp' : acc.panicked = false := by simpa using hp
    by_cases h1 : (Target.gnmiRemove1 { acc.t with md := { acc.t.md with updated := acc.t.md.updated + 1 } }
        { hdr with upd := [], del := [d] }).2.2 = true
    · have e1 : multiDeletes hdr (d :: ds) acc =
          { acc with panicked := true,
                     t := (Target.gnmiRemove1 { acc.t with md := { acc.t.md with updated := acc.t.md.updated + 1 } }
                        { hdr with upd := [], del := [d] }).1 } := by
        simp [multiDeletes, hp', h1]
      have e2 : multiDeletes hdr [d] acc =
          { acc with panicked := true,
                     t := (Target.gnmiRemove1 { acc.t with md := { acc.t.md with updated := acc.t.md.updated + 1 } }
                        { hdr with upd := [], del := [d] }).1 } := by
        simp [multiDeletes, hp', h1]
      rw [e1, e2, multiDeletes_panicked _ ds _ rfl]
    · simp [multiDeletes, hp', h1]

/-- the tree after one round of the update loop is the tree `gnmiUpdate1` returns -/
theorem multiUpdates_one_tree (cfg : Cfg) (now : Int) (hdr : Noti) (u : Upd) (acc : MultiAcc)
    (hp : acc.panicked = false) :
    (multiUpdates cfg now hdr [u] acc).t.tree =
      (Target.gnmiUpdate1 cfg now acc.t { hdr with upd := [u], del := [] }).2.1.tree := by
  simp only [multiUpdates, hp, Bool.false_eq_true, if_false]
  split
  · rfl
  · split
    · rfl
    · split <;> rfl

theorem multiDeletes_one_tree (hdr : Noti) (d : Del) (acc : MultiAcc) (hp : acc.panicked = false) :
    (multiDeletes hdr [d] acc).t.tree =
      (Target.gnmiRemove1 { acc.t with md := { acc.t.md with updated := acc.t.md.updated + 1 } }
        { hdr with upd := [], del := [d] }).1.tree := by
  simp only [multiDeletes, hp, Bool.false_eq_true, if_false]
  split <;> rfl

/-- the units the update loop hands to `gnmiUpdate1`, each with the answer it gets -/
def multiUpdatesLog (cfg : Cfg) (now : Int) (hdr : Noti) : List Upd → MultiAcc → List Prim
  | [], _ => []
  | u :: us, acc =>
    if acc.panicked then [] else
    Prim.upd { hdr with upd := [u], del := [] }
        (Target.gnmiUpdate1 cfg now acc.t { hdr with upd := [u], del := [] }).1 ::
      multiUpdatesLog cfg now hdr us (multiUpdates cfg now hdr [u] acc)

/-- the deletes the delete loop hands to `gnmiRemove1` -/
def multiDeletesLog (hdr : Noti) : List Del → MultiAcc → List Prim
  | [], _ => []
  | d :: ds, acc =>
    if acc.panicked then [] else
    delLog { hdr with upd := [], del := [d] } ++ multiDeletesLog hdr ds (multiDeletes hdr [d] acc)

theorem multiUpdates_tr {a b : Int} (cfg : Cfg) (now : Int) (hdr : Noti) (hh : hdr.target ≠ "") (k : Path) :
    ∀ (us : List Upd) (acc : MultiAcc) (g : List Noti), acc.panicked = false → TInvD a b acc.t →
      Tr k acc.t.tree g →
      Tr k (multiUpdates cfg now hdr us acc).t.tree (accepted k g (multiUpdatesLog cfg now hdr us acc))
  | [], acc, g, _, _, h => by simpa [multiUpdates, multiUpdatesLog, accepted] using h
  | u :: us, acc, g, hp, hi, h => by
    have hok := multiUpdates_ok cfg now hdr hh acc.t [u] acc ⟨hp, hi, Grow.refl _, rfl, rfl⟩
    have h1 : Tr k (multiUpdates cfg now hdr [u] acc).t.tree
        (ghostPrim k g (.upd { hdr with upd := [u], del := [] }
          (Target.gnmiUpdate1 cfg now acc.t { hdr with upd := [u], del := [] }).1)) := by
      rw [multiUpdates_one_tree cfg now hdr u acc hp]
      exact Tr.upd hi (by simp) hh h
    rw [multiUpdates_cons]
    simp only [multiUpdatesLog, hp, Bool.false_eq_true, if_false, accepted_cons]
    exact multiUpdates_tr cfg now hdr hh k us _ _ hok.noPanic hok.inv h1

theorem multiDeletes_tr {a b : Int} (hdr : Noti) (hh : hdr.target ≠ "") (k : Path) :
    ∀ (ds : List Del) (acc : MultiAcc) (g : List Noti), acc.panicked = false → TInvD a b acc.t →
      Tr k acc.t.tree g →
      Tr k (multiDeletes hdr ds acc).t.tree (accepted k g (multiDeletesLog hdr ds acc))
  | [], acc, g, _, _, h => by simpa [multiDeletes, multiDeletesLog, accepted] using h
  | d :: ds, acc, g, hp, hi, h => by
    have hok := multiDeletes_ok hdr hh acc.t [d] acc ⟨hp, hi, Shrink.refl _, rfl, rfl⟩
    have h1 : Tr k (multiDeletes hdr [d] acc).t.tree
        (accepted k g (delLog { hdr with upd := [], del := [d] })) := by
      rw [multiDeletes_one_tree hdr d acc hp]
      exact Tr.remove1 (t := { acc.t with md := { acc.t.md with updated := acc.t.md.updated + 1 } })
        (hi.with_md _ ⟨rfl, rfl, rfl⟩) hh h
    rw [multiDeletes_cons]
    simp only [multiDeletesLog, hp, Bool.false_eq_true, if_false, accepted_append]
    exact multiDeletes_tr hdr hh k ds _ _ hok.noPanic hok.inv h1

/-! ## A whole notification (`Target.GnmiUpdate`) -/

theorem singleArm_tree (r : Res × Target × Option Noti) (cnt : Int) :
    (singleArm r cnt).2.1.tree = r.2.1.tree := by
  unfold singleArm
  split
  · rfl
  · split <;> rfl

/-- the primitive calls of `Target.dispatch`, arm by arm -/
def Target.dispatchLog (cfg : Cfg) (now : Int) (t : Target) (n : Noti) : List Prim :=
  if n.atomic then
    if !n.del.isEmpty then []
    else if n.upd.isEmpty then []
    else [.upd n (Target.gnmiUpdate1 cfg now t n).1]
  else if n.upd.length + n.del.length > 1 then
    let hdr := { n with upd := [], del := [] }
    multiUpdatesLog cfg now hdr n.upd { t := t } ++
      multiDeletesLog hdr n.del (multiUpdates cfg now hdr n.upd { t := t })
  else if n.upd.length = 1 then [.upd n (Target.gnmiUpdate1 cfg now t n).1]
  else if n.del.length = 1 then delLog n
  else []

/-- the primitive calls of `Target.GnmiUpdate` (the deferred `checkTimestamp` touches no leaf) -/
def Target.gnmiUpdateLog (cfg : Cfg) (now : Int) (t : Target) (n : Noti) : List Prim :=
  match tracksTimestamp? n with
  | none => []
  | some _ => t.dispatchLog cfg now n

theorem dispatch_tr {a b : Int} (cfg : Cfg) (now : Int) (t : Target) (n : Noti) (hi : TInvD a b t)
    (ht : n.target ≠ "") (k : Path) (g : List Noti) (h : Tr k t.tree g) :
    Tr k (t.dispatch cfg now n).2.1.tree (accepted k g (t.dispatchLog cfg now n)) := by
  unfold Target.dispatch Target.dispatchLog
  by_cases ha : n.atomic = true
  · simp only [ha, if_true]
    by_cases hd : (!n.del.isEmpty) = true
    · simp only [hd, if_true]; exact h
    · simp only [hd, Bool.false_eq_true, if_false]
      by_cases hu : n.upd.isEmpty = true
      · simp only [hu, if_true]; exact h
      · simp only [hu, Bool.false_eq_true, if_false, singleArm_tree, accepted_cons, accepted_nil]
        exact Tr.upd hi (by intro e; rw [e] at hu; simp at hu) ht h
  · rw [if_neg ha, if_neg ha]
    by_cases hm : n.upd.length + n.del.length > 1
    · simp only [hm, if_true]
      have hA := multiUpdates_ok (a := a) (b := b) cfg now { n with upd := [], del := [] } ht t n.upd { t := t }
        ⟨rfl, hi, Grow.refl t, rfl, rfl⟩
      have h1 := multiUpdates_tr (a := a) (b := b) cfg now { n with upd := [], del := [] } ht k n.upd
        { t := t } g rfl hi h
      have h2 := multiDeletes_tr (a := a) (b := b) { n with upd := [], del := [] } ht k n.del _ _
        hA.noPanic hA.inv h1
      rw [accepted_append]
      split <;> exact h2
    · simp only [hm, if_false]
      by_cases h1 : n.upd.length = 1
      · simp only [h1, if_true, singleArm_tree, accepted_cons, accepted_nil]
        exact Tr.upd hi (by intro e; rw [e] at h1; simp at h1) ht h
      · simp only [h1, if_false]
        by_cases h2 : n.del.length = 1
        · simp only [h2, if_true]
          have := Tr.remove1 (n := n) (k := k) (g := g)
            (t := { t with md := { t.md with updated := t.md.updated + 1 } })
            (hi.with_md _ ⟨rfl, rfl, rfl⟩) ht h
          split <;> exact this
        · simp only [h2, if_false]; exact h

theorem gnmiUpdate_tree (cfg : Cfg) (now : Int) (t : Target) (n : Noti) (ht : n.target ≠ "") :
    (t.gnmiUpdate cfg now n).2.1.tree = (t.dispatch cfg now n).2.1.tree ∧
    t.gnmiUpdateLog cfg now n = t.dispatchLog cfg now n := by
  obtain ⟨b, hb⟩ := tracksTimestamp?_isSome n ht
  unfold Target.gnmiUpdate Target.gnmiUpdateLog
  rw [hb]
  refine ⟨?_, rfl⟩
  simp only
  split
  · exact (checkTimestamp_frame _ _).1
  · rfl

/-- **One `Target.GnmiUpdate` of any shape**: the ghost run over its logged calls tracks the
leaf afterwards. -/
theorem gnmiUpdate_tr {a b : Int} (cfg : Cfg) (now : Int) (t : Target) (n : Noti) (hi : TInvD a b t)
    (ht : n.target ≠ "") (k : Path) (g : List Noti) (h : Tr k t.tree g) :
    Tr k (t.gnmiUpdate cfg now n).2.1.tree (accepted k g (t.gnmiUpdateLog cfg now n)) := by
  obtain ⟨e1, e2⟩ := gnmiUpdate_tree cfg now t n ht
  rw [e1, e2]; exact dispatch_tr cfg now t n hi ht k g h

/-! ## Metadata refresh and `Reset` -/

/-- generic log of a left fold: the log of each step in the state it is applied to -/
def foldLog {α σ : Type} (f : σ → α → σ) (lg : σ → α → List Prim) : List α → σ → List Prim
  | [], _ => []
  | x :: l, s => lg s x ++ foldLog f lg l (f s x)

theorem foldLog_tr {a b : Int} {α : Type} (f : Target × List Event → α → Target × List Event)
    (lg : Target × List Event → α → List Prim) (k : Path)
    (hm : ∀ acc x, TInvD a b acc.1 → acc.1.name ≠ "" → MetaStep a b acc.1 (f acc x).1)
    (hf : ∀ acc x g, TInvD a b acc.1 → acc.1.name ≠ "" → Tr k acc.1.tree g →
      Tr k (f acc x).1.tree (accepted k g (lg acc x))) :
    ∀ (l : List α) (acc : Target × List Event) (g : List Noti), TInvD a b acc.1 → acc.1.name ≠ "" →
      Tr k acc.1.tree g → Tr k (l.foldl f acc).1.tree (accepted k g (foldLog f lg l acc))
  | [], _, _, _, _, h => h
  | x :: l, acc, g, hi, hn, h => by
    have m := hm acc x hi hn
    simp only [List.foldl_cons, foldLog, accepted_append]
    exact foldLog_tr f lg k hm hf l (f acc x) _ m.inv (by rw [m.name]; exact hn) (hf acc x g hi hn h)

def genMetaOneLog (cfg : Cfg) (enc : String → String) (now : Int)
    (acc : Target × List Event) (name : String) (v : Scalar) (isCur : Val → Bool) : List Prim :=
  if cfg.excluded.contains name then []
  else if metaIsCurrent acc.1 name isCur then []
  else [.upd (metaNoti enc acc.1.name name v now)
          (Target.gnmiUpdate1 cfg now acc.1 (metaNoti enc acc.1.name name v now)).1]

theorem genMetaOne_tr {a b : Int} (cfg : Cfg) (enc : String → String) (now : Int) (emit : Bool)
    (acc : Target × List Event) (name : String) (v : Scalar) (isCur : Val → Bool) (k : Path) (g : List Noti)
    (hi : TInvD a b acc.1) (hn : acc.1.name ≠ "") (h : Tr k acc.1.tree g) :
    Tr k (genMetaOne cfg enc now emit acc name v isCur).1.tree
      (accepted k g (genMetaOneLog cfg enc now acc name v isCur)) := by
  unfold genMetaOne genMetaOneLog
  split
  · exact h
  · split
    · exact h
    · have := Tr.upd (cfg := cfg) (now := now) (n := metaNoti enc acc.1.name name v now) hi
        (by simp [metaNoti]) hn h
      simp only [accepted_cons, accepted_nil]
      split <;> exact this

/-- the three step functions of `generateMetaUpdates` (booleans, integers, strings) -/
def genBool (cfg : Cfg) (enc : String → String) (now : Int) (emit : Bool) :
    Target × List Event → String → Target × List Event := fun acc name =>
  match acc.1.md.getBool name with
  | some v => genMetaOne cfg enc now emit acc name (.bool v)
      (fun sv => match sv with | .scalar (.bool b) => b == v | _ => false)
  | none => acc

def genInt (cfg : Cfg) (enc : String → String) (now : Int) (emit : Bool) :
    Target × List Event → String → Target × List Event := fun acc name =>
  match acc.1.md.getInt name with
  | some v => genMetaOne cfg enc now emit acc name (.int v)
      (fun sv => match sv with | .scalar (.int i) => i == v | _ => false)
  | none => acc

def genStr (cfg : Cfg) (enc : String → String) (now : Int) (emit : Bool) :
    Target × List Event → String → Target × List Event := fun acc name =>
  match acc.1.md.getStr name with
  | some v => genMetaOne cfg enc now emit acc name (.str v)
      (fun sv => match sv with | .scalar (.str s) => s == v | _ => false)
  | none => acc

theorem generateMetaUpdates_eq (cfg : Cfg) (enc : String → String) (now : Int) (emit : Bool) (t : Target) :
    t.generateMetaUpdates cfg enc now emit =
      genServerName cfg enc now emit (strNames.foldl (genStr cfg enc now emit)
        (intNames.foldl (genInt cfg enc now emit) (boolNames.foldl (genBool cfg enc now emit) (t, [])))) := rfl

def genBoolLog (cfg : Cfg) (enc : String → String) (now : Int) :
    Target × List Event → String → List Prim := fun acc name =>
  match acc.1.md.getBool name with
  | some v => genMetaOneLog cfg enc now acc name (.bool v)
      (fun sv => match sv with | .scalar (.bool b) => b == v | _ => false)
  | none => []

def genIntLog (cfg : Cfg) (enc : String → String) (now : Int) :
    Target × List Event → String → List Prim := fun acc name =>
  match acc.1.md.getInt name with
  | some v => genMetaOneLog cfg enc now acc name (.int v)
      (fun sv => match sv with | .scalar (.int i) => i == v | _ => false)
  | none => []

def genStrLog (cfg : Cfg) (enc : String → String) (now : Int) :
    Target × List Event → String → List Prim := fun acc name =>
  match acc.1.md.getStr name with
  | some v => genMetaOneLog cfg enc now acc name (.str v)
      (fun sv => match sv with | .scalar (.str s) => s == v | _ => false)
  | none => []

/-- the unit `genServerName` writes (the optional `serverName` string) -/
def genServerNameLog (cfg : Cfg) (enc : String → String) (now : Int) (acc : Target × List Event) : List Prim :=
  match acc.1.serverName with
  | some v => genMetaOneLog cfg enc now acc "serverName" (.str v)
      (fun sv => match sv with | .scalar (.str s) => s == v | _ => false)
  | none => []

/-- the units `generateMetaUpdates` writes -/
def Target.generateMetaUpdatesLog (cfg : Cfg) (enc : String → String) (now : Int) (emit : Bool)
    (t : Target) : List Prim :=
  let a := boolNames.foldl (genBool cfg enc now emit) (t, [])
  let b := intNames.foldl (genInt cfg enc now emit) a
  let c := strNames.foldl (genStr cfg enc now emit) b
  foldLog (genBool cfg enc now emit) (genBoolLog cfg enc now) boolNames (t, []) ++
  foldLog (genInt cfg enc now emit) (genIntLog cfg enc now) intNames a ++
  foldLog (genStr cfg enc now emit) (genStrLog cfg enc now) strNames b ++
  genServerNameLog cfg enc now c

/-- the units `Target.updateMeta` writes -/
def Target.updateMetaLog (cfg : Cfg) (enc : String → String) (now : Int) (emit : Bool) (t : Target) :
    List Prim :=
  let l := match t.latest with
    | some x => x
    | none => zeroUnixNano
  Target.generateMetaUpdatesLog cfg enc now emit { t with md := { t.md with latest := l } }

theorem genBool_ms {a b : Int} (cfg : Cfg) (enc : String → String) (now : Int) (emit : Bool)
    (acc : Target × List Event) (x : String) (hi : TInvD a b acc.1) (hn : acc.1.name ≠ "") :
    MetaStep a b acc.1 (genBool cfg enc now emit acc x).1 := by
  unfold genBool; split
  · exact genMetaOne_ok cfg enc now emit acc x _ _ hi hn
  · exact MetaStep.refl hi

theorem genInt_ms {a b : Int} (cfg : Cfg) (enc : String → String) (now : Int) (emit : Bool)
    (acc : Target × List Event) (x : String) (hi : TInvD a b acc.1) (hn : acc.1.name ≠ "") :
    MetaStep a b acc.1 (genInt cfg enc now emit acc x).1 := by
  unfold genInt; split
  · exact genMetaOne_ok cfg enc now emit acc x _ _ hi hn
  · exact MetaStep.refl hi

theorem genStr_ms {a b : Int} (cfg : Cfg) (enc : String → String) (now : Int) (emit : Bool)
    (acc : Target × List Event) (x : String) (hi : TInvD a b acc.1) (hn : acc.1.name ≠ "") :
    MetaStep a b acc.1 (genStr cfg enc now emit acc x).1 := by
  unfold genStr; split
  · exact genMetaOne_ok cfg enc now emit acc x _ _ hi hn
  · exact MetaStep.refl hi

theorem genServerName_tr {a b : Int} (cfg : Cfg) (enc : String → String) (now : Int) (emit : Bool)
    (acc : Target × List Event) (k : Path) (g : List Noti)
    (hi : TInvD a b acc.1) (hn : acc.1.name ≠ "") (h : Tr k acc.1.tree g) :
    Tr k (genServerName cfg enc now emit acc).1.tree (accepted k g (genServerNameLog cfg enc now acc)) := by
  cases hsn : acc.1.serverName with
  | none => simp only [genServerName, genServerNameLog, hsn]; exact h
  | some v =>
    simp only [genServerName, genServerNameLog, hsn]
    exact genMetaOne_tr cfg enc now emit acc _ _ _ k g hi hn h

theorem generateMetaUpdates_tr {a b : Int} (cfg : Cfg) (enc : String → String) (now : Int) (emit : Bool)
    (t : Target) (hi : TInvD a b t) (hn : t.name ≠ "") (k : Path) (g : List Noti) (h : Tr k t.tree g) :
    Tr k (t.generateMetaUpdates cfg enc now emit).1.tree
      (accepted k g (t.generateMetaUpdatesLog cfg enc now emit)) := by
  rw [generateMetaUpdates_eq]
  unfold Target.generateMetaUpdatesLog
  simp only [accepted_append]
  have m1 := foldl_metaStep (a := a) (b := b) (genBool cfg enc now emit)
    (fun acc x hi hn => genBool_ms cfg enc now emit acc x hi hn) boolNames (t, []) hi hn
  have m2 := foldl_metaStep (a := a) (b := b) (genInt cfg enc now emit)
    (fun acc x hi hn => genInt_ms cfg enc now emit acc x hi hn) intNames _ m1.inv (by rw [m1.name]; exact hn)
  have s1 := foldLog_tr (a := a) (b := b) (genBool cfg enc now emit) (genBoolLog cfg enc now) k
    (fun acc x hi hn => genBool_ms cfg enc now emit acc x hi hn)
    (by intro acc x g hi hn h
        unfold genBool genBoolLog
        split
        · exact genMetaOne_tr cfg enc now emit acc x _ _ k g hi hn h
        · exact h) boolNames (t, []) g hi hn h
  have s2 := foldLog_tr (a := a) (b := b) (genInt cfg enc now emit) (genIntLog cfg enc now) k
    (fun acc x hi hn => genInt_ms cfg enc now emit acc x hi hn)
    (by intro acc x g hi hn h
        unfold genInt genIntLog
        split
        · exact genMetaOne_tr cfg enc now emit acc x _ _ k g hi hn h
        · exact h) intNames _ _ m1.inv (by rw [m1.name]; exact hn) s1
  have m3 := foldl_metaStep (a := a) (b := b) (genStr cfg enc now emit)
    (fun acc x hi hn => genStr_ms cfg enc now emit acc x hi hn) strNames _ m2.inv
    (by rw [m2.name, m1.name]; exact hn)
  have s3 := foldLog_tr (a := a) (b := b) (genStr cfg enc now emit) (genStrLog cfg enc now) k
    (fun acc x hi hn => genStr_ms cfg enc now emit acc x hi hn)
    (by intro acc x g hi hn h
        unfold genStr genStrLog
        split
        · exact genMetaOne_tr cfg enc now emit acc x _ _ k g hi hn h
        · exact h) strNames _ _ m2.inv (by rw [m2.name, m1.name]; exact hn) s2
  exact genServerName_tr cfg enc now emit _ k _ m3.inv (by rw [m3.name, m2.name, m1.name]; exact hn) s3

theorem updateMeta_tr {a b : Int} (cfg : Cfg) (enc : String → String) (now : Int) (emit : Bool)
    (t : Target) (hi : TInvD a b t) (hn : t.name ≠ "") (k : Path) (g : List Noti) (h : Tr k t.tree g) :
    Tr k (t.updateMeta cfg enc now emit).1.tree (accepted k g (t.updateMetaLog cfg enc now emit)) := by
  unfold Target.updateMeta Target.updateMetaLog
  exact generateMetaUpdates_tr cfg enc now emit
    { t with md := { t.md with latest := match t.latest with
      | some x => x
      | none => zeroUnixNano } } (hi.with_md _ ⟨rfl, rfl, rfl⟩) hn k g h

/-- the calls of `Target.Reset`: the metadata refresh on the cleared target, then one subtree
delete per top-level child other than `meta` -/
def Target.resetLog (cfg : Cfg) (enc : String → String) (now : Int) (t : Target) : List Prim :=
  let t0 : Target := { t with latest := none, md := Meta.clear }
  t0.updateMetaLog cfg enc now true ++
    ((rootChildren (t0.updateMeta cfg enc now true).1.tree).filter (· != metaRoot)).map Prim.wipeRoot

theorem dropRoots_tr (name : String) (now : Int) (k : Path) :
    ∀ (roots : List String) (acc : Target × List Event) (g : List Noti), UniqueKeys acc.1.tree →
      Tr k acc.1.tree g →
      Tr k (dropRoots name now roots acc).1.tree (accepted k g (roots.map Prim.wipeRoot))
  | [], _, _, _, h => h
  | root :: roots, acc, g, hu, h => by
    have h1 : Tr k (PMap.delete (fun _ => true) acc.1.tree [root]).1 (ghostPrim k g (.wipeRoot root)) := by
      have := Tr.delete hu (fun _ => true) [root] h
      simp only [ghostPrim]
      cases hg : g.getLast? with
      | none =>
        have : g = [] := List.getLast?_eq_none_iff.1 hg
        subst this
        simpa using this
      | some l => simpa [hg] using this
    have := dropRoots_tr name now k roots
      ({ acc.1 with tree := (PMap.delete (fun _ => true) acc.1.tree [root]).1 },
       acc.2 ++ [Event.del acc.1.name root [glob] now]) (ghostPrim k g (.wipeRoot root))
      (by show UniqueKeys (PMap.delete (fun _ => true) acc.1.tree [root]).1
          exact delete_unique _ _ hu) h1
    simpa [dropRoots, accepted] using this

theorem reset_tr (cfg : Cfg) (enc : String → String) (now : Int) (t : Target) (hi : TInv t) (hn : t.name ≠ "")
    (k : Path) (g : List Noti) (h : Tr k t.tree g) :
    Tr k (t.reset cfg enc now).1.tree (accepted k g (t.resetLog cfg enc now)) := by
  rw [reset_eq]
  unfold Target.resetLog
  simp only [accepted_append]
  have h0 : TInvD (0 - (nm t.tree : Nat)) 0 { t with latest := none, md := Meta.clear } :=
    ⟨hi.unique, hi.hasUpd, hi.nonEmpty, by simp [Meta.clear], by simp [Meta.clear]⟩
  have hm := updateMeta_ok cfg enc now true { t with latest := none, md := Meta.clear } h0 hn
  have h1 := updateMeta_tr cfg enc now true { t with latest := none, md := Meta.clear } h0 hn k g h
  exact dropRoots_tr t.name now k _ _ _ hm.inv.unique h1

/-! ## The cache (several targets) -/

/-- the tree of target `T` (empty when `T` is not registered) -/
def State.treeOf (s : State) (T : String) : PMap Noti :=
  match s.get T with
  | some t => t.tree
  | none => []

theorem treeOf_some {s : State} {T : String} {t : Target} (h : s.get T = some t) : s.treeOf T = t.tree := by
  simp [State.treeOf, h]

theorem treeOf_none {s : State} {T : String} (h : s.get T = none) : s.treeOf T = [] := by
  simp [State.treeOf, h]

theorem treeOf_set_same (s : State) (T : String) (t : Target) : (s.set T t).treeOf T = t.tree :=
  treeOf_some (get_set_same s T t)

theorem treeOf_set_other (s : State) (name T : String) (t : Target) (h : T ≠ name) :
    (s.set name t).treeOf T = s.treeOf T := by
  simp [State.treeOf, get_set_other _ _ _ _ h]

/-- the calls an operation routed to target `name` makes on target `T` -/
def State.onTargetLog (s : State) (name T : String) (lg : Target → List Prim) : List Prim :=
  if name = T then
    match s.get name with
    | some t => lg t
    | none => []
  else []

theorem set_tr {s : State} {name : String} {t t' : Target} (hg : s.get name = some t) (T : String) (k : Path)
    (g : List Noti) (lg : Target → List Prim) (h : Tr k (s.treeOf T) g)
    (hf : ∀ g, Tr k t.tree g → Tr k t'.tree (accepted k g (lg t))) :
    Tr k ((s.set name t').treeOf T) (accepted k g (s.onTargetLog name T lg)) := by
  unfold State.onTargetLog
  by_cases hT : name = T
  · subst hT
    simp only [if_true, hg, treeOf_set_same]
    rw [treeOf_some hg] at h
    exact hf g h
  · simp only [hT, if_false, accepted_nil]
    rw [treeOf_set_other _ _ _ _ (fun e => hT e.symm)]
    exact h

theorem onTarget_tr {s : State} {name : String} {f : Target → Target × List Event} (hs : SInv s)
    (T : String) (k : Path) (g : List Noti) (lg : Target → List Prim) (h : Tr k (s.treeOf T) g)
    (hf : ∀ t g, TInv t → t.name = name → name ≠ "" → Tr k t.tree g →
      Tr k (f t).1.tree (accepted k g (lg t))) :
    Tr k ((s.onTarget name f).1.treeOf T) (accepted k g (s.onTargetLog name T lg)) := by
  unfold State.onTarget
  cases hg : s.get name with
  | none =>
    have : s.onTargetLog name T lg = [] := by
      unfold State.onTargetLog; split
      · simp [hg]
      · rfl
    rw [this]; exact h
  | some t =>
    obtain ⟨h1, h2, h3⟩ := hs name t hg
    exact set_tr hg T k g lg h (fun g hg' => hf t g h1 h2 h3 hg')

/-- the calls `Cache.UpdateMetadata` makes on target `T` -/
def updateMetadataLogGo (cfg : Cfg) (enc : String → String) (now : Int) (T : String) :
    List (String × Target) → State → List Prim
  | [], _ => []
  | kv :: l, acc =>
    match acc.get kv.1 with
    | none => updateMetadataLogGo cfg enc now T l acc
    | some t =>
      acc.onTargetLog kv.1 T (fun t => t.updateMetaLog cfg enc now true) ++
        updateMetadataLogGo cfg enc now T l (acc.set kv.1 (t.updateMeta cfg enc now true).1)

def State.updateMetadataLog (s : State) (enc : String → String) (now : Int) (T : String) : List Prim :=
  updateMetadataLogGo s.cfg enc now T s.targets s

theorem updateMetadata_tr (enc : String → String) (now : Int) (s : State) (hs : SInv s) (T : String) (k : Path)
    (g : List Noti) (h : Tr k (s.treeOf T) g) :
    Tr k ((s.updateMetadata enc now).1.treeOf T) (accepted k g (s.updateMetadataLog enc now T)) := by
  unfold State.updateMetadata State.updateMetadataLog
  suffices ∀ (l : List (String × Target)) (acc : State × List Event) (g : List Noti), SInv acc.1 →
      Tr k (acc.1.treeOf T) g →
      Tr k ((l.foldl (fun acc kv =>
        match acc.1.get kv.1 with
        | none => acc
        | some t =>
          let r := t.updateMeta s.cfg enc now true
          (acc.1.set kv.1 r.1, acc.2 ++ r.2)) acc).1.treeOf T)
        (accepted k g (updateMetadataLogGo s.cfg enc now T l acc.1)) from this s.targets (s, []) g hs h
  intro l
  induction l with
  | nil => intro acc g _ h; exact h
  | cons kv l ih =>
    intro acc g hs h
    simp only [List.foldl_cons, updateMetadataLogGo]
    cases hg : acc.1.get kv.1 with
    | none => exact ih acc g hs h
    | some t =>
      simp only [accepted_append]
      obtain ⟨h1, h2, h3⟩ := hs kv.1 t hg
      have hm := updateMeta_ok s.cfg enc now true t h1 (by rw [h2]; exact h3)
      apply ih (acc.1.set kv.1 (t.updateMeta s.cfg enc now true).1,
        acc.2 ++ (t.updateMeta s.cfg enc now true).2) _ (hs.set ⟨hm.inv, hm.name.trans h2, h3⟩)
      exact set_tr hg T k g _ h
        (fun g hg' => updateMeta_tr s.cfg enc now true t h1 (by rw [h2]; exact h3) k g hg')

/-- **The unit log of one API call**, for target `T` -/
def State.stepLog (enc : String → String) (s : State) (op : Op) (T : String) : List Prim :=
  match op with
  | .add name => if name = T then [.fresh] else []
  | .remove name _ => if name = T then [.fresh] else []
  | .reset name now => s.onTargetLog name T (fun t => t.resetLog s.cfg enc now)
  | .sync name now =>
    s.onTargetLog name T (fun t => t.gnmiUpdateLog s.cfg now (metaNoti enc name "sync" (.bool true) now))
  | .connect name now =>
    s.onTargetLog name T (fun t =>
      t.gnmiUpdateLog s.cfg now (metaNoti enc name "connected" (.bool true) now) ++
      (t.gnmiUpdate s.cfg now (metaNoti enc name "connected" (.bool true) now)).2.1.gnmiUpdateLog s.cfg now
        (deleteNotiOf enc name [metaRoot, "connectError"] now))
  | .connectError name msg now =>
    s.onTargetLog name T (fun t => t.gnmiUpdateLog s.cfg now (metaNoti enc name "connectError" (.str msg) now))
  | .update now pn n =>
    if pn then [] else s.onTargetLog n.target T (fun t => t.gnmiUpdateLog s.cfg now n)
  | .updateMetadata now => s.updateMetadataLog enc now T

/-- **The unit log of a history**, for target `T` -/
def State.runLog (enc : String → String) (s : State) : List Op → String → List Prim
  | [], _ => []
  | op :: ops, T => s.stepLog enc op T ++ State.runLog enc (s.step enc op).1 ops T

theorem step_tr (enc : String → String) (s : State) (op : Op) (hs : SInv s) (T : String) (k : Path)
    (g : List Noti) (h : Tr k (s.treeOf T) g) :
    Tr k ((s.step enc op).1.treeOf T) (accepted k g (s.stepLog enc op T)) := by
  cases op with
  | add name =>
    simp only [State.step, State.stepLog, State.add]
    by_cases hT : name = T
    · subst hT
      simp only [if_true, treeOf_set_same]
      exact Tr.nil k
    · simp only [hT, if_false, accepted_nil]
      rw [treeOf_set_other _ _ _ _ (fun e => hT e.symm)]; exact h
  | remove name now =>
    simp only [State.step, State.stepLog, State.remove]
    by_cases hT : name = T
    · subst hT
      simp only [if_true]
      have : State.get { s with targets := s.targets.filter (fun kv => kv.1 != name) } name = none := by
        simp only [State.get]; rw [get_filter_same]; rfl
      rw [treeOf_none this]; exact Tr.nil k
    · simp only [hT, if_false, accepted_nil]
      have : State.treeOf { s with targets := s.targets.filter (fun kv => kv.1 != name) } T = s.treeOf T := by
        simp only [State.treeOf, State.get]
        rw [get_filter_other _ _ _ (fun e => hT e.symm)]
      rw [this]; exact h
  | reset name now =>
    simp only [State.step, State.stepLog, State.reset]
    exact onTarget_tr hs T k g _ h (fun t g h1 h2 h3 hg =>
      reset_tr s.cfg enc now t h1 (by rw [h2]; exact h3) k g hg)
  | sync name now =>
    simp only [State.step, State.stepLog, State.sync]
    exact onTarget_tr hs T k g _ h (fun t g h1 _ h3 hg =>
      gnmiUpdate_tr s.cfg now t _ h1 h3 k g hg)
  | connect name now =>
    simp only [State.step, State.stepLog, State.connect]
    refine onTarget_tr hs T k g _ h (fun t g h1 _ h3 hg => ?_)
    have a := gnmiUpdate_tr s.cfg now t (metaNoti enc name "connected" (.bool true) now) h1 h3 k g hg
    obtain ⟨_, i1, _⟩ := gnmiUpdate_ok s.cfg now t (metaNoti enc name "connected" (.bool true) now) h1 h3
    have b := gnmiUpdate_tr s.cfg now _ (deleteNotiOf enc name [metaRoot, "connectError"] now) i1 h3 k _ a
    simp only [accepted_append]
    exact b
  | connectError name msg now =>
    simp only [State.step, State.stepLog, State.connectError]
    exact onTarget_tr hs T k g _ h (fun t g h1 _ h3 hg =>
      gnmiUpdate_tr s.cfg now t _ h1 h3 k g hg)
  | update now pn n =>
    simp only [State.step, State.stepLog, State.gnmiUpdate]
    by_cases hp : pn = true
    · simp only [hp, if_true]; exact h
    · simp only [hp, Bool.false_eq_true, if_false]
      cases hg : s.get n.target with
      | none =>
        have : s.onTargetLog n.target T (fun t => t.gnmiUpdateLog s.cfg now n) = [] := by
          unfold State.onTargetLog; split
          · simp [hg]
          · rfl
        rw [this]; exact h
      | some t =>
        obtain ⟨h1, _, h3⟩ := hs n.target t hg
        exact set_tr hg T k g _ h (fun g hg' => gnmiUpdate_tr s.cfg now t n h1 h3 k g hg')
  | updateMetadata now =>
    simp only [State.step, State.stepLog]
    exact updateMetadata_tr enc now s hs T k g h

/-- **Histories.**  From any well-formed state whose leaf `(T, k)` is tracked by `g`, after any
history of API calls the ghost run over the history's unit log tracks the leaf. -/
theorem run_tr (enc : String → String) (T : String) (k : Path) :
    ∀ (ops : List Op) (s : State) (g : List Noti), SInv s → (∀ op ∈ ops, op.valid) →
      Tr k (s.treeOf T) g →
      Tr k ((s.run enc ops).treeOf T) (accepted k g (State.runLog enc s ops T))
  | [], _, _, _, _, h => h
  | op :: ops, s, g, hs, hv, h => by
    simp only [State.run, State.runLog, accepted_append]
    exact run_tr enc T k ops _ _ (step_sinv enc s op hs (hv op (List.mem_cons_self ..))).1
      (fun o ho => hv o (List.mem_cons_of_mem _ ho)) (step_tr enc s op hs T k g h)

theorem runLog_append (enc : String → String) (T : String) :
    ∀ (ops ops' : List Op) (s : State),
      State.runLog enc s (ops ++ ops') T = State.runLog enc s ops T ++ State.runLog enc (s.run enc ops) ops' T
  | [], _, _ => rfl
  | op :: ops, ops', s => by
    simp only [List.cons_append, State.runLog, State.run, List.append_assoc]
    rw [runLog_append enc T ops ops']

theorem run_append (enc : String → String) :
    ∀ (ops ops' : List Op) (s : State), s.run enc (ops ++ ops') = (s.run enc ops).run enc ops'
  | [], _, _ => rfl
  | op :: ops, ops', s => by
    simp only [List.cons_append, State.run]
    exact run_append enc ops ops' _

end Cache
end Gnmi
