import Gnmi.Lemmas.Manager
/-!
# The shape of a per-target trace: one segment per scripted attempt

`AttemptTrace a tr`: `tr` is a complete callback sequence attempt `a` can produce under any
cancellation (`Reconnect`, `Remove`, receive timeout).  `Shape`: the trace of a name is the
concatenation of one `AttemptTrace` per finished attempt — attempt `k` being the script's `k`-th
entry — followed by what the attempt in progress has emitted so far (`segOf`).
-/
namespace Gnmi.Manager
open Gnmi.Session (Ev St)

/-- Callbacks of the messages `ms`, the first of which has position `k` in its stream. -/
def evsFrom : Nat → List Msg → List Ev
  | _, [] => []
  | k, m :: ms => (m.ev k).toList ++ evsFrom (k + 1) ms

/-- Callbacks of a session in which `j` messages of `ms` were processed (`c`: `Connect` made). -/
def sessPart (ms : List Msg) (j : Nat) (c : Bool) : List Ev :=
  if c then .connect :: evsFrom 0 (ms.take j) else []

/-- The complete callback sequences of one attempt. -/
inductive AttemptTrace (a : Attempt) : List Ev → Prop
  /-- failed, or was cancelled, before its first `Recv`: no `Reset` -/
  | early : AttemptTrace a [.connectError, .monitorError]
  /-- a stream on which `Recv` was attempted: `Connect` iff at least one message was processed,
  the callbacks of the first `j` messages in stream order, exactly one `Reset`, the errors -/
  | stream (ms : List Msg) (e : End) (j : Nat) : a = .stream ms e → j ≤ ms.length →
      AttemptTrace a (sessPart ms j (decide (0 < j)) ++ [.reset, .connectError, .monitorError])

theorem evsFrom_append (k : Nat) (l₁ l₂ : List Msg) :
    evsFrom k (l₁ ++ l₂) = evsFrom k l₁ ++ evsFrom (k + l₁.length) l₂ := by
  induction l₁ generalizing k with
  | nil => simp [evsFrom]
  | cons m ms ih =>
    simp only [List.cons_append, evsFrom, ih, List.length_cons, List.append_assoc]
    congr 3; omega

theorem evsFrom_take_succ (ms : List Msg) {j : Nat} (hj : j < ms.length) :
    evsFrom 0 (ms.take (j + 1)) = evsFrom 0 (ms.take j) ++ (ms[j].ev j).toList := by
  rw [List.take_add_one, evsFrom_append]
  simp [List.getElem?_eq_getElem hj, evsFrom, List.length_take, Nat.min_eq_left (Nat.le_of_lt hj)]

/-- Callbacks made so far by the attempt in progress (a function of `pc` and `cur`). -/
def segOf (I : Inst) : List Ev :=
  match I.pc with
  | .recv j c => sessPart I.cur.msgs j c
  | .got j c => sessPart I.cur.msgs j c
  | .reset j c => sessPart I.cur.msgs j c
  | .connErr j c r => sessPart I.cur.msgs j c ++ (if r then [.reset] else [])
  | .monErr j c r => sessPart I.cur.msgs j c ++ (if r then [.reset] else []) ++ [.connectError]
  | _ => []

def Pc.inAttempt : Pc → Bool
  | .gmeta | .dial | .open_ | .send => true
  | .recv _ _ | .got _ _ | .reset _ _ | .connErr _ _ _ | .monErr _ _ _ => true
  | _ => false

def Attempt.isStream : Attempt → Bool
  | .stream _ _ => true
  | _ => false

/-- Coupling of the local variables `j`, `connected` with the stream. -/
def SegOK (I : Inst) : Prop :=
  match I.pc with
  | .recv j c => c = decide (0 < j) ∧ j ≤ I.cur.msgs.length ∧ I.cur.isStream = true
  | .got j c => (c = false → j = 0) ∧ j < I.cur.msgs.length ∧ I.cur.isStream = true
  | .reset j c => c = decide (0 < j) ∧ j ≤ I.cur.msgs.length ∧ I.cur.isStream = true
  | .connErr j c r =>
      if r then c = decide (0 < j) ∧ j ≤ I.cur.msgs.length ∧ I.cur.isStream = true else c = false
  | .monErr j c r =>
      if r then c = decide (0 < j) ∧ j ≤ I.cur.msgs.length ∧ I.cur.isStream = true else c = false
  | _ => True

theorem Attempt.stream_of_isStream {a : Attempt} (h : a.isStream = true) : a = .stream a.msgs a.ending := by
  cases a <;> simp_all [Attempt.isStream, Attempt.msgs, Attempt.ending]

section local_shape
variable {next : Attempt} {I I' : Inst} {l : MLabel}

theorem MonStep.segOK (h : MonStep next I l I') (hs : SegOK I) : SegOK I' := by
  cases h <;> simp_all [SegOK, Attempt.isStream] <;> try omega

/-- What one monitor step contributes to the segment of the attempt in progress. -/
theorem MonStep.seg (h : MonStep next I l I') (hs : SegOK I) :
    match l with
    | .cb e =>
        (segOf I' = segOf I ++ [e] ∧ I'.cur = I.cur ∧ I'.pc.inAttempt = true ∧ I.pc.inAttempt = true) ∨
        (I'.pc = .timer ∧ I.pc.inAttempt = true ∧ AttemptTrace I.cur (segOf I ++ [e]))
    | .begin_ => I.pc = .timer ∧ I'.pc = .gmeta ∧ I'.cur = next
    | _ => segOf I' = segOf I ∧ I'.cur = I.cur ∧ I'.pc.inAttempt = I.pc.inAttempt := by
  cases h with
  | init hp => simp [segOf, hp, Pc.inAttempt, Inst.freshSub]
  | exitCtx hp hc => simp [segOf, hp, Pc.inAttempt]
  | timerFire hp => exact ⟨hp, rfl, rfl⟩
  | metaFail hp _ => simp [segOf, hp, Pc.inAttempt, sessPart]
  | metaOk hp _ => simp [segOf, hp, Pc.inAttempt]
  | dialFail hp _ => simp [segOf, hp, Pc.inAttempt, sessPart]
  | dialOk hp _ => simp [segOf, hp, Pc.inAttempt]
  | openFail hp _ => simp [segOf, hp, Pc.inAttempt, sessPart]
  | openOk hp _ => simp [segOf, hp, Pc.inAttempt]
  | sendFail hp _ => simp [segOf, hp, Pc.inAttempt, sessPart]
  | sendOk hp _ => simp [segOf, hp, Pc.inAttempt, sessPart]
  | recvMsg hp _ => simp [segOf, hp, Pc.inAttempt]
  | recvEnd hp _ _ => simp [segOf, hp, Pc.inAttempt]
  | recvCancel hp _ => simp [segOf, hp, Pc.inAttempt]
  | connectCb hp =>
    left
    have : _ := hs
    simp only [SegOK, hp, true_imp_iff] at this
    have hj := this.1
    subst hj
    simp [segOf, hp, Pc.inAttempt, sessPart, evsFrom]
  | handleCb hp hm hev =>
    left
    have hj := lt_of_getElem?_eq_some hm
    have hmj := (List.getElem?_eq_some_iff.mp hm).2
    simp [segOf, hp, Pc.inAttempt, sessPart, evsFrom_take_succ _ hj, hmj, hev]
  | handleNone hp hm hev =>
    have hj := lt_of_getElem?_eq_some hm
    have hmj := (List.getElem?_eq_some_iff.mp hm).2
    simp [segOf, hp, Pc.inAttempt, sessPart, evsFrom_take_succ _ hj, hmj, hev]
  | resetCb hp => left; simp [segOf, hp, Pc.inAttempt]
  | connErrCb hp => left; simp [segOf, hp, Pc.inAttempt]
  | monErrCb hp =>
    right
    rename_i j c r
    refine ⟨rfl, by simp [hp, Pc.inAttempt], ?_⟩
    have : _ := hs
    simp only [SegOK, hp] at this
    cases r with
    | false =>
      simp only [Bool.false_eq_true, if_false] at this
      subst this
      simpa [segOf, hp, sessPart] using AttemptTrace.early
    | true =>
      simp only [if_true] at this
      obtain ⟨hc, hj, hst⟩ := this
      subst hc
      have := AttemptTrace.stream (a := I.cur) I.cur.msgs I.cur.ending j
        (Attempt.stream_of_isStream hst) hj
      simpa [segOf, hp] using this
  | close hp => simp [segOf, hp, Pc.inAttempt]
  | deferredRecon hp => simp [segOf, hp, Pc.inAttempt]

end local_shape

/-! ## The global shape invariant -/

def curSeg (c : Cfg) (n : Name) : List Ev :=
  match c.targets n with
  | some i => segOf (c.insts i)
  | none => []

def inAtt (c : Cfg) (n : Name) : Bool :=
  match c.targets n with
  | some i => (c.insts i).pc.inAttempt
  | none => false

/-- The trace of `n` is one `AttemptTrace` per finished attempt, in script order, followed by the
segment of the attempt in progress. -/
def TrOK (env : Name → Nat → Attempt) (c : Cfg) (n : Name) : Prop :=
  ∃ segs : List (List Ev),
    segs.length + (if inAtt c n then 1 else 0) = c.nextAtt n ∧
    (∀ k (h : k < segs.length), AttemptTrace (env n k) segs[k]) ∧
    c.trace n = segs.flatten ++ curSeg c n

structure Shape (env : Name → Nat → Attempt) (c : Cfg) : Prop where
  segok : ∀ i, SegOK (c.insts i)
  cur : ∀ n i, c.targets n = some i → (c.insts i).pc.inAttempt = true →
    0 < c.nextAtt n ∧ (c.insts i).cur = env n (c.nextAtt n - 1)
  tr : ∀ n, TrOK env c n

theorem segOf_congr {I J : Inst} (hp : J.pc = I.pc) (hc : J.cur = I.cur) : segOf J = segOf I := by
  unfold segOf; rw [hp, hc]

theorem SegOK_congr {I J : Inst} (hp : J.pc = I.pc) (hc : J.cur = I.cur) (h : SegOK I) : SegOK J := by
  unfold SegOK at *; rw [hp, hc]; exact h

theorem curSeg_congr {c c' : Cfg} {n : Name} (ht : c'.targets n = c.targets n)
    (hp : ∀ i, c.targets n = some i → segOf (c'.insts i) = segOf (c.insts i) ∧
      (c'.insts i).pc.inAttempt = (c.insts i).pc.inAttempt) :
    curSeg c' n = curSeg c n ∧ inAtt c' n = inAtt c n := by
  unfold curSeg inAtt
  rw [ht]
  cases h : c.targets n with
  | none => exact ⟨rfl, rfl⟩
  | some i => exact ⟨(hp i h).1, (hp i h).2⟩

theorem TrOK_congr {env : Name → Nat → Attempt} {c c' : Cfg} {n : Name}
    (h12 : curSeg c' n = curSeg c n ∧ inAtt c' n = inAtt c n) (h3 : c'.nextAtt n = c.nextAtt n)
    (h4 : c'.trace n = c.trace n) (h : TrOK env c n) : TrOK env c' n := by
  obtain ⟨segs, hl, ha, ht⟩ := h
  exact ⟨segs, by rw [h12.2, h3]; exact hl, ha, by rw [h4, h12.1]; exact ht⟩

theorem shape_init (env : Name → Nat → Attempt) : Shape env Cfg.init := by
  constructor
  · intro i; simp [Cfg.init, Inst.dead, SegOK]
  · intro n i h; simp [Cfg.init] at h
  · intro n; exact ⟨[], by simp [Cfg.init, inAtt], by simp, by simp [Cfg.init, curSeg]⟩

theorem applyMon_nextAtt (c : Cfg) (i : Nat) (l : MLabel) (I' : Inst) :
    (c.applyMon i l I').nextAtt =
      match l with
      | .begin_ => upd c.nextAtt (c.insts i).name (c.nextAtt (c.insts i).name + 1)
      | _ => c.nextAtt := by cases l <;> rfl

theorem shape_mon {env : Name → Nat → Attempt} {c : Cfg} {i : Nat} {l : MLabel} {I' : Inst}
    (hi : Inv c) (hsh : Shape env c)
    (hm : MonStep (env (c.insts i).name (c.nextAtt (c.insts i).name)) (c.insts i) l I') :
    Shape env (c.applyMon i l I') := by
  have hseg := hm.seg (hsh.segok i)
  -- another name's registered instance is not `i`
  have hother : ∀ n k, n ≠ (c.insts i).name → c.targets n = some k → k ≠ i := by
    intro n k hn hk h; subst h; exact hn (hi.tgt n k hk).1.symm
  have hsegok : ∀ k, SegOK ((c.applyMon i l I').insts k) := by
    intro k
    simp only [applyMon_insts, upd_apply]
    split
    · next h => subst h; exact hm.segOK (hsh.segok k)
    · exact hsh.segok k
  -- names other than the goroutine's own are untouched
  have htr_other : ∀ n, n ≠ (c.insts i).name → TrOK env (c.applyMon i l I') n := by
    intro n hn
    apply TrOK_congr _ _ _ (hsh.tr n)
    · apply curSeg_congr (by simp)
      intro k hk
      simp [upd_apply, hother n k hn hk]
    · rw [applyMon_nextAtt]; cases l <;> simp [upd_apply, hn]
    · rw [applyMon_trace]; cases l <;> simp [upd_apply, hn]
  have hcur_other : ∀ n k, k ≠ i → (c.applyMon i l I').targets n = some k →
      ((c.applyMon i l I').insts k).pc.inAttempt = true →
      (n ≠ (c.insts i).name ∨ l ≠ .begin_) →
      0 < (c.applyMon i l I').nextAtt n ∧
        ((c.applyMon i l I').insts k).cur = env n ((c.applyMon i l I').nextAtt n - 1) := by
    intro n k hk ht hp hor
    simp only [applyMon_targets] at ht
    simp only [applyMon_insts, upd_apply, if_neg hk] at hp ⊢
    have hna : (c.applyMon i l I').nextAtt n = c.nextAtt n := by
      rw [applyMon_nextAtt]
      cases l <;> try rfl
      rcases hor with h | h
      · simp [upd_apply, h]
      · exact absurd rfl h
    rw [hna]; exact hsh.cur n k ht hp
  cases l with
  | tau =>
    simp only at hseg
    refine ⟨hsegok, ?_, ?_⟩
    · intro n k ht hp
      by_cases hk : k = i
      · subst hk
        simp only [applyMon_targets] at ht
        simp only [applyMon_insts, upd_same] at hp ⊢
        rw [hseg.2.2] at hp
        rw [hseg.2.1]
        exact hsh.cur n k ht hp
      · exact hcur_other n k hk ht hp (.inr (by simp))
    · intro n
      refine TrOK_congr ?_ (by rfl) (by rfl) (hsh.tr n)
      apply curSeg_congr (by simp)
      intro k _
      simp only [applyMon_insts, upd_apply]
      split
      · next h => subst h; exact ⟨hseg.1, hseg.2.2⟩
      · exact ⟨rfl, rfl⟩
  | spawnRecon =>
    simp only at hseg
    refine ⟨hsegok, ?_, ?_⟩
    · intro n k ht hp
      by_cases hk : k = i
      · subst hk
        simp only [applyMon_targets] at ht
        simp only [applyMon_insts, upd_same] at hp ⊢
        rw [hseg.2.2] at hp
        rw [hseg.2.1]
        exact hsh.cur n k ht hp
      · exact hcur_other n k hk ht hp (.inr (by simp))
    · intro n
      refine TrOK_congr ?_ (by rfl) (by rfl) (hsh.tr n)
      apply curSeg_congr (by simp)
      intro k _
      simp only [applyMon_insts, upd_apply]
      split
      · next h => subst h; exact ⟨hseg.1, hseg.2.2⟩
      · exact ⟨rfl, rfl⟩
  | begin_ =>
    simp only at hseg
    obtain ⟨hp0, hp1, hcur⟩ := hseg
    have hreg := hi.reg i (by rw [hp0]; rfl)
    refine ⟨hsegok, ?_, ?_⟩
    · intro n k ht hp
      by_cases hk : k = i
      · subst hk
        simp only [applyMon_targets] at ht
        have hn := (hi.tgt n k ht).1
        subst hn
        simp only [applyMon_insts, upd_same, applyMon_nextAtt]
        simp [hcur]
      · refine hcur_other n k hk ht hp (.inl ?_)
        intro hn
        simp only [applyMon_targets] at ht
        rw [hn, hreg] at ht
        cases ht; exact hk rfl
    · intro n
      by_cases hn : n = (c.insts i).name
      · subst hn
        obtain ⟨segs, hl, ha, ht⟩ := hsh.tr (c.insts i).name
        have h0 : inAtt c (c.insts i).name = false := by simp [inAtt, hreg, hp0, Pc.inAttempt]
        have h1 : inAtt (c.applyMon i .begin_ I') (c.insts i).name = true := by
          simp [inAtt, hreg, hp1, Pc.inAttempt]
        have h2 : curSeg c (c.insts i).name = [] := by simp [curSeg, hreg, segOf, hp0]
        have h3 : curSeg (c.applyMon i .begin_ I') (c.insts i).name = [] := by
          simp [curSeg, hreg, segOf, hp1]
        refine ⟨segs, ?_, ha, ?_⟩
        · rw [h1, applyMon_nextAtt]; simp [h0] at hl; simp [hl]
        · have htr' : (c.applyMon i .begin_ I').trace = c.trace := rfl
          rw [h3, htr', ht, h2]
      · exact htr_other n hn
  | cb e =>
    simp only at hseg
    have hng : (c.insts i).pc.gone = false := by
      cases hg0 : (c.insts i).pc.gone
      · rfl
      · exact absurd rfl ((hm.gone_mono hg0).2 e)
    have hreg := hi.reg i hng
    refine ⟨hsegok, ?_, ?_⟩
    · intro n k ht hp
      by_cases hk : k = i
      · subst hk
        simp only [applyMon_targets] at ht
        simp only [applyMon_insts, upd_same] at hp ⊢
        rcases hseg with ⟨_, hc, _, hin⟩ | ⟨hpt, _, _⟩
        · rw [hc]; exact hsh.cur n k ht hin
        · rw [hpt] at hp; simp [Pc.inAttempt] at hp
      · exact hcur_other n k hk ht hp (.inr (by simp))
    · intro n
      by_cases hn : n = (c.insts i).name
      · subst hn
        obtain ⟨segs, hl, ha, ht⟩ := hsh.tr (c.insts i).name
        have hcs : curSeg c (c.insts i).name = segOf (c.insts i) := by simp [curSeg, hreg]
        have hcs' : curSeg (c.applyMon i (.cb e) I') (c.insts i).name = segOf I' := by
          simp [curSeg, hreg]
        have hia : inAtt c (c.insts i).name = (c.insts i).pc.inAttempt := by simp [inAtt, hreg]
        have hia' : inAtt (c.applyMon i (.cb e) I') (c.insts i).name = I'.pc.inAttempt := by
          simp [inAtt, hreg]
        have htr' : (c.applyMon i (.cb e) I').trace (c.insts i).name =
            c.trace (c.insts i).name ++ [e] := by rw [applyMon_trace]; simp
        rcases hseg with ⟨hs1, _, hin', hin⟩ | ⟨hpt, hin, hat⟩
        · refine ⟨segs, ?_, ha, ?_⟩
          · rw [hia', hin']; rw [hia, hin] at hl; exact hl
          · rw [htr', hcs', hs1, ht, hcs, List.append_assoc]
        · have hc := hsh.cur _ i hreg hin
          rw [hia, hin] at hl
          simp only [if_true] at hl
          refine ⟨segs ++ [segOf (c.insts i) ++ [e]], ?_, ?_, ?_⟩
          · rw [hia', hpt]; simp [Pc.inAttempt]; exact hl
          · intro k hk
            simp only [List.length_append, List.length_cons, List.length_nil] at hk
            by_cases hk' : k < segs.length
            · rw [List.getElem_append_left hk']; exact ha k hk'
            · have hke : k = segs.length := by omega
              subst hke
              rw [List.getElem_append_right (Nat.le_refl _)]
              simp only [Nat.sub_self, List.getElem_cons_zero]
              have : c.nextAtt (c.insts i).name - 1 = segs.length := by omega
              rw [← this, ← hc.2]; exact hat
          · rw [htr', hcs', ht, hcs]
            simp [segOf, hpt]
      · exact htr_other n hn

/-- A step that leaves `pc` and `cur` of every instance, the registry, the traces and the script
positions alone. -/
theorem shape_same {env : Name → Nat → Attempt} {c c' : Cfg} (hsh : Shape env c)
    (hp : ∀ k, (c'.insts k).pc = (c.insts k).pc ∧ (c'.insts k).cur = (c.insts k).cur)
    (ht : c'.targets = c.targets) (hn : c'.nextAtt = c.nextAtt) (htr : c'.trace = c.trace) :
    Shape env c' := by
  refine ⟨fun k => SegOK_congr (hp k).1 (hp k).2 (hsh.segok k), ?_, ?_⟩
  · intro n k hk hin
    rw [ht] at hk
    rw [(hp k).1] at hin
    rw [(hp k).2, hn]
    exact hsh.cur n k hk hin
  · intro n
    refine TrOK_congr ?_ (by rw [hn]) (by rw [htr]) (hsh.tr n)
    apply curSeg_congr (by rw [ht])
    intro k _
    exact ⟨segOf_congr (hp k).1 (hp k).2, by rw [(hp k).1]⟩

theorem shape_step {env : Name → Nat → Attempt} {c c' : Cfg} {l : Label} (hi : Inv c)
    (hsh : Shape env c) (hs : Step env c l c') : Shape env c' := by
  cases hs with
  | mon i hm => exact shape_mon hi hsh hm
  | add n rt hl ht =>
    have hlt : ∀ m k, c.targets m = some k → k ≠ c.nInst := fun m k h => Nat.ne_of_lt (hi.tgt m k h).2
    refine ⟨?_, ?_, ?_⟩
    · intro k
      simp only [upd_apply]
      split
      · simp [SegOK]
      · exact hsh.segok k
    · intro m k
      simp only [upd_apply]
      split
      · next hm =>
        intro hk; cases hk
        simp [Pc.inAttempt]
      · next hm =>
        intro hk
        rw [if_neg (hlt m k hk)]
        exact hsh.cur m k hk
    · intro m
      refine TrOK_congr ?_ (by rfl) (by rfl) (hsh.tr m)
      by_cases hm : m = n
      · subst hm
        simp [curSeg, inAtt, ht, segOf, Pc.inAttempt]
      · apply curSeg_congr (by simp [upd_apply, hm])
        intro k hk
        simp [upd_apply, hlt m k hk]
  | addDup n i hl ht => exact hsh
  | addInvalid n => exact hsh
  | removeBegin n i hl ht =>
    refine shape_same hsh ?_ (by rfl) (by rfl) (by rfl)
    intro k
    simp only [upd_apply]
    split
    · next h => subst h; exact ⟨rfl, rfl⟩
    · exact ⟨rfl, rfl⟩
  | removeUnknown n hl ht => exact hsh
  | removeEnd i hl hf =>
    have hlk := hi.lck i hl
    have hgone : (c.insts i).pc.gone = true := by rw [← hi.fin i]; exact hf
    refine ⟨hsh.segok, ?_, ?_⟩
    · intro m k
      simp only [upd_apply]
      split
      · intro h; cases h
      · exact hsh.cur m k
    · intro m
      refine TrOK_congr ?_ (by rfl) (by rfl) (hsh.tr m)
      by_cases hm : m = (c.insts i).name
      · subst hm
        have h1 : segOf (c.insts i) = [] := by
          unfold segOf; cases hp : (c.insts i).pc <;> simp_all [Pc.gone]
        have h2 : (c.insts i).pc.inAttempt = false := by
          cases hp : (c.insts i).pc <;> simp_all [Pc.gone, Pc.inAttempt]
        simp [curSeg, inAtt, hlk.1, h1, h2]
      · simp [curSeg, inAtt, upd_apply, hm]
  | reconnectLookup n i hl ht => exact shape_same hsh (fun _ => ⟨rfl, rfl⟩) rfl rfl rfl
  | reconnectUnknown n hl ht => exact hsh
  | byNameLookup l₁ l₂ n hb hl => exact shape_same hsh (fun _ => ⟨rfl, rfl⟩) rfl rfl rfl
  | reconApply l₁ l₂ i hb =>
    refine shape_same hsh ?_ (by rfl) (by rfl) (by rfl)
    intro k
    simp only [upd_apply]
    split
    · next h => subst h; exact ⟨Inst.applyRecon_pc _, Inst.applyRecon_cur _⟩
    · exact ⟨rfl, rfl⟩
  | tmoFire i j cn hp hw =>
    refine shape_same hsh ?_ (by rfl) (by rfl) (by rfl)
    intro k
    simp only [upd_apply]
    split
    · next h => subst h; exact ⟨rfl, rfl⟩
    · exact ⟨rfl, rfl⟩

theorem shape_reach {env : Name → Nat → Attempt} {c : Cfg} (h : Reach env c) : Shape env c := by
  induction h with
  | init => exact shape_init env
  | step hr hs ih => exact shape_step (inv_reach hr) ih hs

/-! ## Readings of `AttemptTrace` -/

theorem evsFrom_mem {k : Nat} {ms : List Msg} {e : Ev} (h : e ∈ evsFrom k ms) :
    (∃ j, k ≤ j ∧ e = .update j) ∨ e = .sync := by
  induction ms generalizing k with
  | nil => simp [evsFrom] at h
  | cons m ms ih =>
    simp only [evsFrom, List.mem_append] at h
    rcases h with h | h
    · cases m <;> simp [Msg.ev] at h
      · exact .inl ⟨k, Nat.le_refl _, h⟩
      · exact .inr h
    · rcases ih h with ⟨j, hj, he⟩ | he
      · exact .inl ⟨j, by omega, he⟩
      · exact .inr he

/-- `Update` callbacks appear in stream order: positions strictly increase. -/
theorem evsFrom_sorted (k : Nat) (ms : List Msg) :
    (evsFrom k ms).Pairwise (fun a b => ∀ i j, a = .update i → b = .update j → i < j) := by
  induction ms generalizing k with
  | nil => simp [evsFrom]
  | cons m ms ih =>
    simp only [evsFrom]
    rw [List.pairwise_append]
    refine ⟨?_, ih (k + 1), ?_⟩
    · cases m <;> simp [Msg.ev]
    · intro a ha b hb i j hai hbj
      cases m <;> simp [Msg.ev] at ha
      · subst ha; cases hai
        rcases evsFrom_mem hb with ⟨j', hj', he⟩ | he
        · rw [he] at hbj; cases hbj; omega
        · rw [he] at hbj; cases hbj
      · subst ha; cases hai

/-- Every complete attempt takes the discipline automaton from `idle` back to `idle`. -/
theorem sessPart_run (ms : List Msg) (j : Nat) :
    Session.run .live (evsFrom 0 (ms.take j)) = some .live := by
  generalize ms.take j = l
  generalize 0 = k
  induction l generalizing k with
  | nil => rfl
  | cons m l ih => cases m <;> simp [evsFrom, Msg.ev, Session.run, Session.step, ih]

theorem AttemptTrace.run_idle {a : Attempt} {tr : List Ev} (h : AttemptTrace a tr) :
    Session.run .idle tr = some .idle := by
  cases h with
  | early => rfl
  | stream ms e j _ _ =>
    rw [Session.run_append]
    by_cases hj : 0 < j
    · simp [sessPart, hj, Session.run, Session.step, sessPart_run]
    · simp [sessPart, hj, Session.run, Session.step]

/-- One attempt: at most one `Connect`, at most one `Reset`; `Connect` exactly when a message was
processed, and then the `Reset` follows it. -/
theorem AttemptTrace.counts {a : Attempt} {tr : List Ev} (h : AttemptTrace a tr) :
    tr.count .connect ≤ 1 ∧ tr.count .reset ≤ 1 ∧ tr.count .connect ≤ tr.count .reset ∧
    tr.count .connectError = 1 ∧ tr.count .monitorError = 1 := by
  have hno : ∀ k (l : List Msg), (evsFrom k l).count .connect = 0 ∧ (evsFrom k l).count .reset = 0 ∧
      (evsFrom k l).count .connectError = 0 ∧ (evsFrom k l).count .monitorError = 0 := by
    intro k l
    refine ⟨?_, ?_, ?_, ?_⟩ <;>
    · apply List.count_eq_zero.mpr
      intro hm
      rcases evsFrom_mem hm with ⟨_, _, he⟩ | he <;> cases he
  cases h with
  | early => decide
  | stream ms e j _ _ =>
    have := hno 0 (ms.take j)
    by_cases hj : 0 < j <;> simp [sessPart, hj, this]

/-- The segment of the attempt in progress is a prefix of a complete attempt trace. -/
theorem segOf_prefix {I : Inst} (hs : SegOK I) : ∃ full, AttemptTrace I.cur full ∧ segOf I <+: full := by
  have hstream : ∀ j, j ≤ I.cur.msgs.length → I.cur.isStream = true →
      AttemptTrace I.cur (sessPart I.cur.msgs j (decide (0 < j)) ++ [.reset, .connectError, .monitorError]) :=
    fun j hj hst => .stream I.cur.msgs I.cur.ending j (Attempt.stream_of_isStream hst) hj
  unfold SegOK at hs
  unfold segOf
  split at hs
  · next j c hp =>
    obtain ⟨hc, hj, hst⟩ := hs; subst hc
    exact ⟨_, hstream j hj hst, by simp⟩
  · next j c hp =>
    obtain ⟨hc, hj, hst⟩ := hs
    cases c with
    | false => exact ⟨_, .early, by simp [sessPart]⟩
    | true =>
      refine ⟨_, hstream (j + 1) hj hst, ?_⟩
      simp only [sessPart, if_true, Nat.zero_lt_succ, decide_true, evsFrom_take_succ _ hj]
      simp [List.append_assoc]
  · next j c hp =>
    obtain ⟨hc, hj, hst⟩ := hs; subst hc
    exact ⟨_, hstream j hj hst, by simp⟩
  · next j c r hp =>
    cases r with
    | false =>
      simp only [Bool.false_eq_true, if_false] at hs; subst hs
      exact ⟨_, .early, by simp [sessPart]⟩
    | true =>
      simp only [if_true] at hs
      obtain ⟨hc, hj, hst⟩ := hs; subst hc
      refine ⟨_, hstream j hj hst, ?_⟩
      simp only [if_true]
      exact (List.prefix_append_right_inj _).mpr ⟨[.connectError, .monitorError], rfl⟩
  · next j c r hp =>
    cases r with
    | false =>
      simp only [Bool.false_eq_true, if_false] at hs; subst hs
      exact ⟨_, .early, by simp [sessPart]⟩
    | true =>
      simp only [if_true] at hs
      obtain ⟨hc, hj, hst⟩ := hs; subst hc
      refine ⟨_, hstream j hj hst, ?_⟩
      simp only [if_true, List.append_assoc]
      exact (List.prefix_append_right_inj _).mpr ⟨[.monitorError], rfl⟩
  · next hp => exact ⟨_, .early, by simp⟩

end Gnmi.Manager
