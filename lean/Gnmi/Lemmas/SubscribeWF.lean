import Gnmi.Model.SubscribeLTS
import Gnmi.Props.C06
/-!
# `Sys.WF` is what the path relations of C06 give

The Subscribe LTS is stated for abstract predicates `wants` / `walks` / `wantsR` / `covers`.
Here they are instantiated with the concrete relations of `Spec/PMap.lean` — keys and region
paths are index paths with the target as first element, a subscriber has a list of completed
query paths — and `Sys.WF` is proved, so the assumptions of the LTS theorems are consequences
of C06 (`query_subset_stream`) and of the definition of `compatible`.
-/
namespace Gnmi
namespace SubLTS

def globFree (k : Path) : Bool := k.all (· != glob)

/-- a query compatible with a (glob-free) key is compatible with every subtree-delete path
selecting the key -/
theorem compatible_of_covers : ∀ (q r k : Path), globFree k = true → qmatches r k = true →
    compatible q k = true → compatible q r = true
  | q, [], _, _, _, _ => by cases q <;> rfl
  | [], _ :: _, _, _, _, _ => rfl
  | g :: q, r :: rs, [], _, hr, _ => by
      cases rs with
      | nil =>
        have : (r == glob) = true := hr
        simp [compatible, this]
      | cons _ _ => cases hr
  | g :: q, r :: rs, x :: ks, hk, hr, hq => by
      rw [C06.qmatches_cons_cons] at hr
      have hx : (x == glob) = false := by
        have : (x != glob) = true := by
          simp only [globFree, List.all_cons, Bool.and_eq_true] at hk; exact hk.1
        simpa using this
      have hk' : globFree ks = true := by
        simp only [globFree, List.all_cons, Bool.and_eq_true] at hk ⊢; exact hk.2
      simp only [compatible, Bool.and_eq_true, Bool.or_eq_true, hx, Bool.false_eq_true, or_false] at hq ⊢
      simp only [Bool.and_eq_true, Bool.or_eq_true] at hr
      refine ⟨?_, compatible_of_covers q rs ks hk' hr.2 hq.2⟩
      rcases hr.1 with h1 | h1
      · exact Or.inl (Or.inr h1)
      · rcases hq.1 with h2 | h2
        · exact Or.inl (Or.inl h2)
        · have e1 : r = x := by simpa using h1
          have e2 : g = x := by simpa using h2
          exact Or.inr (by simp [e1, e2])

/-- the request of a subscriber given by its completed query paths -/
def pathReq (qs : List Path) (rq : Req Path String Path) : Req Path String Path :=
  { rq with
    wants := fun k => qs.any (compatible · k)
    walks := fun k => qs.any (qmatches · k)
    wantsR := fun r => qs.any (compatible · r) }

/-- the system over index paths: the target is the first element; a region path covers the
glob-free keys it selects (and names their target literally) -/
def pathSys (qs : Nat → List Path) (rqs : Nat → Req Path String Path) (isTD : Path → Bool) :
    Sys Path String Path :=
  { tgt := fun k => k.head?.getD ""
    rtgt := fun r => r.head?.getD ""
    covers := fun r k => globFree k && qmatches r k && (r.head? == k.head?)
    isTD := isTD
    req := fun s => pathReq (qs s) (rqs s) }

theorem pathSys_wf (qs : Nat → List Path) (rqs : Nat → Req Path String Path) (isTD : Path → Bool) :
    (pathSys qs rqs isTD).WF := by
  refine ⟨?_, ?_, ?_⟩
  · intro s k h
    simp only [pathSys, pathReq, List.any_eq_true] at h ⊢
    obtain ⟨q, hq, hm⟩ := h
    exact ⟨q, hq, C06.query_subset_stream q k hm⟩
  · intro s k r hw hc
    simp only [pathSys, pathReq, List.any_eq_true, Bool.and_eq_true] at hw hc ⊢
    obtain ⟨q, hq, hm⟩ := hw
    exact ⟨q, hq, compatible_of_covers q r k hc.1.1 hc.1.2 hm⟩
  · intro r k hc
    simp only [pathSys, Bool.and_eq_true, beq_iff_eq] at hc ⊢
    rw [hc.2]

end SubLTS
end Gnmi
