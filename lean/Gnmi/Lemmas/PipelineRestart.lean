import Gnmi.Lemmas.PipelineSame
import Gnmi.Props.C01Same
import Gnmi.Props.C14
/-!
Helper lemmas for property C01 over runs with **session restarts** (`Pipeline.StepR`,
`Pipeline.Sys.runR`; spec `Relay.viewR`, `Relay.lastSession`).

* `Relay.reset_relay`: `Target.Reset` on a target that presents any view makes it present the empty
  view, keeping the target well formed (`C14.reset_clears`: only `meta/` leaves remain), every stored
  leaf a single decodable update (`Good`, through the metadata refresh `Reset` performs) and the
  provenance component (`From`, vacuously: nothing outside `meta/` is stored).
* `Relay.Holds3` = `Holds2` + `Cache.SInv` (every registered target carries its own name: `Reset`
  addresses its metadata notifications to `t.name`), kept by every step of `Sys.stepR`
  (`Holds3.stepR`) and whole runs (`Holds3.runR`): the frame for the other targets is
  `Holds2.onTarget` (`C14.frame` at the level of `Holds2`).
* the STREAM side: `Cache.Reset` / `Cache.ConnectError` are `C04Seq` history steps (`sys_reset`,
  `sys_connectError`: their events are single decodable `meta/` updates and `T/<root>/*` deletes),
  so `C04Seq`'s invariant carries across restarts (`run_tr4_R`).
* spec lemmas: `viewR` of a run is `finalView` of the last session; `wellFormedR` says every session
  is well formed; a run without restarts is an old run.
(The client half of the STREAM clause on the final state alone, `C01.stream_holdsExpected`, is in
`Props/C01Restart.lean`.)
-/
namespace Gnmi
namespace Relay
open Cache Pipeline

/-! ### `Good` through the metadata refresh and `Reset` -/

/-- `good_update1` needing only that stored notifications carry an update (what `TInvD` gives while
the leaf counters are being rebuilt by `Reset`) -/
theorem good_update1' (cfg : Cfg) (now : Int) (T : String) (hT : T ≠ "") (t : Target) (n : Noti) (u : Upd)
    (hh : ∀ kv ∈ t.tree, kv.2.upd ≠ []) (hg : Good T t) (ht : n.target = T) (hu : n.upd = [u]) (hd : n.del = [])
    (hna : n.atomic = false) (hv : valueOK u.val = true) :
    Good T (Target.gnmiUpdate1 cfg now t n).2.1 := by
  have hkey : updKey n u = joinKey n u.path := by unfold updKey; simp [hna]
  have hleaf : GoodLeaf T (updKey n u) n := ⟨hna, hd, ht, u, hu, hv, hkey⟩
  have he := gnmiUpdate1_effect cfg now t n u [] hu (by rw [ht]; exact hT)
  generalize Target.gnmiUpdate1 cfg now t n = r at he
  cases he with
  | rejected r t' _ h1 => exact hg.of_tree_eq h1
  | replaced t' old _ hl _ h1 =>
    intro kv hkv
    have hkv' : kv ∈ setLeaf t.tree (updKey n u) n := by rw [← h1]; exact hkv
    rcases mem_setLeaf.1 hkv' with ⟨e1, e2, _⟩ | ⟨hm, _⟩
    · rw [e1, e2]; exact hleaf
    · exact hg kv hm
  | suppressed t' old _ _ _ hl _ h1 =>
    intro kv hkv
    have hkv' : kv ∈ setLeaf t.tree (updKey n u) n := by rw [← h1]; exact hkv
    rcases mem_setLeaf.1 hkv' with ⟨e1, e2, _⟩ | ⟨hm, _⟩
    · rw [e1, e2]; exact hleaf
    · exact hg kv hm
  | added t' _ _ hadd =>
    intro kv hkv
    have hkv' : kv ∈ t'.tree := hkv
    rw [add_eq_some hadd] at hkv'
    rcases List.mem_cons.1 hkv' with e | hm
    · rw [e]; exact hleaf
    · exact hg kv (List.mem_filter.1 hm).1
  | panicOld t' old hl ho => exact absurd ho (hh _ (mem_of_lookup_some hl))

/-- a single decodable, non-atomic update addressed to `T` (as `C01S.PL`) -/
def PLm (T : String) (nd : Noti) : Prop :=
  nd.atomic = false ∧ nd.del = [] ∧ nd.target = T ∧ ∃ u, nd.upd = [u] ∧ valueOK u.val = true

/-- what the folds of the metadata refresh maintain -/
structure RInv (a b : Int) (T : String) (acc : Target × List Event) : Prop where
  inv : TInvD a b acc.1
  name : acc.1.name = T
  good : Good T acc.1
  evs : ∀ e ∈ acc.2, ∃ nd, e = .upd nd ∧ PLm T nd

theorem valueOK_scalar_meta (v : Scalar) (h : (∃ b, v = .bool b) ∨ (∃ i, v = .int i) ∨ (∃ s, v = .str s)) :
    valueOK (.scalar v) = true := by
  rcases h with ⟨b, rfl⟩ | ⟨i, rfl⟩ | ⟨s, rfl⟩ <;> rfl

theorem genMetaOne_rinv {a b : Int} {T : String} (hT : T ≠ "") (cfg : Cfg) (enc : String → String) (now : Int)
    (emit : Bool) (acc : Target × List Event) (name : String) (v : Scalar) (isCur : Val → Bool)
    (hv : valueOK (.scalar v) = true) (h : RInv a b T acc) :
    RInv a b T (genMetaOne cfg enc now emit acc name v isCur) := by
  have hn : acc.1.name ≠ "" := by rw [h.name]; exact hT
  have hms := genMetaOne_ok cfg enc now emit acc name v isCur h.inv hn
  unfold genMetaOne at hms ⊢
  split
  · exact h
  · split
    · exact h
    · simp only
      rw [if_neg (by assumption), if_neg (by assumption)] at hms
      simp only at hms
      have hu : (metaNoti enc acc.1.name name v now).upd =
          [{ origin := "", path := [metaRoot, name], val := .scalar v,
             raw := rawMetaUpdate name (rawScalar enc v) enc }] := rfl
      have hgood := good_update1' cfg now T hT acc.1 (metaNoti enc acc.1.name name v now) _ h.inv.hasUpd h.good
        (by show acc.1.name = T; exact h.name) hu rfl rfl hv
      have hout := C01S.gnmiUpdate1_out cfg now acc.1 (metaNoti enc acc.1.name name v now) _ [] hu hn
      split
      · rename_i nd hnd
        have hms' : MetaStep a b acc.1 (Target.gnmiUpdate1 cfg now acc.1 (metaNoti enc acc.1.name name v now)).2.1 := by
          rw [hnd] at hms; exact hms
        refine ⟨hms'.inv, hms'.name.trans h.name, hgood, ?_⟩
        intro e he
        cases emit with
        | false => exact h.evs e he
        | true =>
          simp only [if_true] at he
          rcases List.mem_append.1 he with h1 | h1
          · exact h.evs e h1
          · have he' : e = .upd nd := by simpa using h1
            refine ⟨nd, he', ?_⟩
            rw [hout nd hnd]
            exact ⟨rfl, rfl, h.name, _, hu, hv⟩
      · rename_i hnone
        have hms' : MetaStep a b acc.1 (Target.gnmiUpdate1 cfg now acc.1 (metaNoti enc acc.1.name name v now)).2.1 := by
          rw [hnone] at hms; exact hms
        exact ⟨hms'.inv, hms'.name.trans h.name, hgood, h.evs⟩

theorem foldl_rinv {a b : Int} {T : String} {α : Type} (f : Target × List Event → α → Target × List Event)
    (hf : ∀ acc x, RInv a b T acc → RInv a b T (f acc x)) :
    ∀ (l : List α) (acc : Target × List Event), RInv a b T acc → RInv a b T (l.foldl f acc)
  | [], _, h => h
  | x :: l, acc, h => foldl_rinv f hf l (f acc x) (hf acc x h)

/-- the optional `serverName` string of the refresh (a cache created `WithServerName`) -/
theorem genServerName_rinv {a b : Int} {T : String} (hT : T ≠ "") (cfg : Cfg) (enc : String → String) (now : Int)
    (emit : Bool) (acc : Target × List Event) (h : RInv a b T acc) :
    RInv a b T (genServerName cfg enc now emit acc) := by
  unfold genServerName
  split
  · exact genMetaOne_rinv hT cfg enc now emit acc _ _ _ rfl h
  · exact h

theorem generateMetaUpdates_rinv {a b : Int} {T : String} (hT : T ≠ "") (cfg : Cfg) (enc : String → String)
    (now : Int) (emit : Bool) (t : Target) (h : RInv a b T (t, [])) :
    RInv a b T (t.generateMetaUpdates cfg enc now emit) := by
  unfold Target.generateMetaUpdates
  have s1 := foldl_rinv (a := a) (b := b) (T := T) (fun acc name =>
      match acc.1.md.getBool name with
      | some v => genMetaOne cfg enc now emit acc name (.bool v)
          (fun sv => match sv with | .scalar (.bool b) => b == v | _ => false)
      | none => acc)
    (by intro acc x hp; split
        · exact genMetaOne_rinv hT cfg enc now emit acc x _ _ rfl hp
        · exact hp) boolNames (t, []) h
  have s2 := foldl_rinv (a := a) (b := b) (T := T) (fun acc name =>
      match acc.1.md.getInt name with
      | some v => genMetaOne cfg enc now emit acc name (.int v)
          (fun sv => match sv with | .scalar (.int i) => i == v | _ => false)
      | none => acc)
    (by intro acc x hp; split
        · exact genMetaOne_rinv hT cfg enc now emit acc x _ _ rfl hp
        · exact hp) intNames _ s1
  have s3 := foldl_rinv (a := a) (b := b) (T := T) (fun acc name =>
      match acc.1.md.getStr name with
      | some v => genMetaOne cfg enc now emit acc name (.str v)
          (fun sv => match sv with | .scalar (.str s) => s == v | _ => false)
      | none => acc)
    (by intro acc x hp; split
        · exact genMetaOne_rinv hT cfg enc now emit acc x _ _ rfl hp
        · exact hp) strNames _ s2
  exact genServerName_rinv hT cfg enc now emit _ s3

theorem updateMeta_rinv {a b : Int} {T : String} (hT : T ≠ "") (cfg : Cfg) (enc : String → String)
    (now : Int) (emit : Bool) (t : Target) (hi : TInvD a b t) (hn : t.name = T) (hg : Good T t) :
    RInv a b T (t.updateMeta cfg enc now emit) := by
  unfold Target.updateMeta
  exact generateMetaUpdates_rinv hT cfg enc now emit _
    ⟨hi.with_md _ ⟨rfl, rfl, rfl⟩, hn, hg.of_tree_eq rfl, fun e he => by cases he⟩

/-- **`Target.Reset` behind the collector.**  A registered target whose stored leaves are single
decodable updates is left, by `Reset`, well formed, with `meta/` leaves only (`C14.reset_clears`), every
stored leaf still a single decodable update; every event announced is such an update (the metadata
refresh) or a delete `T/<root>/*`. -/
theorem reset_relay (cfg : Cfg) (enc : String → String) (now : Int) (T : String) (hT : T ≠ "") (t : Target)
    (hi : TInv t) (hn : t.name = T) (hg : Good T t) :
    TInv (t.reset cfg enc now).1 ∧ (t.reset cfg enc now).1.name = T ∧
    (∀ kv ∈ (t.reset cfg enc now).1.tree, isMetaKey kv.1 = true) ∧ Good T (t.reset cfg enc now).1 ∧
    (∀ e ∈ (t.reset cfg enc now).2, (∃ nd, e = .upd nd ∧ PLm T nd) ∨ ∃ root, e = .del T root [glob] now) := by
  have hne : t.name ≠ "" := by rw [hn]; exact hT
  obtain ⟨c1, _, _, _, _, c6, _⟩ := C14.reset_clears (enc := enc) cfg now t hi hne
  obtain ⟨_, c2, _, _, _, _, _⟩ := reset_ok cfg enc now t hi hne
  refine ⟨c6, c2.trans hn, c1, ?_, ?_⟩
  all_goals
    have h0 : TInvD (0 - (nm t.tree : Nat)) 0 { t with latest := none, md := Meta.clear } :=
      ⟨hi.unique, hi.hasUpd, hi.nonEmpty, by simp [Meta.clear], by simp [Meta.clear]⟩
    have hr := updateMeta_rinv hT cfg enc now true { t with latest := none, md := Meta.clear } h0 hn
      (hg.of_tree_eq rfl)
    rw [reset_eq]
    simp only
    generalize Target.updateMeta cfg enc now true { t with latest := none, md := Meta.clear } = u at hr
  · obtain ⟨_, _, _, d4⟩ := dropRoots_spec t.name now ((rootChildren u.1.tree).filter (· != metaRoot)) u
    intro kv hkv
    exact hr.good kv ((d4 kv).1 hkv).1
  · rw [C14.dropRoots_events]
    intro e he
    rcases List.mem_append.1 he with h1 | h1
    · exact Or.inl (hr.evs e h1)
    · obtain ⟨root, _, rfl⟩ := List.mem_map.1 h1
      exact Or.inr ⟨root, by rw [hr.name]⟩

theorem agree_of_all_meta {t : Target} (h : ∀ kv ∈ t.tree, isMetaKey kv.1 = true) : Agree t [] := by
  intro k
  unfold absGet
  cases hm : isMetaKey k with
  | true => rfl
  | false =>
    simp only [Bool.false_eq_true, if_false]
    cases hl : lookup t.tree k with
    | none => rfl
    | some n =>
      have := h _ (mem_of_lookup_some hl)
      simp only at this
      rw [this] at hm; cases hm

theorem from_of_all_meta (U : List Upd) {t : Target} (h : ∀ kv ∈ t.tree, isMetaKey kv.1 = true) : From U t := by
  intro kv hkv hm
  rw [h kv hkv] at hm; cases hm

/-! ### the run invariant with names -/

/-- `Holds2` plus: every registered target is well formed and carries its own (non-empty) name -/
structure Holds3 (names : List String) (U : String → List Upd) (s : Sys) (vw : String → View) : Prop where
  h : Holds2 names U s vw
  sinv : SInv s.sub.cache

/-- `Sys.reset` when the collector is up -/
theorem reset_eq_hstep (enc : String → String) (now : Int) (s : Sys) (name : String) (h : s.crashed = false) :
    s.reset enc now name = { s with sub := C04Seq.hstep enc s.sub (.ca (.reset name now)) } := by
  unfold Sys.reset
  rw [if_neg (by rw [h]; simp)]
  rfl

theorem connectError_eq_hstep (enc : String → String) (now : Int) (s : Sys) (name msg : String)
    (h : s.crashed = false) :
    s.connectError enc now name msg = { s with sub := C04Seq.hstep enc s.sub (.ca (.connectError name msg now)) } := by
  unfold Sys.connectError
  rw [if_neg (by rw [h]; simp)]
  rfl

/-- **the session of `name` ends**: `cache.Reset(name)` makes the target present the empty view; the
other targets are untouched -/
theorem Holds3.reset {names : List String} {U : String → List Upd} {s : Sys} {vw : String → View}
    (enc : String → String) (h : Holds3 names U s vw) (now : Int) (name : String) :
    Holds3 names U (s.reset enc now name) (fun x => if x = name then [] else vw x) := by
  have hal := h.h.alive
  rw [reset_eq_hstep enc now s name hal]
  have hc : ({ s with sub := C04Seq.hstep enc s.sub (.ca (.reset name now)) } : Sys).sub.cache =
      (s.sub.cache.reset enc name now).1 := rfl
  refine ⟨?_, by rw [hc]; exact (step_sinv enc s.sub.cache (.reset name now) h.sinv trivial).1⟩
  cases hg : s.sub.cache.get name with
  | none =>
    have hce : (s.sub.cache.reset enc name now).1 = s.sub.cache := by
      unfold State.reset State.onTarget; simp only [hg]
    have := h.h.of_cache_eq (s' := { s with sub := C04Seq.hstep enc s.sub (.ca (.reset name now)) }) hal
      (by rw [hc, hce])
    refine ⟨this.alive, this.thr, ?_⟩
    intro V hV
    obtain ⟨t, g1, g2, g3, g4, g5⟩ := this.each V hV
    by_cases e : V = name
    · subst e
      have g1' : s.sub.cache.get V = some t := by rw [← hce, ← hc]; exact g1
      rw [hg] at g1'; cases g1'
    · exact ⟨t, g1, g2, by simpa [e] using g3, g4, g5⟩
  | some t =>
    obtain ⟨i0, n0, ne0⟩ := h.sinv name t hg
    exact h.h.onTarget name [] _ hal
      (by rw [hc]; unfold State.reset State.onTarget; simp only [hg]; exact set_cfg _ _ _)
      (fun V hV => by
        rw [hc]; unfold State.reset State.onTarget; simp only [hg]; exact get_set_other _ _ _ _ hV)
      (fun t0 h0 hi _ hgd _ => by
        rw [hg] at h0; cases h0
        obtain ⟨r1, _, r3, r4, _⟩ := reset_relay s.sub.cache.cfg enc now name ne0 t hi n0 hgd
        refine ⟨_, ?_, r1, agree_of_all_meta r3, r4, from_of_all_meta _ r3⟩
        rw [hc]; unfold State.reset State.onTarget; simp only [hg]; exact get_set_same _ _ _)

theorem isMetaKey_metaNoti' (enc : String → String) (name mname : String) (sv : Scalar) (now : Int) (U : List Upd) :
    ∀ u ∈ (metaNoti enc name mname sv now).upd,
      u ∈ U ∨ isMetaKey (joinKey (metaNoti enc name mname sv now) u.path) = true := by
  intro u hu
  simp only [metaNoti, List.mem_singleton] at hu
  subst hu
  exact Or.inr (by simp [metaNoti, joinKey, isMetaKey])

/-- `cache.ConnectError(name, err)`: a `meta/connectError` leaf, no view changes -/
theorem Holds3.connectError {names : List String} {U : String → List Upd} {s : Sys} {vw : String → View}
    (enc : String → String) (h : Holds3 names U s vw) (now : Int) (name msg : String) :
    Holds3 names U (s.connectError enc now name msg) vw := by
  have hal := h.h.alive
  rw [connectError_eq_hstep enc now s name msg hal]
  have hc : ({ s with sub := C04Seq.hstep enc s.sub (.ca (.connectError name msg now)) } : Sys).sub.cache =
      (s.sub.cache.connectError enc name msg now).1 := rfl
  refine ⟨?_, by rw [hc]; exact (step_sinv enc s.sub.cache (.connectError name msg now) h.sinv trivial).1⟩
  cases hg : s.sub.cache.get name with
  | none =>
    refine h.h.of_cache_eq hal ?_
    rw [hc]
    unfold State.connectError State.onTarget
    simp only [hg]
  | some t =>
    obtain ⟨_, _, hn⟩ := h.sinv name t hg
    have := h.h.onTarget name (vw name) { s with sub := C04Seq.hstep enc s.sub (.ca (.connectError name msg now)) } hal
      (by rw [hc]; unfold State.connectError State.onTarget; simp only [hg]; exact set_cfg _ _ _)
      (fun V hV => by
        rw [hc]; unfold State.connectError State.onTarget; simp only [hg]; exact get_set_other _ _ _ _ hV)
      (fun t0 h0 hi ha hgd hfr => by
        rw [hg] at h0; cases h0
        obtain ⟨i, a⟩ := metaNoti_agree s.sub.cache.cfg enc now t (vw name) name "connectError" (.str msg) hn hi ha
        have gd := good_gnmiUpdate s.sub.cache.cfg now name hn t (metaNoti enc name "connectError" (.str msg) now)
          hi hgd rfl rfl (by intro u hu; simp only [metaNoti, List.mem_singleton] at hu; subst hu; rfl)
        have fr := from_gnmiUpdate s.sub.cache.cfg now (U name) t (metaNoti enc name "connectError" (.str msg) now)
          hi hfr hn rfl (isMetaKey_metaNoti' enc name "connectError" (.str msg) now (U name))
        refine ⟨_, ?_, i, a, gd, fr⟩
        rw [hc]; unfold State.connectError State.onTarget; simp only [hg]; exact get_set_same _ _ _)
    rw [fun_update_self] at this
    exact this

/-- what a step of a run with restarts must satisfy in the views `vw` -/
def StepOK (names : List String) (U : String → List Upd) (strict : Bool) (vw : String → View) : StepR → Prop
  | .step (.recv name _ _ it) => name ∈ names ∧ itemOK strict (vw name) it = true ∧
      ∀ u ∈ C01.updatesOf [it], u ∈ U name
  | _ => True

/-- the views after a step -/
def stepView (vw : String → View) : StepR → String → View
  | .step (.recv name _ _ it) => fun x => if x = name then applyItem (vw name) it else vw x
  | .step (.subscribe _ _ _) => vw
  | .reset name _ => fun x => if x = name then [] else vw x
  | .connectError _ _ _ => vw

/-- a step of the old run type keeps the names -/
theorem Holds3.step {names : List String} {U : String → List Upd} {s : Sys} {vw : String → View}
    (enc : String → String) (h : Holds3 names U s vw) (hne : ∀ x ∈ names, x ≠ "")
    (hraw : ∀ name ∈ names, RawOK (U name)) (strict : Bool) (st : Step)
    (hst : StepOK names U strict vw (.step st)) :
    Holds3 names U (s.step enc st) (stepView vw (.step st)) := by
  cases st with
  | subscribe id target queries =>
    refine ⟨h.h.step enc hne hraw strict (.subscribe id target queries) trivial, ?_⟩
    simp only [Sys.step]
    rw [if_neg (by rw [h.h.alive]; simp), subscribe_cache]
    exact h.sinv
  | recv name first now it =>
    refine ⟨h.h.step enc hne hraw strict (.recv name first now it) hst, ?_⟩
    obtain ⟨hmem, hok, hU⟩ := hst
    have hn := hne name hmem
    simp only [Sys.step, Sys.recv]
    have key : ∀ (s1 : Sys), Holds2 names U s1 vw → SInv s1.sub.cache →
        SInv (s1.deliver enc now (handleGNMIUpdate name it)).sub.cache := by
      intro s1 h1 i1
      have h1' := h1.deliver enc now name hn hmem it (hraw name hmem) hU strict hok
      rw [C01S.deliver_as_hstep enc now s1 _ h1.alive h1'.alive]
      exact (step_sinv enc s1.sub.cache _ i1 (by cases it <;> trivial)).1
    cases first with
    | false => exact key s h.h h.sinv
    | true =>
      apply key _ (h.h.connect enc now name hn)
      rw [C01S.connect_as_hstep enc now s name h.h.alive]
      exact (step_sinv enc s.sub.cache (.connect name now) h.sinv trivial).1

theorem Holds3.stepR {names : List String} {U : String → List Upd} {s : Sys} {vw : String → View}
    (enc : String → String) (h : Holds3 names U s vw) (hne : ∀ x ∈ names, x ≠ "")
    (hraw : ∀ name ∈ names, RawOK (U name)) (strict : Bool) (st : StepR) (hst : StepOK names U strict vw st) :
    Holds3 names U (s.stepR enc st) (stepView vw st) := by
  cases st with
  | step st0 =>
    cases st0 with
    | recv name first now it => exact h.step enc hne hraw strict (.recv name first now it) hst
    | subscribe id target queries => exact h.step enc hne hraw strict (.subscribe id target queries) hst
  | reset name now => exact h.reset enc now name
  | connectError name msg now => exact h.connectError enc now name msg

theorem stepView_viewR (vw : String → View) (st : StepR) (r : List StepR) (nm : String) :
    viewR nm (vw nm) (st :: r) = viewR nm (stepView vw st nm) r := by
  cases st with
  | step st0 =>
    cases st0 with
    | recv name first now it =>
      simp only [viewR, stepView]
      by_cases e : nm = name
      · subst e; simp
      · simp [e, Ne.symm e]
    | subscribe id target queries => rfl
  | reset name now =>
    simp only [viewR, stepView]
    by_cases e : nm = name
    · subst e; simp
    · simp [e, Ne.symm e]
  | connectError name msg now => rfl

theorem stepView_wellFormedR (strict : Bool) (vw : String → View) (st : StepR) (r : List StepR) (nm : String)
    (h : wellFormedR strict nm (vw nm) (st :: r) = true) :
    wellFormedR strict nm (stepView vw st nm) r = true := by
  cases st with
  | step st0 =>
    cases st0 with
    | recv name first now it =>
      simp only [wellFormedR, stepView] at h ⊢
      by_cases e : nm = name
      · subst e
        simp only [if_true, Bool.and_eq_true] at h ⊢
        exact h.2
      · simpa [e, Ne.symm e] using h
    | subscribe id target queries => exact h
  | reset name now =>
    simp only [wellFormedR, stepView] at h ⊢
    by_cases e : nm = name
    · subst e; simpa using h
    · simpa [e, Ne.symm e] using h
  | connectError name msg now => exact h

theorem updatesOf_allItemsR_cons {nm : String} {st : StepR} {r : List StepR} {u : Upd}
    (h : u ∈ C01.updatesOf (allItemsR nm r)) : u ∈ C01.updatesOf (allItemsR nm (st :: r)) := by
  cases st with
  | step st0 =>
    cases st0 with
    | recv name first now it =>
      simp only [allItemsR]
      split
      · exact updatesOf_tail h
      · exact h
    | subscribe id target queries => exact h
  | reset name now => exact h
  | connectError name msg now => exact h

/-- the hypotheses of a run give those of its first step -/
theorem stepOK_head {names : List String} {U : String → List Upd} {strict : Bool} {vw : String → View}
    {st : StepR} {r : List StepR}
    (hs : ∀ x ∈ sendersR (st :: r), x ∈ names)
    (hwf : ∀ name ∈ names, wellFormedR strict name (vw name) (st :: r) = true)
    (hU : ∀ name ∈ names, ∀ u ∈ C01.updatesOf (allItemsR name (st :: r)), u ∈ U name) :
    StepOK names U strict vw st := by
  cases st with
  | step st0 =>
    cases st0 with
    | recv name first now it =>
      have hmem : name ∈ names := hs name (by simp [sendersR])
      have hw := hwf name hmem
      simp only [wellFormedR, if_true, Bool.and_eq_true] at hw
      refine ⟨hmem, hw.1, ?_⟩
      intro u hu
      apply hU name hmem
      simp only [allItemsR, if_true]
      exact updatesOf_head hu
    | subscribe id target queries => trivial
  | reset name now => trivial
  | connectError name msg now => trivial

theorem sendersR_tail {st : StepR} {r : List StepR} {x : String} (h : x ∈ sendersR r) : x ∈ sendersR (st :: r) := by
  cases st with
  | step st0 =>
    cases st0 with
    | recv name first now it => simp [sendersR, h]
    | subscribe id target queries => exact h
  | reset name now => simp [sendersR, h]
  | connectError name msg now => simp [sendersR, h]

/-- **Whole runs with restarts.**  Any interleaving of admissible sessions (either strictness), any
number of restarts of any target at any points, `ConnectError` anywhere: the collector stays up and
every target presents the view its *current* session describes. -/
theorem Holds3.runR {names : List String} {U : String → List Upd} (enc : String → String)
    (hne : ∀ x ∈ names, x ≠ "") (hraw : ∀ name ∈ names, RawOK (U name)) (strict : Bool) :
    ∀ (steps : List StepR) (s : Sys) (vw : String → View), Holds3 names U s vw →
      (∀ x ∈ sendersR steps, x ∈ names) →
      (∀ name ∈ names, wellFormedR strict name (vw name) steps = true) →
      (∀ name ∈ names, ∀ u ∈ C01.updatesOf (allItemsR name steps), u ∈ U name) →
      Holds3 names U (s.runR enc steps) (fun name => viewR name (vw name) steps)
  | [], s, vw, h, _, _, _ => by simpa [Sys.runR, viewR] using h
  | st :: r, s, vw, h, hs, hwf, hU => by
    have hst := h.stepR enc hne hraw strict st (stepOK_head hs hwf hU)
    have ih := Holds3.runR enc hne hraw strict r _ _ hst (fun x hx => hs x (sendersR_tail hx))
      (fun nm hnm => stepView_wellFormedR strict vw st r nm (hwf nm hnm))
      (fun nm hnm u hu => hU nm hnm u (updatesOf_allItemsR_cons hu))
    have hrun : s.runR enc (st :: r) = (s.stepR enc st).runR enc r := by simp [Sys.runR]
    rw [hrun]
    have hv : (fun nm => viewR nm (vw nm) (st :: r)) = (fun nm => viewR nm (stepView vw st nm) r) := by
      funext nm; exact stepView_viewR vw st r nm
    rw [hv]
    exact ih

/-! ### the spec of a run with restarts, in terms of sessions -/

theorem viewR_append (name : String) : ∀ (a : List StepR) (v : View) (b : List StepR),
    viewR name v (a ++ b) = viewR name (viewR name v a) b
  | [], _, _ => rfl
  | .step (.recv n _ _ it) :: a, v, b => by simp only [List.cons_append, viewR]; exact viewR_append name a _ b
  | .step (.subscribe _ _ _) :: a, v, b => by simp only [List.cons_append, viewR]; exact viewR_append name a _ b
  | .reset n _ :: a, v, b => by simp only [List.cons_append, viewR]; exact viewR_append name a _ b
  | .connectError _ _ _ :: a, v, b => by simp only [List.cons_append, viewR]; exact viewR_append name a _ b

theorem wellFormedR_append (strict : Bool) (name : String) : ∀ (a : List StepR) (v : View) (b : List StepR),
    wellFormedR strict name v (a ++ b) =
      (wellFormedR strict name v a && wellFormedR strict name (viewR name v a) b)
  | [], _, _ => by simp [wellFormedR, viewR]
  | .step (.recv n _ _ it) :: a, v, b => by
    simp only [List.cons_append, wellFormedR, viewR]
    split
    · rw [wellFormedR_append strict name a, Bool.and_assoc]
    · exact wellFormedR_append strict name a _ b
  | .step (.subscribe _ _ _) :: a, v, b => by
    simp only [List.cons_append, wellFormedR, viewR]; exact wellFormedR_append strict name a _ b
  | .reset n _ :: a, v, b => by
    simp only [List.cons_append, wellFormedR, viewR]; exact wellFormedR_append strict name a _ b
  | .connectError _ _ _ :: a, v, b => by
    simp only [List.cons_append, wellFormedR, viewR]; exact wellFormedR_append strict name a _ b

theorem sendersR_append : ∀ (a b : List StepR), sendersR (a ++ b) = sendersR a ++ sendersR b
  | [], _ => rfl
  | .step (.recv n _ _ it) :: a, b => by simp only [List.cons_append, sendersR]; rw [sendersR_append a b]
  | .step (.subscribe _ _ _) :: a, b => by simp only [List.cons_append, sendersR]; exact sendersR_append a b
  | .reset n _ :: a, b => by simp only [List.cons_append, sendersR]; rw [sendersR_append a b]
  | .connectError _ _ _ :: a, b => by simp only [List.cons_append, sendersR]; rw [sendersR_append a b]

theorem allItemsR_append (name : String) : ∀ (a b : List StepR),
    allItemsR name (a ++ b) = allItemsR name a ++ allItemsR name b
  | [], _ => rfl
  | .step (.recv n _ _ it) :: a, b => by
    simp only [List.cons_append, allItemsR]
    split
    · rw [allItemsR_append name a b]; rfl
    · exact allItemsR_append name a b
  | .step (.subscribe _ _ _) :: a, b => by simp only [List.cons_append, allItemsR]; exact allItemsR_append name a b
  | .reset n _ :: a, b => by simp only [List.cons_append, allItemsR]; exact allItemsR_append name a b
  | .connectError _ _ _ :: a, b => by simp only [List.cons_append, allItemsR]; exact allItemsR_append name a b

theorem foldl_applyItem_snoc (v : View) (cur : List TItem) (it : TItem) :
    (cur ++ [it]).foldl applyItem v = applyItem (cur.foldl applyItem v) it := by
  simp [List.foldl_append]

/-- **the view of a run is the view of the last session** (generalised over the session under way) -/
theorem viewR_lastSessionFrom (name : String) : ∀ (steps : List StepR) (cur : List TItem),
    viewR name (finalView cur) steps = finalView (lastSessionFrom name cur steps)
  | [], _ => rfl
  | .step (.recv n _ _ it) :: r, cur => by
    simp only [viewR, lastSessionFrom]
    split
    · rw [← viewR_lastSessionFrom name r (cur ++ [it])]
      unfold finalView
      rw [foldl_applyItem_snoc]
    · exact viewR_lastSessionFrom name r cur
  | .step (.subscribe _ _ _) :: r, cur => by
    simp only [viewR, lastSessionFrom]; exact viewR_lastSessionFrom name r cur
  | .reset n _ :: r, cur => by
    simp only [viewR, lastSessionFrom]
    split
    · exact viewR_lastSessionFrom name r []
    · exact viewR_lastSessionFrom name r cur
  | .connectError _ _ _ :: r, cur => by
    simp only [viewR, lastSessionFrom]; exact viewR_lastSessionFrom name r cur

/-- the target's view at the end of a run from the start of the collector: `finalView` of what it
streamed in its last session -/
theorem viewR_lastSession (name : String) (steps : List StepR) :
    viewR name [] steps = finalView (lastSession name steps) :=
  viewR_lastSessionFrom name steps []

theorem wellFormed_snoc (strict : Bool) (cur : List TItem) (it : TItem) :
    wellFormed strict (cur ++ [it]) = (wellFormed strict cur && itemOK strict (finalView cur) it) := by
  unfold wellFormed finalView
  rw [C01.wellFormedFrom_append]
  simp [wellFormedFrom]

/-- **`wellFormedR` says: every session is well formed** (generalised over the session under way) -/
theorem wellFormedR_sessionsFrom (strict : Bool) (name : String) : ∀ (steps : List StepR) (cur : List TItem),
    wellFormed strict cur = true →
    (wellFormedR strict name (finalView cur) steps = true ↔
      ∀ sess ∈ sessionsFrom name cur steps, wellFormed strict sess = true)
  | [], cur, hc => by simp [wellFormedR, sessionsFrom, hc]
  | .step (.recv n _ _ it) :: r, cur, hc => by
    simp only [wellFormedR, sessionsFrom]
    split
    · by_cases hok : itemOK strict (finalView cur) it = true
      · have hc' : wellFormed strict (cur ++ [it]) = true := by rw [wellFormed_snoc, hc, hok]; rfl
        have ih := wellFormedR_sessionsFrom strict name r (cur ++ [it]) hc'
        have hv : finalView (cur ++ [it]) = applyItem (finalView cur) it := foldl_applyItem_snoc [] cur it
        rw [hv] at ih
        simp only [hok, Bool.true_and]
        exact ih
      · simp only [hok, Bool.false_and, Bool.false_eq_true, false_iff]
        intro hall
        -- the session that starts with `cur ++ [it]` is one of the sessions; it is not well formed
        have : ∀ (steps : List StepR) (c : List TItem), ∃ rest, (c ++ rest) ∈ sessionsFrom name c steps := by
          intro steps
          induction steps with
          | nil => intro c; exact ⟨[], by simp [sessionsFrom]⟩
          | cons st r ih =>
            intro c
            cases st with
            | step st0 =>
              cases st0 with
              | recv n' f' now' it' =>
                simp only [sessionsFrom]
                split
                · obtain ⟨rest, hr⟩ := ih (c ++ [it'])
                  exact ⟨it' :: rest, by simpa using hr⟩
                · exact ih c
              | subscribe _ _ _ => simp only [sessionsFrom]; exact ih c
            | reset n' now' =>
              simp only [sessionsFrom]
              split
              · exact ⟨[], by simp⟩
              · exact ih c
            | connectError _ _ _ => simp only [sessionsFrom]; exact ih c
        obtain ⟨rest, hr⟩ := this r (cur ++ [it])
        have hw := hall _ hr
        unfold wellFormed at hw
        rw [C01.wellFormedFrom_append, Bool.and_eq_true] at hw
        have := hw.1
        rw [show wellFormedFrom strict [] (cur ++ [it]) = wellFormed strict (cur ++ [it]) from rfl,
          wellFormed_snoc, Bool.and_eq_true] at this
        exact hok this.2
    · exact wellFormedR_sessionsFrom strict name r cur hc
  | .step (.subscribe _ _ _) :: r, cur, hc => by
    simp only [wellFormedR, sessionsFrom]; exact wellFormedR_sessionsFrom strict name r cur hc
  | .reset n _ :: r, cur, hc => by
    simp only [wellFormedR, sessionsFrom]
    split
    · have ih := wellFormedR_sessionsFrom strict name r [] rfl
      simp only [List.mem_cons, forall_eq_or_imp, hc, true_and]
      exact ih
    · exact wellFormedR_sessionsFrom strict name r cur hc
  | .connectError _ _ _ :: r, cur, hc => by
    simp only [wellFormedR, sessionsFrom]; exact wellFormedR_sessionsFrom strict name r cur hc

theorem wellFormedR_sessions (strict : Bool) (name : String) (steps : List StepR) :
    wellFormedR strict name [] steps = true ↔ ∀ sess ∈ sessionsOf name steps, wellFormed strict sess = true :=
  wellFormedR_sessionsFrom strict name steps [] rfl

theorem lastSessionFrom_mem (name : String) : ∀ (steps : List StepR) (cur : List TItem),
    lastSessionFrom name cur steps ∈ sessionsFrom name cur steps
  | [], cur => by simp [lastSessionFrom, sessionsFrom]
  | .step (.recv n _ _ it) :: r, cur => by
    simp only [lastSessionFrom, sessionsFrom]; exact lastSessionFrom_mem name r _
  | .step (.subscribe _ _ _) :: r, cur => by
    simp only [lastSessionFrom, sessionsFrom]; exact lastSessionFrom_mem name r _
  | .reset n _ :: r, cur => by
    simp only [lastSessionFrom, sessionsFrom]
    split
    · exact List.mem_cons_of_mem _ (lastSessionFrom_mem name r [])
    · exact lastSessionFrom_mem name r cur
  | .connectError _ _ _ :: r, cur => by
    simp only [lastSessionFrom, sessionsFrom]; exact lastSessionFrom_mem name r _

/-- the last session is one of the sessions -/
theorem lastSession_mem (name : String) (steps : List StepR) : lastSession name steps ∈ sessionsOf name steps :=
  lastSessionFrom_mem name steps []

/-- every update of the last session is an update of the run -/
theorem lastSessionFrom_sub (name : String) : ∀ (steps : List StepR) (cur : List TItem) (it : TItem),
    it ∈ lastSessionFrom name cur steps → it ∈ cur ∨ it ∈ allItemsR name steps
  | [], cur, it, h => Or.inl h
  | .step (.recv n _ _ it') :: r, cur, it, h => by
    simp only [lastSessionFrom] at h
    simp only [allItemsR]
    split at h
    · rcases lastSessionFrom_sub name r _ it h with h1 | h1
      · rcases List.mem_append.1 h1 with h2 | h2
        · exact Or.inl h2
        · simp only [List.mem_singleton] at h2
          subst h2
          rename_i e
          exact Or.inr (by simp [e])
      · rename_i e
        exact Or.inr (by simp [e, h1])
    · rename_i e
      rcases lastSessionFrom_sub name r _ it h with h1 | h1
      · exact Or.inl h1
      · exact Or.inr (by simp [e, h1])
  | .step (.subscribe _ _ _) :: r, cur, it, h => by
    simp only [lastSessionFrom] at h; simp only [allItemsR]; exact lastSessionFrom_sub name r cur it h
  | .reset n _ :: r, cur, it, h => by
    simp only [lastSessionFrom] at h
    simp only [allItemsR]
    split at h
    · rcases lastSessionFrom_sub name r [] it h with h1 | h1
      · cases h1
      · exact Or.inr h1
    · exact lastSessionFrom_sub name r cur it h
  | .connectError _ _ _ :: r, cur, it, h => by
    simp only [lastSessionFrom] at h; simp only [allItemsR]; exact lastSessionFrom_sub name r cur it h

/-! ### runs without restarts are the old runs -/

theorem viewR_lift (name : String) : ∀ (steps : List Step) (v : View),
    viewR name v (steps.map StepR.step) = (itemsOf name steps).foldl applyItem v
  | [], _ => rfl
  | .recv n _ _ it :: r, v => by
    simp only [List.map_cons, viewR, itemsOf]
    split
    · simp only [List.foldl_cons]; exact viewR_lift name r _
    · exact viewR_lift name r v
  | .subscribe _ _ _ :: r, v => by simp only [List.map_cons, viewR, itemsOf]; exact viewR_lift name r v

theorem lastSessionFrom_lift (name : String) : ∀ (steps : List Step) (cur : List TItem),
    lastSessionFrom name cur (steps.map StepR.step) = cur ++ itemsOf name steps
  | [], cur => by simp [lastSessionFrom, itemsOf]
  | .recv n _ _ it :: r, cur => by
    simp only [List.map_cons, lastSessionFrom, itemsOf]
    split
    · rw [lastSessionFrom_lift name r]; simp
    · exact lastSessionFrom_lift name r cur
  | .subscribe _ _ _ :: r, cur => by
    simp only [List.map_cons, lastSessionFrom, itemsOf]; exact lastSessionFrom_lift name r cur

/-- without restarts the last session is the whole stream (`Relay.itemsOf`) -/
theorem lastSession_lift (name : String) (steps : List Step) :
    lastSession name (steps.map StepR.step) = itemsOf name steps := by
  unfold lastSession
  rw [lastSessionFrom_lift]; rfl

theorem sessionsFrom_lift (name : String) : ∀ (steps : List Step) (cur : List TItem),
    sessionsFrom name cur (steps.map StepR.step) = [cur ++ itemsOf name steps]
  | [], cur => by simp [sessionsFrom, itemsOf]
  | .recv n _ _ it :: r, cur => by
    simp only [List.map_cons, sessionsFrom, itemsOf]
    split
    · rw [sessionsFrom_lift name r]; simp
    · exact sessionsFrom_lift name r cur
  | .subscribe _ _ _ :: r, cur => by
    simp only [List.map_cons, sessionsFrom, itemsOf]; exact sessionsFrom_lift name r cur

theorem sessionsOf_lift (name : String) (steps : List Step) :
    sessionsOf name (steps.map StepR.step) = [itemsOf name steps] := by
  unfold sessionsOf
  rw [sessionsFrom_lift]; rfl

end Relay

/-! ### the STREAM side: restarts are `C04Seq` history steps -/

namespace C01S
open Cache Pipeline Relay SubStream

theorem plm_pg {T : String} {nd : Noti} (hT : T ≠ "") (h : PLm T nd) : PG nd := PL.pg hT h

theorem eventsP_reset (enc : String → String) (now : Int) (c : Cache.State) (name : String)
    (hi : Cache.SInv c) (hgood : ∀ t, c.get name = some t → Good name t) :
    EventsP PG Dne (c.step enc (.reset name now)).2.2 := by
  show EventsP PG Dne (c.reset enc name now).2
  apply onTarget_eventsP
  intro t hg
  obtain ⟨h1, h2, h3⟩ := hi name t hg
  obtain ⟨_, _, _, _, r5⟩ := reset_relay c.cfg enc now name h3 t h1 h2 (hgood t hg)
  constructor
  · intro n hn
    rcases r5 _ hn with ⟨nd, e, hp⟩ | ⟨root, e⟩
    · cases e; exact plm_pg h3 hp
    · cases e
  · intro t' o p ts hn
    rcases r5 _ hn with ⟨nd, e, _⟩ | ⟨root, e⟩
    · cases e
    · cases e; exact h3

theorem eventsP_connectError (enc : String → String) (now : Int) (c : Cache.State) (name msg : String)
    (hi : Cache.SInv c) (hc : CacheOK c) : EventsP PG Dne (c.step enc (.connectError name msg now)).2.2 := by
  show EventsP PG Dne (c.connectError enc name msg now).2
  apply onTarget_eventsP
  intro t hg
  obtain ⟨h1, h2, h3⟩ := hi name t hg
  have hcl := Feed.metaNoti_clean enc name "connectError" (.str msg) now (by decide)
  exact eventsP_gnmiUpdate (cfg := c.cfg) (now := now) h3 h1 h2 (hc.gt name t hg)
    (n := metaNoti enc name "connectError" (.str msg) now) rfl rfl hcl
    (by intro u hu; simp only [metaNoti, List.mem_singleton] at hu; subst hu; rfl)

theorem sys_reset {names : List String} {U : String → List Upd} {s : Sys} {vw : String → View}
    (enc : String → String) (hne : ∀ x ∈ names, x ≠ "") (hh : Holds3 names U s vw) (i : Inv2 names s)
    (now : Int) (name : String) (id : String) (R : Sub.Req) :
    Tr4 names id R s (s.reset enc now name) := by
  have hh' := (hh.reset enc now name).h.toHolds
  rw [reset_eq_hstep enc now s name hh.h.alive] at hh' ⊢
  refine sys_ca enc (.reset name now) hne i trivial trivial (fun nm e => by cases e) trivial
    (eventsP_reset enc now s.sub.cache name i.h.sinv ?_) hh' id R
  intro t hg
  have hmem : name ∈ names := i.tin name (by rw [hg]; rfl)
  obtain ⟨t', g1, _, _, g4, _⟩ := hh.h.each name hmem
  rw [hg] at g1; cases g1
  exact g4

theorem sys_connectError {names : List String} {U : String → List Upd} {s : Sys} {vw : String → View}
    (enc : String → String) (hne : ∀ x ∈ names, x ≠ "") (hh : Holds3 names U s vw) (i : Inv2 names s)
    (now : Int) (name msg : String) (id : String) (R : Sub.Req) :
    Tr4 names id R s (s.connectError enc now name msg) := by
  have hh' := (hh.connectError enc now name msg).h.toHolds
  rw [connectError_eq_hstep enc now s name msg hh.h.alive] at hh' ⊢
  exact sys_ca enc (.connectError name msg now) hne i trivial trivial (fun nm e => by cases e) trivial
    (eventsP_connectError enc now s.sub.cache name msg i.h.sinv i.h.cok) hh' id R

/-- the side condition on the ids of the other subscribers of a run with restarts -/
def idOKR (id : String) : StepR → Prop
  | .step st => idOK id st
  | _ => True

theorem sys_stepR {names : List String} {U : String → List Upd} {s : Sys} {vw : String → View}
    (enc : String → String) (hne : ∀ x ∈ names, x ≠ "") (hraw : ∀ name ∈ names, RawOK (U name)) (strict : Bool)
    (hh : Holds3 names U s vw) (i : Inv2 names s) (st : StepR) (hst : StepOK names U strict vw st)
    (id : String) (R : Sub.Req) (hid : idOKR id st) :
    Tr4 names id R s (s.stepR enc st) := by
  cases st with
  | step st0 =>
    cases st0 with
    | recv name first now it =>
      obtain ⟨hmem, hok, hU⟩ := hst
      have hn := hne name hmem
      simp only [Sys.stepR, Sys.step, Sys.recv]
      cases first with
      | false => exact sys_deliver_nd enc hne hh.h i now name hn hmem it (hraw name hmem) hU strict hok id R
      | true =>
        have t1 := sys_connect enc hne hh.h.toHolds i now name hn id R
        have t2 := sys_deliver_nd enc hne (hh.h.connect enc now name hn) t1.1 now name hn hmem it (hraw name hmem)
          hU strict hok id R
        exact t1.trans t2
    | subscribe id' target queries =>
      exact sys_subscribe enc hne hh.h.toHolds i id' target queries id R hid
  | reset name now => exact sys_reset enc hne hh i now name id R
  | connectError name msg now => exact sys_connectError enc hne hh i now name msg id R

/-- a collector run with restarts is a `C04Seq` history: its invariant and the subscriber with a
given id are carried across every step, `Reset` included -/
theorem run_tr4_R {names : List String} {U : String → List Upd} (enc : String → String)
    (hne : ∀ x ∈ names, x ≠ "") (hraw : ∀ name ∈ names, RawOK (U name)) (strict : Bool) (id : String)
    (R : Sub.Req) :
    ∀ (steps : List StepR) (s : Sys) (vw : String → View), Holds3 names U s vw → Inv2 names s →
      (∀ x ∈ sendersR steps, x ∈ names) →
      (∀ name ∈ names, wellFormedR strict name (vw name) steps = true) →
      (∀ name ∈ names, ∀ u ∈ C01.updatesOf (allItemsR name steps), u ∈ U name) →
      (∀ st ∈ steps, idOKR id st) →
      Tr4 names id R s (s.runR enc steps)
  | [], s, vw, _, i, _, _, _, _ => by simpa [Sys.runR] using Tr4.refl i
  | st :: r, s, vw, h, i, hs, hwf, hU, hid => by
    have hok := stepOK_head hs hwf hU
    have hst := h.stepR enc hne hraw strict st hok
    have htr := sys_stepR enc hne hraw strict h i st hok id R (hid st (List.mem_cons_self ..))
    have ih := run_tr4_R enc hne hraw strict id R r _ _ hst htr.1 (fun x hx => hs x (sendersR_tail hx))
      (fun nm hnm => stepView_wellFormedR strict vw st r nm (hwf nm hnm))
      (fun nm hnm u hu => hU nm hnm u (updatesOf_allItemsR_cons hu))
      (fun st' hst' => hid st' (List.mem_cons_of_mem _ hst'))
    have hrun : s.runR enc (st :: r) = (s.stepR enc st).runR enc r := by simp [Sys.runR]
    rw [hrun]
    exact htr.trans ih

theorem sys_runR_append (enc : String → String) (s : Sys) (a b : List StepR) :
    s.runR enc (a ++ b) = (s.runR enc a).runR enc b := by
  unfold Sys.runR
  rw [List.foldl_append]

end C01S
end Gnmi
