import Gnmi.Lemmas.SubscribeGate
import Gnmi.Lemmas.SubscribePoll
/-!
# Sync placement in the sequential Subscribe model (`Model/Subscribe.lean`)

Per-subscriber lemmas behind `Props/C04Sync.lean`; none of them assumes `updatesOnly = false`.

* **counting** (`syncs`): the number of sync markers among what a subscriber was sent (`out`), the
  response held inside a gated `Send` (`blocked`) and its queue is left unchanged by the sender
  (`pump`, any fuel, any gate), by every event offered (`enqueueEvent`: coalescing, freezing),
  by `refreshQueue` and by the flow-control operations.
* **position** (`SyncFirst`): "the first thing sent / held / queued is the sync marker" is kept by
  the same functions.
* **shadow** (`shadow pfx s`): the subscriber that differs from `s` only in having asked for the
  snapshot (`updatesOnly := false`) and having been sent `pfx` before everything `s` was sent.  Every
  per-subscriber function of the model commutes with `shadow`, so an `updates_only` subscriber is
  followed through a history by the `C04Gate` invariant of its shadow.
* `subscribe_shape`: what `Sub.subscribe` appends, for any `pregated`.
* `replayR` depends only on the suffix from the last response that touches a key.
-/
namespace Gnmi
namespace SubSync
open Cache Gnmi.Sub Feed SubStream SubGate

/-! ## counting sync markers -/

/-- 1 for the sync marker -/
def one (r : Resp) : Nat := if r = Resp.sync then 1 else 0

/-- number of sync markers in a list of responses -/
def nsync : List Resp → Nat
  | [] => 0
  | r :: l => one r + nsync l

theorem nsync_eq_count : ∀ (l : List Resp), nsync l = l.count Resp.sync
  | [] => rfl
  | r :: l => by
    rw [nsync, nsync_eq_count l, List.count_cons]
    unfold one
    by_cases h : r = Resp.sync
    · simp [h]; omega
    · simp [h]

theorem nsync_append : ∀ (a b : List Resp), nsync (a ++ b) = nsync a + nsync b
  | [], b => by simp [nsync]
  | r :: a, b => by
    show one r + nsync (a ++ b) = one r + nsync a + nsync b
    rw [nsync_append a b]; omega

/-- sync markers in a queue (as the sender would convert it) -/
def nsyncQ (q : List (Item × Nat)) : Nat := nsync (q.map toResp)

theorem nsyncQ_append (a b : List (Item × Nat)) : nsyncQ (a ++ b) = nsyncQ a + nsyncQ b := by
  unfold nsyncQ; rw [List.map_append, nsync_append]

theorem nsyncQ_cons (x : Item × Nat) (q : List (Item × Nat)) : nsyncQ (x :: q) = one (toResp x) + nsyncQ q := rfl

theorem nsyncQ_map_congr (f : Item × Nat → Item × Nat) : ∀ (q : List (Item × Nat)),
    (∀ x ∈ q, one (toResp (f x)) = one (toResp x)) → nsyncQ (q.map f) = nsyncQ q
  | [], _ => rfl
  | x :: q, h => by
    rw [List.map_cons, nsyncQ_cons, nsyncQ_cons, h x (List.mem_cons_self ..),
      nsyncQ_map_congr f q (fun y hy => h y (List.mem_cons_of_mem _ hy))]

/-- sync markers sent to, held for and queued for a subscriber -/
def syncs (s : Subscriber) : Nat :=
  nsync (s.out.map (·.1)) + nsync s.blocked.toList + nsyncQ s.queue

theorem syncs_eq_count (s : Subscriber) :
    syncs s = (s.out.map (·.1) ++ s.blocked.toList ++ s.queue.map toResp).count Resp.sync := by
  rw [← nsync_eq_count, nsync_append, nsync_append]
  rfl

theorem one_upd (n : Noti) (d : Nat) : one (Resp.upd n d) = 0 := by simp [one]
theorem one_del (t o : String) (p : Path) (ts : Int) (d : Nat) : one (Resp.del t o p ts d) = 0 := by simp [one]
theorem one_sync : one Resp.sync = 1 := by simp [one]

theorem one_denied {a : Acl} {r : Resp} (h : denied a r = true) : one r = 0 := by
  cases r with
  | upd n d => exact one_upd n d
  | del t o p ts d => exact one_del ..
  | sync => cases h

theorem one_handle (t : String) (k : Path) (n : Noti) (d : Nat) : one (toResp (Item.handle t k n, d)) = 0 :=
  one_upd n d

theorem nsyncQ_insertHandle (q : List (Item × Nat)) (t : String) (k : Path) (n : Noti) :
    nsyncQ (insertHandle q t k n) = nsyncQ q := by
  unfold insertHandle
  simp only
  split
  · conv => rhs; rw [← List.take_append_drop (lastCover q t k) q]
    rw [nsyncQ_append, nsyncQ_append, nsyncQ_map_congr]
    intro x _
    split
    · rename_i hh
      obtain ⟨m, hm⟩ := isHandleFor_elim hh
      obtain ⟨it, d⟩ := x
      simp only at hm
      subst hm
      rw [one_handle, one_handle]
    · rfl
  · rw [nsyncQ_append, nsyncQ_cons, one_handle]
    rfl

theorem nsyncQ_freeze (e : Event) (q : List (Item × Nat)) : nsyncQ (freezeCovered e q) = nsyncQ q := by
  rw [freezeCovered_eq]
  apply nsyncQ_map_congr
  intro x _
  rw [toResp_frz]

/-- `refreshQueue` re-reads handles in place -/
theorem refreshQueue_cons (c : Cache.State) (it : Item) (d : Nat) (rest : List (Item × Nat)) :
    ∃ it', refreshQueue c ((it, d) :: rest) = (it', d) :: refreshQueue c rest ∧
      ((∃ t k n n', it = Item.handle t k n ∧ it' = Item.handle t k n') ∨ it' = it) := by
  cases it with
  | handle t k last =>
    refine ⟨_, rfl, ?_⟩
    simp only
    split
    · exact Or.inr rfl
    · split
      · exact Or.inl ⟨t, k, last, _, rfl, rfl⟩
      · exact Or.inr rfl
  | detached t k n => exact ⟨_, rfl, Or.inr rfl⟩
  | note e => exact ⟨_, rfl, Or.inr rfl⟩
  | sync => exact ⟨_, rfl, Or.inr rfl⟩

theorem nsyncQ_refresh (c : Cache.State) : ∀ (q : List (Item × Nat)), nsyncQ (refreshQueue c q) = nsyncQ q
  | [] => rfl
  | (it, d) :: rest => by
    obtain ⟨it', he, hc⟩ := refreshQueue_cons c it d rest
    rw [he, nsyncQ_cons, nsyncQ_cons, nsyncQ_refresh c rest]
    rcases hc with ⟨t, k, n, n', rfl, rfl⟩ | rfl
    · rw [one_handle, one_handle]
    · rfl

theorem syncs_queue (s : Subscriber) (q : List (Item × Nat)) (h : nsyncQ q = nsyncQ s.queue) :
    syncs { s with queue := q } = syncs s := by
  unfold syncs
  simp only
  rw [h]

theorem enqueue_syncs (s : Subscriber) (e : Event) :
    syncs (enqueueEvent { s with queue := freezeCovered e s.queue } e) = syncs s := by
  have h0 : syncs { s with queue := freezeCovered e s.queue } = syncs s := syncs_queue s _ (nsyncQ_freeze e s.queue)
  unfold enqueueEvent
  split
  · exact h0
  · cases e with
    | upd n =>
      simp only
      rw [← h0]
      exact syncs_queue { s with queue := freezeCovered (.upd n) s.queue } _ (nsyncQ_insertHandle ..)
    | del t o p ts =>
      simp only
      rw [← h0]
      apply syncs_queue { s with queue := freezeCovered (.del t o p ts) s.queue }
      rw [nsyncQ_append, nsyncQ_cons]
      show nsyncQ _ + (one (Resp.del t o p ts 0) + 0) = _
      rw [one_del]
      rfl

theorem enqueue_fold_syncs (evs : List Event) : ∀ (s : Subscriber),
    syncs (evs.foldl (fun s e => enqueueEvent { s with queue := freezeCovered e s.queue } e) s) = syncs s := by
  induction evs with
  | nil => intro s; rfl
  | cons e evs ih =>
    intro s
    simp only [List.foldl_cons]
    rw [ih, enqueue_syncs]

/-- **the sender neither loses nor duplicates a sync marker**: whatever the gate, the ACL and the
fuel, a dequeued item goes to `out` or `blocked`, or is dropped by the per-response ACL check — and
that check never drops the marker -/
theorem pump_syncs : ∀ (fuel : Nat) (s : Subscriber), syncs (pump fuel s) = syncs s
  | 0, _ => rfl
  | fuel + 1, s => by
    obtain ⟨id, req, acl, regs, alive, status, gs, gsd, blocked, queue, closed, out⟩ := s
    cases alive with
    | false => simp [pump]
    | true =>
      cases blocked with
      | some r => simp [pump]
      | none =>
        cases queue with
        | nil => cases closed <;> simp [pump, syncs]
        | cons x rest =>
          by_cases hdx : denied acl (toResp x) = true
          · have hstep : pump (fuel + 1) (Subscriber.mk id req acl regs true status gs gsd none (x :: rest) closed out) =
                pump fuel (Subscriber.mk id req acl regs true status gs gsd none rest closed out) := by
              simp [pump, hdx]
            rw [hstep, pump_syncs fuel]
            simp only [syncs, nsyncQ_cons, one_denied hdx]
            omega
          · have hdx' : denied acl (toResp x) = false := by simpa using hdx
            cases gs with
            | true =>
              have hstep : pump (fuel + 1) (Subscriber.mk id req acl regs true status true gsd none (x :: rest) closed out) =
                  Subscriber.mk id req acl regs true status true gsd (some (toResp x)) rest closed out := by
                simp [pump, hdx']
              rw [hstep]
              simp only [syncs, nsyncQ_cons, Option.toList, nsync]
              omega
            | false =>
              by_cases htd : (isTargetDelete (toResp x) && req.target != "*") = true
              · have hstep : pump (fuel + 1) (Subscriber.mk id req acl regs true status false gsd none (x :: rest) closed out) =
                    Subscriber.mk id req acl regs false (some .ok) false gsd none rest closed (out ++ [(toResp x, gsd)]) := by
                  simp [pump, hdx', htd]
                rw [hstep]
                simp only [syncs, nsyncQ_cons, Option.toList, nsync, List.map_append, nsync_append, List.map_cons,
                  List.map_nil]
                omega
              · have hstep : pump (fuel + 1) (Subscriber.mk id req acl regs true status false gsd none (x :: rest) closed out) =
                    pump fuel (Subscriber.mk id req acl regs true status false gsd none rest closed (out ++ [(toResp x, gsd)])) := by
                  simp [pump, hdx', htd]
                rw [hstep, pump_syncs fuel]
                simp only [syncs, nsyncQ_cons, Option.toList, nsync, List.map_append, nsync_append, List.map_cons,
                  List.map_nil]
                omega

theorem pumpAll_syncs (s : Subscriber) : syncs (pumpAll s) = syncs s := pump_syncs _ s

theorem feedSub_syncs (c' : Cache.State) (evs : List Event) (s : Subscriber) : syncs (feedSub c' evs s) = syncs s := by
  unfold feedSub
  simp only
  rw [pumpAll_syncs, syncs_queue _ _ (nsyncQ_refresh c' _), enqueue_fold_syncs]

/-- the held response goes out -/
theorem syncs_release (s : Subscriber) (r : Resp) (hb : s.blocked = some r) (gs : Bool) (f : Bool) (a : Bool)
    (st : Option Code) :
    syncs { s with gateShut := gs, blocked := none, out := s.out ++ [(r, f)], alive := a, status := st } = syncs s := by
  unfold syncs
  simp only [hb, List.map_append, nsync_append, List.map_cons, List.map_nil, Option.toList, nsync]
  omega

theorem gateF_syncs (shut : Bool) (s : Subscriber) : syncs (gateF shut s) = syncs s := by
  obtain ⟨id, req, acl, regs, alive, status, gateShut, gsd, blocked, queue, closed, out⟩ := s
  cases shut with
  | true => rfl
  | false =>
    cases blocked with
    | none =>
      simp only [gateF, Bool.false_eq_true, if_false]
      rw [pumpAll_syncs]
      rfl
    | some r =>
      simp only [gateF, Bool.false_eq_true, if_false]
      rw [pumpAll_syncs]
      split
      · exact syncs_release (Subscriber.mk id req acl regs alive status gateShut gsd (some r) queue closed out) r rfl
          false gsd false (some .ok)
      · exact syncs_release (Subscriber.mk id req acl regs alive status gateShut gsd (some r) queue closed out) r rfl
          false gsd alive status

theorem stepF_syncs (s : Subscriber) : syncs (stepF s) = syncs s := by
  obtain ⟨id, req, acl, regs, alive, status, gateShut, gsd, blocked, queue, closed, out⟩ := s
  cases gateShut with
  | false => rfl
  | true =>
    cases blocked with
    | none => rfl
    | some r =>
      simp only [stepF, if_true]
      split
      · exact syncs_release (Subscriber.mk id req acl regs alive status true gsd (some r) queue closed out) r rfl
          true gsd false (some .ok)
      · rw [pumpAll_syncs]
        exact syncs_release (Subscriber.mk id req acl regs alive status true gsd (some r) queue closed out) r rfl
          true gsd alive status

/-! ## the sender only appends to `out` -/

theorem pump_out_append : ∀ (fuel : Nat) (s : Subscriber), ∃ extra, (pump fuel s).out = s.out ++ extra
  | 0, s => ⟨[], by simp [pump]⟩
  | fuel + 1, s => by
    obtain ⟨id, req, acl, regs, alive, status, gs, gsd, blocked, queue, closed, out⟩ := s
    cases alive with
    | false => exact ⟨[], by simp [pump]⟩
    | true =>
      cases blocked with
      | some r => exact ⟨[], by simp [pump]⟩
      | none =>
        cases queue with
        | nil => cases closed <;> exact ⟨[], by simp [pump]⟩
        | cons x rest =>
          by_cases hdx : denied acl (toResp x) = true
          · have hstep : pump (fuel + 1) (Subscriber.mk id req acl regs true status gs gsd none (x :: rest) closed out) =
                pump fuel (Subscriber.mk id req acl regs true status gs gsd none rest closed out) := by
              simp [pump, hdx]
            rw [hstep]
            exact pump_out_append fuel _
          · have hdx' : denied acl (toResp x) = false := by simpa using hdx
            cases gs with
            | true => exact ⟨[], by simp [pump, hdx']⟩
            | false =>
              by_cases htd : (isTargetDelete (toResp x) && req.target != "*") = true
              · exact ⟨[(toResp x, gsd)], by simp [pump, hdx', htd]⟩
              · have hstep : pump (fuel + 1) (Subscriber.mk id req acl regs true status false gsd none (x :: rest) closed out) =
                    pump fuel (Subscriber.mk id req acl regs true status false gsd none rest closed (out ++ [(toResp x, gsd)])) := by
                  simp [pump, hdx', htd]
                rw [hstep]
                obtain ⟨extra, he⟩ := pump_out_append fuel
                  (Subscriber.mk id req acl regs true status false gsd none rest closed (out ++ [(toResp x, gsd)]))
                exact ⟨(toResp x, gsd) :: extra, by rw [he]; simp⟩

/-! ## the sync marker first -/

/-- the queue starts with the sync marker -/
def SyncHead (q : List (Item × Nat)) : Prop := ∃ d rest, q = (Item.sync, d) :: rest

/-- the first response sent is the sync marker; or nothing was sent and the marker is the response
held in a gated `Send`; or nothing was sent, nothing is held and the marker is at the head of the queue -/
def SyncFirst (s : Subscriber) : Prop :=
  (∃ f rest, s.out = (Resp.sync, f) :: rest) ∨ (s.out = [] ∧ s.blocked = some Resp.sync) ∨
  (s.out = [] ∧ s.blocked = none ∧ SyncHead s.queue)

theorem insertHandle_syncHead {q : List (Item × Nat)} (t : String) (k : Path) (n : Noti) (h : SyncHead q) :
    SyncHead (insertHandle q t k n) := by
  obtain ⟨d, rest, rfl⟩ := h
  unfold insertHandle
  simp only
  split
  · generalize lastCover ((Item.sync, d) :: rest) t k = c
    cases c with
    | zero =>
      simp only [List.take_zero, List.drop_zero, List.nil_append, List.map_cons]
      exact ⟨d, _, rfl⟩
    | succ c =>
      simp only [List.take_succ_cons, List.cons_append]
      exact ⟨d, _, rfl⟩
  · exact ⟨d, _, rfl⟩

theorem freeze_syncHead {q : List (Item × Nat)} (e : Event) (h : SyncHead q) : SyncHead (freezeCovered e q) := by
  obtain ⟨d, rest, rfl⟩ := h
  exact ⟨d, freezeCovered e rest, rfl⟩

theorem refresh_syncHead {q : List (Item × Nat)} (c : Cache.State) (h : SyncHead q) : SyncHead (refreshQueue c q) := by
  obtain ⟨d, rest, rfl⟩ := h
  exact ⟨d, refreshQueue c rest, rfl⟩

theorem syncFirst_queue (s : Subscriber) (q : List (Item × Nat)) (h : SyncHead s.queue → SyncHead q)
    (hs : SyncFirst s) : SyncFirst { s with queue := q } := by
  rcases hs with h1 | h2 | ⟨ho, hb, hq⟩
  · exact Or.inl h1
  · exact Or.inr (Or.inl h2)
  · exact Or.inr (Or.inr ⟨ho, hb, h hq⟩)

theorem enqueue_syncFirst (s : Subscriber) (e : Event) (hs : SyncFirst s) :
    SyncFirst (enqueueEvent { s with queue := freezeCovered e s.queue } e) := by
  have h0 : SyncFirst { s with queue := freezeCovered e s.queue } := syncFirst_queue s _ (freeze_syncHead e) hs
  unfold enqueueEvent
  split
  · exact h0
  · cases e with
    | upd n =>
      exact syncFirst_queue { s with queue := freezeCovered (.upd n) s.queue } _
        (fun h => insertHandle_syncHead _ _ _ h) h0
    | del t o p ts =>
      refine syncFirst_queue { s with queue := freezeCovered (.del t o p ts) s.queue } _ ?_ h0
      rintro ⟨d, rest, hq⟩
      exact ⟨d, rest ++ [(Item.note (.del t o p ts), 0)], by simp only at hq ⊢; rw [hq]; rfl⟩

theorem enqueue_fold_syncFirst (evs : List Event) : ∀ (s : Subscriber), SyncFirst s →
    SyncFirst (evs.foldl (fun s e => enqueueEvent { s with queue := freezeCovered e s.queue } e) s) := by
  induction evs with
  | nil => intro s h; exact h
  | cons e evs ih =>
    intro s h
    simp only [List.foldl_cons]
    exact ih _ (enqueue_syncFirst s e h)

/-- **the sender keeps the marker first**: it dequeues in order, the per-response ACL check never
drops the marker, and `out` only grows at its end -/
theorem pump_syncFirst : ∀ (fuel : Nat) (s : Subscriber), SyncFirst s → SyncFirst (pump fuel s)
  | 0, _, h => h
  | fuel + 1, s, h => by
    rcases h with ⟨f, rest, ho⟩ | ⟨ho, hb⟩ | ⟨ho, hb, d, rest, hq⟩
    · obtain ⟨extra, he⟩ := pump_out_append (fuel + 1) s
      exact Or.inl ⟨f, rest ++ extra, by rw [he, ho]; rfl⟩
    · have : pump (fuel + 1) s = s := by unfold pump; simp [hb]
      rw [this]
      exact Or.inr (Or.inl ⟨ho, hb⟩)
    · obtain ⟨id, req, acl, regs, alive, status, gs, gsd, blocked, queue, closed, out⟩ := s
      simp only at ho hb hq
      subst ho hb hq
      cases alive with
      | false =>
        have : pump (fuel + 1) (Subscriber.mk id req acl regs false status gs gsd none ((Item.sync, d) :: rest) closed []) =
            Subscriber.mk id req acl regs false status gs gsd none ((Item.sync, d) :: rest) closed [] := by simp [pump]
        rw [this]
        exact Or.inr (Or.inr ⟨rfl, rfl, d, rest, rfl⟩)
      | true =>
        cases gs with
        | true =>
          have : pump (fuel + 1) (Subscriber.mk id req acl regs true status true gsd none ((Item.sync, d) :: rest) closed []) =
              Subscriber.mk id req acl regs true status true gsd (some Resp.sync) rest closed [] := by
            simp [pump, denied, toResp, respTarget]
          rw [this]
          exact Or.inr (Or.inl ⟨rfl, rfl⟩)
        | false =>
          have : pump (fuel + 1) (Subscriber.mk id req acl regs true status false gsd none ((Item.sync, d) :: rest) closed []) =
              pump fuel (Subscriber.mk id req acl regs true status false gsd none rest closed [(Resp.sync, gsd)]) := by
            simp [pump, denied, toResp, respTarget, isTargetDelete]
          rw [this]
          obtain ⟨extra, he⟩ := pump_out_append fuel
            (Subscriber.mk id req acl regs true status false gsd none rest closed [(Resp.sync, gsd)])
          exact Or.inl ⟨gsd, extra, he⟩

theorem pumpAll_syncFirst (s : Subscriber) (h : SyncFirst s) : SyncFirst (pumpAll s) := pump_syncFirst _ s h

theorem feedSub_syncFirst (c' : Cache.State) (evs : List Event) (s : Subscriber) (h : SyncFirst s) :
    SyncFirst (feedSub c' evs s) := by
  unfold feedSub
  simp only
  apply pumpAll_syncFirst
  exact syncFirst_queue _ _ (refresh_syncHead c') (enqueue_fold_syncFirst evs s h)

/-- the held response goes out -/
theorem syncFirst_release (s : Subscriber) (r : Resp) (hb : s.blocked = some r) (gs f a : Bool) (st : Option Code)
    (h : SyncFirst s) :
    SyncFirst { s with gateShut := gs, blocked := none, out := s.out ++ [(r, f)], alive := a, status := st } := by
  rcases h with ⟨f', rest, ho⟩ | ⟨ho, hb'⟩ | ⟨_, hb', _⟩
  · exact Or.inl ⟨f', rest ++ [(r, f)], by simp only [ho]; rfl⟩
  · rw [hb] at hb'
    cases hb'
    exact Or.inl ⟨f, [], by simp only [ho]; rfl⟩
  · rw [hb] at hb'; cases hb'

theorem gateF_syncFirst (shut : Bool) (s : Subscriber) (h : SyncFirst s) : SyncFirst (gateF shut s) := by
  obtain ⟨id, req, acl, regs, alive, status, gateShut, gsd, blocked, queue, closed, out⟩ := s
  cases shut with
  | true => exact h
  | false =>
    cases blocked with
    | none =>
      simp only [gateF, Bool.false_eq_true, if_false]
      apply pumpAll_syncFirst
      exact h
    | some r =>
      simp only [gateF, Bool.false_eq_true, if_false]
      apply pumpAll_syncFirst
      split
      · exact syncFirst_release (Subscriber.mk id req acl regs alive status gateShut gsd (some r) queue closed out) r rfl
          false gsd false (some .ok) h
      · exact syncFirst_release (Subscriber.mk id req acl regs alive status gateShut gsd (some r) queue closed out) r rfl
          false gsd alive status h

theorem stepF_syncFirst (s : Subscriber) (h : SyncFirst s) : SyncFirst (stepF s) := by
  obtain ⟨id, req, acl, regs, alive, status, gateShut, gsd, blocked, queue, closed, out⟩ := s
  cases gateShut with
  | false => exact h
  | true =>
    cases blocked with
    | none => exact h
    | some r =>
      simp only [stepF, if_true]
      split
      · exact syncFirst_release (Subscriber.mk id req acl regs alive status true gsd (some r) queue closed out) r rfl
          true gsd false (some .ok) h
      · apply pumpAll_syncFirst
        exact syncFirst_release (Subscriber.mk id req acl regs alive status true gsd (some r) queue closed out) r rfl
          true gsd alive status h

/-! ## what `Sub.subscribe` appends (any `pregated`) -/

/-- `Subscribe` appends one subscriber: a rejected call (dead, nothing sent, default request); a
subscriber of another mode; or an accepted STREAM subscriber — `updates_only`: the sync marker queued, the
registration, the sender; else: the registration, the walk, the marker, the sender -/
theorem subscribe_shape (st : Sub.State) (id : String) (acl : Acl) (req : Option Req) :
    ∃ s, subscribe st id acl req = { st with subs := st.subs ++ [s] } ∧
      ((∃ c, s = { id := id, req := {}, acl := acl, alive := false, status := some c }) ∨
       (∃ r, req = some r ∧ s.req = r ∧ r.mode ≠ .stream) ∨
       (∃ r, req = some r ∧ r.mode = .stream ∧ r.updatesOnly = true ∧ r.target ≠ "" ∧
         st.cache.hasTarget r.target = true ∧
         s = pumpAll { newSubscriber (st.pregated.contains id) id r acl with
                        queue := [(Item.sync, 0)], regs := regQueries r }) ∨
       (∃ r, req = some r ∧ r.mode = .stream ∧ r.updatesOnly = false ∧ r.target ≠ "" ∧
         st.cache.hasTarget r.target = true ∧
         s = pumpAll (doWalk st.cache { newSubscriber (st.pregated.contains id) id r acl with regs := regQueries r }))) := by
  unfold subscribe
  simp only
  split
  · exact ⟨_, rfl, Or.inl ⟨_, rfl⟩⟩
  · split
    · exact ⟨_, rfl, Or.inl ⟨_, rfl⟩⟩
    · rename_i r
      split
      · exact ⟨_, rfl, Or.inl ⟨_, rfl⟩⟩
      · split
        · exact ⟨_, rfl, Or.inl ⟨_, rfl⟩⟩
        · split
          · exact ⟨_, rfl, Or.inl ⟨_, rfl⟩⟩
          · split
            · exact ⟨_, rfl, Or.inl ⟨_, rfl⟩⟩
            · split
              · exact ⟨_, rfl, Or.inl ⟨_, rfl⟩⟩
              · rename_i h1 h2 h3 h4 h5
                split
                · rename_i hm
                  refine ⟨_, rfl, Or.inr (Or.inl ⟨r, rfl, ?_, by rw [hm]; intro h; cases h⟩)⟩
                  rw [pumpAll_req, SubPoll.closeIf_req, doWalk_req]
                  rfl
                · rename_i hm
                  refine ⟨_, rfl, Or.inr (Or.inl ⟨r, rfl, ?_, by rw [hm]; intro h; cases h⟩)⟩
                  rw [pumpAll_req, doWalk_req]
                  rfl
                · rename_i hm
                  by_cases huo : r.updatesOnly = true
                  · refine ⟨_, rfl, Or.inr (Or.inr (Or.inl ⟨r, rfl, hm, huo, h3, by simpa using h4, ?_⟩))⟩
                    simp only [huo, if_true]
                    rfl
                  · have huo' : r.updatesOnly = false := by simpa using huo
                    refine ⟨_, rfl, Or.inr (Or.inr (Or.inr ⟨r, rfl, hm, huo', h3, by simpa using h4, ?_⟩))⟩
                    simp only [huo', Bool.false_eq_true, if_false]
                · exact ⟨_, rfl, Or.inl ⟨_, rfl⟩⟩

/-! ## the shadow of a subscriber: the same subscription with the snapshot -/

/-- the subscriber that differs from `s` in having asked for the snapshot and having been sent `pfx`
before everything `s` was sent -/
def shadow (pfx : List (Resp × Bool)) (s : Subscriber) : Subscriber :=
  { s with req := { s.req with updatesOnly := false }, out := pfx ++ s.out }

theorem pump_shadow (pfx : List (Resp × Bool)) : ∀ (fuel : Nat) (s : Subscriber),
    pump fuel (shadow pfx s) = shadow pfx (pump fuel s)
  | 0, _ => rfl
  | fuel + 1, s => by
    obtain ⟨id, req, acl, regs, alive, status, gs, gsd, blocked, queue, closed, out⟩ := s
    cases alive with
    | false => simp [pump, shadow]
    | true =>
      cases blocked with
      | some r => simp [pump, shadow]
      | none =>
        cases queue with
        | nil => cases closed <;> simp [pump, shadow]
        | cons x rest =>
          by_cases hdx : denied acl (toResp x) = true
          · have h1 : pump (fuel + 1) (shadow pfx (Subscriber.mk id req acl regs true status gs gsd none (x :: rest) closed out)) =
                pump fuel (shadow pfx (Subscriber.mk id req acl regs true status gs gsd none rest closed out)) := by
              simp [pump, shadow, hdx]
            have h2 : pump (fuel + 1) (Subscriber.mk id req acl regs true status gs gsd none (x :: rest) closed out) =
                pump fuel (Subscriber.mk id req acl regs true status gs gsd none rest closed out) := by
              simp [pump, hdx]
            rw [h1, h2, pump_shadow pfx fuel]
          · have hdx' : denied acl (toResp x) = false := by simpa using hdx
            cases gs with
            | true => simp [pump, shadow, hdx']
            | false =>
              by_cases htd : (isTargetDelete (toResp x) && req.target != "*") = true
              · simp [pump, shadow, hdx', htd]
              · have h1 : pump (fuel + 1) (shadow pfx (Subscriber.mk id req acl regs true status false gsd none (x :: rest) closed out)) =
                    pump fuel (shadow pfx (Subscriber.mk id req acl regs true status false gsd none rest closed (out ++ [(toResp x, gsd)]))) := by
                  simp [pump, shadow, hdx', htd]
                have h2 : pump (fuel + 1) (Subscriber.mk id req acl regs true status false gsd none (x :: rest) closed out) =
                    pump fuel (Subscriber.mk id req acl regs true status false gsd none rest closed (out ++ [(toResp x, gsd)])) := by
                  simp [pump, hdx', htd]
                rw [h1, h2, pump_shadow pfx fuel]

theorem pumpAll_shadow (pfx : List (Resp × Bool)) (s : Subscriber) : pumpAll (shadow pfx s) = shadow pfx (pumpAll s) :=
  pump_shadow pfx _ s

theorem enqueue_shadow (pfx : List (Resp × Bool)) (s : Subscriber) (e : Event) :
    enqueueEvent (shadow pfx s) e = shadow pfx (enqueueEvent s e) := by
  unfold enqueueEvent
  by_cases h : (!s.alive || s.closed || !offered s e) = true
  · have h' : (!(shadow pfx s).alive || (shadow pfx s).closed || !offered (shadow pfx s) e) = true := h
    rw [if_pos h, if_pos h']
  · have h' : ¬ (!(shadow pfx s).alive || (shadow pfx s).closed || !offered (shadow pfx s) e) = true := h
    rw [if_neg h, if_neg h']
    cases e <;> rfl

theorem enqueue_fold_shadow (pfx : List (Resp × Bool)) (evs : List Event) : ∀ (s : Subscriber),
    evs.foldl (fun s e => enqueueEvent { s with queue := freezeCovered e s.queue } e) (shadow pfx s) =
      shadow pfx (evs.foldl (fun s e => enqueueEvent { s with queue := freezeCovered e s.queue } e) s) := by
  induction evs with
  | nil => intro s; rfl
  | cons e evs ih =>
    intro s
    simp only [List.foldl_cons]
    rw [← ih]
    congr 1
    exact enqueue_shadow pfx { s with queue := freezeCovered e s.queue } e

theorem feedSub_shadow (pfx : List (Resp × Bool)) (c' : Cache.State) (evs : List Event) (s : Subscriber) :
    feedSub c' evs (shadow pfx s) = shadow pfx (feedSub c' evs s) := by
  unfold feedSub
  simp only
  rw [enqueue_fold_shadow]
  generalize evs.foldl (fun s e => enqueueEvent { s with queue := freezeCovered e s.queue } e) s = X
  exact pumpAll_shadow pfx { X with queue := refreshQueue c' X.queue }

theorem gateF_shadow (pfx : List (Resp × Bool)) (shut : Bool) (s : Subscriber) :
    gateF shut (shadow pfx s) = shadow pfx (gateF shut s) := by
  obtain ⟨id, req, acl, regs, alive, status, gateShut, gsd, blocked, queue, closed, out⟩ := s
  cases shut with
  | true => rfl
  | false =>
    cases blocked with
    | none =>
      simp only [gateF, shadow, Bool.false_eq_true, if_false]
      exact pumpAll_shadow pfx (Subscriber.mk id req acl regs alive status false gsd none queue closed out)
    | some r =>
      simp only [gateF, shadow, Bool.false_eq_true, if_false]
      by_cases htd : (isTargetDelete r && req.target != "*") = true
      · simp only [htd, if_true]
        rw [List.append_assoc]
        exact pumpAll_shadow pfx (Subscriber.mk id req acl regs false (some .ok) false gsd none queue closed (out ++ [(r, gsd)]))
      · simp only [htd, Bool.false_eq_true, if_false]
        rw [List.append_assoc]
        exact pumpAll_shadow pfx (Subscriber.mk id req acl regs alive status false gsd none queue closed (out ++ [(r, gsd)]))

theorem stepF_shadow (pfx : List (Resp × Bool)) (s : Subscriber) : stepF (shadow pfx s) = shadow pfx (stepF s) := by
  obtain ⟨id, req, acl, regs, alive, status, gateShut, gsd, blocked, queue, closed, out⟩ := s
  cases gateShut with
  | false => rfl
  | true =>
    cases blocked with
    | none => rfl
    | some r =>
      simp only [stepF, shadow, if_true]
      by_cases htd : (isTargetDelete r && req.target != "*") = true
      · simp only [htd, if_true, List.append_assoc]
      · simp only [htd, Bool.false_eq_true, if_false]
        rw [List.append_assoc]
        exact pumpAll_shadow pfx (Subscriber.mk id req acl regs alive status true gsd none queue closed (out ++ [(r, gsd)]))

theorem pend_shadow (pfx : List (Resp × Bool)) (s : Subscriber) : pend (shadow pfx s) = pfx.map (·.1) ++ pend s := by
  unfold pend shadow
  simp only [List.map_append, List.append_assoc]

/-! ## `replayR` at a key depends only on the suffix from the last response that decides it -/

/-- the response fixes what is held at `κ`, whatever was held before -/
def decides (κ : Path) : Resp → Bool
  | .upd n _ => respKey n == κ || (n.atomic && (respKey n).isPrefixOf κ)
  | .del t o p _ _ => qmatches (subIndex t o p) κ
  | .sync => false

theorem eff_not_decides {κ : Path} {r : Resp} (h : decides κ r = false) (cur : Option Noti) : eff κ r cur = cur := by
  cases r with
  | upd n d =>
    simp only [decides, Bool.or_eq_false_iff, beq_eq_false_iff_ne, ne_eq] at h
    simp [eff, h.1, h.2]
  | del t o p ts d =>
    simp only [decides] at h
    simp [eff, h]
  | sync => rfl

theorem eff_decides {κ : Path} {r : Resp} (h : decides κ r = true) (cur cur' : Option Noti) :
    eff κ r cur = eff κ r cur' := by
  cases r with
  | upd n d =>
    simp only [decides, Bool.or_eq_true, beq_iff_eq] at h
    simp only [eff]
    by_cases hk : respKey n = κ
    · simp [hk]
    · rcases h with h | h
      · exact absurd h hk
      · simp [hk, h]
  | del t o p ts d =>
    simp only [decides] at h
    simp [eff, h]
  | sync => cases h

theorem lookup_foldl_not_decided (κ : Path) : ∀ (b : List Resp) (W : PMap Noti),
    (∀ r ∈ b, decides κ r = false) → lookup (b.foldl applyResp W) κ = lookup W κ
  | [], _, _ => rfl
  | r :: b, W, h => by
    simp only [List.foldl_cons]
    rw [lookup_foldl_not_decided κ b _ (fun x hx => h x (List.mem_cons_of_mem _ hx)), lookup_applyResp,
      eff_not_decides (h r (List.mem_cons_self ..))]

theorem lookup_foldl_eq (κ : Path) : ∀ (b : List Resp) (W W' : PMap Noti),
    lookup W κ = lookup W' κ → lookup (b.foldl applyResp W) κ = lookup (b.foldl applyResp W') κ
  | [], _, _, h => h
  | r :: b, W, W', h => by
    simp only [List.foldl_cons]
    apply lookup_foldl_eq κ b
    rw [lookup_applyResp, lookup_applyResp, h]

theorem lookup_foldl_decided (κ : Path) : ∀ (b : List Resp) (W W' : PMap Noti),
    (∃ r ∈ b, decides κ r = true) → lookup (b.foldl applyResp W) κ = lookup (b.foldl applyResp W') κ
  | [], _, _, h => by obtain ⟨r, hr, _⟩ := h; cases hr
  | r :: b, W, W', h => by
    simp only [List.foldl_cons]
    by_cases hb : ∃ x ∈ b, decides κ x = true
    · exact lookup_foldl_decided κ b _ _ hb
    · obtain ⟨x, hx, hd⟩ := h
      rcases List.mem_cons.1 hx with rfl | hx'
      · apply lookup_foldl_eq
        rw [lookup_applyResp, lookup_applyResp]
        exact eff_decides hd _ _
      · exact absurd ⟨x, hx', hd⟩ hb

/-- the sync marker changes no view -/
theorem replayR_append (a b : List Resp) : replayR (a ++ b) = b.foldl applyResp (replayR a) := by
  unfold replayR
  rw [List.foldl_append]

/-! ## the initial STREAM subscriber, exactly -/

/-- on a `CacheOK` cache a walk collects each leaf with one value, stored under its target's name
(the two side conditions of `SubPoll.round_exact`) -/
theorem walk_good {c : Cache.State} (hc : CacheOK c) {r : Req} {items : List WalkItem}
    (hT : r.target ≠ "") (hex : r.target = glob ∨ (c.get r.target).isSome = true)
    (huo : r.updatesOnly = false) (hw : walkItems c r = some items) :
    C05.Functional items ∧ ∀ it ∈ items, it.2.2.target = it.1 := by
  constructor
  · rintro ⟨t, k, m⟩ ha ⟨t', k', m'⟩ hb h1 h2
    simp only at h1 h2
    subst h1 h2
    have e1 := ((items_iff hc hT hex huo hw t k m).1 ha).1
    have e2 := ((items_iff hc hT hex huo hw t k m').1 hb).1
    rw [e1] at e2
    exact Option.some.inj e2
  · rintro ⟨t, k, m⟩ hi
    have e1 := ((items_iff hc hT hex huo hw t k m).1 hi).1
    have hk := hc.hkey t k m e1
    rw [respKey_eq] at hk
    exact (List.cons.inj hk).1

/-- **the accepted STREAM subscriber that asked for the snapshot**: it was sent the snapshot body
and then one sync marker, and nothing else about it differs from a fresh subscriber with its
registration -/
theorem streamSub_exact {c : Cache.State} (hc : CacheOK c) (id : String) (r : Req) (acl : Acl)
    (hT : r.target ≠ "") (hex : r.target = glob ∨ (c.get r.target).isSome = true)
    (huo : r.updatesOnly = false) {items : List WalkItem} (hw : walkItems c r = some items) :
    ∃ body, streamSub c id r acl =
        { newSubscriber false id r acl with
            regs := regQueries r, out := (body ++ [Resp.sync]).map (fun x => (x, false)) } ∧
      SubPoll.SnapshotBody acl items body ∧ SubPoll.SnapshotOnce acl items body := by
  obtain ⟨hfun, hTg⟩ := walk_good hc hT hex huo hw
  obtain ⟨body, he, h1, h2⟩ := SubPoll.round_exact c { newSubscriber false id r acl with regs := regQueries r } items
    rfl ⟨rfl, rfl, rfl, rfl⟩ hw hfun hTg
  refine ⟨body, ?_, h1, h2⟩
  unfold streamSub
  rw [he]
  rfl

/-- the accepted `updates_only` STREAM subscriber (flow control open): it was sent the sync marker -/
theorem uoSub_eq (id : String) (r : Req) (acl : Acl) :
    pumpAll { newSubscriber false id r acl with queue := [(Item.sync, 0)], regs := regQueries r } =
      { newSubscriber false id r acl with regs := regQueries r, out := [(Resp.sync, false)] } := by
  rw [pumpAll_open_noTD _ rfl rfl rfl rfl (by intro x hx; simp only [List.mem_singleton] at hx; subst hx; rfl)]
  rfl

/-! ## what is carried for an `updates_only` subscriber -/

/-- the `C04Gate` invariant of the shadow, whose extra prefix `snap` shows (up to `Sim`) what the
cache held at registration (`C0`) on the allowed matched keys -/
def UInv (cfg : Cfg) (C0 : String → Path → Option Noti) (V : Views) (a : Acl) (r : Req) (su : Subscriber) : Prop :=
  su.req = r ∧ su.acl = a ∧ r.mode = .stream ∧
  ∃ snap : List (Resp × Bool), GInv cfg V (shadow snap su) ∧
    ∀ t k, a.check t = true → (regQueries r).any (fun q => qmatches q (t :: k)) = true →
      Sim cfg (lookup (replay snap) (t :: k)) (C0 t k)

theorem regQueries_uo (r : Req) (b : Bool) : regQueries { r with updatesOnly := b } = regQueries r := rfl

theorem completePath_uo (r : Req) (b : Bool) (sp : SubPath) : completePath { r with updatesOnly := b } sp = completePath r sp := rfl

/-- registration: the shadow of the new `updates_only` subscriber is the `streamSub` of the same
request with the snapshot -/
theorem uinv_init {c : Cache.State} (hc : CacheOK c) (id : String) (r : Req) (acl : Acl)
    (hm : r.mode = .stream) (hT : r.target ≠ "") (hex : r.target = glob ∨ (c.get r.target).isSome = true)
    (hcp : ∀ sp ∈ r.subs, (completePath r sp).isSome = true) :
    UInv c.cfg (fun t k => lookup (treesOf c t) k) (treesOf c) acl r
      { newSubscriber false id r acl with regs := regQueries r, out := [(Resp.sync, false)] } := by
  refine ⟨rfl, rfl, hm, ?_⟩
  let r' : Req := { r with updatesOnly := false }
  have hws := walkItems_isSome c r' (fun sp hsp => by rw [completePath_uo]; exact hcp sp hsp)
  cases hw : walkItems c r' with
  | none => rw [hw] at hws; cases hws
  | some items =>
    obtain ⟨body, he, _, _⟩ := streamSub_exact hc id r' acl hT hex rfl hw
    have hsh : shadow (body.map (fun x => (x, false)))
        { newSubscriber false id r acl with regs := regQueries r, out := [(Resp.sync, false)] } =
        streamSub c id r' acl := by
      rw [he, List.map_append]
      rfl
    have hlive : Live (streamSub c id r' acl) :=
      ⟨streamSub_alive c id r' acl (fun sp hsp => by rw [completePath_uo]; exact hcp sp hsp),
        by rw [streamSub_req]; exact hm, by rw [streamSub_req]⟩
    have sinv := streamSub_inv hc id r' acl hT hex hlive
    refine ⟨body.map (fun x => (x, false)), ?_, ?_⟩
    · rw [hsh]
      exact ginv_of_subInv sinv
    · intro t k ha hq
      have hv := sinv.view.1 t k (by rw [streamSub_acl]; exact ha)
        (by rw [sinv.regsEq, streamSub_req]; exact hq)
      rw [he] at hv
      simp only [List.map_append, List.map_cons, List.map_nil] at hv
      have : replay (body.map (fun x => (x, false)) ++ [(Resp.sync, false)]) = replay (body.map (fun x => (x, false))) := by
        unfold replay
        rw [List.foldl_append]
        rfl
      rw [this] at hv
      exact hv

theorem gateF_acl (shut : Bool) (s : Subscriber) : (gateF shut s).acl = s.acl := by
  obtain ⟨id, req, acl, regs, alive, status, gateShut, gsd, blocked, queue, closed, out⟩ := s
  cases shut with
  | true => rfl
  | false =>
    cases blocked with
    | none => simp only [gateF, Bool.false_eq_true, if_false, pumpAll_acl]
    | some r =>
      simp only [gateF, Bool.false_eq_true, if_false, pumpAll_acl]
      split <;> rfl

theorem stepF_acl (s : Subscriber) : (stepF s).acl = s.acl := by
  obtain ⟨id, req, acl, regs, alive, status, gateShut, gsd, blocked, queue, closed, out⟩ := s
  cases gateShut with
  | false => rfl
  | true =>
    cases blocked with
    | none => rfl
    | some r =>
      simp only [stepF, if_true]
      split
      · rfl
      · rw [pumpAll_acl]

theorem live_shadow (snap : List (Resp × Bool)) {s : Subscriber} (ha : s.alive = true) (hm : s.req.mode = .stream) :
    Live (shadow snap s) := ⟨ha, hm, rfl⟩

/-- one cache operation -/
theorem feed_sub_uinv {cfg : Cfg} {C0 : String → Path → Option Noti} {V : Views} {c' : Cache.State}
    {evs : List Event} {a : Acl} {r : Req} {s : Subscriber}
    (hV : VOK V) (hV2 : VOK (treesOf c')) (hg : GoodTr V evs)
    (hsim : ∀ t k, Sim cfg (lookup (applySs V evs t) k) (lookup (treesOf c' t) k))
    (hkey : ∀ t k n, lookup (treesOf c' t) k = some n → respKey n = t :: k)
    (hs : UInv cfg C0 V a r s) (ha' : (feedSub c' evs s).alive = true) :
    UInv cfg C0 (treesOf c') a r (feedSub c' evs s) := by
  obtain ⟨hr, hacl, hm, snap, ginv, hsnap⟩ := hs
  refine ⟨by rw [feedSub_req, hr], by rw [feedSub_acl, hacl], hm, snap, ?_, hsnap⟩
  rw [← feedSub_shadow]
  apply feed_sub_ginv hV hV2 hg hsim hkey (fun _ => ginv)
  rw [feedSub_shadow]
  exact live_shadow snap ha' (by rw [feedSub_req, hr]; exact hm)

theorem setGate_sub_uinv {cfg : Cfg} {C0 : String → Path → Option Noti} {V : Views} {a : Acl} {r : Req}
    (hV : VOK V) (shut : Bool) {s : Subscriber}
    (hs : UInv cfg C0 V a r s) (ha' : (gateF shut s).alive = true) : UInv cfg C0 V a r (gateF shut s) := by
  obtain ⟨hr, hacl, hm, snap, ginv, hsnap⟩ := hs
  refine ⟨by rw [gateF_req, hr], by rw [gateF_acl, hacl], hm, snap, ?_, hsnap⟩
  rw [← gateF_shadow]
  apply setGate_sub_ginv hV shut (fun _ => ginv)
  rw [gateF_shadow]
  exact live_shadow snap ha' (by rw [gateF_req, hr]; exact hm)

theorem stepGate_sub_uinv {cfg : Cfg} {C0 : String → Path → Option Noti} {V : Views} {a : Acl} {r : Req}
    (hV : VOK V) {s : Subscriber}
    (hs : UInv cfg C0 V a r s) (ha' : (stepF s).alive = true) : UInv cfg C0 V a r (stepF s) := by
  obtain ⟨hr, hacl, hm, snap, ginv, hsnap⟩ := hs
  refine ⟨by rw [stepF_req, hr], by rw [stepF_acl, hacl], hm, snap, ?_, hsnap⟩
  rw [← stepF_shadow]
  apply stepGate_sub_ginv hV (fun _ => ginv)
  rw [stepF_shadow]
  exact live_shadow snap ha' (by rw [stepF_req, hr]; exact hm)

theorem lookup_nil (κ : Path) : lookup ([] : PMap Noti) κ = none := rfl

/-- **what the invariant says**: on every allowed matched key, either the view replayed from
everything sent, held and queued agrees with `V` (the cache), or no such response decides the key,
the view holds nothing there, and `V` holds what was held at registration (`C0`), up to `Sim`
through one notification `w`; and the view holds nothing `V` does not hold -/
theorem UInv.view {cfg : Cfg} {C0 : String → Path → Option Noti} {V : Views} {a : Acl} {r : Req} {su : Subscriber}
    (hV : VOK V) (h : UInv cfg C0 V a r su) :
    (∀ t k, a.check t = true → (regQueries r).any (fun q => qmatches q (t :: k)) = true →
      Sim cfg (lookup (replayR (pend su)) (t :: k)) (lookup (V t) k) ∨
      (lookup (replayR (pend su)) (t :: k) = none ∧ (∀ x ∈ pend su, decides (t :: k) x = false) ∧
        ∃ w, Sim cfg w (C0 t k) ∧ Sim cfg w (lookup (V t) k))) ∧
    (∀ κ, (lookup (replayR (pend su)) κ).isSome = true →
      ∃ t k, κ = t :: k ∧ (lookup (V t) k).isSome = true) := by
  obtain ⟨hr, hacl, hm, snap, ginv, hsnap⟩ := h
  obtain ⟨v1, v2⟩ := ginv.toPInv.pend_view hV
  have hregs : (shadow snap su).regs = regQueries r := by
    rw [ginv.regsEq]
    show regQueries { su.req with updatesOnly := false } = regQueries r
    rw [regQueries_uo, hr]
  have hacl' : (shadow snap su).acl = a := hacl
  rw [pend_shadow, replayR_append] at v1 v2
  rw [hregs, hacl'] at v1
  constructor
  · intro t k ha hq
    have h1 := v1 t k ha hq
    by_cases hd : ∃ x ∈ pend su, decides (t :: k) x = true
    · left
      rw [lookup_foldl_decided (t :: k) (pend su) _ [] hd] at h1
      exact h1
    · right
      have hnd : ∀ x ∈ pend su, decides (t :: k) x = false := by
        intro x hx
        cases hx' : decides (t :: k) x with
        | false => rfl
        | true => exact absurd ⟨x, hx, hx'⟩ hd
      rw [lookup_foldl_not_decided (t :: k) (pend su) _ hnd] at h1
      refine ⟨?_, hnd, lookup (replay snap) (t :: k), hsnap t k ha hq, ?_⟩
      · show lookup ((pend su).foldl applyResp []) (t :: k) = none
        rw [lookup_foldl_not_decided (t :: k) (pend su) _ hnd]
        rfl
      · rw [replay_eq_replayR]
        exact h1
  · intro κ hκ
    apply v2 κ
    by_cases hd : ∃ x ∈ pend su, decides κ x = true
    · rw [lookup_foldl_decided κ (pend su) _ [] hd]
      exact hκ
    · exfalso
      have hnd : ∀ x ∈ pend su, decides κ x = false := by
        intro x hx
        cases hx' : decides κ x with
        | false => rfl
        | true => exact absurd ⟨x, hx, hx'⟩ hd
      have : lookup (replayR (pend su)) κ = none := by
        show lookup ((pend su).foldl applyResp []) κ = none
        rw [lookup_foldl_not_decided κ (pend su) _ hnd]
        rfl
      rw [this] at hκ
      cases hκ

theorem UInv.drained {cfg : Cfg} {C0 : String → Path → Option Noti} {V : Views} {a : Acl} {r : Req} {su : Subscriber}
    (h : UInv cfg C0 V a r su) (hg : su.gateShut = false) : su.queue = [] ∧ su.blocked = none := by
  obtain ⟨_, _, _, snap, ginv, _⟩ := h
  exact ginv.drained hg

/-! ## the walk queues exactly one marker -/

theorem nsyncQ_pos_of_mem : ∀ (q : List (Item × Nat)) (x : Item × Nat), x ∈ q → x.1 = Item.sync → nsyncQ q ≥ 1
  | y :: q, x, hx, hs => by
    rw [nsyncQ_cons]
    rcases List.mem_cons.1 hx with rfl | hx'
    · obtain ⟨it, d⟩ := x
      simp only at hs
      subst hs
      show one Resp.sync + _ ≥ 1
      rw [one_sync]; omega
    · have := nsyncQ_pos_of_mem q x hx' hs
      omega

theorem insertSync_fresh (q : List (Item × Nat)) (h : nsyncQ q = 0) : insertSync q = q ++ [(Item.sync, 0)] := by
  unfold insertSync
  have : q.any (fun x => x.1 == Item.sync) = false := by
    rw [List.any_eq_false]
    intro x hx hs
    have := nsyncQ_pos_of_mem q x hx (by simpa using hs)
    omega
  simp [this]

theorem nsyncQ_walk (items : List WalkItem) : ∀ (q : List (Item × Nat)),
    nsyncQ (items.foldl (fun q it => insertHandle q it.1 it.2.1 it.2.2) q) = nsyncQ q := by
  induction items with
  | nil => intro q; rfl
  | cons it items ih =>
    intro q
    simp only [List.foldl_cons]
    rw [ih, nsyncQ_insertHandle]

/-- the walk of a subscriber with no marker queued: it fails (the RPC ends, nothing queued), or
queues exactly one marker -/
theorem doWalk_syncs (c : Cache.State) (s : Subscriber) (hq : nsyncQ s.queue = 0) :
    ((doWalk c s).alive = false ∧ syncs (doWalk c s) = syncs s) ∨ syncs (doWalk c s) = syncs s + 1 := by
  unfold doWalk
  split
  · exact Or.inl ⟨rfl, rfl⟩
  · right
    rename_i items _
    simp only
    rw [insertSync_fresh _ (by rw [nsyncQ_walk]; exact hq)]
    unfold syncs
    simp only
    rw [nsyncQ_append, nsyncQ_walk, nsyncQ_cons]
    show _ + (_ + (one Resp.sync + 0)) = _
    rw [one_sync]
    omega

end SubSync
end Gnmi
