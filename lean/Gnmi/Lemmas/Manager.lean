import Gnmi.Model.ManagerLTS
/-!
# Lemmas about the manager LTS: local facts of the monitor goroutine and the global invariant
-/
namespace Gnmi.Manager
open Gnmi.Session (Ev St)

/-- The callbacks so far put the session automaton in state `live`. -/
def Pc.live : Pc → Bool
  | .recv _ c => c
  | .got _ c => c
  | .reset _ c => c
  | _ => false

/-- Past `close(ta.finished)`. -/
def Pc.gone : Pc → Bool
  | .deferred => true
  | .done => true
  | _ => false

/-- Left the retry loop. -/
def Pc.exited : Pc → Bool
  | .closing => true
  | .deferred => true
  | .done => true
  | _ => false

def sessOf (pc : Pc) : St := if pc.live then .live else .idle

theorem Pc.gone_not_live {pc : Pc} (h : pc.gone = true) : pc.live = false := by
  cases pc <;> simp_all [Pc.gone, Pc.live]

theorem Pc.gone_exited {pc : Pc} (h : pc.gone = true) : pc.exited = true := by
  cases pc <;> simp_all [Pc.gone, Pc.exited]

section local_facts
variable {next : Attempt} {I I' : Inst} {l : MLabel}

theorem MonStep.name_eq (h : MonStep next I l I') : I'.name = I.name := by
  cases h <;> first | rfl | (simp only []; split <;> rfl)

theorem MonStep.rt_eq (h : MonStep next I l I') : I'.rt = I.rt := by
  cases h <;> first | rfl | (simp only []; split <;> rfl)

theorem MonStep.cancelled_eq (h : MonStep next I l I') : I'.cancelled = I.cancelled := by
  cases h <;> first | rfl | (simp only []; split <;> rfl)

theorem MonStep.pc_ne_done (h : MonStep next I l I') : I.pc ≠ .done := by
  cases h <;> simp_all

/-- E.3: the monitor's program counter is coupled with the automaton state; a callback step is
a transition of the automaton, every other step leaves its state alone. -/
theorem MonStep.session (h : MonStep next I l I') :
    match l with
    | .cb e => Session.step (sessOf I.pc) e = some (sessOf I'.pc)
    | _ => sessOf I'.pc = sessOf I.pc := by
  cases h <;> simp only [sessOf, Pc.live, *] <;> try rfl
  · -- handleCb: the callback is update or sync
    rename_i j m ev _ _ hev
    cases m <;> simp [Msg.ev] at hev <;> subst hev <;> rfl
  · -- resetCb
    rename_i j c _; cases c <;> rfl

theorem MonStep.gone_mono (h : MonStep next I l I') (hg : I.pc.gone = true) :
    I'.pc.gone = true ∧ ∀ e, l ≠ .cb e := by
  cases h <;> simp_all [Pc.gone]

theorem MonStep.finished_gone (h : MonStep next I l I') (hf : I.finished = I.pc.gone) :
    I'.finished = I'.pc.gone := by
  cases h <;> simp_all [Pc.gone, Inst.freshSub] <;> (try split) <;> simp_all

theorem MonStep.exited_cancelled (h : MonStep next I l I')
    (hx : I.pc.exited = true → I.cancelled = true) : I'.pc.exited = true → I'.cancelled = true := by
  cases h <;> simp_all [Pc.exited]

end local_facts

/-! ## The global invariant -/

@[simp] theorem applyMon_insts (c : Cfg) (i : Nat) (l : MLabel) (I' : Inst) :
    (c.applyMon i l I').insts = upd c.insts i I' := by cases l <;> rfl
@[simp] theorem applyMon_targets (c : Cfg) (i : Nat) (l : MLabel) (I' : Inst) :
    (c.applyMon i l I').targets = c.targets := by cases l <;> rfl
@[simp] theorem applyMon_lock (c : Cfg) (i : Nat) (l : MLabel) (I' : Inst) :
    (c.applyMon i l I').lock = c.lock := by cases l <;> rfl
@[simp] theorem applyMon_nInst (c : Cfg) (i : Nat) (l : MLabel) (I' : Inst) :
    (c.applyMon i l I').nInst = c.nInst := by cases l <;> rfl
theorem applyMon_trace (c : Cfg) (i : Nat) (l : MLabel) (I' : Inst) :
    (c.applyMon i l I').trace =
      match l with
      | .cb e => upd c.trace (c.insts i).name (c.trace (c.insts i).name ++ [e])
      | _ => c.trace := by cases l <;> rfl

/-- The automaton state the callbacks made so far for `n` must have reached. -/
def stateOf (c : Cfg) (n : Name) : St :=
  match c.targets n with
  | some i => sessOf (c.insts i).pc
  | none => .idle

structure Inv (c : Cfg) : Prop where
  /-- `finished` is closed exactly when the goroutine is past `close(ta.finished)` -/
  fin : ∀ i, (c.insts i).finished = (c.insts i).pc.gone
  /-- a goroutine that has not closed `finished` belongs to the registered instance of its name -/
  reg : ∀ i, (c.insts i).pc.gone = false → c.targets (c.insts i).name = some i
  tgt : ∀ n i, c.targets n = some i → (c.insts i).name = n ∧ i < c.nInst
  fresh : ∀ i, c.nInst ≤ i → c.insts i = Inst.dead
  /-- E.3: the trace of every name is a word of the automaton, ending in the state given by the
  program counter of its registered goroutine -/
  sess : ∀ n, Session.run .idle (c.trace n) = some (stateOf c n)
  lck : ∀ i, c.lock = some i → c.targets (c.insts i).name = some i ∧ (c.insts i).cancelled = true
  /-- only `Remove` cancels, and it keeps `m.mu` until the target is deleted -/
  canc : ∀ i, (c.insts i).cancelled = true → c.targets (c.insts i).name = some i → c.lock = some i
  /-- `retryMonitor` leaves its loop only through `ctx.Done()` -/
  exitc : ∀ i, (c.insts i).pc.exited = true → (c.insts i).cancelled = true

theorem inv_init : Inv Cfg.init := by
  constructor <;> intros <;> simp_all [Cfg.init, Inst.dead, Pc.gone, Pc.exited, stateOf, Session.run]


theorem upd_apply {α β : Type} [DecidableEq α] (f : α → β) (k x : α) (v : β) :
    upd f k v x = if x = k then v else f x := rfl

theorem stateOf_congr {c c' : Cfg} {n : Name} (ht : c'.targets n = c.targets n)
    (hp : ∀ i, c.targets n = some i → sessOf (c'.insts i).pc = sessOf (c.insts i).pc) :
    stateOf c' n = stateOf c n := by
  unfold stateOf
  rw [ht]
  cases h : c.targets n with
  | none => rfl
  | some i => simp [hp i h]

theorem inv_mon {c : Cfg} {next : Attempt} {i : Nat} {l : MLabel} {I' : Inst} (hi : Inv c)
    (hm : MonStep next (c.insts i) l I') : Inv (c.applyMon i l I') := by
  have hname := hm.name_eq
  have hcanc := hm.cancelled_eq
  constructor
  · intro k
    simp only [applyMon_insts, upd_apply]
    split
    · exact hm.finished_gone (hi.fin i)
    · exact hi.fin k
  · intro k
    simp only [applyMon_insts, applyMon_targets, upd_apply]
    split
    · next hk =>
      subst hk
      intro hg
      rw [hname]
      apply hi.reg
      cases hg0 : (c.insts k).pc.gone
      · rfl
      · rw [(hm.gone_mono hg0).1] at hg; cases hg
    · exact hi.reg k
  · intro n k hk
    simp only [applyMon_targets] at hk
    simp only [applyMon_insts, applyMon_nInst, upd_apply]
    split
    · next h => subst h; rw [hname]; exact hi.tgt n k hk
    · exact hi.tgt n k hk
  · intro k hk
    simp only [applyMon_nInst] at hk
    simp only [applyMon_insts, upd_apply]
    split
    · next h =>
      subst h
      have := hi.fresh k hk
      exact absurd (by rw [this]; rfl) hm.pc_ne_done
    · exact hi.fresh k hk
  · intro n
    have hsess := hm.session
    rw [applyMon_trace]
    cases l with
    | cb e =>
      simp only at hsess ⊢
      -- the goroutine is not gone, hence registered
      have hng : (c.insts i).pc.gone = false := by
        cases hg0 : (c.insts i).pc.gone
        · rfl
        · exact absurd rfl ((hm.gone_mono hg0).2 e)
      have hreg := hi.reg i hng
      by_cases hn : n = (c.insts i).name
      · subst hn
        rw [upd_same, Session.run_snoc, hi.sess]
        have h1 : stateOf c (c.insts i).name = sessOf (c.insts i).pc := by simp [stateOf, hreg]
        have h2 : stateOf (c.applyMon i (.cb e) I') (c.insts i).name = sessOf I'.pc := by
          simp [stateOf, hreg]
        rw [h1, h2]; exact hsess
      · rw [upd_other _ _ hn, hi.sess]
        congr 1
        apply Eq.symm
        apply stateOf_congr (by simp)
        intro k hk
        simp only [applyMon_insts, upd_apply]
        split
        · next h => subst h; exact absurd (hi.tgt n k hk).1.symm hn
        · rfl
    | tau | begin_ | spawnRecon =>
      simp only at hsess ⊢
      rw [hi.sess]
      congr 1
      apply Eq.symm
      apply stateOf_congr (by simp)
      intro k hk
      simp only [applyMon_insts, upd_apply]
      split
      · next h => subst h; exact hsess
      · rfl
  · intro k hk
    simp only [applyMon_lock] at hk
    simp only [applyMon_insts, applyMon_targets, upd_apply]
    split
    · next h => subst h; rw [hname, hcanc]; exact hi.lck k hk
    · exact hi.lck k hk
  · intro k
    simp only [applyMon_insts, applyMon_targets, applyMon_lock, upd_apply]
    split
    · next h => subst h; rw [hname, hcanc]; exact hi.canc k
    · exact hi.canc k
  · intro k
    simp only [applyMon_insts, upd_apply]
    split
    · next h => subst h; exact hm.exited_cancelled (hi.exitc k)
    · exact hi.exitc k

theorem inv_add {c : Cfg} (hi : Inv c) (n : Name) (rt : Bool) (hl : c.lock = none) (ht : c.targets n = none) :
    Inv { c with insts := upd c.insts c.nInst { name := n, rt := rt }, nInst := c.nInst + 1,
                 targets := upd c.targets n (some c.nInst) } := by
  -- a registered or live instance is never the fresh slot
  have hlt : ∀ m k, c.targets m = some k → k ≠ c.nInst := fun m k h => Nat.ne_of_lt (hi.tgt m k h).2
  constructor
  · intro k
    simp only [upd_apply]
    split
    · rfl
    · exact hi.fin k
  · intro k
    simp only [upd_apply]
    split
    · next h => subst h; intro _; simp
    · next hk =>
      intro hg
      have hr := hi.reg k hg
      split
      · next hn => rw [hn, ht] at hr; cases hr
      · exact hr
  · intro m k
    simp only [upd_apply]
    split
    · next hm =>
      subst hm
      intro hk; cases hk
      simp
    · next hm =>
      intro hk
      have := hi.tgt m k hk
      rw [if_neg (hlt m k hk)]
      exact ⟨this.1, Nat.lt_succ_of_lt this.2⟩
  · intro k hk
    simp only [upd_apply]
    split
    · next h => subst h; exact absurd hk (Nat.not_succ_le_self _)
    · exact hi.fresh k (Nat.le_of_succ_le hk)
  · intro m
    simp only
    rw [hi.sess]
    congr 1
    by_cases hm : m = n
    · subst hm
      simp [stateOf, ht, sessOf, Pc.live]
    · apply Eq.symm
      apply stateOf_congr (by simp [upd_apply, hm])
      intro k hk
      simp only [upd_apply, if_neg (hlt m k hk)]
  · intro k hk
    simp only at hk
    rw [hl] at hk; cases hk
  · intro k
    simp only [upd_apply]
    split
    · next h => subst h; intro h; cases h
    · next hk =>
      intro hc
      split
      · next hn => intro h; cases h; exact absurd rfl hk
      · intro hr
        have := hi.canc k hc hr
        rw [hl] at this; cases this
  · intro k
    simp only [upd_apply]
    split
    · intro h; simp [Pc.exited] at h
    · exact hi.exitc k

/-- The pools of pending `Reconnect` calls are not mentioned by the invariant. -/
theorem inv_pools {c : Cfg} (hi : Inv c) (a : List Name) (b : List Nat) :
    Inv { c with byName := a, byPtr := b } :=
  ⟨hi.fin, hi.reg, hi.tgt, hi.fresh, hi.sess, hi.lck, hi.canc, hi.exitc⟩

/-- Another goroutine changes fields of instance `i` other than `pc`, `name`, `finished`,
`cancelled` (`Reconnect` past its lookup; the timeout goroutine). -/
theorem inv_modify {c : Cfg} (hi : Inv c) (i : Nat) (J : Inst) (hpc : J.pc = (c.insts i).pc)
    (hn : J.name = (c.insts i).name) (hf : J.finished = (c.insts i).finished)
    (hc : J.cancelled = (c.insts i).cancelled) (hfr : c.nInst ≤ i → J = Inst.dead) :
    Inv { c with insts := upd c.insts i J } := by
  constructor
  · intro k
    simp only [upd_apply]
    split
    · next h => subst h; rw [hf, hpc]; exact hi.fin k
    · exact hi.fin k
  · intro k
    simp only [upd_apply]
    split
    · next h => subst h; rw [hn, hpc]; exact hi.reg k
    · exact hi.reg k
  · intro n k hk
    simp only [upd_apply]
    split
    · next h => subst h; rw [hn]; exact hi.tgt n k hk
    · exact hi.tgt n k hk
  · intro k hk
    simp only [upd_apply]
    split
    · next h => subst h; exact hfr hk
    · exact hi.fresh k hk
  · intro n
    simp only
    rw [hi.sess]
    congr 1
    apply Eq.symm
    apply stateOf_congr (by rfl)
    intro k _
    simp only [upd_apply]
    split
    · next h => subst h; rw [hpc]
    · rfl
  · intro k hk
    simp only at hk
    simp only [upd_apply]
    split
    · next h => subst h; rw [hn, hc]; exact hi.lck k hk
    · exact hi.lck k hk
  · intro k
    simp only [upd_apply]
    split
    · next h => subst h; rw [hn, hc]; exact hi.canc k
    · exact hi.canc k
  · intro k
    simp only [upd_apply]
    split
    · next h => subst h; rw [hpc, hc]; exact hi.exitc k
    · exact hi.exitc k

theorem inv_removeBegin {c : Cfg} (hi : Inv c) (n : Name) (i : Nat) (hl : c.lock = none)
    (ht : c.targets n = some i) :
    Inv { c with insts := upd c.insts i { c.insts i with cancelled := true }, lock := some i } := by
  have htg := hi.tgt n i ht
  constructor
  · intro k
    simp only [upd_apply]
    split
    · next h => subst h; exact hi.fin k
    · exact hi.fin k
  · intro k
    simp only [upd_apply]
    split
    · next h => subst h; exact hi.reg k
    · exact hi.reg k
  · intro m k hk
    simp only [upd_apply]
    split
    · next h => subst h; exact hi.tgt m k hk
    · exact hi.tgt m k hk
  · intro k hk
    simp only [upd_apply]
    split
    · next h => subst h; exact absurd hk (Nat.not_le_of_lt htg.2)
    · exact hi.fresh k hk
  · intro m
    simp only
    rw [hi.sess]
    congr 1
    apply Eq.symm
    apply stateOf_congr (by rfl)
    intro k _
    simp only [upd_apply]
    split
    · next h => subst h; rfl
    · rfl
  · intro k hk
    simp only at hk
    cases hk
    simp only [upd_same, and_true]
    rw [htg.1]; exact ht
  · intro k
    simp only [upd_apply]
    split
    · next h => subst h; intro _ _; rfl
    · next hk =>
      intro hc hr
      have := hi.canc k hc hr
      rw [hl] at this; cases this
  · intro k
    simp only [upd_apply]
    split
    · next h => subst h; intro _; rfl
    · exact hi.exitc k

theorem inv_removeEnd {c : Cfg} (hi : Inv c) (i : Nat) (hl : c.lock = some i)
    (hf : (c.insts i).finished = true) :
    Inv { c with targets := upd c.targets (c.insts i).name none, lock := none } := by
  have hlk := hi.lck i hl
  have hgone : (c.insts i).pc.gone = true := by rw [← hi.fin i]; exact hf
  constructor
  · exact hi.fin
  · intro k hg
    simp only [upd_apply]
    have hr := hi.reg k hg
    split
    · next hn =>
      rw [hn, hlk.1] at hr
      cases hr
      rw [hgone] at hg; cases hg
    · exact hr
  · intro m k
    simp only [upd_apply]
    split
    · intro h; cases h
    · exact hi.tgt m k
  · exact hi.fresh
  · intro m
    simp only
    rw [hi.sess]
    congr 1
    by_cases hm : m = (c.insts i).name
    · subst hm
      simp [stateOf, hlk.1, sessOf, Pc.gone_not_live hgone]
    · simp [stateOf, upd_apply, hm]
  · intro k hk; cases hk
  · intro k hc
    simp only [upd_apply]
    split
    · intro h; cases h
    · next hn =>
      intro hr
      have := hi.canc k hc hr
      rw [hl] at this
      cases this
      exact absurd rfl hn
  · exact hi.exitc

theorem Inst.applyRecon_pc (I : Inst) : I.applyRecon.pc = I.pc := by unfold Inst.applyRecon; split <;> rfl
theorem Inst.applyRecon_name (I : Inst) : I.applyRecon.name = I.name := by unfold Inst.applyRecon; split <;> rfl
theorem Inst.applyRecon_finished (I : Inst) : I.applyRecon.finished = I.finished := by
  unfold Inst.applyRecon; split <;> rfl
theorem Inst.applyRecon_cancelled (I : Inst) : I.applyRecon.cancelled = I.cancelled := by
  unfold Inst.applyRecon; split <;> rfl
theorem Inst.applyRecon_cur (I : Inst) : I.applyRecon.cur = I.cur := by unfold Inst.applyRecon; split <;> rfl

/-- The invariant is inductive. -/
theorem inv_step {env : Name → Nat → Attempt} {c c' : Cfg} {l : Label} (hi : Inv c)
    (hs : Step env c l c') : Inv c' := by
  cases hs with
  | mon i hm => exact inv_mon hi hm
  | add n rt hl ht => exact inv_add hi n rt hl ht
  | addDup n i hl ht => exact hi
  | addInvalid n => exact hi
  | removeBegin n i hl ht => exact inv_removeBegin hi n i hl ht
  | removeUnknown n hl ht => exact hi
  | removeEnd i hl hf => exact inv_removeEnd hi i hl hf
  | reconnectLookup n i hl ht => exact inv_pools hi _ _
  | reconnectUnknown n hl ht => exact hi
  | byNameLookup l₁ l₂ n hb hl => exact inv_pools hi _ _
  | reconApply l₁ l₂ i hb =>
    have := inv_modify hi i (c.insts i).applyRecon (Inst.applyRecon_pc _) (Inst.applyRecon_name _)
      (Inst.applyRecon_finished _) (Inst.applyRecon_cancelled _)
      (by intro h; rw [hi.fresh i h]; rfl)
    exact inv_pools this _ _
  | tmoFire i j cn hp hw =>
    have := inv_modify hi i { c.insts i with tmoWaiting := false } rfl rfl rfl rfl
      (by intro h; rw [hi.fresh i h] at hp; cases hp)
    exact inv_pools this _ _

theorem inv_reach {env : Name → Nat → Attempt} {c : Cfg} (h : Reach env c) : Inv c := by
  induction h with
  | init => exact inv_init
  | step _ hs ih => exact inv_step ih hs

/-! ## Silence -/

/-- Only callback steps of a goroutine write a trace, and only its own name's. -/
theorem step_trace {env : Name → Nat → Attempt} {c c' : Cfg} {l : Label} (hs : Step env c l c')
    (n : Name) : c'.trace n = c.trace n ∨
      ∃ i e, l = .cb n e ∧ (c.insts i).name = n ∧ (c.insts i).pc.gone = false ∧
        c'.trace n = c.trace n ++ [e] := by
  cases hs with
  | mon i hm =>
    rename_i ml I'
    rw [applyMon_trace]
    cases ml with
    | cb e =>
      simp only [upd_apply]
      split
      · next hn =>
        right
        refine ⟨i, e, by rw [hn]; rfl, hn.symm, ?_, by rw [hn]⟩
        cases hg0 : (c.insts i).pc.gone
        · rfl
        · exact absurd rfl ((hm.gone_mono hg0).2 e)
      · left; rfl
    | tau | begin_ | spawnRecon => left; rfl
  | _ => left; rfl

theorem step_trace_unmanaged {env : Name → Nat → Attempt} {c c' : Cfg} {l : Label} (hi : Inv c)
    (hs : Step env c l c') {n : Name} (hn : c.targets n = none) : c'.trace n = c.trace n := by
  rcases step_trace hs n with h | ⟨i, e, _, hname, hg, _⟩
  · exact h
  · have := hi.reg i hg
    rw [hname, hn] at this; cases this

theorem step_targets_none {env : Name → Nat → Attempt} {c c' : Cfg} {l : Label}
    (hs : Step env c l c') {n : Name} (hn : c.targets n = none) (hl : l ≠ .add n true) :
    c'.targets n = none := by
  cases hs with
  | mon i hm => simpa using hn
  | add n' rt hl' ht =>
    simp only [upd_apply]
    split
    · next h => subst h; exact absurd rfl hl
    · exact hn
  | removeEnd i hl' hf =>
    simp only [upd_apply]
    split
    · rfl
    · exact hn
  | _ => exact hn

theorem reach_run {env : Name → Nat → Attempt} {c c' : Cfg} {ls : List Label} (hr : Reach env c)
    (h : Run env c ls c') : Reach env c' := by
  induction h with
  | nil => exact hr
  | cons hs _ ih => exact ih (.step hr hs)

/-! ## Progress: enabled steps and the rank of an attempt -/

/-- Which attempt kinds can be at which program counter (`monitor`'s straight-line code). -/
def PcCur (I : Inst) : Prop :=
  match I.pc with
  | .dial => I.cur ≠ .metaErr
  | .open_ => I.cur ≠ .metaErr ∧ I.cur ≠ .dialFail
  | .send => I.cur ≠ .metaErr ∧ I.cur ≠ .dialFail ∧ I.cur ≠ .openFail
  | .got j _ => j < I.cur.msgs.length
  | _ => True

theorem MonStep.pcCur {next : Attempt} {I I' : Inst} {l : MLabel} (h : MonStep next I l I')
    (hp : PcCur I) : PcCur I' := by
  cases h <;> simp_all [PcCur]

/-- Number of monitor steps an attempt can still take (an upper bound). -/
def rank (I : Inst) : Nat :=
  match I.pc with
  | .done => 0
  | .deferred => 1
  | .closing => 2
  | .timer => 3
  | .start => 4
  | .monErr _ _ _ => 4
  | .connErr _ _ _ => 5
  | .reset _ _ => 6
  | .recv j _ => 7 + 3 * (I.cur.msgs.length - j)
  | .got j c => 5 + 3 * (I.cur.msgs.length - j) + (if c then 0 else 1)
  | .send => 8 + 3 * I.cur.msgs.length
  | .open_ => 9 + 3 * I.cur.msgs.length
  | .dial => 10 + 3 * I.cur.msgs.length
  | .gmeta => 11 + 3 * I.cur.msgs.length

theorem lt_of_getElem?_eq_some {α : Type} {l : List α} {j : Nat} {a : α} (h : l[j]? = some a) :
    j < l.length := by
  rcases Nat.lt_or_ge j l.length with h' | h'
  · exact h'
  · rw [List.getElem?_eq_none h'] at h; cases h

/-- Every step of the monitor goroutine other than the timer arm of its `select` (the start of a
new attempt) decreases the rank: an attempt is a finite path. -/
theorem MonStep.rank_lt {next : Attempt} {I I' : Inst} {l : MLabel} (h : MonStep next I l I')
    (hl : l ≠ .begin_) : rank I' < rank I := by
  cases h <;> simp_all [rank] <;> try omega
  · split <;> omega
  · rename_i hm _; have := lt_of_getElem?_eq_some hm; omega
  · rename_i hm _; have := lt_of_getElem?_eq_some hm; omega

/-- With its context cancelled, the monitor goroutine always has an enabled step that is not the
start of a new attempt, as long as it has not closed `finished`; none of its steps needs `m.mu`.
(At `Pc.recv` this is the environment hypothesis "Recv fails once its context is cancelled".) -/
theorem cancelled_enabled (next : Attempt) {I : Inst} (hc : I.cancelled = true) (hp : PcCur I)
    (hg : I.pc.gone = false) : ∃ l I', MonStep next I l I' ∧ l ≠ .begin_ := by
  have hd : I.ctxDone = true := by simp [Inst.ctxDone, hc]
  cases hpc : I.pc with
  | start => exact ⟨_, _, .init hpc, by simp⟩
  | timer => exact ⟨_, _, .exitCtx hpc hc, by simp⟩
  | gmeta => exact ⟨_, _, .metaFail hpc (.inr hd), by simp⟩
  | dial => exact ⟨_, _, .dialFail hpc (.inr hd), by simp⟩
  | open_ => exact ⟨_, _, .openFail hpc (.inr hd), by simp⟩
  | send => exact ⟨_, _, .sendFail hpc (.inr hd), by simp⟩
  | recv j c => exact ⟨_, _, .recvCancel hpc hd, by simp⟩
  | got j c =>
    cases c with
    | false => exact ⟨_, _, .connectCb hpc, by simp⟩
    | true =>
      have hj : j < I.cur.msgs.length := by simpa [PcCur, hpc] using hp
      have hm : I.cur.msgs[j]? = some I.cur.msgs[j] := List.getElem?_eq_getElem hj
      cases hev : (I.cur.msgs[j]).ev j with
      | none => exact ⟨_, _, .handleNone hpc hm hev, by simp⟩
      | some ev => exact ⟨_, _, .handleCb hpc hm hev, by simp⟩
  | reset j c => exact ⟨_, _, .resetCb hpc, by simp⟩
  | connErr j c r => exact ⟨_, _, .connErrCb hpc, by simp⟩
  | monErr j c r => exact ⟨_, _, .monErrCb hpc, by simp⟩
  | closing => exact ⟨_, _, .close hpc, by simp⟩
  | deferred => simp [hpc, Pc.gone] at hg
  | done => simp [hpc, Pc.gone] at hg

/-- Blocked in `Recv`: every message consumed, the stream is silent, the context not cancelled. -/
def Inst.waiting (I : Inst) : Prop :=
  ∃ j c, I.pc = .recv j c ∧ I.cur.msgs.length ≤ j ∧ I.cur.ending = .silence ∧ I.ctxDone = false

/-- The monitor goroutine can always move, except when it has terminated or waits in `Recv` on
a silent stream (then only a cancellation — `Reconnect`, `Remove`, the receive timeout — or
nothing moves it). -/
theorem mon_enabled (next : Attempt) {I : Inst} (hp : PcCur I) (hnd : I.pc ≠ .done) :
    (∃ l I', MonStep next I l I') ∨ I.waiting := by
  cases hpc : I.pc with
  | start => exact .inl ⟨_, _, .init hpc⟩
  | timer => exact .inl ⟨_, _, .timerFire hpc⟩
  | gmeta =>
    by_cases h : I.cur = .metaErr
    · exact .inl ⟨_, _, .metaFail hpc (.inl h)⟩
    · exact .inl ⟨_, _, .metaOk hpc h⟩
  | dial =>
    by_cases h : I.cur = .dialFail
    · exact .inl ⟨_, _, .dialFail hpc (.inl h)⟩
    · exact .inl ⟨_, _, .dialOk hpc h⟩
  | open_ =>
    by_cases h : I.cur = .openFail
    · exact .inl ⟨_, _, .openFail hpc (.inl h)⟩
    · exact .inl ⟨_, _, .openOk hpc h⟩
  | send =>
    have h3 : I.cur ≠ .metaErr ∧ I.cur ≠ .dialFail ∧ I.cur ≠ .openFail := by simpa [PcCur, hpc] using hp
    cases hcur : I.cur with
    | metaErr => exact absurd hcur h3.1
    | dialFail => exact absurd hcur h3.2.1
    | openFail => exact absurd hcur h3.2.2
    | sendFail => exact .inl ⟨_, _, .sendFail hpc (.inl hcur)⟩
    | stream ms e => exact .inl ⟨_, _, .sendOk hpc hcur⟩
  | recv j c =>
    by_cases hj : j < I.cur.msgs.length
    · exact .inl ⟨_, _, .recvMsg hpc hj⟩
    · by_cases he : I.cur.ending = .silence
      · by_cases hd : I.ctxDone = true
        · exact .inl ⟨_, _, .recvCancel hpc hd⟩
        · exact .inr ⟨j, c, hpc, Nat.le_of_not_lt hj, he, by simpa using hd⟩
      · exact .inl ⟨_, _, .recvEnd hpc (Nat.le_of_not_lt hj) he⟩
  | got j c =>
    cases c with
    | false => exact .inl ⟨_, _, .connectCb hpc⟩
    | true =>
      have hj : j < I.cur.msgs.length := by simpa [PcCur, hpc] using hp
      have hm : I.cur.msgs[j]? = some I.cur.msgs[j] := List.getElem?_eq_getElem hj
      cases hev : (I.cur.msgs[j]).ev j with
      | none => exact .inl ⟨_, _, .handleNone hpc hm hev⟩
      | some ev => exact .inl ⟨_, _, .handleCb hpc hm hev⟩
  | reset j c => exact .inl ⟨_, _, .resetCb hpc⟩
  | connErr j c r => exact .inl ⟨_, _, .connErrCb hpc⟩
  | monErr j c r => exact .inl ⟨_, _, .monErrCb hpc⟩
  | closing => exact .inl ⟨_, _, .close hpc⟩
  | deferred => exact .inl ⟨_, _, .deferredRecon hpc⟩
  | done => exact absurd hpc hnd

/-- Who changes the program counter / current attempt of an instance: its own goroutine, or
`Add` creating it. -/
theorem step_inst {env : Name → Nat → Attempt} {c c' : Cfg} {l : Label} (hs : Step env c l c') (k : Nat) :
    ((c'.insts k).pc = (c.insts k).pc ∧ (c'.insts k).cur = (c.insts k).cur ∧
        (c'.insts k).name = (c.insts k).name) ∨
    (∃ ml, MonStep (env (c.insts k).name (c.nextAtt (c.insts k).name)) (c.insts k) ml (c'.insts k)) ∨
    (k = c.nInst ∧ ∃ n rt, l = .add n true ∧ c'.insts k = { name := n, rt := rt }) := by
  cases hs with
  | mon i hm =>
    simp only [applyMon_insts, upd_apply]
    split
    · next h => subst h; exact .inr (.inl ⟨_, hm⟩)
    · exact .inl ⟨rfl, rfl, rfl⟩
  | add n rt hl ht =>
    simp only [upd_apply]
    split
    · next h => exact .inr (.inr ⟨h, n, rt, rfl, rfl⟩)
    · exact .inl ⟨rfl, rfl, rfl⟩
  | removeBegin n i hl ht =>
    simp only [upd_apply]
    split
    · next h => subst h; exact .inl ⟨rfl, rfl, rfl⟩
    · exact .inl ⟨rfl, rfl, rfl⟩
  | reconApply l₁ l₂ i hb =>
    simp only [upd_apply]
    split
    · next h => subst h; exact .inl ⟨Inst.applyRecon_pc _, Inst.applyRecon_cur _, Inst.applyRecon_name _⟩
    · exact .inl ⟨rfl, rfl, rfl⟩
  | tmoFire i j cn hp hw =>
    simp only [upd_apply]
    split
    · next h => subst h; exact .inl ⟨rfl, rfl, rfl⟩
    · exact .inl ⟨rfl, rfl, rfl⟩
  | _ => exact .inl ⟨rfl, rfl, rfl⟩

theorem PcCur_congr {I J : Inst} (hp : J.pc = I.pc) (hc : J.cur = I.cur) (h : PcCur I) : PcCur J := by
  unfold PcCur at *; rw [hp, hc]; exact h

theorem pcCur_reach {env : Name → Nat → Attempt} {c : Cfg} (h : Reach env c) : ∀ k, PcCur (c.insts k) := by
  induction h with
  | init => intro k; simp [Cfg.init, Inst.dead, PcCur]
  | step _ hs ih =>
    intro k
    rcases step_inst hs k with ⟨hp, hc, _⟩ | ⟨ml, hm⟩ | ⟨_, n, rt, _, hk⟩
    · exact PcCur_congr hp hc (ih k)
    · exact hm.pcCur (ih k)
    · rw [hk]; simp [PcCur]

/-! ## `Reconnect` is effective -/

/-- Once the goroutine has created its first sub-context, `ta.reconnect` is nil only while the
current sub-context is cancelled. -/
def ReconOK (I : Inst) : Prop := I.pc ≠ .start → I.reconSet = true ∨ I.subCancelled = true

theorem MonStep.reconOK {next : Attempt} {I I' : Inst} {l : MLabel} (h : MonStep next I l I')
    (hr : ReconOK I) : ReconOK I' := by
  cases h <;> simp_all [ReconOK, Inst.freshSub]
  · split <;> simp_all

theorem reconOK_reach {env : Name → Nat → Attempt} {c : Cfg} (h : Reach env c) : ∀ k, ReconOK (c.insts k) := by
  induction h with
  | init => intro k; simp [Cfg.init, Inst.dead, ReconOK]
  | step _ hs ih =>
    intro k
    cases hs with
    | mon i hm =>
      simp only [applyMon_insts, upd_apply]
      split
      · next h => subst h; exact hm.reconOK (ih k)
      · exact ih k
    | add n rt hl ht =>
      simp only [upd_apply]
      split
      · simp [ReconOK]
      · exact ih k
    | removeBegin n i hl ht =>
      simp only [upd_apply]
      split
      · next h => subst h; exact ih k
      · exact ih k
    | reconApply l₁ l₂ i hb =>
      simp only [upd_apply]
      split
      · next h =>
        subst h
        have := ih k
        unfold ReconOK Inst.applyRecon at *
        split <;> simp_all
      · exact ih k
    | tmoFire i j cn hp hw =>
      simp only [upd_apply]
      split
      · next h => subst h; exact ih k
      · exact ih k
    | _ => exact ih k

end Gnmi.Manager
