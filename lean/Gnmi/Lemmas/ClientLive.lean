import Gnmi.Lemmas.ClientLTS
/-!
Progress (absence of deadlock) for the client LTS: which goroutine can move when.
-/
set_option linter.unusedSimpArgs false
set_option linter.unusedVariables false
namespace Gnmi
namespace ClientLTS

variable {N : Type}

/-- transitions of goroutine S (including the expiry of its own backoff timer) -/
def Label.isS : Label → Bool
  | .closeCs | .closeInner | .closeWait | .plainClose | .parentCancel => false
  | _ => true

/-- transitions of goroutine K -/
def Label.isK : Label → Bool
  | .closeCs | .closeInner | .closeWait | .plainClose => true
  | _ => false

/-- transitions that wait for time to pass -/
def Label.isTimed : Label → Bool
  | .wake => true
  | _ => false

/-- Once the context is done (or Close went first), goroutine S always has an enabled
transition of its own until it has returned: it never waits for K, and the only thing it may
wait for is the backoff sleep already in progress. -/
theorem s_progress {wrap : Bool} (s : Script N) {c : Cfg N} (hd : Doomed wrap c)
    (hr : c.spc.isReturned = false) : ∃ l c', Step wrap s c l c' ∧ l.isS = true := by
  have hrel : c.spc.isIdle = false → c.ctxDone = true := by
    intro h; rcases hd with h' | ⟨_, _, h'⟩
    · exact h'
    · rw [h] at h'; cases h'
  cases hp : c.spc with
  | idle =>
      cases wrap
      · exact ⟨_, _, .plainStart rfl hp, rfl⟩
      · exact ⟨_, _, .subInit rfl hp, rfl⟩
  | connect => exact ⟨_, _, .connAbort hp (hrel (by simp [hp])), rfl⟩
  | install => exact ⟨_, _, .install hp, rfl⟩
  | recv =>
      have hrl : c.released = true := by simp [Cfg.released, hrel (by simp [hp])]
      exact ⟨_, _, .recvAbort hp hrl, rfl⟩
  | handling evs r =>
      cases evs with
      | nil => exact ⟨_, _, .handled hp, rfl⟩
      | cons e rest => exact ⟨_, _, .handle hp, rfl⟩
  | check => exact ⟨_, _, .check hp, rfl⟩
  | runErr => exact ⟨_, _, .runErr hp, rfl⟩
  | innerRet e =>
      cases wrap
      · exact ⟨_, _, .plainRet rfl hp, rfl⟩
      · exact ⟨_, _, .disc rfl hp, rfl⟩
  | ctxCheck e => exact ⟨_, _, .ctxExit hp (hrel (by simp [hp])), rfl⟩
  | sleeping => exact ⟨_, _, .wake hp, rfl⟩
  | resetCb => exact ⟨_, _, .reset hp, rfl⟩
  | finishing => exact ⟨_, _, .finish hp, rfl⟩
  | returned r => simp [hp] at hr

/-- Past `install`, a released instance (context done or instance closed) never blocks S. -/
theorem s_progress_released {wrap : Bool} (s : Script N) {c : Cfg N}
    (hpast : c.spc.isIdle = false) (hnc : ∀ (_ : c.spc = .connect), c.ctxDone = true)
    (hrel : c.released = true) (hr : c.spc.isReturned = false) :
    ∃ l c', Step wrap s c l c' ∧ l.isS = true := by
  cases hp : c.spc with
  | idle => simp [hp] at hpast
  | connect => exact ⟨_, _, .connAbort hp (hnc hp), rfl⟩
  | install => exact ⟨_, _, .install hp, rfl⟩
  | recv => exact ⟨_, _, .recvAbort hp hrel, rfl⟩
  | handling evs r =>
      cases evs with
      | nil => exact ⟨_, _, .handled hp, rfl⟩
      | cons e rest => exact ⟨_, _, .handle hp, rfl⟩
  | check => exact ⟨_, _, .check hp, rfl⟩
  | runErr => exact ⟨_, _, .runErr hp, rfl⟩
  | innerRet e =>
      cases wrap
      · exact ⟨_, _, .plainRet rfl hp, rfl⟩
      · exact ⟨_, _, .disc rfl hp, rfl⟩
  | ctxCheck e =>
      cases hd : c.ctxDone with
      | true => exact ⟨_, _, .ctxExit hp hd, rfl⟩
      | false => exact ⟨_, _, .sleepStart hp hd, rfl⟩
  | sleeping => exact ⟨_, _, .wake hp, rfl⟩
  | resetCb => exact ⟨_, _, .reset hp, rfl⟩
  | finishing => exact ⟨_, _, .finish hp, rfl⟩
  | returned r => simp [hp] at hr

/-- Without using the hypothesis on the transport at all: wherever S is, the *scripted* next
transition is enabled unless S sits in a blocked connect / blocked Recv with a live context and
an open instance.  (What `keeps_retrying` needs: the loop itself never blocks.) -/
theorem s_progress_live {wrap : Bool} (s : Script N) {c : Cfg N} (hr : c.spc.isReturned = false) :
    (∃ l c', Step wrap s c l c' ∧ l.isS = true) ∨
    (c.spc = .connect ∧ (s c.att).conn = .hang ∧ c.ctxDone = false) ∨
    (∃ rest, c.spc = .recv ∧ c.items = .wait :: rest ∧ c.released = false) := by
  cases hp : c.spc with
  | idle =>
      cases wrap
      · exact .inl ⟨_, _, .plainStart rfl hp, rfl⟩
      · exact .inl ⟨_, _, .subInit rfl hp, rfl⟩
  | connect =>
      cases hc : (s c.att).conn with
      | fail => exact .inl ⟨_, _, .connFail hp hc, rfl⟩
      | subFail => exact .inl ⟨_, _, .connSubFail hp hc, rfl⟩
      | ok => exact .inl ⟨_, _, .connOk hp hc, rfl⟩
      | hang =>
          cases hd : c.ctxDone with
          | true => exact .inl ⟨_, _, .connAbort hp hd, rfl⟩
          | false => exact .inr (.inl ⟨rfl, rfl, rfl⟩)
  | install => exact .inl ⟨_, _, .install hp, rfl⟩
  | recv =>
      cases hi : c.items with
      | nil =>
          cases ht : (s c.att).term with
          | err => exact .inl ⟨_, _, .recvTermErr hp hi ht, rfl⟩
          | eof => exact .inl ⟨_, _, .recvEof hp hi ht, rfl⟩
      | cons it rest =>
          cases it with
          | msg m => exact .inl ⟨_, _, .recvMsg hp hi, rfl⟩
          | wait =>
              cases hrl : c.released with
              | true => exact .inl ⟨_, _, .recvWait hp hi hrl, rfl⟩
              | false => exact .inr (.inr ⟨rest, rfl, rfl, rfl⟩)
  | handling evs r =>
      cases evs with
      | nil => exact .inl ⟨_, _, .handled hp, rfl⟩
      | cons e rest => exact .inl ⟨_, _, .handle hp, rfl⟩
  | check => exact .inl ⟨_, _, .check hp, rfl⟩
  | runErr => exact .inl ⟨_, _, .runErr hp, rfl⟩
  | innerRet e =>
      cases wrap
      · exact .inl ⟨_, _, .plainRet rfl hp, rfl⟩
      · exact .inl ⟨_, _, .disc rfl hp, rfl⟩
  | ctxCheck e =>
      cases hd : c.ctxDone with
      | true => exact .inl ⟨_, _, .ctxExit hp hd, rfl⟩
      | false => exact .inl ⟨_, _, .sleepStart hp hd, rfl⟩
  | sleeping => exact .inl ⟨_, _, .wake hp, rfl⟩
  | resetCb => exact .inl ⟨_, _, .reset hp, rfl⟩
  | finishing => exact .inl ⟨_, _, .finish hp, rfl⟩
  | returned r => simp [hp] at hr

/-- Goroutine K never waits for anything but the return of `Subscribe`, and only when the
context of that `Subscribe` is already cancelled. -/
theorem k_progress {wrap : Bool} (s : Script N) {c : Cfg N} (hi : InvA wrap c)
    (hr : c.kpc.isReturned = false) :
    (∃ l c', Step wrap s c l c' ∧ l.isK = true) ∨
    (wrap = true ∧ c.cancelled = true ∧ c.spc.isIdle = false ∧ c.spc.isReturned = false) := by
  obtain ⟨h1, h2, h3, h4, h5, h6, h7, h8⟩ := hi
  cases hk : c.kpc with
  | idle =>
      cases wrap
      · exact .inl ⟨_, _, .plainClose rfl hk, rfl⟩
      · exact .inl ⟨_, _, .closeCs rfl hk, rfl⟩
  | inner sd => exact .inl ⟨_, _, .closeInner hk, rfl⟩
  | waiting sd e =>
      cases sd with
      | false => exact .inl ⟨_, _, .closeWait hk (by simp), rfl⟩
      | true =>
          have hcs : c.cancelSet = true := h7 (by simp [hk])
          rw [h1] at hcs
          simp at hcs
          obtain ⟨hw, hidle⟩ := hcs
          cases hret : c.spc.isReturned with
          | true => exact .inl ⟨_, _, .closeWait hk (fun _ => by rw [h6 hw, hret]), rfl⟩
          | false =>
              refine .inr ⟨hw, ?_, hidle, rfl⟩
              rw [h4, h3, h1]; simp [hw, hk, hidle]
  | returned sd e => simp [hk] at hr

/-- 1 while S is in its backoff sleep -/
def sleepN : SPc N → Nat
  | .sleeping => 1
  | _ => 0

/-- the sleep is entered only through `sleepStart` and left through `wake` -/
theorem sleep_step {wrap : Bool} {s : Script N} {c c' : Cfg N} {l : Label}
    (hs : Step wrap s c l c') :
    (l = .wake → sleepN c.spc = 1 ∧ sleepN c'.spc = 0) ∧
    (l ≠ .wake → l ≠ .sleepStart → sleepN c'.spc ≤ sleepN c.spc) := by
  lts_cases hs =>
    simp_all [sleepN, Cfg.doSubInit, Cfg.doPlainStart, Cfg.doConnFail, Cfg.doConnOk, Cfg.doInstall,
      Cfg.doRecvMsg, Cfg.doRecvWait, Cfg.doHandle, Cfg.doRunErr, Cfg.doEof,
      Cfg.doPlainRet, Cfg.doDisc, Cfg.doReset, Cfg.doFinish, Cfg.doCloseCs]

end ClientLTS
end Gnmi
